(** Proofs about the refcounted per-group mutex map (Model/GroupMutex.v):
    an invariant of the transition system, preserved by every atomic step of
    every thread, hence by every schedule; mutual exclusion per group, absence
    of "unlock of unlocked mutex", and emptiness of both maps at quiescence. *)
From Coq Require Import List ZArith Bool PArith Arith Lia.
From KaiV Require Import Model.GroupMutex.
Import ListNotations.
Set Default Timeout 60.
Open Scope Z_scope.

(** ** association lists *)
Lemma lookup_del_same {V} k (m : list (positive * V)) : lookup k (del k m) = None.
Proof.
  induction m as [|[k' v] r IH]; cbn; [reflexivity|].
  destruct (Pos.eqb k k') eqn:E; [exact IH|]. cbn. rewrite E. exact IH.
Qed.
Lemma lookup_del_other {V} j k (m : list (positive * V)) : j <> k -> lookup j (del k m) = lookup j m.
Proof.
  intros Hne. induction m as [|[k' v] r IH]; cbn; [reflexivity|].
  destruct (Pos.eqb k k') eqn:E.
  - apply Pos.eqb_eq in E. subst k'. rewrite IH.
    destruct (Pos.eqb j k) eqn:E2; [apply Pos.eqb_eq in E2; contradiction|reflexivity].
  - cbn. rewrite IH. reflexivity.
Qed.
Lemma lookup_ins_same {V} k (v : V) m : lookup k (ins k v m) = Some v.
Proof. unfold ins. cbn. rewrite Pos.eqb_refl. reflexivity. Qed.
Lemma lookup_ins_other {V} j k (v : V) m : j <> k -> lookup j (ins k v m) = lookup j m.
Proof.
  intros Hne. unfold ins. cbn.
  destruct (Pos.eqb j k) eqn:E; [apply Pos.eqb_eq in E; contradiction|].
  apply lookup_del_other. exact Hne.
Qed.
Lemma lookup_all_none {V} (m : list (positive * V)) : (forall k, lookup k m = None) -> m = [].
Proof.
  destruct m as [|[k v] r]; [reflexivity|]. intros H. specialize (H k). cbn in H.
  rewrite Pos.eqb_refl in H. discriminate.
Qed.

Lemma mem_mid_cons m x l : mem_mid m (x :: l) = Pos.eqb m x || mem_mid m l.
Proof. reflexivity. Qed.
Lemma mem_rem_same m l : mem_mid m (rem_mid m l) = false.
Proof.
  unfold mem_mid, rem_mid. induction l as [|x r IH]; [reflexivity|]. cbn [filter].
  destruct (Pos.eqb m x) eqn:E; cbn [negb]; [exact IH|]. cbn [existsb]. rewrite E. exact IH.
Qed.
Lemma mem_rem_other m' m l : m' <> m -> mem_mid m' (rem_mid m l) = mem_mid m' l.
Proof.
  intros Hne. unfold mem_mid, rem_mid. induction l as [|x r IH]; [reflexivity|]. cbn [filter existsb].
  destruct (Pos.eqb m x) eqn:E; cbn [negb].
  - apply Pos.eqb_eq in E. subst x. rewrite IH.
    destruct (Pos.eqb m' m) eqn:E2; [apply Pos.eqb_eq in E2; contradiction|reflexivity].
  - cbn [existsb]. rewrite IH. reflexivity.
Qed.
Lemma mem_all_false l : (forall m, mem_mid m l = false) -> l = [].
Proof.
  destruct l as [|x r]; [reflexivity|]. intros H. specialize (H x). cbn in H.
  rewrite Pos.eqb_refl in H. discriminate.
Qed.

(** ** counting threads *)
Definition cntp (P : thread -> bool) (l : list thread) : nat := length (filter P l).
Definition b2n (b : bool) : nat := if b then 1%nat else 0%nat.

Lemma cntp_upd P i t t' l :
  nth_error l i = Some t ->
  (cntp P (upd i t' l) + b2n (P t) = cntp P l + b2n (P t'))%nat.
Proof.
  revert i. induction l as [|y r IH]; intros [|j] Hn; cbn in Hn; try discriminate.
  - injection Hn as ->. unfold cntp. cbn. destruct (P t), (P t'); cbn; lia.
  - specialize (IH j Hn). unfold cntp in *. cbn. destruct (P y); cbn; lia.
Qed.
Lemma upd_same {A} i (t : A) l : nth_error l i = Some t -> upd i t l = l.
Proof.
  revert i. induction l as [|y r IH]; intros [|j] Hn; cbn in *; try discriminate.
  - injection Hn as ->. reflexivity.
  - rewrite IH; auto.
Qed.
Lemma in_upd {A} i (t' x : A) l : In x (upd i t' l) -> x = t' \/ In x l.
Proof.
  revert i. induction l as [|y r IH]; intros [|j] Hin; cbn in *; auto.
  - destruct Hin as [<-|Hin]; auto.
  - destruct Hin as [<-|Hin]; auto. destruct (IH j Hin); auto.
Qed.
Lemma nth_upd_same {A} i (t' : A) l t : nth_error l i = Some t -> nth_error (upd i t' l) i = Some t'.
Proof.
  revert i. induction l as [|y r IH]; intros [|j] Hn; cbn in *; try discriminate; auto.
Qed.
Lemma nth_upd_other {A} i j (t' : A) l : i <> j -> nth_error (upd i t' l) j = nth_error l j.
Proof.
  revert i j. induction l as [|y r IH]; intros [|i] [|j] Hne; cbn; auto; try congruence.
Qed.
Lemma cntp_in_pos P t l : In t l -> P t = true -> (1 <= cntp P l)%nat.
Proof.
  induction l as [|y r IH]; intros Hin HP; [contradiction|]. unfold cntp in *. cbn.
  destruct Hin as [->|Hin].
  - rewrite HP. cbn. lia.
  - specialize (IH Hin HP). destruct (P y); cbn; lia.
Qed.
Lemma cntp_two P i j ti tj l :
  i <> j -> nth_error l i = Some ti -> nth_error l j = Some tj ->
  P ti = true -> P tj = true -> (2 <= cntp P l)%nat.
Proof.
  revert i j. induction l as [|y r IH]; intros [|i] [|j] Hne Hi Hj Pi Pj; cbn in *; try discriminate; try congruence.
  - injection Hi as ->. unfold cntp. cbn. rewrite Pi. cbn.
    pose proof (cntp_in_pos P tj r (nth_error_In _ _ Hj) Pj) as H. unfold cntp in H. lia.
  - injection Hj as ->. unfold cntp. cbn. rewrite Pj. cbn.
    pose proof (cntp_in_pos P ti r (nth_error_In _ _ Hi) Pi) as H. unfold cntp in H. lia.
  - assert (Hne' : i <> j) by congruence.
    specialize (IH i j Hne' Hi Hj Pi Pj). unfold cntp in *. cbn. destruct (P y); cbn; lia.
Qed.
Lemma cntp_zero P l : (forall t, In t l -> P t = false) -> cntp P l = 0%nat.
Proof.
  induction l as [|y r IH]; intros H; [reflexivity|]. unfold cntp in *. cbn.
  rewrite (H y (or_introl eq_refl)). apply IH. intros t Ht. apply H. right. exact Ht.
Qed.

(** thread is between A1 and R1 of a section on group [x] (it is counted in the refcount) *)
Definition between (x : group) (t : thread) : bool :=
  match t_pc t with
  | PWait _ | PHold _ => Pos.eqb (t_grp t) x
  | _ => false
  end.
(** thread owns the lock of mutex object [m] (between A2 and R2) *)
Definition holds (m : mid) (t : thread) : bool :=
  match t_pc t with
  | PHold m' | PRel (Some m') => Pos.eqb m' m
  | _ => false
  end.

Record inv (c : config) : Prop := mkInv {
  i_ref : forall x, lookup x (gm_refs (c_gm c)) =
                    if Nat.eqb (cntp (between x) (c_thr c)) 0 then None
                    else Some (Z.of_nat (cntp (between x) (c_thr c)));
  i_map : forall x, lookup x (gm_map (c_gm c)) = None <-> cntp (between x) (c_thr c) = 0%nat;
  i_pc : forall t m, In t (c_thr c) -> (t_pc t = PWait m \/ t_pc t = PHold m) ->
                     lookup (t_grp t) (gm_map (c_gm c)) = Some m;
  i_lock : forall m, cntp (holds m) (c_thr c) = b2n (mem_mid m (gm_locked (c_gm c)));
  i_nopanic : gm_panic (c_gm c) = false
}.

Lemma inv_init progs : inv (init progs).
Proof.
  assert (Hb : forall P, (forall t, t_pc t = PIdle -> P t = false) ->
                         cntp P (c_thr (init progs)) = 0%nat).
  { intros P HP. apply cntp_zero. intros t Ht. apply HP. cbn in Ht.
    apply in_map_iff in Ht. destruct Ht as [p [<- _]]. reflexivity. }
  constructor; cbn [init c_gm c_thr gm_empty gm_refs gm_map gm_locked gm_panic].
  - intros x. rewrite Hb; [reflexivity|]. intros t Ht. unfold between. rewrite Ht. reflexivity.
  - intros x. split; [|reflexivity]. intros _. apply Hb. intros t Ht. unfold between. rewrite Ht. reflexivity.
  - intros t m Ht [H|H]; apply in_map_iff in Ht; destruct Ht as [p [<- _]]; discriminate.
  - intros m. apply Hb. intros t Ht. unfold holds. rewrite Ht. reflexivity.
  - reflexivity.
Qed.

Lemma zget_of_inv c x : inv c -> zget x (gm_refs (c_gm c)) = Z.of_nat (cntp (between x) (c_thr c)).
Proof.
  intros I. unfold zget. rewrite (i_ref c I x).
  destruct (Nat.eqb _ 0) eqn:E; [apply Nat.eqb_eq in E; rewrite E|]; reflexivity.
Qed.

Lemma between_other x y t : t_grp t = x -> x <> y -> between y t = false.
Proof.
  intros <- Hne. unfold between. destruct (t_pc t); try reflexivity;
    (destruct (Pos.eqb (t_grp t) y) eqn:E; [apply Pos.eqb_eq in E; contradiction|reflexivity]).
Qed.

Lemma step_inv c i : inv c -> inv (step c i).
Proof.
  intros I. unfold step. destruct (nth_error (c_thr c) i) as [t|] eqn:Hn; [|exact I].
  destruct c as [g thr]. cbn [c_gm c_thr] in *.
  pose proof (nth_error_In _ _ Hn) as Hin.
  unfold step_thread. destruct (t_pc t) as [|m|m|[m|]] eqn:Hpc.
  - (* PIdle *)
    destruct (t_todo t) as [|x rest] eqn:Htodo.
    { cbn. rewrite upd_same by exact Hn. exact I. }
    assert (Hbt : forall y, between y t = false) by (intros y; unfold between; rewrite Hpc; reflexivity).
    assert (Hht : forall m, holds m t = false) by (intros m; unfold holds; rewrite Hpc; reflexivity).
    assert (Hgen : forall mm,
               cntp (between x) (upd i (mkT (PWait mm) x rest) thr) = S (cntp (between x) thr)
               /\ (forall y, y <> x -> cntp (between y) (upd i (mkT (PWait mm) x rest) thr) = cntp (between y) thr)
               /\ (forall m, cntp (holds m) (upd i (mkT (PWait mm) x rest) thr) = cntp (holds m) thr)).
    { intros mm. set (t' := mkT (PWait mm) x rest).
      assert (Hbt' : forall y, between y t' = Pos.eqb x y) by reflexivity.
      assert (Hht' : forall m, holds m t' = false) by reflexivity.
      repeat split.
      - pose proof (cntp_upd (between x) i t t' thr Hn) as H. rewrite Hbt, Hbt', Pos.eqb_refl in H. cbn in H. lia.
      - intros y Hy. pose proof (cntp_upd (between y) i t t' thr Hn) as H. rewrite Hbt, Hbt' in H.
        destruct (Pos.eqb x y) eqn:E; [apply Pos.eqb_eq in E; congruence|]. cbn in H. lia.
      - intros m. pose proof (cntp_upd (holds m) i t t' thr Hn) as H. rewrite Hht, Hht' in H. cbn in H. lia. }
    pose proof (zget_of_inv _ x I) as Hz. cbn [c_gm c_thr] in Hz.
    unfold acquire_inc.
    destruct (lookup x (gm_map g)) as [m0|] eqn:El; cbn [c_gm c_thr gm_refs gm_map gm_locked gm_panic fst snd].
    + destruct (Hgen m0) as [Hcx [Hcy Hh]]. set (t' := mkT (PWait m0) x rest) in *.
      constructor; cbn [c_gm c_thr gm_refs gm_map gm_locked gm_panic].
      * intros y. destruct (Pos.eq_dec y x) as [->|Hy].
        -- rewrite lookup_ins_same, Hcx, Hz. cbn [Nat.eqb]. f_equal. lia.
        -- rewrite lookup_ins_other by exact Hy. rewrite (Hcy y Hy). exact (i_ref _ I y).
      * intros y. destruct (Pos.eq_dec y x) as [->|Hy].
        -- rewrite Hcx, El. split; intros; discriminate.
        -- rewrite (Hcy y Hy). exact (i_map _ I y).
      * intros t0 m Ht0 Hm. apply in_upd in Ht0. destruct Ht0 as [->|Ht0].
        -- cbn. destruct Hm as [Hm|Hm]; cbn in Hm; [|discriminate]. injection Hm as <-. exact El.
        -- exact (i_pc _ I t0 m Ht0 Hm).
      * intros m. rewrite Hh. exact (i_lock _ I m).
      * exact (i_nopanic _ I).
    + destruct (Hgen (gm_fresh g)) as [Hcx [Hcy Hh]]. set (t' := mkT (PWait (gm_fresh g)) x rest) in *.
      constructor; cbn [c_gm c_thr gm_refs gm_map gm_locked gm_panic].
      * intros y. destruct (Pos.eq_dec y x) as [->|Hy].
        -- rewrite lookup_ins_same, Hcx, Hz. cbn [Nat.eqb]. f_equal. lia.
        -- rewrite lookup_ins_other by exact Hy. rewrite (Hcy y Hy). exact (i_ref _ I y).
      * intros y. destruct (Pos.eq_dec y x) as [->|Hy].
        -- rewrite Hcx, lookup_ins_same. split; intros; discriminate.
        -- rewrite (Hcy y Hy), lookup_ins_other by exact Hy. exact (i_map _ I y).
      * intros t0 m Ht0 Hm. apply in_upd in Ht0. destruct Ht0 as [->|Ht0].
        -- cbn. destruct Hm as [Hm|Hm]; cbn in Hm; [|discriminate]. injection Hm as <-.
           apply lookup_ins_same.
        -- destruct (Pos.eq_dec (t_grp t0) x) as [Hg|Hg].
           ++ exfalso. apply (i_map _ I x) in El. cbn [c_gm c_thr] in El.
              assert (Hb : between x t0 = true).
              { unfold between. destruct Hm as [-> | ->]; rewrite Hg; apply Pos.eqb_refl. }
              pose proof (cntp_in_pos _ _ _ Ht0 Hb). lia.
           ++ rewrite lookup_ins_other by exact Hg. exact (i_pc _ I t0 m Ht0 Hm).
      * intros m. rewrite Hh. exact (i_lock _ I m).
      * exact (i_nopanic _ I).
  - (* PWait m *)
    destruct (mem_mid m (gm_locked g)) eqn:Hl.
    { cbn. rewrite upd_same by exact Hn. exact I. }
    set (t' := mkT (PHold m) (t_grp t) (t_todo t)).
    assert (Hb : forall y, between y t' = between y t) by (intros y; unfold between; rewrite Hpc; reflexivity).
    assert (Hc : forall y, cntp (between y) (upd i t' thr) = cntp (between y) thr).
    { intros y. pose proof (cntp_upd (between y) i t t' thr Hn) as H. rewrite Hb in H. lia. }
    constructor; cbn [c_gm c_thr gm_refs gm_map gm_locked gm_panic].
    + intros x. rewrite Hc. exact (i_ref _ I x).
    + intros x. rewrite Hc. exact (i_map _ I x).
    + intros t0 m0 Ht0 Hm. apply in_upd in Ht0. destruct Ht0 as [->|Ht0].
      * cbn. destruct Hm as [Hm|Hm]; cbn in Hm; [discriminate|]. injection Hm as <-.
        apply (i_pc _ I t m Hin). left. exact Hpc.
      * exact (i_pc _ I t0 m0 Ht0 Hm).
    + intros m0. pose proof (cntp_upd (holds m0) i t t' thr Hn) as H.
      assert (Hh : holds m0 t = false) by (unfold holds; rewrite Hpc; reflexivity).
      assert (Hh' : holds m0 t' = Pos.eqb m m0) by reflexivity.
      rewrite Hh, Hh' in H. pose proof (i_lock _ I m0) as HL. cbn [c_gm c_thr] in HL.
      rewrite mem_mid_cons. destruct (Pos.eqb m m0) eqn:E.
      * apply Pos.eqb_eq in E. subst m0. rewrite Pos.eqb_refl. rewrite Hl in HL. cbn in *. lia.
      * rewrite Pos.eqb_sym, E. cbn in *. lia.
    + exact (i_nopanic _ I).
  - (* PHold m : R1 *)
    assert (Hlk : lookup (t_grp t) (gm_map g) = Some m).
    { apply (i_pc _ I t m Hin). right. exact Hpc. }
    unfold acquire_dec. rewrite Hlk. set (x := t_grp t) in *.
    set (t' := mkT (PRel (Some m)) x (t_todo t)).
    assert (Hbx : between x t = true) by (unfold between; rewrite Hpc; apply Pos.eqb_refl).
    assert (Hb' : forall y, between y t' = false) by reflexivity.
    assert (Hcx : S (cntp (between x) (upd i t' thr)) = cntp (between x) thr).
    { pose proof (cntp_upd (between x) i t t' thr Hn) as H. rewrite Hbx, Hb' in H. cbn in H. lia. }
    assert (Hcy : forall y, y <> x -> cntp (between y) (upd i t' thr) = cntp (between y) thr).
    { intros y Hy. pose proof (cntp_upd (between y) i t t' thr Hn) as H. rewrite Hb' in H.
      rewrite (between_other x y t eq_refl) in H by congruence. lia. }
    assert (Hh : forall m0, cntp (holds m0) (upd i t' thr) = cntp (holds m0) thr).
    { intros m0. pose proof (cntp_upd (holds m0) i t t' thr Hn) as H.
      assert (E : holds m0 t' = holds m0 t) by (unfold holds; rewrite Hpc; reflexivity).
      rewrite E in H. lia. }
    pose proof (zget_of_inv _ x I) as Hz. cbn [c_gm c_thr] in Hz.
    assert (Hpc' : forall t0 m0, In t0 (upd i t' thr) -> (t_pc t0 = PWait m0 \/ t_pc t0 = PHold m0) ->
                                 In t0 thr).
    { intros t0 m0 Ht0 Hm. apply in_upd in Ht0. destruct Ht0 as [->|Ht0]; [|exact Ht0].
      destruct Hm as [Hm|Hm]; discriminate. }
    destruct (zget x (gm_refs g) - 1 =? 0) eqn:Ez; cbn [fst snd c_gm c_thr]; fold t';
      (constructor; cbn [c_gm c_thr gm_refs gm_map gm_locked gm_panic]).
    all: try (intros m0; rewrite Hh; exact (i_lock _ I m0)).
    all: try exact (i_nopanic _ I).
    + intros y. destruct (Pos.eq_dec y x) as [->|Hy].
      * rewrite lookup_del_same. assert (cntp (between x) (upd i t' thr) = 0%nat) by lia.
        rewrite H. reflexivity.
      * rewrite lookup_del_other by exact Hy. rewrite (Hcy y Hy). exact (i_ref _ I y).
    + intros y. destruct (Pos.eq_dec y x) as [->|Hy].
      * rewrite lookup_del_same. split; [intros _; lia|reflexivity].
      * rewrite lookup_del_other by exact Hy. rewrite (Hcy y Hy). exact (i_map _ I y).
    + intros t0 m0 Ht0 Hm. pose proof (Hpc' _ _ Ht0 Hm) as Hold.
      destruct (Pos.eq_dec (t_grp t0) x) as [Hg|Hg].
      * exfalso. assert (Hb0 : between x t0 = true).
        { unfold between. destruct Hm as [-> | ->]; rewrite Hg; apply Pos.eqb_refl. }
        pose proof (cntp_in_pos _ _ _ Ht0 Hb0). lia.
      * rewrite lookup_del_other by exact Hg. exact (i_pc _ I t0 m0 Hold Hm).
    + intros y. destruct (Pos.eq_dec y x) as [->|Hy].
      * rewrite lookup_ins_same.
        destruct (Nat.eqb (cntp (between x) (upd i t' thr)) 0) eqn:E0.
        -- apply Nat.eqb_eq in E0. lia.
        -- f_equal. lia.
      * rewrite lookup_ins_other by exact Hy. rewrite (Hcy y Hy). exact (i_ref _ I y).
    + intros y. destruct (Pos.eq_dec y x) as [->|Hy].
      * rewrite Hlk. split; [discriminate|]. intros H0. lia.
      * rewrite (Hcy y Hy). exact (i_map _ I y).
    + intros t0 m0 Ht0 Hm. exact (i_pc _ I t0 m0 (Hpc' _ _ Ht0 Hm) Hm).
  - (* PRel (Some m) : R2 *)
    assert (Hht : holds m t = true) by (unfold holds; rewrite Hpc; apply Pos.eqb_refl).
    assert (Hl : mem_mid m (gm_locked g) = true).
    { pose proof (i_lock _ I m) as HL. cbn [c_gm c_thr] in HL.
      pose proof (cntp_in_pos _ _ _ Hin Hht). destruct (mem_mid m (gm_locked g)); [reflexivity|cbn in HL; lia]. }
    rewrite Hl. set (t' := mkT PIdle (t_grp t) (t_todo t)).
    assert (Hb : forall y, between y t' = between y t) by (intros y; unfold between; rewrite Hpc; reflexivity).
    assert (Hc : forall y, cntp (between y) (upd i t' thr) = cntp (between y) thr).
    { intros y. pose proof (cntp_upd (between y) i t t' thr Hn) as H. rewrite Hb in H. lia. }
    constructor; cbn [c_gm c_thr gm_refs gm_map gm_locked gm_panic].
    + intros x. rewrite Hc. exact (i_ref _ I x).
    + intros x. rewrite Hc. exact (i_map _ I x).
    + intros t0 m0 Ht0 Hm. apply in_upd in Ht0. destruct Ht0 as [->|Ht0].
      * destruct Hm as [Hm|Hm]; discriminate.
      * exact (i_pc _ I t0 m0 Ht0 Hm).
    + intros m0. pose proof (cntp_upd (holds m0) i t t' thr Hn) as H.
      assert (Hh' : holds m0 t' = false) by reflexivity. rewrite Hh' in H.
      pose proof (i_lock _ I m0) as HL. cbn [c_gm c_thr] in HL.
      destruct (Pos.eq_dec m0 m) as [->|Hne].
      * rewrite mem_rem_same. rewrite Hht in H. rewrite Hl in HL. cbn in *. lia.
      * rewrite mem_rem_other by exact Hne.
        assert (Hh0 : holds m0 t = false).
        { unfold holds. rewrite Hpc. destruct (Pos.eqb m m0) eqn:E; [apply Pos.eqb_eq in E; congruence|reflexivity]. }
        rewrite Hh0 in H. cbn in H. lia.
    + exact (i_nopanic _ I).
  - (* PRel None *)
    set (t' := mkT PIdle (t_grp t) (t_todo t)).
    assert (Hb : forall y, between y t' = between y t) by (intros y; unfold between; rewrite Hpc; reflexivity).
    assert (Hh : forall m0, holds m0 t' = holds m0 t) by (intros m0; unfold holds; rewrite Hpc; reflexivity).
    assert (Hc : forall P, (P t' = P t) -> cntp P (upd i t' thr) = cntp P thr).
    { intros P E. pose proof (cntp_upd P i t t' thr Hn) as H. rewrite E in H. lia. }
    constructor; cbn [c_gm c_thr gm_refs gm_map gm_locked gm_panic].
    + intros x. rewrite (Hc _ (Hb x)). exact (i_ref _ I x).
    + intros x. rewrite (Hc _ (Hb x)). exact (i_map _ I x).
    + intros t0 m0 Ht0 Hm. apply in_upd in Ht0. destruct Ht0 as [->|Ht0].
      * destruct Hm as [Hm|Hm]; discriminate.
      * exact (i_pc _ I t0 m0 Ht0 Hm).
    + intros m0. rewrite (Hc _ (Hh m0)). exact (i_lock _ I m0).
    + exact (i_nopanic _ I).
Qed.

Lemma run_inv sched : forall c, inv c -> inv (run sched c).
Proof.
  induction sched as [|i r IH]; intros c I; [exact I|]. cbn. apply IH. apply step_inv. exact I.
Qed.

(** ** consequences of the invariant *)
Lemma inv_exclusion c : inv c ->
  forall x i j ti tj, i <> j -> nth_error (c_thr c) i = Some ti -> nth_error (c_thr c) j = Some tj ->
                      in_cs x ti -> in_cs x tj -> False.
Proof.
  intros I x i j ti tj Hne Hi Hj [Hgi [mi Hpi]] [Hgj [mj Hpj]].
  pose proof (i_pc _ I ti mi (nth_error_In _ _ Hi) (or_intror Hpi)) as Li.
  pose proof (i_pc _ I tj mj (nth_error_In _ _ Hj) (or_intror Hpj)) as Lj.
  rewrite Hgi in Li. rewrite Hgj in Lj. rewrite Li in Lj. injection Lj as <-.
  assert (Hhi : holds mi ti = true) by (unfold holds; rewrite Hpi; apply Pos.eqb_refl).
  assert (Hhj : holds mi tj = true) by (unfold holds; rewrite Hpj; apply Pos.eqb_refl).
  pose proof (cntp_two _ _ _ _ _ _ Hne Hi Hj Hhi Hhj) as H2.
  rewrite (i_lock _ I mi) in H2. destruct (mem_mid mi _); cbn in H2; lia.
Qed.

Lemma inv_quiescent c : inv c -> (forall t, In t (c_thr c) -> done t) ->
  gm_map (c_gm c) = [] /\ gm_refs (c_gm c) = [] /\ gm_locked (c_gm c) = [].
Proof.
  intros I Hd.
  assert (Hc : forall x, cntp (between x) (c_thr c) = 0%nat).
  { intros x. apply cntp_zero. intros t Ht. destruct (Hd t Ht) as [Hp _]. unfold between. rewrite Hp. reflexivity. }
  assert (Hh : forall m, cntp (holds m) (c_thr c) = 0%nat).
  { intros m. apply cntp_zero. intros t Ht. destruct (Hd t Ht) as [Hp _]. unfold holds. rewrite Hp. reflexivity. }
  repeat split.
  - apply lookup_all_none. intros x. apply (i_map _ I x). apply Hc.
  - apply lookup_all_none. intros x. rewrite (i_ref _ I x), Hc. reflexivity.
  - apply mem_all_false. intros m. pose proof (i_lock _ I m) as HL. rewrite Hh in HL.
    destruct (mem_mid m _); [discriminate|reflexivity].
Qed.

(** the main statement: any number of threads with any programs, any schedule *)
Theorem group_mutex_exclusion_proof :
  forall (progs : list (list group)) (sched : list nat),
    let c := run sched (init progs) in
    (forall x i j ti tj, i <> j -> nth_error (c_thr c) i = Some ti -> nth_error (c_thr c) j = Some tj ->
                         in_cs x ti -> in_cs x tj -> False)
    /\ gm_panic (c_gm c) = false
    /\ ((forall t, In t (c_thr c) -> done t) ->
        gm_map (c_gm c) = [] /\ gm_refs (c_gm c) = [] /\ gm_locked (c_gm c) = []).
Proof.
  intros progs sched c.
  assert (I : inv c) by (apply run_inv, inv_init).
  split; [exact (inv_exclusion c I)|]. split; [exact (i_nopanic c I)|exact (inv_quiescent c I)].
Qed.

(** progress: a thread that is not done and not blocked changes state; a blocked
    thread is blocked by a mutex that some other thread currently owns *)
Lemma blocked_has_owner c i t m : inv c ->
  nth_error (c_thr c) i = Some t -> t_pc t = PWait m -> mem_mid m (gm_locked (c_gm c)) = true ->
  exists j tj, j <> i /\ nth_error (c_thr c) j = Some tj /\ holds m tj = true.
Proof.
  intros I Hn Hpc Hl. pose proof (i_lock _ I m) as HL. rewrite Hl in HL. cbn in HL.
  assert (Hex : exists tj, In tj (c_thr c) /\ holds m tj = true).
  { unfold cntp in HL. destruct (filter (holds m) (c_thr c)) as [|tj r] eqn:E; [discriminate|].
    exists tj. apply filter_In. rewrite E. left. reflexivity. }
  destruct Hex as [tj [Hin Hh]]. apply In_nth_error in Hin. destruct Hin as [j Hj].
  exists j, tj. repeat split; auto. intros ->. rewrite Hn in Hj. injection Hj as <-.
  unfold holds in Hh. rewrite Hpc in Hh. discriminate.
Qed.

(** non-vacuity: three threads on the same group and one on another one, a
    schedule that makes two of them wait while the third is inside, and that
    runs everybody to completion *)
Definition ex_progs : list (list group) := [[1%positive; 1%positive]; [1%positive]; [1%positive; 2%positive]; [2%positive]].
Definition ex_sched1 : list nat := [0; 1; 2; 3; 0; 1; 2; 3]%nat.
Definition ex_sched2 : list nat :=
  ex_sched1 ++ [3;0;0;0;1;1;1;1;2;2;2;2;2;2;2;2;3;3;3;0;0;0;0;0;1;2;3]%nat.
Definition count_in_cs (x : group) (c : config) : nat := length (filter (in_cs_b x) (c_thr c)).

Lemma ex_contention :
  count_in_cs 1%positive (run ex_sched1 (init ex_progs)) = 1%nat
  /\ length (filter (fun t => match t_pc t with PWait _ => true | _ => false end)
                    (c_thr (run ex_sched1 (init ex_progs)))) = 2%nat
  /\ count_in_cs 2%positive (run ex_sched1 (init ex_progs)) = 1%nat
  /\ forallb done_b (c_thr (run ex_sched2 (init ex_progs))) = true
  /\ gm_map (c_gm (run ex_sched2 (init ex_progs))) = [].
Proof. vm_compute. repeat split. Qed.
