(** C14, workload clause — proofs about the pod-group accounting model (Model/JobBooks.v).

    Contents
      1. counting / index lemmas (the index is kept as a permutation of the pods' (status, uid) keys)
      2. list-level invariant [JobOK l j]: every incremental counter of [j] equals its recomputation from
         the pod list [l]; invariant under permutations of [l]
      3. AddTaskInfo of a fresh pod, remove of a present pod (the status passed = the status stored)
      4. UpdateTaskStatus = remove then AddTaskInfo (structural equality of the resulting records)
      5. [Inv] is preserved by every legal history; [Inv] implies the executable check [books_okb]
      6. corollaries: members of PodStatusIndex, structured = vector, getters and gang predicates
      7. refutations: the decrement test that forgets Pipelined (seeded change C14-4), a stale status in
         the passed object, a pod added twice; the decrement test is determined by the increment test *)
Set Default Timeout 60.
From Coq Require Import List ZArith PArith Bool Lia ZifyBool Permutation.
From KaiV Require Import Model.Res Model.Status Model.AMap Model.Node Model.NodeSpec Model.JobBooks Proofs.Node.
Import ListNotations.
Open Scope Z_scope.

(** * 1. Counting and the index *)

Lemma status_eqb_eq a b : status_eqb a b = true <-> a = b.
Proof. destruct a, b; cbn; split; intros H; try reflexivity; discriminate. Qed.

Lemma status_eqb_refl a : status_eqb a a = true.
Proof. apply status_eqb_eq. reflexivity. Qed.

Lemma ikey_eqb_eq a b : ikey_eqb a b = true <-> a = b.
Proof.
  destruct a as [s i], b as [s' i']. unfold ikey_eqb. cbn [fst snd].
  rewrite andb_true_iff, status_eqb_eq, Pos.eqb_eq. split.
  - intros [-> ->]. reflexivity.
  - intros E. injection E as -> ->. split; reflexivity.
Qed.

Lemma ikey_eqb_refl a : ikey_eqb a a = true.
Proof. apply ikey_eqb_eq. reflexivity. Qed.

Lemma cnt_cons {A} (f : A -> bool) x l : cnt f (x :: l) = bz (f x) + cnt f l.
Proof. unfold cnt. cbn [filter]. destruct (f x); cbn [bz List.length]; lia. Qed.

Lemma cnt_nil {A} (f : A -> bool) : cnt f [] = 0.
Proof. reflexivity. Qed.

Lemma cnt_perm {A} (f : A -> bool) l l' : Permutation l l' -> cnt f l = cnt f l'.
Proof. intros P. unfold cnt. rewrite (Permutation_length (perm_filter f _ _ P)). reflexivity. Qed.

Lemma cnt_nonneg {A} (f : A -> bool) l : 0 <= cnt f l.
Proof. unfold cnt. lia. Qed.

Lemma cnt_ext {A} (f g : A -> bool) l : (forall x, f x = g x) -> cnt f l = cnt g l.
Proof.
  intros E. induction l as [|x r IH]; [reflexivity|]. rewrite !cnt_cons, IH, E. reflexivity.
Qed.

Lemma filter_all {A} (f : A -> bool) l : (forall x, In x l -> f x = true) -> filter f l = l.
Proof.
  induction l as [|x r IH]; intros H; cbn [filter]; [reflexivity|].
  rewrite (H x (or_introl eq_refl)). f_equal. apply IH. intros y Hy. apply H. right. exact Hy.
Qed.

Lemma ix_mem_In k i : ix_mem k i = true <-> In k i.
Proof.
  unfold ix_mem. rewrite existsb_exists. split.
  - intros [x [Hx E]]. apply ikey_eqb_eq in E. subst. exact Hx.
  - intros H. exists k. split; [exact H|apply ikey_eqb_refl].
Qed.

Lemma ix_add_fresh k i : ~ In k i -> ix_add k i = k :: i.
Proof.
  intros N. unfold ix_add. destruct (ix_mem k i) eqn:E; [|reflexivity].
  apply ix_mem_In in E. contradiction.
Qed.

Lemma ix_del_perm k i i' : Permutation i (k :: i') -> ~ In k i' -> Permutation (ix_del k i) i'.
Proof.
  intros P N. unfold ix_del.
  eapply Permutation_trans; [apply perm_filter; exact P|].
  cbn [filter]. rewrite ikey_eqb_refl. cbn [negb].
  rewrite filter_all; [apply Permutation_refl|].
  intros x Hx. destruct (ikey_eqb k x) eqn:E; [|reflexivity].
  apply ikey_eqb_eq in E. subst. contradiction.
Qed.

Lemma ix_size_perm s i i' : Permutation i i' -> ix_size s i = ix_size s i'.
Proof. apply cnt_perm. Qed.

Lemma ix_size_pkeys s l : ix_size s (map pkey l) = rc_size s l.
Proof.
  unfold ix_size, rc_size. induction l as [|p r IH]; [reflexivity|].
  cbn [map]. rewrite !cnt_cons, IH. reflexivity.
Qed.

Lemma ix_found_In s id i : In (s, id) i -> ix_found s i = true.
Proof.
  intros H. unfold ix_found. apply existsb_exists. exists (s, id). split; [exact H|].
  unfold in_status. cbn [fst]. apply status_eqb_refl.
Qed.

Lemma pkey_not_in s id l : ~ In id (map jp_id l) -> ~ In (s, id) (map pkey l).
Proof.
  intros N H. apply in_map_iff in H. destruct H as [p [E Hp]]. unfold pkey in E.
  injection E as _ E2. apply N. apply in_map_iff. exists p. split; assumption.
Qed.

Lemma ids_filter (f : jpod -> bool) id l : ~ In id (map jp_id l) -> ~ In id (map jp_id (filter f l)).
Proof.
  intros N H. apply N. apply in_map_iff in H. destruct H as [p [E Hp]].
  apply filter_In in Hp. apply in_map_iff. exists p. split; [exact E|tauto].
Qed.

(** * 2. The list-level invariant *)

Definition PsOK (l : list jpod) (ps : psetb) : Prop :=
  pb_aa ps = rc_active l /\ pb_au ps = rc_used l /\ pb_alive ps = rc_alive l
  /\ Permutation (pb_idx ps) (map pkey l).

Definition JobOK (l : list jpod) (j : jobb) : Prop :=
  jb_active j = rc_active l
  /\ Permutation (jb_idx j) (map pkey l)
  /\ jb_alloc j = rc_alloc l
  /\ jb_allocv j = rc_allocv l
  /\ forall k ps, alookup k (jb_psets j) = Some ps -> PsOK (filter (in_pset k) l) ps.

Lemma rc_alloc_perm l l' : Permutation l l' -> rc_alloc l = rc_alloc l'.
Proof. intros P. unfold rc_alloc. apply rsum_perm, Permutation_map, perm_filter, P. Qed.
Lemma rc_allocv_perm l l' : Permutation l l' -> rc_allocv l = rc_allocv l'.
Proof. intros P. unfold rc_allocv. apply rsum_perm, Permutation_map, perm_filter, P. Qed.

Lemma PsOK_perm l l' ps : Permutation l l' -> PsOK l ps -> PsOK l' ps.
Proof.
  intros P (A & B & C & D). unfold PsOK, rc_active, rc_used, rc_alive.
  rewrite <- !(cnt_perm _ l l' P). repeat split; try assumption.
  eapply Permutation_trans; [exact D|apply Permutation_map, P].
Qed.

Lemma JobOK_perm l l' j : Permutation l l' -> JobOK l j -> JobOK l' j.
Proof.
  intros P (A & B & C & D & E). unfold JobOK.
  rewrite <- (rc_alloc_perm _ _ P), <- (rc_allocv_perm _ _ P). unfold rc_active.
  rewrite <- (cnt_perm _ l l' P).
  split; [exact A|]. split; [eapply Permutation_trans; [exact B|apply Permutation_map, P]|].
  split; [exact C|]. split; [exact D|].
  intros k ps L. eapply PsOK_perm; [apply perm_filter; exact P|]. apply E. exact L.
Qed.

Lemma rc_alloc_cons p l :
  rc_alloc (p :: l) = if is_alloc p then radd (rc_alloc l) (jp_req p) else rc_alloc l.
Proof.
  unfold rc_alloc. cbn [filter]. destruct (is_alloc p); [|reflexivity].
  cbn [map rsum fold_right]. fold (rsum (map jp_req (filter is_alloc l))). res_lia.
Qed.
Lemma rc_allocv_cons p l :
  rc_allocv (p :: l) = if is_alloc p then radd (rc_allocv l) (jp_reqv p) else rc_allocv l.
Proof.
  unfold rc_allocv. cbn [filter]. destruct (is_alloc p); [|reflexivity].
  cbn [map rsum fold_right]. fold (rsum (map jp_reqv (filter is_alloc l))). res_lia.
Qed.

Lemma radd_rsub a b : rsub (radd a b) b = a.
Proof. res_lia. Qed.

(** one pod more in a pod set *)
Lemma PsOK_insert p l ps :
  PsOK l ps -> ~ In (jp_id p) (map jp_id l) -> PsOK (p :: l) (ps_insert p ps).
Proof.
  intros (A & B & C & D) N. unfold PsOK, ps_insert, rc_active, rc_used, rc_alive.
  cbn [pb_aa pb_au pb_alive pb_idx]. rewrite !cnt_cons. unfold is_aa, is_au, is_alive.
  unfold rc_active, rc_used, rc_alive, is_aa, is_au, is_alive in A, B, C.
  repeat split; try lia.
  rewrite ix_add_fresh.
  - cbn [map]. apply perm_skip. exact D.
  - intros H. apply (Permutation_in _ D) in H. revert H. apply pkey_not_in. exact N.
Qed.

(** one pod less in a pod set *)
Lemma PsOK_clear cur l ps :
  PsOK (cur :: l) ps -> ~ In (jp_id cur) (map jp_id l) -> PsOK l (ps_clear (Some cur) ps).
Proof.
  intros (A & B & C & D) N. unfold PsOK, ps_clear, rc_active, rc_used, rc_alive.
  cbn [pb_aa pb_au pb_alive pb_idx].
  unfold rc_active, rc_used, rc_alive in A, B, C. rewrite cnt_cons in A, B, C.
  unfold is_aa at 1 in A. unfold is_au at 1 in B. unfold is_alive at 1 in C.
  repeat split; try lia.
  apply ix_del_perm; [exact D|]. apply pkey_not_in. exact N.
Qed.

(** * 3. AddTaskInfo of a fresh pod; removal of a present pod *)

Lemma amem_aset_mono {V} k k' (v : V) m : amem k m = true -> amem k (aset k' v m) = true.
Proof.
  unfold amem. destruct (Pos.eq_dec k k') as [->|N].
  - rewrite alookup_aset_same. reflexivity.
  - rewrite alookup_aset_other by exact N. tauto.
Qed.

Lemma adel_absent {V} k (m : amap V) : alookup k m = None -> adel k m = m.
Proof.
  induction m as [|[k' v'] r IH]; cbn [alookup adel]; [reflexivity|].
  destruct (Pos.eqb k k'); [discriminate|]. intros A. rewrite IH by exact A. reflexivity.
Qed.

Lemma aset_aset {V} k (x y : V) m : aset k x (aset k y m) = aset k x m.
Proof.
  induction m as [|[k' v'] r IH]; cbn [aset].
  - rewrite Pos.compare_refl. reflexivity.
  - destruct (Pos.compare k k') eqn:E; cbn [aset].
    + rewrite Pos.compare_refl. reflexivity.
    + rewrite Pos.compare_refl. reflexivity.
    + rewrite E, IH. reflexivity.
Qed.

Lemma ids_of_keys (m : amap jpod) :
  Forall (fun kv => jp_id (snd kv) = fst kv) m -> map jp_id (map snd m) = akeys m.
Proof.
  induction 1 as [|[k v] r E F IH]; [reflexivity|]. cbn [map snd fst akeys] in *. cbn in E.
  rewrite E. f_equal. exact IH.
Qed.

Lemma alookup_none_keys {V} k (m : amap V) : alookup k m = None -> ~ In k (akeys m).
Proof.
  induction m as [|[k' v'] r IH]; cbn [alookup akeys map fst]; [tauto|].
  destruct (Pos.eqb_spec k k') as [E|N]; [discriminate|]. intros A [H|H]; [congruence|].
  apply IH in A. apply A. exact H.
Qed.

Lemma sorted_nodup {V} (m : amap V) : sorted_keys m -> NoDup (akeys m).
Proof.
  induction m as [|[k v] r IH]; cbn [sorted_keys akeys map fst]; [constructor|].
  intros [F S]. constructor; [|apply IH; exact S].
  intros H. apply in_map_iff in H. destruct H as [[k' v'] [E Hin]]. cbn in E. subst k'.
  rewrite Forall_forall in F. specialize (F _ Hin). cbn in F. lia.
Qed.

(** the structural part of the invariant *)
Record Shape (j : jobb) : Prop := {
  sh_sorted : sorted_keys (jb_pods j);
  sh_keys : Forall (fun kv => jp_id (snd kv) = fst kv) (jb_pods j);
  sh_psets : Forall (fun kv => amem (jp_pset (snd kv)) (jb_psets j) = true) (jb_pods j);
}.
Definition Inv (j : jobb) : Prop := Shape j /\ JobOK (pods_of j) j.

Lemma fresh_ids j id : Shape j -> alookup id (jb_pods j) = None -> ~ In id (map jp_id (pods_of j)).
Proof.
  intros S A. unfold pods_of. rewrite ids_of_keys by apply (sh_keys _ S). apply alookup_none_keys. exact A.
Qed.

Lemma add_fresh_inv p j : Inv j -> alookup (jp_id p) (jb_pods j) = None -> Inv (add_task_info p j).
Proof.
  intros [S (A & B & C & D & E)] F. unfold add_task_info.
  destruct (alookup (jp_pset p) (jb_psets j)) as [ps|] eqn:L; [|split; [exact S|exact (conj A (conj B (conj C (conj D E))))]].
  pose proof (fresh_ids _ _ S F) as N.
  rewrite (adel_absent _ _ F).
  assert (P : Permutation (p :: pods_of j) (map snd (aset (jp_id p) p (jb_pods j)))).
  { apply Permutation_sym. apply perm_aset. exact F. }
  split.
  - constructor; cbn [jb_pods jb_psets].
    + apply sorted_aset. apply (sh_sorted _ S).
    + apply Forall_aset; [apply (sh_keys _ S)|reflexivity].
    + apply Forall_aset.
      * eapply Forall_impl; [|apply (sh_psets _ S)]. cbn. intros a Ha. apply amem_aset_mono. exact Ha.
      * cbn [snd]. unfold amem. rewrite alookup_aset_same. reflexivity.
  - apply (JobOK_perm _ _ _ P). unfold JobOK.
    cbn [jb_active jb_idx jb_alloc jb_allocv jb_psets].
    unfold rc_active. rewrite cnt_cons, rc_alloc_cons, rc_allocv_cons. unfold is_aa at 1. unfold is_alloc.
    unfold rc_active in A. rewrite A, C, D.
    split; [lia|]. split.
    { rewrite ix_add_fresh.
      - cbn [map]. apply perm_skip. exact B.
      - intros H. apply (Permutation_in _ B) in H. revert H. apply pkey_not_in. exact N. }
    split; [destruct (allocated_status (jp_status p)); reflexivity|].
    split; [destruct (allocated_status (jp_status p)); reflexivity|].
    intros k ps' L'. cbn [filter]. unfold in_pset at 1.
    destruct (Pos.eqb_spec (jp_pset p) k) as [Ek|Nk].
    + subst k. rewrite alookup_aset_same in L'. injection L' as <-.
      unfold ps_entry. rewrite F. unfold ps_assign. cbn [ps_clear].
      apply PsOK_insert; [apply E; exact L|]. apply ids_filter. exact N.
    + rewrite alookup_aset_other in L' by congruence. apply E. exact L'.
Qed.

(** what the removal does to the records (the passed status is the stored one) *)
Lemma remove_legal_inv id cur j :
  Inv j -> alookup id (jb_pods j) = Some cur ->
  Inv (fst (jremove_task id (jp_status cur) j)).
Proof.
  intros [S (A & B & C & D & E)] F. unfold jremove_task, remove_task_g, reset_task_state. rewrite F.
  assert (Eid : jp_id cur = id).
  { apply (alookup_Forall _ _ _ _ (sh_keys _ S) F). }
  assert (P : Permutation (pods_of j) (cur :: map snd (adel id (jb_pods j)))).
  { apply perm_adel. exact F. }
  assert (ND : NoDup (map jp_id (cur :: map snd (adel id (jb_pods j))))).
  { eapply Permutation_NoDup; [apply Permutation_map; exact P|].
    unfold pods_of. rewrite ids_of_keys by apply (sh_keys _ S). apply sorted_nodup. apply (sh_sorted _ S). }
  cbn [map] in ND. apply NoDup_cons_iff in ND. destruct ND as [N _].
  pose proof (JobOK_perm _ _ _ P (conj A (conj B (conj C (conj D E))))) as (A' & B' & C' & D' & E').
  assert (Hin : In (jp_status cur, id) (jb_idx j)).
  { apply (Permutation_in _ (Permutation_sym B')). left. unfold pkey. rewrite Eid. reflexivity. }
  unfold delete_task_index. rewrite (ix_found_In _ _ _ Hin).
  assert (Hps : amem (jp_pset cur) (jb_psets j) = true).
  { apply (alookup_Forall _ _ _ _ (sh_psets _ S) F). }
  unfold amem in Hps. destruct (alookup (jp_pset cur) (jb_psets j)) as [ps|] eqn:L; [|discriminate].
  cbn [fst jb_pods jb_psets jb_alloc jb_allocv jb_idx jb_active]. rewrite L.
  split.
  - constructor; cbn [jb_pods jb_psets].
    + apply sorted_adel. apply (sh_sorted _ S).
    + apply Forall_adel. apply (sh_keys _ S).
    + apply Forall_adel. eapply Forall_impl; [|apply (sh_psets _ S)]. cbn. intros a Ha. apply amem_aset_mono. exact Ha.
  - unfold pods_of. cbn [jb_pods]. set (l' := map snd (adel id (jb_pods j))) in *.
    unfold JobOK. cbn [jb_active jb_idx jb_alloc jb_allocv jb_psets].
    unfold rc_active in A'. rewrite cnt_cons in A'. unfold is_aa at 1 in A'.
    rewrite rc_alloc_cons in C'. rewrite rc_allocv_cons in D'. unfold is_alloc in C', D'.
    split; [unfold rc_active; lia|]. split.
    { apply ix_del_perm.
      - replace (jp_status cur, id) with (pkey cur) by (unfold pkey; rewrite Eid; reflexivity). exact B'.
      - apply pkey_not_in. rewrite <- Eid. exact N. }
    split.
    { destruct (allocated_status (jp_status cur)); [|exact C']. rewrite C'. apply radd_rsub. }
    split.
    { destruct (allocated_status (jp_status cur)); [|exact D']. rewrite D'. apply radd_rsub. }
    intros k ps' L'. destruct (Pos.eq_dec k (jp_pset cur)) as [->|Nk].
    + rewrite alookup_aset_same in L'. injection L' as <-.
      apply PsOK_clear.
      * specialize (E' _ _ L). cbn [filter] in E'. unfold in_pset at 1 in E'.
        rewrite Pos.eqb_refl in E'. exact E'.
      * apply ids_filter. exact N.
    + rewrite alookup_aset_other in L' by exact Nk.
      specialize (E' _ _ L'). cbn [filter] in E'. unfold in_pset at 1 in E'.
      destruct (Pos.eqb_spec (jp_pset cur) k) as [X|_]; [congruence|]. exact E'.
Qed.

(** * 4. UpdateTaskStatus is the removal followed by AddTaskInfo with the new status *)

Lemma update_is_remove_then_add dec id passed new cur j :
  sorted_keys (jb_pods j) -> alookup id (jb_pods j) = Some cur -> jp_id cur = id ->
  amem (jp_pset cur) (jb_psets j) = true ->
  update_task_status_g dec id passed new j
  = (add_task_info (jp_with cur new) (fst (remove_task_g dec id passed j)), false).
Proof.
  intros S F Eid Hps. unfold update_task_status_g, remove_task_g, reset_task_state. rewrite F.
  destruct (delete_task_index dec passed id (jb_idx j) (jb_active j)) as [i a].
  cbn [fst jb_pods jb_psets jb_alloc jb_allocv jb_idx jb_active].
  unfold amem in Hps. destruct (alookup (jp_pset cur) (jb_psets j)) as [ps|] eqn:L; [|discriminate].
  f_equal. unfold add_task_info. cbn [jp_with jp_pset jp_id jp_status jp_req jp_reqv jb_pods jb_psets jb_alloc jb_allocv jb_idx jb_active].
  rewrite L, alookup_aset_same. subst id.
  unfold ps_entry. cbn [jb_pods]. rewrite F, Pos.eqb_refl.
  rewrite (alookup_adel_same _ _ S).
  rewrite (adel_absent _ _ (alookup_adel_same _ _ S)).
  rewrite aset_aset. reflexivity.
Qed.

Lemma update_legal_inv id cur new j :
  Inv j -> alookup id (jb_pods j) = Some cur ->
  Inv (fst (update_task_status id (jp_status cur) new j)).
Proof.
  intros I F. pose proof I as [S _].
  assert (Eid : jp_id cur = id) by apply (alookup_Forall _ _ _ _ (sh_keys _ S) F).
  unfold update_task_status.
  rewrite (update_is_remove_then_add _ _ _ _ cur); try assumption; [|apply (sh_sorted _ S)|apply (alookup_Forall _ _ _ _ (sh_psets _ S) F)].
  cbn [fst]. apply add_fresh_inv.
  - apply remove_legal_inv; assumption.
  - cbn [jp_with jp_id]. unfold remove_task_g, reset_task_state. rewrite F.
    destruct (delete_task_index _ _ _ _ _). cbn [fst jb_pods]. rewrite Eid. apply alookup_adel_same. apply (sh_sorted _ S).
Qed.

(** * 5. Every legal history keeps the books *)

Lemma step_inv j o : Inv j -> legal_op j o = true -> Inv (fst (japply j o)).
Proof.
  intros I Lg. destruct o as [p|id passed new|id passed]; cbn [japply apply_g fst legal_op] in *.
  - apply add_fresh_inv; [exact I|]. unfold amem in Lg.
    destruct (alookup (jp_id p) (jb_pods j)); [discriminate|reflexivity].
  - destruct (alookup id (jb_pods j)) as [cur|] eqn:F.
    + apply status_eqb_eq in Lg. subst passed. apply update_legal_inv; assumption.
    + unfold update_task_status_g. rewrite F. exact I.
  - destruct (alookup id (jb_pods j)) as [cur|] eqn:F.
    + apply status_eqb_eq in Lg. subst passed. apply remove_legal_inv; assumption.
    + unfold remove_task_g. rewrite F. exact I.
Qed.

Lemma run_inv ops : forall j, Inv j -> legal j ops = true -> Inv (jrun j ops).
Proof.
  induction ops as [|o r IH]; intros j I Lg; [exact I|].
  cbn [legal legal_g] in Lg. apply andb_true_iff in Lg. destruct Lg as [L1 L2].
  unfold jrun, run_g. cbn [fold_left]. apply IH; [apply step_inv; assumption|exact L2].
Qed.

Lemma alookup_init k mins ps :
  alookup k (map (fun kv : positive * Z => (fst kv, mkPSB (snd kv) [] 0 0 0)) mins) = Some ps ->
  exists m, ps = mkPSB m [] 0 0 0.
Proof.
  induction mins as [|[k' m] r IH]; cbn [map alookup fst snd]; [discriminate|].
  destruct (Pos.eqb k k'); [|exact IH]. intros E. injection E as <-. exists m. reflexivity.
Qed.

Lemma init_inv mins : Inv (jb_init mins).
Proof.
  split.
  - constructor; cbn; [exact I|constructor|constructor].
  - unfold pods_of, jb_init, JobOK. cbn [jb_pods jb_active jb_idx jb_alloc jb_allocv jb_psets map].
    repeat split; try reflexivity; try apply Permutation_refl.
    all: intros; destruct (alookup_init _ _ _ H) as [m ->]; cbn; try reflexivity; apply Permutation_refl.
Qed.

Lemma req_refl a : req a a = true.
Proof. unfold req. rewrite !Z.eqb_refl. reflexivity. Qed.

Lemma PsOK_okb l ps : PsOK l ps -> pset_books_okb ps l = true.
Proof.
  intros (A & B & C & D). unfold pset_books_okb. rewrite A, B, C, !Z.eqb_refl. cbn [andb].
  apply forallb_forall. intros s _. apply Z.eqb_eq.
  rewrite (ix_size_perm _ _ _ D). apply ix_size_pkeys.
Qed.

Lemma inv_books_ok j : Inv j -> books_okb j = true.
Proof.
  intros [_ (A & B & C & D & E)]. unfold books_okb.
  rewrite !andb_true_iff. split; [split; [split; [split|]|]|].
  - apply Z.eqb_eq. exact A.
  - apply forallb_forall. intros s _. apply Z.eqb_eq.
    rewrite (ix_size_perm _ _ _ B). apply ix_size_pkeys.
  - rewrite C. apply req_refl.
  - rewrite D. apply req_refl.
  - apply forallb_forall. intros k _. destruct (alookup k (jb_psets j)) as [ps|] eqn:L; [|reflexivity].
    apply PsOK_okb. apply E. exact L.
Qed.

(** ** The theorem: after ANY legal history of add / update-status / remove operations on an empty pod
    group (any pod sets), every incremental counter equals its recomputation from the pods. *)
Theorem job_counters_exact mins ops :
  legal (jb_init mins) ops = true -> books_okb (jrun (jb_init mins) ops) = true.
Proof. intros L. apply inv_books_ok, run_inv; [apply init_inv|exact L]. Qed.

(** the same, spelled out *)
Theorem job_counters_exact_unfolded mins ops :
  legal (jb_init mins) ops = true ->
  let j := jrun (jb_init mins) ops in
  let l := pods_of j in
  jb_active j = rc_active l
  /\ (forall s, ix_size s (jb_idx j) = rc_size s l)
  /\ jb_alloc j = rc_alloc l /\ jb_allocv j = rc_allocv l
  /\ (forall k ps, alookup k (jb_psets j) = Some ps ->
        let lk := filter (in_pset k) l in
        pb_aa ps = rc_active lk /\ pb_au ps = rc_used lk /\ pb_alive ps = rc_alive lk
        /\ forall s, ix_size s (pb_idx ps) = rc_size s lk).
Proof.
  intros L. pose proof (run_inv ops _ (init_inv mins) L) as [_ (A & B & C & D & E)]. cbv zeta.
  repeat split; try assumption.
  - intros s. rewrite (ix_size_perm _ _ _ B). apply ix_size_pkeys.
  - apply (E _ _ H).
  - apply (E _ _ H).
  - apply (E _ _ H).
  - intros s. destruct (E _ _ H) as (_ & _ & _ & P). rewrite (ix_size_perm _ _ _ P). apply ix_size_pkeys.
Qed.

(** from any consistent state, not only the empty one *)
Theorem job_counters_exact_from j ops :
  Inv j -> legal j ops = true -> books_okb (jrun j ops) = true.
Proof. intros I L. apply inv_books_ok, run_inv; assumption. Qed.

(** * 6. Corollaries *)

(** PodStatusIndex holds, under each status, exactly the pods that have it *)
Theorem job_index_members mins ops s id :
  legal (jb_init mins) ops = true ->
  let j := jrun (jb_init mins) ops in
  In (s, id) (jb_idx j) <-> exists p, In p (pods_of j) /\ jp_id p = id /\ jp_status p = s.
Proof.
  intros L. pose proof (run_inv ops _ (init_inv mins) L) as [_ (_ & B & _)]. cbv zeta. split.
  - intros H. apply (Permutation_in _ B) in H. apply in_map_iff in H. destruct H as [p [E Hp]].
    exists p. unfold pkey in E. injection E as E1 E2. auto.
  - intros [p [Hp [E1 E2]]]. apply (Permutation_in _ (Permutation_sym B)). apply in_map_iff.
    exists p. split; [unfold pkey; congruence|exact Hp].
Qed.

(** structured and vector form of Allocated agree when they agree pod by pod *)
Theorem job_vector_agrees mins ops :
  legal (jb_init mins) ops = true ->
  let j := jrun (jb_init mins) ops in
  Forall (fun p => jp_req p = jp_reqv p) (pods_of j) -> jb_alloc j = jb_allocv j.
Proof.
  intros L. pose proof (run_inv ops _ (init_inv mins) L) as [_ (_ & _ & C & D & _)]. cbv zeta.
  intros F. rewrite C, D. clear C D. unfold rc_alloc, rc_allocv. f_equal.
  induction F as [|p r Hx Hr IH]; [reflexivity|].
  cbn [filter]. destruct (is_alloc p); cbn [map]; [rewrite Hx; f_equal|]; exact IH.
Qed.

(** the gang predicates read off the pod sets' counters are the ones computed from the pods *)
Theorem job_gang_predicates mins ops k ps :
  legal (jb_init mins) ops = true ->
  let j := jrun (jb_init mins) ops in
  alookup k (jb_psets j) = Some ps ->
  let lk := filter (in_pset k) (pods_of j) in
  ps_gang_satisfied ps = (pb_min ps <=? rc_used lk)
  /\ ps_ready ps = (pb_min ps <=? rc_alive lk - rc_size Gated lk)
  /\ ps_num_pending ps = rc_size Pending lk.
Proof.
  intros L. pose proof (run_inv ops _ (init_inv mins) L) as [_ (_ & _ & _ & _ & E)]. cbv zeta.
  intros H. destruct (E _ _ H) as (A & B & C & P).
  unfold ps_gang_satisfied, ps_ready, ps_num_gated, ps_num_pending.
  rewrite B, C, !(ix_size_perm _ _ _ P), !ix_size_pkeys. repeat split; reflexivity.
Qed.

(** * 7. Refutations *)

Definition w_mins : amap Z := [(1%positive, 1)].
Definition w_pod (id : positive) (s : status) : jpod := mkJP id s 1 (mkRes 1000 1024 1 0 0 0) (mkRes 1000 1024 1 0 0 0).

(** the one-line variant: decrement only when the pod leaves an ALLOCATED status (forgets Pipelined).
    add Pending; -> Pipelined; -> Pending: the counter says 1, no pod is active *)
Definition asym_history : list jop := [JAdd (w_pod 1 Pending); JUpdate 1 Pending Pipelined; JUpdate 1 Pipelined Pending].

Lemma asymmetric_decrement_refuted :
  legal_g allocated_status (jb_init w_mins) asym_history = true
  /\ legal (jb_init w_mins) asym_history = true
  /\ books_okb (run_g allocated_status (jb_init w_mins) asym_history) = false
  /\ jb_active (run_g allocated_status (jb_init w_mins) asym_history) = 1
  /\ rc_active (pods_of (run_g allocated_status (jb_init w_mins) asym_history)) = 0
  /\ books_okb (jrun (jb_init w_mins) asym_history) = true
  /\ jb_active (jrun (jb_init w_mins) asym_history) = 0.
Proof. repeat split; vm_compute; reflexivity. Qed.

(** every further round drifts by one more *)
Fixpoint rounds (n : nat) : list jop :=
  match n with O => [] | S k => JUpdate 1 Pending Pipelined :: JUpdate 1 Pipelined Pending :: rounds k end.

Lemma asymmetric_decrement_drifts n :
  jb_active (run_g allocated_status (jb_init w_mins) (JAdd (w_pod 1 Pending) :: rounds n)) = Z.of_nat n
  /\ rc_active (pods_of (run_g allocated_status (jb_init w_mins) (JAdd (w_pod 1 Pending) :: rounds n))) = 0.
Proof.
  unfold run_g. cbn [fold_left].
  set (j0 := fst (apply_g allocated_status (jb_init w_mins) (JAdd (w_pod 1 Pending)))).
  assert (G : forall n a,
    let j := mkJB (jb_pods j0) (jb_psets j0) (jb_alloc j0) (jb_allocv j0) (jb_idx j0) a in
    jb_active (fold_left (fun s o => fst (apply_g allocated_status s o)) (rounds n) j) = a + Z.of_nat n
    /\ rc_active (pods_of (fold_left (fun s o => fst (apply_g allocated_status s o)) (rounds n) j)) = 0).
  { clear n. induction n as [|n IH]; intros a; cbv zeta.
    - cbn [rounds fold_left]. split; [cbn [jb_active]; lia|vm_compute; reflexivity].
    - cbn [rounds fold_left].
      replace (fst (apply_g allocated_status
                 (fst (apply_g allocated_status
                    (mkJB (jb_pods j0) (jb_psets j0) (jb_alloc j0) (jb_allocv j0) (jb_idx j0) a)
                    (JUpdate 1 Pending Pipelined))) (JUpdate 1 Pipelined Pending)))
        with (mkJB (jb_pods j0) (jb_psets j0) (jb_alloc j0) (jb_allocv j0) (jb_idx j0) (a + 1)).
      + specialize (IH (a + 1)). cbv zeta in IH. destruct IH as [IH1 IH2]. split; [rewrite IH1; lia|exact IH2].
      + cbv - [Z.add Z.sub]. f_equal. lia. }
  specialize (G n 0). cbv zeta in G. change (mkJB (jb_pods j0) (jb_psets j0) (jb_alloc j0) (jb_allocv j0) (jb_idx j0) 0) with j0 in G.
  exact G.
Qed.

(** the decrement test of deleteTaskIndex is determined by the increment test of addTaskIndex:
    the books stay exact along every legal history iff the two tests are the same predicate *)
Lemma decrement_test_unique dec :
  (forall mins ops, legal_g dec (jb_init mins) ops = true -> books_okb (run_g dec (jb_init mins) ops) = true)
  <-> (forall s, dec s = active_allocated s).
Proof.
  split.
  - intros H s. specialize (H w_mins [JAdd (w_pod 1 s); JRemove 1 s]).
    assert (Lg : legal_g dec (jb_init w_mins) [JAdd (w_pod 1 s); JRemove 1 s] = true).
    { destruct s; reflexivity. }
    specialize (H Lg). clear Lg.
    destruct s; destruct (dec _) eqn:E; try reflexivity; exfalso; revert H;
      unfold run_g; cbn [fold_left apply_g fst remove_task_g reset_task_state add_task_info];
      cbn; rewrite ?E; cbn; discriminate.
  - intros E mins ops.
    assert (X : forall ops j, legal_g dec j ops = legal j ops /\ run_g dec j ops = jrun j ops).
    { assert (Y : forall j o, apply_g dec j o = japply j o).
      { intros j o. destruct o as [p|id passed new|id passed]; cbn [apply_g japply]; [reflexivity| |].
        - unfold update_task_status_g, reset_task_state, delete_task_index. rewrite E. reflexivity.
        - unfold remove_task_g, reset_task_state, delete_task_index. rewrite E. reflexivity. }
      clear ops. induction ops as [|o r IH]; intros j; [split; reflexivity|].
      unfold legal, jrun, run_g. cbn [legal_g fold_left]. rewrite Y. destruct (IH (fst (japply j o))) as [I1 I2].
      split; [rewrite I1; reflexivity|exact I2]. }
    destruct (X ops (jb_init mins)) as [X1 X2]. rewrite X1, X2. apply job_counters_exact.
Qed.

(** a copy whose Status is stale: the index is keyed by the passed status, the old entry stays behind.
    pods 1 (Running) and 2 (Pipelined); UpdateTaskStatus(copy of 2 still saying Running, Releasing) *)
Definition stale_history : list jop :=
  [JAdd (w_pod 1 Running); JAdd (w_pod 2 Pipelined); JUpdate 2 Running Releasing].
Lemma stale_status_refuted :
  legal (jb_init w_mins) stale_history = false
  /\ books_okb (jrun (jb_init w_mins) stale_history) = false
  /\ ix_size Pipelined (jb_idx (jrun (jb_init w_mins) stale_history)) = 1
  /\ rc_size Pipelined (pods_of (jrun (jb_init w_mins) stale_history)) = 0
  /\ ix_size Releasing (jb_idx (jrun (jb_init w_mins) stale_history)) = 1
  /\ jb_active (jrun (jb_init w_mins) stale_history) = rc_active (pods_of (jrun (jb_init w_mins) stale_history)).
Proof. repeat split; vm_compute; reflexivity. Qed.

(** AddTaskInfo twice for the same pod counts it twice at pod-group level (the pod set replaces it) *)
Definition double_add_history : list jop := [JAdd (w_pod 1 Running); JAdd (w_pod 1 Running)].
Lemma double_add_refuted :
  legal (jb_init w_mins) double_add_history = false
  /\ books_okb (jrun (jb_init w_mins) double_add_history) = false
  /\ jb_active (jrun (jb_init w_mins) double_add_history) = 2
  /\ rc_active (pods_of (jrun (jb_init w_mins) double_add_history)) = 1
  /\ gpu (jb_alloc (jrun (jb_init w_mins) double_add_history)) = 2.
Proof. repeat split; vm_compute; reflexivity. Qed.

(** non-vacuity: a legal history over two pod sets that moves pods through every kind of status *)
Definition nv_mins : amap Z := [(1%positive, 2); (2%positive, 1)].
Definition nv_pod (id ps : positive) (s : status) : jpod := mkJP id s ps (mkRes 500 1024 1 0 0 0) (mkRes 500 1024 1 0 0 0).
Definition nv_history : list jop :=
  [JAdd (nv_pod 1 1 Running); JAdd (nv_pod 2 1 Pending); JAdd (nv_pod 3 2 Gated); JAdd (nv_pod 4 2 Pending);
   JUpdate 2 Pending Pipelined; JUpdate 1 Running Releasing; JUpdate 4 Pending Allocated; JUpdate 2 Pipelined Pending;
   JUpdate 1 Releasing Running; JUpdate 4 Allocated Binding; JUpdate 9 Pending Running; JRemove 3 Gated;
   JUpdate 2 Pending Pipelined; JUpdate 1 Running Succeeded].
Lemma job_counters_nonvacuous :
  legal (jb_init nv_mins) nv_history = true
  /\ map (fun p => (jp_id p, jp_status p)) (pods_of (jrun (jb_init nv_mins) nv_history))
     = [(1%positive, Succeeded); (2%positive, Pipelined); (4%positive, Binding)]
  /\ jb_active (jrun (jb_init nv_mins) nv_history) = 2
  /\ gpu (jb_alloc (jrun (jb_init nv_mins) nv_history)) = 1
  /\ is_gang_satisfied (jrun (jb_init nv_mins) nv_history) = false
  /\ should_pipeline (jrun (jb_init nv_mins) nv_history) = true
  /\ is_stale (jrun (jb_init nv_mins) nv_history) = false
  /\ books_okb (jrun (jb_init nv_mins) nv_history) = true.
Proof. repeat split; vm_compute; reflexivity. Qed.
