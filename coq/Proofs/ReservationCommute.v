(** Do sections of DIFFERENT groups commute on the store of Model/Reservation.v?
    Not always: the store is not a family of per-group components -- consumer
    pods are shared.  A sync of g1 that deletes a running pod without
    reservation takes away the last live consumer of g2, so the sync of g2
    deletes g2's reservation pod only if it comes second.  (The state needs a
    running pod attached to an unreserved group: it is not reachable by a
    tamper-free history, see C17_live_pods_are_reserved.) *)
From Coq Require Import List PArith Bool.
From KaiV Require Import Model.Reservation.
Import ListNotations.
Set Default Timeout 60.

(** a program of the model on a store, without faults; the final store *)
Definition quiet_world (s : list pod) : world := mkW s 1%positive [] 0 [] no_faults [] [] None [].
Definition store_after {A} (m : M A) (s : list pod) : list pod := w_store (snd (m (quiet_world s))).

Definition syncs_commute_on (s : list pod) : Prop :=
  forall g1 g2, g1 <> g2 ->
    store_after (sync_group g1 ;;; sync_group g2) s = store_after (sync_group g2 ;;; sync_group g1) s.

(** a running multi-fraction consumer of g1 and g2 on node 1; only g2 has a reservation pod *)
Definition nc_store : list pod :=
  [ mkPod 1%positive false (Some 1%positive) None [1%positive; 2%positive] Running None MfYes [];
    mkPod 1%positive true (Some 1%positive) (Some 2%positive) [] Pending (Some 1%positive) MfNo [] ].

Lemma syncs_do_not_commute :
  store_after (sync_group 1%positive ;;; sync_group 2%positive) nc_store = []
  /\ store_after (sync_group 2%positive ;;; sync_group 1%positive) nc_store
     = [ mkPod 1%positive true (Some 1%positive) (Some 2%positive) [] Pending (Some 1%positive) MfNo [] ].
Proof. vm_compute. split; reflexivity. Qed.

Lemma syncs_commute_refuted : ~ (forall s, syncs_commute_on s).
Proof.
  intros H. specialize (H nc_store 1%positive 2%positive). destruct syncs_do_not_commute as [E1 E2].
  rewrite E1, E2 in H. assert (Hne : 1%positive <> 2%positive) by discriminate. specialize (H Hne). discriminate.
Qed.
