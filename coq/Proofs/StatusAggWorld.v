(** C20: which fields the queue controller's change detection must compare, and
    histories of changes and reconciles of both status controllers on one store
    ([world], Model/StatusAgg.v; truth recomputed from pods and current
    preemptibility: [w_truth], Model/StatusAggSpec.v). *)
Set Default Timeout 60.
From Coq Require Import List ZArith PArith Bool Arith Lia.
From KaiV Require Import Model.StatusAgg Model.StatusAggSpec Proofs.StatusAgg.
Import ListNotations.

(** * The explicit detector [cmp_all] is the unconditional patch *)

Lemma queue_differs_all : forall a b, queue_differs cmp_all a b = negb (queue_unchanged a b).
Proof.
  intros a b. unfold queue_differs, queue_unchanged, rstatus_eqb, cmp_all.
  cbn [cmp_alloc cmp_anp cmp_req cmp_children andb].
  destruct (vec_eqb (s_alloc (q_status a)) (s_alloc (q_status b))),
           (vec_eqb (s_anp (q_status a)) (s_anp (q_status b))),
           (vec_eqb (s_req (q_status a)) (s_req (q_status b))),
           (pos_list_eqb (q_children a) (q_children b)); reflexivity.
Qed.

Lemma q_writes_with_all : forall n c, q_writes_with cmp_all n c = q_writes n c.
Proof.
  intros n c. unfold q_writes_with, q_writes. apply existsb_ext_in.
  intros q _. rewrite queue_differs_all. reflexivity.
Qed.

Lemma queue_unchanged_eq : forall c q, queue_unchanged (reconciled_queue c q) q = true -> reconciled_queue c q = q.
Proof.
  intros c [nm pa st ch] H. unfold queue_unchanged in H. apply andb_true_iff in H. destruct H as [H1 H2].
  apply rstatus_eqb_eq in H1. apply pos_list_eqb_eq in H2.
  unfold reconciled_queue in *. cbn [q_name q_parent q_status q_children] in *.
  rewrite H1, H2. reflexivity.
Qed.

Lemma q_reconcile_with_all : forall n c, q_reconcile_with cmp_all n c = q_reconcile n c.
Proof.
  intros n c. unfold q_reconcile_with, q_reconcile. f_equal. apply map_ext. intro q.
  destruct (Pos.eqb (q_name q) n); [|reflexivity].
  rewrite queue_differs_all.
  destruct (queue_unchanged (reconciled_queue c q) q) eqn:E; cbn [negb]; [|reflexivity].
  symmetry. apply queue_unchanged_eq. exact E.
Qed.

Lemma detector_is_unconditional_patch :
  q_detector = cmp_all
  /\ (forall n c, q_reconcile_with q_detector n c = q_reconcile n c)
  /\ (forall n c, q_writes_with q_detector n c = q_writes n c).
Proof. split; [reflexivity|split]; [exact q_reconcile_with_all|exact q_writes_with_all]. Qed.

(** * A reconcile that does not write leaves the store as it is (any detector) *)

Lemma q_no_write_same : forall fs n c, q_writes_with fs n c = false -> q_reconcile_with fs n c = c.
Proof.
  intros fs n [qs pgs] H. unfold q_reconcile_with. cbn [c_queues c_pgs]. f_equal.
  rewrite <- (map_id qs) at 2. apply map_ext_in. intros q Hin.
  destruct (Pos.eqb (q_name q) n) eqn:En; [|reflexivity].
  destruct (queue_differs fs (reconciled_queue {| c_queues := qs; c_pgs := pgs |} q) q) eqn:Ed; [|reflexivity].
  exfalso. unfold q_writes_with in H. cbn [c_queues] in H.
  assert (Ht : existsb (fun q0 => Pos.eqb (q_name q0) n
                 && queue_differs fs (reconciled_queue {| c_queues := qs; c_pgs := pgs |} q0) q0) qs = true).
  { apply existsb_exists. exists q. split; [exact Hin|]. rewrite En, Ed. reflexivity. }
  congruence.
Qed.

Lemma q_pass_quiet_each : forall fs pass c, q_pass_writes fs pass c = false ->
  forall n, In n pass -> q_writes_with fs n c = false.
Proof.
  intros fs. induction pass as [|e pass IH]; intros c H n Hin; [destruct Hin|].
  cbn [q_pass_writes] in H. apply orb_false_iff in H. destruct H as [H1 H2].
  rewrite (q_no_write_same fs e c H1) in H2.
  destruct Hin as [Heq|Hin]; [subst e; exact H1|]. exact (IH c H2 n Hin).
Qed.

Lemma q_writes_with_not_queue : forall fs n c,
  (forall q, In q (c_queues c) -> q_name q <> n) -> q_writes_with fs n c = false.
Proof.
  intros fs n c H. unfold q_writes_with. destruct (existsb _ (c_queues c)) eqn:E; [|reflexivity].
  apply existsb_exists in E. destruct E as (q & Hin & Hq). apply andb_true_iff in Hq. destruct Hq as [Hn _].
  apply Pos.eqb_eq in Hn. exfalso. exact (H q Hin Hn).
Qed.

(** a write-free full pass: no reconcile of any name writes *)
Lemma q_quiet_full_pass_all : forall fs pass c, full_pass (c_queues c) pass ->
  q_pass_writes fs pass c = false -> forall n, q_writes_with fs n c = false.
Proof.
  intros fs pass c Hfull Hq n.
  destruct (q_writes_with fs n c) eqn:E; [|reflexivity]. exfalso.
  pose proof E as E'. unfold q_writes_with in E'. apply existsb_exists in E'.
  destruct E' as (q & Hin & Hqn). apply andb_true_iff in Hqn. destruct Hqn as [Hn _]. apply Pos.eqb_eq in Hn.
  pose proof (q_pass_quiet_each fs pass c Hq n) as Hp. rewrite <- Hn in Hp at 1.
  specialize (Hp (Hfull q Hin)). congruence.
Qed.

(** * Cluster level: after a write-free full pass every field is the truth *)

Lemma q_no_write_children : forall c, (forall n, q_writes n c = false) ->
  forall q, In q (c_queues c) -> q_children q = child_names (q_name q) (c_queues c).
Proof.
  intros c Hnw q Hin. specialize (Hnw (q_name q)). unfold q_writes in Hnw.
  destruct (queue_unchanged (reconciled_queue c q) q) eqn:E.
  - unfold queue_unchanged in E. apply andb_true_iff in E. destruct E as [_ E].
    apply pos_list_eqb_eq in E. unfold reconciled_queue in E. cbn [q_children] in E. symmetry. exact E.
  - exfalso.
    assert (Ht : existsb (fun q0 => Pos.eqb (q_name q0) (q_name q)
                   && negb (queue_unchanged (reconciled_queue c q0) q0)) (c_queues c) = true).
    { apply existsb_exists. exists q. split; [exact Hin|]. rewrite Pos.eqb_refl, E. reflexivity. }
    congruence.
Qed.

Lemma queue_pass_quiet_is_truth : forall (c : cluster) (pass : list positive),
  wf_forest (c_queues c) = true -> full_pass (c_queues c) pass ->
  q_pass_writes cmp_all pass c = false ->
  forall q, In q (c_queues c) ->
    q_status q = true_agg c (q_name q) /\ q_children q = child_names (q_name q) (c_queues c).
Proof.
  intros c pass Hwf Hfull Hq q Hin.
  assert (Hnw : forall n, q_writes n c = false).
  { intro n. rewrite <- q_writes_with_all. exact (q_quiet_full_pass_all cmp_all pass c Hfull Hq n). }
  split; [exact (queue_fixpoint_unique c Hwf Hnw q Hin)|exact (q_no_write_children c Hnw q Hin)].
Qed.

(** * Every field is needed: one stale-but-quiet cluster per field *)

Definition fixpoint_is_truth_for (fs : qfields) : Prop :=
  forall (c : cluster) (pass : list positive),
    wf_forest (c_queues c) = true -> full_pass (c_queues c) pass ->
    q_pass_writes fs pass c = false ->
    forall q, In q (c_queues c) ->
      q_status q = true_agg c (q_name q) /\ q_children q = child_names (q_name q) (c_queues c).

Definition one_pg : list qpodgroup :=
  [{| pg_queue := Some 1%positive; pg_status := {| s_alloc := [1000%Z]; s_anp := [1000%Z]; s_req := [2000%Z] |} |}].
Definition stale_cluster (st : rstatus) (ch : list positive) : cluster :=
  {| c_queues := [{| q_name := 1%positive; q_parent := None; q_status := st; q_children := ch |}]; c_pgs := one_pg |}.

Definition stale_alloc := stale_cluster {| s_alloc := [500%Z]; s_anp := [1000%Z]; s_req := [2000%Z] |} [].
Definition stale_anp := stale_cluster {| s_alloc := [1000%Z]; s_anp := []; s_req := [2000%Z] |} [].
Definition stale_req := stale_cluster {| s_alloc := [1000%Z]; s_anp := [1000%Z]; s_req := [] |} [].
Definition stale_children := stale_cluster {| s_alloc := [1000%Z]; s_anp := [1000%Z]; s_req := [2000%Z] |} [2%positive].

Lemma stale_full_pass : forall st ch, full_pass (c_queues (stale_cluster st ch)) [1%positive].
Proof. intros st ch q [Hq|[]]. subst q. left. reflexivity. Qed.

Ltac refute_with c :=
  let H := fresh "H" in
  intro H; exfalso;
  specialize (H c [1%positive] eq_refl (stale_full_pass _ _) eq_refl _ (or_introl eq_refl));
  vm_compute in H; destruct H as [H1 H2]; discriminate.

Lemma detector_needs_every_field : forall fs, fixpoint_is_truth_for fs <-> fs = cmp_all.
Proof.
  intro fs. split.
  - destruct fs as [[] [] [] []]; try (intros _; reflexivity).
    all: first [ refute_with stale_children | refute_with stale_req | refute_with stale_anp | refute_with stale_alloc ].
  - intros ->. exact queue_pass_quiet_is_truth.
Qed.

(** * Worlds *)

Lemma upd_nth_same : forall {A} (f : A -> A) l i,
  (forall x, nth_error l i = Some x -> f x = x) -> upd_nth i f l = l.
Proof.
  intros A f. induction l as [|x l IH]; intros i H; [destruct i; reflexivity|].
  destruct i as [|i]; cbn [upd_nth].
  - rewrite (H x eq_refl). reflexivity.
  - rewrite IH; [reflexivity|]. intros y Hy. apply H. exact Hy.
Qed.

Lemma pg_no_write_same : forall rule classes pods g,
  pg_writes_with rule classes pods g = false -> pg_step_with rule classes pods g = g.
Proof.
  intros rule classes pods g H. unfold pg_writes_with in H. unfold pg_step_with.
  destruct (pg_reconcile_with rule classes pods g) as [st|]; [|reflexivity].
  apply negb_false_iff, rstatus_eqb_eq in H. subst st. destruct g; reflexivity.
Qed.

Lemma w_quiet_event_same : forall rule fs e w,
  is_reconcile e = true -> w_event_writes_with rule fs e w = false -> w_step_with rule fs e w = w.
Proof.
  intros rule fs e w Hr Hw. destruct e as [ch|i|n]; [discriminate| |].
  - cbn [w_step_with w_event_writes_with] in *. destruct w as [cls gs qs]. unfold with_groups.
    cbn [w_classes w_groups w_queues] in *. f_equal.
    apply upd_nth_same. intros g Hg. rewrite Hg in Hw.
    unfold wg_set_pg. rewrite (pg_no_write_same _ _ _ _ Hw). destruct g; reflexivity.
  - cbn [w_step_with w_event_writes_with] in *. rewrite (q_no_write_same fs n _ Hw).
    destruct w; reflexivity.
Qed.

(** in a quiet pass the store never changes, so every event is quiet at the start state *)
Lemma w_quiet_each : forall rule fs pass w, w_pass_quiet_with rule fs pass w = true ->
  forall e, In e pass ->
    is_reconcile e = true /\ w_event_writes_with rule fs e w = false /\ w_event_errs rule e w = false.
Proof.
  intros rule fs. induction pass as [|x pass IH]; intros w H e Hin; [destruct Hin|].
  cbn [w_pass_quiet_with] in H.
  apply andb_true_iff in H. destruct H as [H Hrest].
  apply andb_true_iff in H. destruct H as [H Herr].
  apply andb_true_iff in H. destruct H as [Hrec Hwr].
  apply negb_true_iff in Hwr. apply negb_true_iff in Herr.
  rewrite (w_quiet_event_same rule fs x w Hrec Hwr) in Hrest.
  destruct Hin as [Heq|Hin]; [subst x; auto|]. exact (IH w Hrest e Hin).
Qed.

(** a quiet reconcile of a pod group under the current rule: the stored status is the truth *)
Lemma group_quiet_truth : forall classes g,
  pg_writes (classes) (wg_pods g) (wg_pg g) = false ->
  pg_reconcile classes (wg_pods g) (wg_pg g) <> None ->
  g_status (wg_pg g) = wg_truth classes g.
Proof.
  intros classes g Hw Hn. unfold pg_writes, pg_writes_with in Hw. fold pg_reconcile in Hw.
  destruct (pg_reconcile classes (wg_pods g) (wg_pg g)) as [st|] eqn:E; [|congruence].
  apply negb_false_iff, rstatus_eqb_eq in Hw. rewrite <- Hw.
  unfold wg_truth. exact (podgroup_sums_if_fixed eq_refl classes (wg_pods g) (wg_pg g) st E).
Qed.

Lemma true_agg_w_truth : forall w a,
  (forall g, In g (w_groups w) -> g_status (wg_pg g) = wg_truth (w_classes w) g) ->
  true_agg (w_cluster w) a = w_truth w a.
Proof.
  intros [cls gs qs] a. unfold true_agg, w_truth, w_cluster. cbn [c_queues c_pgs w_classes w_groups w_queues].
  induction gs as [|g gs IH]; intro H; [reflexivity|].
  cbn [map filter]. unfold pg_in_subtree at 1, wg_in_subtree at 1. cbn [pg_queue pg_status].
  assert (IH' := IH (fun g0 Hg0 => H g0 (or_intror Hg0))).
  destruct (match wg_queue g with Some m => in_subtree qs a m | None => false end).
  - cbn [map]. rewrite !rsum_cons. cbn [pg_status]. rewrite IH'. rewrite (H g (or_introl eq_refl)). reflexivity.
  - exact IH'.
Qed.

Lemma world_fixpoint_is_truth_state : forall (w : world) (pass : list wevent),
  wf_forest (w_queues w) = true -> w_full_pass w pass -> w_pass_quiet pass w = true ->
  forall q, In q (w_queues w) -> queue_reports_truth w q.
Proof.
  intros w pass Hwf [Hfg Hfq] Hquiet q Hin.
  pose proof (w_quiet_each _ _ pass w Hquiet) as Heach.
  assert (Hgroups : forall g, In g (w_groups w) -> g_status (wg_pg g) = wg_truth (w_classes w) g).
  { intros g Hg. destruct (In_nth_error _ _ Hg) as [i Hi].
    assert (Hlt : (i < length (w_groups w))%nat) by (apply nth_error_Some; congruence).
    destruct (Heach (WRecGroup i) (Hfg i Hlt)) as (_ & Hw & He).
    cbn [w_event_writes_with w_event_errs] in Hw, He. rewrite Hi in Hw, He.
    apply group_quiet_truth; [exact Hw|].
    unfold pg_reconcile. destruct (pg_reconcile_with anp_rule (w_classes w) (wg_pods g) (wg_pg g)); congruence. }
  assert (Hnw : forall n, q_writes n (w_cluster w) = false).
  { intro n. destruct (q_writes n (w_cluster w)) eqn:E; [|reflexivity]. exfalso.
    pose proof E as E'. unfold q_writes in E'. apply existsb_exists in E'.
    destruct E' as (q0 & Hin0 & Hq0). apply andb_true_iff in Hq0. destruct Hq0 as [Hn _]. apply Pos.eqb_eq in Hn.
    destruct (Heach (WRecQueue (q_name q0)) (Hfq q0 Hin0)) as (_ & Hw & _).
    cbn [w_event_writes_with] in Hw. unfold q_detector in Hw. rewrite q_writes_with_all, Hn in Hw. congruence. }
  pose proof (queue_fixpoint_unique (w_cluster w) Hwf Hnw q Hin) as Hst.
  pose proof (q_no_write_children (w_cluster w) Hnw q Hin) as Hch.
  rewrite (true_agg_w_truth w (q_name q) Hgroups) in Hst.
  unfold queue_reports_truth. rewrite Hst. repeat split. exact Hch.
Qed.

(** for every initial store and every history *)
Lemma world_fixpoint_is_truth : forall (w0 : world) (h pass : list wevent),
  let w := w_run h w0 in
  wf_forest (w_queues w) = true -> w_full_pass w pass -> w_pass_quiet pass w = true ->
  forall q, In q (w_queues w) -> queue_reports_truth w q.
Proof. intros w0 h pass w. exact (world_fixpoint_is_truth_state w pass). Qed.

(** contrapositive, as the monitor uses it: a stale field forces a write (or a
    failing reconcile) somewhere in every full pass *)
Lemma world_stale_forces_write : forall (w0 : world) (h pass : list wevent),
  let w := w_run h w0 in
  wf_forest (w_queues w) = true -> w_full_pass w pass ->
  (exists q, In q (w_queues w) /\ ~ queue_reports_truth w q) ->
  w_pass_quiet pass w = false.
Proof.
  intros w0 h pass w Hwf Hfull (q & Hin & Hnot).
  destruct (w_pass_quiet pass w) eqn:E; [|reflexivity].
  exfalso. apply Hnot. exact (world_fixpoint_is_truth_state w pass Hwf Hfull E q Hin).
Qed.

(** * The flip history: team (2) under dept (1), one non-preemptible group with a Running pod *)

Definition ex_world0 : world :=
  {| w_classes := ex_classes;
     w_groups := [{| wg_queue := Some 2%positive; wg_pods := [ex_pod]; wg_pg := ex_pg0 |}];
     w_queues := [{| q_name := 1%positive; q_parent := None; q_status := rzero; q_children := [] |};
                  {| q_name := 2%positive; q_parent := Some 1%positive; q_status := rzero; q_children := [] |}] |}.

(** created and reconciled bottom-up twice; spec.preemptibility flipped to
    preemptible with NO other change; pod group, queue and ancestor reconciled
    bottom-up, then top-down, then again *)
Definition ex_flip_history : list wevent :=
  [WRecGroup 0; WRecQueue 2; WRecQueue 1; WRecGroup 0; WRecQueue 2; WRecQueue 1;
   WChange (WSetSpec 0 SpecPreemptible);
   WRecGroup 0; WRecQueue 2; WRecQueue 1; WRecQueue 1; WRecQueue 2; WRecGroup 0; WRecQueue 2; WRecQueue 1]%positive.

Definition ex_world_pass : list wevent := [WRecGroup 0; WRecQueue 1; WRecQueue 2; WRecQueue 2; WRecQueue 1]%positive.

Definition anp_of (w : world) : list vec := map (fun q => s_anp (q_status q)) (w_queues w).
Definition true_anp_of (w : world) : list vec := map (fun q => s_anp (w_truth w (q_name q))) (w_queues w).

Lemma ex_full_world_pass : forall w, length (w_groups w) = 1%nat -> map q_name (w_queues w) = [1; 2]%positive ->
  w_full_pass w ex_world_pass.
Proof.
  intros w Hg Hq. split.
  - intros i Hi. rewrite Hg in Hi. assert (i = 0%nat) by lia. subst i. left. reflexivity.
  - intros q Hin. apply (in_map q_name) in Hin. rewrite Hq in Hin.
    destruct Hin as [H|[H|[]]]; rewrite <- H; unfold ex_world_pass; cbn [In]; auto.
Qed.

(** the detector that ignores AllocatedNonPreemptible: after the flip every
    reconcile pass is write-free while both queues keep the stale value; the
    detector of the current model repairs both *)
Lemma detector_without_anp_stale :
  let w := w_run_with anp_rule cmp_without_anp ex_flip_history ex_world0 in
  wf_forest (w_queues w) = true
  /\ w_full_pass w ex_world_pass
  /\ w_pass_quiet_with anp_rule cmp_without_anp ex_world_pass w = true
  /\ map (fun g => s_anp (g_status (wg_pg g))) (w_groups w) = [[]]
  /\ map (fun q => s_anp (q_status q)) (w_queues w) = [[1000; 0; 2000]; [1000; 0; 2000]]%Z
  /\ map (fun q => s_anp (w_truth w (q_name q))) (w_queues w) = [[]; []]
  /\ (let w' := w_run ex_flip_history ex_world0 in
      map (fun q => s_anp (q_status q)) (w_queues w') = [[]; []]
      /\ map (fun q => s_anp (w_truth w' (q_name q))) (w_queues w') = [[]; []]
      /\ w_pass_quiet ex_world_pass w' = true).
Proof.
  cbv zeta. split; [vm_compute; reflexivity|]. split; [apply ex_full_world_pass; vm_compute; reflexivity|].
  repeat split; vm_compute; reflexivity.
Qed.

Lemma stale_head : forall (w : world) (x : vec) (xs ys : list vec),
  anp_of w = x :: xs -> true_anp_of w = [] :: ys -> x <> [] ->
  exists q, In q (w_queues w) /\ s_anp (q_status q) <> s_anp (w_truth w (q_name q)).
Proof.
  intros w x xs ys Ha Ht Hx. unfold anp_of in Ha. unfold true_anp_of in Ht.
  destruct (w_queues w) as [|q1 rest]; [discriminate|].
  exists q1. split; [left; reflexivity|].
  cbn [map] in Ha, Ht. injection Ha as Ha1 _. injection Ht as Ht1 _.
  rewrite Ha1, Ht1. exact Hx.
Qed.

Lemma detector_without_anp_refuted :
  exists (w0 : world) (h pass : list wevent),
    let w := w_run_with anp_rule cmp_without_anp h w0 in
    wf_forest (w_queues w) = true /\ w_full_pass w pass
    /\ w_pass_quiet_with anp_rule cmp_without_anp pass w = true
    /\ exists q, In q (w_queues w) /\ s_anp (q_status q) <> s_anp (w_truth w (q_name q)).
Proof.
  exists ex_world0, ex_flip_history, ex_world_pass. cbv zeta.
  destruct detector_without_anp_stale as (Hwf & Hfull & Hq & _ & Ha & Ht & _).
  split; [exact Hwf|]. split; [exact Hfull|]. split; [exact Hq|].
  apply (stale_head _ _ _ _ Ha Ht). discriminate.
Qed.
