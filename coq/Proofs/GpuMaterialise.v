(** Proofs for Model/GpuMaterialise.v: the container admission selects is the one the
    binder selects, and after PreBind it starts with exactly the granted devices and
    portion (property C19, per-container clause). *)
From Coq Require Import List Arith String Ascii Bool Lia.
From KaiV Require Import Model.Strconv Model.GpuRequest Model.GpuRequestSpec Model.GpuMaterialise
     Proofs.GpuRequest.
Import ListNotations.
Set Default Timeout 60.
Open Scope list_scope.

(** ** association lists *)

Lemma lookup_set_same {A} k (v : A) l : lookup k (set_key k v l) = Some v.
Proof.
  induction l as [|[a va] r IH]; cbn [set_key lookup].
  - now rewrite String.eqb_refl.
  - destruct (String.eqb a k) eqn:E; cbn [lookup].
    + now rewrite String.eqb_refl.
    + now rewrite E.
Qed.

Lemma lookup_set_other {A} k k' (v : A) l :
  String.eqb k k' = false -> lookup k' (set_key k v l) = lookup k' l.
Proof.
  intros H. induction l as [|[a va] r IH]; cbn [set_key lookup].
  - now rewrite H.
  - destruct (String.eqb a k) eqn:E; cbn [lookup].
    + apply String.eqb_eq in E. subst a. now rewrite H.
    + now rewrite IH.
Qed.

Lemma lookup_app {A} k (a b : list (string * A)) :
  lookup k (a ++ b) = match lookup k a with Some v => Some v | None => lookup k b end.
Proof.
  induction a as [|[x vx] r IH]; cbn [app lookup]; [reflexivity|].
  destruct (String.eqb x k); [reflexivity|exact IH].
Qed.

Lemma lookup_upsert_same name s : exists d, lookup name (upsert_empty name s) = Some d.
Proof.
  unfold upsert_empty. destruct (lookup name s) as [d|] eqn:E.
  - exists d. exact E.
  - exists []. rewrite lookup_app, E. cbn [lookup]. now rewrite String.eqb_refl.
Qed.

Lemma lookup_upsert_other name n s :
  String.eqb name n = false -> lookup n (upsert_empty name s) = lookup n s.
Proof.
  intros H. unfold upsert_empty. destruct (lookup name s); [reflexivity|].
  rewrite lookup_app. cbn [lookup]. rewrite H. now destruct (lookup n s).
Qed.

Lemma lookup_upsert_keep name n s d :
  lookup n s = Some d -> lookup n (upsert_empty name s) = Some d.
Proof.
  intros H. unfold upsert_empty. destruct (lookup name s); [exact H|].
  now rewrite lookup_app, H.
Qed.

(** ** the environment *)

Lemma last_env_app var a b acc : last_env var (a ++ b) acc = last_env var b (last_env var a acc).
Proof. revert acc. induction a as [|e r IH]; intros acc; cbn [app last_env]; [reflexivity|apply IH]. Qed.

Lemma last_env_in var env : forall acc r,
  last_env var env acc = Some r ->
  acc = Some r \/ exists e, In e env /\ fst e = var /\ snd e = r.
Proof.
  induction env as [|e l IH]; intros acc r H; cbn [last_env] in H; [now left|].
  apply IH in H as [H|(e' & Hin & Hf & Hs)].
  - destruct (String.eqb (fst e) var) eqn:E; [|now left].
    right. exists e. apply String.eqb_eq in E. inversion H. repeat split; auto. now left.
  - right. exists e'. repeat split; auto. now right.
Qed.

Lemma envfrom_val_ext s s' var l : forall acc,
  (forall n, In n l -> lookup n s' = lookup n s) ->
  envfrom_val s' var l acc = envfrom_val s var l acc.
Proof.
  induction l as [|n r IH]; intros acc H; cbn [envfrom_val]; [reflexivity|].
  rewrite (H n (or_introl eq_refl)). apply IH. intros m Hm. apply H. now right.
Qed.

Lemma references_env c e : In e (c_env c) -> references c (snd e) = true.
Proof.
  intros H. unfold references. apply orb_true_iff. left. apply existsb_exists.
  exists e. split; [exact H|apply String.eqb_refl].
Qed.

Lemma references_envfrom c n : In n (c_envfrom c) -> references c n = true.
Proof.
  intros H. unfold references. apply orb_true_iff. right. apply existsb_exists.
  exists n. split; [exact H|apply String.eqb_refl].
Qed.

(** a container's environment depends only on the config maps it references *)
Lemma eff_env_ext s s' c var :
  (forall n, references c n = true -> lookup n s' = lookup n s) ->
  eff_env s' c var = eff_env s c var.
Proof.
  intros H. unfold eff_env.
  destruct (last_env var (c_env c) None) as [ref|] eqn:E.
  - apply last_env_in in E as [E|(e & Hin & _ & Hs)]; [discriminate|].
    subst ref. now rewrite (H _ (references_env _ _ Hin)).
  - rewrite (envfrom_val_ext s s' var (c_envfrom c) None); [reflexivity|].
    intros n Hn. apply H. now apply references_envfrom.
Qed.

(** ** the selected container *)

Lemma find_container_spec name cs : forall k i,
  find_container name cs k = Some i ->
  k <= i /\ exists c, nth_error cs (i - k) = Some c /\ c_name c = name.
Proof.
  induction cs as [|c r IH]; intros k i H; cbn [find_container] in H; [discriminate|].
  destruct (String.eqb (c_name c) name) eqn:E.
  - inversion H. subst i. split; [lia|]. exists c. rewrite Nat.sub_diag. split; [reflexivity|].
    now apply String.eqb_eq.
  - apply IH in H as (Hk & c' & Hn & Hc). split; [lia|]. exists c'. split; [|exact Hc].
    replace (i - k) with (S (i - S k)) by lia. exact Hn.
Qed.

Lemma ref_in_range p ty i :
  containers p <> [] -> fraction_container_ref p = Some (ty, i) ->
  exists c, nth_error (conts ty p) i = Some c.
Proof.
  intros Hne H. unfold fraction_container_ref in H.
  destruct (a_cname p) as [name|].
  - destruct (find_container name (inits p) 0) as [j|] eqn:E1.
    + inversion H. subst ty i. apply find_container_spec in E1 as (_ & c & Hn & _).
      rewrite Nat.sub_0_r in Hn. now exists c.
    + destruct (find_container name (containers p) 0) as [j|] eqn:E2; [|discriminate].
      inversion H. subst ty i. apply find_container_spec in E2 as (_ & c & Hn & _).
      rewrite Nat.sub_0_r in Hn. now exists c.
  - inversion H. subst ty i. cbn [conts]. destruct (containers p) as [|c0 r]; [congruence|].
    now exists c0.
Qed.

Lemma selected_inv p ty i c :
  selected_container p = Selected ty i c ->
  containers p <> [] /\ fraction_container_ref p = Some (ty, i) /\ nth_error (conts ty p) i = Some c.
Proof.
  unfold selected_container. destruct (containers p) as [|c0 r] eqn:EC; [discriminate|].
  destruct (fraction_container_ref p) as [[ty' i']|]; [|discriminate].
  destruct (nth_error (conts ty' p) i') as [c'|] eqn:EN; [|discriminate].
  intros H. inversion H. subst. repeat split; [discriminate|exact EN].
Qed.

(** a container selected by name carries that name *)
Lemma selected_by_name p ty i c name :
  selected_container p = Selected ty i c -> a_cname p = Some name -> c_name c = name.
Proof.
  intros H Hn. apply selected_inv in H as (_ & Hr & Hc).
  unfold fraction_container_ref in Hr. rewrite Hn in Hr.
  destruct (find_container name (inits p) 0) as [j|] eqn:E1.
  - inversion Hr. subst ty i. cbn [conts] in Hc.
    apply find_container_spec in E1 as (_ & c' & Hc' & Hname).
    rewrite Nat.sub_0_r in Hc'. congruence.
  - destruct (find_container name (containers p) 0) as [j|] eqn:E2; [|discriminate].
    inversion Hr. subst ty i. cbn [conts] in Hc.
    apply find_container_spec in E2 as (_ & c' & Hc' & Hname).
    rewrite Nat.sub_0_r in Hc'. congruence.
Qed.

Lemma selected_intro p ty i c :
  containers p <> [] -> fraction_container_ref p = Some (ty, i) -> nth_error (conts ty p) i = Some c ->
  selected_container p = Selected ty i c.
Proof.
  intros Hne Hr Hn. unfold selected_container. destruct (containers p) as [|c0 r]; [congruence|].
  now rewrite Hr, Hn.
Qed.

(** without the annotation the first regular container is selected *)
Lemma selected_default p ty i c :
  selected_container p = Selected ty i c -> a_cname p = None ->
  ty = RegularC /\ i = 0 /\ nth_error (containers p) 0 = Some c.
Proof.
  intros H Hn. apply selected_inv in H as (_ & Hr & Hc).
  unfold fraction_container_ref in Hr. rewrite Hn in Hr. inversion Hr. subst ty i. auto.
Qed.

Theorem selection_is_by_name p ty i c :
  selected_container p = Selected ty i c ->
  match a_cname p with
  | Some name => c_name c = name
  | None => ty = RegularC /\ i = 0
  end.
Proof.
  intros H. destruct (a_cname p) as [name|] eqn:E.
  - now apply (selected_by_name p ty i c name).
  - destruct (selected_default p ty i c H E) as (A & B & _). auto.
Qed.

(** the last branch of [selected_container] is never taken *)
Theorem selection_total p :
  containers p <> [] ->
  selected_container p = SelNotFound \/ exists ty i c, selected_container p = Selected ty i c.
Proof.
  intros Hne. destruct (fraction_container_ref p) as [[ty i]|] eqn:E.
  - right. destruct (ref_in_range p ty i Hne E) as [c Hc]. exists ty, i, c. now apply selected_intro.
  - left. unfold selected_container. destruct (containers p); [congruence|]. now rewrite E.
Qed.

(** ** update_nth *)

Lemma nth_error_update_same {A} (f : A -> A) l : forall i c,
  nth_error l i = Some c -> nth_error (update_nth i f l) i = Some (f c).
Proof.
  induction l as [|x r IH]; intros [|i] c H; cbn [nth_error update_nth] in *; try discriminate.
  - now inversion H.
  - now apply IH.
Qed.

Lemma nth_error_update_other {A} (f : A -> A) l : forall i j,
  i <> j -> nth_error (update_nth i f l) j = nth_error l j.
Proof.
  induction l as [|x r IH]; intros [|i] [|j] H; cbn [nth_error update_nth]; try reflexivity.
  - congruence.
  - apply IH. congruence.
Qed.

Lemma existsb_update {A} (P : A -> bool) (f : A -> A) l : forall i,
  (forall x, P (f x) = P x) -> existsb P (update_nth i f l) = existsb P l.
Proof.
  induction l as [|x r IH]; intros [|i] H; cbn [existsb update_nth]; try reflexivity.
  - now rewrite H.
  - now rewrite IH.
Qed.

Lemma fold_update {A B} (F : B -> A -> B) (f : A -> A) l : forall i b,
  (forall b x, F b (f x) = F b x) -> fold_left F (update_nth i f l) b = fold_left F l b.
Proof.
  induction l as [|x r IH]; intros [|i] b H; cbn [fold_left update_nth]; try reflexivity.
  - now rewrite H.
  - now apply IH.
Qed.

(** ** what Mutate does to a pod *)

Definition mutated_at (idx : ctype -> nat -> string) (prefix : string) (ty : ctype) (i : nat) (p : gpod) : gpod :=
  let cap := cap_name idx prefix ty i in
  let f := fun c => mutate_container c cap (evar_name cap) in
  {| a_fraction := a_fraction p; a_memory := a_memory p; a_numdev := a_numdev p;
     a_mps := a_mps p; a_cname := a_cname p; a_cm := Some prefix; p_name := p_name p;
     containers := match ty with RegularC => update_nth i f (containers p) | InitC => containers p end;
     inits := match ty with InitC => update_nth i f (inits p) | RegularC => inits p end;
     volumes := filter (fun v => negb (String.eqb (fst v) (vol_name cap))) (volumes p) ++ [(vol_name cap, cap)] |}.

Definition prefix_of (fresh : string) (p : gpod) : string :=
  match a_cm p with Some s => s | None => fresh end.

Lemma mutate_cases idx fresh p :
  (mutate idx fresh p = p /\ (containers p = [] \/ requests_gpu_fraction p = false \/ fraction_container_ref p = None))
  \/ exists ty i, containers p <> [] /\ requests_gpu_fraction p = true
                  /\ fraction_container_ref p = Some (ty, i)
                  /\ mutate idx fresh p = mutated_at idx (prefix_of fresh p) ty i p.
Proof.
  unfold mutate. destruct (containers p) as [|c0 r] eqn:EC; [left; auto|].
  destruct (requests_gpu_fraction p) eqn:ER; cbn [negb]; [|left; auto].
  destruct (fraction_container_ref p) as [[ty i]|] eqn:EF; [|left; auto].
  right. exists ty, i. repeat split; [discriminate|].
  unfold mutated_at, prefix_of, cap_name, evar_name, vol_name. rewrite EC. reflexivity.
Qed.

Lemma mutate_selected idx fresh p ty i c :
  selected_container p = Selected ty i c -> requests_gpu_fraction p = true ->
  mutate idx fresh p = mutated_at idx (prefix_of fresh p) ty i p.
Proof.
  intros H R. apply selected_inv in H as (Hne & Hr & _).
  destruct (mutate_cases idx fresh p) as [(_ & [E|[E|E]])|(ty' & i' & _ & _ & Hr' & E)]; try congruence.
  all: rewrite Hr in Hr'; now inversion Hr'; subst.
Qed.

Lemma mutate_noop idx fresh p : requests_gpu_fraction p = false -> mutate idx fresh p = p.
Proof.
  intros R. destruct (mutate_cases idx fresh p) as [(E & _)|(ty & i & _ & R' & _)]; [exact E|congruence].
Qed.

Lemma update_nth_nonempty {A} (f : A -> A) i l : l <> [] -> update_nth i f l <> [].
Proof. destruct l, i; cbn [update_nth]; intros H; try congruence; discriminate. Qed.

Lemma ref_mutated_at idx prefix ty i p :
  fraction_container_ref (mutated_at idx prefix ty i p) = fraction_container_ref p.
Proof.
  unfold fraction_container_ref, mutated_at. cbn [a_cname inits containers].
  destruct (a_cname p) as [name|]; [|reflexivity].
  destruct ty; rewrite ?find_container_update by reflexivity; reflexivity.
Qed.

Lemma selected_mutated_at idx prefix p ty i c :
  selected_container p = Selected ty i c ->
  selected_container (mutated_at idx prefix ty i p)
  = Selected ty i (mutate_container c (cap_name idx prefix ty i) (evar_name (cap_name idx prefix ty i))).
Proof.
  intros H. apply selected_inv in H as (Hne & Hr & Hn).
  apply selected_intro.
  - unfold mutated_at. cbn [containers]. destruct ty; [now apply update_nth_nonempty|exact Hne].
  - now rewrite ref_mutated_at.
  - unfold mutated_at. destruct ty; cbn [conts containers inits] in *;
      exact (nth_error_update_same
               (fun c0 => mutate_container c0 (cap_name idx prefix _ i) (evar_name (cap_name idx prefix _ i)))
               _ _ _ Hn).
Qed.

(** the container admission selected is, after the mutation, still the selected one:
    same list, same index, same name; it is the original container with the GPU-sharing
    references added when the pod is a sharing request, and untouched otherwise *)
Theorem selected_after_mutate idx fresh p ty i c :
  selected_container p = Selected ty i c ->
  selected_container (mutate idx fresh p)
  = Selected ty i (if requests_gpu_fraction p
                   then mutate_container c (cap_name idx (prefix_of fresh p) ty i)
                                           (evar_name (cap_name idx (prefix_of fresh p) ty i))
                   else c).
Proof.
  intros H. destruct (requests_gpu_fraction p) eqn:R.
  - rewrite (mutate_selected idx fresh p ty i c H R). now apply selected_mutated_at.
  - now rewrite mutate_noop.
Qed.

Theorem selection_survives_mutation idx fresh p ty i c :
  selected_container p = Selected ty i c ->
  exists c', selected_container (mutate idx fresh p) = Selected ty i c' /\ c_name c' = c_name c.
Proof.
  intros H. eexists. split; [apply selected_after_mutate; exact H|].
  destruct (requests_gpu_fraction p); reflexivity.
Qed.

(** every other container, regular or init, is left exactly as it was *)
Theorem mutate_other_containers idx fresh p ty i c ty' j :
  selected_container p = Selected ty i c -> (ty', j) <> (ty, i) ->
  nth_error (conts ty' (mutate idx fresh p)) j = nth_error (conts ty' p) j.
Proof.
  intros H D. destruct (requests_gpu_fraction p) eqn:R; [|now rewrite mutate_noop].
  rewrite (mutate_selected idx fresh p ty i c H R). unfold mutated_at.
  destruct ty, ty'; cbn [conts containers inits]; try reflexivity;
    apply nth_error_update_other; intros E; apply D; now subst.
Qed.

(** ** the mutated pod carries the references *)

Lemma cap_nonempty idx prefix ty i : String.eqb (cap_name idx prefix ty i) "" = false.
Proof. unfold cap_name. destruct prefix; reflexivity. Qed.

Lemma mutate_container_env c cap evar :
  c_env (mutate_container c cap evar)
  = drop3 (c_env c) ++ [(nvidia_visible_devices, cap); (runai_num_of_gpus, cap); (gpu_portion_env, cap)].
Proof. unfold mutate_container. cbn [c_env]. apply add3_shape. Qed.

Lemma carries_mutated_at idx prefix p ty i c :
  selected_container p = Selected ty i c ->
  carries_sharing_refs idx (mutated_at idx prefix ty i p) = true.
Proof.
  intros H. unfold carries_sharing_refs. rewrite (selected_mutated_at idx prefix p ty i c H).
  unfold carries_refs. change (a_cm (mutated_at idx prefix ty i p)) with (Some prefix).
  set (cap := cap_name idx prefix ty i).
  rewrite mutate_container_env, !last_env_app.
  assert (E1 : forall acc, last_env nvidia_visible_devices
                 [(nvidia_visible_devices, cap); (runai_num_of_gpus, cap); (gpu_portion_env, cap)] acc = Some cap)
    by reflexivity.
  assert (E2 : forall acc, last_env runai_num_of_gpus
                 [(nvidia_visible_devices, cap); (runai_num_of_gpus, cap); (gpu_portion_env, cap)] acc = Some cap)
    by reflexivity.
  assert (E3 : forall acc, last_env gpu_portion_env
                 [(nvidia_visible_devices, cap); (runai_num_of_gpus, cap); (gpu_portion_env, cap)] acc = Some cap)
    by reflexivity.
  rewrite E1, E2, E3. cbn [ostr_eqb]. rewrite String.eqb_refl. cbn [andb].
  apply andb_true_iff. split.
  - unfold mutate_container. cbn [c_envfrom].
    destruct (existsb (String.eqb (evar_name cap)) (c_envfrom c)) eqn:E; [exact E|].
    rewrite existsb_app. cbn [existsb]. now rewrite String.eqb_refl, orb_true_r.
  - unfold mutated_at. cbn [volumes]. fold cap. rewrite existsb_app. cbn [existsb fst snd].
    now rewrite !String.eqb_refl, orb_true_r.
Qed.

Theorem mutated_carries_refs idx fresh p ty i c :
  requests_gpu_fraction p = true -> selected_container p = Selected ty i c ->
  carries_sharing_refs idx (mutate idx fresh p) = true.
Proof.
  intros R H. rewrite (mutate_selected idx fresh p ty i c H R). now apply carries_mutated_at with (c := c).
Qed.

(** ** PreBind materialises the grant in the selected container *)

Lemma last_env_has_ref c cap :
  last_env nvidia_visible_devices (c_env c) None = Some cap -> String.eqb cap "" = false ->
  has_nvd_ref c = true.
Proof.
  intros H Hc. apply last_env_in in H as [H|(e & Hin & Hf & Hs)]; [discriminate|].
  unfold has_nvd_ref. apply existsb_exists. exists e. split; [exact Hin|].
  rewrite Hf, Hs, Hc. reflexivity.
Qed.

Lemma ostr_eqb_eq a b : ostr_eqb a (Some b) = true -> a = Some b.
Proof. destruct a as [x|]; cbn [ostr_eqb]; [|discriminate]. intros H. apply String.eqb_eq in H. now subst. Qed.

Theorem prebind_materialises idx cdi ids portion p s :
  carries_sharing_refs idx p = true ->
  exists s', prebind idx true cdi ids portion p s = Some s'
             /\ materialised p s' (visible_devices cdi ids) portion = true.
Proof.
  unfold carries_sharing_refs, carries_refs, prebind, materialised, starts_with. cbn [negb].
  destruct (selected_container p) as [ty i c| |]; try discriminate.
  destruct (a_cm p) as [prefix|]; [|discriminate].
  set (cap := cap_name idx prefix ty i). set (d := visible_devices cdi ids).
  intros H. apply andb_true_iff in H as [H _]. apply andb_true_iff in H as [H _].
  apply andb_true_iff in H as [H H3]. apply andb_true_iff in H as [H1 H2].
  apply ostr_eqb_eq in H1, H2, H3.
  pose proof (cap_nonempty idx prefix ty i) as Hne. fold cap in Hne.
  rewrite (last_env_has_ref c cap H1 Hne).
  destruct (lookup_upsert_same cap s) as [d0 Hd0].
  pose proof (lookup_upsert_keep (evar_name cap) cap _ d0 Hd0) as Hs2.
  set (s2 := upsert_empty (evar_name cap) (upsert_empty cap s)) in *.
  assert (U1 : update_map cap (set_devices d) s2 = Some (set_key cap (set_devices d d0) s2))
    by (unfold update_map; now rewrite Hs2).
  rewrite U1.
  assert (U2 : update_map cap (set_portion portion) (set_key cap (set_devices d d0) s2)
               = Some (set_key cap (set_portion portion (set_devices d d0)) (set_key cap (set_devices d d0) s2)))
    by (unfold update_map; now rewrite lookup_set_same).
  rewrite U2.
  eexists. split; [reflexivity|].
  unfold eff_env. rewrite H1, H2, H3, Hne, lookup_set_same.
  unfold set_portion at 1.
  rewrite (lookup_set_other gpu_portion_env nvidia_visible_devices) by reflexivity.
  rewrite (lookup_set_other runai_num_of_gpus nvidia_visible_devices) by reflexivity.
  unfold set_devices at 1. rewrite lookup_set_same.
  unfold set_portion at 1. rewrite lookup_set_same.
  unfold set_portion at 1.
  rewrite (lookup_set_other gpu_portion_env runai_num_of_gpus) by reflexivity.
  rewrite lookup_set_same.
  cbn [envval_eqb]. now rewrite !String.eqb_refl.
Qed.

(** admission, then the binder: the selected container of the admitted pod carries the
    references and starts with exactly the granted devices and portion, whatever config
    maps (of this pod) exist already *)
Theorem selected_container_materialised idx fresh p ty i c s cdi ids portion :
  requests_gpu_fraction p = true -> selected_container p = Selected ty i c ->
  carries_sharing_refs idx (mutate idx fresh p) = true
  /\ exists s', prebind idx true cdi ids portion (mutate idx fresh p) s = Some s'
                /\ materialised (mutate idx fresh p) s' (visible_devices cdi ids) portion = true.
Proof.
  intros R H. pose proof (mutated_carries_refs idx fresh p ty i c R H) as C.
  split; [exact C|]. now apply prebind_materialises.
Qed.

Theorem materialised_after_repeated_mutation idx fresh fresh' p ty i c s cdi ids portion :
  requests_gpu_fraction p = true -> selected_container p = Selected ty i c ->
  let p2 := mutate idx fresh' (mutate idx fresh p) in
  (exists c', selected_container p2 = Selected ty i c' /\ c_name c' = c_name c)
  /\ carries_sharing_refs idx p2 = true
  /\ exists s', prebind idx true cdi ids portion p2 s = Some s'
                /\ materialised p2 s' (visible_devices cdi ids) portion = true.
Proof.
  intros R H p2. subst p2. rewrite mutate_idempotent.
  split; [now apply selection_survives_mutation|].
  now apply selected_container_materialised with (ty := ty) (i := i) (c := c).
Qed.

(** ** PreBind touches two config maps only *)

Lemma prebind_touches idx cdi ids portion p s s' ty i c prefix :
  selected_container p = Selected ty i c -> a_cm p = Some prefix ->
  prebind idx true cdi ids portion p s = Some s' ->
  forall n, String.eqb (cap_name idx prefix ty i) n = false ->
            String.eqb (evar_name (cap_name idx prefix ty i)) n = false ->
            lookup n s' = lookup n s.
Proof.
  intros Hs Hc H n N1 N2. unfold prebind in H. cbn [negb] in H. rewrite Hs, Hc in H.
  set (cap := cap_name idx prefix ty i) in *.
  set (s2 := upsert_empty (evar_name cap) (upsert_empty cap s)) in *.
  assert (E2 : lookup n s2 = lookup n s).
  { unfold s2. rewrite lookup_upsert_other by exact N2. now apply lookup_upsert_other. }
  unfold update_map in H.
  destruct (lookup (if has_nvd_ref c then cap else evar_name cap) s2) as [d0|]; [|discriminate].
  destruct (lookup cap _) as [d1|]; [|discriminate].
  inversion H. subst s'.
  rewrite lookup_set_other by exact N1.
  rewrite lookup_set_other by (destruct (has_nvd_ref c); assumption).
  exact E2.
Qed.

(** no other container gets a different environment unless it references one of the two
    maps of the selected container *)
Theorem prebind_frame idx cdi ids portion p s s' ty i c prefix :
  selected_container p = Selected ty i c -> a_cm p = Some prefix ->
  prebind idx true cdi ids portion p s = Some s' ->
  forall c2 var,
    references c2 (cap_name idx prefix ty i) = false ->
    references c2 (evar_name (cap_name idx prefix ty i)) = false ->
    eff_env s' c2 var = eff_env s c2 var.
Proof.
  intros Hs Hc H c2 var R1 R2. apply eff_env_ext. intros n Rn.
  apply (prebind_touches idx cdi ids portion p s s' ty i c prefix Hs Hc H).
  - destruct (String.eqb (cap_name idx prefix ty i) n) eqn:E; [|reflexivity].
    apply String.eqb_eq in E. congruence.
  - destruct (String.eqb (evar_name (cap_name idx prefix ty i)) n) eqn:E; [|reflexivity].
    apply String.eqb_eq in E. congruence.
Qed.

(** ** the mutation changes neither verdicts nor the scheduler's reading *)

Lemma first_gpu_limit_mutated_at idx prefix ty i p :
  first_gpu_limit (mutated_at idx prefix ty i p) = first_gpu_limit p.
Proof.
  unfold first_gpu_limit, mutated_at. cbn [containers inits]. rewrite !existsb_app.
  destruct ty; rewrite existsb_update by reflexivity; reflexivity.
Qed.

Lemma init_gpu_mutated_at idx prefix ty i p :
  init_gpu (mutated_at idx prefix ty i p) = init_gpu p.
Proof.
  unfold init_gpu, sum_gpu_requests, mutated_at. cbn [containers inits].
  destruct ty; rewrite fold_update by reflexivity; reflexivity.
Qed.

Theorem mutation_preserves_request en pf idx fresh p :
  validate_gpu_requests pf (mutate idx fresh p) = validate_gpu_requests pf p
  /\ admission_validate en pf (mutate idx fresh p) = admission_validate en pf p
  /\ scheduler_interpret pf (mutate idx fresh p) = scheduler_interpret pf p.
Proof.
  destruct (mutate_cases idx fresh p) as [(E & _)|(ty & i & _ & _ & _ & E)]; rewrite E; [auto|].
  assert (V : validate_gpu_requests pf (mutated_at idx (prefix_of fresh p) ty i p) = validate_gpu_requests pf p).
  { unfold validate_gpu_requests, valid_memory, valid_fraction, valid_numdev.
    rewrite first_gpu_limit_mutated_at. reflexivity. }
  split; [exact V|]. split.
  - unfold admission_validate. rewrite V. reflexivity.
  - unfold scheduler_interpret. rewrite init_gpu_mutated_at. reflexivity.
Qed.

(** the binder's validation (ValidateGpuRequests on the admitted, i.e. mutated, pod)
    accepts what admission accepted *)
Theorem binder_validates_admitted en pf idx fresh p :
  admission_validate en pf p = true -> validate_gpu_requests pf (mutate idx fresh p) = true.
Proof.
  intros H. destruct (mutation_preserves_request en pf idx fresh p) as (V & _ & _).
  rewrite V. now apply admission_validate_inner in H as [H _].
Qed.

(** ** witness: a resolver that hands out a copy of a named init container *)

Definition ex_cont (n : string) : container :=
  {| c_name := n; c_gpu_req := None; c_gpu_lim := None; c_env := []; c_envfrom := [] |}.
Definition ex_init_pod : gpod :=
  {| a_fraction := Some "0.5"%string; a_memory := None; a_numdev := None; a_mps := None;
     a_cname := Some "warmup"%string; a_cm := None; p_name := "train"%string;
     containers := [ex_cont "sidecar"; ex_cont "trainer"];
     inits := [ex_cont "fetch-data"; ex_cont "warmup"]; volumes := [] |}.

Example ex_editing_a_copy :
  let good := mutate idx_str "train-abcdefg-shared-gpu" ex_init_pod in
  let bad := mutate_editing_a_copy idx_str "train-abcdefg-shared-gpu" ex_init_pod in
  selected_container ex_init_pod = Selected InitC 1 (ex_cont "warmup")
  /\ admission_validate true ex_pf bad = true
  (* the code *)
  /\ carries_sharing_refs idx_str good = true
  /\ (exists s', prebind idx_str true false ["3"%string] "0.50" good [] = Some s'
                 /\ materialised good s' "3" "0.50" = true)
  (* the copy *)
  /\ selected_container bad = Selected InitC 1 (ex_cont "warmup")
  /\ carries_sharing_refs idx_str bad = false
  /\ (exists s', prebind idx_str true false ["3"%string] "0.50" bad [] = Some s'
                 /\ materialised bad s' "3" "0.50" = false
                 /\ eff_env s' (ex_cont "warmup") nvidia_visible_devices = EUnset
                 /\ eff_env s' (ex_cont "warmup") gpu_portion_env = EUnset
                 /\ lookup "train-abcdefg-shared-gpu-i1-evar"%string s' = Some [(nvidia_visible_devices, "3"%string)]).
Proof.
  cbv zeta. repeat split; try (vm_compute; reflexivity).
  - eexists. split; [vm_compute; reflexivity|vm_compute; reflexivity].
  - eexists. repeat split; vm_compute; reflexivity.
Qed.
