(** Proofs for C11 (Model/Binder.v, Model/BinderSpec.v).

    Method: a Hoare logic over [prog] whose triples hold for EVERY fault oracle,
    device-plugin oracle and map-order oracle (they are section variables that
    no lemma constrains).  "No injected fault happened during this piece" is
    expressed inside the logic through the ghost counter [s_nfail], so the same
    triples give (1) safety under arbitrary faults and (4) success of a
    fault-free attempt. *)
Set Default Timeout 60.
From Coq Require Import List Arith Bool PeanoNat Lia.
From KaiV Require Import Model.Binder Model.BinderSpec.
Import ListNotations.

(** * Generic facts *)

Lemma mem_nat_In x l : mem_nat x l = true <-> In x l.
Proof.
  unfold mem_nat. rewrite existsb_exists. split.
  - intros (y & Hy & He). apply Nat.eqb_eq in He. subst. exact Hy.
  - intros H. exists x. split; [exact H | apply Nat.eqb_refl].
Qed.

Lemma mem_nat_false x l : mem_nat x l = false <-> ~ In x l.
Proof.
  rewrite <- mem_nat_In. destruct (mem_nat x l); split; intros H; try easy; try (exfalso; apply H; reflexivity).
Qed.

Lemma add_set_In x y l : In y (add_set x l) <-> y = x \/ In y l.
Proof.
  unfold add_set. destruct (mem_nat x l) eqn:E.
  - apply mem_nat_In in E. split; [tauto | intros [->|H]; assumption].
  - rewrite in_app_iff. simpl. split; [intros [H|[H|[]]]; auto | intros [H|H]; auto].
Qed.

Lemma opt_nat_eqb_eq a b : opt_nat_eqb a b = true <-> a = b.
Proof.
  destruct a, b; simpl; split; intros H; try easy.
  - apply Nat.eqb_eq in H. subst. reflexivity.
  - inversion H. apply Nat.eqb_refl.
Qed.

Lemma brphase_eqb_eq a b : brphase_eqb a b = true <-> a = b.
Proof. destruct a, b; simpl; split; intros H; easy. Qed.

Lemma rtype_eqb_refl t : rtype_eqb t t = true.
Proof. destruct t; reflexivity. Qed.

Lemma list_nat_eqb_refl l : list_nat_eqb l l = true.
Proof. induction l; simpl; [reflexivity | rewrite Nat.eqb_refl; exact IHl]. Qed.

Lemma cval_eqb_refl v : cval_eqb v v = true.
Proof. destruct v; simpl; auto using list_nat_eqb_refl. Qed.

(** * exec *)
Section Logic.
  Variable faults : nat -> fault.
  Variable dp : nat -> option nat.
  Variable ord : nat -> list gid.

  Notation exec := (Binder.exec faults no_env dp ord).
  Notation step := (Binder.step faults no_env dp).

  Lemma exec_bind {A B} (m : prog A) (f : A -> prog B) s :
    exec (bind m f) s = let '(s', a) := exec m s in exec (f a) s'.
  Proof.
    revert s. induction m as [a|c k IH|k IH|x k IH|gs k IH|b k IH]; intros s; simpl.
    - reflexivity.
    - destruct (step c s) as [s' r]. apply IH.
    - apply IH.
    - apply IH.
    - apply IH.
    - apply IH.
  Qed.

  Definition triple {A} (P : state -> Prop) (p : prog A) (Q : A -> state -> Prop) : Prop :=
    forall s, P s -> Q (snd (exec p s)) (fst (exec p s)).

  Lemma triple_ret {A} (P : state -> Prop) (a : A) (Q : A -> state -> Prop) :
    (forall s, P s -> Q a s) -> triple P (Ret a) Q.
  Proof. intros H s Hs. simpl. auto. Qed.

  Lemma triple_bind {A B} (P : state -> Prop) (m : prog A) (f : A -> prog B)
        (R : A -> state -> Prop) (Q : B -> state -> Prop) :
    triple P m R -> (forall a, triple (R a) (f a) Q) -> triple P (bind m f) Q.
  Proof.
    intros Hm Hf s Hs. rewrite exec_bind. specialize (Hm s Hs).
    destruct (exec m s) as [s' a]. simpl in Hm. apply (Hf a s' Hm).
  Qed.

  Lemma triple_conseq {A} (P P' : state -> Prop) (p : prog A) (Q Q' : A -> state -> Prop) :
    triple P' p Q' -> (forall s, P s -> P' s) -> (forall a s, Q' a s -> Q a s) -> triple P p Q.
  Proof. intros H HP HQ s Hs. apply HQ, H, HP, Hs. Qed.

  Lemma triple_api {A} (P : state -> Prop) c (k : resp -> prog A) (Q : A -> state -> Prop) :
    (forall s s' r, P s -> step c s = (s', r) -> Q (snd (exec (k r) s')) (fst (exec (k r) s'))) ->
    triple P (Api c k) Q.
  Proof. intros H s Hs. simpl. destruct (step c s) as [s' r] eqn:E. apply (H s s' r Hs E). Qed.

  Lemma triple_api' {A} (P : state -> Prop) c (k : resp -> prog A) (R : resp -> state -> Prop)
        (Q : A -> state -> Prop) :
    (forall s s' r, P s -> step c s = (s', r) -> R r s') ->
    (forall r, triple (R r) (k r) Q) ->
    triple P (Api c k) Q.
  Proof. intros H1 H2. apply triple_api. intros s s' r Hs E. apply (H2 r s'), (H1 s s' r Hs E). Qed.

  Definition set_mem (s : state) (m : mem) : state :=
    mkState (s_store s) m (s_idx s) (s_crashed s) (s_watches s) (s_syncs s)
            (s_nfail s) (s_mark s) (s_mark_end s) (s_log s) (s_hist s).

  Lemma triple_getmem {A} (P : state -> Prop) (k : mem -> prog A) (Q : A -> state -> Prop) :
    (forall m, triple (fun s => P s /\ s_mem s = m) (k m) Q) -> triple P (GetMem k) Q.
  Proof. intros H s Hs. simpl. apply (H (s_mem s) s). auto. Qed.

  Lemma triple_setmem {A} (P : state -> Prop) m (k : prog A) (Q : A -> state -> Prop) :
    triple (fun s' => exists s, P s /\ s' = set_mem s m) k Q -> triple P (SetMem m k) Q.
  Proof. intros H s Hs. simpl. apply H. exists s. auto. Qed.

  Definition bump_syncs (s : state) : state :=
    mkState (s_store s) (s_mem s) (s_idx s) (s_crashed s) (s_watches s) (S (s_syncs s))
            (s_nfail s) (s_mark s) (s_mark_end s) (s_log s) (s_hist s).

  Lemma triple_order {A} (P : state -> Prop) gs (k : list gid -> prog A) (Q : A -> state -> Prop) :
    (forall o, triple (fun s' => exists s, P s /\ s' = bump_syncs s) (k o) Q) -> triple P (Order gs k) Q.
  Proof. intros H s Hs. simpl. apply (H _ (bump_syncs s)). exists s. auto. Qed.

  Definition set_mark (b : bool) (s : state) : state :=
    mkState (s_store s) (s_mem s) (s_idx s) (s_crashed s) (s_watches s) (s_syncs s) (s_nfail s)
            (if b then Some (s_idx s, s_nfail s) else s_mark s)
            (if b then s_mark_end s else Some (s_nfail s)) (s_log s) (s_hist s).

  Lemma triple_mark {A} (P : state -> Prop) b (k : prog A) (Q : A -> state -> Prop) :
    triple (fun s' => exists s, P s /\ s' = set_mark b s) k Q -> triple P (Mark b k) Q.
  Proof. intros H s Hs. simpl. apply H. exists s. auto. Qed.

  (** ** What one API call does to the state *)
  Definition faulted (c : call) (s s' : state) (r : resp) : Prop :=
    (exists k, r = RErr k) /\ s_store s' = s_store s /\ s_nfail s' = S (s_nfail s)
    /\ (s_crashed s = true -> s_crashed s' = true)
    /\ (exists o, (o = FailO \/ o = CrashO) /\ s_log s' = (obs_of c, o) :: s_log s)
    /\ s_hist s' = node_obs (s_store s) :: s_hist s.

  Definition reached (c : call) (s s' : state) (r : resp) : Prop :=
    s_crashed s = false /\ s_crashed s' = false /\ s_nfail s' = s_nfail s
    /\ do_call c (if is_watch c then dp (s_watches s) else None) (s_store s) = (s_store s', r)
    /\ s_log s' = (obs_of c, resp_outcome r) :: s_log s
    /\ s_hist s' = node_obs (s_store s') :: s_hist s.

  Lemma step_spec c s s' r :
    step c s = (s', r) ->
    s_mem s' = s_mem s /\ s_mark s' = s_mark s /\ s_mark_end s' = s_mark_end s
    /\ (faulted c s s' r \/ reached c s s' r).
  Proof.
    unfold Binder.step. cbn [no_env apply_env fold_left]. intros H.
    destruct (s_crashed s) eqn:Ec.
    - inversion H; subst; clear H. simpl. split; [reflexivity|]. split; [reflexivity|]. split; [reflexivity|].
      left. unfold faulted. simpl. rewrite Ec.
      split; [eexists; reflexivity|]. split; [reflexivity|]. split; [reflexivity|]. split; [auto|].
      split; [exists FailO; auto | reflexivity].
    - destruct (faults (s_idx s)) eqn:Ef.
      + destruct (do_call c (if is_watch c then dp (s_watches s) else None) (s_store s)) as [st' r'] eqn:Ed.
        inversion H; subst; clear H. simpl. split; [reflexivity|]. split; [reflexivity|]. split; [reflexivity|].
        right. unfold reached. simpl. rewrite Ec. rewrite Ed. repeat (split; [reflexivity|]). reflexivity.
      + inversion H; subst; clear H. simpl. split; [reflexivity|]. split; [reflexivity|]. split; [reflexivity|].
        left. unfold faulted. simpl. rewrite Ec.
        split; [eexists; reflexivity|]. split; [reflexivity|]. split; [reflexivity|]. split; [auto|].
        split; [exists FailO; auto | reflexivity].
      + inversion H; subst; clear H. simpl. split; [reflexivity|]. split; [reflexivity|]. split; [reflexivity|].
        left. unfold faulted. simpl. rewrite Ec.
        split; [eexists; reflexivity|]. split; [reflexivity|]. split; [reflexivity|]. split; [auto|].
        split; [exists CrashO; auto | reflexivity].
  Qed.

  (** no call changes the consumer's UID *)
  Lemma do_call_uid0 c ans st st' r : do_call c ans st = (st', r) -> p_uid (self st') = p_uid (self st).
  Proof.
    intros H. destruct c; cbn [do_call] in H;
      repeat match type of H with
             | context [if ?x then _ else _] => destruct x eqn:?
             | context [match ?x with _ => _ end] => destruct x eqn:?
             end; inversion H; subst; clear H; try reflexivity.
    all: try (destruct x; reflexivity). all: try (destruct c; reflexivity).
  Qed.

  Lemma exec_uid {A} (p : prog A) : forall s, p_uid (self (s_store (fst (exec p s)))) = p_uid (self (s_store s)).
  Proof.
    induction p as [a | c k IH | k IH | m k IH | gs k IH | b k IH]; intros s; cbn [Binder.exec].
    - reflexivity.
    - destruct (step c s) as [s1 r1] eqn:E. rewrite IH.
      destruct (step_spec _ _ _ _ E) as (_ & _ & _ & [Hf | Hr]).
      + destruct Hf as (_ & -> & _). reflexivity.
      + destruct Hr as (_ & _ & _ & Hd & _). exact (do_call_uid0 _ _ _ _ _ Hd).
    - apply IH.
    - rewrite IH. reflexivity.
    - rewrite IH. reflexivity.
    - rewrite IH. reflexivity.
  Qed.
End Logic.

(** * Invariants *)

(** what never changes about the consumer while the binder runs *)
Definition base (st : store) : Prop :=
  self_alive st = true /\ p_name (self st) = 0 /\ p_rsv (self st) = false /\ p_phase (self st) = PhPending
  /\ Forall (fun p => p_name p <> 0) (others st) /\ p_term (self st) = false.

(** C11.2 as a state invariant: the consumer's server-side node was 0 or 1 after
    every call so far, the number of successful binding calls equals the
    current node (0 or 1), and no binding call named another node *)
Definition hist_ok (s : state) : Prop :=
  Forall (fun n => n = 0 \/ n = 1) (s_hist s)
  /\ binds (s_log s) = p_node (self (s_store s))
  /\ existsb is_bind_elsewhere (s_log s) = false
  /\ (p_node (self (s_store s)) = 0 \/ p_node (self (s_store s)) = 1).

Definition G (s : state) : Prop := base (s_store s) /\ hist_ok s.

Definition not_bind (c : call) : Prop := match c with ABind _ _ => False | _ => True end.

Lemma obs_not_bind c o : not_bind c -> is_bind_ok (obs_of c, o) = false /\ is_bind_elsewhere (obs_of c, o) = false.
Proof. destruct c; simpl; intros H; try contradiction; auto. Qed.

Lemma binds_cons e l : binds (e :: l) = (if is_bind_ok e then 1 else 0) + binds l.
Proof. unfold binds. cbn [filter]. destruct (is_bind_ok e); reflexivity. Qed.

Lemma G_faulted c s s' r :
  G s -> (forall u, c <> ABind false u) -> faulted c s s' r -> G s'.
Proof.
  intros (Hb & Hh & Hbi & He & Hn) Hc (Hr & Hst & _ & _ & (o & Ho & Hlog) & Hhist).
  split.
  - rewrite Hst. exact Hb.
  - unfold hist_ok. rewrite Hhist, Hlog, Hst. repeat split.
    + constructor; [| exact Hh]. unfold node_obs. destruct Hb as (Ha & _). rewrite Ha. exact Hn.
    + rewrite binds_cons.
      assert (is_bind_ok (obs_of c, o) = false) as ->; [| exact Hbi].
      destruct c; simpl; auto; destruct Ho; subst; reflexivity.
    + cbn [existsb]. rewrite He. rewrite orb_false_r.
      destruct c; simpl; auto. destruct selected; auto. exfalso. exact (Hc uid eq_refl).
    + exact Hn.
Qed.

(** a reached call that is not the binding call and leaves the consumer's core alone *)
Lemma G_reached dp c s s' r :
  G s -> not_bind c -> reached dp c s s' r ->
  base (s_store s') -> p_node (self (s_store s')) = p_node (self (s_store s)) -> G s'.
Proof.
  intros (Hb & Hh & Hbi & He & Hn) Hc (_ & _ & _ & _ & Hlog & Hhist) Hb' Hnode.
  split; [exact Hb' |].
  unfold hist_ok. rewrite Hhist, Hlog, Hnode. destruct (obs_not_bind c (resp_outcome r) Hc) as (H1 & H2).
  repeat split.
  - constructor; [| exact Hh]. unfold node_obs. destruct Hb' as (Ha & _). rewrite Ha, Hnode. exact Hn.
  - rewrite binds_cons, H1. exact Hbi.
  - cbn [existsb]. rewrite H2, He. reflexivity.
  - exact Hn.
Qed.

(** ** The reservation sync only deletes other pods *)
Definition only_others (s s' : state) : Prop :=
  self (s_store s') = self (s_store s) /\ self_alive (s_store s') = self_alive (s_store s)
  /\ cm_cap (s_store s') = cm_cap (s_store s) /\ cm_evar (s_store s') = cm_evar (s_store s)
  /\ br (s_store s') = br (s_store s) /\ node_ok (s_store s') = node_ok (s_store s)
  /\ s_mem s' = s_mem s /\ s_mark s' = s_mark s /\ s_mark_end s' = s_mark_end s
  /\ incl (others (s_store s')) (others (s_store s))
  /\ s_nfail s <= s_nfail s' /\ (s_crashed s = true -> s_crashed s' = true).

Lemma only_others_refl s : only_others s s.
Proof. unfold only_others. repeat split; auto using incl_refl. Qed.

Lemma only_others_trans a b c : only_others a b -> only_others b c -> only_others a c.
Proof.
  unfold only_others.
  intros (A1 & A2 & A3 & A4 & A5 & A6 & A7 & A8 & A9 & A10 & A11 & A12)
         (B1 & B2 & B3 & B4 & B5 & B6 & B7 & B8 & B9 & B10 & B11 & B12).
  repeat split; try congruence.
  - eapply incl_tran; eauto.
  - lia.
  - auto.
Qed.

Lemma only_others_faulted c s s' r :
  faulted c s s' r -> s_mem s' = s_mem s -> s_mark s' = s_mark s -> s_mark_end s' = s_mark_end s ->
  only_others s s'.
Proof.
  intros (_ & Hst & Hn & Hc & _) Hm Hk Hke. unfold only_others. rewrite Hst.
  repeat split; auto using incl_refl. lia.
Qed.


Lemma rsv_only_incl st st' : rsv_only st -> incl (others st') (others st) -> rsv_only st'.
Proof. unfold rsv_only. rewrite !Forall_forall. intros H Hi p Hp. apply H, Hi, Hp. Qed.

Lemma G_ext s s' :
  s_store s' = s_store s -> s_log s' = s_log s -> s_hist s' = s_hist s -> G s -> G s'.
Proof. unfold G, hist_ok. intros -> -> ->. auto. Qed.

(** static properties of the pods a list call returns *)
Definition okp (p : pod) : Prop := p_name p = 0 -> p_phase p = PhPending /\ p_rsv p = false.
Definition calm (p : pod) : Prop := p_rsv p = true \/ p_phase p <> PhRunning.

Lemma all_pods_okp st : base st -> Forall okp (all_pods st).
Proof.
  intros (Ha & Hn & Hr & Hp & Ho & Ht). unfold all_pods. rewrite Ha.
  apply Forall_app. split; [| apply Forall_app; split].
  - apply Forall_forall. intros p Hp'. apply filter_In in Hp' as (Hi & _).
    rewrite Forall_forall in Ho. intros E. exfalso. apply (Ho p Hi E).
  - constructor; [| constructor]. intros _. auto.
  - apply Forall_forall. intros p Hp'. apply filter_In in Hp' as (Hi & _).
    rewrite Forall_forall in Ho. intros E. exfalso. apply (Ho p Hi E).
Qed.

Lemma all_pods_calm st : base st -> rsv_only st -> Forall calm (all_pods st).
Proof.
  intros (Ha & Hn & Hr & Hp & Ho & Ht) Hro. unfold all_pods. rewrite Ha.
  unfold rsv_only in Hro. rewrite Forall_forall in Hro.
  apply Forall_app. split; [| apply Forall_app; split].
  - apply Forall_forall. intros p Hp'. apply filter_In in Hp' as (Hi & _). left. auto.
  - constructor; [| constructor]. right. rewrite Hp. discriminate.
  - apply Forall_forall. intros p Hp'. apply filter_In in Hp' as (Hi & _). left. auto.
Qed.

Lemma Forall_filter {A} (P : A -> Prop) f l : Forall P l -> Forall P (filter f l).
Proof. rewrite !Forall_forall. intros H x Hx. apply filter_In in Hx as (Hi & _). auto. Qed.

Section Sync.
  Variable faults : nat -> fault.
  Variable dp : nat -> option nat.
  Variable ord : nat -> list gid.
  Notation exec := (Binder.exec faults no_env dp ord).

  Ltac api E :=
    cbn [Binder.exec];
    match goal with
    | |- context [Binder.step ?f ?e ?d ?c ?s] =>
        let s1 := fresh "s1" in let r1 := fresh "r1" in
        destruct (Binder.step f e d c s) as [s1 r1] eqn:E
    end.

  Definition sync_post (live : Prop) (s s' : state) (r : bool) : Prop :=
    G s' /\ only_others s s' /\ (s_nfail s' = s_nfail s -> live -> r = false).

  (** deleting another pod by name *)
  Lemma delete_other n rf s s1 r1 :
    G s -> n <> 0 -> Binder.step faults no_env dp (ADeletePod n rf) s = (s1, r1) ->
    G s1 /\ only_others s s1
    /\ (s_nfail s1 = s_nfail s -> r1 = ROk \/ r1 = RNotFound).
  Proof.
    intros HG Hn E. pose proof (step_spec _ _ _ _ _ _ E) as (Hm & Hk & Hke & [Hf | Hr]).
    - split; [eapply G_faulted; eauto; discriminate |]. split; [eapply only_others_faulted; eauto |].
      destruct Hf as (_ & _ & Hnf & _). intros Hx. lia.
    - pose proof Hr as (Hc & Hc' & Hnf & Hd & _).
      cbn [do_call is_watch] in Hd. apply Nat.eqb_neq in Hn. rewrite Hn in Hd.
      destruct (has_pod n (others (s_store s))) eqn:Eh; inversion Hd; subst; clear Hd.
      + assert (Hb' : base (s_store s1)).
        { rewrite <- H0. destruct HG as ((Ha & Hn0 & Hrs & Hp & Ho & Ht) & _). repeat split; auto. simpl.
          unfold del_pod. apply Forall_filter. exact Ho. }
        split.
        * eapply G_reached; eauto; [exact I | rewrite <- H0; reflexivity].
        * split; [| auto]. unfold only_others. rewrite <- H0. simpl. rewrite Hnf.
          repeat split; auto. intros p Hp. unfold del_pod in Hp. apply filter_In in Hp. tauto. congruence.
      + split.
        * eapply G_reached; eauto; [exact I | rewrite <- H0; apply HG | rewrite <- H0; reflexivity].
        * split; [| auto]. unfold only_others. rewrite <- H0. rewrite Hnf.
          repeat split; auto using incl_refl. congruence.
  Qed.

  Lemma delete_running_spec ps : forall s,
    G s -> Forall okp ps ->
    sync_post (Forall calm ps /\ Forall (fun p => p_rsv p = false) ps) s
              (fst (exec (delete_running ps) s)) (snd (exec (delete_running ps) s)).
  Proof.
    induction ps as [| p ps IH]; intros s HG Hok.
    - simpl. split; [exact HG |]. split; [apply only_others_refl | auto].
    - inversion Hok as [| ? ? Hp Hok']; subst. cbn [delete_running].
      destruct (p_phase p) eqn:Eph.
      + specialize (IH s HG Hok'). destruct IH as (I1 & I2 & I3). split; [exact I1 |]. split; [exact I2 |].
        intros Hn (Hc & Hr). inversion Hc; inversion Hr; subst. auto.
      + api E.
        assert (Hn0 : p_name p <> 0). { intros E0. destruct (Hp E0) as (Hx & _). congruence. }
        destruct (delete_other _ _ _ _ _ HG Hn0 E) as (HG1 & Hoo & Hlive).
        destruct r1; try (cbn [Binder.exec fst snd]; split; [exact HG1 |]; split; [exact Hoo |];
          intros Hnf (Hc & Hr); inversion Hc as [| ? ? Hcp]; inversion Hr as [| ? ? Hrp]; subst;
          destruct Hcp as [Hcp | Hcp]; congruence).
        specialize (IH s1 HG1 Hok'). destruct IH as (I1 & I2 & I3). split; [exact I1 |].
        split; [eapply only_others_trans; eauto |].
        intros Hnf (Hc & Hr). inversion Hc as [| ? ? Hcp]; inversion Hr as [| ? ? Hrp]; subst.
        destruct Hcp as [Hcp | Hcp]; congruence.
      + specialize (IH s HG Hok'). destruct IH as (I1 & I2 & I3). split; [exact I1 |]. split; [exact I2 |].
        intros Hn (Hc & Hr). inversion Hc; inversion Hr; subst. auto.
  Qed.

  Lemma delete_rsv_spec n rf s :
    G s -> n <> 0 ->
    sync_post True s (fst (exec (delete_rsv n rf) s)) (snd (exec (delete_rsv n rf) s)).
  Proof.
    intros HG Hn. unfold delete_rsv. api E.
    destruct (delete_other _ _ _ _ _ HG Hn E) as (HG1 & Hoo & Hlive).
    destruct r1 as [| k | | | | | | |]; try destruct k; cbn [Binder.exec fst snd]; (split; [exact HG1 |]; split; [exact Hoo |]);
      intros Hnf _; destruct (Hlive Hnf); congruence.
  Qed.

  Lemma last_rsv_spec ps : forall acc r,
    fold_left (fun a p => if p_rsv p then Some p else a) ps acc = Some r ->
    (In r ps /\ p_rsv r = true) \/ acc = Some r.
  Proof.
    induction ps as [| p ps IH]; intros acc r H; simpl in H.
    - right. exact H.
    - destruct (IH _ _ H) as [(Hi & Hr) | Ha].
      + left. split; [right; exact Hi | exact Hr].
      + destruct (p_rsv p) eqn:Ep.
        * inversion Ha; subst. left. split; [left; reflexivity | exact Ep].
        * right. exact Ha.
  Qed.

  Lemma sync_for_pods_spec ps s :
    G s -> Forall okp ps ->
    sync_post (Forall calm ps) s (fst (exec (sync_for_pods ps) s)) (snd (exec (sync_for_pods ps) s)).
  Proof.
    intros HG Hok. unfold sync_for_pods.
    set (fr := filter (fun p => negb (p_rsv p) && active_phase p) ps).
    assert (Hfr_ok : Forall okp fr) by (apply Forall_filter; exact Hok).
    assert (Hfr_nr : Forall (fun p => p_rsv p = false) fr).
    { apply Forall_forall. intros p Hp. apply filter_In in Hp as (_ & Hp). apply andb_true_iff in Hp as (Hp & _).
      apply negb_true_iff in Hp. exact Hp. }
    destruct fr as [| f0 fr'] eqn:Efr; destruct (last_rsv ps) as [r |] eqn:El.
    - (* no consumer, a reservation pod: delete it *)
      unfold last_rsv in El. destruct (last_rsv_spec _ _ _ El) as [(Hi & Hr) | Hx]; [| discriminate].
      assert (Hn : p_name r <> 0).
      { rewrite Forall_forall in Hok. intros E0. destruct (Hok r Hi E0) as (_ & Hx). rewrite Hr in Hx. discriminate. }
      destruct (delete_rsv_spec (p_name r) (ref_of r) s HG Hn) as (I1 & I2 & I3).
      split; [exact I1 |]. split; [exact I2 |]. intros Hnf _. auto.
    - simpl. split; [exact HG |]. split; [apply only_others_refl | auto].
    - simpl. split; [exact HG |]. split; [apply only_others_refl | auto].
    - (* consumers without a reservation pod: delete the running ones *)
      destruct (delete_running_spec (f0 :: fr') s HG Hfr_ok) as (I1 & I2 & I3).
      split; [exact I1 |]. split; [exact I2 |]. intros Hnf Hc. apply I3; auto. split; [| exact Hfr_nr].
      rewrite <- Efr. apply Forall_filter. exact Hc.
  Qed.

  Lemma list_call l s s1 r1 :
    G s -> Binder.step faults no_env dp (AList l) s = (s1, r1) ->
    G s1 /\ only_others s s1
    /\ (((exists k, r1 = RErr k) /\ s_nfail s1 = S (s_nfail s))
        \/ (r1 = RPods (filter (selects l) (all_pods (s_store s))) /\ s_store s1 = s_store s
            /\ s_nfail s1 = s_nfail s)).
  Proof.
    intros HG E. pose proof (step_spec _ _ _ _ _ _ E) as (Hm & Hk & Hke & [Hf | Hr]).
    - split; [eapply G_faulted; eauto; discriminate |]. split; [eapply only_others_faulted; eauto |].
      left. destruct Hf as (Hr & _ & Hnf & _). auto.
    - pose proof Hr as (Hc & Hc' & Hnf & Hd & _). cbn [do_call is_watch] in Hd. inversion Hd; subst; clear Hd.
      split.
      + eapply G_reached; eauto; [exact I | rewrite <- H0; apply HG | rewrite <- H0; reflexivity].
      + split; [| right; auto]. unfold only_others. rewrite <- H0, Hnf.
        repeat split; auto using incl_refl. congruence.
  Qed.

  Lemma sync_group_spec g s :
    G s -> sync_post (rsv_only (s_store s)) s (fst (exec (sync_group g) s)) (snd (exec (sync_group g) s)).
  Proof.
    intros HG. unfold sync_group. api E1.
    destruct (list_call _ _ _ _ HG E1) as (HG1 & Ho1 & [((k1 & ->) & Hn1) | (-> & Hs1 & Hn1)]).
    { cbn [Binder.exec fst snd]. split; [exact HG1 |]. split; [exact Ho1 |]. intros; lia. }
    api E2.
    destruct (list_call _ _ _ _ HG1 E2) as (HG2 & Ho2 & [((k2 & ->) & Hn2) | (-> & Hs2 & Hn2)]).
    { cbn [Binder.exec fst snd]. split; [exact HG2 |]. split; [eapply only_others_trans; eauto |]. intros; lia. }
    rewrite Hs1.
    set (ps := filter (selects (LGroup g)) (all_pods (s_store s)) ++ filter (selects (LMulti g)) (all_pods (s_store s))).
    assert (Hok : Forall okp ps).
    { apply Forall_app. split; apply Forall_filter, all_pods_okp, HG. }
    destruct (sync_for_pods_spec ps s0 HG2 Hok) as (I1 & I2 & I3).
    split; [exact I1 |]. split.
    { eapply only_others_trans; [exact Ho1 |]. eapply only_others_trans; [exact Ho2 | exact I2]. }
    intros Hnf Hro. apply I3; [lia |].
    apply Forall_app. split; apply Forall_filter, all_pods_calm; auto; apply HG.
  Qed.

  Lemma sync_each_spec gs : forall s,
    G s -> sync_post (rsv_only (s_store s)) s (fst (exec (sync_each gs) s)) (snd (exec (sync_each gs) s)).
  Proof.
    induction gs as [| g gs IH]; intros s HG.
    - simpl. split; [exact HG |]. split; [apply only_others_refl | auto].
    - cbn [sync_each]. rewrite exec_bind.
      destruct (sync_group_spec g s HG) as (I1 & I2 & I3).
      destruct (exec (sync_group g) s) as [s1 e] eqn:E1. cbn [fst snd] in *.
      destruct e.
      + cbn [Binder.exec fst snd]. split; [exact I1 |]. split; [exact I2 |].
        intros Hnf Hro. specialize (I3 Hnf Hro). discriminate.
      + destruct (IH s1 I1) as (J1 & J2 & J3). split; [exact J1 |].
        split; [eapply only_others_trans; eauto |].
        intros Hnf Hro. apply J3.
        * destruct I2 as (_ & _ & _ & _ & _ & _ & _ & _ & _ & _ & Hle & _).
          destruct J2 as (_ & _ & _ & _ & _ & _ & _ & _ & _ & _ & Hle' & _). lia.
        * eapply rsv_only_incl; [exact Hro |]. apply I2.
  Qed.

  Lemma sync_for_node_spec s :
    G s -> sync_post (rsv_only (s_store s)) s (fst (exec sync_for_node s)) (snd (exec sync_for_node s)).
  Proof.
    intros HG. unfold sync_for_node. api E1.
    destruct (list_call _ _ _ _ HG E1) as (HG1 & Ho1 & [((k1 & ->) & Hn1) | (-> & Hs1 & Hn1)]).
    { cbn [Binder.exec fst snd]. split; [exact HG1 |]. split; [exact Ho1 |]. intros; lia. }
    cbn [Binder.exec].
    match goal with |- context [Binder.exec _ _ _ _ (sync_each ?gs) ?st] => set (s2 := st); set (gs0 := gs) end.
    assert (HG2 : G s2) by (eapply G_ext; [| | | exact HG1]; reflexivity).
    assert (Ho2 : only_others s1 s2).
    { unfold only_others, s2. simpl. repeat split; auto using incl_refl. }
    destruct (sync_each_spec gs0 s2 HG2) as (I1 & I2 & I3).
    split; [exact I1 |]. split.
    { eapply only_others_trans; [exact Ho1 |]. eapply only_others_trans; [exact Ho2 | exact I2]. }
    intros Hnf Hro. apply I3.
    - assert (s_nfail s2 = s_nfail s1) by reflexivity. lia.
    - assert (Hx : s_store s2 = s_store s1) by reflexivity. rewrite Hx, Hs1. exact Hro.
  Qed.
End Sync.

