(** Proofs for property C09 (fair-share division), about Model/FairShare.v. *)
From Coq Require Import List ZArith QArith Qround Qminmax Qabs Bool PArith Lia Lqa Permutation.
From KaiV Require Import Model.FairShare Model.FairShareSpec.
Import ListNotations.
Set Default Timeout 60.
Open Scope Q_scope.

(** * Arithmetic layer: the normalised operations denote the plain ones *)
Lemma qadd_eq a b : qadd a b == a + b.
Proof. apply Qred_correct. Qed.
Lemma qsub_eq a b : qsub a b == a - b.
Proof. apply Qred_correct. Qed.
Lemma qmul_eq a b : qmul a b == a * b.
Proof. apply Qred_correct. Qed.
Lemma qdiv_eq a b : qdiv a b == a / b.
Proof. apply Qred_correct. Qed.

Lemma qleb_iff a b : qleb a b = true <-> a <= b.
Proof. apply Qle_bool_iff. Qed.
Lemma qleb_false a b : qleb a b = false <-> b < a.
Proof.
  unfold qleb. split; intro H.
  - apply Qnot_le_lt. intro Hle. apply Qle_bool_iff in Hle. congruence.
  - destruct (Qle_bool a b) eqn:E; [|reflexivity].
    apply Qle_bool_iff in E. exfalso. apply (Qlt_not_le _ _ H E).
Qed.
Lemma qltb_iff a b : qltb a b = true <-> a < b.
Proof. unfold qltb. rewrite negb_true_iff. apply (qleb_false b a). Qed.
Lemma qltb_false a b : qltb a b = false <-> b <= a.
Proof. unfold qltb. rewrite negb_false_iff. apply (qleb_iff b a). Qed.
Lemma qeqb_iff a b : qeqb a b = true <-> a == b.
Proof. apply Qeq_bool_iff. Qed.
Lemma qeqb_false a b : qeqb a b = false <-> ~ a == b.
Proof.
  unfold qeqb. split; intro H.
  - intro E. apply Qeq_bool_iff in E. congruence.
  - destruct (Qeq_bool a b) eqn:E; [|reflexivity]. apply Qeq_bool_iff in E. contradiction.
Qed.

Lemma qmin_le_l a b : qmin a b <= a.
Proof. unfold qmin. destruct (qleb a b) eqn:E; [lra|]. apply qleb_false in E. lra. Qed.
Lemma qmin_le_r a b : qmin a b <= b.
Proof. unfold qmin. destruct (qleb a b) eqn:E; [|lra]. apply qleb_iff in E. lra. Qed.
Lemma qmin_glb a b c : c <= a -> c <= b -> c <= qmin a b.
Proof. unfold qmin. destruct (qleb a b); auto. Qed.
Lemma qmin_Qmin a b : qmin a b == Qmin a b.
Proof.
  unfold qmin. destruct (qleb a b) eqn:E.
  - apply qleb_iff in E. symmetry. apply Q.min_l. exact E.
  - apply qleb_false in E. symmetry. apply Q.min_r. lra.
Qed.
Lemma qmax_ge_l a b : a <= qmax a b.
Proof. unfold qmax. destruct (qleb a b) eqn:E; [|lra]. apply qleb_iff in E. lra. Qed.
Lemma qfloor_le a : qfloor a <= a.
Proof. apply Qfloor_le. Qed.

(** * One queue *)
Lemma static_add q g : static (add_share q g) = static q.
Proof. reflexivity. Qed.
Lemma requestable_add q g : requestable (add_share q g) = requestable q.
Proof. reflexivity. Qed.
Lemma fair_add q g : q_fair (add_share q g) == q_fair q + g.
Proof. cbn. apply qadd_eq. Qed.

Lemma unsat_lt q : satisfied q = false -> q_fair q < requestable q.
Proof.
  unfold satisfied, requestable. intros H. apply orb_false_iff in H as [H1 H2].
  apply qleb_false in H1.
  destruct (qeqb (q_limit q) unlimited) eqn:E; [exact H1|].
  cbn in H2. apply qleb_false in H2.
  unfold qmin. destruct (qleb (q_limit q) (q_request q)); assumption.
Qed.

Lemma sat_ge q : satisfied q = true -> requestable q <= q_fair q.
Proof.
  unfold satisfied, requestable. intros H. apply orb_true_iff in H as [H|H].
  - apply qleb_iff in H. destruct (qeqb (q_limit q) unlimited); [exact H|].
    pose proof (qmin_le_r (q_limit q) (q_request q)). lra.
  - apply andb_true_iff in H as [H1 H2]. apply negb_true_iff in H1. rewrite H1.
    apply qleb_iff in H2. pose proof (qmin_le_l (q_limit q) (q_request q)). lra.
Qed.

Lemma remaining_nonneg q : 0 <= remaining_requested q.
Proof.
  unfold remaining_requested. destruct (qltb (requestable q) (q_fair q)) eqn:E; [lra|].
  apply qltb_false in E. rewrite qsub_eq. lra.
Qed.

Lemma remaining_unsat q :
  satisfied q = false ->
  remaining_requested q == requestable q - q_fair q /\ 0 < remaining_requested q.
Proof.
  intros H. apply unsat_lt in H. unfold remaining_requested.
  destruct (qltb (requestable q) (q_fair q)) eqn:E.
  - apply qltb_iff in E. lra.
  - rewrite qsub_eq. split; lra.
Qed.

Lemma reach_requestable_sat q g :
  requestable q <= q_fair q + g -> satisfied (add_share q g) = true.
Proof.
  intros H. unfold satisfied, add_share; cbn [q_request q_limit q_fair].
  unfold requestable in H.
  destruct (qeqb (q_limit q) unlimited) eqn:E; cbn [negb andb].
  - apply orb_true_iff. left. apply qleb_iff. rewrite qadd_eq. exact H.
  - unfold qmin in H. destruct (qleb (q_limit q) (q_request q)) eqn:E2.
    + apply orb_true_iff. right. apply qleb_iff. rewrite qadd_eq. exact H.
    + apply orb_true_iff. left. apply qleb_iff. rewrite qadd_eq. exact H.
Qed.

Lemma satisfied_mono q g : 0 <= g -> satisfied q = true -> satisfied (add_share q g) = true.
Proof. intros Hg H. apply sat_ge in H. apply reach_requestable_sat. lra. Qed.

(** * getResourceToGiveInCurrentRound *)
Lemma give_spec fs req e g e' :
  0 <= fs -> give_in_round fs req e = (g, e') ->
  (req <= fs /\ g = req /\ e' = None)
  \/ (fs < req /\ 0 <= g /\ g <= fs /\ (e' = e \/ (exists d, e' = Some d /\ 0 < d))).
Proof.
  intros Hfs. unfold give_in_round.
  destruct (qleb req fs) eqn:E.
  - intros H. inversion H. subst. left. apply qleb_iff in E. repeat split; auto.
  - apply qleb_false in E. intros H. right. split; [exact E|].
    assert (Hg : 0 <= (if qltb 0 (qfloor fs) then qfloor fs else 0)
                 /\ (if qltb 0 (qfloor fs) then qfloor fs else 0) <= fs).
    { destruct (qltb 0 (qfloor fs)) eqn:E2.
      - apply qltb_iff in E2. pose proof (qfloor_le fs). split; lra.
      - split; lra. }
    inversion H. subst g. destruct Hg as [Hg1 Hg2]. split; [exact Hg1|]. split; [exact Hg2|].
    match goal with |- context [qltb 0 ?d] => destruct (qltb 0 d) eqn:E3 end.
    + right. eexists. split; [reflexivity|]. apply qltb_iff in E3. exact E3.
    + left. reflexivity.
Qed.

(** * One visit of the inner loop *)
Definition UB (x : rq) : Prop :=
  q_fair (fst x) <= requestable (fst x)
  /\ (has_entry x = true -> q_fair (fst x) < requestable (fst x)).

Lemma share_weight_nonneg k W q : 0 <= share_weight k W q.
Proof. unfold share_weight. apply qmax_ge_l. Qed.

Section Round.
Variables amount k W sum : Q.
Hypothesis Hamount : 0 <= amount.
Hypothesis Hsum : 0 < sum.

(** share of the round's amount a queue can receive at most, times [sum]/[amount] *)
Definition wshare (x : rq) : Q :=
  if satisfied (fst x) || qeqb (q_weight (fst x)) 0 then 0 else share_weight k W (fst x).

Lemma wshare_nonneg x : 0 <= wshare x.
Proof. unfold wshare. destruct (_ || _); [lra|apply share_weight_nonneg]. Qed.

Lemma fs_facts sw : 0 <= sw ->
  0 <= qmul amount (qdiv sw sum) /\ qmul amount (qdiv sw sum) * sum == amount * sw.
Proof.
  intros Hsw. rewrite qmul_eq, qdiv_eq. split.
  - apply Qmult_le_0_compat; [exact Hamount|].
    unfold Qdiv. apply Qmult_le_0_compat; [exact Hsw|].
    apply Qlt_le_weak. apply Qinv_lt_0_compat. exact Hsum.
  - field. lra.
Qed.

Lemma visit_spec x x' g a :
  visit amount k W sum x = (x', g, a) ->
  static (fst x') = static (fst x)
  /\ 0 <= g
  /\ q_fair (fst x') == q_fair (fst x) + g
  /\ g * sum <= amount * wshare x
  /\ (a = true -> satisfied (fst x) = false /\ satisfied (fst x') = true)
  /\ (satisfied (fst x) = true -> satisfied (fst x') = true)
  /\ (qeqb g 0 = true -> fst x' = fst x)
  /\ (UB x -> UB x').
Proof.
  destruct x as [q e]. unfold visit, wshare. cbn [fst snd].
  destruct (satisfied q) eqn:Hs; cbn [orb].
  { intros H. inversion H. subst. cbn [fst snd]. rewrite Hs.
    repeat split; try reflexivity; try lra; try discriminate; auto; apply H0. }
  destruct (qeqb (q_weight q) 0) eqn:Hw.
  { intros H. inversion H. subst. cbn [fst snd]. rewrite Hs.
    repeat split; try reflexivity; try lra; try discriminate; auto; apply H0. }
  pose proof (fs_facts (share_weight k W q) (share_weight_nonneg k W q)) as [Hfs0 Hfs].
  pose proof (remaining_unsat q Hs) as [Hrr Hrr0].
  pose proof (unsat_lt q Hs) as Hlt.
  set (fs := qmul amount (qdiv (share_weight k W q) sum)) in *.
  destruct (give_in_round fs (remaining_requested q) e) as [g0 e0] eqn:Hg.
  apply (give_spec _ _ _ _ _ Hfs0) in Hg.
  destruct (qeqb g0 0) eqn:Hg0.
  - intros H. inversion H. subst. cbn [fst snd].
    split; [reflexivity|]. split; [lra|]. split; [lra|].
    split; [rewrite <- Hfs; apply Qmult_le_compat_r; lra|].
    split; [discriminate|]. split; [discriminate|]. split; [reflexivity|].
    intros _. split; cbn [fst snd]; [lra|intros _; lra].
  - intros H. inversion H. subst x' g a. cbn [fst snd]. clear H.
    assert (Hgpos : 0 <= g0) by (destruct Hg as [[_ [-> _]]|[_ [H _]]]; lra).
    assert (Hgfs : g0 <= fs) by (destruct Hg as [[H [-> _]]|[_ [_ [H _]]]]; lra).
    split; [reflexivity|]. split; [exact Hgpos|]. split; [apply fair_add|].
    split; [rewrite <- Hfs; apply Qmult_le_compat_r; lra|].
    split.
    { intros Ha. apply qltb_iff in Ha. split; [reflexivity|].
      destruct Hg as [[_ [-> _]]|[Hc _]]; [|lra].
      apply reach_requestable_sat. lra. }
    split; [discriminate|]. split; [intros Hc; rewrite Hc in Hg0; discriminate|].
    intros _. unfold UB. cbn [fst snd]. rewrite requestable_add, fair_add.
    destruct Hg as [[Hc [-> ->]]|[Hc [_ [_ _]]]].
    + split; [lra|]. cbn. discriminate.
    + split; [lra|]. intros _. lra.
Qed.

Definition fairs (l : list rq) : Q := fold_right (fun x a => q_fair (fst x) + a) 0 l.
Definition wsum (l : list rq) : Q := fold_right (fun x a => wshare x + a) 0 l.
Definition unsat1 (x : rq) : nat := if satisfied (fst x) then 0%nat else 1%nat.
Definition unsat_count (l : list rq) : nat := fold_right (fun x n => (unsat1 x + n)%nat) 0%nat l.

(** how a queue may evolve during the over-quota phase *)
Definition evolves (x x' : rq) : Prop :=
  static (fst x') = static (fst x)
  /\ q_fair (fst x) <= q_fair (fst x')
  /\ (satisfied (fst x) = true -> satisfied (fst x') = true)
  /\ (UB x -> UB x').

Lemma evolves_refl x : evolves x x.
Proof. unfold evolves. split; [reflexivity|]. split; [lra|]. split; auto. Qed.
Lemma evolves_trans x y z : evolves x y -> evolves y z -> evolves x z.
Proof.
  unfold evolves. intros [A1 [A2 [A3 A4]]] [B1 [B2 [B3 B4]]].
  repeat split; auto; try congruence; try lra; try (apply B4, A4; assumption).
Qed.
Lemma Forall2_evolves_refl l : Forall2 evolves l l.
Proof. induction l; constructor; auto using evolves_refl. Qed.
Lemma Forall2_evolves_trans l1 : forall l2 l3,
  Forall2 evolves l1 l2 -> Forall2 evolves l2 l3 -> Forall2 evolves l1 l3.
Proof.
  induction l1; intros l2 l3 H1 H2; inversion H1; subst; inversion H2; subst; constructor.
  - eapply evolves_trans; eauto.
  - eapply IHl1; eauto.
Qed.

Lemma wsum_nonneg l : 0 <= wsum l.
Proof.
  induction l as [|a l IH]; [cbn; lra|]. change (0 <= wshare a + wsum l).
  pose proof (wshare_nonneg a). lra.
Qed.

Lemma round_spec : forall qs total again qs' total' again',
  round_queues amount k W sum qs total again = (qs', total', again') ->
  amount * wsum qs <= total * sum ->
  Forall2 evolves qs qs'
  /\ fairs qs' + total' == fairs qs + total
  /\ 0 <= total'
  /\ (unsat_count qs' + (if again' && negb again then 1 else 0) <= unsat_count qs)%nat
  /\ (again = true -> again' = true).
Proof.
  induction qs as [|x r IH]; intros total again qs' total' again' H Inv.
  - cbn in H. inversion H. subst. change (wsum []) with 0 in Inv.
    split; [constructor|]. split; [reflexivity|].
    split; [nra|]. split; [rewrite andb_negb_r; cbn; lia|auto].
  - cbn [round_queues] in H. destruct (qeqb total 0) eqn:Ht.
    + inversion H. subst. apply qeqb_iff in Ht.
      split; [apply Forall2_evolves_refl|]. split; [lra|]. split; [lra|].
      split; [rewrite andb_negb_r; lia|auto].
    + destruct (visit amount k W sum x) as [[x1 g] a] eqn:Hv.
      destruct (round_queues amount k W sum r (if qeqb g 0 then total else qsub total g) (again || a))
        as [[r1 t1] a1] eqn:Hr.
      inversion H. subst qs' total' again'. clear H.
      apply visit_spec in Hv. destruct Hv as [V1 [V2 [V3 [V4 [V5 [V6 [V7 V8]]]]]]].
      set (tt := if qeqb g 0 then total else qsub total g) in *.
      assert (Htt : tt == total - g).
      { unfold tt. destruct (qeqb g 0) eqn:Hg0.
        - apply qeqb_iff in Hg0. lra.
        - apply qsub_eq. }
      cbn [wsum fold_right] in Inv. fold (wsum r) in Inv.
      apply IH in Hr.
      2:{ rewrite Htt. lra. }
      destruct Hr as [R1 [R2 [R3 [R4 R5]]]].
      split.
      { constructor; [|exact R1]. unfold evolves. split; [exact V1|]. split; [lra|]. split; assumption. }
      split.
      { cbn [fairs fold_right]. fold (fairs r1). fold (fairs r). rewrite V3. rewrite Htt in R2. lra. }
      split; [exact R3|].
      split.
      { cbn [unsat_count fold_right]. fold (unsat_count r1). fold (unsat_count r).
        unfold unsat1 at 1 2.
        destruct a.
        - destruct (V5 eq_refl) as [Va Vb]. rewrite Va, Vb.
          rewrite orb_true_r in R4. cbn in R4.
          destruct (a1 && negb again); lia.
        - rewrite orb_false_r in R4.
          destruct (satisfied (fst x)) eqn:Hsx.
          + rewrite (V6 eq_refl). lia.
          + destruct (satisfied (fst x1)); lia. }
      { intros Ha. apply R5. rewrite Ha. reflexivity. }
Qed.
End Round.

(** * The rounds of one priority band *)
Definition ssum (k W : Q) (l : list rq) : Q :=
  fold_right (fun x a => (if satisfied (fst x) then 0 else share_weight k W (fst x)) + a) 0 l.

Lemma share_weights_sum_acc k W l : forall acc,
  fold_left (fun acc (x : rq) =>
               if satisfied (fst x) then acc else qadd acc (share_weight k W (fst x))) l acc
  == acc + ssum k W l.
Proof.
  induction l as [|x l IH]; intros acc; cbn [fold_left ssum fold_right]; [lra|].
  fold (ssum k W l). rewrite IH. destruct (satisfied (fst x)); [lra|]. rewrite qadd_eq. lra.
Qed.
Lemma share_weights_sum_eq k W l : share_weights_sum k W l == ssum k W l.
Proof. unfold share_weights_sum. rewrite share_weights_sum_acc. lra. Qed.

Lemma wsum_le_ssum k W l : wsum k W l <= ssum k W l.
Proof.
  induction l as [|x l IH]; cbn [wsum ssum fold_right]; [lra|].
  fold (wsum k W l). fold (ssum k W l). unfold wshare.
  pose proof (share_weight_nonneg k W (fst x)).
  destruct (satisfied (fst x)); cbn [orb]; [lra|].
  destruct (qeqb (q_weight (fst x)) 0); lra.
Qed.

Lemma unsat_count_le l : (unsat_count l <= length l)%nat.
Proof.
  induction l as [|x l IH]; cbn [unsat_count fold_right length]; [lia|].
  fold (unsat_count l). unfold unsat1. destruct (satisfied (fst x)); lia.
Qed.

Lemma divide_up_to_spec k : forall fuel qs total,
  0 <= total ->
  match divide_up_to fuel k qs total with
  | Done (qs', total') =>
      Forall2 evolves qs qs' /\ fairs qs' + total' == fairs qs + total /\ 0 <= total'
  | OutOfFuel => (fuel <= unsat_count qs)%nat
  end.
Proof.
  induction fuel as [|f IH]; intros qs total Ht; cbn [divide_up_to]; [lia|].
  destruct (qeqb (total_weights qs) 0) eqn:HW.
  { split; [apply Forall2_evolves_refl|]. split; [reflexivity|exact Ht]. }
  destruct (qeqb (share_weights_sum k (total_weights qs) qs) 0) eqn:Hs.
  { split; [apply Forall2_evolves_refl|]. split; [reflexivity|exact Ht]. }
  set (W := total_weights qs) in *. set (sum := share_weights_sum k W qs) in *.
  assert (Hsum : 0 < sum).
  { apply qeqb_false in Hs. pose proof (share_weights_sum_eq k W qs) as E.
    pose proof (wsum_le_ssum k W qs). pose proof (wsum_nonneg k W qs).
    fold sum in E. assert (0 <= sum) by lra.
    apply Qle_lt_or_eq in H1. destruct H1 as [H1|H1]; [exact H1|]. exfalso. apply Hs. lra. }
  destruct (round_queues total k W sum qs total false) as [[qs1 t1] a1] eqn:Hr.
  apply (round_spec total k W sum Ht Hsum) in Hr.
  2:{ pose proof (share_weights_sum_eq k W qs) as E. fold sum in E.
      pose proof (wsum_le_ssum k W qs). nra. }
  destruct Hr as [R1 [R2 [R3 [R4 R5]]]].
  destruct (negb a1 || qeqb t1 0) eqn:Hstop.
  { split; [exact R1|]. split; [exact R2|exact R3]. }
  apply orb_false_iff in Hstop as [Ha _]. apply negb_false_iff in Ha. subst a1.
  cbn in R4. specialize (IH qs1 t1 R3).
  destruct (divide_up_to f k qs1 t1) as [[qs2 t2]|].
  - destruct IH as [I1 [I2 I3]]. split; [eapply Forall2_evolves_trans; eauto|].
    split; [lra|exact I3].
  - lia.
Qed.

Lemma fuel_suffices_band k qs total :
  0 <= total -> divide_up_to (S (length qs)) k qs total <> OutOfFuel.
Proof.
  intros Ht E. pose proof (divide_up_to_spec k (S (length qs)) qs total Ht) as H.
  rewrite E in H. pose proof (unsat_count_le qs). lia.
Qed.

(** * Lists of queues: sums, static parts, permutations *)
Definition sf (x : rq) : queue := static (fst x).

Lemma fairs_nil : fairs [] = 0.
Proof. reflexivity. Qed.
Lemma fairs_cons x l : fairs (x :: l) = q_fair (fst x) + fairs l.
Proof. reflexivity. Qed.
Lemma fairs_app l1 l2 : fairs (l1 ++ l2) == fairs l1 + fairs l2.
Proof.
  induction l1 as [|x l IH]; cbn [app]; rewrite ?fairs_nil, ?fairs_cons; [lra|].
  rewrite IH. lra.
Qed.
Lemma fairs_perm l l' : Permutation l l' -> fairs l == fairs l'.
Proof.
  induction 1; rewrite ?fairs_cons.
  - reflexivity.
  - rewrite IHPermutation. reflexivity.
  - lra.
  - rewrite IHPermutation1. exact IHPermutation2.
Qed.
Lemma fairs_partition (f : rq -> bool) l :
  fairs (filter f l) + fairs (filter (fun x => negb (f x)) l) == fairs l.
Proof.
  induction l as [|x l IH]; cbn [filter]; rewrite ?fairs_nil, ?fairs_cons; [lra|].
  destruct (f x); cbn [negb]; rewrite ?fairs_cons; lra.
Qed.
Lemma perm_partition {A} (f : A -> bool) l :
  Permutation (filter f l ++ filter (fun x => negb (f x)) l) l.
Proof.
  induction l as [|x l IH]; cbn [filter app]; [constructor|].
  destruct (f x); cbn [negb app].
  - constructor. exact IH.
  - symmetry. apply Permutation_cons_app. symmetry. exact IH.
Qed.

Lemma Forall2_in_r {A B} (R : A -> B -> Prop) l l' y :
  Forall2 R l l' -> In y l' -> exists x, In x l /\ R x y.
Proof.
  induction 1 as [|a b l l' Hab HF IH]; cbn; [tauto|].
  intros [->|Hin]; [exists a; auto|]. destruct (IH Hin) as [x [Hx HR]]. exists x. auto.
Qed.

Lemma evolves_sf l l' : Forall2 evolves l l' -> map sf l = map sf l'.
Proof.
  induction 1 as [|a b l l' Hab HF IH]; cbn [map]; [reflexivity|].
  f_equal; [|exact IH]. unfold sf. destruct Hab as [E _]. symmetry. exact E.
Qed.

(** * divideRemainingResource *)
Definition final (x x' : rq) : Prop :=
  static (fst x') = static (fst x)
  /\ q_fair (fst x) <= q_fair (fst x')
  /\ (UB x -> q_fair (fst x') < requestable (fst x') + 1).

Lemma final_refl x : final x x.
Proof. unfold final. split; [reflexivity|]. split; [lra|]. intros [H _]. lra. Qed.

Lemma Forall2_final_refl l : Forall2 final l l.
Proof. induction l; constructor; auto using final_refl. Qed.

Lemma final_sf l l' : Forall2 final l l' -> map sf l = map sf l'.
Proof.
  induction 1 as [|a b l l' Hab HF IH]; cbn [map]; [reflexivity|].
  f_equal; [|exact IH]. unfold sf. destruct Hab as [E _]. symmetry. exact E.
Qed.

Lemma qmin1_facts t : 0 <= t -> 0 <= qmin 1 t /\ qmin 1 t <= 1 /\ qmin 1 t <= t.
Proof.
  intros Ht. pose proof (qmin_le_l 1 t). pose proof (qmin_le_r 1 t).
  split; [apply qmin_glb; lra|]. split; assumption.
Qed.

Lemma hand_out_spec : forall es total es' t',
  0 <= total -> Forall (fun x => has_entry x = true) es ->
  hand_out es total = (es', t') ->
  Forall2 final es es' /\ fairs es' + t' == fairs es + total /\ 0 <= t'.
Proof.
  induction es as [|[q e] r IH]; intros total es' t' Ht Hall H.
  - cbn in H. inversion H. subst. split; [constructor|]. split; [reflexivity|exact Ht].
  - cbn [hand_out] in H. destruct (qeqb total 0) eqn:E0.
    + inversion H. subst. split.
      { apply Forall2_final_refl. }
      split; [reflexivity|exact Ht].
    + destruct (hand_out r (qsub total (qmin 1 total))) as [r1 t1] eqn:Hr.
      inversion H. subst es' t'. clear H.
      destruct (qmin1_facts total Ht) as [G0 [G1 G2]].
      inversion Hall as [|? ? Hhe Hall']. subst.
      apply IH in Hr; [|rewrite qsub_eq; lra|exact Hall'].
      destruct Hr as [R1 [R2 R3]]. rewrite qsub_eq in R2.
      split.
      { constructor; [|exact R1]. unfold final. cbn [fst snd].
        split; [reflexivity|]. rewrite requestable_add, fair_add. split; [lra|].
        intros [_ HU]. specialize (HU Hhe). cbn [fst] in HU. lra. }
      split; [|exact R3].
      rewrite !fairs_cons. cbn [fst]. rewrite fair_add. lra.
Qed.

Lemma insert_entry_perm x l : Permutation (insert_entry x l) (x :: l).
Proof.
  induction l as [|y l IH]; cbn [insert_entry]; [reflexivity|].
  destruct (entry_before x y); [reflexivity|].
  rewrite IH. apply perm_swap.
Qed.
Lemma sort_entries_perm l : Permutation (sort_entries l) l.
Proof.
  induction l as [|x l IH]; cbn; [constructor|].
  fold (sort_entries l). rewrite insert_entry_perm. constructor. exact IH.
Qed.

Definition band_final (b b' : list rq) : Prop :=
  Permutation (map sf b') (map sf b)
  /\ (forall x2, In x2 b' -> exists x1, In x1 b /\ final x1 x2).

Lemma band_final_refl b : band_final b b.
Proof. split; [reflexivity|]. intros x Hx. exists x. auto using final_refl. Qed.

Lemma Forall2_band_final_refl l : Forall2 band_final l l.
Proof. induction l; constructor; auto using band_final_refl. Qed.

Lemma divide_remaining_spec b total b' t' :
  0 <= total -> divide_remaining b total = (b', t') ->
  band_final b b' /\ fairs b' + t' == fairs b + total /\ 0 <= t'.
Proof.
  intros Ht. unfold divide_remaining.
  destruct (hand_out (sort_entries (filter has_entry b)) total) as [es t] eqn:Hh.
  intros H. inversion H. subst b' t'. clear H.
  pose proof (sort_entries_perm (filter has_entry b)) as Hp.
  apply hand_out_spec in Hh; [|exact Ht|].
  2:{ apply Forall_forall. intros x Hx. apply (Permutation_in _ Hp) in Hx.
      apply filter_In in Hx. tauto. }
  destruct Hh as [H1 [H2 H3]].
  set (rest := filter (fun x => negb (has_entry x)) b) in *.
  split; [split|split].
  - rewrite map_app. rewrite <- (final_sf _ _ H1). rewrite <- map_app.
    apply Permutation_map. rewrite Hp. apply perm_partition.
  - intros x2 Hx. apply in_app_or in Hx as [Hx|Hx].
    + destruct (Forall2_in_r _ _ _ _ H1 Hx) as [x1 [Hx1 HR]]. exists x1. split; [|exact HR].
      apply (Permutation_in _ Hp) in Hx1. apply filter_In in Hx1. tauto.
    + exists x2. split; [|apply final_refl]. apply filter_In in Hx. tauto.
  - rewrite fairs_app. rewrite (fairs_perm _ _ Hp) in H2.
    pose proof (fairs_partition has_entry b). fold rest in H. lra.
  - exact H3.
Qed.

Lemma hand_out_bands_spec : forall bs total bs' t',
  0 <= total -> hand_out_bands bs total = (bs', t') ->
  Forall2 band_final bs bs' /\ fairs (concat bs') + t' == fairs (concat bs) + total /\ 0 <= t'.
Proof.
  induction bs as [|b r IH]; intros total bs' t' Ht H.
  - cbn in H. inversion H. subst. split; [constructor|]. split; [reflexivity|exact Ht].
  - cbn [hand_out_bands] in H. destruct (qleb total 0) eqn:E0.
    { inversion H. subst. split.
      - apply Forall2_band_final_refl.
      - split; [reflexivity|exact Ht]. }
    destruct (negb (existsb has_entry b)).
    { destruct (hand_out_bands r total) as [r1 t1] eqn:Hr. inversion H. subst. clear H.
      apply IH in Hr; [|exact Ht]. destruct Hr as [R1 [R2 R3]].
      split; [constructor; [apply band_final_refl|exact R1]|]. split; [|exact R3].
      cbn [concat]. rewrite !fairs_app. lra. }
    destruct (divide_remaining b total) as [b1 t1] eqn:Hd.
    destruct (hand_out_bands r t1) as [r1 t2] eqn:Hr. inversion H. subst. clear H.
    apply divide_remaining_spec in Hd; [|exact Ht]. destruct Hd as [D1 [D2 D3]].
    apply IH in Hr; [|exact D3]. destruct Hr as [R1 [R2 R3]].
    split; [constructor; assumption|]. split; [|exact R3].
    cbn [concat]. rewrite !fairs_app. lra.
Qed.

(** * The bands *)
Lemma run_bands_spec k qs : forall ps total,
  0 <= total ->
  match run_bands k ps qs total with
  | Done (bs, t) =>
      Forall2 evolves (concat (map (fun p => band p qs) ps)) (concat bs)
      /\ fairs (concat bs) + t == fairs (concat (map (fun p => band p qs) ps)) + total
      /\ 0 <= t
  | OutOfFuel => False
  end.
Proof.
  induction ps as [|p r IH]; intros total Ht; cbn [run_bands map concat].
  - split; [constructor|]. split; [reflexivity|exact Ht].
  - pose proof (divide_up_to_spec k (S (length (band p qs))) (band p qs) total Ht) as H.
    destruct (divide_up_to (S (length (band p qs))) k (band p qs) total) as [[b1 t1]|].
    2:{ pose proof (unsat_count_le (band p qs)). lia. }
    destruct H as [H1 [H2 H3]]. specialize (IH t1 H3).
    destruct (run_bands k r qs t1) as [[bs t]|]; [|exact IH].
    destruct IH as [I1 [I2 I3]]. cbn [concat].
    split; [apply Forall2_app; assumption|]. split; [|exact I3].
    rewrite !fairs_app. lra.
Qed.

From Coq Require Import Sorted.

Definition zgt (a b : Z) : Prop := (b < a)%Z.

Lemma insert_prio_in p l x : In x (insert_prio p l) <-> x = p \/ In x l.
Proof.
  induction l as [|y r IH]; cbn [insert_prio In]; [intuition|].
  destruct (y <? p)%Z; [cbn [In]; intuition|].
  destruct (y =? p)%Z eqn:E; cbn [In].
  - apply Z.eqb_eq in E. subst. intuition.
  - rewrite IH. intuition.
Qed.

Lemma insert_prio_sorted p l : StronglySorted zgt l -> StronglySorted zgt (insert_prio p l).
Proof.
  induction 1 as [|y r HS IH HF]; cbn [insert_prio].
  - constructor; constructor.
  - destruct (y <? p)%Z eqn:E1.
    + apply Z.ltb_lt in E1. constructor; [constructor; assumption|].
      constructor; [exact E1|]. eapply Forall_impl; [|exact HF].
      unfold zgt. intros z Hz. lia.
    + destruct (y =? p)%Z eqn:E2; [constructor; assumption|].
      apply Z.ltb_ge in E1. apply Z.eqb_neq in E2.
      constructor; [exact IH|]. apply Forall_forall. intros z Hz.
      apply insert_prio_in in Hz. destruct Hz as [->|Hz]; [unfold zgt; lia|].
      rewrite Forall_forall in HF. apply HF. exact Hz.
Qed.

Lemma priorities_sorted qs : StronglySorted zgt (priorities qs).
Proof. induction qs; cbn; [constructor|apply insert_prio_sorted; assumption]. Qed.

Lemma sorted_nodup l : StronglySorted zgt l -> NoDup l.
Proof.
  induction 1 as [|y r HS IH HF]; constructor; [|exact IH].
  intros Hin. rewrite Forall_forall in HF. specialize (HF y Hin). unfold zgt in HF. lia.
Qed.

Lemma priorities_in qs q : In q qs -> In (q_prio q) (priorities qs).
Proof.
  induction qs as [|a l IH]; cbn [In priorities fold_right]; [tauto|].
  fold (priorities l). intros [->|H]; apply insert_prio_in; auto.
Qed.

Lemma perm_filter_disjoint {A} (f g : A -> bool) l :
  (forall x, f x = true -> g x = false) ->
  Permutation (filter f l ++ filter g l) (filter (fun x => f x || g x) l).
Proof.
  intros D. induction l as [|x l IH]; cbn [filter app]; [constructor|].
  destruct (f x) eqn:Ef; cbn [orb].
  - rewrite (D x Ef). cbn [app]. constructor. exact IH.
  - destruct (g x); [|exact IH].
    symmetry. apply Permutation_cons_app. symmetry. exact IH.
Qed.

Lemma filter_all {A} (f : A -> bool) l : (forall x, In x l -> f x = true) -> filter f l = l.
Proof.
  induction l as [|x l IH]; cbn [filter]; [reflexivity|]. intros H.
  rewrite (H x (or_introl eq_refl)). f_equal. apply IH. intros y Hy. apply H. right. exact Hy.
Qed.

Lemma band_partition (qs : list queue) : forall ps, NoDup ps ->
  Permutation (concat (map (fun p => filter (fun q => (q_prio q =? p)%Z) qs) ps))
              (filter (fun q => existsb (Z.eqb (q_prio q)) ps) qs).
Proof.
  induction ps as [|p r IH]; intros ND; cbn [map concat existsb].
  - induction qs; cbn; auto.
  - inversion ND as [|? ? Hnin ND']. subst. rewrite (IH ND').
    apply perm_filter_disjoint. intros q Hq. apply Z.eqb_eq in Hq.
    destruct (existsb (Z.eqb (q_prio q)) r) eqn:E; [|reflexivity].
    apply existsb_exists in E. destruct E as [z [Hz Hz']]. apply Z.eqb_eq in Hz'. congruence.
Qed.

Lemma bands_perm qs :
  Permutation (concat (map (fun p => filter (fun q => (q_prio q =? p)%Z) qs) (priorities qs))) qs.
Proof.
  rewrite band_partition; [|apply sorted_nodup, priorities_sorted].
  rewrite filter_all; [reflexivity|]. intros q Hq. apply existsb_exists.
  exists (q_prio q). split; [apply priorities_in; exact Hq|apply Z.eqb_refl].
Qed.

Lemma bands_concat qs ps :
  concat (map (fun p => band p qs) ps)
  = map (fun q => (q, None)) (concat (map (fun p => filter (fun q => (q_prio q =? p)%Z) qs) ps)).
Proof.
  unfold band. rewrite concat_map, map_map. reflexivity.
Qed.

(** * setDeservedResource and the whole division *)
Lemma cap_requestable q : cap q == requestable q.
Proof.
  unfold cap, requestable, qeqb. destruct (Qeq_bool (q_limit q) unlimited); [reflexivity|].
  symmetry. apply qmin_Qmin.
Qed.

Lemma amt_phase1 T q :
  qmin (if qeqb (q_deserved q) unlimited then T else q_deserved q) (requestable q) == phase1 T q.
Proof.
  unfold phase1, eff_deserved, qeqb. rewrite qmin_Qmin. rewrite cap_requestable. reflexivity.
Qed.

Lemma static_requestable q q' : static q' = static q -> requestable q' = requestable q.
Proof. unfold static, requestable. intros H. injection H as _ _ _ _ -> _ -> _. reflexivity. Qed.
Lemma static_phase1 T q q' : static q' = static q -> phase1 T q' = phase1 T q.
Proof.
  unfold static, phase1, eff_deserved, cap. intros H. injection H as _ _ _ -> -> _ -> _. reflexivity.
Qed.

Definition deserved_step (T : Q) (q q1 : queue) : Prop :=
  static q1 = static q /\ q_fair q1 == q_fair q + phase1 T q.

Lemma sum_fair_cons q l : sum_fair (q :: l) = q_fair q + sum_fair l.
Proof. reflexivity. Qed.
Lemma sum_phase1_cons T q l : sum_phase1 T (q :: l) = phase1 T q + sum_phase1 T l.
Proof. reflexivity. Qed.

Lemma set_deserved_spec T : forall qs rem qs1 rem1,
  set_deserved T rem qs = (qs1, rem1) ->
  Forall2 (deserved_step T) qs qs1
  /\ sum_fair qs1 == sum_fair qs + sum_phase1 T qs
  /\ rem1 == rem - sum_phase1 T qs.
Proof.
  induction qs as [|q r IH]; intros rem qs1 rem1 H.
  - cbn in H. inversion H. subst. split; [constructor|]. cbn. split; lra.
  - cbn [set_deserved] in H.
    set (amt := qmin (if qeqb (q_deserved q) unlimited then T else q_deserved q) (requestable q)) in *.
    destruct (set_deserved T (qsub rem amt) r) as [r1 rem2] eqn:Hr.
    inversion H. subst qs1 rem1. clear H.
    apply IH in Hr. destruct Hr as [R1 [R2 R3]].
    pose proof (amt_phase1 T q) as Ha. fold amt in Ha.
    split.
    { constructor; [|exact R1]. split; [reflexivity|]. rewrite fair_add. rewrite Ha. reflexivity. }
    rewrite !sum_fair_cons, sum_phase1_cons. rewrite fair_add. rewrite qsub_eq in R3. split; lra.
Qed.

Lemma deserved_static T l l' : Forall2 (deserved_step T) l l' -> map static l' = map static l.
Proof.
  induction 1 as [|a b l l' [E _] HF IH]; cbn [map]; [reflexivity|]. f_equal; assumption.
Qed.

Lemma fairs_sum_fair l : fairs l = sum_fair (map fst l).
Proof. induction l as [|x l IH]; [reflexivity|]. rewrite fairs_cons. cbn [map]. rewrite sum_fair_cons. f_equal. exact IH. Qed.
Lemma fairs_inj l : fairs (map (fun q : queue => (q, @None Q)) l) = sum_fair l.
Proof. rewrite fairs_sum_fair, map_map. cbn [fst]. rewrite map_id. reflexivity. Qed.
Lemma sum_fair_perm l l' : Permutation l l' -> sum_fair l == sum_fair l'.
Proof.
  induction 1; rewrite ?sum_fair_cons.
  - reflexivity.
  - rewrite IHPermutation. reflexivity.
  - lra.
  - rewrite IHPermutation1. exact IHPermutation2.
Qed.

Lemma band_final_concat bs bs' :
  Forall2 band_final bs bs' ->
  Permutation (map sf (concat bs')) (map sf (concat bs))
  /\ (forall x2, In x2 (concat bs') -> exists x1, In x1 (concat bs) /\ final x1 x2).
Proof.
  induction 1 as [|b b' l l' [P E] HF [IP IE]]; cbn [concat]; [split; [reflexivity|cbn; tauto]|].
  split.
  - rewrite !map_app. apply Permutation_app; assumption.
  - intros x2 Hx. apply in_app_or in Hx as [Hx|Hx].
    + destruct (E x2 Hx) as [x1 [H1 H2]]. exists x1. split; [apply in_or_app; left; exact H1|exact H2].
    + destruct (IE x2 Hx) as [x1 [H1 H2]]. exists x1. split; [apply in_or_app; right; exact H1|exact H2].
Qed.

(** what the division does to one queue: [q] as given, [q'] in the result *)
Definition outcome_of (T : Q) (q q' : queue) : Prop :=
  static q' = static q
  /\ q_fair q + phase1 T q <= q_fair q'
  /\ (q_fair q + phase1 T q <= requestable q -> q_fair q' < requestable q' + 1).

Theorem set_resource_share_spec T k qs :
  exists out rem,
    set_resource_share T k qs = Done (out, rem)
    /\ Permutation (map static out) (map static qs)
    /\ (forall q', In q' out -> exists q, In q qs /\ outcome_of T q q')
    /\ sum_fair out + rem == sum_fair qs + Qmax T (sum_phase1 T qs)
    /\ 0 <= rem.
Proof.
  unfold set_resource_share.
  destruct (set_deserved T T qs) as [qs1 rem0] eqn:Hd.
  apply set_deserved_spec in Hd. destruct Hd as [D1 [D2 D3]].
  pose proof (deserved_static _ _ _ D1) as Dst.
  destruct (qltb 0 rem0) eqn:Hrem.
  2:{ apply qltb_false in Hrem. exists qs1, 0. split; [reflexivity|].
      split; [rewrite Dst; reflexivity|]. split.
      - intros q' Hq'. destruct (Forall2_in_r _ _ _ _ D1 Hq') as [q [Hq [S F]]].
        exists q. split; [exact Hq|]. split; [exact S|]. split; [lra|].
        intros Hle. rewrite (static_requestable _ _ S). lra.
      - split; [|lra]. rewrite Q.max_r by lra. lra. }
  apply qltb_iff in Hrem. unfold divide_over_quota.
  pose proof (run_bands_spec k qs1 (priorities qs1) rem0 (Qlt_le_weak _ _ Hrem)) as HB.
  destruct (run_bands k (priorities qs1) qs1 rem0) as [[bs t]|]; [|contradiction].
  destruct HB as [B1 [B2 B3]].
  destruct (hand_out_bands bs t) as [bs' t'] eqn:Hh.
  apply hand_out_bands_spec in Hh; [|exact B3]. destruct Hh as [H1 [H2 H3]].
  apply band_final_concat in H1. destruct H1 as [HP HE].
  rewrite bands_concat in B1, B2.
  set (L := concat (map (fun p => filter (fun q => (q_prio q =? p)%Z) qs1) (priorities qs1))) in *.
  pose proof (bands_perm qs1) as HL. fold L in HL.
  exists (map fst (concat bs')), t'. split; [reflexivity|].
  split.
  { rewrite map_map. change (fun x : rq => static (fst x)) with sf. rewrite HP.
    rewrite <- (evolves_sf _ _ B1). rewrite map_map. unfold sf. cbn [fst].
    rewrite <- Dst. apply Permutation_map. exact HL. }
  split.
  { intros q' Hq'. apply in_map_iff in Hq' as [x2 [<- Hx2]].
    destruct (HE x2 Hx2) as [x1 [Hx1 [F1 [F2 F3]]]].
    destruct (Forall2_in_r _ _ _ _ B1 Hx1) as [x0 [Hx0 [E1 [E2 [E3 E4]]]]].
    apply in_map_iff in Hx0 as [q1 [<- Hq1]]. cbn [fst] in *.
    apply (Permutation_in _ HL) in Hq1.
    destruct (Forall2_in_r _ _ _ _ D1 Hq1) as [q [Hq [S F]]].
    exists q. split; [exact Hq|]. split; [congruence|]. split; [lra|].
    intros Hle. apply F3. apply E4. split; cbn [fst snd].
    - rewrite (static_requestable _ _ S). lra.
    - cbn. discriminate. }
  split; [|exact H3].
  rewrite <- fairs_sum_fair. rewrite fairs_inj in B2. rewrite (sum_fair_perm _ _ HL) in B2.
  rewrite Q.max_l by lra. lra.
Qed.

(** * The clauses of C09 that hold for all inputs *)
Definition fresh (qs : list queue) : Prop := Forall (fun q => q_fair q == 0) qs.

Lemma fresh_sum qs : fresh qs -> sum_fair qs == 0.
Proof.
  induction 1 as [|q l Hq HF IH]; [reflexivity|]. rewrite sum_fair_cons. lra.
Qed.

Theorem fuel_suffices T k qs : set_resource_share T k qs <> OutOfFuel.
Proof.
  destruct (set_resource_share_spec T k qs) as [out [rem [H _]]]. rewrite H. discriminate.
Qed.

Theorem same_queues T k qs out rem :
  set_resource_share T k qs = Done (out, rem) -> Permutation (map static out) (map static qs).
Proof.
  destruct (set_resource_share_spec T k qs) as [out' [rem' [H [P _]]]].
  rewrite H. intros E. inversion E. subst. exact P.
Qed.

Lemma phase1_le_requestable T q : phase1 T q <= requestable q.
Proof. unfold phase1. rewrite <- cap_requestable. apply Q.le_min_r. Qed.

Theorem lower_bound T k qs out rem :
  fresh qs -> set_resource_share T k qs = Done (out, rem) ->
  forall q, In q out -> phase1 T q <= q_fair q.
Proof.
  intros HF. destruct (set_resource_share_spec T k qs) as [out' [rem' [H [_ [E _]]]]].
  rewrite H. intros E'. inversion E'. subst. intros q' Hq'.
  destruct (E q' Hq') as [q [Hq [S [L _]]]].
  rewrite (static_phase1 T _ _ S). unfold fresh in HF. rewrite Forall_forall in HF.
  specialize (HF q Hq). lra.
Qed.

Theorem upper_bound T k qs out rem :
  fresh qs -> set_resource_share T k qs = Done (out, rem) ->
  forall q, In q out -> q_fair q < cap q + 1.
Proof.
  intros HF. destruct (set_resource_share_spec T k qs) as [out' [rem' [H [_ [E _]]]]].
  rewrite H. intros E'. inversion E'. subst. intros q' Hq'.
  destruct (E q' Hq') as [q [Hq [S [_ U]]]].
  rewrite cap_requestable. apply U. unfold fresh in HF. rewrite Forall_forall in HF.
  specialize (HF q Hq). pose proof (phase1_le_requestable T q). lra.
Qed.

Theorem conservation T k qs out rem :
  fresh qs -> set_resource_share T k qs = Done (out, rem) ->
  sum_fair out + rem == Qmax T (sum_phase1 T qs) /\ 0 <= rem
  /\ sum_fair out - sum_phase1 T qs <= Qmax 0 (T - sum_phase1 T qs).
Proof.
  intros HF. destruct (set_resource_share_spec T k qs) as [out' [rem' [H [_ [_ [S R]]]]]].
  rewrite H. intros E'. inversion E'. subst. rewrite (fresh_sum _ HF) in S.
  split; [lra|]. split; [exact R|].
  destruct (Qlt_le_dec (sum_phase1 T qs) T) as [C|C].
  - rewrite Q.max_l in S by lra. rewrite Q.max_r by lra. lra.
  - rewrite Q.max_r in S by lra. rewrite Q.max_l by lra. lra.
Qed.

(** children divide their parent's fair share whenever their in-quota parts fit into it *)
Theorem children_divide_parent_partial parent k children out rem :
  fresh children -> set_children parent k children = Done (out, rem) ->
  sum_phase1 (q_fair parent) children <= q_fair parent ->
  sum_fair out <= q_fair parent.
Proof.
  unfold set_children. intros HF H Hfit.
  destruct (conservation _ _ _ _ _ HF H) as [S [R _]].
  rewrite Q.max_l in S by exact Hfit. lra.
Qed.

(** ... and not otherwise: quotas of the children are honoured even when the parent
    received less than their sum *)
Definition ex_parent : queue := mkQ 1 0 0 4 unlimited 1 6 0 4.
Definition ex_children : list queue :=
  [mkQ 1 0 0 3 unlimited 1 3 0 0; mkQ 2 0 0 3 unlimited 1 3 0 0].

Theorem children_divide_parent_refuted :
  exists parent k children out rem,
    fresh children /\ set_children parent k children = Done (out, rem)
    /\ q_fair parent < sum_fair out.
Proof.
  exists ex_parent, 0, ex_children.
  eexists. eexists. split; [|split].
  - repeat constructor.
  - vm_compute. reflexivity.
  - vm_compute. reflexivity.
Qed.
