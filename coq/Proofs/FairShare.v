(** Proofs for property C09 (fair-share division), about Model/FairShare.v. *)
From Coq Require Import List ZArith QArith Qround Qminmax Qabs Bool PArith Lia Lqa Permutation.
From KaiV Require Import Model.FairShare Model.FairShareSpec.
Import ListNotations.
Set Default Timeout 60.
Open Scope Q_scope.

(** * Arithmetic layer: the normalised operations denote the plain ones *)
Lemma qadd_eq a b : qadd a b == a + b.
Proof. apply Qred_correct. Qed.
Lemma qsub_eq a b : qsub a b == a - b.
Proof. apply Qred_correct. Qed.
Lemma qmul_eq a b : qmul a b == a * b.
Proof. apply Qred_correct. Qed.
Lemma qdiv_eq a b : qdiv a b == a / b.
Proof. apply Qred_correct. Qed.

Lemma qleb_iff a b : qleb a b = true <-> a <= b.
Proof. apply Qle_bool_iff. Qed.
Lemma qleb_false a b : qleb a b = false <-> b < a.
Proof.
  unfold qleb. split; intro H.
  - apply Qnot_le_lt. intro Hle. apply Qle_bool_iff in Hle. congruence.
  - destruct (Qle_bool a b) eqn:E; [|reflexivity].
    apply Qle_bool_iff in E. exfalso. apply (Qlt_not_le _ _ H E).
Qed.
Lemma qltb_iff a b : qltb a b = true <-> a < b.
Proof. unfold qltb. rewrite negb_true_iff. apply (qleb_false b a). Qed.
Lemma qltb_false a b : qltb a b = false <-> b <= a.
Proof. unfold qltb. rewrite negb_false_iff. apply (qleb_iff b a). Qed.
Lemma qeqb_iff a b : qeqb a b = true <-> a == b.
Proof. apply Qeq_bool_iff. Qed.
Lemma qeqb_false a b : qeqb a b = false <-> ~ a == b.
Proof.
  unfold qeqb. split; intro H.
  - intro E. apply Qeq_bool_iff in E. congruence.
  - destruct (Qeq_bool a b) eqn:E; [|reflexivity]. apply Qeq_bool_iff in E. contradiction.
Qed.

Lemma qmin_le_l a b : qmin a b <= a.
Proof. unfold qmin. destruct (qleb a b) eqn:E; [lra|]. apply qleb_false in E. lra. Qed.
Lemma qmin_le_r a b : qmin a b <= b.
Proof. unfold qmin. destruct (qleb a b) eqn:E; [|lra]. apply qleb_iff in E. lra. Qed.
Lemma qmin_glb a b c : c <= a -> c <= b -> c <= qmin a b.
Proof. unfold qmin. destruct (qleb a b); auto. Qed.
Lemma qmin_Qmin a b : qmin a b == Qmin a b.
Proof.
  unfold qmin. destruct (qleb a b) eqn:E.
  - apply qleb_iff in E. symmetry. apply Q.min_l. exact E.
  - apply qleb_false in E. symmetry. apply Q.min_r. lra.
Qed.
Lemma qmax_ge_l a b : a <= qmax a b.
Proof. unfold qmax. destruct (qleb a b) eqn:E; [|lra]. apply qleb_iff in E. lra. Qed.
Lemma qfloor_le a : qfloor a <= a.
Proof. apply Qfloor_le. Qed.

(** * One queue *)
Lemma static_add q g : static (add_share q g) = static q.
Proof. reflexivity. Qed.
Lemma requestable_add q g : requestable (add_share q g) = requestable q.
Proof. reflexivity. Qed.
Lemma fair_add q g : q_fair (add_share q g) == q_fair q + g.
Proof. cbn. apply qadd_eq. Qed.

Lemma unsat_lt q : satisfied q = false -> q_fair q < requestable q.
Proof.
  unfold satisfied, requestable. intros H. apply orb_false_iff in H as [H1 H2].
  apply qleb_false in H1.
  destruct (qeqb (q_limit q) unlimited) eqn:E; [exact H1|].
  cbn in H2. apply qleb_false in H2.
  unfold qmin. destruct (qleb (q_limit q) (q_request q)); assumption.
Qed.

Lemma sat_ge q : satisfied q = true -> requestable q <= q_fair q.
Proof.
  unfold satisfied, requestable. intros H. apply orb_true_iff in H as [H|H].
  - apply qleb_iff in H. destruct (qeqb (q_limit q) unlimited); [exact H|].
    pose proof (qmin_le_r (q_limit q) (q_request q)). lra.
  - apply andb_true_iff in H as [H1 H2]. apply negb_true_iff in H1. rewrite H1.
    apply qleb_iff in H2. pose proof (qmin_le_l (q_limit q) (q_request q)). lra.
Qed.

Lemma remaining_nonneg q : 0 <= remaining_requested q.
Proof.
  unfold remaining_requested. destruct (qltb (requestable q) (q_fair q)) eqn:E; [lra|].
  apply qltb_false in E. rewrite qsub_eq. lra.
Qed.

Lemma remaining_unsat q :
  satisfied q = false ->
  remaining_requested q == requestable q - q_fair q /\ 0 < remaining_requested q.
Proof.
  intros H. apply unsat_lt in H. unfold remaining_requested.
  destruct (qltb (requestable q) (q_fair q)) eqn:E.
  - apply qltb_iff in E. lra.
  - rewrite qsub_eq. split; lra.
Qed.

Lemma reach_requestable_sat q g :
  requestable q <= q_fair q + g -> satisfied (add_share q g) = true.
Proof.
  intros H. unfold satisfied, add_share; cbn [q_request q_limit q_fair].
  unfold requestable in H.
  destruct (qeqb (q_limit q) unlimited) eqn:E; cbn [negb andb].
  - apply orb_true_iff. left. apply qleb_iff. rewrite qadd_eq. exact H.
  - unfold qmin in H. destruct (qleb (q_limit q) (q_request q)) eqn:E2.
    + apply orb_true_iff. right. apply qleb_iff. rewrite qadd_eq. exact H.
    + apply orb_true_iff. left. apply qleb_iff. rewrite qadd_eq. exact H.
Qed.

Lemma satisfied_mono q g : 0 <= g -> satisfied q = true -> satisfied (add_share q g) = true.
Proof. intros Hg H. apply sat_ge in H. apply reach_requestable_sat. lra. Qed.

(** * getResourceToGiveInCurrentRound *)
Lemma give_spec fs req e g e' :
  0 <= fs -> give_in_round fs req e = (g, e') ->
  (req <= fs /\ g = req /\ e' = None)
  \/ (fs < req /\ 0 <= g /\ g <= fs /\ (e' = e \/ (exists d, e' = Some d /\ 0 < d))).
Proof.
  intros Hfs. unfold give_in_round.
  destruct (qleb req fs) eqn:E.
  - intros H. inversion H. subst. left. apply qleb_iff in E. repeat split; auto.
  - apply qleb_false in E. intros H. right. split; [exact E|].
    assert (Hg : 0 <= (if qltb 0 (qfloor fs) then qfloor fs else 0)
                 /\ (if qltb 0 (qfloor fs) then qfloor fs else 0) <= fs).
    { destruct (qltb 0 (qfloor fs)) eqn:E2.
      - apply qltb_iff in E2. pose proof (qfloor_le fs). split; lra.
      - split; lra. }
    inversion H. subst g. destruct Hg as [Hg1 Hg2]. split; [exact Hg1|]. split; [exact Hg2|].
    match goal with |- context [qltb 0 ?d] => destruct (qltb 0 d) eqn:E3 end.
    + right. eexists. split; [reflexivity|]. apply qltb_iff in E3. exact E3.
    + left. reflexivity.
Qed.

(** * One visit of the inner loop *)
Definition UB (x : rq) : Prop :=
  q_fair (fst x) <= requestable (fst x)
  /\ (has_entry x = true -> q_fair (fst x) < requestable (fst x)).

Lemma share_weight_nonneg k W q : 0 <= share_weight k W q.
Proof. unfold share_weight. apply qmax_ge_l. Qed.

Section Round.
Variables amount k W sum : Q.
Hypothesis Hamount : 0 <= amount.
Hypothesis Hsum : 0 < sum.

(** share of the round's amount a queue can receive at most, times [sum]/[amount] *)
Definition wshare (x : rq) : Q :=
  if satisfied (fst x) || qeqb (q_weight (fst x)) 0 then 0 else share_weight k W (fst x).

Lemma wshare_nonneg x : 0 <= wshare x.
Proof. unfold wshare. destruct (_ || _); [lra|apply share_weight_nonneg]. Qed.

Lemma fs_facts sw : 0 <= sw ->
  0 <= qmul amount (qdiv sw sum) /\ qmul amount (qdiv sw sum) * sum == amount * sw.
Proof.
  intros Hsw. rewrite qmul_eq, qdiv_eq. split.
  - apply Qmult_le_0_compat; [exact Hamount|].
    unfold Qdiv. apply Qmult_le_0_compat; [exact Hsw|].
    apply Qlt_le_weak. apply Qinv_lt_0_compat. exact Hsum.
  - field. lra.
Qed.

Lemma visit_spec x x' g a :
  visit amount k W sum x = (x', g, a) ->
  static (fst x') = static (fst x)
  /\ 0 <= g
  /\ q_fair (fst x') == q_fair (fst x) + g
  /\ g * sum <= amount * wshare x
  /\ (a = true -> satisfied (fst x) = false /\ satisfied (fst x') = true)
  /\ (satisfied (fst x) = true -> satisfied (fst x') = true)
  /\ (qeqb g 0 = true -> fst x' = fst x)
  /\ (UB x -> UB x').
Proof.
  destruct x as [q e]. unfold visit, wshare. cbn [fst snd].
  destruct (satisfied q) eqn:Hs; cbn [orb].
  { intros H. inversion H. subst. cbn [fst snd]. rewrite Hs.
    repeat split; try reflexivity; try lra; try discriminate; auto; apply H0. }
  destruct (qeqb (q_weight q) 0) eqn:Hw.
  { intros H. inversion H. subst. cbn [fst snd]. rewrite Hs.
    repeat split; try reflexivity; try lra; try discriminate; auto; apply H0. }
  pose proof (fs_facts (share_weight k W q) (share_weight_nonneg k W q)) as [Hfs0 Hfs].
  pose proof (remaining_unsat q Hs) as [Hrr Hrr0].
  pose proof (unsat_lt q Hs) as Hlt.
  set (fs := qmul amount (qdiv (share_weight k W q) sum)) in *.
  destruct (give_in_round fs (remaining_requested q) e) as [g0 e0] eqn:Hg.
  apply (give_spec _ _ _ _ _ Hfs0) in Hg.
  destruct (qeqb g0 0) eqn:Hg0.
  - intros H. inversion H. subst. cbn [fst snd].
    split; [reflexivity|]. split; [lra|]. split; [lra|].
    split; [rewrite <- Hfs; apply Qmult_le_compat_r; lra|].
    split; [discriminate|]. split; [discriminate|]. split; [reflexivity|].
    intros _. split; cbn [fst snd]; [lra|intros _; lra].
  - intros H. inversion H. subst x' g a. cbn [fst snd]. clear H.
    assert (Hgpos : 0 <= g0) by (destruct Hg as [[_ [-> _]]|[_ [H _]]]; lra).
    assert (Hgfs : g0 <= fs) by (destruct Hg as [[H [-> _]]|[_ [_ [H _]]]]; lra).
    split; [reflexivity|]. split; [exact Hgpos|]. split; [apply fair_add|].
    split; [rewrite <- Hfs; apply Qmult_le_compat_r; lra|].
    split.
    { intros Ha. apply qltb_iff in Ha. split; [reflexivity|].
      destruct Hg as [[_ [-> _]]|[Hc _]]; [|lra].
      apply reach_requestable_sat. lra. }
    split; [discriminate|]. split; [intros Hc; rewrite Hc in Hg0; discriminate|].
    intros _. unfold UB. cbn [fst snd]. rewrite requestable_add, fair_add.
    destruct Hg as [[Hc [-> ->]]|[Hc [_ [_ _]]]].
    + split; [lra|]. cbn. discriminate.
    + split; [lra|]. intros _. lra.
Qed.

Definition fairs (l : list rq) : Q := fold_right (fun x a => q_fair (fst x) + a) 0 l.
Definition wsum (l : list rq) : Q := fold_right (fun x a => wshare x + a) 0 l.
Definition unsat1 (x : rq) : nat := if satisfied (fst x) then 0%nat else 1%nat.
Definition unsat_count (l : list rq) : nat := fold_right (fun x n => (unsat1 x + n)%nat) 0%nat l.

(** how a queue may evolve during the over-quota phase *)
Definition evolves (x x' : rq) : Prop :=
  static (fst x') = static (fst x)
  /\ q_fair (fst x) <= q_fair (fst x')
  /\ (satisfied (fst x) = true -> satisfied (fst x') = true)
  /\ (UB x -> UB x').

Lemma evolves_refl x : evolves x x.
Proof. unfold evolves. split; [reflexivity|]. split; [lra|]. split; auto. Qed.
Lemma evolves_trans x y z : evolves x y -> evolves y z -> evolves x z.
Proof.
  unfold evolves. intros [A1 [A2 [A3 A4]]] [B1 [B2 [B3 B4]]].
  repeat split; auto; try congruence; try lra; try (apply B4, A4; assumption).
Qed.
Lemma Forall2_evolves_refl l : Forall2 evolves l l.
Proof. induction l; constructor; auto using evolves_refl. Qed.
Lemma Forall2_evolves_trans l1 : forall l2 l3,
  Forall2 evolves l1 l2 -> Forall2 evolves l2 l3 -> Forall2 evolves l1 l3.
Proof.
  induction l1; intros l2 l3 H1 H2; inversion H1; subst; inversion H2; subst; constructor.
  - eapply evolves_trans; eauto.
  - eapply IHl1; eauto.
Qed.

Lemma wsum_nonneg l : 0 <= wsum l.
Proof.
  induction l as [|a l IH]; [cbn; lra|]. change (0 <= wshare a + wsum l).
  pose proof (wshare_nonneg a). lra.
Qed.

Lemma round_spec : forall qs total again qs' total' again',
  round_queues amount k W sum qs total again = (qs', total', again') ->
  amount * wsum qs <= total * sum ->
  Forall2 evolves qs qs'
  /\ fairs qs' + total' == fairs qs + total
  /\ 0 <= total'
  /\ (unsat_count qs' + (if again' && negb again then 1 else 0) <= unsat_count qs)%nat
  /\ (again = true -> again' = true).
Proof.
  induction qs as [|x r IH]; intros total again qs' total' again' H Inv.
  - cbn in H. inversion H. subst. change (wsum []) with 0 in Inv.
    split; [constructor|]. split; [reflexivity|].
    split; [nra|]. split; [rewrite andb_negb_r; cbn; lia|auto].
  - cbn [round_queues] in H. destruct (qeqb total 0) eqn:Ht.
    + inversion H. subst. apply qeqb_iff in Ht.
      split; [apply Forall2_evolves_refl|]. split; [lra|]. split; [lra|].
      split; [rewrite andb_negb_r; lia|auto].
    + destruct (visit amount k W sum x) as [[x1 g] a] eqn:Hv.
      destruct (round_queues amount k W sum r (if qeqb g 0 then total else qsub total g) (again || a))
        as [[r1 t1] a1] eqn:Hr.
      inversion H. subst qs' total' again'. clear H.
      apply visit_spec in Hv. destruct Hv as [V1 [V2 [V3 [V4 [V5 [V6 [V7 V8]]]]]]].
      set (tt := if qeqb g 0 then total else qsub total g) in *.
      assert (Htt : tt == total - g).
      { unfold tt. destruct (qeqb g 0) eqn:Hg0.
        - apply qeqb_iff in Hg0. lra.
        - apply qsub_eq. }
      cbn [wsum fold_right] in Inv. fold (wsum r) in Inv.
      apply IH in Hr.
      2:{ rewrite Htt. lra. }
      destruct Hr as [R1 [R2 [R3 [R4 R5]]]].
      split.
      { constructor; [|exact R1]. unfold evolves. split; [exact V1|]. split; [lra|]. split; assumption. }
      split.
      { cbn [fairs fold_right]. fold (fairs r1). fold (fairs r). rewrite V3. rewrite Htt in R2. lra. }
      split; [exact R3|].
      split.
      { cbn [unsat_count fold_right]. fold (unsat_count r1). fold (unsat_count r).
        unfold unsat1 at 1 2.
        destruct a.
        - destruct (V5 eq_refl) as [Va Vb]. rewrite Va, Vb.
          rewrite orb_true_r in R4. cbn in R4.
          destruct (a1 && negb again); lia.
        - rewrite orb_false_r in R4.
          destruct (satisfied (fst x)) eqn:Hsx.
          + rewrite (V6 eq_refl). lia.
          + destruct (satisfied (fst x1)); lia. }
      { intros Ha. apply R5. rewrite Ha. reflexivity. }
Qed.
End Round.

(** * The rounds of one priority band *)
Definition ssum (k W : Q) (l : list rq) : Q :=
  fold_right (fun x a => (if satisfied (fst x) then 0 else share_weight k W (fst x)) + a) 0 l.

Lemma share_weights_sum_acc k W l : forall acc,
  fold_left (fun acc (x : rq) =>
               if satisfied (fst x) then acc else qadd acc (share_weight k W (fst x))) l acc
  == acc + ssum k W l.
Proof.
  induction l as [|x l IH]; intros acc; cbn [fold_left ssum fold_right]; [lra|].
  fold (ssum k W l). rewrite IH. destruct (satisfied (fst x)); [lra|]. rewrite qadd_eq. lra.
Qed.
Lemma share_weights_sum_eq k W l : share_weights_sum k W l == ssum k W l.
Proof. unfold share_weights_sum. rewrite share_weights_sum_acc. lra. Qed.

Lemma wsum_le_ssum k W l : wsum k W l <= ssum k W l.
Proof.
  induction l as [|x l IH]; cbn [wsum ssum fold_right]; [lra|].
  fold (wsum k W l). fold (ssum k W l). unfold wshare.
  pose proof (share_weight_nonneg k W (fst x)).
  destruct (satisfied (fst x)); cbn [orb]; [lra|].
  destruct (qeqb (q_weight (fst x)) 0); lra.
Qed.

Lemma unsat_count_le l : (unsat_count l <= length l)%nat.
Proof.
  induction l as [|x l IH]; cbn [unsat_count fold_right length]; [lia|].
  fold (unsat_count l). unfold unsat1. destruct (satisfied (fst x)); lia.
Qed.

Lemma divide_up_to_spec k : forall fuel qs total,
  0 <= total ->
  match divide_up_to fuel k qs total with
  | Done (qs', total') =>
      Forall2 evolves qs qs' /\ fairs qs' + total' == fairs qs + total /\ 0 <= total'
  | OutOfFuel => (fuel <= unsat_count qs)%nat
  end.
Proof.
  induction fuel as [|f IH]; intros qs total Ht; cbn [divide_up_to]; [lia|].
  destruct (qeqb (total_weights qs) 0) eqn:HW.
  { split; [apply Forall2_evolves_refl|]. split; [reflexivity|exact Ht]. }
  destruct (qeqb (share_weights_sum k (total_weights qs) qs) 0) eqn:Hs.
  { split; [apply Forall2_evolves_refl|]. split; [reflexivity|exact Ht]. }
  set (W := total_weights qs) in *. set (sum := share_weights_sum k W qs) in *.
  assert (Hsum : 0 < sum).
  { apply qeqb_false in Hs. pose proof (share_weights_sum_eq k W qs) as E.
    pose proof (wsum_le_ssum k W qs). pose proof (wsum_nonneg k W qs).
    fold sum in E. assert (0 <= sum) by lra.
    apply Qle_lt_or_eq in H1. destruct H1 as [H1|H1]; [exact H1|]. exfalso. apply Hs. lra. }
  destruct (round_queues total k W sum qs total false) as [[qs1 t1] a1] eqn:Hr.
  apply (round_spec total k W sum Ht Hsum) in Hr.
  2:{ pose proof (share_weights_sum_eq k W qs) as E. fold sum in E.
      pose proof (wsum_le_ssum k W qs). nra. }
  destruct Hr as [R1 [R2 [R3 [R4 R5]]]].
  destruct (negb a1 || qeqb t1 0) eqn:Hstop.
  { split; [exact R1|]. split; [exact R2|exact R3]. }
  apply orb_false_iff in Hstop as [Ha _]. apply negb_false_iff in Ha. subst a1.
  cbn in R4. specialize (IH qs1 t1 R3).
  destruct (divide_up_to f k qs1 t1) as [[qs2 t2]|].
  - destruct IH as [I1 [I2 I3]]. split; [eapply Forall2_evolves_trans; eauto|].
    split; [lra|exact I3].
  - lia.
Qed.

Lemma fuel_suffices_band k qs total :
  0 <= total -> divide_up_to (S (length qs)) k qs total <> OutOfFuel.
Proof.
  intros Ht E. pose proof (divide_up_to_spec k (S (length qs)) qs total Ht) as H.
  rewrite E in H. pose proof (unsat_count_le qs). lia.
Qed.

(** * Lists of queues: sums, static parts, permutations *)
Definition sf (x : rq) : queue := static (fst x).

Lemma fairs_nil : fairs [] = 0.
Proof. reflexivity. Qed.
Lemma fairs_cons x l : fairs (x :: l) = q_fair (fst x) + fairs l.
Proof. reflexivity. Qed.
Lemma fairs_app l1 l2 : fairs (l1 ++ l2) == fairs l1 + fairs l2.
Proof.
  induction l1 as [|x l IH]; cbn [app]; rewrite ?fairs_nil, ?fairs_cons; [lra|].
  rewrite IH. lra.
Qed.
Lemma fairs_perm l l' : Permutation l l' -> fairs l == fairs l'.
Proof.
  induction 1; rewrite ?fairs_cons.
  - reflexivity.
  - rewrite IHPermutation. reflexivity.
  - lra.
  - rewrite IHPermutation1. exact IHPermutation2.
Qed.
Lemma fairs_partition (f : rq -> bool) l :
  fairs (filter f l) + fairs (filter (fun x => negb (f x)) l) == fairs l.
Proof.
  induction l as [|x l IH]; cbn [filter]; rewrite ?fairs_nil, ?fairs_cons; [lra|].
  destruct (f x); cbn [negb]; rewrite ?fairs_cons; lra.
Qed.
Lemma perm_partition {A} (f : A -> bool) l :
  Permutation (filter f l ++ filter (fun x => negb (f x)) l) l.
Proof.
  induction l as [|x l IH]; cbn [filter app]; [constructor|].
  destruct (f x); cbn [negb app].
  - constructor. exact IH.
  - symmetry. apply Permutation_cons_app. symmetry. exact IH.
Qed.

Lemma Forall2_in_r {A B} (R : A -> B -> Prop) l l' y :
  Forall2 R l l' -> In y l' -> exists x, In x l /\ R x y.
Proof.
  induction 1 as [|a b l l' Hab HF IH]; cbn; [tauto|].
  intros [->|Hin]; [exists a; auto|]. destruct (IH Hin) as [x [Hx HR]]. exists x. auto.
Qed.

Lemma evolves_sf l l' : Forall2 evolves l l' -> map sf l = map sf l'.
Proof.
  induction 1 as [|a b l l' Hab HF IH]; cbn [map]; [reflexivity|].
  f_equal; [|exact IH]. unfold sf. destruct Hab as [E _]. symmetry. exact E.
Qed.

(** * divideRemainingResource *)
Definition final (x x' : rq) : Prop :=
  static (fst x') = static (fst x)
  /\ q_fair (fst x) <= q_fair (fst x')
  /\ q_fair (fst x') <= q_fair (fst x) + 1
  /\ (UB x -> q_fair (fst x') < requestable (fst x') + 1).

Lemma final_refl x : final x x.
Proof. unfold final. split; [reflexivity|]. split; [lra|]. split; [lra|]. intros [H _]. lra. Qed.

Lemma Forall2_final_refl l : Forall2 final l l.
Proof. induction l; constructor; auto using final_refl. Qed.

Lemma final_sf l l' : Forall2 final l l' -> map sf l = map sf l'.
Proof.
  induction 1 as [|a b l l' Hab HF IH]; cbn [map]; [reflexivity|].
  f_equal; [|exact IH]. unfold sf. destruct Hab as [E _]. symmetry. exact E.
Qed.

Lemma qmin1_facts t : 0 <= t -> 0 <= qmin 1 t /\ qmin 1 t <= 1 /\ qmin 1 t <= t.
Proof.
  intros Ht. pose proof (qmin_le_l 1 t). pose proof (qmin_le_r 1 t).
  split; [apply qmin_glb; lra|]. split; assumption.
Qed.

Lemma hand_out_spec : forall es total es' t',
  0 <= total -> Forall (fun x => has_entry x = true) es ->
  hand_out es total = (es', t') ->
  Forall2 final es es' /\ fairs es' + t' == fairs es + total /\ 0 <= t'.
Proof.
  induction es as [|[q e] r IH]; intros total es' t' Ht Hall H.
  - cbn in H. inversion H. subst. split; [constructor|]. split; [reflexivity|exact Ht].
  - cbn [hand_out] in H. destruct (qeqb total 0) eqn:E0.
    + inversion H. subst. split.
      { apply Forall2_final_refl. }
      split; [reflexivity|exact Ht].
    + destruct (hand_out r (qsub total (qmin 1 total))) as [r1 t1] eqn:Hr.
      inversion H. subst es' t'. clear H.
      destruct (qmin1_facts total Ht) as [G0 [G1 G2]].
      inversion Hall as [|? ? Hhe Hall']. subst.
      apply IH in Hr; [|rewrite qsub_eq; lra|exact Hall'].
      destruct Hr as [R1 [R2 R3]]. rewrite qsub_eq in R2.
      split.
      { constructor; [|exact R1]. unfold final. cbn [fst snd].
        split; [reflexivity|]. rewrite requestable_add, fair_add. split; [lra|]. split; [lra|].
        intros [_ HU]. specialize (HU Hhe). cbn [fst] in HU. lra. }
      split; [|exact R3].
      rewrite !fairs_cons. cbn [fst]. rewrite fair_add. lra.
Qed.

Lemma insert_entry_perm x l : Permutation (insert_entry x l) (x :: l).
Proof.
  induction l as [|y l IH]; cbn [insert_entry]; [reflexivity|].
  destruct (entry_before x y); [reflexivity|].
  rewrite IH. apply perm_swap.
Qed.
Lemma sort_entries_perm l : Permutation (sort_entries l) l.
Proof.
  induction l as [|x l IH]; cbn; [constructor|].
  fold (sort_entries l). rewrite insert_entry_perm. constructor. exact IH.
Qed.

Definition band_final (b b' : list rq) : Prop :=
  Permutation (map sf b') (map sf b)
  /\ (forall x2, In x2 b' -> exists x1, In x1 b /\ final x1 x2).

Lemma band_final_refl b : band_final b b.
Proof. split; [reflexivity|]. intros x Hx. exists x. auto using final_refl. Qed.

Lemma Forall2_band_final_refl l : Forall2 band_final l l.
Proof. induction l; constructor; auto using band_final_refl. Qed.

Lemma divide_remaining_spec b total b' t' :
  0 <= total -> divide_remaining b total = (b', t') ->
  band_final b b' /\ fairs b' + t' == fairs b + total /\ 0 <= t'.
Proof.
  intros Ht. unfold divide_remaining.
  destruct (hand_out (sort_entries (filter has_entry b)) total) as [es t] eqn:Hh.
  intros H. inversion H. subst b' t'. clear H.
  pose proof (sort_entries_perm (filter has_entry b)) as Hp.
  apply hand_out_spec in Hh; [|exact Ht|].
  2:{ apply Forall_forall. intros x Hx. apply (Permutation_in _ Hp) in Hx.
      apply filter_In in Hx. tauto. }
  destruct Hh as [H1 [H2 H3]].
  set (rest := filter (fun x => negb (has_entry x)) b) in *.
  split; [split|split].
  - rewrite map_app. rewrite <- (final_sf _ _ H1). rewrite <- map_app.
    apply Permutation_map. rewrite Hp. apply perm_partition.
  - intros x2 Hx. apply in_app_or in Hx as [Hx|Hx].
    + destruct (Forall2_in_r _ _ _ _ H1 Hx) as [x1 [Hx1 HR]]. exists x1. split; [|exact HR].
      apply (Permutation_in _ Hp) in Hx1. apply filter_In in Hx1. tauto.
    + exists x2. split; [|apply final_refl]. apply filter_In in Hx. tauto.
  - rewrite fairs_app. rewrite (fairs_perm _ _ Hp) in H2.
    pose proof (fairs_partition has_entry b). fold rest in H. lra.
  - exact H3.
Qed.

Lemma hand_out_bands_spec : forall bs total bs' t',
  0 <= total -> hand_out_bands bs total = (bs', t') ->
  Forall2 band_final bs bs' /\ fairs (concat bs') + t' == fairs (concat bs) + total /\ 0 <= t'.
Proof.
  induction bs as [|b r IH]; intros total bs' t' Ht H.
  - cbn in H. inversion H. subst. split; [constructor|]. split; [reflexivity|exact Ht].
  - cbn [hand_out_bands] in H. destruct (qleb total 0) eqn:E0.
    { inversion H. subst. split.
      - apply Forall2_band_final_refl.
      - split; [reflexivity|exact Ht]. }
    destruct (negb (existsb has_entry b)).
    { destruct (hand_out_bands r total) as [r1 t1] eqn:Hr. inversion H. subst. clear H.
      apply IH in Hr; [|exact Ht]. destruct Hr as [R1 [R2 R3]].
      split; [constructor; [apply band_final_refl|exact R1]|]. split; [|exact R3].
      cbn [concat]. rewrite !fairs_app. lra. }
    destruct (divide_remaining b total) as [b1 t1] eqn:Hd.
    destruct (hand_out_bands r t1) as [r1 t2] eqn:Hr. inversion H. subst. clear H.
    apply divide_remaining_spec in Hd; [|exact Ht]. destruct Hd as [D1 [D2 D3]].
    apply IH in Hr; [|exact D3]. destruct Hr as [R1 [R2 R3]].
    split; [constructor; assumption|]. split; [|exact R3].
    cbn [concat]. rewrite !fairs_app. lra.
Qed.

(** * The bands *)
Lemma run_bands_spec k qs : forall ps total,
  0 <= total ->
  match run_bands k ps qs total with
  | Done (bs, t) =>
      Forall2 evolves (concat (map (fun p => band p qs) ps)) (concat bs)
      /\ fairs (concat bs) + t == fairs (concat (map (fun p => band p qs) ps)) + total
      /\ 0 <= t
  | OutOfFuel => False
  end.
Proof.
  induction ps as [|p r IH]; intros total Ht; cbn [run_bands map concat].
  - split; [constructor|]. split; [reflexivity|exact Ht].
  - pose proof (divide_up_to_spec k (S (length (band p qs))) (band p qs) total Ht) as H.
    destruct (divide_up_to (S (length (band p qs))) k (band p qs) total) as [[b1 t1]|].
    2:{ pose proof (unsat_count_le (band p qs)). lia. }
    destruct H as [H1 [H2 H3]]. specialize (IH t1 H3).
    destruct (run_bands k r qs t1) as [[bs t]|]; [|exact IH].
    destruct IH as [I1 [I2 I3]]. cbn [concat].
    split; [apply Forall2_app; assumption|]. split; [|exact I3].
    rewrite !fairs_app. lra.
Qed.

From Coq Require Import Sorted.

Definition zgt (a b : Z) : Prop := (b < a)%Z.

Lemma insert_prio_in p l x : In x (insert_prio p l) <-> x = p \/ In x l.
Proof.
  induction l as [|y r IH]; cbn [insert_prio In]; [intuition|].
  destruct (y <? p)%Z; [cbn [In]; intuition|].
  destruct (y =? p)%Z eqn:E; cbn [In].
  - apply Z.eqb_eq in E. subst. intuition.
  - rewrite IH. intuition.
Qed.

Lemma insert_prio_sorted p l : StronglySorted zgt l -> StronglySorted zgt (insert_prio p l).
Proof.
  induction 1 as [|y r HS IH HF]; cbn [insert_prio].
  - constructor; constructor.
  - destruct (y <? p)%Z eqn:E1.
    + apply Z.ltb_lt in E1. constructor; [constructor; assumption|].
      constructor; [exact E1|]. eapply Forall_impl; [|exact HF].
      unfold zgt. intros z Hz. lia.
    + destruct (y =? p)%Z eqn:E2; [constructor; assumption|].
      apply Z.ltb_ge in E1. apply Z.eqb_neq in E2.
      constructor; [exact IH|]. apply Forall_forall. intros z Hz.
      apply insert_prio_in in Hz. destruct Hz as [->|Hz]; [unfold zgt; lia|].
      rewrite Forall_forall in HF. apply HF. exact Hz.
Qed.

Lemma priorities_sorted qs : StronglySorted zgt (priorities qs).
Proof. induction qs; cbn; [constructor|apply insert_prio_sorted; assumption]. Qed.

Lemma sorted_nodup l : StronglySorted zgt l -> NoDup l.
Proof.
  induction 1 as [|y r HS IH HF]; constructor; [|exact IH].
  intros Hin. rewrite Forall_forall in HF. specialize (HF y Hin). unfold zgt in HF. lia.
Qed.

Lemma priorities_in qs q : In q qs -> In (q_prio q) (priorities qs).
Proof.
  induction qs as [|a l IH]; cbn [In priorities fold_right]; [tauto|].
  fold (priorities l). intros [->|H]; apply insert_prio_in; auto.
Qed.

Lemma perm_filter_disjoint {A} (f g : A -> bool) l :
  (forall x, f x = true -> g x = false) ->
  Permutation (filter f l ++ filter g l) (filter (fun x => f x || g x) l).
Proof.
  intros D. induction l as [|x l IH]; cbn [filter app]; [constructor|].
  destruct (f x) eqn:Ef; cbn [orb].
  - rewrite (D x Ef). cbn [app]. constructor. exact IH.
  - destruct (g x); [|exact IH].
    symmetry. apply Permutation_cons_app. symmetry. exact IH.
Qed.

Lemma filter_all {A} (f : A -> bool) l : (forall x, In x l -> f x = true) -> filter f l = l.
Proof.
  induction l as [|x l IH]; cbn [filter]; [reflexivity|]. intros H.
  rewrite (H x (or_introl eq_refl)). f_equal. apply IH. intros y Hy. apply H. right. exact Hy.
Qed.

Lemma band_partition (qs : list queue) : forall ps, NoDup ps ->
  Permutation (concat (map (fun p => filter (fun q => (q_prio q =? p)%Z) qs) ps))
              (filter (fun q => existsb (Z.eqb (q_prio q)) ps) qs).
Proof.
  induction ps as [|p r IH]; intros ND; cbn [map concat existsb].
  - induction qs; cbn; auto.
  - inversion ND as [|? ? Hnin ND']. subst. rewrite (IH ND').
    apply perm_filter_disjoint. intros q Hq. apply Z.eqb_eq in Hq.
    destruct (existsb (Z.eqb (q_prio q)) r) eqn:E; [|reflexivity].
    apply existsb_exists in E. destruct E as [z [Hz Hz']]. apply Z.eqb_eq in Hz'. congruence.
Qed.

Lemma bands_perm qs :
  Permutation (concat (map (fun p => filter (fun q => (q_prio q =? p)%Z) qs) (priorities qs))) qs.
Proof.
  rewrite band_partition; [|apply sorted_nodup, priorities_sorted].
  rewrite filter_all; [reflexivity|]. intros q Hq. apply existsb_exists.
  exists (q_prio q). split; [apply priorities_in; exact Hq|apply Z.eqb_refl].
Qed.

Lemma bands_concat qs ps :
  concat (map (fun p => band p qs) ps)
  = map (fun q => (q, None)) (concat (map (fun p => filter (fun q => (q_prio q =? p)%Z) qs) ps)).
Proof.
  unfold band. rewrite concat_map, map_map. reflexivity.
Qed.

(** * setDeservedResource and the whole division *)
Lemma cap_requestable q : cap q == requestable q.
Proof.
  unfold cap, requestable, qeqb. destruct (Qeq_bool (q_limit q) unlimited); [reflexivity|].
  symmetry. apply qmin_Qmin.
Qed.

Lemma amt_phase1 T q :
  qmin (if qeqb (q_deserved q) unlimited then T else q_deserved q) (requestable q) == phase1 T q.
Proof.
  unfold phase1, eff_deserved, qeqb. rewrite qmin_Qmin. rewrite cap_requestable. reflexivity.
Qed.

Lemma static_requestable q q' : static q' = static q -> requestable q' = requestable q.
Proof. unfold static, requestable. intros H. injection H as _ _ _ _ -> _ -> _. reflexivity. Qed.
Lemma static_phase1 T q q' : static q' = static q -> phase1 T q' = phase1 T q.
Proof.
  unfold static, phase1, eff_deserved, cap. intros H. injection H as _ _ _ -> -> _ -> _. reflexivity.
Qed.

Definition deserved_step (T : Q) (q q1 : queue) : Prop :=
  static q1 = static q /\ q_fair q1 == q_fair q + phase1 T q.

Lemma sum_fair_cons q l : sum_fair (q :: l) = q_fair q + sum_fair l.
Proof. reflexivity. Qed.
Lemma sum_phase1_cons T q l : sum_phase1 T (q :: l) = phase1 T q + sum_phase1 T l.
Proof. reflexivity. Qed.

Lemma set_deserved_spec T : forall qs rem qs1 rem1,
  set_deserved T rem qs = (qs1, rem1) ->
  Forall2 (deserved_step T) qs qs1
  /\ sum_fair qs1 == sum_fair qs + sum_phase1 T qs
  /\ rem1 == rem - sum_phase1 T qs.
Proof.
  induction qs as [|q r IH]; intros rem qs1 rem1 H.
  - cbn in H. inversion H. subst. split; [constructor|]. cbn. split; lra.
  - cbn [set_deserved] in H.
    set (amt := qmin (if qeqb (q_deserved q) unlimited then T else q_deserved q) (requestable q)) in *.
    destruct (set_deserved T (qsub rem amt) r) as [r1 rem2] eqn:Hr.
    inversion H. subst qs1 rem1. clear H.
    apply IH in Hr. destruct Hr as [R1 [R2 R3]].
    pose proof (amt_phase1 T q) as Ha. fold amt in Ha.
    split.
    { constructor; [|exact R1]. split; [reflexivity|]. rewrite fair_add. rewrite Ha. reflexivity. }
    rewrite !sum_fair_cons, sum_phase1_cons. rewrite fair_add. rewrite qsub_eq in R3. split; lra.
Qed.

Lemma deserved_static T l l' : Forall2 (deserved_step T) l l' -> map static l' = map static l.
Proof.
  induction 1 as [|a b l l' [E _] HF IH]; cbn [map]; [reflexivity|]. f_equal; assumption.
Qed.

Lemma fairs_sum_fair l : fairs l = sum_fair (map fst l).
Proof. induction l as [|x l IH]; [reflexivity|]. rewrite fairs_cons. cbn [map]. rewrite sum_fair_cons. f_equal. exact IH. Qed.
Lemma fairs_inj l : fairs (map (fun q : queue => (q, @None Q)) l) = sum_fair l.
Proof. rewrite fairs_sum_fair, map_map. cbn [fst]. rewrite map_id. reflexivity. Qed.
Lemma sum_fair_perm l l' : Permutation l l' -> sum_fair l == sum_fair l'.
Proof.
  induction 1; rewrite ?sum_fair_cons.
  - reflexivity.
  - rewrite IHPermutation. reflexivity.
  - lra.
  - rewrite IHPermutation1. exact IHPermutation2.
Qed.

Lemma band_final_concat bs bs' :
  Forall2 band_final bs bs' ->
  Permutation (map sf (concat bs')) (map sf (concat bs))
  /\ (forall x2, In x2 (concat bs') -> exists x1, In x1 (concat bs) /\ final x1 x2).
Proof.
  induction 1 as [|b b' l l' [P E] HF [IP IE]]; cbn [concat]; [split; [reflexivity|cbn; tauto]|].
  split.
  - rewrite !map_app. apply Permutation_app; assumption.
  - intros x2 Hx. apply in_app_or in Hx as [Hx|Hx].
    + destruct (E x2 Hx) as [x1 [H1 H2]]. exists x1. split; [apply in_or_app; left; exact H1|exact H2].
    + destruct (IE x2 Hx) as [x1 [H1 H2]]. exists x1. split; [apply in_or_app; right; exact H1|exact H2].
Qed.

(** what the division does to one queue: [q] as given, [q'] in the result *)
Definition outcome_of (T : Q) (q q' : queue) : Prop :=
  static q' = static q
  /\ q_fair q + phase1 T q <= q_fair q'
  /\ (q_fair q + phase1 T q <= requestable q -> q_fair q' < requestable q' + 1).

Theorem set_resource_share_spec T k qs :
  exists out rem,
    set_resource_share T k qs = Done (out, rem)
    /\ Permutation (map static out) (map static qs)
    /\ (forall q', In q' out -> exists q, In q qs /\ outcome_of T q q')
    /\ sum_fair out + rem == sum_fair qs + Qmax T (sum_phase1 T qs)
    /\ 0 <= rem.
Proof.
  unfold set_resource_share.
  destruct (set_deserved T T qs) as [qs1 rem0] eqn:Hd.
  apply set_deserved_spec in Hd. destruct Hd as [D1 [D2 D3]].
  pose proof (deserved_static _ _ _ D1) as Dst.
  destruct (qltb 0 rem0) eqn:Hrem.
  2:{ apply qltb_false in Hrem. exists qs1, 0. split; [reflexivity|].
      split; [rewrite Dst; reflexivity|]. split.
      - intros q' Hq'. destruct (Forall2_in_r _ _ _ _ D1 Hq') as [q [Hq [S F]]].
        exists q. split; [exact Hq|]. split; [exact S|]. split; [lra|].
        intros Hle. rewrite (static_requestable _ _ S). lra.
      - split; [|lra]. rewrite Q.max_r by lra. lra. }
  apply qltb_iff in Hrem. unfold divide_over_quota.
  pose proof (run_bands_spec k qs1 (priorities qs1) rem0 (Qlt_le_weak _ _ Hrem)) as HB.
  destruct (run_bands k (priorities qs1) qs1 rem0) as [[bs t]|]; [|contradiction].
  destruct HB as [B1 [B2 B3]].
  destruct (hand_out_bands bs t) as [bs' t'] eqn:Hh.
  apply hand_out_bands_spec in Hh; [|exact B3]. destruct Hh as [H1 [H2 H3]].
  apply band_final_concat in H1. destruct H1 as [HP HE].
  rewrite bands_concat in B1, B2.
  set (L := concat (map (fun p => filter (fun q => (q_prio q =? p)%Z) qs1) (priorities qs1))) in *.
  pose proof (bands_perm qs1) as HL. fold L in HL.
  exists (map fst (concat bs')), t'. split; [reflexivity|].
  split.
  { rewrite map_map. change (fun x : rq => static (fst x)) with sf. rewrite HP.
    rewrite <- (evolves_sf _ _ B1). rewrite map_map. unfold sf. cbn [fst].
    rewrite <- Dst. apply Permutation_map. exact HL. }
  split.
  { intros q' Hq'. apply in_map_iff in Hq' as [x2 [<- Hx2]].
    destruct (HE x2 Hx2) as [x1 [Hx1 [F1 [F2 [_ F3]]]]].
    destruct (Forall2_in_r _ _ _ _ B1 Hx1) as [x0 [Hx0 [E1 [E2 [E3 E4]]]]].
    apply in_map_iff in Hx0 as [q1 [<- Hq1]]. cbn [fst] in *.
    apply (Permutation_in _ HL) in Hq1.
    destruct (Forall2_in_r _ _ _ _ D1 Hq1) as [q [Hq [S F]]].
    exists q. split; [exact Hq|]. split; [congruence|]. split; [lra|].
    intros Hle. apply F3. apply E4. split; cbn [fst snd].
    - rewrite (static_requestable _ _ S). lra.
    - cbn. discriminate. }
  split; [|exact H3].
  rewrite <- fairs_sum_fair. rewrite fairs_inj in B2. rewrite (sum_fair_perm _ _ HL) in B2.
  rewrite Q.max_l by lra. lra.
Qed.

(** * The clauses of C09 that hold for all inputs *)
Definition fresh (qs : list queue) : Prop := Forall (fun q => q_fair q == 0) qs.

Lemma fresh_sum qs : fresh qs -> sum_fair qs == 0.
Proof.
  induction 1 as [|q l Hq HF IH]; [reflexivity|]. rewrite sum_fair_cons. lra.
Qed.

Theorem fuel_suffices T k qs : set_resource_share T k qs <> OutOfFuel.
Proof.
  destruct (set_resource_share_spec T k qs) as [out [rem [H _]]]. rewrite H. discriminate.
Qed.

Theorem same_queues T k qs out rem :
  set_resource_share T k qs = Done (out, rem) -> Permutation (map static out) (map static qs).
Proof.
  destruct (set_resource_share_spec T k qs) as [out' [rem' [H [P _]]]].
  rewrite H. intros E. inversion E. subst. exact P.
Qed.

Lemma phase1_le_requestable T q : phase1 T q <= requestable q.
Proof. unfold phase1. rewrite <- cap_requestable. apply Q.le_min_r. Qed.

Theorem lower_bound T k qs out rem :
  fresh qs -> set_resource_share T k qs = Done (out, rem) ->
  forall q, In q out -> phase1 T q <= q_fair q.
Proof.
  intros HF. destruct (set_resource_share_spec T k qs) as [out' [rem' [H [_ [E _]]]]].
  rewrite H. intros E'. inversion E'. subst. intros q' Hq'.
  destruct (E q' Hq') as [q [Hq [S [L _]]]].
  rewrite (static_phase1 T _ _ S). unfold fresh in HF. rewrite Forall_forall in HF.
  specialize (HF q Hq). lra.
Qed.

Theorem upper_bound T k qs out rem :
  fresh qs -> set_resource_share T k qs = Done (out, rem) ->
  forall q, In q out -> q_fair q < cap q + 1.
Proof.
  intros HF. destruct (set_resource_share_spec T k qs) as [out' [rem' [H [_ [E _]]]]].
  rewrite H. intros E'. inversion E'. subst. intros q' Hq'.
  destruct (E q' Hq') as [q [Hq [S [_ U]]]].
  rewrite cap_requestable. apply U. unfold fresh in HF. rewrite Forall_forall in HF.
  specialize (HF q Hq). pose proof (phase1_le_requestable T q). lra.
Qed.

Theorem conservation T k qs out rem :
  fresh qs -> set_resource_share T k qs = Done (out, rem) ->
  sum_fair out + rem == Qmax T (sum_phase1 T qs) /\ 0 <= rem
  /\ sum_fair out - sum_phase1 T qs <= Qmax 0 (T - sum_phase1 T qs).
Proof.
  intros HF. destruct (set_resource_share_spec T k qs) as [out' [rem' [H [_ [_ [S R]]]]]].
  rewrite H. intros E'. inversion E'. subst. rewrite (fresh_sum _ HF) in S.
  split; [lra|]. split; [exact R|].
  destruct (Qlt_le_dec (sum_phase1 T qs) T) as [C|C].
  - rewrite Q.max_l in S by lra. rewrite Q.max_r by lra. lra.
  - rewrite Q.max_r in S by lra. rewrite Q.max_l by lra. lra.
Qed.

(** children divide their parent's fair share whenever their in-quota parts fit into it *)
Theorem children_divide_parent_partial parent k children out rem :
  fresh children -> set_children parent k children = Done (out, rem) ->
  sum_phase1 (q_fair parent) children <= q_fair parent ->
  sum_fair out <= q_fair parent.
Proof.
  unfold set_children. intros HF H Hfit.
  destruct (conservation _ _ _ _ _ HF H) as [S [R _]].
  rewrite Q.max_l in S by exact Hfit. lra.
Qed.

(** ... and not otherwise: quotas of the children are honoured even when the parent
    received less than their sum *)
Definition ex_parent : queue := mkQ 1 0 0 4 unlimited 1 6 0 4.
Definition ex_children : list queue :=
  [mkQ 1 0 0 3 unlimited 1 3 0 0; mkQ 2 0 0 3 unlimited 1 3 0 0].

Theorem children_divide_parent_refuted :
  exists parent k children out rem,
    fresh children /\ set_children parent k children = Done (out, rem)
    /\ q_fair parent < sum_fair out.
Proof.
  exists ex_parent, 0, ex_children.
  eexists. eexists. split; [|split].
  - repeat constructor.
  - vm_compute. reflexivity.
  - vm_compute. reflexivity.
Qed.

(** * Non-vacuity *)
Definition ex_queues : list queue :=
  [mkQ 1 0 0 1 unlimited 1 100 0 0; mkQ 2 1 0 0 unlimited 2 3 0 0; mkQ 3 1 0 0 unlimited 1 (7 # 2) 0 0].
Definition ex_result : list queue :=
  [mkQ 2 1 0 0 unlimited 2 3 0 3; mkQ 3 1 0 0 unlimited 1 (7 # 2) 0 (7 # 2);
   mkQ 1 0 0 1 unlimited 1 100 0 (7 # 2)].
Lemma ex_division :
  fresh ex_queues
  /\ set_resource_share 10 0 ex_queues = Done (ex_result, 0)
  /\ sum_phase1 10 ex_queues < 10.
Proof.
  split; [repeat constructor|]. split; vm_compute; reflexivity.
Qed.

(** * Order independence *)
Lemma qsub_swap t a b : qsub (qsub t a) b = qsub (qsub t b) a.
Proof. unfold qsub. apply Qred_complete. rewrite !Qred_correct. ring. Qed.
Lemma qadd_swap t a b : qadd (qadd t a) b = qadd (qadd t b) a.
Proof. unfold qadd. apply Qred_complete. rewrite !Qred_correct. ring. Qed.

Lemma fold_left_perm {A B} (f : B -> A -> B) :
  (forall b x y, f (f b x) y = f (f b y) x) ->
  forall l l', Permutation l l' -> forall b, fold_left f l b = fold_left f l' b.
Proof.
  intros C l l' P. induction P; intros b; cbn [fold_left].
  - reflexivity.
  - apply IHP.
  - rewrite C. reflexivity.
  - rewrite IHP1. apply IHP2.
Qed.

Lemma existsb_perm {A} (f : A -> bool) l l' : Permutation l l' -> existsb f l = existsb f l'.
Proof.
  induction 1; cbn [existsb]; try congruence.
  destruct (f x), (f y); reflexivity.
Qed.

Lemma filter_perm {A} (f : A -> bool) l l' : Permutation l l' -> Permutation (filter f l) (filter f l').
Proof.
  induction 1; cbn [filter].
  - constructor.
  - destruct (f x); [constructor|]; assumption.
  - destruct (f x), (f y); try reflexivity. apply perm_swap.
  - etransitivity; eassumption.
Qed.

Lemma total_weights_perm l l' : Permutation l l' -> total_weights l = total_weights l'.
Proof.
  intros P. unfold total_weights. apply fold_left_perm; [|exact P].
  intros b x y. destruct (qltb 0 (remaining_requested (fst x))), (qltb 0 (remaining_requested (fst y)));
    try reflexivity. apply qadd_swap.
Qed.

Lemma share_weights_sum_perm k W l l' :
  Permutation l l' -> share_weights_sum k W l = share_weights_sum k W l'.
Proof.
  intros P. unfold share_weights_sum. apply fold_left_perm; [|exact P].
  intros b x y. destruct (satisfied (fst x)), (satisfied (fst y)); try reflexivity. apply qadd_swap.
Qed.

Section RoundDecl.
Variables amount k W sum : Q.
Hypothesis Hamount : 0 <= amount.
Hypothesis Hsum : 0 < sum.

Definition visit_out (x : rq) : rq := fst (fst (visit amount k W sum x)).
Definition visit_g (x : rq) : Q := snd (fst (visit amount k W sum x)).
Definition visit_a (x : rq) : bool := snd (visit amount k W sum x).
Definition take (t : Q) (x : rq) : Q := if qeqb (visit_g x) 0 then t else qsub t (visit_g x).

(** the round as a map over the queues: no reference to the iteration order *)
Definition round_decl (qs : list rq) (total : Q) (again : bool) : list rq * Q * bool :=
  (map visit_out qs, fold_left take qs total, again || existsb visit_a qs).

Lemma visit_idle x :
  amount * wshare k W x == 0 -> visit amount k W sum x = (x, 0, false).
Proof.
  destruct x as [q e]. unfold visit, wshare. cbn [fst snd].
  destruct (satisfied q) eqn:Hs; cbn [orb]; [reflexivity|].
  destruct (qeqb (q_weight q) 0) eqn:Hw; [reflexivity|].
  intros Hz.
  pose proof (fs_facts amount sum Hamount Hsum _ (share_weight_nonneg k W q)) as [Hfs0 Hfs].
  set (fs := qmul amount (qdiv (share_weight k W q) sum)) in *.
  assert (Hfz : fs == 0).
  { assert (fs * sum == 0) by lra. apply Qmult_integral in H. destruct H; lra. }
  pose proof (remaining_unsat q Hs) as [_ Hrr0].
  unfold give_in_round.
  destruct (qleb (remaining_requested q) fs) eqn:E.
  { apply qleb_iff in E. lra. }
  assert (Hfl : qfloor fs = 0).
  { unfold qfloor. rewrite Hfz. reflexivity. }
  rewrite Hfl. change (qltb 0 0) with false. cbn iota.
  destruct (qltb 0 (qsub fs 0)) eqn:E2.
  { apply qltb_iff in E2. rewrite qsub_eq in E2. lra. }
  change (qeqb 0 0) with true. cbn iota. reflexivity.
Qed.

Lemma idle_all : forall qs total,
  (forall x, In x qs -> amount * wshare k W x == 0) ->
  map visit_out qs = qs /\ fold_left take qs total = total /\ existsb visit_a qs = false.
Proof.
  induction qs as [|x r IH]; intros total H; cbn [map fold_left existsb]; [auto|].
  pose proof (visit_idle x (H x (or_introl eq_refl))) as Hv.
  destruct (IH total (fun y Hy => H y (or_intror Hy))) as [I1 [I2 I3]].
  unfold visit_out at 1, visit_a at 1, take at 2, visit_g. rewrite Hv. cbn [fst snd].
  change (qeqb 0 0) with true. cbn iota. rewrite I1, I2, I3. auto.
Qed.

Lemma wsum_zero_all : forall qs, amount * wsum k W qs <= 0 ->
  forall x, In x qs -> amount * wshare k W x == 0.
Proof.
  induction qs as [|y r IH]; intros H x Hx; [destruct Hx|].
  change (wsum k W (y :: r)) with (wshare k W y + wsum k W r) in H.
  pose proof (wshare_nonneg k W y). pose proof (wsum_nonneg k W r).
  assert (0 <= amount * wshare k W y) by (apply Qmult_le_0_compat; assumption).
  assert (0 <= amount * wsum k W r) by (apply Qmult_le_0_compat; assumption).
  destruct Hx as [->|Hx]; [lra|]. apply IH; [lra|exact Hx].
Qed.

Lemma round_decl_eq : forall qs total again,
  amount * wsum k W qs <= total * sum ->
  round_queues amount k W sum qs total again = round_decl qs total again.
Proof.
  induction qs as [|x r IH]; intros total again Inv.
  - unfold round_decl. cbn. rewrite orb_false_r. reflexivity.
  - cbn [round_queues]. destruct (qeqb total 0) eqn:Ht.
    + apply qeqb_iff in Ht. unfold round_decl.
      destruct (idle_all (x :: r) total) as [I1 [I2 I3]].
      { apply wsum_zero_all. rewrite Ht in Inv. lra. }
      rewrite I1, I2, I3, orb_false_r. reflexivity.
    + destruct (visit amount k W sum x) as [[x1 g] a] eqn:Hv.
      pose proof (visit_spec amount k W sum Hamount Hsum _ _ _ _ Hv) as [_ [V2 [_ [V4 _]]]].
      rewrite IH.
      2:{ change (wsum k W (x :: r)) with (wshare k W x + wsum k W r) in Inv.
          destruct (qeqb g 0) eqn:Hg0.
          - apply qeqb_iff in Hg0. rewrite Hg0 in V4. lra.
          - rewrite qsub_eq. lra. }
      unfold round_decl. cbn [map fold_left existsb].
      unfold visit_out at 2, visit_a at 2, take at 3, visit_g. rewrite Hv. cbn [fst snd].
      rewrite orb_assoc. reflexivity.
Qed.

Lemma take_swap t x y : take (take t x) y = take (take t y) x.
Proof.
  unfold take. destruct (qeqb (visit_g x) 0), (qeqb (visit_g y) 0); try reflexivity. apply qsub_swap.
Qed.

Lemma round_decl_perm qs qs' total again :
  Permutation qs qs' ->
  let '(o, t, a) := round_decl qs total again in
  let '(o', t', a') := round_decl qs' total again in
  Permutation o o' /\ t = t' /\ a = a'.
Proof.
  intros P. unfold round_decl. split; [apply Permutation_map; exact P|].
  split; [apply fold_left_perm; [apply take_swap|exact P]|].
  rewrite (existsb_perm _ _ _ P). reflexivity.
Qed.
End RoundDecl.

(** ** insertion sort by a strict order yields one list for all permutations *)
Section SortUnique.
Context {A : Type} (lt : A -> A -> bool).
Hypothesis lt_irrefl : forall x, lt x x = false.
Hypothesis lt_trans : forall x y z, lt x y = true -> lt y z = true -> lt x z = true.

Fixpoint insert_by (x : A) (l : list A) : list A :=
  match l with
  | [] => [x]
  | y :: r => if lt x y then x :: y :: r else y :: insert_by x r
  end.
Definition sort_by (l : list A) : list A := fold_right insert_by [] l.

Definition le (x y : A) : Prop := lt y x = false.

Lemma insert_by_perm x l : Permutation (insert_by x l) (x :: l).
Proof.
  induction l as [|y l IH]; cbn [insert_by]; [reflexivity|].
  destruct (lt x y); [reflexivity|]. rewrite IH. apply perm_swap.
Qed.
Lemma sort_by_perm l : Permutation (sort_by l) l.
Proof.
  induction l as [|x l IH]; cbn; [constructor|]. fold (sort_by l).
  rewrite insert_by_perm. constructor. exact IH.
Qed.

Lemma insert_by_sorted x l : StronglySorted le l -> StronglySorted le (insert_by x l).
Proof.
  induction 1 as [|y r HS IH HF]; cbn [insert_by].
  - constructor; constructor.
  - destruct (lt x y) eqn:E.
    + constructor; [constructor; assumption|]. constructor.
      * unfold le. destruct (lt y x) eqn:E2; [|reflexivity].
        pose proof (lt_trans _ _ _ E E2) as C. rewrite lt_irrefl in C. discriminate.
      * apply Forall_forall. intros z Hz. rewrite Forall_forall in HF. specialize (HF z Hz).
        unfold le in *. destruct (lt z x) eqn:E2; [|reflexivity].
        pose proof (lt_trans _ _ _ E2 E) as C. congruence.
    + constructor; [exact IH|]. apply Forall_forall. intros z Hz.
      apply (Permutation_in _ (insert_by_perm x r)) in Hz. destruct Hz as [<-|Hz]; [exact E|].
      rewrite Forall_forall in HF. apply HF. exact Hz.
Qed.
Lemma sort_by_sorted l : StronglySorted le (sort_by l).
Proof. induction l; cbn; [constructor|apply insert_by_sorted; assumption]. Qed.

Lemma sorted_perm_eq l : forall l',
  (forall x y, In x l -> In y l -> le x y -> le y x -> x = y) ->
  StronglySorted le l -> StronglySorted le l' -> Permutation l l' -> l = l'.
Proof.
  induction l as [|a l IH]; intros l' AS S S' P.
  - apply Permutation_nil in P. subst. reflexivity.
  - destruct l' as [|b l']; [apply Permutation_sym, Permutation_nil in P; discriminate|].
    inversion S as [|? ? S1 F1]. inversion S' as [|? ? S1' F1']. subst.
    assert (Hab : a = b).
    { assert (Ha : In a (b :: l')) by (apply (Permutation_in _ P); left; reflexivity).
      assert (Hb : In b (a :: l)) by (apply (Permutation_in _ (Permutation_sym P)); left; reflexivity).
      destruct Ha as [<-|Ha]; [reflexivity|]. destruct Hb as [<-|Hb]; [reflexivity|].
      rewrite Forall_forall in F1, F1'.
      apply AS; [left; reflexivity|right; exact Hb|apply F1; exact Hb|apply F1'; exact Ha]. }
    subst b. f_equal. apply IH; try assumption.
    + intros x y Hx Hy. apply AS; right; assumption.
    + eapply Permutation_cons_inv. exact P.
Qed.

Lemma sort_by_unique l l' :
  (forall x y, In x l -> In y l -> le x y -> le y x -> x = y) ->
  Permutation l l' -> sort_by l = sort_by l'.
Proof.
  intros AS P. apply sorted_perm_eq; try apply sort_by_sorted.
  - intros x y Hx Hy. apply AS; apply (Permutation_in _ (sort_by_perm l)); assumption.
  - rewrite sort_by_perm, P. symmetry. apply sort_by_perm.
Qed.
End SortUnique.

(** ** the order of remainingRequestedOrderFn *)
Lemma entry_before_iff x y :
  entry_before x y = true <->
  entry_amount y < entry_amount x
  \/ (entry_amount x == entry_amount y
      /\ ((q_created (fst x) < q_created (fst y))%Z
          \/ (q_created (fst x) = q_created (fst y) /\ (q_uid (fst x) < q_uid (fst y))%positive))).
Proof.
  unfold entry_before.
  destruct (qltb (entry_amount y) (entry_amount x)) eqn:E1.
  { apply qltb_iff in E1. split; auto. }
  apply qltb_false in E1.
  destruct (qltb (entry_amount x) (entry_amount y)) eqn:E2.
  { apply qltb_iff in E2. split; [discriminate|]. intros [H|[H _]]; lra. }
  apply qltb_false in E2.
  assert (Heq : entry_amount x == entry_amount y) by lra.
  destruct (q_created (fst x) =? q_created (fst y))%Z eqn:E3; cbn [negb].
  - apply Z.eqb_eq in E3. rewrite Pos.ltb_lt. split.
    + intros H. right. split; [exact Heq|]. right. split; assumption.
    + intros [H|[_ [H|[_ H]]]]; [lra|lia|exact H].
  - apply Z.eqb_neq in E3. rewrite Z.ltb_lt. split.
    + intros H. right. split; [exact Heq|]. left. exact H.
    + intros [H|[_ [H|[H _]]]]; [lra|exact H|lia].
Qed.

Lemma entry_before_irrefl x : entry_before x x = false.
Proof.
  destruct (entry_before x x) eqn:E; [|reflexivity].
  apply entry_before_iff in E. destruct E as [H|[_ [H|[_ H]]]]; [lra|lia|lia].
Qed.

Lemma entry_before_trans x y z :
  entry_before x y = true -> entry_before y z = true -> entry_before x z = true.
Proof.
  rewrite !entry_before_iff.
  intros [A|[A1 [A2|[A2 A3]]]] [B|[B1 [B2|[B2 B3]]]];
    try (left; lra); right; (split; [lra|]); try (left; lia); right; split; lia.
Qed.

Lemma entry_total x y :
  entry_before x y = false -> entry_before y x = false -> q_uid (fst x) = q_uid (fst y).
Proof.
  intros H1 H2.
  destruct (Qlt_le_dec (entry_amount y) (entry_amount x)) as [C|C].
  { assert (entry_before x y = true) by (apply entry_before_iff; auto). congruence. }
  destruct (Qlt_le_dec (entry_amount x) (entry_amount y)) as [C'|C'].
  { assert (entry_before y x = true) by (apply entry_before_iff; auto). congruence. }
  assert (E : entry_amount x == entry_amount y) by lra.
  destruct (Z.lt_trichotomy (q_created (fst x)) (q_created (fst y))) as [L|[L|L]].
  - assert (entry_before x y = true) by (apply entry_before_iff; right; split; [exact E|left; exact L]). congruence.
  - destruct (Pos.lt_total (q_uid (fst x)) (q_uid (fst y))) as [U|[U|U]]; [|exact U|].
    + assert (entry_before x y = true) by (apply entry_before_iff; right; split; [exact E|right; split; assumption]). congruence.
    + assert (entry_before y x = true) by (apply entry_before_iff; right; split; [symmetry; exact E|right; split; [symmetry; exact L|exact U]]). congruence.
  - assert (entry_before y x = true) by (apply entry_before_iff; right; split; [symmetry; exact E|left; exact L]). congruence.
Qed.

Lemma sort_entries_is_sort_by l : sort_entries l = sort_by entry_before l.
Proof.
  unfold sort_entries, sort_by. induction l as [|x l IH]; cbn [fold_right]; [reflexivity|].
  rewrite IH. generalize (fold_right (insert_by entry_before) [] l). intros m.
  induction m as [|y m IHm]; cbn [insert_entry insert_by]; [reflexivity|].
  destruct (entry_before x y); [reflexivity|]. rewrite IHm. reflexivity.
Qed.

Definition uid_of (x : rq) : positive := q_uid (fst x).

Lemma nodup_map_inj {A B} (f : A -> B) l x y :
  NoDup (map f l) -> In x l -> In y l -> f x = f y -> x = y.
Proof.
  induction l as [|a l IH]; cbn [map]; intros ND Hx Hy E; [destruct Hx|].
  inversion ND as [|? ? Hn ND']. subst.
  destruct Hx as [->|Hx], Hy as [->|Hy]; try reflexivity.
  - exfalso. apply Hn. rewrite E. apply in_map. exact Hy.
  - exfalso. apply Hn. rewrite <- E. apply in_map. exact Hx.
  - apply IH; assumption.
Qed.

Lemma sort_entries_perm_eq l l' :
  NoDup (map uid_of l) -> Permutation l l' -> sort_entries l = sort_entries l'.
Proof.
  intros ND P. rewrite !sort_entries_is_sort_by.
  apply (sort_by_unique entry_before entry_before_irrefl entry_before_trans); [|exact P].
  intros x y Hx Hy H1 H2. unfold le in *.
  apply (nodup_map_inj uid_of l); try assumption. apply entry_total; assumption.
Qed.

(** ** the phases commute with permutations of the queue list *)
Lemma sum_pos k W qs :
  qeqb (share_weights_sum k W qs) 0 = false -> 0 < share_weights_sum k W qs.
Proof.
  intros Hs. apply qeqb_false in Hs. pose proof (share_weights_sum_eq k W qs) as E.
  pose proof (wsum_le_ssum k W qs). pose proof (wsum_nonneg k W qs).
  assert (H1 : 0 <= share_weights_sum k W qs) by lra.
  apply Qle_lt_or_eq in H1. destruct H1 as [H1|H1]; [exact H1|]. exfalso. apply Hs. lra.
Qed.

Lemma inv_initial k W qs total :
  0 <= total -> total * wsum k W qs <= total * share_weights_sum k W qs.
Proof.
  intros Ht. pose proof (share_weights_sum_eq k W qs) as E. pose proof (wsum_le_ssum k W qs).
  assert (0 <= total * (share_weights_sum k W qs - wsum k W qs)) by (apply Qmult_le_0_compat; lra).
  lra.
Qed.

Lemma divide_up_to_perm k : forall fuel b b' total,
  Permutation b b' -> 0 <= total ->
  match divide_up_to fuel k b total, divide_up_to fuel k b' total with
  | Done (o, t), Done (o', t') => Permutation o o' /\ t = t'
  | OutOfFuel, OutOfFuel => True
  | _, _ => False
  end.
Proof.
  induction fuel as [|f IH]; intros b b' total P Ht; cbn [divide_up_to]; [exact I|].
  rewrite <- (total_weights_perm b b' P).
  destruct (qeqb (total_weights b) 0); [split; [exact P|reflexivity]|].
  set (W := total_weights b).
  rewrite <- (share_weights_sum_perm k W b b' P).
  destruct (qeqb (share_weights_sum k W b) 0) eqn:Hs; [split; [exact P|reflexivity]|].
  pose proof (sum_pos k W b Hs) as Hsum.
  set (sum := share_weights_sum k W b) in *.
  destruct (round_queues total k W sum b total false) as [[o t] a] eqn:R1.
  destruct (round_queues total k W sum b' total false) as [[o' t'] a'] eqn:R2.
  pose proof (round_spec total k W sum Ht Hsum _ _ _ _ _ _ R1 (inv_initial k W b total Ht))
    as [_ [_ [Ht1 _]]].
  rewrite (round_decl_eq total k W sum Ht Hsum) in R1 by (apply inv_initial; exact Ht).
  rewrite (round_decl_eq total k W sum Ht Hsum) in R2.
  2:{ unfold sum. rewrite (share_weights_sum_perm k W b b' P). apply inv_initial. exact Ht. }
  pose proof (round_decl_perm total k W sum b b' total false P) as H.
  rewrite R1, R2 in H. destruct H as [Po [-> ->]].
  destruct (negb a' || qeqb t' 0); [split; [exact Po|reflexivity]|].
  apply IH; assumption.
Qed.

Lemma band_perm p qs qs' : Permutation qs qs' -> Permutation (band p qs) (band p qs').
Proof. intros P. unfold band. apply Permutation_map, filter_perm. exact P. Qed.

Lemma run_bands_perm k qs qs' : Permutation qs qs' -> forall ps total,
  0 <= total ->
  match run_bands k ps qs total, run_bands k ps qs' total with
  | Done (bs, t), Done (bs', t') => Forall2 (@Permutation rq) bs bs' /\ t = t'
  | OutOfFuel, OutOfFuel => True
  | _, _ => False
  end.
Proof.
  intros P. induction ps as [|p r IH]; intros total Ht; cbn [run_bands].
  - split; [constructor|reflexivity].
  - pose proof (band_perm p qs qs' P) as Pb.
    rewrite <- (Permutation_length Pb).
    pose proof (divide_up_to_perm k (S (length (band p qs))) _ _ total Pb Ht) as H.
    pose proof (divide_up_to_spec k (S (length (band p qs))) (band p qs) total Ht) as Hs.
    destruct (divide_up_to (S (length (band p qs))) k (band p qs) total) as [[b1 t1]|];
      destruct (divide_up_to (S (length (band p qs))) k (band p qs') total) as [[b1' t1']|];
      try contradiction; [|exact I].
    destruct H as [Pb1 <-]. destruct Hs as [_ [_ Ht1]].
    specialize (IH t1 Ht1).
    destruct (run_bands k r qs t1) as [[bs t]|]; destruct (run_bands k r qs' t1) as [[bs' t']|];
      try contradiction; [|exact I].
    destruct IH as [F <-]. split; [constructor; assumption|reflexivity].
Qed.

Lemma nodup_app_inv {A} (l l' : list A) : NoDup (l ++ l') -> NoDup l /\ NoDup l'.
Proof.
  induction l as [|a l IH]; cbn [app]; intros H; [split; [constructor|exact H]|].
  inversion H as [|? ? Hn ND]. subst. destruct (IH ND) as [H1 H2].
  split; [|exact H2]. constructor; [|exact H1]. intros Hin. apply Hn. apply in_or_app. left. exact Hin.
Qed.

Lemma hand_out_bands_perm : forall bs bs' total,
  Forall2 (@Permutation rq) bs bs' -> NoDup (map uid_of (concat bs)) ->
  let '(o, t) := hand_out_bands bs total in
  let '(o', t') := hand_out_bands bs' total in
  Forall2 (@Permutation rq) o o' /\ t = t'.
Proof.
  induction bs as [|b r IH]; intros bs' total F ND; inversion F as [|? b' ? r' Pb Fr]; subst.
  - cbn. split; [constructor|reflexivity].
  - cbn [hand_out_bands]. destruct (qleb total 0); [split; [exact F|reflexivity]|].
    cbn [concat] in ND. rewrite map_app in ND.
    destruct (nodup_app_inv _ _ ND) as [NDb NDr].
    rewrite <- (existsb_perm has_entry b b' Pb).
    destruct (negb (existsb has_entry b)).
    + specialize (IH r' total Fr NDr).
      destruct (hand_out_bands r total) as [o t]. destruct (hand_out_bands r' total) as [o' t'].
      destruct IH as [Fo <-]. split; [constructor; assumption|reflexivity].
    + unfold divide_remaining.
      rewrite <- (sort_entries_perm_eq (filter has_entry b) (filter has_entry b')).
      2:{ clear -NDb. induction b as [|x b IHb]; cbn [filter map]; [constructor|].
          cbn [map] in NDb. inversion NDb as [|? ? Hn ND']. subst.
          destruct (has_entry x); cbn [map]; [|apply IHb; exact ND'].
          constructor; [|apply IHb; exact ND']. intros Hin. apply Hn.
          apply in_map_iff in Hin as [y [Ey Hy]]. apply filter_In in Hy as [Hy _].
          rewrite <- Ey. apply in_map. exact Hy. }
      2:{ apply filter_perm. exact Pb. }
      destruct (hand_out (sort_entries (filter has_entry b)) total) as [es t1].
      specialize (IH r' t1 Fr NDr).
      destruct (hand_out_bands r t1) as [o t]. destruct (hand_out_bands r' t1) as [o' t'].
      destruct IH as [Fo <-]. split; [|reflexivity].
      constructor; [|exact Fo]. apply Permutation_app_head. apply filter_perm. exact Pb.
Qed.

Lemma concat_perm {A} (l l' : list (list A)) :
  Forall2 (@Permutation A) l l' -> Permutation (concat l) (concat l').
Proof. induction 1; cbn [concat]; [constructor|apply Permutation_app; assumption]. Qed.

(** ** priorities: a strictly descending list is determined by its set of elements *)
Lemma sorted_set_eq l : forall l',
  StronglySorted zgt l -> StronglySorted zgt l' -> (forall z, In z l <-> In z l') -> l = l'.
Proof.
  induction l as [|a l IH]; intros l' S S' E.
  - destruct l' as [|b l']; [reflexivity|]. exfalso. apply (proj2 (E b)). left. reflexivity.
  - destruct l' as [|b l']; [exfalso; apply (proj1 (E a)); left; reflexivity|].
    inversion S as [|? ? S1 F1]. inversion S' as [|? ? S1' F1']. subst.
    rewrite Forall_forall in F1, F1'. unfold zgt in F1, F1'.
    assert (a = b).
    { destruct (proj1 (E a) (or_introl eq_refl)) as [<-|Ha]; [reflexivity|].
      destruct (proj2 (E b) (or_introl eq_refl)) as [<-|Hb]; [reflexivity|].
      specialize (F1 b Hb). specialize (F1' a Ha). lia. }
    subst b. f_equal. apply IH; try assumption. intros z. split; intros Hz.
    + destruct (proj1 (E z) (or_intror Hz)) as [<-|H]; [|exact H]. specialize (F1 a Hz). lia.
    + destruct (proj2 (E z) (or_intror Hz)) as [<-|H]; [|exact H]. specialize (F1' a Hz). lia.
Qed.

Lemma priorities_in_inv qs p : In p (priorities qs) -> exists q, In q qs /\ q_prio q = p.
Proof.
  induction qs as [|a l IH]; cbn [priorities fold_right]; [intros []|].
  fold (priorities l). intros H. apply insert_prio_in in H. destruct H as [->|H].
  - exists a. split; [left; reflexivity|reflexivity].
  - destruct (IH H) as [q [Hq E]]. exists q. split; [right; exact Hq|exact E].
Qed.

Lemma priorities_perm qs qs' : Permutation qs qs' -> priorities qs = priorities qs'.
Proof.
  intros P. apply sorted_set_eq; try apply priorities_sorted.
  intros z. split; intros H; apply priorities_in_inv in H as [q [Hq <-]]; apply priorities_in.
  - apply (Permutation_in _ P). exact Hq.
  - apply (Permutation_in _ (Permutation_sym P)). exact Hq.
Qed.

(** ** the whole division *)
Definition amt (T : Q) (q : queue) : Q :=
  qmin (if qeqb (q_deserved q) unlimited then T else q_deserved q) (requestable q).

Lemma set_deserved_closed T : forall qs rem,
  set_deserved T rem qs
  = (map (fun q => add_share q (amt T q)) qs, fold_left (fun r q => qsub r (amt T q)) qs rem).
Proof.
  induction qs as [|q l IH]; intros rem; cbn [set_deserved map fold_left]; [reflexivity|].
  fold (amt T q). rewrite IH. reflexivity.
Qed.

Lemma uid_of_sf l : map uid_of l = map q_uid (map sf l).
Proof. rewrite map_map. reflexivity. Qed.

Theorem order_independent T k qs qs' out rem out' rem' :
  Permutation qs qs' -> NoDup (map q_uid qs) ->
  set_resource_share T k qs = Done (out, rem) ->
  set_resource_share T k qs' = Done (out', rem') ->
  Permutation out out' /\ rem = rem'.
Proof.
  intros P ND. unfold set_resource_share. rewrite !set_deserved_closed.
  set (qs1 := map (fun q => add_share q (amt T q)) qs).
  set (qs1' := map (fun q => add_share q (amt T q)) qs').
  assert (P1 : Permutation qs1 qs1') by (apply Permutation_map; exact P).
  rewrite <- (fold_left_perm (fun r q => qsub r (amt T q)) (fun b x y => qsub_swap b _ _) qs qs' P).
  set (rem0 := fold_left (fun r q => qsub r (amt T q)) qs T).
  destruct (qltb 0 rem0) eqn:Hrem.
  2:{ intros H1 H2. inversion H1. inversion H2. subst. split; [exact P1|reflexivity]. }
  apply qltb_iff in Hrem. assert (Hr0 : 0 <= rem0) by lra.
  unfold divide_over_quota. rewrite <- (priorities_perm qs1 qs1' P1).
  pose proof (run_bands_perm k qs1 qs1' P1 (priorities qs1) rem0 Hr0) as HB.
  pose proof (run_bands_spec k qs1 (priorities qs1) rem0 Hr0) as HS.
  destruct (run_bands k (priorities qs1) qs1 rem0) as [[bs t]|]; [|contradiction].
  destruct (run_bands k (priorities qs1) qs1' rem0) as [[bs' t']|]; [|contradiction].
  destruct HB as [F <-]. destruct HS as [S1 _].
  assert (NDb : NoDup (map uid_of (concat bs))).
  { rewrite uid_of_sf. rewrite <- (evolves_sf _ _ S1). rewrite bands_concat.
    rewrite map_map. unfold sf. cbn [fst].
    eapply Permutation_NoDup.
    - symmetry. apply Permutation_map. apply Permutation_map. apply bands_perm.
    - unfold qs1. rewrite !map_map. cbn. exact ND. }
  pose proof (hand_out_bands_perm bs bs' t F NDb) as HH.
  destruct (hand_out_bands bs t) as [o t1]. destruct (hand_out_bands bs' t) as [o' t1'].
  destruct HH as [Fo <-].
  intros H1 H2. inversion H1. inversion H2. subst. split; [|reflexivity].
  apply Permutation_map. apply concat_perm. exact Fo.
Qed.

Lemma fair_of_perm u l l' :
  NoDup (map q_uid l) -> Permutation l l' -> fair_of u l = fair_of u l'.
Proof.
  intros ND P. induction P as [|x l l' P IH|x y l|l l' l'' P1 IH1 P2 IH2].
  - reflexivity.
  - cbn [fair_of]. destruct (q_uid x =? u)%positive; [reflexivity|].
    apply IH. cbn [map] in ND. inversion ND. assumption.
  - cbn [fair_of]. cbn [map] in ND. inversion ND as [|? ? Hn _]. subst.
    destruct (q_uid y =? u)%positive eqn:Ey; destruct (q_uid x =? u)%positive eqn:Ex; try reflexivity.
    apply Pos.eqb_eq in Ey, Ex. exfalso. apply Hn. left. congruence.
  - rewrite IH1 by exact ND. apply IH2.
    eapply Permutation_NoDup; [|exact ND]. apply Permutation_map. exact P1.
Qed.

Lemma uid_static l : map q_uid (map static l) = map q_uid l.
Proof. rewrite map_map. reflexivity. Qed.

(** the result as a map UID -> fair share does not depend on the enumeration order *)
Theorem order_independent_map T k qs qs' out rem out' rem' :
  Permutation qs qs' -> NoDup (map q_uid qs) ->
  set_resource_share T k qs = Done (out, rem) ->
  set_resource_share T k qs' = Done (out', rem') ->
  (forall u, fair_of u out = fair_of u out') /\ rem = rem'.
Proof.
  intros P ND H1 H2. destruct (order_independent _ _ _ _ _ _ _ _ P ND H1 H2) as [Po E].
  split; [|exact E]. intros u. apply fair_of_perm; [|exact Po].
  pose proof (same_queues _ _ _ _ _ H1) as Ps.
  rewrite <- uid_static. eapply Permutation_NoDup.
  - symmetry. apply Permutation_map. exact Ps.
  - rewrite uid_static. exact ND.
Qed.

Theorem order_independent_full T k qs qs' out out' rem rem' :
  Permutation qs qs' -> NoDup (map q_uid qs) ->
  set_resource_share T k qs = Done (out, rem) ->
  set_resource_share T k qs' = Done (out', rem') ->
  Permutation out out' /\ (forall u, fair_of u out = fair_of u out') /\ rem = rem'.
Proof.
  intros P ND H1 H2. split; [|split].
  - exact (proj1 (order_independent _ _ _ _ _ _ _ _ P ND H1 H2)).
  - exact (proj1 (order_independent_map _ _ _ _ _ _ _ _ P ND H1 H2)).
  - exact (proj2 (order_independent _ _ _ _ _ _ _ _ P ND H1 H2)).
Qed.

(** * Weight monotonicity (clause 7) *)
Definition sit (q q' : queue) : Prop :=
  q_prio q = q_prio q' /\ q_deserved q == q_deserved q' /\ q_limit q == q_limit q'
  /\ q_request q == q_request q' /\ q_usage q == q_usage q'.

Lemma same_situation_sit q q' : same_situation q q' = true -> sit q q'.
Proof.
  unfold same_situation, sit. rewrite !andb_true_iff.
  intros [[[[H1 H2] H3] H4] H5]. apply Z.eqb_eq in H1.
  apply Qeq_bool_iff in H2, H3, H4, H5. auto.
Qed.

Lemma sit_requestable q q' : sit q q' -> requestable q == requestable q'.
Proof.
  intros [_ [_ [Hl [Hr _]]]]. unfold requestable, qeqb.
  destruct (Qeq_bool (q_limit q) unlimited) eqn:E1; destruct (Qeq_bool (q_limit q') unlimited) eqn:E2.
  - exact Hr.
  - apply Qeq_bool_iff in E1. exfalso. apply Qeq_bool_neq in E2. apply E2. rewrite <- Hl. exact E1.
  - apply Qeq_bool_iff in E2. exfalso. apply Qeq_bool_neq in E1. apply E1. rewrite Hl. exact E2.
  - rewrite !qmin_Qmin. rewrite Hl, Hr. reflexivity.
Qed.

Lemma lt_requestable_unsat q : q_fair q < requestable q -> satisfied q = false.
Proof.
  intros H. destruct (satisfied q) eqn:E; [|reflexivity]. apply sat_ge in E. lra.
Qed.

Lemma qmax0_mono a b : a <= b -> qmax 0 a <= qmax 0 b.
Proof.
  intros H. unfold qmax. destruct (qleb 0 a) eqn:E1; destruct (qleb 0 b) eqn:E2;
    try apply qleb_iff in E1; try apply qleb_iff in E2;
    try apply qleb_false in E1; try apply qleb_false in E2; lra.
Qed.

Lemma share_weight_mono k W q q' :
  0 <= k -> 0 < W -> q_weight q <= q_weight q' -> q_usage q == q_usage q' ->
  share_weight k W q <= share_weight k W q'.
Proof.
  intros Hk HW Hw Hu. unfold share_weight. apply qmax0_mono.
  rewrite !qadd_eq, !qmul_eq, !qsub_eq, !qdiv_eq.
  assert (Hd : q_weight q / W <= q_weight q' / W).
  { unfold Qdiv. apply Qmult_le_compat_r; [exact Hw|]. apply Qlt_le_weak, Qinv_lt_0_compat. exact HW. }
  rewrite Hu. set (a := q_weight q / W) in *. set (b := q_weight q' / W) in *.
  assert (0 <= k * (b - a)) by (apply Qmult_le_0_compat; lra). lra.
Qed.

Definition floorp (x : Q) : Q := if qltb 0 (qfloor x) then qfloor x else 0.
Lemma floorp_mono a b : a <= b -> floorp a <= floorp b.
Proof.
  intros H. unfold floorp.
  assert (Hf : qfloor a <= qfloor b).
  { unfold qfloor. rewrite <- Zle_Qle. apply Qfloor_resp_le. exact H. }
  destruct (qltb 0 (qfloor a)) eqn:E1; destruct (qltb 0 (qfloor b)) eqn:E2;
    try apply qltb_iff in E1; try apply qltb_iff in E2;
    try apply qltb_false in E1; try apply qltb_false in E2; lra.
Qed.

Lemma give_fst fs req e :
  fst (give_in_round fs req e) = if qleb req fs then req else floorp fs.
Proof. unfold give_in_round, floorp. destruct (qleb req fs); reflexivity. Qed.

Section Mono.
Variables amount k W sum : Q.
Hypothesis Hamount : 0 <= amount.
Hypothesis Hk : 0 <= k.
Hypothesis HW : 0 < W.
Hypothesis Hsum : 0 < sum.

(** fair share after a visit, in closed form *)
Lemma visit_out_fair x :
  q_fair (fst (visit_out amount k W sum x)) ==
  q_fair (fst x) +
  (if satisfied (fst x) then 0
   else if qeqb (q_weight (fst x)) 0 then 0
   else fst (give_in_round (qmul amount (qdiv (share_weight k W (fst x)) sum))
                           (remaining_requested (fst x)) (snd x))).
Proof.
  destruct x as [q e]. unfold visit_out, visit. cbn [fst snd].
  destruct (satisfied q); cbn [fst]; [lra|].
  destruct (qeqb (q_weight q) 0); cbn [fst]; [lra|].
  destruct (give_in_round _ _ e) as [g e'] eqn:Hg. cbn [fst].
  destruct (qeqb g 0) eqn:Hg0; cbn [fst].
  - apply qeqb_iff in Hg0. lra.
  - apply fair_add.
Qed.

Lemma visit_mono x y :
  sit (fst x) (fst y) -> 0 <= q_weight (fst x) -> q_weight (fst x) <= q_weight (fst y) ->
  q_fair (fst x) <= requestable (fst x) ->
  q_fair (fst x) <= q_fair (fst y) ->
  q_fair (fst (visit_out amount k W sum x)) <= q_fair (fst (visit_out amount k W sum y)).
Proof.
  intros Hs Hw0 Hw Hub Hf. rewrite !visit_out_fair.
  pose proof (sit_requestable _ _ Hs) as HR.
  destruct Hs as [_ [_ [_ [_ Hu]]]].
  destruct x as [q e], y as [q' e']. cbn [fst snd] in *.
  set (fs := qmul amount (qdiv (share_weight k W q) sum)).
  set (fs' := qmul amount (qdiv (share_weight k W q') sum)).
  pose proof (fs_facts amount sum Hamount Hsum _ (share_weight_nonneg k W q)) as [Hfs0 Hfs].
  pose proof (fs_facts amount sum Hamount Hsum _ (share_weight_nonneg k W q')) as [Hfs0' Hfs'].
  fold fs in Hfs0, Hfs. fold fs' in Hfs0', Hfs'.
  assert (Hle : fs <= fs').
  { pose proof (share_weight_mono k W q q' Hk HW Hw Hu) as Hm.
    assert (0 <= amount * (share_weight k W q' - share_weight k W q))
      by (apply Qmult_le_0_compat; lra).
    apply (Qmult_le_r _ _ sum Hsum). lra. }
  assert (Hgle : forall (qq : queue) (ee : option Q) (ff : Q), 0 <= ff -> satisfied qq = false ->
            0 <= fst (give_in_round ff (remaining_requested qq) ee)
            /\ q_fair qq + fst (give_in_round ff (remaining_requested qq) ee) <= requestable qq).
  { intros qq ee ff Hff Hun. rewrite give_fst. destruct (remaining_unsat qq Hun) as [Hr Hr0].
    destruct (qleb (remaining_requested qq) ff) eqn:E.
    - split; lra.
    - apply qleb_false in E. unfold floorp.
      pose proof (qfloor_le ff).
      destruct (qltb 0 (qfloor ff)) eqn:E2; [apply qltb_iff in E2|]; split; lra. }
  destruct (satisfied q') eqn:S'.
  - apply sat_ge in S'. destruct (satisfied q) eqn:S; [lra|].
    destruct (qeqb (q_weight q) 0); [lra|].
    destruct (Hgle q e fs Hfs0 S) as [_ H2]. lra.
  - pose proof (unsat_lt q' S') as Hlt'.
    assert (S : satisfied q = false) by (apply lt_requestable_unsat; lra).
    rewrite S.
    destruct (qeqb (q_weight q') 0) eqn:Ew'.
    { apply qeqb_iff in Ew'. assert (Ew : qeqb (q_weight q) 0 = true) by (apply qeqb_iff; lra).
      rewrite Ew. lra. }
    destruct (Hgle q' e' fs' Hfs0' S') as [G0' _].
    destruct (qeqb (q_weight q) 0); [lra|].
    destruct (remaining_unsat q S) as [Hr Hr0]. destruct (remaining_unsat q' S') as [Hr' Hr0'].
    destruct (Hgle q e fs Hfs0 S) as [_ G1].
    rewrite !give_fst in *.
    destruct (qleb (remaining_requested q') fs') eqn:E'.
    + lra.
    + apply qleb_false in E'.
      assert (E : qleb (remaining_requested q) fs = false) by (apply qleb_false; lra).
      rewrite E. pose proof (floorp_mono fs fs' Hle). lra.
Qed.
End Mono.

Definition PW (b : list rq) : Prop :=
  forall x y, In x b -> In y b -> sit (fst x) (fst y) ->
              q_weight (fst x) <= q_weight (fst y) -> q_fair (fst x) <= q_fair (fst y).
Definition WFb (b : list rq) : Prop :=
  Forall (fun x => 0 <= q_weight (fst x) /\ UB x) b.

Lemma static_fields a b : static a = static b ->
  q_uid a = q_uid b /\ q_prio a = q_prio b /\ q_deserved a = q_deserved b /\ q_limit a = q_limit b
  /\ q_weight a = q_weight b /\ q_request a = q_request b /\ q_usage a = q_usage b.
Proof. unfold static. intros H. injection H. intros. repeat split; assumption. Qed.

Lemma sit_static a a' b b' : static a' = static a -> static b' = static b -> sit a' b' -> sit a b.
Proof.
  intros Ha Hb. apply static_fields in Ha, Hb.
  destruct Ha as [_ [A1 [A2 [A3 [_ [A5 A6]]]]]]. destruct Hb as [_ [B1 [B2 [B3 [_ [B5 B6]]]]]].
  unfold sit. rewrite A1, A2, A3, A5, A6, B1, B2, B3, B5, B6. auto.
Qed.

Definition twsum (b : list rq) : Q :=
  fold_right (fun x a => (if qltb 0 (remaining_requested (fst x)) then q_weight (fst x) else 0) + a) 0 b.
Lemma total_weights_acc b : forall acc,
  fold_left (fun acc (x : rq) =>
               if qltb 0 (remaining_requested (fst x)) then qadd acc (q_weight (fst x)) else acc) b acc
  == acc + twsum b.
Proof.
  induction b as [|x b IH]; intros acc; cbn [fold_left twsum fold_right]; [lra|].
  fold (twsum b). rewrite IH. destruct (qltb 0 (remaining_requested (fst x))); [rewrite qadd_eq|]; lra.
Qed.
Lemma total_weights_nonneg b : Forall (fun x => 0 <= q_weight (fst x)) b -> 0 <= total_weights b.
Proof.
  intros H. unfold total_weights. rewrite total_weights_acc.
  assert (0 <= twsum b); [|lra].
  induction H as [|x b Hx HF IH]; cbn [twsum fold_right]; [lra|]. fold (twsum b).
  destruct (qltb 0 (remaining_requested (fst x))); lra.
Qed.

Lemma WFb_weights b : WFb b -> Forall (fun x => 0 <= q_weight (fst x)) b.
Proof. intros H. eapply Forall_impl; [|exact H]. cbn. tauto. Qed.

Section RoundPW.
Variables amount k W sum : Q.
Hypothesis Hamount : 0 <= amount.
Hypothesis Hk : 0 <= k.
Hypothesis HW : 0 < W.
Hypothesis Hsum : 0 < sum.

Lemma round_PW b : PW b -> WFb b ->
  PW (map (visit_out amount k W sum) b) /\ WFb (map (visit_out amount k W sum) b).
Proof.
  intros HP HWF. unfold WFb in HWF. rewrite Forall_forall in HWF. split.
  - intros x1 y1 Hx Hy Hs Hw.
    apply in_map_iff in Hx as [x [<- Hx]]. apply in_map_iff in Hy as [y [<- Hy]].
    destruct (visit amount k W sum x) as [[x1 gx] ax] eqn:Vx.
    destruct (visit amount k W sum y) as [[y1 gy] ay] eqn:Vy.
    pose proof (visit_spec amount k W sum Hamount Hsum _ _ _ _ Vx) as [Sx _].
    pose proof (visit_spec amount k W sum Hamount Hsum _ _ _ _ Vy) as [Sy _].
    assert (Ex : visit_out amount k W sum x = x1) by (unfold visit_out; rewrite Vx; reflexivity).
    assert (Ey : visit_out amount k W sum y = y1) by (unfold visit_out; rewrite Vy; reflexivity).
    rewrite Ex, Ey in Hs, Hw.
    pose proof (sit_static _ _ _ _ Sx Sy Hs) as Hs0.
    destruct (static_fields _ _ Sx) as [_ [_ [_ [_ [Wx _]]]]].
    destruct (static_fields _ _ Sy) as [_ [_ [_ [_ [Wy _]]]]].
    rewrite Wx, Wy in Hw.
    destruct (HWF x Hx) as [Hw0 [Hub _]].
    apply (visit_mono amount k W sum Hamount Hk HW Hsum x y Hs0 Hw0 Hw Hub).
    apply HP; assumption.
  - unfold WFb. apply Forall_forall. intros x1 Hx. apply in_map_iff in Hx as [x [<- Hx]].
    destruct (visit amount k W sum x) as [[x1 gx] ax] eqn:Vx.
    pose proof (visit_spec amount k W sum Hamount Hsum _ _ _ _ Vx) as [Sx [_ [_ [_ [_ [_ [_ U]]]]]]].
    unfold visit_out. rewrite Vx. cbn [fst].
    destruct (static_fields _ _ Sx) as [_ [_ [_ [_ [Wx _]]]]]. rewrite Wx.
    destruct (HWF x Hx) as [Hw0 Hub]. split; [exact Hw0|apply U; exact Hub].
Qed.
End RoundPW.

Lemma divide_up_to_PW k : 0 <= k -> forall fuel b total o t,
  0 <= total -> PW b -> WFb b ->
  divide_up_to fuel k b total = Done (o, t) -> PW o /\ WFb o.
Proof.
  intros Hk. induction fuel as [|f IH]; intros b total o t Ht HP HWF; cbn [divide_up_to]; [discriminate|].
  destruct (qeqb (total_weights b) 0) eqn:EW.
  { intros H. inversion H. subst. auto. }
  assert (HW : 0 < total_weights b).
  { pose proof (total_weights_nonneg b (WFb_weights b HWF)) as H0. apply qeqb_false in EW.
    apply Qle_lt_or_eq in H0. destruct H0 as [H0|H0]; [exact H0|]. exfalso. apply EW. lra. }
  set (W := total_weights b) in *.
  destruct (qeqb (share_weights_sum k W b) 0) eqn:Hs.
  { intros H. inversion H. subst. auto. }
  pose proof (sum_pos k W b Hs) as Hsum. set (sum := share_weights_sum k W b) in *.
  destruct (round_queues total k W sum b total false) as [[o1 t1] a1] eqn:R1.
  pose proof (round_spec total k W sum Ht Hsum _ _ _ _ _ _ R1 (inv_initial k W b total Ht))
    as [_ [_ [Ht1 _]]].
  rewrite (round_decl_eq total k W sum Ht Hsum) in R1 by (apply inv_initial; exact Ht).
  unfold round_decl in R1.
  assert (Eo : o1 = map (visit_out total k W sum) b) by (inversion R1; reflexivity).
  destruct (round_PW total k W sum Ht Hk HW Hsum b HP HWF) as [HP1 HWF1].
  rewrite <- Eo in HP1, HWF1.
  destruct (negb a1 || qeqb t1 0).
  { intros H. inversion H. subst. split; assumption. }
  intros H. eapply IH; [exact Ht1|exact HP1|exact HWF1|exact H].
Qed.

Definition band_ok (p : Z) (b : list rq) : Prop :=
  (forall x, In x b -> q_prio (fst x) = p) /\ PW b /\ WFb b.

Lemma run_bands_PW k qs : 0 <= k -> (forall p, band_ok p (band p qs)) ->
  forall ps total bs t, 0 <= total ->
  run_bands k ps qs total = Done (bs, t) -> Forall2 band_ok ps bs.
Proof.
  intros Hk H0. induction ps as [|p r IH]; intros total bs t Ht; cbn [run_bands].
  - intros H. inversion H. constructor.
  - pose proof (divide_up_to_spec k (S (length (band p qs))) (band p qs) total Ht) as HS.
    destruct (divide_up_to (S (length (band p qs))) k (band p qs) total) as [[b1 t1]|] eqn:D; [|discriminate].
    destruct HS as [E [_ Ht1]].
    destruct (run_bands k r qs t1) as [[bs1 t2]|] eqn:R; [|discriminate].
    intros H. inversion H. subst. constructor; [|eapply IH; eassumption].
    destruct (H0 p) as [Hp [HP HWF]].
    destruct (divide_up_to_PW k Hk _ _ _ _ _ Ht HP HWF D) as [HP1 HWF1].
    split; [|split; assumption].
    intros x1 Hx1. destruct (Forall2_in_r _ _ _ _ E Hx1) as [x [Hx [S _]]].
    apply static_fields in S. destruct S as [_ [S _]]. rewrite S. apply Hp. exact Hx.
Qed.

Lemma bands_prio ps bs : Forall2 band_ok ps bs -> forall y, In y (concat bs) -> In (q_prio (fst y)) ps.
Proof.
  induction 1 as [|p b ps bs [Hp _] HF IH]; cbn [concat]; [intros y []|].
  intros y Hy. apply in_app_or in Hy as [Hy|Hy]; [left; symmetry; apply Hp; exact Hy|right; apply IH; exact Hy].
Qed.

Lemma bands_PW_all ps bs : NoDup ps -> Forall2 band_ok ps bs -> PW (concat bs).
Proof.
  intros ND F. induction F as [|p b ps bs [Hp [HP _]] HF IH]; [intros x y []|].
  inversion ND as [|? ? Hn ND']. subst. specialize (IH ND').
  intros x y Hx Hy Hs Hw. cbn [concat] in Hx, Hy.
  apply in_app_or in Hx. apply in_app_or in Hy.
  destruct Hx as [Hx|Hx], Hy as [Hy|Hy].
  - apply HP; assumption.
  - exfalso. apply Hn. destruct Hs as [Hs _]. rewrite <- (Hp x Hx), Hs.
    apply (bands_prio _ _ HF). exact Hy.
  - exfalso. apply Hn. destruct Hs as [Hs _]. rewrite <- (Hp y Hy), <- Hs.
    apply (bands_prio _ _ HF). exact Hx.
  - apply IH; assumption.
Qed.

Lemma sit_phase1 T q q' : sit q q' -> phase1 T q == phase1 T q'.
Proof.
  intros Hs. pose proof (sit_requestable _ _ Hs) as HR.
  destruct Hs as [_ [Hd _]]. unfold phase1. rewrite !cap_requestable, HR.
  assert (E : eff_deserved T q == eff_deserved T q').
  { unfold eff_deserved.
    destruct (Qeq_bool (q_deserved q) unlimited) eqn:E1; destruct (Qeq_bool (q_deserved q') unlimited) eqn:E2.
    - reflexivity.
    - apply Qeq_bool_iff in E1. exfalso. apply Qeq_bool_neq in E2. apply E2. rewrite <- Hd. exact E1.
    - apply Qeq_bool_iff in E2. exfalso. apply Qeq_bool_neq in E1. apply E1. rewrite Hd. exact E2.
    - exact Hd. }
  rewrite E. reflexivity.
Qed.

Theorem weight_monotone T k qs out rem :
  fresh qs -> 0 <= k -> Forall (fun q => 0 <= q_weight q) qs ->
  set_resource_share T k qs = Done (out, rem) ->
  forall q1 q2, In q1 out -> In q2 out -> same_situation q1 q2 = true ->
                q_weight q1 <= q_weight q2 -> q_fair q1 <= q_fair q2 + 1.
Proof.
  intros HF Hk HWq. unfold set_resource_share.
  destruct (set_deserved T T qs) as [qs1 rem0] eqn:Hd.
  apply set_deserved_spec in Hd. destruct Hd as [D1 _].
  unfold fresh in HF. rewrite Forall_forall in HF, HWq.
  (* after the in-quota phase, queues in the same situation have the same fair share *)
  assert (Hq1 : forall a, In a qs1 ->
            0 <= q_weight a /\ q_fair a <= requestable a /\
            forall b, In b qs1 -> sit a b -> q_fair a == q_fair b).
  { intros a Ha. destruct (Forall2_in_r _ _ _ _ D1 Ha) as [a0 [Ha0 [Sa Fa]]].
    pose proof (HF a0 Ha0) as Fa0. destruct (static_fields _ _ Sa) as [_ [_ [_ [_ [Wa _]]]]].
    split; [rewrite Wa; apply HWq; exact Ha0|]. split.
    { rewrite (static_requestable _ _ Sa). pose proof (phase1_le_requestable T a0). lra. }
    intros b Hb Hs. destruct (Forall2_in_r _ _ _ _ D1 Hb) as [b0 [Hb0 [Sb Fb]]].
    pose proof (HF b0 Hb0) as Fb0.
    pose proof (sit_phase1 T a0 b0 (sit_static _ _ _ _ Sa Sb Hs)). lra. }
  destruct (qltb 0 rem0) eqn:Hrem.
  2:{ intros H. inversion H. subst. intros q1 q2 H1 H2 Hs _.
      destruct (Hq1 q1 H1) as [_ [_ E]]. rewrite (E q2 H2 (same_situation_sit _ _ Hs)). lra. }
  apply qltb_iff in Hrem. unfold divide_over_quota.
  pose proof (run_bands_spec k qs1 (priorities qs1) rem0 (Qlt_le_weak _ _ Hrem)) as HB.
  destruct (run_bands k (priorities qs1) qs1 rem0) as [[bs t]|] eqn:RB; [|contradiction].
  destruct HB as [_ [_ B3]].
  assert (Hok : forall p, band_ok p (band p qs1)).
  { intros p. unfold band. split; [|split].
    - intros x Hx. apply in_map_iff in Hx as [q [<- Hq]]. apply filter_In in Hq as [_ Hq].
      apply Z.eqb_eq in Hq. exact Hq.
    - intros x y Hx Hy Hs _. apply in_map_iff in Hx as [a [<- Ha]]. apply in_map_iff in Hy as [b [<- Hb]].
      apply filter_In in Ha as [Ha _]. apply filter_In in Hb as [Hb _]. cbn [fst] in *.
      destruct (Hq1 a Ha) as [_ [_ E]]. rewrite (E b Hb Hs). lra.
    - unfold WFb. apply Forall_forall. intros x Hx. apply in_map_iff in Hx as [a [<- Ha]].
      apply filter_In in Ha as [Ha _]. destruct (Hq1 a Ha) as [W0 [U _]]. cbn [fst].
      split; [exact W0|]. split; [exact U|]. cbn. discriminate. }
  pose proof (run_bands_PW k qs1 Hk Hok _ _ _ _ (Qlt_le_weak _ _ Hrem) RB) as HF2.
  pose proof (bands_PW_all _ _ (sorted_nodup _ (priorities_sorted qs1)) HF2) as HPW.
  destruct (hand_out_bands bs t) as [bs' t'] eqn:Hh.
  apply hand_out_bands_spec in Hh; [|exact B3]. destruct Hh as [H1 _].
  apply band_final_concat in H1. destruct H1 as [_ HE].
  intros H. inversion H. subst. clear H.
  intros q1 q2 Hi1 Hi2 Hs Hw.
  apply in_map_iff in Hi1 as [x2 [<- Hx2]]. apply in_map_iff in Hi2 as [y2 [<- Hy2]].
  destruct (HE x2 Hx2) as [x1 [Hx1 [Sx [_ [Ux _]]]]].
  destruct (HE y2 Hy2) as [y1 [Hy1 [Sy [Ly _]]]].
  apply same_situation_sit in Hs.
  pose proof (sit_static _ _ _ _ Sx Sy Hs) as Hs1.
  destruct (static_fields _ _ Sx) as [_ [_ [_ [_ [Wx _]]]]].
  destruct (static_fields _ _ Sy) as [_ [_ [_ [_ [Wy _]]]]].
  rewrite Wx, Wy in Hw.
  pose proof (HPW x1 y1 Hx1 Hy1 Hs1 Hw). lra.
Qed.

(** * How a band's round loop ends (clauses 5 and 6) *)
Definition nat_Q (n : nat) : Q := inject_Z (Z.of_nat n).
Definition entries (b : list rq) : Q := nat_Q (length (filter has_entry b)).

Lemma nat_Q_S n : nat_Q (S n) == nat_Q n + 1.
Proof. unfold nat_Q. rewrite Nat2Z.inj_succ. unfold Z.succ. rewrite inject_Z_plus. reflexivity. Qed.
Lemma nat_Q_nonneg n : 0 <= nat_Q n.
Proof. unfold nat_Q. change 0 with (inject_Z 0). rewrite <- Zle_Qle. lia. Qed.

(** sums of per-queue slack: each in [0,1), positive only where [P] holds *)
Lemma slack_sum {A} (d : A -> Q) (P : A -> bool) (l : list A) :
  (forall x, In x l -> 0 <= d x /\ d x < 1 /\ (0 < d x -> P x = true)) ->
  let s := fold_right (fun x a => d x + a) 0 l in
  s == 0 \/ (0 < s /\ s < nat_Q (length (filter P l))).
Proof.
  induction l as [|x l IH]; intros H; cbn [fold_right filter length]; [left; reflexivity|].
  destruct (H x (or_introl eq_refl)) as [H0 [H1 HP]].
  specialize (IH (fun y Hy => H y (or_intror Hy))). cbn zeta in IH.
  set (s := fold_right (fun x a => d x + a) 0 l) in *.
  destruct (Qlt_le_dec 0 (d x)) as [Hpos|Hz].
  - rewrite (HP Hpos). cbn [length]. rewrite nat_Q_S. right.
    pose proof (nat_Q_nonneg (length (filter P l))).
    destruct IH as [IH|[IH1 IH2]]; split; lra.
  - assert (d x == 0) by lra.
    destruct IH as [IH|[IH1 IH2]]; [left; lra|right].
    destruct (P x); cbn [length]; [rewrite nat_Q_S|]; split; lra.
Qed.

Section Exit.
Variables amount k W sum : Q.
Hypothesis Hamount : 0 <= amount.
Hypothesis Hk : 0 <= k.
Hypothesis HW : 0 < W.
Hypothesis Hsum : 0 < sum.

(** this round's fair share of a queue that takes part in it *)
Definition fsx (x : rq) : Q :=
  if satisfied (fst x) || qeqb (q_weight (fst x)) 0 then 0
  else qmul amount (qdiv (share_weight k W (fst x)) sum).

Lemma fsx_wshare x : fsx x * sum == amount * wshare k W x.
Proof.
  unfold fsx, wshare. destruct (satisfied (fst x) || qeqb (q_weight (fst x)) 0); [lra|].
  apply (fs_facts amount sum Hamount Hsum). apply share_weight_nonneg.
Qed.

Lemma floorp_slack fs : 0 <= fs ->
  let g := (if qltb 0 (qfloor fs) then qfloor fs else 0) in 0 <= fs - g /\ fs - g < 1.
Proof.
  intros Hfs. cbn zeta. pose proof (qfloor_le fs) as Hl.
  assert (Hu : fs < qfloor fs + 1).
  { unfold qfloor. pose proof (Qlt_floor fs) as H. rewrite inject_Z_plus in H. exact H. }
  destruct (qltb 0 (qfloor fs)) eqn:E; [apply qltb_iff in E|apply qltb_false in E]; split; lra.
Qed.

(** a visit that does not ask for another round leaves a slack in [0,1), and a
    positive slack leaves an entry in the remainder map *)
Lemma visit_slack x :
  visit_a amount k W sum x = false ->
  let d := fsx x - visit_g amount k W sum x in
  0 <= d /\ d < 1 /\ (0 < d -> has_entry (visit_out amount k W sum x) = true).
Proof.
  destruct x as [q e]. unfold visit_a, visit_g, visit_out, visit, fsx. cbn [fst snd].
  destruct (satisfied q) eqn:Hs; cbn [orb fst snd].
  { intros _. split; [lra|]. split; [lra|]. intros H. lra. }
  destruct (qeqb (q_weight q) 0) eqn:Hw; cbn [fst snd].
  { intros _. split; [lra|]. split; [lra|]. intros H. lra. }
  pose proof (fs_facts amount sum Hamount Hsum _ (share_weight_nonneg k W q)) as [Hfs0 _].
  set (fs := qmul amount (qdiv (share_weight k W q) sum)) in *.
  pose proof (remaining_unsat q Hs) as [_ Hrr0].
  unfold give_in_round.
  destruct (qleb (remaining_requested q) fs) eqn:E.
  - apply qleb_iff in E.
    destruct (qeqb (remaining_requested q) 0) eqn:E0; cbn [fst snd].
    { apply qeqb_iff in E0. lra. }
    intros Ha. apply qltb_false in Ha. split; [lra|]. split; [lra|]. intros H. lra.
  - apply qleb_false in E.
    pose proof (floorp_slack fs Hfs0) as [S0 S1].
    set (g := if qltb 0 (qfloor fs) then qfloor fs else 0) in *.
    destruct (qeqb g 0) eqn:Eg; cbn [fst snd].
    + intros _. apply qeqb_iff in Eg. split; [lra|]. split; [lra|]. intros H.
      assert (Hd : qltb 0 (qsub fs g) = true) by (apply qltb_iff; rewrite qsub_eq; lra).
      rewrite Hd. reflexivity.
    + intros _. split; [lra|]. split; [lra|]. intros H.
      assert (Hd : qltb 0 (qsub fs g) = true) by (apply qltb_iff; rewrite qsub_eq; lra).
      rewrite Hd. reflexivity.
Qed.

Lemma take_sum : forall b total,
  fold_left (take amount k W sum) b total
  == total - fold_right (fun x a => visit_g amount k W sum x + a) 0 b.
Proof.
  induction b as [|x b IH]; intros total; cbn [fold_left fold_right]; [lra|].
  rewrite IH. unfold take. destruct (qeqb (visit_g amount k W sum x) 0) eqn:E.
  - apply qeqb_iff in E. lra.
  - rewrite qsub_eq. lra.
Qed.

Lemma fsx_sum b :
  fold_right (fun x a => fsx x + a) 0 b * sum == amount * wsum k W b.
Proof.
  induction b as [|x b IH]; cbn [fold_right].
  - change (wsum k W []) with 0. lra.
  - change (wsum k W (x :: b)) with (wshare k W x + wsum k W b).
    pose proof (fsx_wshare x). lra.
Qed.

Lemma slack_split b :
  fold_right (fun x a => (fsx x - visit_g amount k W sum x) + a) 0 b
  == fold_right (fun x a => fsx x + a) 0 b - fold_right (fun x a => visit_g amount k W sum x + a) 0 b.
Proof. induction b as [|x b IH]; cbn [fold_right]; [lra|]. rewrite IH. lra. Qed.

(** last round of a band: nobody asked for another round *)
Lemma quiet_round b :
  wsum k W b == sum -> existsb (visit_a amount k W sum) b = false ->
  let t := fold_left (take amount k W sum) b amount in
  t == 0 \/ (0 < t /\ t < entries (map (visit_out amount k W sum) b)).
Proof.
  intros Hws Hq. cbn zeta.
  assert (Hall : forall x, In x b -> visit_a amount k W sum x = false).
  { intros x Hx. destruct (visit_a amount k W sum x) eqn:E; [|reflexivity].
    assert (existsb (visit_a amount k W sum) b = true) by (apply existsb_exists; exists x; auto).
    congruence. }
  pose proof (slack_sum (fun x => fsx x - visit_g amount k W sum x)
                        (fun x => has_entry (visit_out amount k W sum x)) b) as HS.
  cbn zeta in HS. rewrite slack_split in HS.
  assert (Hfs : fold_right (fun x a => fsx x + a) 0 b == amount).
  { pose proof (fsx_sum b) as H. rewrite Hws in H.
    apply (Qmult_inj_r _ _ sum); [lra|exact H]. }
  rewrite take_sum. rewrite Hfs in HS.
  assert (He : entries (map (visit_out amount k W sum) b)
               = nat_Q (length (filter (fun x => has_entry (visit_out amount k W sum x)) b))).
  { unfold entries. f_equal. clear. induction b as [|x b IH]; cbn [map filter]; [reflexivity|].
    destruct (has_entry (visit_out amount k W sum x)); cbn [length]; rewrite IH; reflexivity. }
  rewrite He. apply HS. intros x Hx. apply visit_slack. apply Hall. exact Hx.
Qed.
End Exit.

Definition WF5 (b : list rq) : Prop :=
  Forall (fun x => 0 <= q_weight (fst x) /\ 0 <= q_usage (fst x) /\ UB x) b.

Lemma share_weight_zero_weight k W q :
  0 <= k -> 0 <= q_usage q -> q_weight q == 0 -> share_weight k W q == 0.
Proof.
  intros Hk Hu Hw. unfold share_weight, qmax.
  destruct (qleb 0 _) eqn:E; [|reflexivity]. apply qleb_iff in E.
  rewrite qadd_eq, qmul_eq, qsub_eq, qdiv_eq in *. rewrite Hw in *.
  assert (0 / W == 0) by (unfold Qdiv; lra). rewrite H in *.
  assert (0 <= k * q_usage q) by (apply Qmult_le_0_compat; assumption).
  lra.
Qed.

Lemma wsum_eq_ssum k W b : 0 <= k -> WF5 b -> wsum k W b == ssum k W b.
Proof.
  intros Hk H. induction H as [|x b [Hw [Hu _]] HF IH].
  - reflexivity.
  - change (wsum k W (x :: b)) with (wshare k W x + wsum k W b).
    change (ssum k W (x :: b)) with ((if satisfied (fst x) then 0 else share_weight k W (fst x)) + ssum k W b).
    rewrite IH. unfold wshare. destruct (satisfied (fst x)); cbn [orb]; [lra|].
    destruct (qeqb (q_weight (fst x)) 0) eqn:E; [|lra].
    apply qeqb_iff in E. rewrite (share_weight_zero_weight k W _ Hk Hu E). lra.
Qed.

Lemma sw_pos_iff k W q : 0 < W ->
  (0 < share_weight k W q <-> k * q_usage q * W < q_weight q * (1 + k)).
Proof.
  intros HW. unfold share_weight, qmax.
  set (t := qadd (qdiv (q_weight q) W) (qmul k (qsub (qdiv (q_weight q) W) (q_usage q)))).
  assert (Ht : t * W == q_weight q * (1 + k) - k * q_usage q * W).
  { unfold t. rewrite qadd_eq, qmul_eq, qsub_eq, qdiv_eq. field. lra. }
  assert (Hiff : 0 < t <-> 0 < t * W).
  { split; intros H.
    - apply Qmult_lt_0_compat; assumption.
    - destruct (Qlt_le_dec 0 t) as [C|C]; [exact C|]. exfalso.
      assert (t * W <= 0 * W) by (apply Qmult_le_compat_r; lra). lra. }
  destruct (qleb 0 t) eqn:E.
  - rewrite Hiff, Ht. split; lra.
  - apply qleb_false in E. split; intros H; [lra|]. exfalso.
    assert (0 < t * W) by lra. apply Hiff in H0. lra.
Qed.

Definition Einv (k : Q) (b : list rq) : Prop :=
  forall x, In x b -> has_entry x = true ->
    satisfied (fst x) = false
    /\ k * q_usage (fst x) * total_weights b < q_weight (fst x) * (1 + k).

Lemma total_weights_twsum b : total_weights b == twsum b.
Proof. unfold total_weights. rewrite total_weights_acc. lra. Qed.

Lemma twsum_ge b x :
  Forall (fun y => 0 <= q_weight (fst y)) b -> In x b -> satisfied (fst x) = false ->
  q_weight (fst x) <= twsum b.
Proof.
  intros HF. induction HF as [|y b Hy HF IH]; intros Hx Hs; [destruct Hx|].
  cbn [twsum fold_right]. fold (twsum b).
  assert (0 <= twsum b).
  { clear -HF. induction HF as [|z b Hz HF IH]; cbn [twsum fold_right]; [lra|]. fold (twsum b).
    destruct (qltb 0 (remaining_requested (fst z))); lra. }
  destruct Hx as [->|Hx].
  - destruct (remaining_unsat _ Hs) as [_ Hr]. apply qltb_iff in Hr. rewrite Hr. lra.
  - specialize (IH Hx Hs). destruct (qltb 0 (remaining_requested (fst y))); lra.
Qed.

Lemma ssum_ge k W b x : In x b -> satisfied (fst x) = false -> share_weight k W (fst x) <= ssum k W b.
Proof.
  induction b as [|y b IH]; intros Hx Hs; [destruct Hx|].
  change (ssum k W (y :: b)) with ((if satisfied (fst y) then 0 else share_weight k W (fst y)) + ssum k W b).
  assert (0 <= ssum k W b).
  { clear. induction b as [|z b IH]; [cbn; lra|].
    change (ssum k W (z :: b)) with ((if satisfied (fst z) then 0 else share_weight k W (fst z)) + ssum k W b).
    pose proof (share_weight_nonneg k W (fst z)). destruct (satisfied (fst z)); lra. }
  pose proof (share_weight_nonneg k W (fst y)).
  destruct Hx as [->|Hx].
  - rewrite Hs. lra.
  - specialize (IH Hx Hs). destruct (satisfied (fst y)); lra.
Qed.

Section RoundE.
Variables amount k W sum : Q.
Hypothesis Hamount : 0 <= amount.
Hypothesis Hk : 0 <= k.
Hypothesis HW : 0 < W.
Hypothesis Hsum : 0 < sum.

Lemma fresh_entry x :
  has_entry (visit_out amount k W sum x) = true ->
  has_entry x = true \/ (satisfied (fst x) = false /\ 0 < share_weight k W (fst x)).
Proof.
  destruct x as [q e]. unfold visit_out, visit. cbn [fst snd].
  destruct (satisfied q) eqn:Hs; cbn [fst]; [auto|].
  destruct (qeqb (q_weight q) 0); cbn [fst]; [auto|].
  pose proof (fs_facts amount sum Hamount Hsum _ (share_weight_nonneg k W q)) as [Hfs0 Hfs].
  set (fs := qmul amount (qdiv (share_weight k W q) sum)) in *.
  assert (Hpos : 0 < fs -> 0 < share_weight k W q).
  { intros Hp. assert (0 < fs * sum) by (apply Qmult_lt_0_compat; assumption).
    rewrite Hfs in H. destruct (Qlt_le_dec 0 (share_weight k W q)) as [C|C]; [exact C|]. exfalso.
    assert (amount * share_weight k W q <= amount * 0).
    { rewrite (Qmult_comm amount), (Qmult_comm amount 0). apply Qmult_le_compat_r; assumption. }
    lra. }
  unfold give_in_round. destruct (qleb (remaining_requested q) fs).
  - destruct (qeqb (remaining_requested q) 0); cbn; discriminate.
  - pose proof (floorp_slack fs Hfs0) as [S0 _].
    set (g := if qltb 0 (qfloor fs) then qfloor fs else 0) in *.
    assert (Hcase : has_entry (q, if qltb 0 (qsub fs g) then Some (qsub fs g) else e) = true ->
                    has_entry (q, e) = true \/ (false = false /\ 0 < share_weight k W q)).
    { destruct (qltb 0 (qsub fs g)) eqn:Ed; [|auto].
      apply qltb_iff in Ed. rewrite qsub_eq in Ed. intros _. right. split; [reflexivity|].
      apply Hpos.
      assert (0 <= g).
      { unfold g. destruct (qltb 0 (qfloor fs)) eqn:E; [apply qltb_iff in E|]; lra. }
      lra. }
    destruct (qeqb g 0); cbn [fst]; exact Hcase.
Qed.
End RoundE.

Lemma twsum_mono b b' :
  Forall2 evolves b b' -> Forall (fun y => 0 <= q_weight (fst y)) b -> twsum b' <= twsum b.
Proof.
  induction 1 as [|x x' b b' [S [Hf _]] HF IH]; intros HW; [cbn; lra|].
  inversion HW as [|? ? Hx HW']. subst. specialize (IH HW').
  cbn [twsum fold_right]. fold (twsum b). fold (twsum b').
  destruct (static_fields _ _ S) as [_ [_ [_ [_ [Wx _]]]]]. rewrite Wx.
  pose proof (static_requestable _ _ S) as HR.
  destruct (qltb 0 (remaining_requested (fst x'))) eqn:E'.
  - apply qltb_iff in E'.
    assert (E : qltb 0 (remaining_requested (fst x)) = true).
    { apply qltb_iff. unfold remaining_requested in *.
      destruct (qltb (requestable (fst x')) (q_fair (fst x'))) eqn:A'; [lra|].
      rewrite qsub_eq in E'. rewrite HR in E'.
      destruct (qltb (requestable (fst x)) (q_fair (fst x))) eqn:A.
      - apply qltb_iff in A. lra.
      - rewrite qsub_eq. lra. }
    rewrite E. lra.
  - destruct (qltb 0 (remaining_requested (fst x))); lra.
Qed.

Definition band_eff (k : Q) (o : list rq) (x : rq) : Q :=
  if qeqb (total_weights o) 0 then 0 else share_weight k (total_weights o) (fst x).

(** nothing more can be given to the band: no pending remainders, and every queue
    still wanting more has effective weight 0 *)
Definition idle_band (k : Q) (o : list rq) : Prop :=
  (forall x, In x o -> has_entry x = false)
  /\ (forall x, In x o -> satisfied (fst x) = false -> band_eff k o x == 0).

Lemma WF5_weights b : WF5 b -> Forall (fun y => 0 <= q_weight (fst y)) b.
Proof. intros H. eapply Forall_impl; [|exact H]. cbn. tauto. Qed.

Lemma divide_up_to_exit k : 0 <= k -> forall fuel b total o t,
  0 <= total -> WF5 b -> Einv k b ->
  divide_up_to fuel k b total = Done (o, t) ->
  WF5 o /\ Einv k o /\ (idle_band k o \/ t == 0 \/ (0 < t /\ t < entries o)).
Proof.
  intros Hk. induction fuel as [|f IH]; intros b total o t Ht HWF HE; cbn [divide_up_to]; [discriminate|].
  pose proof (WF5_weights b HWF) as HWb.
  assert (HWF' := HWF). unfold WF5 in HWF'. rewrite Forall_forall in HWF'.
  destruct (qeqb (total_weights b) 0) eqn:EW.
  { intros H. inversion H. subst o t. split; [exact HWF|]. split; [exact HE|]. left.
    apply qeqb_iff in EW. split.
    - intros x Hx. destruct (has_entry x) eqn:Ee; [|reflexivity]. exfalso.
      destruct (HE x Hx Ee) as [Hs Hf]. rewrite EW in Hf.
      pose proof (twsum_ge b x HWb Hx Hs) as Hge. rewrite <- total_weights_twsum, EW in Hge.
      assert (0 <= q_weight (fst x) * (1 + k)); [|nra].
      destruct (HWF' x Hx) as [Hw _]. nra.
    - intros x _ _. unfold band_eff. apply qeqb_iff in EW. rewrite EW. reflexivity. }
  assert (HW : 0 < total_weights b).
  { pose proof (total_weights_nonneg b HWb) as H0. apply qeqb_false in EW.
    apply Qle_lt_or_eq in H0. destruct H0 as [H0|H0]; [exact H0|]. exfalso. apply EW. lra. }
  destruct (qeqb (share_weights_sum k (total_weights b) b) 0) eqn:Hs.
  { intros H. inversion H. subst o t. split; [exact HWF|]. split; [exact HE|]. left.
    apply qeqb_iff in Hs. rewrite share_weights_sum_eq in Hs. split.
    - intros x Hx. destruct (has_entry x) eqn:Ee; [|reflexivity]. exfalso.
      destruct (HE x Hx Ee) as [Hsx Hf]. apply (sw_pos_iff k _ _ HW) in Hf.
      pose proof (ssum_ge k (total_weights b) b x Hx Hsx). lra.
    - intros x Hx Hsx. unfold band_eff. rewrite EW.
      pose proof (ssum_ge k (total_weights b) b x Hx Hsx).
      pose proof (share_weight_nonneg k (total_weights b) (fst x)). lra. }
  set (W := total_weights b) in *.
  pose proof (sum_pos k W b Hs) as Hsum. set (sum := share_weights_sum k W b) in *.
  destruct (round_queues total k W sum b total false) as [[o1 t1] a1] eqn:R1.
  pose proof (round_spec total k W sum Ht Hsum _ _ _ _ _ _ R1 (inv_initial k W b total Ht))
    as [Hev [_ [Ht1 _]]].
  rewrite (round_decl_eq total k W sum Ht Hsum) in R1 by (apply inv_initial; exact Ht).
  unfold round_decl in R1. cbn [orb] in R1.
  assert (Eo : o1 = map (visit_out total k W sum) b) by (inversion R1; reflexivity).
  assert (Et : t1 = fold_left (take total k W sum) b total) by (inversion R1; reflexivity).
  assert (Ea : a1 = existsb (visit_a total k W sum) b) by (inversion R1; reflexivity).
  (* the state after the round keeps the invariants *)
  assert (HWF1 : WF5 o1).
  { unfold WF5. apply Forall_forall. intros x1 Hx1.
    destruct (Forall2_in_r _ _ _ _ Hev Hx1) as [x [Hx [S [_ [_ U]]]]].
    destruct (static_fields _ _ S) as [_ [_ [_ [_ [Wx [_ Ux]]]]]]. rewrite Wx, Ux.
    destruct (HWF' x Hx) as [A [B C]]. auto. }
  assert (HE1 : Einv k o1).
  { intros x1 Hx1 He1. rewrite Eo in Hx1. apply in_map_iff in Hx1 as [x [Ex Hx]].
    destruct (HWF' x Hx) as [Hw [Hu HU]].
    destruct (visit total k W sum x) as [[x1' g] a] eqn:Vx.
    pose proof (visit_spec total k W sum Ht Hsum _ _ _ _ Vx) as [S [_ [_ [_ [_ [_ [_ U]]]]]]].
    assert (x1' = x1) by (unfold visit_out in Ex; rewrite Vx in Ex; exact Ex). subst x1'.
    destruct (U HU) as [_ U2]. specialize (U2 He1).
    split; [apply lt_requestable_unsat; exact U2|].
    destruct (static_fields _ _ S) as [_ [_ [_ [_ [Wx [_ Ux]]]]]]. rewrite Wx, Ux.
    assert (Hb : k * q_usage (fst x) * W < q_weight (fst x) * (1 + k)).
    { rewrite <- Ex in He1. apply (fresh_entry total k W sum Ht Hsum) in He1.
      destruct He1 as [He|[_ Hp]].
      - apply (HE x Hx He).
      - apply (sw_pos_iff k W _ HW). exact Hp. }
    assert (HWle : total_weights o1 <= W).
    { unfold W. rewrite !total_weights_twsum. apply twsum_mono; assumption. }
    assert (0 <= k * q_usage (fst x)) by (apply Qmult_le_0_compat; assumption).
    assert (k * q_usage (fst x) * total_weights o1 <= k * q_usage (fst x) * W).
    { rewrite !(Qmult_comm (k * q_usage (fst x))). apply Qmult_le_compat_r; assumption. }
    lra. }
  destruct (negb a1 || qeqb t1 0) eqn:Hstop.
  - intros H. inversion H. subst o t. split; [exact HWF1|]. split; [exact HE1|]. right.
    apply orb_true_iff in Hstop. destruct Hstop as [Ha|Hz].
    + apply negb_true_iff in Ha. rewrite Ea in Ha.
      pose proof (quiet_round total k W sum Ht Hsum b) as Q. cbn zeta in Q.
      rewrite <- Et, <- Eo in Q. apply Q; [|exact Ha].
      rewrite (wsum_eq_ssum k W b Hk HWF). unfold sum. rewrite share_weights_sum_eq. reflexivity.
    + left. apply qeqb_iff. exact Hz.
  - intros H. eapply IH; [exact Ht1|exact HWF1|exact HE1|exact H].
Qed.

Lemma evolves_fairs_le b b' : Forall2 evolves b b' -> fairs b <= fairs b'.
Proof.
  induction 1 as [|x x' b b' [_ [Hf _]] HF IH]; [lra|]. rewrite !fairs_cons. lra.
Qed.

Definition band_exit (k t : Q) (p : Z) (o : list rq) : Prop :=
  (forall x, In x o -> q_prio (fst x) = p) /\ WF5 o
  /\ (idle_band k o \/ t == 0 \/ (0 < t /\ t < entries o)).

Lemma run_bands_exit k qs : 0 <= k ->
  (forall p, (forall x, In x (band p qs) -> q_prio (fst x) = p) /\ WF5 (band p qs) /\ Einv k (band p qs)) ->
  forall ps total bs t, 0 <= total ->
  run_bands k ps qs total = Done (bs, t) ->
  0 <= t /\ t <= total /\ Forall2 (band_exit k t) ps bs.
Proof.
  intros Hk H0. induction ps as [|p r IH]; intros total bs t Ht; cbn [run_bands].
  - intros H. inversion H. subst. split; [exact Ht|]. split; [lra|constructor].
  - pose proof (divide_up_to_spec k (S (length (band p qs))) (band p qs) total Ht) as HS.
    destruct (divide_up_to (S (length (band p qs))) k (band p qs) total) as [[b1 t1]|] eqn:D; [|discriminate].
    destruct HS as [E [Hsum Ht1]].
    destruct (run_bands k r qs t1) as [[bs1 t2]|] eqn:R; [|discriminate].
    intros H. inversion H. subst bs t. clear H.
    destruct (IH t1 bs1 t2 Ht1 R) as [I1 [I2 I3]].
    pose proof (evolves_fairs_le _ _ E) as Hle.
    split; [exact I1|]. split; [lra|]. constructor; [|exact I3].
    destruct (H0 p) as [Hp [HWF HE]].
    destruct (divide_up_to_exit k Hk _ _ _ _ _ Ht HWF HE D) as [HWF1 [_ Hex]].
    split; [|split; [exact HWF1|]].
    + intros x1 Hx1. destruct (Forall2_in_r _ _ _ _ E Hx1) as [x [Hx [S _]]].
      apply static_fields in S. destruct S as [_ [S _]]. rewrite S. apply Hp. exact Hx.
    + destruct Hex as [Hi|[Hz|[Hp1 Hp2]]]; [left; exact Hi|right; left; lra|].
      destruct (Qlt_le_dec 0 t2) as [C|C]; [right; right; split; lra|right; left; lra].
Qed.

Lemma hand_out_drain : forall es total es' t',
  0 <= total -> total <= nat_Q (length es) -> hand_out es total = (es', t') -> t' == 0.
Proof.
  induction es as [|[q e] r IH]; intros total es' t' Ht Hle H.
  - cbn in H. inversion H. subst. cbn [length] in Hle. change (nat_Q 0) with 0 in Hle. lra.
  - cbn [hand_out] in H. destruct (qeqb total 0) eqn:E0.
    + inversion H. subst. apply qeqb_iff. exact E0.
    + destruct (hand_out r (qsub total (qmin 1 total))) as [r1 t1] eqn:Hr.
      inversion H. subst. clear H. cbn [length] in Hle. rewrite nat_Q_S in Hle.
      destruct (qmin1_facts total Ht) as [G0 [G1 G2]].
      apply IH in Hr; [exact Hr|rewrite qsub_eq; lra|].
      rewrite qsub_eq. unfold qmin in *. destruct (qleb 1 total) eqn:E1.
      * lra.
      * pose proof (nat_Q_nonneg (length r)). lra.
Qed.

Lemma no_entries_filter b : existsb has_entry b = false -> filter has_entry b = [].
Proof.
  induction b as [|x b IH]; cbn [existsb filter]; [reflexivity|].
  destruct (has_entry x); cbn [orb]; [discriminate|exact IH].
Qed.

Lemma hand_out_bands_positive k : forall bs t bs' t',
  0 <= t -> Forall (fun o => idle_band k o \/ t == 0 \/ (0 < t /\ t < entries o)) bs ->
  hand_out_bands bs t = (bs', t') -> 0 < t' ->
  bs' = bs /\ Forall (idle_band k) bs.
Proof.
  induction bs as [|b r IH]; intros t bs' t' Ht HF H Hpos.
  - cbn in H. inversion H. subst. split; [reflexivity|constructor].
  - cbn [hand_out_bands] in H. inversion HF as [|? ? Hb HF']. subst.
    destruct (qleb t 0) eqn:E0.
    { apply qleb_iff in E0. inversion H. subst. lra. }
    apply qleb_false in E0.
    destruct (negb (existsb has_entry b)) eqn:Ee.
    + apply negb_true_iff in Ee.
      destruct (hand_out_bands r t) as [r1 t1] eqn:Hr. inversion H. subst. clear H.
      destruct (IH t r1 t' Ht HF' Hr Hpos) as [-> Hall].
      split; [reflexivity|]. constructor; [|exact Hall].
      destruct Hb as [Hi|[Hz|[_ Hlt]]]; [exact Hi|lra|].
      unfold entries in Hlt. rewrite (no_entries_filter b Ee) in Hlt. cbn [length] in Hlt. change (nat_Q 0) with 0 in Hlt. lra.
    + exfalso. apply negb_false_iff in Ee.
      unfold divide_remaining in H.
      destruct (hand_out (sort_entries (filter has_entry b)) t) as [es t1] eqn:Hh.
      destruct (hand_out_bands r t1) as [r1 t2] eqn:Hr. inversion H. subst. clear H.
      assert (Hz : t1 == 0).
      { eapply hand_out_drain; [exact Ht| |exact Hh].
        rewrite (Permutation_length (sort_entries_perm (filter has_entry b))).
        destruct Hb as [[Hne _]|[Hz|[_ Hlt]]]; [|lra|unfold entries in Hlt; lra].
        apply existsb_exists in Ee. destruct Ee as [x [Hx He]]. rewrite (Hne x Hx) in He. discriminate. }
      destruct r as [|b2 r2]; cbn [hand_out_bands] in Hr.
      * inversion Hr. subst. lra.
      * assert (E1 : qleb t1 0 = true) by (apply qleb_iff; lra). rewrite E1 in Hr.
        inversion Hr. subst. lra.
Qed.

Lemma total_weights_fst b b' : map fst b = map fst b' -> total_weights b = total_weights b'.
Proof.
  intros H. unfold total_weights.
  set (f := fun (acc : Q) (q : queue) =>
              if qltb 0 (remaining_requested q) then qadd acc (q_weight q) else acc).
  assert (G : forall (l : list rq) acc,
             fold_left (fun acc (x : rq) =>
                          if qltb 0 (remaining_requested (fst x)) then qadd acc (q_weight (fst x)) else acc) l acc
             = fold_left f (map fst l) acc).
  { induction l as [|x l IH]; intros acc; cbn [fold_left map]; [reflexivity|]. rewrite IH. reflexivity. }
  rewrite !G, H. reflexivity.
Qed.

Lemma band_fst p l : map fst (band p l) = filter (fun q => (q_prio q =? p)%Z) l.
Proof. unfold band. rewrite map_map. cbn [fst]. apply map_id. Qed.

Lemma filter_none {A} (f : A -> bool) l : (forall x, In x l -> f x = false) -> filter f l = [].
Proof.
  induction l as [|x l IH]; intros H; cbn [filter]; [reflexivity|].
  rewrite (H x (or_introl eq_refl)). apply IH. intros y Hy. apply H. right. exact Hy.
Qed.

Lemma band_select ps bs :
  Forall2 (fun p o => forall x : rq, In x o -> q_prio (fst x) = p) ps bs -> NoDup ps ->
  forall p o, In (p, o) (combine ps bs) ->
  filter (fun q => (q_prio q =? p)%Z) (map fst (concat bs)) = map fst o.
Proof.
  induction 1 as [|p0 o0 ps bs H0 HF IH]; intros ND p o Hin; [destruct Hin|].
  inversion ND as [|? ? Hn ND']. subst. cbn [combine In concat] in *.
  rewrite map_app, filter_app.
  assert (Hrest : forall y, In y (concat bs) -> In (q_prio (fst y)) ps).
  { clear -HF. induction HF as [|p1 o1 ps bs H1 HF IH]; cbn [concat]; [intros y []|].
    intros y Hy. apply in_app_or in Hy as [Hy|Hy]; [left; symmetry; apply H1; exact Hy|right; apply IH; exact Hy]. }
  destruct Hin as [E|Hin].
  - inversion E. subst p0 o0.
    rewrite (filter_all _ (map fst o)).
    2:{ intros q Hq. apply in_map_iff in Hq as [x [<- Hx]]. apply Z.eqb_eq. apply H0. exact Hx. }
    rewrite (filter_none _ (map fst (concat bs))); [apply app_nil_r|].
    intros q Hq. apply in_map_iff in Hq as [y [<- Hy]]. apply Z.eqb_neq. intros E'.
    apply Hn. rewrite <- E'. apply Hrest. exact Hy.
  - rewrite (filter_none _ (map fst o0)).
    2:{ intros q Hq. apply in_map_iff in Hq as [x [<- Hx]]. apply Z.eqb_neq. rewrite (H0 x Hx).
        intros E'. apply Hn. rewrite E'. apply (in_combine_l _ _ _ _ Hin). }
    cbn [app]. apply IH; assumption.
Qed.

Lemma in_concat_combine {A B} (ps : list A) (bs : list (list B)) x :
  length ps = length bs -> In x (concat bs) -> exists p o, In (p, o) (combine ps bs) /\ In x o.
Proof.
  revert bs. induction ps as [|p ps IH]; intros [|o bs] HL Hx; cbn in HL; try discriminate; [destruct Hx|].
  cbn [concat] in Hx. apply in_app_or in Hx as [Hx|Hx].
  - exists p, o. split; [left; reflexivity|exact Hx].
  - injection HL as HL. destruct (IH bs HL Hx) as [p' [o' [H1 H2]]]. exists p', o'. split; [right; exact H1|exact H2].
Qed.

(** 5. If surplus stays undistributed, every queue that still wants more has
    effective over-quota weight 0 within its priority band. *)
Theorem no_idle_surplus T k qs out rem :
  fresh qs -> 0 <= k -> Forall (fun q => 0 <= q_weight q /\ 0 <= q_usage q) qs ->
  set_resource_share T k qs = Done (out, rem) -> 0 < rem ->
  forall q, In q out -> satisfied q = false ->
            band_eff k (band (q_prio q) out) (q, None) == 0.
Proof.
  intros HF Hk HWq. unfold set_resource_share.
  destruct (set_deserved T T qs) as [qs1 rem0] eqn:Hd.
  apply set_deserved_spec in Hd. destruct Hd as [D1 _].
  unfold fresh in HF. rewrite Forall_forall in HF, HWq.
  destruct (qltb 0 rem0) eqn:Hrem.
  2:{ intros H. inversion H. subst. intros C. lra. }
  apply qltb_iff in Hrem. unfold divide_over_quota.
  destruct (run_bands k (priorities qs1) qs1 rem0) as [[bs t]|] eqn:RB; [|discriminate].
  assert (Hok : forall p, (forall x, In x (band p qs1) -> q_prio (fst x) = p)
                          /\ WF5 (band p qs1) /\ Einv k (band p qs1)).
  { intros p. unfold band. split; [|split].
    - intros x Hx. apply in_map_iff in Hx as [q [<- Hq]]. apply filter_In in Hq as [_ Hq].
      apply Z.eqb_eq in Hq. exact Hq.
    - unfold WF5. apply Forall_forall. intros x Hx. apply in_map_iff in Hx as [a [<- Ha]].
      apply filter_In in Ha as [Ha _]. cbn [fst].
      destruct (Forall2_in_r _ _ _ _ D1 Ha) as [a0 [Ha0 [Sa Fa]]].
      destruct (static_fields _ _ Sa) as [_ [_ [_ [_ [Wa [_ Ua]]]]]]. rewrite Wa, Ua.
      destruct (HWq a0 Ha0) as [W0 U0]. split; [exact W0|]. split; [exact U0|].
      split; cbn [fst snd]; [|cbn; discriminate].
      rewrite (static_requestable _ _ Sa). pose proof (phase1_le_requestable T a0).
      pose proof (HF a0 Ha0). lra.
    - intros x Hx He. apply in_map_iff in Hx as [a [<- _]]. cbn in He. discriminate. }
  pose proof (run_bands_exit k qs1 Hk Hok _ _ _ _ (Qlt_le_weak _ _ Hrem) RB) as [Ht [_ HE]].
  destruct (hand_out_bands bs t) as [bs' t'] eqn:Hh.
  intros H. inversion H. subst out rem. clear H. intros Hpos.
  assert (HFi : Forall (fun o => idle_band k o \/ t == 0 \/ (0 < t /\ t < entries o)) bs).
  { clear -HE. induction HE as [|p o ps bs [_ [_ Hx]] HF IH]; constructor; assumption. }
  destruct (hand_out_bands_positive k _ _ _ _ Ht HFi Hh Hpos) as [-> Hidle].
  intros q Hq Hs. apply in_map_iff in Hq as [x [<- Hx]].
  assert (HL : length (priorities qs1) = length bs).
  { clear -HE. induction HE; cbn [length]; [reflexivity|f_equal; assumption]. }
  destruct (in_concat_combine _ _ _ HL Hx) as [p [o [Hpo Hxo]]].
  assert (HP : Forall2 (fun p o => forall x : rq, In x o -> q_prio (fst x) = p) (priorities qs1) bs).
  { clear -HE. induction HE as [|p o ps bs [Hp _] HF IH]; constructor; assumption. }
  pose proof (band_select _ _ HP (sorted_nodup _ (priorities_sorted qs1)) p o Hpo) as Hsel.
  assert (Hpx : q_prio (fst x) = p).
  { clear -HP Hpo Hxo. induction HP as [|p0 o0 ps bs H0 HF IH]; [destruct Hpo|].
    destruct Hpo as [E|Hpo]; [inversion E; subst; apply H0; exact Hxo|apply IH; exact Hpo]. }
  rewrite Forall_forall in Hidle. destruct (Hidle o (in_combine_r _ _ _ _ Hpo)) as [_ Hi].
  specialize (Hi x Hxo Hs). unfold band_eff in *. cbn [fst].
  rewrite Hpx.
  rewrite (total_weights_fst (band p (map fst (concat bs))) o); [exact Hi|].
  rewrite band_fst. exact Hsel.
Qed.

(** * Priority bands end to end (clause 6) *)
Lemma run_bands_app k qs : forall ps1 ps2 total,
  run_bands k (ps1 ++ ps2) qs total =
  match run_bands k ps1 qs total with
  | OutOfFuel => OutOfFuel
  | Done (bs1, t1) =>
      match run_bands k ps2 qs t1 with
      | OutOfFuel => OutOfFuel
      | Done (bs2, t) => Done (bs1 ++ bs2, t)
      end
  end.
Proof.
  induction ps1 as [|p r IH]; intros ps2 total; cbn [app run_bands].
  - destruct (run_bands k ps2 qs total) as [[bs2 t]|]; reflexivity.
  - destruct (divide_up_to (S (length (band p qs))) k (band p qs) total) as [[b1 t1]|]; [|reflexivity].
    rewrite IH. destruct (run_bands k r qs t1) as [[bs1 t2]|]; [|reflexivity].
    destruct (run_bands k ps2 qs t2) as [[bs2 t]|]; reflexivity.
Qed.

Lemma hand_out_bands_stop l t : qleb t 0 = true -> hand_out_bands l t = (l, t).
Proof. intros H. destruct l; cbn [hand_out_bands]; [reflexivity|]. rewrite H. reflexivity. Qed.

Lemma hand_out_bands_app : forall l1 l2 t,
  hand_out_bands (l1 ++ l2) t =
  let '(l1', t1) := hand_out_bands l1 t in
  let '(l2', t2) := hand_out_bands l2 t1 in (l1' ++ l2', t2).
Proof.
  induction l1 as [|b r IH]; intros l2 t; cbn [app hand_out_bands].
  - destruct (hand_out_bands l2 t); reflexivity.
  - destruct (qleb t 0) eqn:E.
    + rewrite (hand_out_bands_stop l2 t E). reflexivity.
    + destruct (negb (existsb has_entry b)).
      * rewrite IH. destruct (hand_out_bands r t) as [r1 t1].
        destruct (hand_out_bands l2 t1) as [l2' t2]. reflexivity.
      * destruct (divide_remaining b t) as [b1 t1]. rewrite IH.
        destruct (hand_out_bands r t1) as [r1 t2].
        destruct (hand_out_bands l2 t2) as [l2' t3]. reflexivity.
Qed.

Lemma hand_out_le : forall es total es' t', 0 <= total -> hand_out es total = (es', t') -> t' <= total.
Proof.
  induction es as [|[q e] r IH]; intros total es' t' Ht H.
  - cbn in H. inversion H. lra.
  - cbn [hand_out] in H. destruct (qeqb total 0); [inversion H; lra|].
    destruct (hand_out r (qsub total (qmin 1 total))) as [r1 t1] eqn:Hr. inversion H. subst.
    destruct (qmin1_facts total Ht) as [G0 [G1 G2]].
    apply IH in Hr; rewrite qsub_eq in *; lra.
Qed.

Lemma hand_out_bands_le : forall bs t bs' t', 0 <= t -> hand_out_bands bs t = (bs', t') -> t' <= t.
Proof.
  induction bs as [|b r IH]; intros t bs' t' Ht H.
  - cbn in H. inversion H. lra.
  - cbn [hand_out_bands] in H. destruct (qleb t 0); [inversion H; lra|].
    destruct (negb (existsb has_entry b)).
    + destruct (hand_out_bands r t) as [r1 t1] eqn:Hr. inversion H. subst. eapply IH; eauto.
    + destruct (divide_remaining b t) as [b1 t1] eqn:Hd.
      destruct (hand_out_bands r t1) as [r1 t2] eqn:Hr. inversion H. subst.
      pose proof (divide_remaining_spec _ _ _ _ Ht Hd) as [_ [_ H1]].
      unfold divide_remaining in Hd.
      destruct (hand_out (sort_entries (filter has_entry b)) t) as [es tt] eqn:Hh. inversion Hd. subst.
      pose proof (hand_out_le _ _ _ _ Ht Hh). pose proof (IH _ _ _ H1 Hr). lra.
Qed.

(** a band without pending remainders is not touched by the hand-out *)
Lemma hand_out_bands_single_idle o t :
  (forall x, In x o -> has_entry x = false) -> hand_out_bands [o] t = ([o], t).
Proof.
  intros H. cbn [hand_out_bands]. destruct (qleb t 0); [reflexivity|].
  assert (E : existsb has_entry o = false).
  { destruct (existsb has_entry o) eqn:E; [|reflexivity]. apply existsb_exists in E.
    destruct E as [x [Hx He]]. rewrite (H x Hx) in He. discriminate. }
  rewrite E. reflexivity.
Qed.

Definition prio_is (p : Z) (o : list rq) : Prop := forall x, In x o -> q_prio (fst x) = p.

Lemma prio_final p o o' : prio_is p o -> band_final o o' -> prio_is p o'.
Proof.
  intros H [_ E] x2 Hx2. destruct (E x2 Hx2) as [x1 [Hx1 [S _]]].
  apply static_fields in S. destruct S as [_ [S _]]. rewrite S. apply H. exact Hx1.
Qed.

Lemma prio_final_all ps bs bs' :
  Forall2 prio_is ps bs -> Forall2 band_final bs bs' -> Forall2 prio_is ps bs'.
Proof.
  intros H. revert bs'. induction H as [|p o ps bs Hp HF IH]; intros bs' H'; inversion H'; subst; constructor.
  - eapply prio_final; eassumption.
  - apply IH. assumption.
Qed.

Lemma sorted_split ps1 p ps2 :
  StronglySorted zgt (ps1 ++ p :: ps2) ->
  (forall z, In z ps1 -> (p < z)%Z) /\ (forall z, In z ps2 -> (z < p)%Z).
Proof.
  induction ps1 as [|a l IH]; cbn [app]; intros H; inversion H as [|? ? S F]; subst.
  - split; [intros z []|]. rewrite Forall_forall in F. exact F.
  - destruct (IH S) as [I1 I2]. split; [|exact I2].
    intros z [<-|Hz]; [|apply I1; exact Hz].
    rewrite Forall_forall in F. apply F. apply in_or_app. right. left. reflexivity.
Qed.

Lemma concat_prio ps bs : Forall2 prio_is ps bs ->
  forall y, In y (concat bs) -> In (q_prio (fst y)) ps.
Proof.
  induction 1 as [|p1 o1 ps bs H1 HF IH]; cbn [concat]; [intros y []|].
  intros y Hy. apply in_app_or in Hy as [Hy|Hy]; [left; symmetry; apply H1; exact Hy|right; apply IH; exact Hy].
Qed.

Lemma in_combine_app {A B} (l1 : list A) (l1' : list B) a b l2 l2' :
  length l1 = length l1' -> In (a, b) (combine (l1 ++ a :: l2) (l1' ++ b :: l2')).
Proof.
  revert l1'. induction l1 as [|x l IH]; intros [|y l'] H; cbn in H; try discriminate.
  - left. reflexivity.
  - cbn [app combine]. right. apply IH. injection H. auto.
Qed.

Lemma Forall2_len {A B} (R : A -> B -> Prop) l l' : Forall2 R l l' -> length l = length l'.
Proof. induction 1; cbn [length]; [reflexivity|f_equal; assumption]. Qed.

Lemma nat_Q_le n m : (n <= m)%nat -> nat_Q n <= nat_Q m.
Proof. intros H. unfold nat_Q. rewrite <- Zle_Qle. lia. Qed.

Lemma filter_length_le {A} (f : A -> bool) l : (length (filter f l) <= length l)%nat.
Proof. induction l as [|x l IH]; cbn [filter length]; [lia|]. destruct (f x); cbn [length]; lia. Qed.

Definition lower (p : Z) (q : queue) : bool := (q_prio q <? p)%Z.

Lemma lower_deserved T p qs qs1 :
  fresh qs -> Forall2 (deserved_step T) qs qs1 ->
  sum_fair (filter (lower p) qs1) == sum_phase1 T (filter (lower p) qs).
Proof.
  intros HF H. induction H as [|q q1 qs qs1 [S F] H2 IH]; [reflexivity|].
  inversion HF as [|? ? Hq HF']. subst. specialize (IH HF').
  cbn [filter].
  assert (E : lower p q1 = lower p q).
  { unfold lower. destruct (static_fields _ _ S) as [_ [P _]]. rewrite P. reflexivity. }
  rewrite E. destruct (lower p q); [|exact IH].
  rewrite sum_fair_cons, sum_phase1_cons. lra.
Qed.

Lemma band_nonempty q l : In q l -> 1 <= nat_Q (length (band (q_prio q) l)).
Proof.
  intros H. unfold band. rewrite map_length.
  assert (Hin : In q (filter (fun x => (q_prio x =? q_prio q)%Z) l))
    by (apply filter_In; split; [exact H|apply Z.eqb_refl]).
  destruct (filter (fun x => (q_prio x =? q_prio q)%Z) l) as [|a r]; [destruct Hin|].
  cbn [length]. rewrite nat_Q_S. pose proof (nat_Q_nonneg (length r)). lra.
Qed.

Lemma lower_bands_initial qs1 ps1 p ps2 :
  priorities qs1 = ps1 ++ p :: ps2 ->
  fairs (concat (map (fun p' => band p' qs1) ps2)) == sum_fair (filter (lower p) qs1).
Proof.
  intros Hps. pose proof (priorities_sorted qs1) as HS. rewrite Hps in HS.
  destruct (sorted_split _ _ _ HS) as [H1 H2].
  assert (ND : NoDup ps2).
  { apply sorted_nodup in HS. apply NoDup_remove_1 in HS. apply nodup_app_inv in HS. tauto. }
  rewrite bands_concat, fairs_inj. rewrite (sum_fair_perm _ _ (band_partition qs1 ps2 ND)).
  assert (E : filter (fun q => existsb (Z.eqb (q_prio q)) ps2) qs1 = filter (lower p) qs1).
  { apply filter_ext_in. intros q Hq. unfold lower.
    pose proof (priorities_in qs1 q Hq) as Hin. rewrite Hps in Hin.
    apply in_app_or in Hin. destruct Hin as [Hin|[Hin|Hin]].
    - specialize (H1 _ Hin). assert (Hf : (q_prio q <? p)%Z = false) by (apply Z.ltb_ge; lia).
      rewrite Hf. destruct (existsb (Z.eqb (q_prio q)) ps2) eqn:E; [|reflexivity].
      apply existsb_exists in E. destruct E as [z [Hz Ez]]. apply Z.eqb_eq in Ez. subst z.
      specialize (H2 _ Hz). lia.
    - rewrite <- Hin. rewrite Z.ltb_irrefl.
      destruct (existsb (Z.eqb p) ps2) eqn:E; [|reflexivity].
      apply existsb_exists in E. destruct E as [z [Hz Ez]]. apply Z.eqb_eq in Ez. subst z.
      specialize (H2 _ Hz). lia.
    - specialize (H2 _ Hin). assert (Hf : (q_prio q <? p)%Z = true) by (apply Z.ltb_lt; exact H2).
      rewrite Hf. apply existsb_exists. exists (q_prio q). split; [exact Hin|apply Z.eqb_refl]. }
  rewrite E. reflexivity.
Qed.

Lemma lower_bands_final ps1 p ps2 bs1 o bs2 :
  StronglySorted zgt (ps1 ++ p :: ps2) ->
  Forall2 prio_is ps1 bs1 -> prio_is p o -> Forall2 prio_is ps2 bs2 ->
  filter (lower p) (map fst (concat (bs1 ++ o :: bs2))) = map fst (concat bs2).
Proof.
  intros HS F1 Fo F2. destruct (sorted_split _ _ _ HS) as [H1 H2].
  rewrite concat_app. cbn [concat]. rewrite !map_app, !filter_app.
  rewrite (filter_none _ (map fst (concat bs1))).
  2:{ intros q Hq. apply in_map_iff in Hq as [y [<- Hy]]. unfold lower. apply Z.ltb_ge.
      specialize (H1 _ (concat_prio _ _ F1 y Hy)). lia. }
  rewrite (filter_none _ (map fst o)).
  2:{ intros q Hq. apply in_map_iff in Hq as [y [<- Hy]]. unfold lower. rewrite (Fo y Hy). apply Z.ltb_irrefl. }
  rewrite (filter_all _ (map fst (concat bs2))); [reflexivity|].
  intros q Hq. apply in_map_iff in Hq as [y [<- Hy]]. unfold lower. apply Z.ltb_lt.
  apply H2. apply (concat_prio _ _ F2 y Hy).
Qed.

Lemma app_eq_len {A} (l1 l1' l2 l2' : list A) :
  length l1 = length l1' -> l1 ++ l2 = l1' ++ l2' -> l1 = l1' /\ l2 = l2'.
Proof.
  revert l1'. induction l1 as [|x l IH]; intros [|y l'] HL H; cbn in HL; try discriminate.
  - split; [reflexivity|exact H].
  - cbn [app] in H. injection H as -> H. injection HL as HL. destruct (IH l' HL H) as [-> ->]. split; reflexivity.
Qed.

(** 6. While a queue of a priority band is unsatisfied with positive effective
    weight, all lower bands together receive less than one unit per queue of that
    band beyond their in-quota parts. *)
Theorem priority_bands T k qs out rem :
  fresh qs -> 0 <= k -> Forall (fun q => 0 <= q_weight q /\ 0 <= q_usage q) qs ->
  set_resource_share T k qs = Done (out, rem) ->
  forall q, In q out -> satisfied q = false ->
    0 < band_eff k (band (q_prio q) out) (q, None) ->
    sum_fair (filter (lower (q_prio q)) out) - sum_phase1 T (filter (lower (q_prio q)) qs)
    < nat_Q (length (band (q_prio q) out)).
Proof.
  intros HF Hk HWq. unfold set_resource_share.
  destruct (set_deserved T T qs) as [qs1 rem0] eqn:Hd.
  apply set_deserved_spec in Hd. destruct Hd as [D1 _].
  pose proof (fun p => lower_deserved T p qs qs1 HF D1) as Hlow0.
  unfold fresh in HF. rewrite Forall_forall in HF, HWq.
  destruct (qltb 0 rem0) eqn:Hrem.
  { apply qltb_iff in Hrem. assert (Hr0 : 0 <= rem0) by lra. unfold divide_over_quota.
    destruct (run_bands k (priorities qs1) qs1 rem0) as [[bs t]|] eqn:RB; [|discriminate].
    assert (Hok : forall p, (forall x, In x (band p qs1) -> q_prio (fst x) = p)
                            /\ WF5 (band p qs1) /\ Einv k (band p qs1)).
    { intros p. unfold band. split; [|split].
      - intros x Hx. apply in_map_iff in Hx as [a [<- Ha]]. apply filter_In in Ha as [_ Ha].
        apply Z.eqb_eq in Ha. exact Ha.
      - unfold WF5. apply Forall_forall. intros x Hx. apply in_map_iff in Hx as [a [<- Ha]].
        apply filter_In in Ha as [Ha _]. cbn [fst].
        destruct (Forall2_in_r _ _ _ _ D1 Ha) as [a0 [Ha0 [Sa Fa]]].
        destruct (static_fields _ _ Sa) as [_ [_ [_ [_ [Wa [_ Ua]]]]]]. rewrite Wa, Ua.
        destruct (HWq a0 Ha0) as [W0 U0]. split; [exact W0|]. split; [exact U0|].
        split; cbn [fst snd]; [|cbn; discriminate].
        rewrite (static_requestable _ _ Sa). pose proof (phase1_le_requestable T a0).
        pose proof (HF a0 Ha0). lra.
      - intros x Hx He. apply in_map_iff in Hx as [a [<- _]]. cbn in He. discriminate. }
    destruct (hand_out_bands bs t) as [bs' t'] eqn:Hh.
    intros H. inversion H. subst out rem. clear H.
    intros q Hq Hs Heff.
    (* the band of q *)
    pose proof (run_bands_exit k qs1 Hk Hok _ _ _ _ Hr0 RB) as [Ht [_ HE]].
    assert (HP : Forall2 prio_is (priorities qs1) bs).
    { clear -HE. induction HE as [|p o ps bs [Hp _] HF IH]; constructor; assumption. }
    pose proof (hand_out_bands_spec _ _ _ _ Ht Hh) as [HBF [_ Ht']].
    pose proof (prio_final_all _ _ _ HP HBF) as HP'.
    assert (Hpin : In (q_prio q) (priorities qs1)).
    { apply in_map_iff in Hq as [x [<- Hx]]. apply (concat_prio _ _ HP' x Hx). }
    set (p := q_prio q) in *.
    apply in_split in Hpin. destruct Hpin as [ps1 [ps2 Hps]].
    pose proof (priorities_sorted qs1) as HSo. rewrite Hps in HSo.
    (* decompose the two loops at that band *)
    rewrite Hps in RB. rewrite run_bands_app in RB.
    destruct (run_bands k ps1 qs1 rem0) as [[bs1 t1]|] eqn:RB1; [|discriminate].
    pose proof (run_bands_spec k qs1 ps1 rem0 Hr0) as S1. rewrite RB1 in S1. destruct S1 as [_ [_ Ht1]].
    cbn [run_bands] in RB.
    destruct (divide_up_to (S (length (band p qs1))) k (band p qs1) t1) as [[o tp]|] eqn:DP; [|discriminate].
    pose proof (divide_up_to_spec k (S (length (band p qs1))) (band p qs1) t1 Ht1) as SP. rewrite DP in SP. destruct SP as [EvP [_ Htp]].
    destruct (run_bands k ps2 qs1 tp) as [[bs2 t2]|] eqn:RB2; [|discriminate].
    inversion RB. subst bs t2. clear RB.
    pose proof (run_bands_spec k qs1 ps2 tp Htp) as S2. rewrite RB2 in S2. destruct S2 as [_ [Sum2 _]].
    rewrite hand_out_bands_app in Hh.
    destruct (hand_out_bands bs1 t) as [bs1' ta] eqn:H1.
    pose proof (hand_out_bands_spec _ _ _ _ Ht H1) as [BF1 [_ Hta]].
    pose proof (hand_out_bands_le _ _ _ _ Ht H1) as Lta.
    change (o :: bs2) with ([o] ++ bs2) in Hh. rewrite hand_out_bands_app in Hh.
    destruct (hand_out_bands [o] ta) as [lo tb] eqn:H2.
    pose proof (hand_out_bands_spec _ _ _ _ Hta H2) as [BFo [_ Htb]].
    pose proof (hand_out_bands_le _ _ _ _ Hta H2) as Ltb.
    destruct (hand_out_bands bs2 tb) as [bs2' tc] eqn:H3.
    pose proof (hand_out_bands_spec _ _ _ _ Htb H3) as [BF2 [Sum3 _]].
    inversion Hh. subst bs' tc. clear Hh.
    inversion BFo as [|? o' ? ? BFo1 BFo2]. subst. inversion BFo2. subst. clear BFo BFo2.
    change ([o'] ++ bs2') with (o' :: bs2') in *.
    (* priorities of the final bands *)
    rewrite Hps in HP.
    apply Forall2_app_inv_l in HP. destruct HP as [c1 [c2 [P1 [P2 Ec]]]].
    inversion P2 as [|? ? ? ? Po P3]. subst.
    pose proof (run_bands_exit k qs1 Hk Hok _ _ _ _ Hr0 RB1) as [_ [_ HE1]].
    apply app_eq_len in Ec.
    2:{ rewrite <- (Forall2_len _ _ _ P1). symmetry. apply (Forall2_len _ _ _ HE1). }
    destruct Ec as [<- Ec]. injection Ec as <- <-.
    pose proof (prio_final_all _ _ _ P1 BF1) as P1'.
    pose proof (prio_final _ _ _ Po BFo1) as Po'.
    pose proof (prio_final_all _ _ _ P3 BF2) as P3'.
    (* the final band of q is o' *)
    assert (Hsel : filter (fun x => (q_prio x =? p)%Z) (map fst (concat (bs1' ++ o' :: bs2'))) = map fst o').
    { apply (band_select (ps1 ++ p :: ps2) (bs1' ++ o' :: bs2')).
      - apply Forall2_app; [exact P1'|constructor; assumption].
      - apply sorted_nodup. exact HSo.
      - apply in_combine_app. apply (Forall2_len _ _ _ P1'). }
    assert (Hlen : length (band p (map fst (concat (bs1' ++ o' :: bs2')))) = length o).
    { rewrite <- (map_length fst (band _ _)), band_fst, Hsel, map_length.
      destruct BFo1 as [Pm _]. apply Permutation_length in Pm. rewrite !map_length in Pm. exact Pm. }
    rewrite Hlen.
    (* what the lower bands received *)
    rewrite (lower_bands_final ps1 p ps2 bs1' o' bs2' HSo P1' Po' P3').
    rewrite <- fairs_sum_fair. rewrite <- Hlow0. rewrite <- (lower_bands_initial qs1 ps1 p ps2 Hps).
    assert (Hgain : fairs (concat bs2') - fairs (concat (map (fun p' => band p' qs1) ps2)) <= tp) by lra.
    (* how the band's rounds ended *)
    destruct (Hok p) as [_ [HWFp HEp]].
    destruct (divide_up_to_exit k Hk _ _ _ _ _ Ht1 HWFp HEp DP) as [_ [_ Hex]].
    assert (Hne : 1 <= nat_Q (length o)).
    { rewrite <- Hlen. apply band_nonempty. exact Hq. }
    destruct Hex as [[Hnoe Hidle]|[Hz|[_ Hlt]]].
    - exfalso. rewrite (hand_out_bands_single_idle o ta Hnoe) in H2. inversion H2. subst o' tb.
      assert (Hqo : In q (map fst o)).
      { rewrite <- Hsel. apply filter_In. split; [exact Hq|apply Z.eqb_refl]. }
      apply in_map_iff in Hqo as [x [Ex Hx]].
      assert (Hsx : satisfied (fst x) = false) by (rewrite Ex; exact Hs).
      specialize (Hidle x Hx Hsx). unfold band_eff in *. cbn [fst] in Heff. rewrite Ex in Hidle.
      rewrite (total_weights_fst (band p (map fst (concat (bs1' ++ o :: bs2')))) o) in Heff.
      + lra.
      + rewrite band_fst. exact Hsel.
    - lra.
    - assert (entries o <= nat_Q (length o)) by (apply nat_Q_le, filter_length_le). lra. }
  intros H. inversion H. subst out rem. clear H. intros q Hq _ _.
  rewrite Hlow0. pose proof (band_nonempty q qs1 Hq). lra.
Qed.

(** * Non-vacuity of the hypotheses of clauses 5-7 *)
Definition ex_hi : queue := mkQ 1 1 0 0 unlimited 1 100 0 0.
Definition ex_lo : queue := mkQ 2 0 0 0 unlimited 2 100 0 0.
Definition ex_zero : queue := mkQ 1 0 0 0 unlimited 0 100 0 0.
Lemma ex_clause_hypotheses :
  (* 6: an unsatisfied queue with positive effective weight above a lower band *)
  (exists out rem q, set_resource_share 10 0 [ex_hi; ex_lo] = Done (out, rem) /\ In q out
                     /\ satisfied q = false /\ 0 < band_eff 0 (band (q_prio q) out) (q, None)
                     /\ filter (lower (q_prio q)) out <> [])
  (* 5: surplus left over next to an unsatisfied queue *)
  /\ (exists out rem q, set_resource_share 10 0 [ex_zero] = Done (out, rem) /\ 0 < rem
                        /\ In q out /\ satisfied q = false)
  (* 7: two queues in the same situation with different weights *)
  /\ (exists out rem q1 q2, set_resource_share 10 0 [ex_lo; ex_zero] = Done (out, rem)
                            /\ In q1 out /\ In q2 out /\ same_situation q1 q2 = true
                            /\ q_weight q1 < q_weight q2).
Proof.
  split; [|split].
  - eexists. eexists. exists (mkQ 1 1 0 0 unlimited 1 100 0 10).
    split; [vm_compute; reflexivity|]. split; [left; reflexivity|].
    split; [reflexivity|]. split; [vm_compute; reflexivity|]. vm_compute. discriminate.
  - eexists. eexists. exists ex_zero.
    split; [vm_compute; reflexivity|]. split; [vm_compute; reflexivity|].
    split; [left; reflexivity|reflexivity].
  - eexists. eexists. exists ex_zero, (mkQ 2 0 0 0 unlimited 2 100 0 10).
    split; [vm_compute; reflexivity|]. split; [right; left; reflexivity|].
    split; [left; reflexivity|]. split; vm_compute; reflexivity.
Qed.
