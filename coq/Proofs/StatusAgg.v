(** Proofs for C20 (status controllers): Model/StatusAgg.v against
    Model/StatusAggSpec.v. *)
From Coq Require Import List ZArith PArith Bool Arith Lia.
From KaiV Require Import Model.StatusAgg Model.StatusAggSpec.
Import ListNotations.
Set Default Timeout 60.
Open Scope Z_scope.

(** * Resource vectors form a commutative monoid *)

Lemma vadd_nil_r : forall a, vadd a [] = a.
Proof. destruct a; reflexivity. Qed.

Lemma vadd_nil_l : forall a, vadd [] a = a.
Proof. reflexivity. Qed.

Lemma vadd_comm : forall a b, vadd a b = vadd b a.
Proof.
  induction a as [|x a IH]; intros [|y b]; cbn [vadd]; try reflexivity.
  rewrite IH. f_equal. lia.
Qed.

Lemma vadd_assoc : forall a b c, vadd a (vadd b c) = vadd (vadd a b) c.
Proof.
  induction a as [|x a IH]; intros [|y b] [|z c]; cbn [vadd]; try reflexivity.
  rewrite IH. f_equal. lia.
Qed.

Lemma vec_eqb_eq : forall a b, vec_eqb a b = true <-> a = b.
Proof.
  induction a as [|x a IH]; intros [|y b]; cbn [vec_eqb]; split; intro H; try reflexivity; try discriminate.
  - apply andb_true_iff in H. destruct H as [H1 H2]. apply Z.eqb_eq in H1. apply IH in H2. subst. reflexivity.
  - inversion H; subst. apply andb_true_iff. split. apply Z.eqb_refl. apply IH. reflexivity.
Qed.

Lemma vec_eqb_refl : forall a, vec_eqb a a = true.
Proof. intro a. apply vec_eqb_eq. reflexivity. Qed.

Lemma radd_comm : forall a b, radd a b = radd b a.
Proof.
  intros a b. unfold radd.
  rewrite (vadd_comm (s_alloc a)), (vadd_comm (s_anp a)), (vadd_comm (s_req a)). reflexivity.
Qed.

Lemma radd_assoc : forall a b c, radd a (radd b c) = radd (radd a b) c.
Proof.
  intros a b c. unfold radd. cbn [s_alloc s_anp s_req].
  rewrite !vadd_assoc. reflexivity.
Qed.

Lemma radd_zero_l : forall a, radd rzero a = a.
Proof. intros [x y z]. reflexivity. Qed.

Lemma radd_zero_r : forall a, radd a rzero = a.
Proof. intros a. rewrite radd_comm. apply radd_zero_l. Qed.

Lemma rstatus_eqb_eq : forall a b, rstatus_eqb a b = true <-> a = b.
Proof.
  intros [a1 a2 a3] [b1 b2 b3]. unfold rstatus_eqb. cbn [s_alloc s_anp s_req].
  rewrite !andb_true_iff, !vec_eqb_eq. split.
  - intros [[H1 H2] H3]. subst. reflexivity.
  - intro H. inversion H. auto.
Qed.

Lemma rstatus_eqb_refl : forall a, rstatus_eqb a a = true.
Proof. intro a. apply rstatus_eqb_eq. reflexivity. Qed.

Lemma pos_list_eqb_eq : forall a b, pos_list_eqb a b = true <-> a = b.
Proof.
  induction a as [|x a IH]; intros [|y b]; cbn [pos_list_eqb]; split; intro H; try reflexivity; try discriminate.
  - apply andb_true_iff in H. destruct H as [H1 H2]. apply Pos.eqb_eq in H1. apply IH in H2. subst. reflexivity.
  - inversion H; subst. apply andb_true_iff. split. apply Pos.eqb_refl. apply IH. reflexivity.
Qed.

(** * Pod groups *)

Lemma pod_scheduled_spec : forall cs,
  pod_scheduled cs = match first_sched_cond cs with Some true => true | _ => false end.
Proof.
  induction cs as [|[s st] r IH]; [reflexivity|].
  unfold first_sched_cond in *. cbn [pod_scheduled find fst].
  destruct s; [destruct st; reflexivity | exact IH].
Qed.

Lemma is_allocated_spec : forall p, is_allocated p = counts_as_allocated p.
Proof.
  intro p. unfold is_allocated, counts_as_allocated.
  destruct (p_phase p); try reflexivity. apply pod_scheduled_spec.
Qed.

Lemma is_active_spec : forall p, is_active p = counts_as_requested p.
Proof. reflexivity. Qed.

Lemma add_pods_sums : forall pods m m',
  add_pods m pods = Some m' ->
  m_preemptible m' = m_preemptible m
  /\ m_alloc m' = vadd (m_alloc m) (true_allocated pods)
  /\ m_req m' = vadd (m_req m) (true_requested pods).
Proof.
  induction pods as [|p r IH]; intros m m' H; cbn [add_pods] in H.
  - inversion H; subst. unfold true_allocated, true_requested. cbn. rewrite !vadd_nil_r. auto.
  - destruct (pod_metadata p) as [pm|] eqn:Hpm; [|discriminate].
    apply IH in H. destruct H as (Hp & Ha & Hr).
    cbn [add_pod_metadata m_preemptible m_alloc m_req] in Hp, Ha, Hr.
    split; [exact Hp|].
    unfold pod_metadata in Hpm.
    destruct (is_active p && p_req_err p); [discriminate|].
    destruct (is_allocated p && p_alloc_err p); [discriminate|].
    inversion Hpm; subst pm; clear Hpm. cbn [fst snd] in Ha, Hr.
    unfold true_allocated, true_requested in *. cbn [filter].
    rewrite <- is_allocated_spec, <- is_active_spec.
    split.
    + rewrite Ha. destruct (is_allocated p); cbn [map vsum fold_right].
      * fold (vsum (map p_alloc (filter counts_as_allocated r))). rewrite vadd_assoc. reflexivity.
      * rewrite vadd_nil_r. reflexivity.
    + rewrite Hr. destruct (is_active p); cbn [map vsum fold_right].
      * fold (vsum (map p_req (filter counts_as_requested r))). rewrite vadd_assoc. reflexivity.
      * rewrite vadd_nil_r. reflexivity.
Qed.

Lemma calc_metadata_sums : forall pre pods m,
  calc_metadata pre pods = Some m ->
  m_preemptible m = pre /\ m_alloc m = true_allocated pods /\ m_req m = true_requested pods.
Proof.
  intros pre pods m H. apply add_pods_sums in H. exact H.
Qed.

(** The statement of C20 clause 1 for a given preemptibility rule: whatever the
    previous status, a successful reconcile stores the true sums with respect
    to the CURRENT preemptibility. *)
Definition podgroup_sums_stmt (rule : bool -> vec -> vec -> vec) : Prop :=
  forall classes pods g st,
    pg_reconcile_with rule classes pods g = Some st ->
    st = true_pg_status (current_preemptible classes g) pods.

Lemma reconcile_shape : forall rule classes pods g st,
  pg_reconcile_with rule classes pods g = Some st ->
  st = {| s_alloc := true_allocated pods;
          s_anp := rule (current_preemptible classes g) (s_anp (g_status g)) (true_allocated pods);
          s_req := true_requested pods |}.
Proof.
  intros rule classes pods g st H. unfold pg_reconcile_with in H.
  fold (current_preemptible classes g) in H.
  destruct (calc_metadata (current_preemptible classes g) pods) as [m|] eqn:Hm; [|discriminate].
  apply calc_metadata_sums in Hm. destruct Hm as (Hp & Ha & Hr).
  inversion H; subst st. unfold status_with_metadata. rewrite Hp, Ha, Hr. reflexivity.
Qed.

Lemma podgroup_sums_fixed : podgroup_sums_stmt anp_rule_fixed.
Proof.
  intros classes pods g st H. apply reconcile_shape in H. subst st.
  unfold true_pg_status, anp_rule_fixed. reflexivity.
Qed.

(** For the rule as written the statement holds exactly when a preemptible
    group's previous AllocatedNonPreemptible was already empty. *)
Lemma podgroup_sums_v0_iff : forall classes pods g st,
  pg_reconcile_with anp_rule_v0 classes pods g = Some st ->
  (st = true_pg_status (current_preemptible classes g) pods
   <-> (current_preemptible classes g = true -> s_anp (g_status g) = [])).
Proof.
  intros classes pods g st H. apply reconcile_shape in H. subst st.
  unfold true_pg_status, anp_rule_v0.
  destruct (current_preemptible classes g); split; intro H.
  - intros _. inversion H. reflexivity.
  - rewrite (H eq_refl). reflexivity.
  - intro; discriminate.
  - reflexivity.
Qed.

Definition podgroup_sums_partial_stmt (rule : bool -> vec -> vec -> vec) : Prop :=
  forall classes pods g st,
    pg_reconcile_with rule classes pods g = Some st ->
    (current_preemptible classes g = true -> s_anp (g_status g) = []) ->
    st = true_pg_status (current_preemptible classes g) pods.

Lemma podgroup_sums_partial_v0 : podgroup_sums_partial_stmt anp_rule_v0.
Proof.
  intros classes pods g st H Hold. apply (podgroup_sums_v0_iff _ _ _ _ H). exact Hold.
Qed.

Lemma podgroup_sums_partial_fixed : podgroup_sums_partial_stmt anp_rule_fixed.
Proof. intros classes pods g st H _. apply podgroup_sums_fixed. exact H. Qed.

Lemma anp_rule_cases : anp_rule = anp_rule_v0 \/ anp_rule = anp_rule_fixed.
Proof. first [left; reflexivity | right; reflexivity]. Qed.

(** holds whichever way the switch stands *)
Lemma podgroup_sums_partial_current : podgroup_sums_partial_stmt anp_rule.
Proof.
  destruct anp_rule_cases as [E|E]; rewrite E.
  - exact podgroup_sums_partial_v0.
  - exact podgroup_sums_partial_fixed.
Qed.

(** once the switch is flipped the full statement is available for the current model *)
Lemma podgroup_sums_if_fixed : anp_rule = anp_rule_fixed -> podgroup_sums_stmt anp_rule.
Proof. intro E. rewrite E. exact podgroup_sums_fixed. Qed.

(** ** The refutation: non-preemptible -> preemptible flip *)

Definition ex_pod : pod :=
  {| p_phase := Running; p_conds := []; p_req := [1000; 0; 2000]; p_req_err := false;
     p_alloc := [1000; 0; 2000]; p_alloc_err := false |}.
Definition ex_classes : list prioclass := [{| pc_name := 1%positive; pc_value := 50; pc_default := false |}].
Definition ex_pg0 : podgroup := {| g_spec := SpecNonPreemptible; g_prio_class := 1%positive; g_status := rzero |}.
(** first reconcile while non-preemptible, then the spec flips to preemptible *)
Definition ex_pg1 : podgroup := pg_step_with anp_rule_v0 ex_classes [ex_pod] ex_pg0.
Definition ex_pg2 : podgroup :=
  {| g_spec := SpecPreemptible; g_prio_class := g_prio_class ex_pg1; g_status := g_status ex_pg1 |}.

Lemma flip_witness :
  g_status ex_pg1 = true_pg_status false [ex_pod]
  /\ current_preemptible ex_classes ex_pg2 = true
  /\ pg_reconcile_with anp_rule_v0 ex_classes [ex_pod] ex_pg2
     = Some {| s_alloc := [1000; 0; 2000]; s_anp := [1000; 0; 2000]; s_req := [1000; 0; 2000] |}
  /\ true_pg_status true [ex_pod]
     = {| s_alloc := [1000; 0; 2000]; s_anp := []; s_req := [1000; 0; 2000] |}.
Proof. vm_compute. repeat split. Qed.

Lemma podgroup_sums_refuted_v0 :
  exists classes pods g st,
    pg_reconcile_with anp_rule_v0 classes pods g = Some st
    /\ st <> true_pg_status (current_preemptible classes g) pods.
Proof.
  exists ex_classes, [ex_pod], ex_pg2.
  eexists. split; [vm_compute; reflexivity|].
  vm_compute. intro H. discriminate H.
Qed.

(** the same history on the current model (switch at [anp_rule_fixed] since /repo
    5182ff3): the stale value is cleared, the stored status is the true one, and
    it stays the true one when the group flips back *)
Lemma flip_repaired :
  anp_rule = anp_rule_fixed
  /\ s_anp (g_status ex_pg2) = [1000; 0; 2000]
  /\ current_preemptible ex_classes ex_pg2 = true
  /\ pg_reconcile ex_classes [ex_pod] ex_pg2 = Some (true_pg_status true [ex_pod])
  /\ s_anp (true_pg_status true [ex_pod]) = []
  /\ pg_writes ex_classes [ex_pod] ex_pg2 = true
  /\ pg_reconcile ex_classes [ex_pod]
       {| g_spec := SpecNonPreemptible; g_prio_class := g_prio_class ex_pg2;
          g_status := true_pg_status true [ex_pod] |}
     = Some (true_pg_status false [ex_pod]).
Proof. vm_compute. repeat split. Qed.

Lemma podgroup_sums_stmt_v0_false : ~ podgroup_sums_stmt anp_rule_v0.
Proof.
  intro H. destruct podgroup_sums_refuted_v0 as (cl & pods & g & st & Hr & Hne).
  apply Hne. apply H. exact Hr.
Qed.

(** ** Idempotence of the pod-group reconcile *)

Definition rule_idem (rule : bool -> vec -> vec -> vec) : Prop :=
  forall p o a, rule p (rule p o a) a = rule p o a.

Lemma anp_rule_v0_idem : rule_idem anp_rule_v0.
Proof. intros p o a. destruct p; reflexivity. Qed.
Lemma anp_rule_fixed_idem : rule_idem anp_rule_fixed.
Proof. intros p o a. destruct p; reflexivity. Qed.
Lemma anp_rule_idem : rule_idem anp_rule.
Proof. intros p o a. destruct p; reflexivity. Qed.

Lemma current_preemptible_set_status : forall classes g st,
  current_preemptible classes (set_status g st) = current_preemptible classes g.
Proof. reflexivity. Qed.

Lemma pg_second_reconcile_same : forall rule classes pods g,
  rule_idem rule ->
  pg_step_with rule classes pods (pg_step_with rule classes pods g) = pg_step_with rule classes pods g
  /\ pg_writes_with rule classes pods (pg_step_with rule classes pods g) = false.
Proof.
  intros rule classes pods g Hid.
  destruct (pg_reconcile_with rule classes pods g) as [st|] eqn:H1.
  - assert (Hstep : pg_step_with rule classes pods g = set_status g st).
    { unfold pg_step_with. rewrite H1. reflexivity. }
    rewrite Hstep.
    pose proof (reconcile_shape _ _ _ _ _ H1) as Hs.
    unfold pg_step_with, pg_writes_with.
    destruct (pg_reconcile_with rule classes pods (set_status g st)) as [st2|] eqn:H2.
    + pose proof (reconcile_shape _ _ _ _ _ H2) as Hs2.
      rewrite current_preemptible_set_status in Hs2. cbn [set_status g_status] in Hs2.
      assert (E : st2 = st).
      { rewrite Hs2. rewrite Hs at 2. rewrite Hs at 1. cbn [s_anp]. rewrite Hid. reflexivity. }
      rewrite E. split.
      * reflexivity.
      * cbn [set_status g_status]. rewrite rstatus_eqb_refl. reflexivity.
    + split; reflexivity.
  - assert (Hstep : pg_step_with rule classes pods g = g).
    { unfold pg_step_with. rewrite H1. reflexivity. }
    rewrite Hstep. unfold pg_writes_with. rewrite Hstep, H1. split; reflexivity.
Qed.

(** for the model as it stands, whichever way the switch is set *)
Lemma pg_second_reconcile_current : forall classes pods g,
  pg_step classes pods (pg_step classes pods g) = pg_step classes pods g
  /\ pg_writes classes pods (pg_step classes pods g) = false.
Proof. intros. apply pg_second_reconcile_same. exact anp_rule_idem. Qed.

(** * Sums over filtered lists *)

Lemma rsum_cons : forall x l, rsum (x :: l) = radd x (rsum l).
Proof. reflexivity. Qed.

Lemma existsb_ext_in : forall {A} (f g : A -> bool) l,
  (forall x, In x l -> f x = g x) -> existsb f l = existsb g l.
Proof.
  intros A f g. induction l as [|x l IH]; intro H; [reflexivity|].
  cbn [existsb]. rewrite (H x (or_introl eq_refl)). rewrite IH; [reflexivity|].
  intros y Hy. apply H. right. exact Hy.
Qed.

Lemma forallb_ext_all : forall {A} (f g : A -> bool) l,
  (forall x, f x = g x) -> forallb f l = forallb g l.
Proof.
  intros A f g l H. induction l as [|x l IH]; [reflexivity|]. cbn [forallb]. rewrite H, IH. reflexivity.
Qed.

Lemma existsb_orb : forall {A} (f g : A -> bool) l,
  existsb (fun x => f x || g x) l = existsb f l || existsb g l.
Proof.
  intros A f g. induction l as [|x l IH]; [reflexivity|].
  cbn [existsb]. rewrite IH. destruct (f x), (g x), (existsb f l), (existsb g l); reflexivity.
Qed.

Lemma existsb_false_const : forall {A} (l : list A), existsb (fun _ => false) l = false.
Proof. induction l as [|x l IH]; [reflexivity|exact IH]. Qed.

Lemma filter_false_const : forall {A} (l : list A), filter (fun _ => false) l = [].
Proof. induction l as [|x l IH]; [reflexivity|exact IH]. Qed.

Section Sums.
  Context {X : Type} (f : X -> rstatus).

  Lemma fold_cond_sum : forall (P : X -> bool) l acc,
    fold_left (fun acc x => if P x then radd (f x) acc else acc) l acc
    = radd (rsum (map f (filter P l))) acc.
  Proof.
    intros P. induction l as [|x l IH]; intro acc; cbn [fold_left filter].
    - cbn [map]. unfold rsum. cbn [fold_right]. rewrite radd_zero_l. reflexivity.
    - rewrite IH. destruct (P x); [|reflexivity].
      cbn [map]. rewrite rsum_cons. rewrite radd_assoc.
      rewrite (radd_comm (rsum (map f (filter P l))) (f x)). reflexivity.
  Qed.

  Lemma rsum_filter_or : forall (P Q : X -> bool) l,
    (forall x, In x l -> P x = true -> Q x = false) ->
    radd (rsum (map f (filter P l))) (rsum (map f (filter Q l)))
    = rsum (map f (filter (fun x => P x || Q x) l)).
  Proof.
    intros P Q. induction l as [|x l IH]; intro H.
    - cbn. reflexivity.
    - assert (IH' := IH (fun y Hy => H y (or_intror Hy))). clear IH.
      cbn [filter]. destruct (P x) eqn:HP.
      + rewrite (H x (or_introl eq_refl) HP). cbn [orb map]. rewrite !rsum_cons.
        rewrite <- IH'. rewrite radd_assoc. reflexivity.
      + cbn [orb]. destruct (Q x); cbn [map]; [|exact IH'].
        rewrite !rsum_cons. rewrite <- IH'.
        rewrite radd_assoc. rewrite (radd_comm (rsum (map f (filter P l))) (f x)).
        rewrite <- radd_assoc. reflexivity.
  Qed.

  Fixpoint disj_family {C} (P : C -> X -> bool) (cs : list C) (l : list X) : Prop :=
    match cs with
    | [] => True
    | c :: r => (forall x, In x l -> P c x = true -> existsb (fun c' => P c' x) r = false)
                /\ disj_family P r l
    end.

  Lemma rsum_exchange : forall {C} (P : C -> X -> bool) (cs : list C) l,
    disj_family P cs l ->
    rsum (map (fun c => rsum (map f (filter (P c) l))) cs)
    = rsum (map f (filter (fun x => existsb (fun c => P c x) cs) l)).
  Proof.
    intros C P. induction cs as [|c r IH]; intros l H.
    - cbn [map existsb]. rewrite filter_false_const. reflexivity.
    - destruct H as [H1 H2]. cbn [map existsb]. rewrite rsum_cons. rewrite (IH l H2).
      apply rsum_filter_or. exact H1.
  Qed.
End Sums.

(** * Skeleton of a forest: names and parents *)

Definition skel (q : queue) : positive * option positive := (q_name q, q_parent q).

Lemma find_queue_skel : forall n qs qs', map skel qs = map skel qs' ->
  option_map skel (find_queue n qs) = option_map skel (find_queue n qs').
Proof.
  intros n. induction qs as [|a qs IH]; intros [|b qs'] H; try discriminate; [reflexivity|].
  cbn [map] in H. inversion H as [[Hn Hp Hr]]. unfold find_queue in *. cbn [find].
  rewrite Hn. destruct (Pos.eqb (q_name b) n).
  - cbn [option_map]. unfold skel. rewrite Hn, Hp. reflexivity.
  - apply IH. exact Hr.
Qed.

Lemma has_name_skel : forall n qs qs', map skel qs = map skel qs' -> has_name n qs = has_name n qs'.
Proof.
  intros n. induction qs as [|a qs IH]; intros [|b qs'] H; try discriminate; [reflexivity|].
  cbn [map] in H. inversion H as [[Hn Hp Hr]]. unfold has_name in *. cbn [existsb].
  rewrite Hn. rewrite (IH qs' Hr). reflexivity.
Qed.

Lemma up_skel : forall qs qs' m, map skel qs = map skel qs' -> up qs m = up qs' m.
Proof.
  intros qs qs' m H. unfold up.
  pose proof (find_queue_skel m qs qs' H) as Hf.
  destruct (find_queue m qs) as [q|], (find_queue m qs') as [q'|]; cbn [option_map] in Hf; try discriminate; [|reflexivity].
  inversion Hf as [[Hn Hp]]. rewrite Hp. destruct (q_parent q') as [p|]; [|reflexivity].
  rewrite (has_name_skel p qs qs' H). reflexivity.
Qed.

Lemma depth_fuel_skel : forall qs qs', map skel qs = map skel qs' ->
  forall f n, depth_fuel f qs n = depth_fuel f qs' n.
Proof.
  intros qs qs' H. induction f as [|f IH]; intro n; [reflexivity|].
  cbn [depth_fuel]. rewrite (up_skel qs qs' n H).
  pose proof (find_queue_skel n qs qs' H) as Hf.
  destruct (find_queue n qs), (find_queue n qs'); cbn [option_map] in Hf; try discriminate; [|reflexivity].
  destruct (up qs' n); [rewrite IH|]; reflexivity.
Qed.

Lemma skel_length : forall qs qs', map skel qs = map skel qs' -> length qs = length qs'.
Proof. intros qs qs' H. rewrite <- (map_length skel qs), H, map_length. reflexivity. Qed.

Lemma depth_skel : forall qs qs' n, map skel qs = map skel qs' -> depth qs n = depth qs' n.
Proof. intros qs qs' n H. unfold depth. rewrite (skel_length _ _ H). apply depth_fuel_skel. exact H. Qed.

Lemma chain_hits_skel : forall qs qs', map skel qs = map skel qs' ->
  forall f a m, chain_hits f qs a m = chain_hits f qs' a m.
Proof.
  intros qs qs' H. induction f as [|f IH]; intros a m; cbn [chain_hits]; [reflexivity|].
  rewrite (up_skel qs qs' m H). destruct (up qs' m); [rewrite IH|]; reflexivity.
Qed.

Lemma in_subtree_skel : forall qs qs' a m, map skel qs = map skel qs' -> in_subtree qs a m = in_subtree qs' a m.
Proof. intros. unfold in_subtree. rewrite (skel_length _ _ H). apply chain_hits_skel. exact H. Qed.

Lemma names_skel : forall qs qs', map skel qs = map skel qs' -> names qs = names qs'.
Proof.
  intros qs qs' H. unfold names.
  assert (E : forall l, map q_name l = map fst (map skel l)).
  { intro l. rewrite map_map. reflexivity. }
  rewrite !E, H. reflexivity.
Qed.

Lemma forallb_names : forall (g : positive -> bool) qs,
  forallb (fun q => g (q_name q)) qs = forallb g (names qs).
Proof. intros g. induction qs as [|q qs IH]; [reflexivity|]. cbn [forallb names map]. unfold names in IH. rewrite IH. reflexivity. Qed.

Lemma wf_skel : forall qs qs', map skel qs = map skel qs' -> wf_forest qs = wf_forest qs'.
Proof.
  intros qs qs' H. unfold wf_forest.
  rewrite (forallb_names (fun n => is_some (depth qs n)) qs).
  rewrite (forallb_names (fun n => is_some (depth qs' n)) qs').
  rewrite (names_skel _ _ H). f_equal.
  apply forallb_ext_all. intro n. rewrite (depth_skel _ _ n H). reflexivity.
Qed.

Lemma skel_in : forall qs qs', map skel qs = map skel qs' ->
  forall q', In q' qs' -> exists q, In q qs /\ q_name q = q_name q' /\ q_parent q = q_parent q'.
Proof.
  intros qs qs' H q' Hin.
  assert (Hs : In (skel q') (map skel qs)) by (rewrite H; apply in_map; exact Hin).
  apply in_map_iff in Hs. destruct Hs as (q & Hq & Hin'). exists q.
  unfold skel in Hq. inversion Hq. auto.
Qed.

Lemma skel_reconcile : forall n c, map skel (c_queues (q_reconcile n c)) = map skel (c_queues c).
Proof.
  intros n c. unfold q_reconcile. cbn [c_queues]. rewrite map_map. apply map_ext.
  intro q. destruct (Pos.eqb (q_name q) n); reflexivity.
Qed.

Lemma pgs_reconcile : forall n c, c_pgs (q_reconcile n c) = c_pgs c.
Proof. reflexivity. Qed.

Lemma q_run_app : forall a b c, q_run (a ++ b) c = q_run b (q_run a c).
Proof. intros. unfold q_run. apply fold_left_app. Qed.

Lemma skel_run : forall evs c, map skel (c_queues (q_run evs c)) = map skel (c_queues c).
Proof.
  induction evs as [|e evs IH]; intro c; [reflexivity|].
  change (q_run (e :: evs) c) with (q_run evs (q_reconcile e c)). rewrite IH. apply skel_reconcile.
Qed.

Lemma pgs_run : forall evs c, c_pgs (q_run evs c) = c_pgs c.
Proof.
  induction evs as [|e evs IH]; intro c; [reflexivity|].
  change (q_run (e :: evs) c) with (q_run evs (q_reconcile e c)). rewrite IH. reflexivity.
Qed.

Lemma true_agg_skel : forall c c' a,
  map skel (c_queues c) = map skel (c_queues c') -> c_pgs c = c_pgs c' -> true_agg c a = true_agg c' a.
Proof.
  intros c c' a Hs Hp. unfold true_agg. rewrite Hp. f_equal. f_equal. apply filter_ext.
  intro g. unfold pg_in_subtree. destruct (pg_queue g); [|reflexivity]. apply in_subtree_skel. exact Hs.
Qed.

(** * Well-formed forests *)

Lemma nodup_pos_NoDup : forall l, nodup_pos l = true -> NoDup l.
Proof.
  induction l as [|x l IH]; intro H; [constructor|].
  cbn [nodup_pos] in H. apply andb_true_iff in H. destruct H as [H1 H2].
  constructor; [|apply IH; exact H2].
  intro Hin. apply negb_true_iff in H1.
  assert (existsb (Pos.eqb x) l = true).
  { apply existsb_exists. exists x. split; [exact Hin|apply Pos.eqb_refl]. }
  congruence.
Qed.

Lemma find_queue_In : forall n qs q, find_queue n qs = Some q -> In q qs /\ q_name q = n.
Proof.
  intros n qs q H. unfold find_queue in H. apply find_some in H. destruct H as [H1 H2].
  split; [exact H1|]. apply Pos.eqb_eq. exact H2.
Qed.

Lemma find_queue_nodup : forall qs q, NoDup (names qs) -> In q qs -> find_queue (q_name q) qs = Some q.
Proof.
  induction qs as [|a qs IH]; intros q Hnd Hin; [destruct Hin|].
  cbn [names map] in Hnd. inversion Hnd as [|x l Hnotin Hnd']; subst.
  unfold find_queue. cbn [find]. destruct Hin as [E|Hin].
  - subst a. rewrite Pos.eqb_refl. reflexivity.
  - destruct (Pos.eqb (q_name a) (q_name q)) eqn:E.
    + apply Pos.eqb_eq in E. exfalso. apply Hnotin. rewrite E. apply in_map. exact Hin.
    + apply IH; assumption.
Qed.

Lemma has_name_iff : forall n qs, has_name n qs = true <-> exists q, In q qs /\ q_name q = n.
Proof.
  intros n qs. unfold has_name. rewrite existsb_exists. split; intros (q & H1 & H2); exists q; split; auto.
  - apply Pos.eqb_eq. exact H2.
  - apply Pos.eqb_eq. exact H2.
Qed.

Lemma find_queue_none : forall n qs, find_queue n qs = None -> has_name n qs = false.
Proof.
  intros n qs H. destruct (has_name n qs) eqn:E; [|reflexivity].
  apply has_name_iff in E. destruct E as (q & Hin & Hn).
  unfold find_queue in H. pose proof (find_none _ _ H q Hin) as Hf. cbn in Hf.
  rewrite Hn, Pos.eqb_refl in Hf. discriminate.
Qed.

Lemma depth_fuel_mono : forall qs f n d, depth_fuel f qs n = Some d ->
  forall f', (f <= f')%nat -> depth_fuel f' qs n = Some d.
Proof.
  intros qs. induction f as [|f IH]; intros n d H f' Hle; [discriminate|].
  destruct f' as [|f']; [lia|]. cbn [depth_fuel] in *.
  destruct (find_queue n qs); [|discriminate].
  destruct (up qs n) as [p|]; [|exact H].
  destruct (depth_fuel f qs p) as [dp|] eqn:E; [|discriminate].
  rewrite (IH p dp E f'); [exact H|lia].
Qed.

Lemma depth_fuel_lt : forall qs f n d, depth_fuel f qs n = Some d -> (d < f)%nat.
Proof.
  intros qs. induction f as [|f IH]; intros n d H; [discriminate|].
  cbn [depth_fuel] in H. destruct (find_queue n qs); [|discriminate].
  destruct (up qs n) as [p|].
  - destruct (depth_fuel f qs p) as [dp|] eqn:E; [|discriminate].
    cbn in H. inversion H; subst. apply IH in E. lia.
  - inversion H; subst. lia.
Qed.

Lemma chain_adequate : forall qs a f m d, depth_fuel f qs m = Some d ->
  forall g1 g2, (d <= g1)%nat -> (d <= g2)%nat -> chain_hits g1 qs a m = chain_hits g2 qs a m.
Proof.
  intros qs a. induction f as [|f IH]; intros m d H g1 g2 H1 H2; [discriminate|].
  cbn [depth_fuel] in H. destruct (find_queue m qs); [|discriminate].
  destruct (up qs m) as [p|] eqn:Hup.
  - destruct (depth_fuel f qs p) as [dp|] eqn:E; [|discriminate].
    cbn in H. inversion H; subst d.
    destruct g1 as [|g1]; [lia|]. destruct g2 as [|g2]; [lia|].
    cbn [chain_hits]. rewrite Hup. rewrite (IH p dp E g1 g2); [reflexivity|lia|lia].
  - destruct g1, g2; cbn [chain_hits]; rewrite ?Hup; reflexivity.
Qed.

Section Forest.
  Variable qs : list queue.
  Hypothesis Hwf : wf_forest qs = true.

  Lemma wf_nodup : NoDup (names qs).
  Proof. unfold wf_forest in Hwf. apply andb_true_iff in Hwf. apply nodup_pos_NoDup. tauto. Qed.

  Lemma depth_In : forall q, In q qs -> exists d, depth qs (q_name q) = Some d.
  Proof.
    intros q Hin. unfold wf_forest in Hwf. apply andb_true_iff in Hwf. destruct Hwf as [_ H].
    rewrite forallb_forall in H. specialize (H q Hin).
    destruct (depth qs (q_name q)) as [d|]; [exists d; reflexivity|discriminate].
  Qed.

  Lemma up_child : forall n q, In q qs -> is_child_of n q = true -> has_name n qs = true ->
    up qs (q_name q) = Some n.
  Proof.
    intros n q Hin Hc Hn. unfold up. rewrite (find_queue_nodup qs q wf_nodup Hin).
    unfold is_child_of in Hc. destruct (q_parent q) as [p|]; [|discriminate].
    apply Pos.eqb_eq in Hc. subst p. rewrite Hn. reflexivity.
  Qed.

  Lemma up_inv : forall m p, up qs m = Some p ->
    exists q, In q qs /\ q_name q = m /\ is_child_of p q = true /\ has_name p qs = true.
  Proof.
    intros m p H. unfold up in H. destruct (find_queue m qs) as [q|] eqn:Hf; [|discriminate].
    apply find_queue_In in Hf. destruct Hf as [Hin Hn].
    destruct (q_parent q) as [p'|] eqn:Hp; [|discriminate].
    destruct (has_name p' qs) eqn:Hh; [|discriminate]. inversion H; subst p'.
    exists q. repeat split; auto. unfold is_child_of. rewrite Hp. apply Pos.eqb_refl.
  Qed.

  Lemma up_none_not_found : forall m, find_queue m qs = None -> up qs m = None.
  Proof. intros m H. unfold up. rewrite H. reflexivity. Qed.

  Lemma depth_up : forall m p dm, up qs m = Some p -> depth qs m = Some dm ->
    exists dp, depth qs p = Some dp /\ dm = S dp.
  Proof.
    intros m p dm Hup Hd. unfold depth in *. destruct (length qs) as [|f] eqn:Hl; [discriminate|].
    cbn [depth_fuel] in Hd. destruct (find_queue m qs); [|discriminate]. rewrite Hup in Hd.
    destruct (depth_fuel f qs p) as [dp|] eqn:E; [|discriminate].
    cbn in Hd. inversion Hd; subst dm. exists dp. split; [|reflexivity].
    apply (depth_fuel_mono qs f p dp E). lia.
  Qed.

  Lemma depth_lt_length : forall m d, depth qs m = Some d -> (d < length qs)%nat.
  Proof. intros m d H. apply (depth_fuel_lt qs _ m d H). Qed.

  (** induction along parent chains *)
  Lemma chain_ind : forall (P : positive -> Prop),
    (forall m, up qs m = None -> P m) ->
    (forall m p, up qs m = Some p -> P p -> P m) ->
    forall m, P m.
  Proof.
    intros P Hroot Hstep m.
    destruct (find_queue m qs) as [q|] eqn:Hf.
    - apply find_queue_In in Hf. destruct Hf as [Hin Hn]. destruct (depth_In q Hin) as [d Hd].
      rewrite Hn in Hd. clear q Hin Hn. revert m Hd.
      induction d as [|d IH]; intros m Hd.
      + destruct (up qs m) as [p|] eqn:Hup; [|apply Hroot; exact Hup].
        destruct (depth_up m p 0%nat Hup Hd) as (dp & _ & E). discriminate.
      + destruct (up qs m) as [p|] eqn:Hup; [|apply Hroot; exact Hup].
        destruct (depth_up m p (S d) Hup Hd) as (dp & Hdp & E). inversion E; subst dp.
        apply (Hstep m p Hup). apply IH. exact Hdp.
    - apply Hroot. apply up_none_not_found. exact Hf.
  Qed.

  Lemma in_subtree_step : forall a m,
    in_subtree qs a m = Pos.eqb m a || match up qs m with None => false | Some p => in_subtree qs a p end.
  Proof.
    intros a m. unfold in_subtree at 1.
    destruct (up qs m) as [p|] eqn:Hup.
    - destruct (up_inv m p Hup) as (q & Hin & Hn & _ & _).
      destruct (depth_In q Hin) as [dm Hdm]. rewrite Hn in Hdm.
      destruct (depth_up m p dm Hup Hdm) as (dp & Hdp & E).
      pose proof (depth_lt_length m dm Hdm) as Hlt.
      destruct (length qs) as [|f] eqn:Hl; [lia|].
      cbn [chain_hits]. rewrite Hup. f_equal.
      unfold in_subtree. rewrite Hl.
      unfold depth in Hdp. rewrite Hl in Hdp.
      apply (chain_adequate qs a (S f) p dp Hdp); lia.
    - destruct (length qs); cbn [chain_hits]; rewrite ?Hup; reflexivity.
  Qed.

  Lemma no_self_parent : forall q, In q qs -> is_child_of (q_name q) q = false.
  Proof.
    intros q Hin. destruct (is_child_of (q_name q) q) eqn:E; [|reflexivity]. exfalso.
    assert (Hh : has_name (q_name q) qs = true) by (apply has_name_iff; exists q; auto).
    pose proof (up_child (q_name q) q Hin E Hh) as Hup.
    destruct (depth_In q Hin) as [d Hd].
    destruct (depth_up _ _ d Hup Hd) as (dp & Hdp & E'). rewrite Hd in Hdp. inversion Hdp. lia.
  Qed.

  Lemma child_depth : forall n q dn, In q qs -> is_child_of n q = true -> has_name n qs = true ->
    depth qs n = Some dn -> depth qs (q_name q) = Some (S dn).
  Proof.
    intros n q dn Hin Hc Hh Hdn. pose proof (up_child n q Hin Hc Hh) as Hup.
    destruct (depth_In q Hin) as [d Hd].
    destruct (depth_up _ _ d Hup Hd) as (dp & Hdp & E). rewrite Hdn in Hdp. inversion Hdp; subst. exact Hd.
  Qed.

  Lemma subtree_depth_le : forall a da, depth qs a = Some da ->
    forall m dm, in_subtree qs a m = true -> depth qs m = Some dm -> (da <= dm)%nat.
  Proof.
    intros a da Hda m. pattern m. apply chain_ind; clear m.
    - intros m Hup dm Hs Hdm. rewrite in_subtree_step, Hup, orb_false_r in Hs.
      apply Pos.eqb_eq in Hs. subst m. rewrite Hda in Hdm. inversion Hdm. lia.
    - intros m p Hup IH dm Hs Hdm. rewrite in_subtree_step, Hup in Hs.
      destruct (Pos.eqb m a) eqn:E.
      + apply Pos.eqb_eq in E. subst m. rewrite Hda in Hdm. inversion Hdm. lia.
      + cbn [orb] in Hs. destruct (depth_up m p dm Hup Hdm) as (dp & Hdp & E').
        specialize (IH dp Hs Hdp). lia.
  Qed.

  Lemma subtree_same_depth : forall a b d, depth qs a = Some d -> depth qs b = Some d ->
    forall m, in_subtree qs a m = true -> in_subtree qs b m = true -> a = b.
  Proof.
    intros a b d Ha Hb m. pattern m. apply chain_ind; clear m.
    - intros m Hup Hsa Hsb. rewrite in_subtree_step, Hup, orb_false_r in Hsa, Hsb.
      apply Pos.eqb_eq in Hsa, Hsb. congruence.
    - intros m p Hup IH Hsa Hsb. rewrite in_subtree_step, Hup in Hsa, Hsb.
      destruct (Pos.eqb m a) eqn:Ea; destruct (Pos.eqb m b) eqn:Eb; cbn [orb] in Hsa, Hsb.
      + apply Pos.eqb_eq in Ea, Eb. congruence.
      + apply Pos.eqb_eq in Ea. subst m.
        destruct (depth_up a p d Hup Ha) as (dp & Hdp & E').
        pose proof (subtree_depth_le b d Hb p dp Hsb Hdp). lia.
      + apply Pos.eqb_eq in Eb. subst m.
        destruct (depth_up b p d Hup Hb) as (dp & Hdp & E').
        pose proof (subtree_depth_le a d Ha p dp Hsa Hdp). lia.
      + apply IH; assumption.
  Qed.

  (** the subtree of [n] is [n] itself plus the subtrees of its children *)
  Lemma subtree_partition : forall n, has_name n qs = true -> forall m,
    in_subtree qs n m
    = Pos.eqb m n || existsb (fun q' => in_subtree qs (q_name q') m) (filter (is_child_of n) qs).
  Proof.
    intros n Hn m. pattern m. apply chain_ind; clear m.
    - intros m Hup. rewrite in_subtree_step, Hup, orb_false_r. 
      rewrite (existsb_ext_in _ (fun q' => Pos.eqb m (q_name q'))).
      2:{ intros q' _. rewrite in_subtree_step, Hup, orb_false_r. reflexivity. }
      destruct (existsb (fun q' => Pos.eqb m (q_name q')) (filter (is_child_of n) qs)) eqn:E.
      + exfalso. apply existsb_exists in E. destruct E as (q' & Hin & Hq').
        apply filter_In in Hin. destruct Hin as [Hin Hc]. apply Pos.eqb_eq in Hq'. subst m.
        rewrite (up_child n q' Hin Hc Hn) in Hup. discriminate.
      + rewrite orb_false_r. reflexivity.
    - intros m p Hup IH. rewrite in_subtree_step, Hup.
      rewrite (existsb_ext_in _ (fun q' => Pos.eqb m (q_name q') || in_subtree qs (q_name q') p)).
      2:{ intros q' _. rewrite in_subtree_step, Hup. reflexivity. }
      rewrite existsb_orb. rewrite IH.
      assert (E : Pos.eqb p n = existsb (fun q' => Pos.eqb m (q_name q')) (filter (is_child_of n) qs)).
      { destruct (existsb (fun q' => Pos.eqb m (q_name q')) (filter (is_child_of n) qs)) eqn:Ex.
        - apply existsb_exists in Ex. destruct Ex as (q' & Hin & Hq').
          apply filter_In in Hin. destruct Hin as [Hin Hc]. apply Pos.eqb_eq in Hq'. subst m.
          rewrite (up_child n q' Hin Hc Hn) in Hup. inversion Hup. apply Pos.eqb_refl.
        - destruct (Pos.eqb p n) eqn:Epn; [|reflexivity]. apply Pos.eqb_eq in Epn. subst p.
          destruct (up_inv m n Hup) as (q & Hin & Hqn & Hc & _).
          assert (existsb (fun q' => Pos.eqb m (q_name q')) (filter (is_child_of n) qs) = true).
          { apply existsb_exists. exists q. split; [apply filter_In; auto|]. rewrite Hqn. apply Pos.eqb_refl. }
          congruence. }
      rewrite E.
      destruct (Pos.eqb m n), (existsb (fun q' => Pos.eqb m (q_name q')) (filter (is_child_of n) qs)),
        (existsb (fun q' => in_subtree qs (q_name q') p) (filter (is_child_of n) qs)); reflexivity.
  Qed.

  Lemma child_not_above : forall n q, In q qs -> is_child_of n q = true -> has_name n qs = true ->
    in_subtree qs (q_name q) n = false.
  Proof.
    intros n q Hin Hc Hh. destruct (in_subtree qs (q_name q) n) eqn:E; [|reflexivity]. exfalso.
    apply has_name_iff in Hh. destruct Hh as (qn & Hqn & Hnn).
    destruct (depth_In qn Hqn) as [dn Hdn]. rewrite Hnn in Hdn.
    assert (Hh' : has_name n qs = true) by (apply has_name_iff; exists qn; auto).
    pose proof (child_depth n q dn Hin Hc Hh' Hdn) as Hdq.
    pose proof (subtree_depth_le (q_name q) (S dn) Hdq n dn E Hdn). lia.
  Qed.

  Lemma NoDup_map_filter : forall {A B} (f : A -> B) (P : A -> bool) l,
    NoDup (map f l) -> NoDup (map f (filter P l)).
  Proof.
    intros A B f P. induction l as [|x l IH]; intro H; [constructor|].
    cbn [map] in H. inversion H as [|y r Hnotin Hnd]; subst. cbn [filter].
    destruct (P x); [|apply IH; exact Hnd].
    cbn [map]. constructor; [|apply IH; exact Hnd].
    intro Hin. apply Hnotin. apply in_map_iff in Hin. destruct Hin as (z & Hz & Hin).
    apply filter_In in Hin. apply in_map_iff. exists z. tauto.
  Qed.

  Lemma children_disjoint : forall n (pgs : list qpodgroup), has_name n qs = true ->
    forall cs, NoDup (map q_name cs) -> (forall q, In q cs -> In q qs /\ is_child_of n q = true) ->
    disj_family (fun q' g => pg_in_subtree qs (q_name q') g) cs pgs.
  Proof.
    intros n pgs Hn. induction cs as [|c r IH]; intros Hnd Hall; [exact I|].
    cbn [map] in Hnd. inversion Hnd as [|y l Hnotin Hnd']; subst.
    split.
    - intros g _ Hg. destruct (existsb (fun c' => pg_in_subtree qs (q_name c') g) r) eqn:E; [|reflexivity].
      exfalso. apply existsb_exists in E. destruct E as (c' & Hc' & Hg').
      unfold pg_in_subtree in Hg, Hg'. destruct (pg_queue g) as [m|]; [|discriminate].
      destruct (Hall c (or_introl eq_refl)) as [Hcin Hcc].
      destruct (Hall c' (or_intror Hc')) as [Hc'in Hc'c].
      apply has_name_iff in Hn. destruct Hn as (qn & Hqn & Hnn).
      destruct (depth_In qn Hqn) as [dn Hdn]. rewrite Hnn in Hdn.
      assert (Hh' : has_name n qs = true) by (apply has_name_iff; exists qn; auto).
      pose proof (child_depth n c dn Hcin Hcc Hh' Hdn) as Hd1.
      pose proof (child_depth n c' dn Hc'in Hc'c Hh' Hdn) as Hd2.
      pose proof (subtree_same_depth _ _ _ Hd1 Hd2 m Hg Hg') as Heq.
      apply Hnotin. rewrite Heq. apply in_map. exact Hc'.
    - apply IH; [exact Hnd'|]. intros q Hq. apply Hall. right. exact Hq.
  Qed.
End Forest.

(** * The queue controller's reconcile *)

Lemma queue_new_status_sum : forall n c,
  queue_new_status n c = radd (own_pgs_sum c n) (children_sum c n).
Proof.
  intros n c. unfold queue_new_status, sum_pgs, sum_children, own_pgs_sum, children_sum.
  rewrite (fold_cond_sum pg_status (pg_in_queue n)).
  rewrite (fold_cond_sum q_status (is_child_of n)).
  rewrite radd_zero_r. reflexivity.
Qed.

Definition cons_at (c : cluster) (n : positive) : Prop :=
  forall q, In q (c_queues c) -> q_name q = n -> locally_consistent c q.

Lemma consistent_reconciled : forall c q, locally_consistent c q -> reconciled_queue c q = q.
Proof.
  intros c [nm pa st ch] [H1 H2]. unfold reconciled_queue. cbn [q_name q_parent q_status q_children] in *.
  rewrite queue_new_status_sum, <- H1, <- H2. reflexivity.
Qed.

Lemma reconciled_consistent : forall c q, reconciled_queue c q = q -> locally_consistent c q.
Proof.
  intros c [nm pa st ch] H. unfold reconciled_queue in H. cbn [q_name q_parent q_status q_children] in H.
  inversion H as [[H1 H2]]. unfold locally_consistent. cbn [q_name q_status q_children].
  rewrite H1, H2. rewrite <- queue_new_status_sum. rewrite H1. auto.
Qed.

(** R3: reconciling a consistent queue changes nothing *)
Lemma reconcile_consistent_noop : forall n c, cons_at c n -> q_reconcile n c = c.
Proof.
  intros n [qs pgs] H. unfold q_reconcile. cbn [c_queues c_pgs]. f_equal.
  rewrite <- (map_id qs) at 2. apply map_ext_in. intros q Hin.
  destruct (Pos.eqb (q_name q) n) eqn:E; [|reflexivity].
  apply Pos.eqb_eq in E. apply consistent_reconciled. apply H; assumption.
Qed.

Lemma map_filter_child_status : forall n (g : queue -> queue) l,
  (forall q, is_child_of n (g q) = is_child_of n q) ->
  (forall q, In q l -> is_child_of n q = true -> q_status (g q) = q_status q) ->
  map q_status (filter (is_child_of n) (map g l)) = map q_status (filter (is_child_of n) l).
Proof.
  intros n g. induction l as [|x l IH]; intros H1 H2; [reflexivity|].
  cbn [map filter]. rewrite H1. destruct (is_child_of n x) eqn:E.
  - cbn [map]. rewrite (H2 x (or_introl eq_refl) E). f_equal.
    apply IH; [exact H1|]. intros q Hq. apply H2. right. exact Hq.
  - apply IH; [exact H1|]. intros q Hq. apply H2. right. exact Hq.
Qed.

Lemma map_filter_child_name : forall n (g : queue -> queue) l,
  (forall q, is_child_of n (g q) = is_child_of n q) ->
  (forall q, q_name (g q) = q_name q) ->
  map q_name (filter (is_child_of n) (map g l)) = map q_name (filter (is_child_of n) l).
Proof.
  intros n g. induction l as [|x l IH]; intros H1 H2; [reflexivity|].
  cbn [map filter]. rewrite H1. destruct (is_child_of n x); [cbn [map]; rewrite H2, IH; auto|auto].
Qed.

Definition rec_fun (e : positive) (c : cluster) (q : queue) : queue :=
  if Pos.eqb (q_name q) e then reconciled_queue c q else q.

Lemma rec_fun_name : forall e c q, q_name (rec_fun e c q) = q_name q.
Proof. intros. unfold rec_fun. destruct (Pos.eqb (q_name q) e); reflexivity. Qed.
Lemma rec_fun_parent : forall e c q, q_parent (rec_fun e c q) = q_parent q.
Proof. intros. unfold rec_fun. destruct (Pos.eqb (q_name q) e); reflexivity. Qed.
Lemma rec_fun_child : forall e c n q, is_child_of n (rec_fun e c q) = is_child_of n q.
Proof. intros. unfold is_child_of. rewrite rec_fun_parent. reflexivity. Qed.

Lemma q_reconcile_queues : forall e c, c_queues (q_reconcile e c) = map (rec_fun e c) (c_queues c).
Proof. reflexivity. Qed.

Lemma children_sum_reconcile : forall e c n,
  (forall q, In q (c_queues c) -> is_child_of n q = true -> q_name q <> e) ->
  children_sum (q_reconcile e c) n = children_sum c n.
Proof.
  intros e c n H. unfold children_sum. rewrite q_reconcile_queues. f_equal.
  apply map_filter_child_status.
  - intro q. apply rec_fun_child.
  - intros q Hin Hc. unfold rec_fun. destruct (Pos.eqb (q_name q) e) eqn:E; [|reflexivity].
    apply Pos.eqb_eq in E. exfalso. apply (H q Hin Hc E).
Qed.

Lemma child_names_reconcile : forall e c n,
  child_names n (c_queues (q_reconcile e c)) = child_names n (c_queues c).
Proof.
  intros e c n. unfold child_names. rewrite q_reconcile_queues. apply map_filter_child_name.
  - intro q. apply rec_fun_child.
  - intro q. apply rec_fun_name.
Qed.

Lemma own_pgs_sum_reconcile : forall e c n, own_pgs_sum (q_reconcile e c) n = own_pgs_sum c n.
Proof. reflexivity. Qed.

(** R1: after reconciling [n] in a well-formed forest, [n] is consistent *)
Lemma reconcile_makes_consistent : forall n c, wf_forest (c_queues c) = true -> cons_at (q_reconcile n c) n.
Proof.
  intros n c Hwf q' Hin Hn. rewrite q_reconcile_queues in Hin. apply in_map_iff in Hin.
  destruct Hin as (q & Hq & Hin). subst q'. rewrite rec_fun_name in Hn.
  unfold rec_fun. rewrite Hn, Pos.eqb_refl.
  assert (Hcs : children_sum (q_reconcile n c) n = children_sum c n).
  { apply children_sum_reconcile. intros q0 Hin0 Hc0 E. subst n.
    rewrite <- E in Hc0. rewrite (no_self_parent _ Hwf q0 Hin0) in Hc0. discriminate. }
  unfold locally_consistent, reconciled_queue. cbn [q_name q_status q_children].
  rewrite Hn, Hcs, own_pgs_sum_reconcile, child_names_reconcile, queue_new_status_sum. auto.
Qed.

(** R4: reconciling an unrelated queue keeps [n] consistent *)
Lemma reconcile_other_keeps : forall e n c, e <> n ->
  (forall q, In q (c_queues c) -> is_child_of n q = true -> q_name q <> e) ->
  cons_at c n -> cons_at (q_reconcile e c) n.
Proof.
  intros e n c Hne Hch Hc q' Hin Hn. rewrite q_reconcile_queues in Hin. apply in_map_iff in Hin.
  destruct Hin as (q & Hq & Hin). subst q'. rewrite rec_fun_name in Hn.
  unfold rec_fun. destruct (Pos.eqb (q_name q) e) eqn:E.
  - apply Pos.eqb_eq in E. congruence.
  - destruct (Hc q Hin Hn) as [H1 H2]. unfold locally_consistent.
    rewrite (children_sum_reconcile e c (q_name q)), own_pgs_sum_reconcile, child_names_reconcile.
    + auto.
    + rewrite Hn. exact Hch.
Qed.

Lemma wf_run : forall evs c, wf_forest (c_queues (q_run evs c)) = wf_forest (c_queues c).
Proof. intros. apply wf_skel. apply skel_run. Qed.

(** L1: a queue that settles stays consistent under every continuation *)
Lemma settles_consistent : forall c, wf_forest (c_queues c) = true ->
  forall evs n, settles (c_queues c) evs n -> forall more, cons_at (q_run (evs ++ more) c) n.
Proof.
  intros c Hwf evs n Hs. induction Hs as [pre post n Hch IH]. intro more.
  rewrite <- app_assoc. cbn [app]. generalize (post ++ more) as rest. clear post more.
  intro rest. induction rest as [|e rest IHr] using rev_ind.
  - rewrite q_run_app. change (q_run [n] (q_run pre c)) with (q_reconcile n (q_run pre c)).
    apply reconcile_makes_consistent. rewrite wf_run. exact Hwf.
  - replace (pre ++ n :: rest ++ [e]) with ((pre ++ n :: rest) ++ [e]) by (rewrite <- app_assoc; reflexivity).
    rewrite q_run_app. set (c3 := q_run (pre ++ n :: rest) c) in *.
    change (q_run [e] c3) with (q_reconcile e c3).
    assert (Hwf3 : wf_forest (c_queues c3) = true) by (unfold c3; rewrite wf_run; exact Hwf).
    destruct (Pos.eqb e n) eqn:Een.
    + apply Pos.eqb_eq in Een. subst e. apply reconcile_makes_consistent. exact Hwf3.
    + apply Pos.eqb_neq in Een.
      destruct (existsb (fun q => Pos.eqb (q_name q) e && is_child_of n q) (c_queues c3)) eqn:Ex.
      * apply existsb_exists in Ex. destruct Ex as (q3 & Hin3 & Hq3).
        apply andb_true_iff in Hq3. destruct Hq3 as [Hq3n Hq3c]. apply Pos.eqb_eq in Hq3n.
        destruct (skel_in (c_queues c) (c_queues c3)) with (q' := q3) as (q & Hin & Hqn & Hqp).
        { unfold c3. symmetry. apply skel_run. }
        { exact Hin3. }
        assert (Hqc : is_child_of n q = true).
        { unfold is_child_of in *. rewrite Hqp. exact Hq3c. }
        specialize (IH q Hin Hqc (n :: rest)). rewrite Hqn, Hq3n in IH. fold c3 in IH.
        rewrite (reconcile_consistent_noop e c3 IH). exact IHr.
      * apply reconcile_other_keeps; [exact Een| |exact IHr].
        intros q Hin Hc E. subst e.
        assert (existsb (fun q0 => Pos.eqb (q_name q0) (q_name q) && is_child_of n q0) (c_queues c3) = true).
        { apply existsb_exists. exists q. split; [exact Hin|]. rewrite Pos.eqb_refl, Hc. reflexivity. }
        congruence.
Qed.

Lemma settles_app : forall qs evs n more, settles qs evs n -> settles qs (evs ++ more) n.
Proof.
  intros qs evs n more H. destruct H as [pre post n Hch].
  rewrite <- app_assoc. cbn [app]. constructor. exact Hch.
Qed.

(** L2: in a well-formed forest, local consistency everywhere pins every
    queue to its true aggregate *)
Lemma consistent_true_agg : forall c, wf_forest (c_queues c) = true ->
  (forall q, In q (c_queues c) -> locally_consistent c q) ->
  forall q, In q (c_queues c) -> q_status q = true_agg c (q_name q).
Proof.
  intros c Hwf Hcons.
  assert (Hk : forall k q d, In q (c_queues c) -> depth (c_queues c) (q_name q) = Some d ->
               (length (c_queues c) < d + k)%nat -> q_status q = true_agg c (q_name q)).
  { induction k as [|k IHk]; intros q d Hin Hd Hlt.
    - pose proof (depth_lt_length _ _ _ Hd). lia.
    - set (n := q_name q) in *.
      assert (Hn : has_name n (c_queues c) = true) by (apply has_name_iff; exists q; auto).
      destruct (Hcons q Hin) as [Hst _]. rewrite Hst. fold n.
      unfold children_sum.
      rewrite (map_ext_in q_status (fun q' => true_agg c (q_name q'))).
      2:{ intros q' Hq'. apply filter_In in Hq'. destruct Hq' as [Hq'in Hq'c].
          apply (IHk q' (S d) Hq'in).
          - apply (child_depth _ Hwf n q' d Hq'in Hq'c Hn Hd).
          - lia. }
      unfold true_agg at 1.
      rewrite (rsum_exchange pg_status (fun q' g => pg_in_subtree (c_queues c) (q_name q') g)).
      2:{ apply (children_disjoint _ Hwf n (c_pgs c) Hn).
          - apply NoDup_map_filter. apply (wf_nodup _ Hwf).
          - intros q' Hq'. apply filter_In in Hq'. exact Hq'. }
      unfold own_pgs_sum. rewrite rsum_filter_or.
      2:{ intros g _ Hg. unfold pg_in_queue in Hg. destruct (pg_queue g) as [m|] eqn:Hm; [|discriminate].
          apply Pos.eqb_eq in Hg. subst m.
          destruct (existsb (fun c0 => pg_in_subtree (c_queues c) (q_name c0) g) (filter (is_child_of n) (c_queues c))) eqn:Ex; [|reflexivity].
          apply existsb_exists in Ex. destruct Ex as (q' & Hq' & Hg'). apply filter_In in Hq'.
          destruct Hq' as [Hq'in Hq'c]. unfold pg_in_subtree in Hg'. rewrite Hm in Hg'.
          rewrite (child_not_above _ Hwf n q' Hq'in Hq'c Hn) in Hg'. discriminate. }
      unfold true_agg. f_equal. f_equal. apply filter_ext. intro g.
      unfold pg_in_queue, pg_in_subtree. destruct (pg_queue g) as [m|].
      + rewrite (subtree_partition _ Hwf n Hn m). reflexivity.
      + rewrite existsb_false_const. reflexivity. }
  intros q Hin. destruct (depth_In _ Hwf q Hin) as [d Hd].
  apply (Hk (S (length (c_queues c))) q d Hin Hd). lia.
Qed.

(** L3: [length passes > max depth] full passes, in any order, settle every queue *)
Lemma max_depth_ge_aux : forall qs l q d, In q l -> depth qs (q_name q) = Some d ->
  (d <= fold_right (fun q acc => match depth qs (q_name q) with Some d => Nat.max d acc | None => acc end) O l)%nat.
Proof.
  intros qs. induction l as [|x l IH]; intros q d Hin Hd; [destruct Hin|].
  cbn [fold_right]. destruct Hin as [E|Hin].
  - subst x. rewrite Hd. lia.
  - specialize (IH q d Hin Hd). destruct (depth qs (q_name x)); lia.
Qed.

Lemma max_depth_ge : forall qs q d, In q qs -> depth qs (q_name q) = Some d -> (d <= max_depth qs)%nat.
Proof. intros. unfold max_depth. eapply max_depth_ge_aux; eauto. Qed.

Lemma passes_settle : forall qs, wf_forest qs = true ->
  forall passes, Forall (full_pass qs) passes ->
  forall q d, In q qs -> depth qs (q_name q) = Some d -> (max_depth qs < d + length passes)%nat ->
  settles qs (concat passes) (q_name q).
Proof.
  intros qs Hwf passes. induction passes as [|p ps IH] using rev_ind; intros Hall q d Hin Hd Hlt.
  - cbn [length] in Hlt. pose proof (max_depth_ge qs q d Hin Hd). lia.
  - apply Forall_app in Hall. destruct Hall as [Hps Hp]. inversion Hp as [|x l Hfull _]; subst.
    rewrite concat_app. cbn [concat]. rewrite app_nil_r.
    destruct (in_split _ _ (Hfull q Hin)) as (a & b & Hab). rewrite Hab.
    rewrite app_assoc. constructor. intros q' Hq'in Hq'c.
    apply settles_app.
    assert (Hn : has_name (q_name q) qs = true) by (apply has_name_iff; exists q; auto).
    apply (IH Hps q' (S d) Hq'in).
    + apply (child_depth _ Hwf (q_name q) q' d Hq'in Hq'c Hn Hd).
    + rewrite app_length in Hlt. cbn [length] in Hlt. lia.
Qed.

(** ** Assembly *)

Definition converged (c0 c : cluster) : Prop :=
  (forall q, In q (c_queues c) -> locally_consistent c q /\ q_status q = true_agg c0 (q_name q))
  /\ (forall n, q_reconcile n c = c)
  /\ (forall n, q_writes n c = false)
  /\ (forall more, q_run more c = c).

Lemma queue_unchanged_refl : forall q, queue_unchanged q q = true.
Proof.
  intro q. unfold queue_unchanged. rewrite rstatus_eqb_refl. cbn [andb]. apply pos_list_eqb_eq. reflexivity.
Qed.

Lemma all_consistent_converged : forall c0 c, wf_forest (c_queues c) = true ->
  map skel (c_queues c) = map skel (c_queues c0) -> c_pgs c = c_pgs c0 ->
  (forall q, In q (c_queues c) -> locally_consistent c q) -> converged c0 c.
Proof.
  intros c0 c Hwf Hsk Hpg Hall.
  assert (Hrec : forall n, q_reconcile n c = c).
  { intro n. apply reconcile_consistent_noop. intros q Hin _. apply Hall. exact Hin. }
  split; [|split; [exact Hrec|split]].
  - intros q Hin. split; [apply Hall; exact Hin|].
    rewrite (consistent_true_agg c Hwf Hall q Hin). apply true_agg_skel; assumption.
  - intro n. unfold q_writes. destruct (existsb _ (c_queues c)) eqn:E; [|reflexivity].
    apply existsb_exists in E. destruct E as (q & Hin & Hq). apply andb_true_iff in Hq.
    destruct Hq as [_ Hq]. rewrite (consistent_reconciled c q (Hall q Hin)), queue_unchanged_refl in Hq.
    discriminate.
  - induction more as [|e more IH]; [reflexivity|].
    change (q_run (e :: more) c) with (q_run more (q_reconcile e c)). rewrite Hrec. exact IH.
Qed.

(** Clause 2: any event sequence in which every queue settles ends in the
    unique consistent state: every queue equals Σ own pod groups + Σ children
    and equals its true aggregate, and no further reconcile changes anything. *)
Lemma queue_sums_fixpoint : forall c evs, wf_forest (c_queues c) = true ->
  (forall q, In q (c_queues c) -> settles (c_queues c) evs (q_name q)) ->
  converged c (q_run evs c).
Proof.
  intros c evs Hwf Hall. apply all_consistent_converged.
  - rewrite wf_run. exact Hwf.
  - apply skel_run.
  - apply pgs_run.
  - intros q' Hin'.
    destruct (skel_in (c_queues c) (c_queues (q_run evs c))) with (q' := q') as (q & Hin & Hqn & _).
    { symmetry. apply skel_run. }
    { exact Hin'. }
    pose proof (settles_consistent c Hwf evs (q_name q) (Hall q Hin) []) as Hc.
    rewrite app_nil_r in Hc. apply Hc; [exact Hin'|]. symmetry. exact Hqn.
Qed.

Lemma queue_passes_bound : forall c passes, wf_forest (c_queues c) = true ->
  Forall (full_pass (c_queues c)) passes -> (height (c_queues c) <= length passes)%nat ->
  converged c (q_run (concat passes) c).
Proof.
  intros c passes Hwf Hall Hlen. apply queue_sums_fixpoint; [exact Hwf|].
  intros q Hin. destruct (depth_In _ Hwf q Hin) as [d Hd].
  apply (passes_settle _ Hwf passes Hall q d Hin Hd).
  unfold height in Hlen. destruct (c_queues c); [destruct Hin|]. lia.
Qed.

(** the fixpoint is unique: a state in which no reconcile writes reports the true aggregates *)
Lemma queue_fixpoint_unique : forall c, wf_forest (c_queues c) = true ->
  (forall n, q_writes n c = false) ->
  forall q, In q (c_queues c) -> q_status q = true_agg c (q_name q).
Proof.
  intros c Hwf Hnw. apply consistent_true_agg; [exact Hwf|].
  intros q Hin. apply reconciled_consistent.
  specialize (Hnw (q_name q)). unfold q_writes in Hnw.
  assert (Hq : (Pos.eqb (q_name q) (q_name q) && negb (queue_unchanged (reconciled_queue c q) q)) = false).
  { destruct (Pos.eqb (q_name q) (q_name q) && negb (queue_unchanged (reconciled_queue c q) q)) eqn:E; [|reflexivity].
    assert (existsb (fun q0 => Pos.eqb (q_name q0) (q_name q) && negb (queue_unchanged (reconciled_queue c q0) q0)) (c_queues c) = true).
    { apply existsb_exists. exists q. split; [exact Hin|exact E]. }
    congruence. }
  rewrite Pos.eqb_refl in Hq. cbn [andb] in Hq. apply negb_false_iff in Hq.
  unfold queue_unchanged in Hq. apply andb_true_iff in Hq. destruct Hq as [H1 H2].
  apply rstatus_eqb_eq in H1. apply pos_list_eqb_eq in H2.
  destruct q as [nm pa st ch]. unfold reconciled_queue in *. cbn [q_name q_parent q_status q_children] in *.
  rewrite H1, H2. reflexivity.
Qed.

(** Clause 3 for queues: the second reconcile of the same queue is the identity *)
Lemma queue_reconcile_idempotent : forall c n, wf_forest (c_queues c) = true ->
  q_reconcile n (q_reconcile n c) = q_reconcile n c /\ q_writes n (q_reconcile n c) = false.
Proof.
  intros c n Hwf. pose proof (reconcile_makes_consistent n c Hwf) as Hc.
  split; [apply reconcile_consistent_noop; exact Hc|].
  unfold q_writes. destruct (existsb _ (c_queues (q_reconcile n c))) eqn:E; [|reflexivity].
  apply existsb_exists in E. destruct E as (q & Hin & Hq). apply andb_true_iff in Hq.
  destruct Hq as [Hn Hq]. apply Pos.eqb_eq in Hn.
  rewrite (consistent_reconciled _ q (Hc q Hin Hn)), queue_unchanged_refl in Hq. discriminate.
Qed.

(** ** Witnesses *)

Definition st1 (x : Z) : rstatus := {| s_alloc := [x]; s_anp := [x]; s_req := [x] |}.
Definition mkq (n : positive) (p : option positive) : queue :=
  {| q_name := n; q_parent := p; q_status := rzero; q_children := [] |}.

(** root 1; departments 2, 3 under 1; teams 4, 5 under 2; pod groups in 4, 5, 3 and one without a queue *)
Definition ex_cluster : cluster :=
  {| c_queues := [mkq 1 None; mkq 2 (Some 1%positive); mkq 3 (Some 1%positive);
                  mkq 4 (Some 2%positive); mkq 5 (Some 2%positive)];
     c_pgs := [ {| pg_queue := Some 4%positive; pg_status := st1 1000 |};
                {| pg_queue := Some 5%positive; pg_status := st1 500 |};
                {| pg_queue := Some 3%positive; pg_status := st1 250 |};
                {| pg_queue := Some 4%positive; pg_status := st1 2000 |};
                {| pg_queue := None; pg_status := st1 7 |} ] |}.

(** parents before children: the worst order; three passes = the height *)
Definition ex_pass : list positive := [1; 2; 3; 4; 5]%positive.

Lemma ex_cluster_facts :
  wf_forest (c_queues ex_cluster) = true
  /\ height (c_queues ex_cluster) = 3%nat
  /\ map (fun q => s_alloc (q_status q)) (c_queues (q_run (ex_pass ++ ex_pass ++ ex_pass) ex_cluster))
     = [[3750]; [3500]; [250]; [3000]; [500]]
  /\ map (fun q => s_alloc (true_agg ex_cluster (q_name q))) (c_queues ex_cluster)
     = [[3750]; [3500]; [250]; [3000]; [500]]
  /\ (* two parent-first passes are not enough *)
     map (fun q => s_alloc (q_status q)) (c_queues (q_run (ex_pass ++ ex_pass) ex_cluster))
     = [[250]; [3500]; [250]; [3000]; [500]].
Proof. vm_compute. repeat split. Qed.

Lemma ex_full_pass : full_pass (c_queues ex_cluster) ex_pass.
Proof.
  intros q Hin. cbn in Hin.
  repeat (destruct Hin as [E|Hin]; [subst q; cbn; tauto|]). destruct Hin.
Qed.

(** without acyclicity the queue reconcile is not idempotent: a queue that names itself as parent *)
Definition ex_cyclic : cluster :=
  {| c_queues := [mkq 1 (Some 1%positive)];
     c_pgs := [ {| pg_queue := Some 1%positive; pg_status := st1 1000 |} ] |}.

Lemma cyclic_not_idempotent :
  wf_forest (c_queues ex_cyclic) = false
  /\ q_writes 1 (q_reconcile 1 ex_cyclic) = true
  /\ q_writes 1 (q_reconcile 1 (q_reconcile 1 ex_cyclic)) = true.
Proof. vm_compute. repeat split. Qed.
