(** C05, reclaim clause on queue trees of any depth (Model/ProgressTree.v):
    1. the divergence level of two root-to-leaf paths is what getLeveledQueues
       (Model/Reclaim.v: [leveled]) returns, whatever the depths of the two leaves;
    2. the reclaim clause in numbers (the reclaimer's whole chain within deserved
       quota and fair share, the victims' side above its deserved quota on the
       divergence level) makes CanReclaimResources and Reclaimable say yes. *)
From Coq Require Import List ZArith PArith QArith Bool Lia Lqa.
From KaiV Require Import Model.Reclaim Model.ReclaimSpec Proofs.Reclaim Model.ProgressTree.
Import ListNotations.
Set Default Timeout 60.
Open Scope Z_scope.

(** * 1. The tree of numbers and the queue attributes *)

Lemma lookup_map qs id : lookup (map to_rq qs) id = option_map to_rq (find_q qs id).
Proof.
  unfold find_q. induction qs as [|x qs IH]; [reflexivity|].
  cbn [map lookup find]. change (q_id (to_rq x)) with (pq_id x).
  destruct (Pos.eqb (pq_id x) id); [reflexivity|exact IH].
Qed.

Lemma chain_climb : forall f qs id l,
  chain f (map to_rq qs) id = Some l -> l = map to_rq (climb f qs id).
Proof.
  induction f as [|f IH]; intros qs id l H; [discriminate|].
  cbn [chain climb] in *. rewrite lookup_map in H.
  destruct (find_q qs id) as [x|]; cbn [option_map] in H.
  - change (q_parent (to_rq x)) with (pq_parent x) in H.
    destruct (pq_parent x) as [p|].
    + destruct (chain f (map to_rq qs) p) as [l'|] eqn:E; [|discriminate].
      injection H as <-. cbn [map]. f_equal. apply IH. exact E.
    + injection H as <-. reflexivity.
  - injection H as <-. reflexivity.
Qed.

Lemma chain_of_q qs id l : chain_of (map to_rq qs) id = Some l -> l = map to_rq (chain_q qs id).
Proof. unfold chain_of, chain_q. rewrite map_length. apply chain_climb. Qed.

(** * 2. getLeveledQueues returns the divergence level *)

Lemma diverge_level_walk : forall pa pb x y,
  diverge pa pb = Some (x, y) ->
  forall cur, level_walk (map to_rq pa) (map to_rq pb) cur = Some (to_rq x, to_rq y).
Proof.
  induction pa as [|a pa IH]; intros pb x y H cur; [discriminate|].
  destruct pb as [|b pb]; [discriminate|].
  cbn [diverge map level_walk] in *.
  change (q_id (to_rq a)) with (pq_id a). change (q_id (to_rq b)) with (pq_id b).
  destruct (Pos.eqb (pq_id a) (pq_id b)).
  - apply IH. exact H.
  - injection H as <- <-. reflexivity.
Qed.

(** [diverge] written out: a common prefix (same queues, by id), then two different queues *)
Lemma diverge_intro : forall ca cb x ra y rb,
  map pq_id ca = map pq_id cb -> pq_id x <> pq_id y ->
  diverge (ca ++ x :: ra) (cb ++ y :: rb) = Some (x, y).
Proof.
  induction ca as [|a ca IH]; intros cb x ra y rb E N.
  - destruct cb; [|discriminate]. cbn [app diverge].
    apply Pos.eqb_neq in N. now rewrite N.
  - destruct cb as [|b cb]; [discriminate|]. cbn [map] in E. injection E as E1 E2.
    cbn [app diverge]. rewrite E1, Pos.eqb_refl. now apply IH.
Qed.

Lemma diverge_elim : forall pa pb x y,
  diverge pa pb = Some (x, y) ->
  exists ca cb ra rb, pa = ca ++ x :: ra /\ pb = cb ++ y :: rb /\
                      map pq_id ca = map pq_id cb /\ pq_id x <> pq_id y.
Proof.
  induction pa as [|a pa IH]; intros pb x y H; [discriminate|].
  destruct pb as [|b pb]; [discriminate|]. cbn [diverge] in H.
  destruct (Pos.eqb_spec (pq_id a) (pq_id b)) as [E|N].
  - destruct (IH _ _ _ H) as [ca [cb [ra [rb [-> [-> [Ec Nxy]]]]]]].
    exists (a :: ca), (b :: cb), ra, rb. cbn [app map]. now rewrite E, Ec.
  - injection H as <- <-. exists [], [], pa, pb. auto.
Qed.

Theorem leveled_is_divergence qs a b x y :
  chain_of (map to_rq qs) a <> None -> chain_of (map to_rq qs) b <> None ->
  level_of qs a b = Some (x, y) ->
  leveled (map to_rq qs) a b = Ok (Some (to_rq x, to_rq y)).
Proof.
  intros Ha Hb H. unfold leveled.
  destruct (chain_of (map to_rq qs) a) as [ca|] eqn:Ea; [|congruence].
  destruct (chain_of (map to_rq qs) b) as [cb|] eqn:Eb; [|congruence].
  rewrite (chain_of_q _ _ _ Ea), (chain_of_q _ _ _ Eb), <- !map_rev.
  f_equal. apply diverge_level_walk. exact H.
Qed.

Lemma acyclicb_chain qs id : acyclicb (map to_rq qs) = true -> chain_of (map to_rq qs) id <> None.
Proof. intros H. apply acyclic_chain_ok. now apply acyclicb_acyclic. Qed.

(** the statement with the two root-to-leaf paths written out *)
Theorem level_is_divergence_of_paths qs a b ca cb x ra y rb :
  acyclicb (map to_rq qs) = true ->
  path_q qs a = ca ++ x :: ra -> path_q qs b = cb ++ y :: rb ->
  map pq_id ca = map pq_id cb -> pq_id x <> pq_id y ->
  level_of qs a b = Some (x, y) /\
  leveled (map to_rq qs) a b = Ok (Some (to_rq x, to_rq y)).
Proof.
  intros Hac Pa Pb E N.
  assert (H : level_of qs a b = Some (x, y)).
  { unfold level_of. rewrite Pa, Pb. now apply diverge_intro. }
  split; [exact H|]. apply leveled_is_divergence; auto using acyclicb_chain.
Qed.

(** * 3. Reclaimable says yes when every victim fits and every level of the
      reclaimer's chain is fine (the converse direction of C07's soundness lemmas) *)

Lemma all_fit_app_inv qs rc : forall a done b,
  all_fit qs rc done (a ++ b) -> all_fit qs rc done a /\ all_fit qs rc (done ++ a) b.
Proof.
  induction a as [|[k v] a IH]; intros done b H; cbn [app all_fit] in *.
  - rewrite app_nil_r. auto.
  - destruct H as [H1 H2]. apply IH in H2 as [H2 H3].
    rewrite <- app_assoc in H3. cbn [app] in H3. auto.
Qed.

Lemma victims_loop_complete qs rc rq eq k ch kinv : forall vs s done,
  leveled qs (rc_queue rc) k = Ok (Some (rq, eq)) -> stored qs eq ->
  chain_of qs k = Some ch -> consistent qs s done ->
  all_fit qs rc done (map (fun v => (k, v)) vs) ->
  exists s', victims_loop (rc_res rc) rq eq ch kinv vs s = (true, s') /\
             consistent qs s' (done ++ map (fun v => (k, v)) vs).
Proof.
  induction vs as [|v vs IH]; intros s done Hl Heq Hc Hs Hf; cbn [victims_loop map] in *.
  - exists s. rewrite app_nil_r. auto.
  - cbn [all_fit] in Hf. destruct Hf as [[rq' [eq' [Hl' [_ Hfit]]]] Hrest].
    rewrite Hl in Hl'. injection Hl' as <- <-.
    rewrite (Hs eq Heq), Hfit.
    destruct (IH _ _ Hl Heq Hc (consistent_subtract qs s done k ch kinv v Hc Hs) Hrest) as [s' [H1 H2]].
    exists s'. split; [exact H1|]. now rewrite <- app_assoc in H2.
Qed.

Lemma step_key_complete qs rc k vs s done :
  consistent qs s done -> vs <> [] ->
  all_fit qs rc done (map (fun v => (k, v)) vs) ->
  exists s', step_key qs rc (k, vs) s = Ok (true, s') /\
             consistent qs s' (done ++ map (fun v => (k, v)) vs).
Proof.
  intros Hs Hne Hf. destruct vs as [|v vs]; [congruence|].
  pose proof Hf as Hf0. cbn [map all_fit] in Hf0. destruct Hf0 as [[rq [eq [Hl [Heq _]]]] _].
  destruct (leveled_stored _ _ _ _ _ Hl) as [ca [cb [_ [Ecb _]]]].
  unfold step_key. rewrite Hl, Ecb.
  set (s2 := touch {| rem := rem s; inv := aset (inv s) k (involved_names (v :: vs)) |} eq).
  assert (Hs2 : consistent qs s2 done).
  { apply consistent_touch; [exact Heq|]. intros q Hq. rewrite <- (Hs q Hq). reflexivity. }
  destruct (victims_loop_complete qs rc rq eq k cb (involved_names (v :: vs)) (v :: vs) s2 done
              Hl Heq Ecb Hs2 Hf) as [s' [H1 H2]].
  exists s'. rewrite H1. auto.
Qed.

Lemma reclaim_from_complete qs rc : forall victims s done,
  consistent qs s done -> (forall kv, In kv victims -> snd kv <> []) ->
  all_fit qs rc done (flatten victims) ->
  exists s', reclaim_from qs rc victims s = Ok (true, s') /\
             consistent qs s' (done ++ flatten victims).
Proof.
  induction victims as [|[k vs] victims IH]; intros s done Hs Hne Hf.
  - exists s. cbn [reclaim_from]. unfold flatten. cbn [flat_map]. rewrite app_nil_r. auto.
  - change (flatten ((k, vs) :: victims)) with (map (fun v => (k, v)) vs ++ flatten victims) in *.
    apply all_fit_app_inv in Hf as [Hf1 Hf2].
    destruct (step_key_complete qs rc k vs s done Hs (Hne (k, vs) (or_introl eq_refl)) Hf1) as [s1 [E1 Hs1]].
    destruct (IH s1 _ Hs1 (fun kv H => Hne kv (or_intror H)) Hf2) as [s' [E2 Hs2]].
    exists s'. cbn [reclaim_from]. rewrite E1. split; [exact E2|]. now rewrite app_assoc.
Qed.

(** every key of the remaining-map is a stored queue with an involved-resources entry *)
Definition wellkeyed (qs : list queue) (s : st) : Prop :=
  forall k, In k (map fst (rem s)) -> lookup qs k <> None /\ has_entry s k.

Lemma subtract_keys_bound kinv amt : forall ch s id,
  In id (map fst (rem (subtract ch kinv amt s))) -> In id (map fst (rem s)) \/ In id (map q_id ch).
Proof.
  unfold subtract. induction ch as [|x ch IH]; intros s id H; cbn [fold_left] in H; [now left|].
  apply IH in H as [H|H]; [|right; now right].
  unfold sub_one in H. cbn [rem] in H. apply aset_keys in H as [->|H]; [right; now left|now left].
Qed.

Lemma victims_loop_keys_bound rr rq eq ch kinv : forall vs s s' id,
  victims_loop rr rq eq ch kinv vs s = (true, s') ->
  In id (map fst (rem s')) -> In id (map fst (rem s)) \/ In id (map q_id ch).
Proof.
  induction vs as [|v vs IH]; intros s s' id H Hin; cbn [victims_loop] in H.
  - injection H as <-. now left.
  - destruct (fits_strategy _ _ _ _); [|discriminate].
    destruct (IH _ _ _ H Hin) as [H1|H1]; [|now right].
    apply subtract_keys_bound in H1. exact H1.
Qed.

Lemma step_key_wellkeyed qs rc k vs s s' :
  step_key qs rc (k, vs) s = Ok (true, s') -> vs <> [] -> wellkeyed qs s -> wellkeyed qs s'.
Proof.
  intros H Hne HW id Hid.
  destruct (step_key_track _ _ _ _ _ _ H) as [ch [Hch [_ [T1' [_ T3]]]]].
  unfold step_key in H.
  destruct (leveled qs (rc_queue rc) k) as [[[rq eq]|]| |] eqn:El; try discriminate.
  rewrite Hch in H. injection H as H.
  destruct (leveled_stored _ _ _ _ _ El) as [ca [cb [_ [Ecb [_ Hin]]]]].
  rewrite Hch in Ecb. injection Ecb as <-.
  assert (Hchain : forall x, In x ch -> lookup qs (q_id x) <> None /\ has_entry s' (q_id x)).
  { intros x Hx. split.
    - unfold chain_of in Hch. rewrite (chain_lookup _ _ _ _ Hch x Hx). discriminate.
    - destruct (T3 Hne x Hx) as [_ [B _]]. exact B. }
  destruct (victims_loop_keys_bound _ _ _ _ _ _ _ _ _ H Hid) as [H1|H1].
  - unfold touch in H1. cbn [rem] in H1.
    destruct (aget (rem s) (q_id eq)); cbn [rem] in H1.
    + destruct (HW id H1) as [A B]. split; [exact A|apply T1', B].
    + apply aset_keys in H1 as [->|H1]; [apply Hchain, Hin|].
      destruct (HW id H1) as [A B]. split; [exact A|apply T1', B].
  - apply in_map_iff in H1 as [x [<- Hx]]. apply Hchain, Hx.
Qed.

Lemma reclaim_from_wellkeyed qs rc : forall victims s s',
  reclaim_from qs rc victims s = Ok (true, s') -> (forall kv, In kv victims -> snd kv <> []) ->
  wellkeyed qs s -> wellkeyed qs s'.
Proof.
  induction victims as [|[k vs] victims IH]; intros s s' H Hne HW; cbn [reclaim_from] in H.
  - injection H as <-. exact HW.
  - destruct (step_key qs rc (k, vs) s) as [[[|] s1]| |] eqn:Es; try discriminate.
    apply (IH s1 s' H); [intros kv Hkv; apply Hne; now right|].
    eapply step_key_wellkeyed; eauto. apply (Hne (k, vs)). now left.
Qed.

Lemma siblings_ok_complete m qs rinv rq cur s : forall keys,
  (forall k, In k keys -> lookup qs k <> None /\ has_entry s k) ->
  (forall sib i, In sib qs ->
     saturation_lower m (iunion i rinv) cur (fair_vec rq) (cur_rem s sib) (fair_vec sib) = true) ->
  siblings_ok m qs rinv rq cur s keys = Ok true.
Proof.
  induction keys as [|k keys IH]; intros HK HS; [reflexivity|]. cbn [siblings_ok].
  destruct (HK k (or_introl eq_refl)) as [Hl [i Hi]].
  destruct (lookup qs k) as [sib|] eqn:El; [|congruence].
  assert (IHk : siblings_ok m qs rinv rq cur s keys = Ok true).
  { apply IH; [|exact HS]. intros k' Hk'. apply HK. now right. }
  match goal with |- (if ?c then _ else _) = _ => destruct c end; [exact IHk|].
  rewrite Hi. rewrite HS by (eapply lookup_in; eauto). exact IHk.
Qed.

(** level [a] of the reclaimer's chain, holding [v] before the reclaimer is added: it cannot fail
    the saturation comparison against any queue, and a non-preemptible reclaimer stays within the
    deserved quota *)
Definition level_fine (m : Q) (qs : list queue) (rc : reclaimer) (a : queue) (v : vec) : Prop :=
  (forall i sa sib, In sib qs ->
     saturation_lower m i (vadd v (quantify (rc_res rc))) (fair_vec a) sa (fair_vec sib) = true) /\
  (rc_preemptible rc = false ->
   less_equal (vadd (allocnp_vec a) (quantify (rc_res rc))) (deserved_vec a) = true).

Lemma boundaries_complete m qs rc : forall rest s,
  NoDup (map q_id rest) -> wellkeyed qs s ->
  (forall a, In a rest -> level_fine m qs rc a (cur_rem s a)) ->
  boundaries m qs rc rest s = Ok true.
Proof.
  induction rest as [|a rest IH]; intros s Hnd HK HL; [reflexivity|].
  cbn [boundaries].
  fold (bump s a (vadd (cur_rem s a) (quantify (rc_res rc)))).
  set (cur := vadd (cur_rem s a) (quantify (rc_res rc))).
  set (s' := bump s a cur).
  destruct (HL a (or_introl eq_refl)) as [Hsat Hnp].
  cbn [map] in Hnd. apply NoDup_cons_iff in Hnd as [Hnin Hnd].
  assert (HK' : wellkeyed qs s').
  { intros k Hk. unfold s' in Hk. apply bump_keys in Hk. destruct (HK k Hk) as [A [i B]].
    split; [exact A|]. exists i. unfold s'. now rewrite bump_inv. }
  assert (IHs : boundaries m qs rc rest s' = Ok true).
  { apply IH; [exact Hnd|exact HK'|]. intros b Hb. unfold s'. rewrite bump_cur_rem.
    - apply HL. now right.
    - intros E. apply Hnin. rewrite <- E. now apply in_map. }
  rewrite siblings_ok_complete.
  - destruct (rc_preemptible rc); [exact IHs|]. rewrite Hnp by reflexivity. exact IHs.
  - intros k Hk. apply HK'. exact Hk.
  - intros sib i Hin. apply Hsat. exact Hin.
Qed.

(** Reclaimable accepts: every victim fits when it is examined, and every level of the
    reclaimer's chain is fine with what the level holds once all victims are taken *)
Theorem reclaimable_complete m qs rc victims ch :
  chain_of qs (rc_queue rc) = Some ch ->
  (forall kv, In kv victims -> snd kv <> []) ->
  all_fit qs rc [] (flatten victims) ->
  (forall a, In a ch -> level_fine m qs rc a (rem_before qs (flatten victims) a)) ->
  reclaimable m qs rc victims = Ok true.
Proof.
  intros Hch Hne Hfit Hlev. unfold reclaimable.
  destruct (reclaim_from_complete qs rc victims st0 [] (consistent_st0 qs) Hne Hfit) as [s [E Hs]].
  rewrite E, Hch. cbn [app] in Hs.
  apply boundaries_complete.
  - unfold chain_of in Hch. eapply chain_nodup; eauto.
  - eapply reclaim_from_wellkeyed; eauto. intros k Hk. cbn in Hk. contradiction.
  - intros a Ha. rewrite (Hs a).
    + apply Hlev, Ha.
    + unfold chain_of in Hch. eapply chain_lookup; eauto.
Qed.

(** * 4. The numbers *)

Lemma unl_neg : (unlimited == -1)%Q.
Proof. reflexivity. Qed.

Lemma cmp_gt_unl a : cmp_gt a unlimited = false.
Proof. unfold cmp_gt. destruct (is_unl a); reflexivity. Qed.

Lemma not_unl a : (0 <= a)%Q -> is_unl a = false.
Proof. intros H. apply is_unl_false. unfold unlimited. intros E. rewrite E in H. lra. Qed.

Lemma cmp_gt_le a b : (0 <= a)%Q -> (a <= b)%Q -> cmp_gt a b = false.
Proof.
  intros H0 H. unfold cmp_gt. rewrite (not_unl a H0), (not_unl b) by lra. now apply Qgtb_false.
Qed.

Lemma cmp_gt_lt a b : (0 <= b)%Q -> (b < a)%Q -> cmp_gt a b = true.
Proof.
  intros H0 H. unfold cmp_gt. rewrite (not_unl b H0), (not_unl a) by lra. now apply Qgtb_true.
Qed.

Lemma less_equal_intro a b :
  cmp_gt (v_cpu a) (v_cpu b) = false -> cmp_gt (v_mem a) (v_mem b) = false ->
  cmp_gt (v_gpu a) (v_gpu b) = false -> less_equal a b = true.
Proof. intros H1 H2 H3. unfold less_equal. cbn [forallb all_res vget]. now rewrite H1, H2, H3. Qed.

Lemma less_equal_gpu_false a b : cmp_gt (v_gpu a) (v_gpu b) = true -> less_equal a b = false.
Proof.
  intros H. unfold less_equal. cbn [forallb all_res vget]. rewrite H. cbn [negb].
  now rewrite !andb_false_r.
Qed.

Lemma inj_le a b : (a <= b)%Z -> (inject_Z a <= inject_Z b)%Q.
Proof. intros H. now rewrite <- Zle_Qle. Qed.
Lemma inj_lt a b : (a < b)%Z -> (inject_Z a < inject_Z b)%Q.
Proof. intros H. now rewrite <- Zlt_Qlt. Qed.
Lemma inj_plus1 a : (inject_Z a + (1 + 0) == inject_Z (a + 1))%Q.
Proof. rewrite inject_Z_plus. change (inject_Z 1) with 1%Q. ring. Qed.

(** the vectors of a queue of numbers *)
Lemma alloc_vec_rq x : alloc_vec (to_rq x) = mkvec 0 0 (inject_Z (pq_alloc x)).
Proof. reflexivity. Qed.
Lemma allocnp_vec_rq x : allocnp_vec (to_rq x) = mkvec 0 0 (inject_Z (pq_np x)).
Proof. reflexivity. Qed.
Lemma deserved_vec_rq x : deserved_vec (to_rq x) = mkvec unlimited unlimited (dq (pq_deserved x)).
Proof. reflexivity. Qed.
Lemma fair_vec_rq x : fair_vec (to_rq x) = mkvec unlimited unlimited (pq_fair x # 100).
Proof. reflexivity. Qed.
Lemma quantify_unit : quantify unit_res = mkvec 0 0 (1 + 0).
Proof. reflexivity. Qed.

(** [x + 1] units within the deserved quota of queue [q] *)
Lemma within_quota_cmp x q v :
  within_quota (x + 1) (pq_deserved q) = true -> (0 <= v)%Q -> (v <= inject_Z (x + 1))%Q ->
  cmp_gt v (dq (pq_deserved q)) = false.
Proof.
  unfold within_quota, dq. intros H H0 Hv.
  destruct (pq_deserved q <? 0)%Z; [apply cmp_gt_unl|]. cbn [orb] in H. apply Z.leb_le in H.
  apply cmp_gt_le; [exact H0|]. eapply Qle_trans; [exact Hv|]. now apply inj_le.
Qed.

Lemma within_quota_unit x q :
  within_quota (x + 1) (pq_deserved q) = true -> (0 <= x)%Z ->
  cmp_gt (inject_Z x + (1 + 0)) (dq (pq_deserved q)) = false.
Proof.
  intros H H0. apply (within_quota_cmp x); [exact H| |].
  - rewrite inj_plus1. change 0%Q with (inject_Z 0). apply inj_le. lia.
  - rewrite inj_plus1. apply Qle_refl.
Qed.

Definition unit_done (done : list (qid * res)) : Prop := Forall (fun kv => snd kv = unit_res) done.

(** what a queue holds after unit victims were taken: CPU and memory untouched, at most one GPU
    less per victim, one GPU less for every victim of the queue's subtree *)
Definition on_count (qs : list queue) (q : queue) (done : list (qid * res)) : Z :=
  Z.of_nat (List.length (filter (fun kv => on_chain qs (fst kv) (q_id q)) done)).

Lemma rem_units qs q : forall done acc, unit_done done ->
  let v := fold_left (fun acc kv => if on_chain qs (fst kv) (q_id q)
                                    then vsub acc (quantify (snd kv)) else acc) done acc in
  (v_cpu v == v_cpu acc)%Q /\ (v_mem v == v_mem acc)%Q /\
  (v_gpu acc - inject_Z (Z.of_nat (List.length done)) <= v_gpu v)%Q /\
  (v_gpu v <= v_gpu acc - inject_Z (on_count qs q done))%Q.
Proof.
  unfold on_count.
  induction done as [|kv done IH]; intros acc H; cbn [fold_left List.length filter].
  - change (inject_Z (Z.of_nat 0)) with 0%Q. repeat split; try reflexivity; lra.
  - inversion H as [|? ? Hkv Hd]; subst. rewrite Hkv.
    destruct (on_chain qs (fst kv) (q_id q)) eqn:E.
    + destruct (IH (vsub acc (quantify unit_res)) Hd) as [A [B [C D]]].
      cbn [List.length]. rewrite !Nat2Z.inj_succ, <- !Z.add_1_r, !inject_Z_plus.
      change (inject_Z 1) with 1%Q.
      rewrite quantify_unit in *. cbn [vsub v_cpu v_mem v_gpu] in A, B, C, D.
      repeat split; lra.
    + destruct (IH acc Hd) as [A [B [C D]]].
      rewrite Nat2Z.inj_succ, <- Z.add_1_r, inject_Z_plus. change (inject_Z 1) with 1%Q.
      repeat split; lra.
Qed.

Lemma rem_before_units qs done x : unit_done done ->
  let v := rem_before qs done (to_rq x) in
  (v_cpu v == 0)%Q /\ (v_mem v == 0)%Q /\
  (inject_Z (pq_alloc x) - inject_Z (Z.of_nat (List.length done)) <= v_gpu v)%Q /\
  (v_gpu v <= inject_Z (pq_alloc x) - inject_Z (on_count qs (to_rq x) done))%Q.
Proof.
  intros H. unfold rem_before.
  destruct (rem_units qs (to_rq x) done (alloc_vec (to_rq x)) H) as [A [B [C D]]].
  rewrite alloc_vec_rq in *. cbn [v_cpu v_mem v_gpu] in A, B, C, D. auto.
Qed.

(** FitsReclaimStrategy (GuaranteeDeservedQuota): the reclaimer's side within its deserved quota,
    the victims' side holding more than its finite deserved quota *)
Lemma fits_unit x e h :
  (0 <= pq_alloc x)%Z -> within_quota (pq_alloc x + 1) (pq_deserved x) = true ->
  (0 <= pq_deserved e)%Z -> (inject_Z (pq_deserved e) < v_gpu h)%Q ->
  fits_strategy unit_res (to_rq x) (to_rq e) h = true.
Proof.
  intros Ha Hw Hd Hh. unfold fits_strategy.
  destruct (maintain_fair_share (to_rq e) h); [reflexivity|].
  unfold guarantee_deserved, reclaimer_over_quota.
  rewrite less_equal_intro.
  - cbn [negb]. rewrite less_equal_gpu_false; [reflexivity|].
    rewrite deserved_vec_rq. cbn [v_gpu]. unfold dq.
    destruct (Z.ltb_spec (pq_deserved e) 0); [lia|].
    apply cmp_gt_lt; [|exact Hh]. change 0%Q with (inject_Z 0). now apply inj_le.
  - rewrite deserved_vec_rq. apply cmp_gt_unl.
  - rewrite deserved_vec_rq. apply cmp_gt_unl.
  - rewrite deserved_vec_rq, alloc_vec_rq, quantify_unit. cbn [vadd v_gpu].
    now apply within_quota_unit.
Qed.

(** the saturation ratio of a level that stays within its positive fair share is at most 1 *)
Lemma ratio_within ra rf : (0 < rf)%Q -> (ra <= rf)%Q -> ext_gt1 (ratio ra rf) = false.
Proof.
  intros Hp Hle. unfold ratio.
  assert (E0 : Qeq_bool rf 0 = false).
  { apply Qeq_bool_false. intros E. rewrite E in Hp. discriminate Hp. }
  assert (Eu : is_unl rf = false).
  { apply is_unl_false. rewrite unl_neg. intros E. rewrite E in Hp. discriminate Hp. }
  rewrite E0, Eu. cbn [ext_gt1]. apply Qgtb_false.
  apply Qle_shift_div_r; [exact Hp|]. now rewrite Qmult_1_l.
Qed.

Lemma saturation_ok1_within m ra rf sa sf :
  (0 < rf)%Q -> (ra <= rf)%Q -> saturation_ok1 m ra rf sa sf = true.
Proof.
  intros Hp Hle. unfold saturation_ok1.
  destruct (is_unl rf && is_unl sf); [reflexivity|].
  now rewrite (ratio_within _ _ Hp Hle).
Qed.

Lemma level_fine_unit qs leaf preemptible x v t :
  (v_cpu v == 0)%Q -> (v_mem v == 0)%Q -> (v_gpu v <= inject_Z (pq_alloc x) - inject_Z t)%Q ->
  (0 <= pq_np x)%Z -> (t <= pq_alloc x)%Z -> (100 * (pq_alloc x - t + 1) <= pq_fair x)%Z ->
  (preemptible = false -> within_quota (pq_np x + 1) (pq_deserved x) = true) ->
  level_fine 1 (map to_rq qs) (unit_reclaimer leaf preemptible) (to_rq x) v.
Proof.
  intros Hc Hm Hg Hnp Ht Hf Hw. split.
  - intros i sa sib Hin. apply in_map_iff in Hin as [y [<- _]].
    unfold saturation_lower. cbn [forallb all_res]. rewrite !fair_vec_rq.
    cbn [vget v_cpu v_mem v_gpu unit_reclaimer rc_res].
    assert (Hu : forall a b, saturation_ok1 1 a unlimited b unlimited = true) by reflexivity.
    rewrite !Hu.
    rewrite saturation_ok1_within.
    + destruct (imem i Cpu), (imem i Mem), (imem i Gpu); reflexivity.
    + unfold Qlt. cbn [Qnum Qden]. lia.
    + rewrite quantify_unit. cbn [vadd v_gpu].
      apply Qle_trans with (inject_Z (pq_alloc x - t) + (1 + 0))%Q.
      * unfold Z.sub. rewrite inject_Z_plus, inject_Z_opp. lra.
      * rewrite inj_plus1. unfold Qle. cbn [Qnum Qden inject_Z]. lia.
  - cbn [unit_reclaimer rc_preemptible rc_res]. intros Hp. specialize (Hw Hp).
    rewrite allocnp_vec_rq, deserved_vec_rq, quantify_unit. cbn [vadd].
    apply less_equal_intro; cbn [v_cpu v_mem v_gpu]; try apply cmp_gt_unl.
    now apply within_quota_unit.
Qed.

(** [on_chain] of Model/ReclaimSpec.v on the numbers *)
Lemma existsb_map_rq id l :
  existsb (fun x => Pos.eqb (q_id x) id) (map to_rq l) = existsb (fun x => Pos.eqb (pq_id x) id) l.
Proof. induction l as [|a l IH]; cbn [map existsb]; [reflexivity|]. now rewrite IH. Qed.

Lemma on_chain_under qs k id :
  acyclicb (map to_rq qs) = true -> on_chain (map to_rq qs) k id = under qs id k.
Proof.
  intros H. unfold on_chain, under.
  destruct (chain_of (map to_rq qs) k) as [ch|] eqn:E; [|exfalso; revert E; now apply acyclicb_chain].
  rewrite (chain_of_q _ _ _ E). apply existsb_map_rq.
Qed.

(** * 5. The victims grouped by queue *)

Lemma flatten_cons k (l : list res) r :
  flatten ((k, l) :: r) = map (fun v => (k, v)) l ++ flatten r.
Proof. reflexivity. Qed.

Lemma add_victim_nonempty q : forall m,
  (forall kv, In kv m -> snd kv <> []) -> forall kv, In kv (add_victim q m) -> snd kv <> [].
Proof.
  induction m as [|[k l] m IH]; intros H kv Hin; cbn [add_victim] in Hin.
  - destruct Hin as [<-|[]]. discriminate.
  - destruct (Pos.eqb k q).
    + destruct Hin as [<-|Hin]; [discriminate|]. apply H. now right.
    + destruct Hin as [<-|Hin]; [apply (H (k, l)); now left|].
      apply IH; [|exact Hin]. intros kv' H'. apply H. now right.
Qed.

Lemma add_victim_forall (Q : qid * res -> Prop) q : forall m,
  Q (q, unit_res) -> Forall Q (flatten m) -> Forall Q (flatten (add_victim q m)).
Proof.
  induction m as [|[k l] m IH]; intros Hq H; cbn [add_victim].
  - rewrite flatten_cons. cbn [map app]. constructor; [exact Hq|constructor].
  - rewrite flatten_cons in H. apply Forall_app in H as [H1 H2].
    destruct (Pos.eqb_spec k q) as [->|N]; rewrite flatten_cons.
    + cbn [map app]. constructor; [exact Hq|]. apply Forall_app. auto.
    + apply Forall_app. auto.
Qed.

Lemma add_victim_length q : forall m,
  List.length (flatten (add_victim q m)) = S (List.length (flatten m)).
Proof.
  induction m as [|[k l] m IH]; cbn [add_victim]; [reflexivity|].
  destruct (Pos.eqb k q); rewrite !flatten_cons, !app_length.
  - reflexivity.
  - rewrite IH. lia.
Qed.

Lemma add_victim_count (f : qid -> bool) q : forall m,
  List.length (filter (fun kv : qid * res => f (fst kv)) (flatten (add_victim q m))) =
  ((if f q then 1 else 0) + List.length (filter (fun kv : qid * res => f (fst kv)) (flatten m)))%nat.
Proof.
  induction m as [|[k l] m IH]; cbn [add_victim].
  - rewrite flatten_cons. cbn [map app filter fst]. destruct (f q); reflexivity.
  - destruct (Pos.eqb_spec k q) as [->|N]; rewrite !flatten_cons.
    + cbn [map app filter fst]. destruct (f q); reflexivity.
    + rewrite !filter_app, !app_length, IH. lia.
Qed.

Lemma group_victims_count (f : qid -> bool) victims :
  List.length (filter (fun kv : qid * res => f (fst kv)) (flatten (group_victims victims))) =
  List.length (filter f victims).
Proof.
  unfold group_victims.
  assert (G : forall l m,
    List.length (filter (fun kv : qid * res => f (fst kv)) (flatten (fold_left (fun m q => add_victim q m) l m))) =
    (List.length (filter (fun kv : qid * res => f (fst kv)) (flatten m)) + List.length (filter f l))%nat).
  { induction l as [|q l IH]; intros m; cbn [fold_left filter]; [cbn [List.length]; lia|].
    rewrite IH, add_victim_count. destruct (f q); cbn [List.length]; lia. }
  rewrite G. reflexivity.
Qed.

Lemma group_victims_spec (Q : qid * res -> Prop) victims :
  (forall q, In q victims -> Q (q, unit_res)) ->
  let g := group_victims victims in
  (forall kv, In kv g -> snd kv <> []) /\ Forall Q (flatten g) /\
  List.length (flatten g) = List.length victims.
Proof.
  intros HQ. unfold group_victims.
  assert (G : forall l m, (forall q, In q l -> Q (q, unit_res)) ->
              (forall kv, In kv m -> snd kv <> []) -> Forall Q (flatten m) ->
              let g := fold_left (fun m q => add_victim q m) l m in
              (forall kv, In kv g -> snd kv <> []) /\ Forall Q (flatten g) /\
              List.length (flatten g) = (List.length (flatten m) + List.length l)%nat).
  { induction l as [|q l IH]; intros m Hl Hm Hf; cbn [fold_left List.length].
    - repeat split; auto.
    - destruct (IH (add_victim q m)) as [A [B C]].
      + intros q' Hq'. apply Hl. now right.
      + now apply add_victim_nonempty.
      + apply add_victim_forall; [apply Hl; now left|exact Hf].
      + repeat split; auto. rewrite C, add_victim_length. lia. }
  destruct (G victims [] HQ) as [A [B C]]; [intros kv []|constructor|].
  repeat split; auto.
Qed.

(** * 6. The reclaim clause in numbers makes the plugin say yes *)

Section Accept.
  Variable qs : list pqueue.
  Variable leaf : positive.
  Variable preemptible : bool.
  Variable victims : list positive.
  Hypothesis Hac : acyclicb (map to_rq qs) = true.
  Hypothesis Hgate : leaf_gate_good qs leaf.
  Hypothesis Hch : Forall (level_good qs preemptible victims) (chain_q qs leaf).
  Hypothesis Hv : Forall (fun k => reclaimer_level_within qs leaf k = true /\
                                   victim_level_above qs leaf k (Z.of_nat (List.length victims) - 1) = true) victims.

  Let qs' := map to_rq qs.
  Let rc := unit_reclaimer leaf preemptible.

  Lemma level_in_chain k x e : level_of qs leaf k = Some (x, e) -> In x (chain_q qs leaf).
  Proof.
    unfold level_of. intros H. apply diverge_elim in H as [ca [cb [ra [rb [Pa _]]]]].
    apply in_rev. fold (path_q qs leaf). rewrite Pa. apply in_or_app. right. now left.
  Qed.

  Lemma taken_nonneg a : (0 <= taken_under qs victims a)%Z.
  Proof. unfold taken_under. lia. Qed.

  Lemma all_fit_units : forall todo done,
    unit_done done -> Forall (fun kv => snd kv = unit_res /\ In (fst kv) victims) todo ->
    (List.length done + List.length todo <= List.length victims)%nat ->
    all_fit qs' rc done todo.
  Proof.
    induction todo as [|[k v] todo IH]; intros done Hd Ht Hlen; cbn [all_fit]; [exact I|].
    inversion Ht as [|? ? [Hkv Hin] Ht']; subst. cbn [fst snd] in Hkv, Hin. subst v. split.
    - rewrite Forall_forall in Hv. destruct (Hv k Hin) as [Hr Hvk].
      unfold victim_level_above in Hvk. unfold reclaimer_level_within in Hr.
      destruct (level_of qs leaf k) as [[x e]|] eqn:El; [|discriminate].
      apply andb_true_iff in Hvk as [Hd0 Hd1]. apply Z.leb_le in Hd0. apply Z.ltb_lt in Hd1.
      assert (Hl : leveled qs' leaf k = Ok (Some (to_rq x, to_rq e))).
      { apply leveled_is_divergence; auto using acyclicb_chain. }
      exists (to_rq x), (to_rq e). split; [exact Hl|].
      split.
      + destruct (leveled_stored _ _ _ _ _ Hl) as [ca [cb [_ [Ecb [_ Hie]]]]].
        unfold chain_of in Ecb. unfold stored. eapply chain_lookup; eauto.
      + pose proof (level_in_chain _ _ _ El) as Hx. rewrite Forall_forall in Hch.
        destruct (Hch x Hx) as [_ [Hta _]]. pose proof (taken_nonneg x) as Htn.
        cbn [rc unit_reclaimer rc_res]. apply fits_unit; auto; [lia|].
        destruct (rem_before_units qs' done e Hd) as [_ [_ [Hlo _]]].
        eapply Qlt_le_trans; [|exact Hlo].
        cbn [List.length] in Hlen.
        assert (Hz : (pq_deserved e < pq_alloc e - Z.of_nat (List.length done))%Z) by lia.
        apply inj_lt in Hz. unfold Z.sub in Hz. rewrite inject_Z_plus, inject_Z_opp in Hz.
        exact Hz.
    - apply IH; [|exact Ht'|].
      + unfold unit_done. apply Forall_app. split; [exact Hd|]. constructor; [reflexivity|constructor].
      + rewrite app_length. cbn [List.length] in *. lia.
  Qed.

  Theorem tree_reclaimable_accepts : tree_reclaimable qs leaf preemptible victims = true.
  Proof.
    unfold tree_reclaimable. fold qs' rc.
    destruct (group_victims_spec (fun kv => snd kv = unit_res /\ In (fst kv) victims) victims)
      as [Hne [Hall Hlen]]; [intros q Hq; split; [reflexivity|exact Hq]|].
    destruct (chain_of qs' (rc_queue rc)) as [ch|] eqn:Ech;
      [|exfalso; revert Ech; apply acyclicb_chain; exact Hac].
    rewrite (reclaimable_complete 1 qs' rc (group_victims victims) ch Ech Hne); [reflexivity| |].
    - apply all_fit_units; [constructor|exact Hall|]. apply Nat.eq_le_incl. exact Hlen.
    - intros a Ha. pose proof (chain_of_q _ _ _ Ech) as Ec. cbn [rc unit_reclaimer rc_queue] in Ec.
      rewrite Ec in Ha. apply in_map_iff in Ha as [x [<- Hx]].
      rewrite Forall_forall in Hch. destruct (Hch x Hx) as [Hnp [Hta [Hf Hw]]].
      assert (Hu : unit_done (flatten (group_victims victims))).
      { unfold unit_done. eapply Forall_impl; [|exact Hall]. intros kv [H _]. exact H. }
      destruct (rem_before_units qs' _ x Hu) as [Hc [Hm [_ Hg]]].
      apply (level_fine_unit qs leaf preemptible x _ (taken_under qs victims x)); auto.
      replace (taken_under qs victims x) with (on_count qs' (to_rq x) (flatten (group_victims victims))); [exact Hg|].
      unfold on_count, taken_under. f_equal.
      etransitivity; [|exact (group_victims_count (fun k => under qs (pq_id x) k) victims)].
      f_equal. apply filter_ext. intros kv. unfold qs'. now rewrite on_chain_under.
  Qed.

  Theorem tree_can_reclaim_accepts : tree_can_reclaim qs leaf preemptible = true.
  Proof.
    unfold tree_can_reclaim, can_reclaim. cbn [unit_reclaimer rc_queue rc_res rc_preemptible].
    rewrite lookup_map. unfold leaf_gate_good in Hgate. unfold chain_q in Hgate, Hch. cbn [climb] in Hgate, Hch.
    destruct (find_q qs leaf) as [x|]; [|contradiction]. cbn [option_map].
    destruct Hgate as [Hal Hf].
    inversion Hch as [|? ? [Hnp [_ [_ Hwn]]] _]; subst.
    rewrite less_equal_intro.
    - cbn [negb]. destruct preemptible; [reflexivity|].
      rewrite less_equal_intro; [reflexivity| | |].
      + rewrite deserved_vec_rq. apply cmp_gt_unl.
      + rewrite deserved_vec_rq. apply cmp_gt_unl.
      + rewrite deserved_vec_rq, allocnp_vec_rq, quantify_unit. cbn [vadd v_gpu].
        apply within_quota_unit; auto.
    - rewrite fair_vec_rq. apply cmp_gt_unl.
    - rewrite fair_vec_rq. apply cmp_gt_unl.
    - rewrite fair_vec_rq, alloc_vec_rq, quantify_unit. cbn [vadd v_gpu].
      apply cmp_gt_le.
      + rewrite inj_plus1. change 0%Q with (inject_Z 0). apply inj_le. lia.
      + rewrite inj_plus1. unfold Qle. cbn [Qnum Qden inject_Z]. lia.
  Qed.
End Accept.
