(** Bounded exhaustive sweeps of the C09 contract over the model (vm_compute):
    evidence for the clauses that are not (yet) proved for all inputs - no idle
    surplus, priority bands, weight monotonicity - and a cross-check of the proved
    ones and of order independence (result on the reversed and on the rotated queue
    list).  Every instance of the domains below is evaluated. *)
From Coq Require Import List ZArith QArith Bool.
From KaiV Require Import Model.FairShare Model.FairShareSpec.
Import ListNotations.
Set Default Timeout 600.
Open Scope Q_scope.

Definition same_out (a b : list queue) : bool :=
  (length a =? length b)%nat
  && forallb (fun q => match fair_of (q_uid q) b with
                       | Some f => Qeq_bool f (q_fair q) | None => false end) a.
Definition rot {A} (l : list A) : list A := match l with [] => [] | x :: r => r ++ [x] end.

(** all clauses of the contract on the model's result, and the same result for two
    other enumeration orders *)
Definition model_contract (T k : Q) (qs : list queue) : bool :=
  match set_resource_share T k qs with
  | Done (out, _) =>
      match pair_with (fun u => fair_of u out) qs with
      | Some l => contract_ok 0 T k l
      | None => false
      end
      && match set_resource_share T k (rev qs), set_resource_share T k (rot qs) with
         | Done (o1, _), Done (o2, _) => same_out out o1 && same_out out o2
         | _, _ => false
         end
  | OutOfFuel => false
  end.

Definition qdom (u : positive) (ps : list Z) (ws rs ds ls us : list Q) : list queue :=
  flat_map (fun p => flat_map (fun w => flat_map (fun r => flat_map (fun d => flat_map (fun l =>
    map (fun us => mkQ u p 0 d l w r us 0) us) ls) ds) rs) ws) ps.

(** two queues: priorities, weights incl. 0, fractional requests, quotas, limits *)
Definition d2 (u : positive) : list queue :=
  qdom u [0%Z; 1%Z] [0; 1; 2] [0; 1; 5 # 2; 4] [0; 1] [unlimited; 2] [0].
Definition dom2 : list (Q * Q * list queue) :=
  flat_map (fun T => flat_map (fun a => map (fun b => (T, 0, [a; b])) (d2 2)) (d2 1))
           [0; 1; 2; 7 # 2; 5; 8].
(** three queues, no quota: rounds, remainders, two bands *)
Definition d3 (u : positive) : list queue :=
  qdom u [0%Z; 1%Z] [0; 1; 3] [1; 5 # 2; 4; 3 # 4] [0] [unlimited] [0].
Definition dom3 : list (Q * Q * list queue) :=
  flat_map (fun T => flat_map (fun a => flat_map (fun b => map (fun c => (T, 0, [a; b; c])) (d3 3))
                                                 (d3 2)) (d3 1))
           [3; 7 # 2; 8].
(** three queues of one band with time-based fairness (k > 0, historical usage) *)
Definition dk (u : positive) : list queue :=
  qdom u [0%Z] [0; 1; 2] [1; 5 # 2; 4] [0] [unlimited] [0; 1 # 2; 2].
Definition domk : list (Q * Q * list queue) :=
  flat_map (fun k => flat_map (fun T => flat_map (fun a => flat_map (fun b =>
     map (fun c => (T, k, [a; b; c])) (dk 3)) (dk 2)) (dk 1)) [5 # 2; 8]) [1].

Definition sweep_domain : list (Q * Q * list queue) := dom2 ++ dom3 ++ domk.

Definition check_instance (x : Q * Q * list queue) : bool :=
  let '(T, k, qs) := x in model_contract T k qs.

Lemma sweep_size : N.of_nat (length sweep_domain) = 136134%N.
Proof. vm_cast_no_check (@eq_refl N 136134%N). Qed.

Lemma sweep_all : forallb check_instance sweep_domain = true.
Proof. vm_cast_no_check (@eq_refl bool true). Qed.

Theorem contract_on_sweep T k qs :
  In (T, k, qs) sweep_domain -> model_contract T k qs = true.
Proof.
  intros H. pose proof sweep_all as A. rewrite forallb_forall in A. exact (A _ H).
Qed.
