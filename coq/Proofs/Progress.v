(** C05 — proofs about the allocate loop, the victim solver in the
    interchangeable class and the scheduling-signature shortcut
    (Model/Progress.v, Model/Signatures.v).

    Contents
      1. resource vectors: componentwise order, [fit_count]
      2. nodes: idle + releasing ("non allocated") under add / convert
      3. clusters: [upd], [shrinks], the potential
      4. one task, one allocation unit: success shrinks, failure bounds the potential
      5. the loop invariant and work conservation for homogeneous units
      6. refutation of the statement for heterogeneous units (greedy placement
         is not a complete bin packing)
      7. reclaim / preempt progress in the interchangeable class
      8. the signature shortcut is not sound: witnesses
      9. non-vacuity examples
     10. the failed representatives are per queue: a skip is always on account
         of a failed job of the skipped job's own queue *)
Set Default Timeout 60.
From Coq Require Import List ZArith PArith Bool Lia ZifyBool Permutation.
From KaiV Require Import Model.Res Model.Status Model.AMap Model.Node Model.NodeSpec Proofs.Node.
From KaiV Require Import Model.Progress Model.Signatures.
Import ListNotations.
Open Scope Z_scope.

(** * 1. Resource vectors *)

Definition ple (a b : res) : Prop :=
  cpu a <= cpu b /\ mem a <= mem b /\ gpu a <= gpu b /\ pods a <= pods b /\ mig a <= mig b /\ ext a <= ext b.
Definition nonneg (r : res) : Prop := ple rzero r.

Lemma ple_refl a : ple a a.
Proof. unfold ple. lia. Qed.
Lemma ple_trans a b c : ple a b -> ple b c -> ple a c.
Proof. unfold ple. lia. Qed.
Lemma ple_rsub i i' r : ple i i' -> ple (rsub i r) (rsub i' r).
Proof. unfold ple. cbn [rsub cpu mem gpu pods mig ext]. lia. Qed.
Lemma ple_rsub_nonneg i r : nonneg r -> ple (rsub i r) i.
Proof. unfold nonneg, ple. cbn [rsub rzero cpu mem gpu pods mig ext]. lia. Qed.

Lemma rle_mono r i i' : ple i i' -> rle r i = true -> rle r i' = true.
Proof.
  unfold ple, rle, scal_le. intros (H1&H2&H3&H4&H5&H6) H.
  repeat (apply andb_true_iff in H as [H ?]).
  repeat (apply andb_true_iff; split); try (apply Z.leb_le; apply Z.leb_le in H; lia);
    try (match goal with
         | [ X : (?a <=? _) = true |- (?a <=? _) = true ] => apply Z.leb_le; apply Z.leb_le in X; lia
         | [ X : ((?a =? 0) || _) = true |- ((?a =? 0) || _) = true ] =>
             apply orb_true_iff; apply orb_true_iff in X as [X|X]; [left; exact X|right; apply Z.leb_le; apply Z.leb_le in X; lia]
         end).
Qed.

Lemma fit_count_mono_i k : forall i i' r, ple i i' -> (fit_count k i r <= fit_count k i' r)%nat.
Proof.
  induction k as [|k IH]; intros i i' r P; cbn [fit_count]; [lia|].
  destruct (rle r i) eqn:E; [|lia].
  rewrite (rle_mono _ _ _ P E). apply le_n_S, IH, ple_rsub, P.
Qed.

Lemma fit_count_mono_k k : forall i r, (fit_count k i r <= fit_count (S k) i r)%nat.
Proof.
  induction k as [|k IH]; intros i r; [cbn [fit_count]; lia|].
  change (fit_count (S (S k)) i r) with (if rle r i then S (fit_count (S k) (rsub i r) r) else O).
  change (fit_count (S k) i r) with (if rle r i then S (fit_count k (rsub i r) r) else O).
  destruct (rle r i); [apply le_n_S, IH|lia].
Qed.

Lemma fit_count_sub k i r : (fit_count k i r <= S (fit_count k (rsub i r) r))%nat.
Proof.
  destruct k as [|k]; [cbn [fit_count]; lia|].
  change (fit_count (S k) i r) with (if rle r i then S (fit_count k (rsub i r) r) else O).
  destruct (rle r i); [apply le_n_S, fit_count_mono_k|lia].
Qed.

Lemma fit_count_zero k i r : rle r i = false -> fit_count k i r = O.
Proof. intros H. destruct k; cbn [fit_count]; [reflexivity|]. rewrite H. reflexivity. Qed.

(** * 2. Nodes *)

(** what FittingNode compares a non-shared request with *)
Definition tsum (n : node) : res := radd (n_idle n) (n_rel n).

Definition task_ok (t : task) : Prop := is_shared t = false /\ nonneg (charge t).
Definition pods_ok (n : node) : Prop :=
  wf_pods (n_pods n) /\ Forall (fun kv => task_ok (snd kv)) (n_pods n).

Lemma charge_set_status t s gs : charge (set_status t s gs) = charge t.
Proof. reflexivity. Qed.
Lemma shared_set_status t s gs : is_shared (set_status t s gs) = is_shared t.
Proof. reflexivity. Qed.

Lemma add_task_pods n t n' : add_task n t = Ok n' -> n_pods n' = aset (t_id t) t (n_pods n).
Proof. intros H. destruct (add_task_inv _ _ _ H) as [_ ->]. rewrite n_pods_add_resources. reflexivity. Qed.

Lemma add_task_tsum n t n' :
  is_shared t = false -> (t_status t = Allocated \/ t_status t = Pipelined) ->
  add_task n t = Ok n' -> tsum n' = rsub (tsum n) (charge t).
Proof.
  intros Hs Hst H. destruct (add_task_inv _ _ _ H) as [_ ->].
  rewrite add_resources_eq, Hs. unfold tsum, add_core, d_idle, d_rel.
  cbn [n_idle n_rel set_core set_pods].
  destruct Hst as [-> | ->]; res_lia.
Qed.

Lemma amem_aset_grow {V} k k' (v : V) m : amem k m = true -> amem k (aset k' v m) = true.
Proof.
  unfold amem. intros H. destruct (Pos.eq_dec k k') as [->|Ne].
  - rewrite alookup_aset_same. reflexivity.
  - rewrite alookup_aset_other by exact Ne. exact H.
Qed.

Lemma add_task_ids n t n' k : add_task n t = Ok n' -> amem k (n_pods n) = true -> amem k (n_pods n') = true.
Proof. intros H A. rewrite (add_task_pods _ _ _ H). apply amem_aset_grow, A. Qed.

Lemma add_task_pods_ok n t n' : pods_ok n -> task_ok t -> add_task n t = Ok n' -> pods_ok n'.
Proof.
  intros [[Sk Fk] Fo] Ht H. unfold pods_ok.
  rewrite (add_task_pods _ _ _ H). split; [split|].
  - apply sorted_aset, Sk.
  - apply Forall_aset; [exact Fk|reflexivity].
  - apply Forall_aset; [exact Fo|exact Ht].
Qed.

(** the two node operations of ConvertAllAllocatedToPipelined on a stored pod *)
Lemma convert_node n key t0 :
  pods_ok n -> alookup key (n_pods n) = Some t0 ->
  exists n1 n2, remove_task n key = Ok n1
    /\ add_task n1 (set_status t0 Pipelined (t_groups t0)) = Ok n2
    /\ ple (tsum n2) (tsum n) /\ pods_ok n2
    /\ (forall k, amem k (n_pods n) = true -> amem k (n_pods n2) = true).
Proof.
  intros [[Sk Fk] Fo] A.
  assert (Hid : t_id t0 = key) by (apply (alookup_Forall _ _ _ _ Fk A)).
  assert (Hok : task_ok t0) by (apply (alookup_Forall (fun kv => task_ok (snd kv)) _ _ _ Fo A)).
  destruct Hok as [Hs Hn].
  set (n1 := remove_resources (set_pods n (adel key (n_pods n))) t0).
  assert (R1 : remove_task n key = Ok n1) by (unfold remove_task; rewrite A; reflexivity).
  assert (P1 : n_pods n1 = adel key (n_pods n)) by (unfold n1; rewrite n_pods_remove_resources; reflexivity).
  set (t1 := set_status t0 Pipelined (t_groups t0)).
  assert (A1 : alookup (t_id t1) (n_pods n1) = None).
  { change (t_id t1) with (t_id t0). rewrite Hid, P1. apply alookup_adel_same, Sk. }
  pose proof (add_task_ok _ _ A1) as R2.
  set (n2 := add_resources (set_pods n1 (aset (t_id t1) t1 (n_pods n1))) t1) in R2.
  exists n1, n2. split; [exact R1|]. split; [exact R2|].
  assert (P2 : n_pods n2 = aset key t1 (adel key (n_pods n))).
  { rewrite (add_task_pods _ _ _ R2). change (t_id t1) with (t_id t0). rewrite Hid, P1. reflexivity. }
  split; [|split].
  - (* idle + releasing: back by the charge unless the copy was terminating, then down by it *)
    rewrite (add_task_tsum n1 t1 n2 Hs (or_intror eq_refl) R2).
    change (charge t1) with (charge t0).
    unfold n1. rewrite remove_resources_eq, Hs. unfold tsum, remove_core, u_idle, u_rel.
    cbn [n_idle n_rel set_core set_pods].
    unfold nonneg, ple in *. cbn [rzero cpu mem gpu pods mig ext] in Hn.
    destruct (t_status t0); cbn [radd rsub cpu mem gpu pods mig ext]; lia.
  - unfold pods_ok. rewrite P2. split; [split|].
    + apply sorted_aset, sorted_adel, Sk.
    + apply Forall_aset; [apply Forall_adel, Fk|exact Hid].
    + apply Forall_aset; [apply Forall_adel, Fo|]. split; [exact Hs|exact Hn].
  - intros k Hk. rewrite P2. unfold amem in *.
    destruct (Pos.eq_dec k key) as [->|Ne].
    + rewrite alookup_aset_same. reflexivity.
    + rewrite alookup_aset_other by exact Ne. rewrite alookup_adel_other by exact Ne. exact Hk.
Qed.

(** * 3. Clusters *)

Lemma alookup_upd_same nid n' (ns : cluster) n :
  alookup nid ns = Some n -> alookup nid (upd nid n' ns) = Some n'.
Proof.
  induction ns as [|[k m] r IH]; cbn [alookup upd]; [discriminate|].
  destruct (Pos.eqb nid k) eqn:E; intros H.
  - cbn [alookup]. rewrite E. reflexivity.
  - cbn [alookup]. rewrite E. apply IH, H.
Qed.

Lemma alookup_upd_other k nid n' (ns : cluster) : k <> nid -> alookup k (upd nid n' ns) = alookup k ns.
Proof.
  intros Ne. induction ns as [|[k0 m] r IH]; cbn [alookup upd]; [reflexivity|].
  destruct (Pos.eqb nid k0) eqn:E; cbn [alookup].
  - apply Pos.eqb_eq in E. subst k0.
    destruct (Pos.eqb k nid) eqn:E2; [apply Pos.eqb_eq in E2; contradiction|reflexivity].
  - destruct (Pos.eqb k k0); [reflexivity|exact IH].
Qed.

Lemma alookup_in_keys {V} k (m : amap V) v : alookup k m = Some v -> In k (map fst m).
Proof.
  induction m as [|[k0 v0] r IH]; cbn [alookup map fst]; [discriminate|].
  destruct (Pos.eqb k k0) eqn:E; intros H.
  - left. symmetry. apply Pos.eqb_eq, E.
  - right. apply IH, H.
Qed.

(** [b] is a later version of node entry [a]: same name, idle + releasing not
    larger, no stored pod lost *)
Definition node_le (a b : positive * node) : Prop :=
  fst a = fst b /\ ple (tsum (snd b)) (tsum (snd a))
  /\ forall k, amem k (n_pods (snd a)) = true -> amem k (n_pods (snd b)) = true.
Definition shrinks (ns ns' : cluster) : Prop := Forall2 node_le ns ns'.

Lemma node_le_refl a : node_le a a.
Proof. split; [reflexivity|]. split; [apply ple_refl|auto]. Qed.
Lemma node_le_trans a b c : node_le a b -> node_le b c -> node_le a c.
Proof.
  intros (E1 & P1 & I1) (E2 & P2 & I2). split; [congruence|].
  split; [eapply ple_trans; eassumption|auto].
Qed.

Lemma shrinks_refl ns : shrinks ns ns.
Proof. induction ns; constructor; [apply node_le_refl|assumption]. Qed.
Lemma shrinks_trans a b c : shrinks a b -> shrinks b c -> shrinks a c.
Proof.
  intros H. revert c. induction H as [|x y l l' Hxy Hl IH]; intros c Hc; inversion Hc; subst; constructor.
  - eapply node_le_trans; eassumption.
  - apply IH. assumption.
Qed.

Lemma shrinks_upd (ns : cluster) nid n n' :
  alookup nid ns = Some n -> node_le (nid, n) (nid, n') -> shrinks ns (upd nid n' ns).
Proof.
  induction ns as [|[k m] r IH]; cbn [alookup upd]; [discriminate|].
  destruct (Pos.eqb nid k) eqn:E; intros H L.
  - injection H as ->. apply Pos.eqb_eq in E. subst k. constructor; [exact L|apply shrinks_refl].
  - constructor; [apply node_le_refl|apply IH; assumption].
Qed.

Lemma shrinks_keys ns ns' : shrinks ns ns' -> map fst ns = map fst ns'.
Proof.
  induction 1 as [|x y l l' (E & _) _ IH]; cbn [map]; [reflexivity|]. rewrite E, IH. reflexivity.
Qed.

Lemma shrinks_lookup ns ns' k n :
  shrinks ns ns' -> alookup k ns = Some n -> exists n', alookup k ns' = Some n' /\ node_le (k, n) (k, n').
Proof.
  induction 1 as [|[k1 m1] [k2 m2] l l' L _ IH]; cbn [alookup]; [discriminate|].
  destruct L as (E & P & I). cbn [fst snd] in *. subst k2.
  destruct (Pos.eqb k k1); intros H.
  - injection H as ->. exists m2. split; [reflexivity|]. split; [reflexivity|]. split; assumption.
  - apply IH, H.
Qed.

Lemma shrinks_lookup_back ns ns' k n' :
  shrinks ns ns' -> alookup k ns' = Some n' -> exists n, alookup k ns = Some n /\ node_le (k, n) (k, n').
Proof.
  induction 1 as [|[k1 m1] [k2 m2] l l' L _ IH]; cbn [alookup]; [discriminate|].
  destruct L as (E & P & I). cbn [fst snd] in *. subst k2.
  destruct (Pos.eqb k k1); intros H.
  - injection H as ->. exists m1. split; [reflexivity|]. split; [reflexivity|]. split; assumption.
  - apply IH, H.
Qed.

Definition all_pods_ok (ns : cluster) : Prop := Forall (fun kn => pods_ok (snd kn)) ns.

Lemma all_pods_ok_lookup ns k n : all_pods_ok ns -> alookup k ns = Some n -> pods_ok n.
Proof. intros F A. apply (alookup_Forall (fun kn => pods_ok (snd kn)) _ _ _ F A). Qed.

Lemma all_pods_ok_upd ns nid n' : all_pods_ok ns -> pods_ok n' -> all_pods_ok (upd nid n' ns).
Proof.
  intros F P. induction ns as [|[k m] r IH]; cbn [upd]; [constructor|].
  inversion F as [|x l Hm Hr]; subst.
  destruct (Pos.eqb nid k); constructor; try assumption. apply IH, Hr.
Qed.

(** the potential: over the nodes admitted by [pr], how many copies of [r]
    fit (counted up to [K]) into idle + releasing *)
Definition score (pr : positive -> bool) (K : nat) (r : res) (kn : positive * node) : nat :=
  if pr (fst kn) then fit_count K (tsum (snd kn)) r else O.
Fixpoint potential (pr : positive -> bool) (K : nat) (r : res) (ns : cluster) : nat :=
  match ns with
  | [] => O
  | kn :: rest => (score pr K r kn + potential pr K r rest)%nat
  end.

Lemma potential_shrinks pr K r ns ns' : shrinks ns ns' -> (potential pr K r ns' <= potential pr K r ns)%nat.
Proof.
  induction 1 as [|a b l l' (E & P & _) _ IH]; cbn [potential]; [lia|].
  unfold score. rewrite E. destruct (pr (fst b)); [|lia].
  pose proof (fit_count_mono_i K _ _ r P). lia.
Qed.

Lemma potential_mono_k pr K r ns : (potential pr K r ns <= potential pr (S K) r ns)%nat.
Proof.
  induction ns as [|kn rest IH]; cbn [potential]; [lia|].
  unfold score. destruct (pr (fst kn)); [|lia].
  pose proof (fit_count_mono_k K (tsum (snd kn)) r). lia.
Qed.

(** placing one copy of [r] on a node lowers the potential by at most one *)
Lemma potential_place pr K r (ns : cluster) nid n n' :
  alookup nid ns = Some n -> tsum n' = rsub (tsum n) r ->
  (potential pr K r ns <= S (potential pr K r (upd nid n' ns)))%nat.
Proof.
  intros A T. revert A. induction ns as [|[k m] rest IH]; cbn [alookup upd]; [discriminate|].
  destruct (Pos.eqb nid k) eqn:E; intros A; cbn [potential].
  - injection A as ->. unfold score. cbn [fst snd]. destruct (pr k); [|lia].
    rewrite T. pose proof (fit_count_sub K (tsum n) r). lia.
  - specialize (IH A). lia.
Qed.

(** binding one copy where it fits: the potential with one more unit of
    counting range was at least one larger *)
Lemma potential_bind pr K r (ns : cluster) nid n n' :
  alookup nid ns = Some n -> pr nid = true -> rle r (tsum n) = true -> tsum n' = rsub (tsum n) r ->
  (S (potential pr K r (upd nid n' ns)) <= potential pr (S K) r ns)%nat.
Proof.
  intros A Pr Fit T. revert A. induction ns as [|[k m] rest IH]; cbn [alookup upd]; [discriminate|].
  destruct (Pos.eqb nid k) eqn:E; intros A; cbn [potential].
  - injection A as ->. apply Pos.eqb_eq in E. subst k. unfold score. cbn [fst snd]. rewrite Pr.
    change (fit_count (S K) (tsum n) r) with (if rle r (tsum n) then S (fit_count K (rsub (tsum n) r) r) else O).
    rewrite Fit, T. pose proof (potential_mono_k pr K r rest). lia.
  - specialize (IH A). unfold score at 2. unfold score at 1. cbn [fst snd].
    destruct (pr k); [|lia]. pose proof (fit_count_mono_k K (tsum m) r). lia.
Qed.

Lemma potential_zero pr K r (ns : cluster) :
  (forall nid n, alookup nid ns = Some n -> pr nid = true -> rle r (tsum n) = false) ->
  NoDup (map fst ns) -> potential pr K r ns = O.
Proof.
  induction ns as [|[k m] rest IH]; intros H ND; cbn [potential]; [reflexivity|].
  cbn [map fst] in ND. inversion ND as [|x l Nin ND']; subst.
  rewrite IH; [|intros nid n A Pr|exact ND'].
  - unfold score. cbn [fst snd]. destruct (pr k) eqn:Pk; [|reflexivity].
    rewrite fit_count_zero; [reflexivity|]. apply (H k m); [|exact Pk].
    cbn [alookup]. rewrite Pos.eqb_refl. reflexivity.
  - apply (H nid n); [|exact Pr]. cbn [alookup].
    destruct (Pos.eqb nid k) eqn:E; [|exact A].
    apply Pos.eqb_eq in E. subst nid. exfalso. apply Nin. eapply alookup_in_keys, A.
Qed.

(** * 4. One task, one allocation unit *)

Definition wf_task (t : task) : Prop := is_shared t = false /\ nonneg (t_req t).

Lemma wf_task_ok t s gs : wf_task t -> task_ok (set_status t s gs).
Proof.
  intros [Hs Hn]. split; [exact Hs|]. rewrite charge_set_status. unfold charge. rewrite Hs. cbn [orb].
  destruct (t_resv t); [|exact Hn].
  unfold nonneg, ple in *. cbn [with_gpu rzero cpu mem gpu pods mig ext] in *. lia.
Qed.

Lemma charge_nonneg t : wf_task t -> nonneg (charge t).
Proof. intros H. apply (wf_task_ok t (t_status t) (t_groups t)) in H. destruct H as [_ H]. exact H. Qed.

(** the contract between the two capacity gates: once the job-level gate let
    the unit through, the node-level gate lets each of its tasks through in
    the running state of the attempt *)
Fixpoint tgate_ok (tgate : hist -> positive -> task -> positive -> bool) (h : hist) (j : positive)
         (ts : list task) : Prop :=
  match ts with
  | [] => True
  | t :: r => (forall nid, tgate h j t nid = true)
              /\ (forall pl, t_id (pl_task pl) = t_id t -> tgate_ok tgate (pl :: h) j r)
  end.

Section Unit.
  Variable pred : task -> positive -> bool.
  Variable tgate : hist -> positive -> task -> positive -> bool.
  Variable gate : hist -> positive -> list task -> bool.
  Variable nord : hist -> task -> list positive.
  Variable gsel : hist -> positive -> node -> task -> option (list positive * bool).
  Variable shouldpipe : positive -> hist -> bool.

  Notation place_on := (place_on pred tgate gsel).
  Notation place_chunk := (place_chunk pred tgate nord gsel).
  Notation attempt := (attempt pred tgate gate nord gsel shouldpipe).
  Notation fitting := (fitting pred tgate).

  Lemma allocate_nonshared h n t nid n' pl :
    is_shared t = false -> allocate_to_node gsel h n t nid = Some (n', pl) ->
    exists t', add_task n t' = Ok n' /\ pl = mkPl t' nid (pl_piped pl)
               /\ is_shared t' = false /\ charge t' = charge t /\ t_id t' = t_id t
               /\ (t_status t' = Allocated \/ t_status t' = Pipelined)
               /\ exists s gs, t' = set_status t s gs.
  Proof.
    intros Hs. unfold allocate_to_node. rewrite Hs.
    set (piped := negb (is_task_allocatable n t)).
    set (t' := set_status t (if piped then Pipelined else Allocated) (t_groups t)).
    destruct (add_task n t') as [n2|] eqn:A; [|discriminate].
    intros E. injection E as <- <-. exists t'. split; [exact A|]. split; [reflexivity|].
    split; [exact Hs|]. split; [reflexivity|]. split; [reflexivity|].
    split; [|eexists; eexists; reflexivity].
    unfold t'. destruct piped; cbn [set_status t_status]; [right|left]; reflexivity.
  Qed.

  Lemma place_on_some ns h j t order ns' pl :
    place_on ns h j t order = Some (ns', pl) ->
    exists nid n n', alookup nid ns = Some n /\ fitting h j n t nid = true
                     /\ allocate_to_node gsel h n t nid = Some (n', pl) /\ ns' = upd nid n' ns.
  Proof.
    induction order as [|nid r IH]; cbn [Progress.place_on]; [discriminate|].
    destruct (alookup nid ns) as [n|] eqn:A; [|exact IH].
    destruct (fitting h j n t nid) eqn:F; [|exact IH].
    destruct (allocate_to_node gsel h n t nid) as [[n' pl']|] eqn:Al; [|exact IH].
    intros E. injection E as <- <-. exists nid, n, n'. repeat split; assumption.
  Qed.

  (** success of one task: what the cluster looks like afterwards *)
  Lemma place_on_effect ns h j t order ns' pl :
    wf_task t -> all_pods_ok ns -> place_on ns h j t order = Some (ns', pl) ->
    exists nid n n', alookup nid ns = Some n /\ ns' = upd nid n' ns
      /\ tsum n' = rsub (tsum n) (charge t) /\ pods_ok n'
      /\ (forall k, amem k (n_pods n) = true -> amem k (n_pods n') = true)
      /\ n_pods n' = aset (t_id t) (pl_task pl) (n_pods n)
      /\ t_id (pl_task pl) = t_id t /\ pl_node pl = nid.
  Proof.
    intros Wt Ok H. destruct (place_on_some _ _ _ _ _ _ _ H) as (nid & n & n' & A & _ & Al & ->).
    destruct Wt as [Hs Hn].
    destruct (allocate_nonshared _ _ _ _ _ _ Hs Al) as (t' & Ad & Epl & Hs' & Hc & Hid & Hst & s & gs & Et).
    exists nid, n, n'. split; [exact A|]. split; [reflexivity|].
    split; [rewrite <- Hc; apply (add_task_tsum n t' n'); assumption|].
    split; [eapply add_task_pods_ok; [eapply all_pods_ok_lookup; eassumption| |exact Ad];
            rewrite Et; apply wf_task_ok; split; assumption|].
    split; [intros k; apply (add_task_ids n t' n' k Ad)|].
    rewrite Epl. cbn [pl_task pl_node]. rewrite <- Hid at 1.
    split; [apply add_task_pods; exact Ad|]. split; [exact Hid|reflexivity].
  Qed.

  Lemma place_on_shrinks ns h j t order ns' pl :
    wf_task t -> all_pods_ok ns -> place_on ns h j t order = Some (ns', pl) ->
    shrinks ns ns' /\ all_pods_ok ns'.
  Proof.
    intros Wt Ok H.
    destruct (place_on_effect _ _ _ _ _ _ _ Wt Ok H) as (nid & n & n' & A & -> & T & P & I & _).
    split; [|apply all_pods_ok_upd; assumption].
    eapply shrinks_upd; [exact A|]. split; [reflexivity|]. split; [|exact I].
    cbn [snd]. rewrite T. apply ple_rsub_nonneg, charge_nonneg, Wt.
  Qed.

  (** failure of one task: no node passes FittingNode *)
  Lemma place_on_none ns h j t order :
    is_shared t = false ->
    (forall nid n, alookup nid ns = Some n -> amem (t_id t) (n_pods n) = false) ->
    place_on ns h j t order = None ->
    forall nid n, In nid order -> alookup nid ns = Some n -> fitting h j n t nid = false.
  Proof.
    intros Hs Fresh. induction order as [|nid0 r IH]; cbn [Progress.place_on]; intros H nid n I A; [destruct I|].
    destruct (alookup nid0 ns) as [n0|] eqn:A0.
    - destruct (fitting h j n0 t nid0) eqn:F.
      + exfalso. unfold allocate_to_node in H. rewrite Hs in H.
        set (t' := set_status t (if negb (is_task_allocatable n0 t) then Pipelined else Allocated) (t_groups t)) in H.
        assert (E : alookup (t_id t') (n_pods n0) = None).
        { apply amem_false_alookup. change (t_id t') with (t_id t). eapply Fresh, A0. }
        rewrite (add_task_ok _ _ E) in H. discriminate.
      + destruct I as [<-|I]; [rewrite A0 in A; injection A as <-; exact F|].
        eapply IH; eassumption.
    - destruct I as [<-|I]; [rewrite A0 in A; discriminate|]. eapply IH; eassumption.
  Qed.

  Lemma nonshared_fit n t :
    is_shared t = false -> is_task_allocatable_on_releasing_or_idle n t = rle (t_req t) (tsum n).
  Proof.
    unfold is_shared, is_task_allocatable_on_releasing_or_idle, allocatable_on, tsum.
    destruct (t_kind t); intros H; try discriminate; reflexivity.
  Qed.

  Definition covers (keys : list positive) : Prop := forall h t k, In k keys -> In k (nord h t).

  (** failure of a homogeneous unit bounds the potential by the number of tasks placed before the failure *)
  Lemma chunk_failure K r t0 : forall ts ns h j cp,
    place_chunk ns h j ts cp = None ->
    all_pods_ok ns -> NoDup (map fst ns) -> covers (map fst ns) ->
    nonneg r -> t_req t0 = r -> Forall (same_as pred t0) ts ->
    NoDup (map t_id ts) ->
    (forall t, In t ts -> forall nid n, alookup nid ns = Some n -> amem (t_id t) (n_pods n) = false) ->
    tgate_ok tgate (cp ++ h) j ts ->
    (potential (pred t0) K r ns < List.length ts)%nat.
  Proof.
    induction ts as [|t tr IH]; intros ns h j cp H Ok ND Cov Nr Er Hom NDt Fresh TG;
      cbn [Progress.place_chunk] in H; [discriminate|].
    inversion Hom as [|x l (Hreq & Hs & Hresv & Hbe & Hpred) Hom']; subst x l.
    assert (Wt : wf_task t) by (split; [exact Hs|rewrite Hreq, Er; exact Nr]).
    assert (Hc : charge t = r) by (unfold charge; rewrite Hs, Hresv; cbn [orb]; congruence).
    destruct TG as [TGt TGr]. cbn [List.length].
    destruct (place_on ns (cp ++ h) j t (nord (cp ++ h) t)) as [[ns' pl]|] eqn:P.
    - (* placed: one unit of potential at most is gone *)
      destruct (place_on_effect _ _ _ _ _ _ _ Wt Ok P) as (nid & n & n' & A & -> & T & Pn & I & Pods & Hid & _).
      rewrite Hc in T.
      pose proof (potential_place (pred t0) K r ns nid n n' A T) as Hp.
      assert (Hk : map fst (upd nid n' ns) = map fst ns).
      { symmetry. apply shrinks_keys. eapply shrinks_upd; [exact A|].
        split; [reflexivity|]. split; [|exact I]. cbn [snd]. rewrite T. apply ple_rsub_nonneg, Nr. }
      assert (Hlt : (potential (pred t0) K r (upd nid n' ns) < List.length tr)%nat).
      { eapply IH with (h := h) (cp := pl :: cp); try eassumption.
        - apply all_pods_ok_upd; assumption.
        - rewrite Hk. exact ND.
        - rewrite Hk. exact Cov.
        - cbn [map] in NDt. inversion NDt; assumption.
        - intros t2 I2 k m Am.
          destruct (Pos.eq_dec k nid) as [->|Ne].
          + rewrite (alookup_upd_same _ _ _ _ A) in Am. injection Am as <-.
            rewrite Pods. unfold amem.
            assert (Nid : t_id t2 <> t_id t).
            { cbn [map] in NDt. inversion NDt as [|x l Nin _]; subst. intros E. apply Nin. rewrite <- E. apply in_map, I2. }
            rewrite alookup_aset_other by exact Nid.
            specialize (Fresh t2 (or_intror I2) nid n A). unfold amem in Fresh. exact Fresh.
          + rewrite alookup_upd_other in Am by exact Ne. eapply Fresh; [right; exact I2|exact Am].
        - cbn [app]. apply TGr. exact Hid. }
      lia.
    - (* not placed: every admitted node is too small *)
      rewrite potential_zero; [lia| |exact ND].
      intros nid n A Pr.
      assert (F : fitting (cp ++ h) j n t nid = false).
      { eapply place_on_none; [exact Hs| |exact P| |exact A].
        - intros k m Am. eapply Fresh; [left; reflexivity|exact Am].
        - apply Cov. eapply alookup_in_keys, A. }
      unfold Progress.fitting in F. rewrite (Hpred nid), Pr, (TGt nid), !andb_true_r in F.
      rewrite nonshared_fit in F by exact Hs. rewrite <- Er, <- Hreq. exact F.
  Qed.

  (** a placed unit: the cluster shrinks, the stored pods stay well formed,
      every operation of the attempt is on a known node under its pod id *)
  Definition present (ns : cluster) (pl : placement) : Prop :=
    exists n, alookup (pl_node pl) ns = Some n /\ amem (t_id (pl_task pl)) (n_pods n) = true.

  Lemma present_shrinks ns ns' pl : shrinks ns ns' -> present ns pl -> present ns' pl.
  Proof.
    intros S (n & A & M). destruct (shrinks_lookup _ _ _ _ S A) as (n' & A' & (_ & _ & I)).
    exists n'. split; [exact A'|]. apply I, M.
  Qed.

  Lemma chunk_success : forall ts ns h j cp ns' cp',
    Forall wf_task ts -> all_pods_ok ns -> Forall (present ns) cp ->
    place_chunk ns h j ts cp = Some (ns', cp') ->
    shrinks ns ns' /\ all_pods_ok ns' /\ Forall (present ns') cp' /\ exists x, cp' = x ++ cp.
  Proof.
    induction ts as [|t tr IH]; intros ns h j cp ns' cp' W Ok Pr H; cbn [Progress.place_chunk] in H.
    - injection H as <- <-. split; [apply shrinks_refl|]. split; [exact Ok|]. split; [exact Pr|exists []; reflexivity].
    - inversion W as [|x l Wt Wr]; subst.
      destruct (place_on ns (cp ++ h) j t (nord (cp ++ h) t)) as [[ns1 pl]|] eqn:P; [|discriminate].
      destruct (place_on_shrinks _ _ _ _ _ _ _ Wt Ok P) as [S1 Ok1].
      assert (Ppl : present ns1 pl).
      { destruct (place_on_effect _ _ _ _ _ _ _ Wt Ok P) as (nid & n & n' & A & -> & _ & _ & _ & Pods & Hid & Hn).
        exists n'. rewrite Hn. split; [eapply alookup_upd_same, A|].
        rewrite Pods, Hid. unfold amem. rewrite alookup_aset_same. reflexivity. }
      assert (Pr1 : Forall (present ns1) (pl :: cp)).
      { constructor; [exact Ppl|]. eapply Forall_impl; [|exact Pr]. intros a. apply present_shrinks, S1. }
      destruct (IH _ _ _ _ _ _ Wr Ok1 Pr1 H) as (S2 & Ok2 & Pr2 & x & ->).
      split; [eapply shrinks_trans; eassumption|]. split; [exact Ok2|]. split; [exact Pr2|].
      exists (x ++ [pl]). rewrite <- app_assoc. reflexivity.
  Qed.

  Lemma convert_one_ok ns pl :
    all_pods_ok ns -> present ns pl ->
    exists ns', convert_one ns pl = Some ns' /\ shrinks ns ns' /\ all_pods_ok ns'.
  Proof.
    intros Ok (n & A & M). unfold convert_one.
    destruct (pl_piped pl).
    - exists ns. split; [reflexivity|]. split; [apply shrinks_refl|exact Ok].
    - rewrite A. unfold amem in M.
      destruct (alookup (t_id (pl_task pl)) (n_pods n)) as [t0|] eqn:L; [|discriminate].
      pose proof (all_pods_ok_lookup _ _ _ Ok A) as Pn.
      destruct (convert_node n _ t0 Pn L) as (n1 & n2 & R1 & R2 & T & P2 & I).
      assert (Hid : t_id t0 = t_id (pl_task pl)).
      { destruct Pn as [[_ Fk] _]. apply (alookup_Forall _ _ _ _ Fk L). }
      rewrite Hid, R1, R2. eexists. split; [reflexivity|].
      split; [|apply all_pods_ok_upd; assumption].
      eapply shrinks_upd; [exact A|]. split; [reflexivity|]. split; assumption.
  Qed.

  Lemma convert_all_ok : forall ops ns,
    all_pods_ok ns -> Forall (present ns) ops ->
    exists ns', convert_all ns ops = Some ns' /\ shrinks ns ns' /\ all_pods_ok ns'.
  Proof.
    induction ops as [|pl r IH]; intros ns Ok Pr; cbn [convert_all].
    - exists ns. split; [reflexivity|]. split; [apply shrinks_refl|exact Ok].
    - inversion Pr as [|x l P1 Pr']; subst.
      destruct (convert_one_ok _ _ Ok P1) as (ns1 & -> & S1 & Ok1).
      destruct (IH ns1 Ok1) as (ns2 & E & S2 & Ok2).
      { eapply Forall_impl; [|exact Pr']. intros a. apply present_shrinks, S1. }
      exists ns2. split; [exact E|]. split; [eapply shrinks_trans; eassumption|exact Ok2].
  Qed.

  (** an attempt either changes nothing or shrinks the cluster and extends the history;
      it can only be refused by the job-level gate or by a task that fits nowhere *)
  Lemma attempt_cases ns h j ts :
    Forall wf_task ts -> all_pods_ok ns ->
    match attempt ns h j ts with
    | Some (ns', h') => shrinks ns ns' /\ all_pods_ok ns' /\ exists x, h' = x ++ h
    | None => gate h j ts = false \/ place_chunk ns h j ts [] = None
    end.
  Proof.
    intros W Ok. unfold Progress.attempt.
    destruct (gate h j ts); [|left; reflexivity].
    destruct (place_chunk ns h j ts []) as [[ns1 cp]|] eqn:P; [|right; reflexivity].
    destruct (chunk_success _ _ _ _ _ _ _ W Ok (Forall_nil _) P) as (S1 & Ok1 & Pr1 & _).
    destruct (shouldpipe j cp).
    - destruct (convert_all_ok (rev cp) ns1 Ok1) as (ns2 & -> & S2 & Ok2).
      { apply Forall_forall. intros a I. apply in_rev in I. revert a I. apply Forall_forall. exact Pr1. }
      split; [eapply shrinks_trans; eassumption|]. split; [exact Ok2|eexists; reflexivity].
    - split; [exact S1|]. split; [exact Ok1|eexists; reflexivity].
  Qed.
End Unit.

(** * 5. The loop and work conservation *)

Lemma in_set_job j' js x : In x (set_job j' js) -> x = j' \/ In x js.
Proof.
  induction js as [|j r IH]; cbn [set_job]; [intros []|].
  destruct (Pos.eqb (js_id j') (js_id j)); cbn [In]; intros [<-|H]; auto.
  destruct (IH H); auto.
Qed.

Lemma find_job_in jid js j : find_job jid js = Some j -> In j js /\ js_id j = jid.
Proof.
  induction js as [|j0 r IH]; cbn [find_job]; [discriminate|].
  destruct (Pos.eqb jid (js_id j0)) eqn:E; intros H.
  - injection H as <-. split; [left; reflexivity|]. symmetry. apply Pos.eqb_eq, E.
  - destruct (IH H). split; [right|]; assumption.
Qed.

(** a binding sequence for a homogeneous unit needs that many units of potential *)
Lemma fits_seq_potential pred r t0 : forall ts ns asg K,
  nonneg r -> t_req t0 = r -> Forall (same_as pred t0) ts ->
  fits_seq pred ns ts asg = true -> (List.length ts <= K)%nat ->
  (List.length ts <= potential (pred t0) K r ns)%nat.
Proof.
  induction ts as [|t tr IH]; intros ns asg K Nr Er Hom H Len; cbn [List.length] in *; [lia|].
  destruct asg as [|nid ar]; cbn [fits_seq] in H; [discriminate|].
  destruct (alookup nid ns) as [n|] eqn:A; [|discriminate].
  inversion Hom as [|x l (Hreq & Hs & Hresv & Hbe & Hpred) Hom']; subst x l.
  apply andb_true_iff in H as [H Hadd]. apply andb_true_iff in H as [H Hp]. apply andb_true_iff in H as [_ Hf].
  destruct (add_task n (set_status t Allocated (t_groups t))) as [n'|] eqn:Ad; [|discriminate].
  destruct K as [|K]; [lia|].
  assert (Hc : charge t = r) by (unfold charge; rewrite Hs, Hresv; cbn [orb]; congruence).
  assert (T : tsum n' = rsub (tsum n) r).
  { rewrite <- Hc. apply (add_task_tsum n (set_status t Allocated (t_groups t)) n'); [exact Hs|left; reflexivity|exact Ad]. }
  rewrite nonshared_fit in Hf by exact Hs. rewrite Hreq, Er in Hf.
  rewrite Hpred in Hp.
  pose proof (potential_bind (pred t0) K r ns nid n n' A Hp Hf T) as Hb.
  specialize (IH (upd nid n' ns) ar K Nr Er Hom' Hadd ltac:(lia)). lia.
Qed.

Section Loop.
  Variable pred : task -> positive -> bool.
  Variable tgate : hist -> positive -> task -> positive -> bool.
  Variable gate : hist -> positive -> list task -> bool.
  Variable nord : hist -> task -> list positive.
  Variable gsel : hist -> positive -> node -> task -> option (list positive * bool).
  Variable shouldpipe : positive -> hist -> bool.

  Notation attempt := (attempt pred tgate gate nord gsel shouldpipe).
  Notation step := (step pred tgate gate nord gsel shouldpipe).
  Notation allocate_action := (allocate_action pred tgate gate nord gsel shouldpipe).

  (** the gates are queue headroom checks: what they refuse they keep refusing
      while more work is charged *)
  Definition gate_antitone : Prop :=
    forall h x j ts, gate (x ++ h) j ts = true -> gate h j ts = true.
  Definition gate_implies_tgate : Prop :=
    forall h j ts, gate h j ts = true -> tgate_ok tgate h j ts.

  Definition wf_jobs (js : list jobst) : Prop := Forall (fun j => Forall (Forall wf_task) (js_todo j)) js.

  (** a refused job was refused in an earlier, larger cluster *)
  Definition refused_earlier (st : lstate) (j : jobst) : Prop :=
    js_failed j = true ->
    exists c rest ns_t h_t x,
      js_todo j = c :: rest /\ attempt ns_t h_t (js_id j) c = None /\ all_pods_ok ns_t
      /\ shrinks ns_t (ls_nodes st) /\ ls_hist st = x ++ h_t.

  Definition Inv (st : lstate) : Prop :=
    all_pods_ok (ls_nodes st) /\ wf_jobs (ls_jobs st) /\ Forall (refused_earlier st) (ls_jobs st).

  Lemma wf_jobs_set j' js : wf_jobs js -> Forall (Forall wf_task) (js_todo j') -> wf_jobs (set_job j' js).
  Proof.
    intros W Wj. apply Forall_forall. intros x I. destruct (in_set_job _ _ _ I) as [->|I'].
    - exact Wj.
    - unfold wf_jobs in W. rewrite Forall_forall in W. apply W, I'.
  Qed.

  Lemma Inv_step st jid : Inv st -> Inv (step st jid).
  Proof.
    intros (Ok & W & R). unfold Progress.step.
    destruct (find_job jid (ls_jobs st)) as [j|] eqn:F; [|repeat split; assumption].
    destruct (find_job_in _ _ _ F) as [Ij Eid].
    destruct (js_failed j) eqn:Fl; [repeat split; assumption|].
    destruct (js_todo j) as [|c rest] eqn:Td; [repeat split; assumption|].
    assert (Wj : Forall (Forall wf_task) (c :: rest)).
    { rewrite <- Td. exact (proj1 (Forall_forall _ _) W j Ij). }
    inversion Wj as [|x l Wc Wrest]; subst x l.
    pose proof (attempt_cases pred tgate gate nord gsel shouldpipe (ls_nodes st) (ls_hist st) jid c Wc Ok) as Hc.
    destruct (attempt (ls_nodes st) (ls_hist st) jid c) as [[ns' h']|] eqn:At.
    - destruct Hc as (S & Ok' & x & ->). cbn [ls_nodes ls_hist ls_jobs]. split; [exact Ok'|].
      split; [apply wf_jobs_set; [exact W|exact Wrest]|].
      apply Forall_forall. intros y Iy. destruct (in_set_job _ _ _ Iy) as [->|Iy'].
      + intros Hf. discriminate.
      + intros Hf. assert (Ry : refused_earlier st y) by (exact (proj1 (Forall_forall _ _) R y Iy')).
        destruct (Ry Hf) as (c0 & r0 & ns_t & h_t & x0 & E1 & E2 & E3 & E4 & E5).
        exists c0, r0, ns_t, h_t, (x ++ x0). cbn [ls_nodes ls_hist].
        split; [exact E1|]. split; [exact E2|]. split; [exact E3|].
        split; [eapply shrinks_trans; eassumption|]. rewrite E5, app_assoc. reflexivity.
    - cbn [ls_nodes ls_hist ls_jobs]. split; [exact Ok|].
      split; [apply wf_jobs_set; [exact W|exact Wj]|].
      apply Forall_forall. intros y Iy. destruct (in_set_job _ _ _ Iy) as [->|Iy'].
      + intros _. exists c, rest, (ls_nodes st), (ls_hist st), []. cbn [js_todo js_id ls_nodes ls_hist].
        split; [reflexivity|]. split; [exact At|]. split; [exact Ok|]. split; [apply shrinks_refl|reflexivity].
      + intros Hf. assert (Ry : refused_earlier st y) by (exact (proj1 (Forall_forall _ _) R y Iy')).
        destruct (Ry Hf) as (c0 & r0 & ns_t & h_t & x0 & E1 & E2 & E3 & E4 & E5).
        exists c0, r0, ns_t, h_t, x0. cbn [ls_nodes ls_hist]. repeat split; assumption.
  Qed.

  Lemma Inv_action order : forall st, Inv st -> Inv (allocate_action st order).
  Proof.
    induction order as [|jid r IH]; intros st I; cbn [Progress.allocate_action fold_left]; [exact I|].
    apply IH, Inv_step, I.
  Qed.

  Definition wf_state (st : lstate) : Prop :=
    all_pods_ok (ls_nodes st) /\ NoDup (map fst (ls_nodes st)) /\ wf_jobs (ls_jobs st)
    /\ Forall (fun j => js_failed j = false) (ls_jobs st).

  Lemma Inv_init st : wf_state st -> Inv st.
  Proof.
    intros (Ok & _ & W & Nf). split; [exact Ok|]. split; [exact W|].
    eapply Forall_impl; [|exact Nf]. intros j Hj Hf. congruence.
  Qed.

  Lemma action_keys order : forall st, Inv st ->
    shrinks (ls_nodes st) (ls_nodes (allocate_action st order)).
  Proof.
    induction order as [|jid r IH]; intros st I; cbn [Progress.allocate_action fold_left]; [apply shrinks_refl|].
    eapply shrinks_trans; [|apply IH, Inv_step, I].
    destruct I as (Ok & W & R). unfold Progress.step.
    destruct (find_job jid (ls_jobs st)) as [j|] eqn:F; [|apply shrinks_refl].
    destruct (find_job_in _ _ _ F) as [Ij Eid].
    destruct (js_failed j); [apply shrinks_refl|].
    destruct (js_todo j) as [|c rest] eqn:Td; [apply shrinks_refl|].
    assert (Wc : Forall wf_task c).
    { assert (Wj : Forall (Forall wf_task) (js_todo j)) by (exact (proj1 (Forall_forall _ _) W j Ij)).
      rewrite Td in Wj. inversion Wj; assumption. }
    pose proof (attempt_cases pred tgate gate nord gsel shouldpipe (ls_nodes st) (ls_hist st) jid c Wc Ok) as Hc.
    destruct (attempt (ls_nodes st) (ls_hist st) jid c) as [[ns' h']|]; cbn [ls_nodes].
    - destruct Hc as (S & _). exact S.
    - apply shrinks_refl.
  Qed.

  (** Work conservation for homogeneous allocation units: after the allocate
      action, a unit that was refused cannot be bound as a whole on what is
      left while its queues would let it through. *)
  Theorem work_conservation_homogeneous st0 order :
    gate_antitone -> gate_implies_tgate -> covers nord (map fst (ls_nodes st0)) -> wf_state st0 ->
    let st := allocate_action st0 order in
    forall j c rest, In j (ls_jobs st) -> js_failed j = true -> js_todo j = c :: rest ->
      homogeneous pred c -> NoDup (map t_id c) ->
      (forall t, In t c -> forall nid n, alookup nid (ls_nodes st) = Some n -> amem (t_id t) (n_pods n) = false) ->
      ~ (gate (ls_hist st) (js_id j) c = true /\ fits_all pred (ls_nodes st) c).
  Proof.
    intros GA GT Cov Wf st j c rest Ij Hf Td Hom NDc Fresh [G (asg & Fit)].
    pose proof (Inv_init _ Wf) as I0.
    pose proof (Inv_action order _ I0) as (Ok & W & R). fold st in Ok, W, R.
    pose proof (action_keys order _ I0) as S0. fold st in S0.
    assert (Rj : refused_earlier st j) by (exact (proj1 (Forall_forall _ _) R j Ij)).
    destruct (Rj Hf) as (c0 & r0 & ns_t & h_t & x & E1 & At & Okt & St & Eh).
    rewrite Td in E1. injection E1 as <- <-.
    assert (Wc : Forall wf_task c).
    { assert (Wj : Forall (Forall wf_task) (js_todo j)) by (exact (proj1 (Forall_forall _ _) W j Ij)).
      rewrite Td in Wj. inversion Wj; assumption. }
    pose proof (attempt_cases pred tgate gate nord gsel shouldpipe ns_t h_t (js_id j) c Wc Okt) as Hc.
    rewrite At in Hc. destruct Hc as [Gf|Pf].
    - rewrite Eh in G. apply GA in G. congruence.
    - destruct c as [|t0 tr]; [cbn in Pf; discriminate|].
      cbn [homogeneous] in Hom.
      assert (Gt : gate h_t (js_id j) (t0 :: tr) = true) by (rewrite Eh in G; eapply GA, G).
      set (r := t_req t0).
      assert (Nr : nonneg r) by (inversion Wc as [|? ? [_ Hn] _]; exact Hn).
      assert (Kt : map fst ns_t = map fst (ls_nodes st0)).
      { rewrite (shrinks_keys _ _ St). symmetry. apply shrinks_keys, S0. }
      pose proof (chunk_failure pred tgate nord gsel (List.length (t0 :: tr)) r t0 (t0 :: tr) ns_t h_t (js_id j) []
                    Pf Okt) as Hlt.
      assert (Hlt' : (potential (pred t0) (List.length (t0 :: tr)) r ns_t < List.length (t0 :: tr))%nat).
      { apply Hlt; try assumption.
        - rewrite Kt. destruct Wf as (_ & ND & _). exact ND.
        - rewrite Kt. exact Cov.
        - reflexivity.
        - intros t It nid n A.
          destruct (shrinks_lookup _ _ _ _ St A) as (n' & A' & (_ & _ & Ids)).
          specialize (Fresh t It nid n' A'). cbn [snd] in Ids.
          destruct (amem (t_id t) (n_pods n)) eqn:M; [|reflexivity].
          rewrite (Ids _ M) in Fresh. discriminate.
        - cbn [app]. apply GT, Gt. }
      pose proof (potential_shrinks (pred t0) (List.length (t0 :: tr)) r _ _ St) as Hs.
      pose proof (fits_seq_potential pred r t0 (t0 :: tr) (ls_nodes st) asg (List.length (t0 :: tr))
                    Nr eq_refl Hom Fit (le_n _)) as Hge.
      lia.
  Qed.

  (** when the pop order empties the queue, every job that still has an
      allocation unit was refused *)
  Lemma exhausted_failed st j c rest :
    exhausted st = true -> In j (ls_jobs st) -> js_todo j = c :: rest -> js_failed j = true.
  Proof.
    unfold exhausted. intros E I Td. rewrite forallb_forall in E. specialize (E j I).
    unfold live in E. rewrite Td in E. destruct (js_failed j); [reflexivity|discriminate].
  Qed.
End Loop.

(** * 6. The statement, and its refutation for heterogeneous units *)

(** [restrict] says which allocation units the statement speaks about *)
Definition work_conservation_statement (restrict : (task -> positive -> bool) -> list task -> Prop) : Prop :=
  forall pred tgate gate nord gsel shouldpipe st0 order,
    gate_antitone gate -> gate_implies_tgate tgate gate -> covers nord (map fst (ls_nodes st0)) -> wf_state st0 ->
    let st := allocate_action pred tgate gate nord gsel shouldpipe st0 order in
    forall j c rest, In j (ls_jobs st) -> js_failed j = true -> js_todo j = c :: rest ->
      restrict pred c -> NoDup (map t_id c) ->
      (forall t, In t c -> forall nid n, alookup nid (ls_nodes st) = Some n -> amem (t_id t) (n_pods n) = false) ->
      ~ (gate (ls_hist st) (js_id j) c = true /\ fits_all pred (ls_nodes st) c).

Lemma work_conservation_partial_proof : work_conservation_statement homogeneous.
Proof.
  unfold work_conservation_statement. intros. eapply work_conservation_homogeneous; eassumption.
Qed.

(** the counterexample: nodes with 4 and 2 CPUs, a gang of a 2-CPU and a
    4-CPU pod, node order n1 before n2 *)
Definition x_res (c : Z) : res := mkRes c 1 0 1 0 0.
Definition x_node (c : Z) : node :=
  mkNode (mkRes c 16 0 110 0 0) (mkRes c 16 0 110 0 0) rzero rzero 0 0 [] [] [] [] [].
Definition x_task (id : positive) (c : Z) : task :=
  mkTask id 1%positive Pending KRegular (x_res c) 0 0 [] false false.
Definition x_unit : list task := [x_task 1 2000; x_task 2 4000].
Definition x_st0 : lstate := mkLS [(1%positive, x_node 4000); (2%positive, x_node 2000)] [] [mkJS 1 [x_unit] false].
Definition x_pred (_ : task) (_ : positive) := true.
Definition x_tgate (_ : hist) (_ : positive) (_ : task) (_ : positive) := true.
Definition x_gate (_ : hist) (_ : positive) (_ : list task) := true.
Definition x_nord (_ : hist) (_ : task) : list positive := [1%positive; 2%positive].
Definition x_gsel (_ : hist) (_ : positive) (_ : node) (_ : task) : option (list positive * bool) := None.
Definition x_shouldpipe (_ : positive) (_ : hist) := false.
Definition x_final : lstate := allocate_action x_pred x_tgate x_gate x_nord x_gsel x_shouldpipe x_st0 [1%positive].

Lemma x_tgate_ok : forall ts h j, tgate_ok x_tgate h j ts.
Proof. induction ts as [|t r IH]; intros h j; cbn [tgate_ok]; [exact I|]. split; [reflexivity|intros; apply IH]. Qed.

Lemma x_wf_node c : 0 <= c -> pods_ok (x_node c).
Proof. intros _. split; [split; [exact I|constructor]|constructor]. Qed.

Lemma x_wf_state : wf_state x_st0.
Proof.
  split; [|split; [|split]].
  - repeat constructor; apply x_wf_node; lia.
  - cbn. repeat constructor; cbn; intuition discriminate.
  - repeat constructor; cbn; unfold nonneg, ple; cbn; lia.
  - repeat constructor.
Qed.

Lemma x_refused : ls_jobs x_final = [mkJS 1 [x_unit] true] /\ ls_nodes x_final = ls_nodes x_st0.
Proof. vm_compute. split; reflexivity. Qed.

Lemma x_fits : fits_seq x_pred (ls_nodes x_final) x_unit [2%positive; 1%positive] = true.
Proof. vm_compute. reflexivity. Qed.

Lemma work_conservation_full_refuted_proof : ~ work_conservation_statement (fun _ _ => True).
Proof.
  intros H.
  specialize (H x_pred x_tgate x_gate x_nord x_gsel x_shouldpipe x_st0 [1%positive]).
  assert (GA : gate_antitone x_gate) by (intros ? ? ? ? _; reflexivity).
  assert (GT : gate_implies_tgate x_tgate x_gate) by (intros ? ? ? _; apply x_tgate_ok).
  assert (Cov : covers x_nord (map fst (ls_nodes x_st0))) by (intros h t k I; exact I).
  specialize (H GA GT Cov x_wf_state). cbv zeta in H. fold x_final in H.
  destruct x_refused as [Ej En].
  apply (H (mkJS 1 [x_unit] true) x_unit []).
  - rewrite Ej. left. reflexivity.
  - reflexivity.
  - reflexivity.
  - exact I.
  - cbn. repeat constructor; cbn; intuition discriminate.
  - intros t _ nid n A. rewrite En in A. cbn [x_st0 ls_nodes alookup] in A.
    destruct (Pos.eqb nid 1); [injection A as <-; reflexivity|].
    destruct (Pos.eqb nid 2); [injection A as <-; reflexivity|discriminate].
  - split; [reflexivity|]. exists [2%positive; 1%positive]. exact x_fits.
Qed.

(** non-vacuity of the homogeneous statement: two 2-CPU pods on a 2-CPU and a
    1-CPU node are refused, every hypothesis holds *)
Definition y_unit : list task := [x_task 1 2000; x_task 2 2000].
Definition y_st0 : lstate := mkLS [(1%positive, x_node 2000); (2%positive, x_node 1000)] [] [mkJS 1 [y_unit] false].
Definition y_final : lstate := allocate_action x_pred x_tgate x_gate x_nord x_gsel x_shouldpipe y_st0 [1%positive].

Lemma y_nonvacuous :
  gate_antitone x_gate /\ gate_implies_tgate x_tgate x_gate /\ covers x_nord (map fst (ls_nodes y_st0))
  /\ wf_state y_st0
  /\ In (mkJS 1 [y_unit] true) (ls_jobs y_final) /\ homogeneous x_pred y_unit /\ NoDup (map t_id y_unit)
  /\ exhausted y_final = true
  /\ x_gate (ls_hist y_final) 1%positive y_unit = true.
Proof.
  split; [intros ? ? ? ? _; reflexivity|].
  split; [intros ? ? ? _; apply x_tgate_ok|].
  split; [intros h t k I; exact I|].
  split.
  { split; [|split; [|split]].
    - repeat constructor; apply x_wf_node; lia.
    - cbn. repeat constructor; cbn; intuition discriminate.
    - repeat constructor; cbn; unfold nonneg, ple; cbn; lia.
    - repeat constructor. }
  split; [vm_compute; left; reflexivity|].
  split; [cbn; repeat constructor|].
  split; [cbn; repeat constructor; cbn; intuition discriminate|].
  split; vm_compute; reflexivity.
Qed.

(** * 7. Reclaim / preempt progress in the interchangeable class *)

Section Progress.
  Variable vfilter : pjob -> rjob -> bool.
  Variable sfilter : vstate -> pjob -> list rjob -> bool.
  Variable valid : vstate -> pjob -> list rjob -> bool.
  Variable ahead : vstate -> pjob -> list rjob -> nat.
  Variable use_sigs : bool.
  Variable pending : pjob -> list sreq.
  Variable can_reclaim : vstate -> pjob -> bool.
  Variable np_gate : vstate -> pjob -> bool.

  Notation try_scenario := (try_scenario sfilter valid ahead).
  Notation scenarios := (scenarios sfilter valid ahead).
  Notation solve_and_commit := (solve_and_commit sfilter valid ahead).

  (** the side conditions under which the scenario with potential victims
      [pot] (latest one [v]) is solved:
      - the accumulated scenario filters do not prune it (no topology or
        node-affinity constraint on the pending pod, enough capacity),
      - the validator accepts it (reclaim: every victim's queue stays above
        its fair share or, for a reclaimer within its deserved quota, above
        its deserved quota; saturation order with the siblings; a
        non-preemptible reclaimer stays within the deserved quota at every
        level.  preempt: min-runtime),
      - the preemptor is popped before the evicted victims in the simulation,
      - the victim's node is known and nominations there are covered by
        releasing capacity (idle + releasing is not negative). *)
  Definition scenario_good (st : vstate) (p : pjob) (pot : list rjob) (v : rjob) : Prop :=
    sfilter st p pot = true /\ valid st p pot = true
    /\ ahead st p (filter (on_node (rj_node v)) pot) = O
    /\ exists n, In n (vs_nodes st) /\ sn_id n = rj_node v /\ 0 <= sn_idle n + sn_rel n.

  Lemma take_unit_some ns : (exists n, In n ns /\ 1 <= sn_idle n + sn_rel n) -> exists r, take_unit ns = Some r.
  Proof.
    induction ns as [|m r IH]; intros (n & I & H); [destruct I|]. cbn [take_unit].
    destruct (1 <=? sn_idle m + sn_rel m) eqn:E; [eexists; reflexivity|].
    destruct I as [->|I]; [lia|].
    destruct (IH (ex_intro _ n (conj I H))) as ([k r'] & ->). eexists; reflexivity.
  Qed.

  Lemma try_scenario_evicts st p seen v ev nid ns :
    try_scenario st p (seen ++ [v]) v = Some (ev, nid, ns) -> In v ev.
  Proof.
    unfold Progress.try_scenario. destruct (sfilter st p (seen ++ [v])); [|discriminate].
    destruct (take_unit _) as [[k ns3]|]; [|discriminate].
    destruct (valid st p (seen ++ [v])); [|discriminate].
    intros E. injection E as <- _ _. apply filter_In. split.
    - apply in_or_app. right. left. reflexivity.
    - unfold on_node. apply Pos.eqb_refl.
  Qed.

  Lemma try_scenario_good st p seen v :
    scenario_good st p (seen ++ [v]) v -> exists res, try_scenario st p (seen ++ [v]) v = Some res.
  Proof.
    intros (F & V & A & n & I & Eid & H). unfold Progress.try_scenario. rewrite F, A, V. cbn [take_units].
    set (ev := filter (on_node (rj_node v)) (seen ++ [v])).
    assert (Hev : (1 <= List.length ev)%nat).
    { assert (Iv : In v ev).
      { apply filter_In. split; [apply in_or_app; right; left; reflexivity|apply Pos.eqb_refl]. }
      destruct ev; [destruct Iv|cbn; lia]. }
    destruct (take_unit_some (release_on (rj_node v) (Z.of_nat (List.length ev)) (vs_nodes st))) as ([k ns3] & ->).
    { exists (mkSN (sn_id n) (sn_idle n) (sn_rel n + Z.of_nat (List.length ev))). split.
      - unfold release_on. apply in_map_iff. exists n. split; [|exact I].
        rewrite Eid, Pos.eqb_refl. reflexivity.
      - cbn [sn_idle sn_rel]. lia. }
    eexists. reflexivity.
  Qed.

  Lemma scenarios_evicts st p : forall rest seen ev nid ns,
    scenarios st p seen rest = Some (ev, nid, ns) -> ev <> [].
  Proof.
    induction rest as [|v r IH]; intros seen ev nid ns; cbn [Progress.scenarios]; [discriminate|].
    destruct (try_scenario st p (seen ++ [v]) v) as [[[ev' nid'] ns']|] eqn:T.
    - intros E. injection E as <- <- <-. apply try_scenario_evicts in T. intros ->. destruct T.
    - apply IH.
  Qed.

  Lemma scenarios_progress st p : forall pre seen v post,
    scenario_good st p (seen ++ pre ++ [v]) v ->
    exists res, scenarios st p seen (pre ++ v :: post) = Some res.
  Proof.
    induction pre as [|u pre IH]; intros seen v post G; cbn [app Progress.scenarios].
    - cbn [app] in G. destruct (try_scenario_good _ _ _ _ G) as (res & ->). eexists; reflexivity.
    - destruct (try_scenario st p (seen ++ [u]) u) as [res|]; [eexists; reflexivity|].
      apply IH. rewrite <- app_assoc. exact G.
  Qed.

  Lemma solve_progress st p pre v post :
    scenario_good st p (pre ++ [v]) v ->
    exists st' cm, solve_and_commit st p (pre ++ v :: post) = Some st'
                   /\ vs_log st' = cm :: vs_log st /\ cm_job cm = pj_id p /\ cm_evicted cm <> [].
  Proof.
    intros G. unfold Progress.solve_and_commit.
    destruct (scenarios_progress st p pre [] v post G) as ([[ev nid] ns] & E). rewrite E.
    eexists. eexists. split; [reflexivity|]. cbn [vs_log cm_job cm_evicted].
    split; [reflexivity|]. split; [reflexivity|].
    apply scenarios_evicts in E. destruct ev; [contradiction|discriminate].
  Qed.

  Notation reclaim_step := (reclaim_step vfilter sfilter valid ahead use_sigs pending can_reclaim).
  Notation preempt_step := (preempt_step vfilter sfilter valid ahead use_sigs pending np_gate).

  (** Reclaim progress: a pending job that passes the CanReclaimResources gate
      (its queue stays within its fair share; a non-preemptible job: within
      the deserved quota), is not skipped by the signature shortcut, and for
      which some prefix of the victims queue (preemptible running jobs of
      other queues that pass the min-runtime filter) is a good scenario,
      obtains a committed statement with at least one eviction and its
      nomination. *)
  Theorem reclaim_progress st m p pre v post :
    can_reclaim st p = true -> skipped use_sigs pending m p = false ->
    reclaim_victims vfilter st p = pre ++ v :: post ->
    scenario_good st p (pre ++ [v]) v ->
    exists st' cm, reclaim_step (st, m) p = (st', m)
                   /\ vs_log st' = cm :: vs_log st /\ cm_job cm = pj_id p /\ cm_evicted cm <> [].
  Proof.
    intros C S V G. unfold Signatures.reclaim_step, reclaim_try. rewrite C, S, V.
    destruct (solve_progress st p pre v post G) as (st' & cm & -> & L & J & E).
    exists st', cm. repeat split; assumption.
  Qed.

  (** Preempt progress: same, with the non-preemptible-over-quota gate and the
      victims queue of preempt (strictly lower priority, preemptible, same queue). *)
  Theorem preempt_progress st m p pre v post :
    np_gate st p = true -> skipped use_sigs pending m p = false ->
    preempt_victims vfilter st p = pre ++ v :: post ->
    scenario_good st p (pre ++ [v]) v ->
    exists st' cm, preempt_step (st, m) p = (st', m)
                   /\ vs_log st' = cm :: vs_log st /\ cm_job cm = pj_id p /\ cm_evicted cm <> [].
  Proof.
    intros C S V G. unfold Signatures.preempt_step, preempt_try. rewrite S, C, V.
    destruct (solve_progress st p pre v post G) as (st' & cm & -> & L & J & E).
    exists st', cm. repeat split; assumption.
  Qed.

  (** an eligible victim is in the victims queue *)
  Lemma reclaim_victim_listed st p v :
    In v (vs_running st) -> rj_queue v <> pj_queue p -> rj_preempt v = true -> vfilter p v = true ->
    exists pre post, reclaim_victims vfilter st p = pre ++ v :: post.
  Proof.
    intros I Q P F. apply in_split. unfold reclaim_victims. apply filter_In. split; [exact I|].
    rewrite P, F. destruct (Pos.eqb (rj_queue v) (pj_queue p)) eqn:E; [apply Pos.eqb_eq in E; contradiction|reflexivity].
  Qed.
  Lemma preempt_victim_listed st p v :
    In v (vs_running st) -> rj_queue v = pj_queue p -> rj_preempt v = true -> rj_prio v < pj_prio p ->
    vfilter p v = true ->
    exists pre post, preempt_victims vfilter st p = pre ++ v :: post.
  Proof.
    intros I Q P L F. apply in_split. unfold preempt_victims. apply filter_In. split; [exact I|].
    rewrite P, F, Q, Pos.eqb_refl. cbn [andb]. rewrite !andb_true_r. apply Z.ltb_lt, L.
  Qed.

  (** commits are never withdrawn: what a step committed is in the log of the action *)
  Lemma solve_log st p vs st' : solve_and_commit st p vs = Some st' -> incl (vs_log st) (vs_log st').
  Proof.
    unfold Progress.solve_and_commit. destruct (scenarios st p [] vs) as [[[ev nid] ns]|]; [|discriminate].
    intros E. injection E as <-. cbn [vs_log]. intros x I. right. exact I.
  Qed.
  Lemma reclaim_step_log s p : incl (vs_log (fst s)) (vs_log (fst (reclaim_step s p))).
  Proof.
    destruct s as [st m]. unfold Signatures.reclaim_step, reclaim_try. cbn [fst].
    destruct (can_reclaim st p); [|apply incl_refl].
    destruct (skipped use_sigs pending m p); [apply incl_refl|].
    destruct (solve_and_commit st p _) as [st'|] eqn:E; cbn [fst]; [eapply solve_log, E|apply incl_refl].
  Qed.
  Lemma preempt_step_log s p : incl (vs_log (fst s)) (vs_log (fst (preempt_step s p))).
  Proof.
    destruct s as [st m]. unfold Signatures.preempt_step, preempt_try. cbn [fst].
    destruct (skipped use_sigs pending m p); [apply incl_refl|].
    destruct (np_gate st p); [|apply incl_refl].
    destruct (solve_and_commit st p _) as [st'|] eqn:E; cbn [fst]; [eapply solve_log, E|apply incl_refl].
  Qed.
  Lemma fold_log (stepf : vstate * qreps -> pjob -> vstate * qreps) :
    (forall s p, incl (vs_log (fst s)) (vs_log (fst (stepf s p)))) ->
    forall ps s, incl (vs_log (fst s)) (vs_log (fst (fold_left stepf ps s))).
  Proof.
    intros H. induction ps as [|p r IH]; intros s; cbn [fold_left]; [apply incl_refl|].
    eapply incl_tran; [apply H|apply IH].
  Qed.

  (** within one run of the action: hypotheses in the state in which the job is popped *)
  Theorem reclaim_action_progress st0 before p after pre v post :
    let s := fold_left reclaim_step before (st0, []) in
    can_reclaim (fst s) p = true -> skipped use_sigs pending (snd s) p = false ->
    reclaim_victims vfilter (fst s) p = pre ++ v :: post ->
    scenario_good (fst s) p (pre ++ [v]) v ->
    exists cm, In cm (vs_log (fst (reclaim_action vfilter sfilter valid ahead use_sigs pending can_reclaim st0
                                                  (before ++ p :: after))))
               /\ cm_job cm = pj_id p /\ cm_evicted cm <> [].
  Proof.
    intros s C S V G. unfold reclaim_action. rewrite fold_left_app. fold s. cbn [fold_left].
    destruct s as [st m]. cbn [fst snd] in *.
    destruct (reclaim_progress st m p pre v post C S V G) as (st' & cm & E & L & J & Ev).
    exists cm. split; [|split; assumption]. rewrite E.
    apply (fold_log reclaim_step reclaim_step_log after (st', m)). cbn [fst]. rewrite L. left. reflexivity.
  Qed.

  Theorem preempt_action_progress st0 before p after pre v post :
    let s := fold_left preempt_step before (st0, []) in
    np_gate (fst s) p = true -> skipped use_sigs pending (snd s) p = false ->
    preempt_victims vfilter (fst s) p = pre ++ v :: post ->
    scenario_good (fst s) p (pre ++ [v]) v ->
    exists cm, In cm (vs_log (fst (preempt_action vfilter sfilter valid ahead use_sigs pending np_gate st0
                                                  (before ++ p :: after))))
               /\ cm_job cm = pj_id p /\ cm_evicted cm <> [].
  Proof.
    intros s C S V G. unfold preempt_action. rewrite fold_left_app. fold s. cbn [fold_left].
    destruct s as [st m]. cbn [fst snd] in *.
    destruct (preempt_progress st m p pre v post C S V G) as (st' & cm & E & L & J & Ev).
    exists cm. split; [|split; assumption]. rewrite E.
    apply (fold_log preempt_step preempt_step_log after (st', m)). cbn [fst]. rewrite L. left. reflexivity.
  Qed.

  (** with the shortcut off nothing is skipped *)
  Lemma not_skipped_off m p : skipped false pending m p = false.
  Proof. reflexivity. Qed.
End Progress.

(** * 8. The signature shortcut *)

(** "a job skipped by IsEasierToSchedule against a failed representative of
    its queue would itself have failed", for the preempt and the reclaim loop *)
Definition signature_shortcut_sound_preempt : Prop :=
  forall vfilter sfilter valid ahead pending np_gate st0 (before : list pjob) (p : pjob),
    let s := preempt_action vfilter sfilter valid ahead true pending np_gate st0 before in
    skipped true pending (snd s) p = true ->
    preempt_try vfilter sfilter valid ahead np_gate (fst s) p = None.

Definition signature_shortcut_sound_reclaim : Prop :=
  forall vfilter sfilter valid ahead pending can_reclaim st0 (before : list pjob) (p : pjob),
    let s := reclaim_action vfilter sfilter valid ahead true pending can_reclaim st0 before in
    can_reclaim (fst s) p = true ->
    skipped true pending (snd s) p = true ->
    reclaim_try vfilter sfilter valid ahead (fst s) p = None.

(** witness: one node, one running preemptible job of priority 50; pending
    job a (priority 100, non-preemptible, refused by the non-preemptible-over-
    quota gate) and pending job b (priority 75, preemptible) with the same pod *)
Definition w_unit : sreq := mkSR 1000 1 1 1000 0.
Definition w_pending (_ : pjob) : list sreq := [w_unit].
Definition w_a : pjob := mkPJ 1 1 100 false 7.
Definition w_b : pjob := mkPJ 2 1 75 true 7.
Definition w_true3 {A B C} (_ : A) (_ : B) (_ : C) := true.
Definition w_true2 {A B} (_ : A) (_ : B) := true.
Definition w_ahead (_ : vstate) (_ : pjob) (_ : list rjob) := O.
Definition w_vfilter (_ : pjob) (_ : rjob) := true.
Definition w_np_gate (_ : vstate) (p : pjob) := pj_preempt p.
Definition w_st_preempt : vstate := mkVS [mkSN 1 0 0] [mkRJ 10 1 50 true 1] [].
(** reclaim: the running job belongs to another queue; the validator refuses a
    non-preemptible reclaimer (over the deserved quota of an ancestor) *)
Definition w_st_reclaim : vstate := mkVS [mkSN 1 0 0] [mkRJ 10 2 50 true 1] [].
Definition w_valid (_ : vstate) (p : pjob) (_ : list rjob) := pj_preempt p.

Lemma signature_shortcut_preempt_refuted_proof : ~ signature_shortcut_sound_preempt.
Proof.
  intros H.
  specialize (H w_vfilter w_true3 w_true3 w_ahead w_pending w_np_gate w_st_preempt [w_a] w_b).
  cbv zeta in H. assert (S : skipped true w_pending
    (snd (preempt_action w_vfilter w_true3 w_true3 w_ahead true w_pending w_np_gate w_st_preempt [w_a])) w_b = true)
    by (vm_compute; reflexivity).
  specialize (H S). vm_compute in H. discriminate.
Qed.

Lemma signature_shortcut_reclaim_refuted_proof : ~ signature_shortcut_sound_reclaim.
Proof.
  intros H.
  specialize (H w_vfilter w_true3 w_valid w_ahead w_pending w_true2 w_st_reclaim [w_a] w_b).
  cbv zeta in H. specialize (H eq_refl).
  vm_compute in H. discriminate (H eq_refl).
Qed.

(** the shortcut is sound when the outcome of an attempt is determined by what
    the comparison looks at (queue, signature key, pending requests) and no
    statement was committed since the representatives failed *)
Lemma qrep_find_set q' q v m : qrep_find q' (qrep_set q v m) = if Pos.eqb q' q then v else qrep_find q' m.
Proof.
  induction m as [|[k v'] r IH]; cbn [qrep_set qrep_find].
  - destruct (Pos.eqb q' q); reflexivity.
  - destruct (Pos.eqb q k) eqn:E; cbn [qrep_find].
    + apply Pos.eqb_eq in E. subst k. destruct (Pos.eqb q' q); reflexivity.
    + destruct (Pos.eqb q' k) eqn:E2.
      * apply Pos.eqb_eq in E2. subst k. destruct (Pos.eqb q' q) eqn:E3; [|reflexivity].
        apply Pos.eqb_eq in E3. subst q'. rewrite Pos.eqb_refl in E. discriminate.
      * exact IH.
Qed.

Lemma rep_find_set k' k v m : rep_find k' (rep_set k v m) = if Pos.eqb k' k then Some v else rep_find k' m.
Proof.
  induction m as [|[k0 v0] r IH]; cbn [rep_set rep_find].
  - destruct (Pos.eqb k' k); reflexivity.
  - destruct (Pos.eqb k k0) eqn:E; cbn [rep_find].
    + apply Pos.eqb_eq in E. subst k0. destruct (Pos.eqb k' k); reflexivity.
    + destruct (Pos.eqb k' k0) eqn:E2.
      * apply Pos.eqb_eq in E2. subst k0. destruct (Pos.eqb k' k) eqn:E3; [|reflexivity].
        apply Pos.eqb_eq in E3. subst k'. rewrite Pos.eqb_refl in E. discriminate.
      * exact IH.
Qed.

Section Sound.
  Variable vfilter : pjob -> rjob -> bool.
  Variable sfilter : vstate -> pjob -> list rjob -> bool.
  Variable valid : vstate -> pjob -> list rjob -> bool.
  Variable ahead : vstate -> pjob -> list rjob -> nat.
  Variable pending : pjob -> list sreq.
  Variable np_gate : vstate -> pjob -> bool.

  Notation try := (preempt_try vfilter sfilter valid ahead np_gate).
  Notation pstep := (preempt_step vfilter sfilter valid ahead true pending np_gate).

  (** every representative is a job with property [Q] whose attempt fails in [st] *)
  Definition reps_failed (st : vstate) (Q : pjob -> Prop) (m : qreps) : Prop :=
    forall q key rid rp, rep_find key (qrep_find q m) = Some (rid, rp) ->
      exists r, Q r /\ pj_queue r = q /\ pj_sig r = key /\ pending r = rp /\ try st r = None.

  Lemma reps_failed_record st Q m q :
    reps_failed st Q m -> try st q = None -> Q q -> reps_failed st Q (record_failure pending m q).
  Proof.
    intros R F Hq q' key rid rp. unfold record_failure. rewrite qrep_find_set.
    destruct (Pos.eqb q' (pj_queue q)) eqn:E; [|apply R].
    apply Pos.eqb_eq in E. subst q'. unfold update_representative.
    assert (New : rep_find key (rep_set (pj_sig q) (pj_id q, pending q) (qrep_find (pj_queue q) m)) = Some (rid, rp) ->
                  exists r, Q r /\ pj_queue r = pj_queue q /\ pj_sig r = key /\ pending r = rp /\ try st r = None).
    { rewrite rep_find_set. destruct (Pos.eqb key (pj_sig q)) eqn:E2; [|apply R].
      apply Pos.eqb_eq in E2. intros H. injection H as <- <-. exists q. repeat split; auto. }
    destruct (rep_find (pj_sig q) (qrep_find (pj_queue q) m)) as [[rid0 rp0]|]; [|exact New].
    destruct (footprint_smaller (pending q) rp0); [exact New|apply R].
  Qed.

  Lemma fold_all_fail st0 Q : forall before m,
    reps_failed st0 Q m -> Forall (fun q => try st0 q = None /\ Q q) before ->
    exists m', fold_left pstep before (st0, m) = (st0, m') /\ reps_failed st0 Q m'.
  Proof.
    induction before as [|q r IH]; intros m R F; cbn [fold_left]; [exists m; split; [reflexivity|exact R]|].
    inversion F as [|x l [Fq Hq] Fr]; subst.
    unfold Signatures.preempt_step at 2. destruct (skipped true pending m q); [apply IH; assumption|].
    rewrite Fq. apply IH; [apply reps_failed_record; assumption|exact Fr].
  Qed.

  (** general form: whatever relates the skipped job to its representative must
      transfer the failure *)
  Theorem shortcut_sound_general st0 before p (Q : pjob -> Prop) :
    (forall r, Q r -> pj_queue r = pj_queue p -> pj_sig r = pj_sig p ->
               job_easier (pending p) (pending r) = false -> try st0 r = None -> try st0 p = None) ->
    Forall (fun q => try st0 q = None /\ Q q) before ->
    let s := preempt_action vfilter sfilter valid ahead true pending np_gate st0 before in
    skipped true pending (snd s) p = true -> try (fst s) p = None.
  Proof.
    intros U F s.
    assert (R0 : reps_failed st0 Q []) by (intros q key rid rp H; discriminate).
    destruct (fold_all_fail st0 Q before [] R0 F) as (m' & E0 & R).
    subst s. unfold preempt_action. unfold qreps in *. rewrite E0.
    cbn [fst snd]. unfold skipped, is_easier_to_schedule. cbn [andb].
    destruct (rep_find (pj_sig p) (qrep_find (pj_queue p) m')) as [[rid rp]|] eqn:E; [|discriminate].
    cbn [fst]. intros H. apply negb_true_iff in H.
    destruct (R _ _ _ _ E) as (r & Hq & Qe & S & P & Fr). subst rp.
    apply (U r); auto.
  Qed.

  (** the oracles look at a pending job only through its queue, its priority
      and its preemptibility (the pod requests are the common unit of the class) *)
  Definition oracles_extensional : Prop :=
    forall p r, pj_queue p = pj_queue r -> pj_prio p = pj_prio r -> pj_preempt p = pj_preempt r ->
      (forall v, vfilter p v = vfilter r v)
      /\ (forall st pot, sfilter st p pot = sfilter st r pot /\ valid st p pot = valid st r pot
                         /\ ahead st p pot = ahead st r pot)
      /\ (forall st, np_gate st p = np_gate st r).

  Lemma scenarios_ext st p r :
    (forall pot, sfilter st p pot = sfilter st r pot /\ valid st p pot = valid st r pot /\ ahead st p pot = ahead st r pot) ->
    forall rest seen, scenarios sfilter valid ahead st p seen rest = scenarios sfilter valid ahead st r seen rest.
  Proof.
    intros X. induction rest as [|v rest IH]; intros seen; cbn [scenarios]; [reflexivity|].
    unfold try_scenario. destruct (X (seen ++ [v])) as (-> & -> & _).
    destruct (X (filter (on_node (rj_node v)) (seen ++ [v]))) as (_ & _ & ->).
    rewrite IH. reflexivity.
  Qed.

  Lemma try_ext st p r :
    oracles_extensional -> pj_queue p = pj_queue r -> pj_prio p = pj_prio r -> pj_preempt p = pj_preempt r ->
    try st r = None -> try st p = None.
  Proof.
    intros X Q P B. destruct (X p r Q P B) as (Xv & Xs & Xg).
    unfold preempt_try. rewrite (Xg st). destruct (np_gate st r); [|reflexivity].
    assert (V : preempt_victims vfilter st p = preempt_victims vfilter st r).
    { unfold preempt_victims. apply filter_ext. intros v. rewrite Q, P, (Xv v). reflexivity. }
    rewrite V. unfold solve_and_commit. rewrite (scenarios_ext st p r (Xs st)).
    destruct (scenarios sfilter valid ahead st r [] (preempt_victims vfilter st r)) as [[[ev nid] ns]|]; [discriminate|reflexivity].
  Qed.

  (** The shortcut is sound for a skipped job when (1) the gates, filters and
      validators look at a pending job only through its queue, priority and
      preemptibility, (2) every job popped earlier with the same queue and
      signature key has the priority and the preemptibility of the skipped
      job, and (3) no statement was committed since those jobs failed. *)
  Theorem signature_shortcut_sound_same_class st0 before p :
    oracles_extensional ->
    Forall (fun q => try st0 q = None
                     /\ (pj_queue q = pj_queue p -> pj_sig q = pj_sig p ->
                         pj_prio q = pj_prio p /\ pj_preempt q = pj_preempt p)) before ->
    let s := preempt_action vfilter sfilter valid ahead true pending np_gate st0 before in
    skipped true pending (snd s) p = true -> try (fst s) p = None.
  Proof.
    intros X F. apply (shortcut_sound_general st0 before p
      (fun q => pj_queue q = pj_queue p -> pj_sig q = pj_sig p -> pj_prio q = pj_prio p /\ pj_preempt q = pj_preempt p)).
    - intros r Hq Qe S _ Fr. destruct (Hq Qe S) as [P B]. apply (try_ext st0 p r X); auto.
    - exact F.
  Qed.
End Sound.

(** * 9. Non-vacuity of the progress theorems *)

(** two identical one-unit nodes, both taken by preemptible jobs of queue 2;
    a pending job of queue 1 *)
Definition z_st : vstate := mkVS [mkSN 1 0 0; mkSN 2 0 0] [mkRJ 10 2 50 true 1; mkRJ 11 2 50 true 2] [].
Definition z_p : pjob := mkPJ 1 1 50 true 7.
(** same queue, a running job of strictly lower priority *)
Definition z_st2 : vstate := mkVS [mkSN 1 0 0] [mkRJ 10 1 50 true 1] [].
Definition z_p2 : pjob := mkPJ 1 1 75 true 7.

Lemma z_reclaim_nonvacuous :
  reclaim_victims w_vfilter z_st z_p = [] ++ mkRJ 10 2 50 true 1 :: [mkRJ 11 2 50 true 2]
  /\ scenario_good w_true3 w_true3 w_ahead z_st z_p ([] ++ [mkRJ 10 2 50 true 1]) (mkRJ 10 2 50 true 1)
  /\ vs_log (fst (reclaim_action w_vfilter w_true3 w_true3 w_ahead true w_pending w_true2 z_st [z_p]))
     = [mkCommit 1 [10%positive] 1].
Proof.
  split; [reflexivity|]. split; [|vm_compute; reflexivity].
  split; [reflexivity|]. split; [reflexivity|]. split; [reflexivity|].
  exists (mkSN 1 0 0). split; [left; reflexivity|]. split; [reflexivity|]. cbn. lia.
Qed.

Lemma z_preempt_nonvacuous :
  preempt_victims w_vfilter z_st2 z_p2 = [] ++ mkRJ 10 1 50 true 1 :: []
  /\ scenario_good w_true3 w_true3 w_ahead z_st2 z_p2 ([] ++ [mkRJ 10 1 50 true 1]) (mkRJ 10 1 50 true 1)
  /\ vs_log (fst (preempt_action w_vfilter w_true3 w_true3 w_ahead true w_pending w_np_gate z_st2 [z_p2]))
     = [mkCommit 1 [10%positive] 1].
Proof.
  split; [reflexivity|]. split; [|vm_compute; reflexivity].
  split; [reflexivity|]. split; [reflexivity|]. split; [reflexivity|].
  exists (mkSN 1 0 0). split; [left; reflexivity|]. split; [reflexivity|]. cbn. lia.
Qed.

(** * 10. The failed representatives are kept per queue

    reclaim.go / preempt.go: [smallestFailedJobsByQueue[job.Queue]].  Every
    representative a popped job is compared with is a job of ITS OWN queue that
    was popped earlier in the same run of the action, was not skipped itself,
    and whose attempt failed in the state in which it was popped.  Hence a job
    is never skipped on account of a job of another queue, and the first job
    of a queue is never skipped - whatever happened to the other queues. *)

Section PerQueue.
  Variable pending : pjob -> list sreq.
  (** "was attempted at its turn and failed", for the loop at hand *)
  Variable failed_at : list pjob -> pjob -> Prop.

  (** where every representative comes from *)
  Definition reps_origin (done : list pjob) (m : qreps) : Prop :=
    forall q key rid rp, rep_find key (qrep_find q m) = Some (rid, rp) ->
      exists b1 r b2, done = b1 ++ r :: b2
        /\ pj_queue r = q /\ pj_sig r = key /\ pj_id r = rid /\ pending r = rp /\ failed_at b1 r.

  Lemma reps_origin_nil : reps_origin [] [].
  Proof. intros q key rid rp H. discriminate. Qed.

  Lemma reps_origin_extend done m x : reps_origin done m -> reps_origin (done ++ [x]) m.
  Proof.
    intros R q key rid rp H. destruct (R _ _ _ _ H) as (b1 & r & b2 & E & T).
    exists b1, r, (b2 ++ [x]). split; [|exact T]. rewrite E, <- app_assoc. reflexivity.
  Qed.

  Lemma reps_origin_record done m x :
    reps_origin done m -> failed_at done x -> reps_origin (done ++ [x]) (record_failure pending m x).
  Proof.
    intros R F q key rid rp. unfold record_failure. rewrite qrep_find_set.
    destruct (Pos.eqb q (pj_queue x)) eqn:E; [|apply reps_origin_extend, R].
    apply Pos.eqb_eq in E. subst q. unfold update_representative.
    assert (New : rep_find key (rep_set (pj_sig x) (pj_id x, pending x) (qrep_find (pj_queue x) m)) = Some (rid, rp) ->
                  exists b1 r b2, done ++ [x] = b1 ++ r :: b2
                    /\ pj_queue r = pj_queue x /\ pj_sig r = key /\ pj_id r = rid /\ pending r = rp /\ failed_at b1 r).
    { rewrite rep_find_set. destruct (Pos.eqb key (pj_sig x)) eqn:E2; [|apply reps_origin_extend, R].
      apply Pos.eqb_eq in E2. intros H. injection H as <- <-. exists done, x, []. repeat split; auto. }
    destruct (rep_find (pj_sig x) (qrep_find (pj_queue x) m)) as [[rid0 rp0]|]; [|exact New].
    destruct (footprint_smaller (pending x) rp0); [exact New|apply reps_origin_extend, R].
  Qed.

  (** what a skip means *)
  Lemma skipped_inv use_sigs m p :
    skipped use_sigs pending m p = true ->
    use_sigs = true
    /\ exists rid rp, rep_find (pj_sig p) (qrep_find (pj_queue p) m) = Some (rid, rp)
                      /\ job_easier (pending p) rp = false.
  Proof.
    unfold skipped, is_easier_to_schedule. destruct use_sigs; [|discriminate]. cbn [andb].
    destruct (rep_find (pj_sig p) (qrep_find (pj_queue p) m)) as [[rid rp]|]; [|discriminate].
    cbn [fst]. intros H. apply negb_true_iff in H. split; [reflexivity|]. exists rid, rp. split; [reflexivity|exact H].
  Qed.

  Lemma skipped_origin use_sigs done m p :
    reps_origin done m -> skipped use_sigs pending m p = true ->
    exists b1 r b2, done = b1 ++ r :: b2
      /\ pj_queue r = pj_queue p /\ pj_sig r = pj_sig p /\ failed_at b1 r
      /\ job_easier (pending p) (pending r) = false.
  Proof.
    intros R S. destruct (skipped_inv _ _ _ S) as (_ & rid & rp & E & J).
    destruct (R _ _ _ _ E) as (b1 & r & b2 & D & Q & K & _ & P & F). subst rp.
    exists b1, r, b2. repeat split; assumption.
  Qed.
End PerQueue.

Section PerQueueLoops.
  Variable vfilter : pjob -> rjob -> bool.
  Variable sfilter : vstate -> pjob -> list rjob -> bool.
  Variable valid : vstate -> pjob -> list rjob -> bool.
  Variable ahead : vstate -> pjob -> list rjob -> nat.
  Variable use_sigs : bool.
  Variable pending : pjob -> list sreq.
  Variable can_reclaim : vstate -> pjob -> bool.
  Variable np_gate : vstate -> pjob -> bool.
  Variable st0 : vstate.

  Notation pstep := (preempt_step vfilter sfilter valid ahead use_sigs pending np_gate).
  Notation rstep := (reclaim_step vfilter sfilter valid ahead use_sigs pending can_reclaim).

  (** the job was popped after [b1], was not skipped, and its attempt failed *)
  Definition preempt_failed_at (b1 : list pjob) (r : pjob) : Prop :=
    let s1 := fold_left pstep b1 (st0, []) in
    skipped use_sigs pending (snd s1) r = false
    /\ preempt_try vfilter sfilter valid ahead np_gate (fst s1) r = None.
  Definition reclaim_failed_at (b1 : list pjob) (r : pjob) : Prop :=
    let s1 := fold_left rstep b1 (st0, []) in
    can_reclaim (fst s1) r = true /\ skipped use_sigs pending (snd s1) r = false
    /\ reclaim_try vfilter sfilter valid ahead (fst s1) r = None.

  Lemma preempt_reps_origin before :
    reps_origin pending preempt_failed_at before (snd (fold_left pstep before (st0, []))).
  Proof.
    induction before as [|x l IH] using rev_ind; [apply reps_origin_nil|].
    rewrite fold_left_app. cbn [fold_left].
    destruct (fold_left pstep l (st0, [])) as [st m] eqn:E. cbn [snd] in IH.
    unfold Signatures.preempt_step.
    destruct (skipped use_sigs pending m x) eqn:S; [cbn [snd]; apply reps_origin_extend, IH|].
    destruct (preempt_try vfilter sfilter valid ahead np_gate st x) as [st'|] eqn:T; cbn [snd];
      [apply reps_origin_extend, IH|].
    apply reps_origin_record; [exact IH|]. unfold preempt_failed_at. cbv zeta. unfold qreps in *. rewrite E.
    cbn [fst snd]. split; assumption.
  Qed.

  Lemma reclaim_reps_origin before :
    reps_origin pending reclaim_failed_at before (snd (fold_left rstep before (st0, []))).
  Proof.
    induction before as [|x l IH] using rev_ind; [apply reps_origin_nil|].
    rewrite fold_left_app. cbn [fold_left].
    destruct (fold_left rstep l (st0, [])) as [st m] eqn:E. cbn [snd] in IH.
    unfold Signatures.reclaim_step.
    destruct (can_reclaim st x) eqn:C; [|cbn [snd]; apply reps_origin_extend, IH].
    destruct (skipped use_sigs pending m x) eqn:S; [cbn [snd]; apply reps_origin_extend, IH|].
    destruct (reclaim_try vfilter sfilter valid ahead st x) as [st'|] eqn:T; cbn [snd];
      [apply reps_origin_extend, IH|].
    apply reps_origin_record; [exact IH|]. unfold reclaim_failed_at. cbv zeta. unfold qreps in *. rewrite E.
    cbn [fst snd]. repeat split; assumption.
  Qed.

  (** a skip is always on account of a failed job of the skipped job's own queue *)
  Theorem preempt_skip_own_queue before p :
    let s := fold_left pstep before (st0, []) in
    skipped use_sigs pending (snd s) p = true ->
    exists b1 r b2, before = b1 ++ r :: b2
      /\ pj_queue r = pj_queue p /\ pj_sig r = pj_sig p /\ preempt_failed_at b1 r
      /\ job_easier (pending p) (pending r) = false.
  Proof. intros s S. exact (skipped_origin pending _ _ _ _ _ (preempt_reps_origin before) S). Qed.

  Theorem reclaim_skip_own_queue before p :
    let s := fold_left rstep before (st0, []) in
    skipped use_sigs pending (snd s) p = true ->
    exists b1 r b2, before = b1 ++ r :: b2
      /\ pj_queue r = pj_queue p /\ pj_sig r = pj_sig p /\ reclaim_failed_at b1 r
      /\ job_easier (pending p) (pending r) = false.
  Proof. intros s S. exact (skipped_origin pending _ _ _ _ _ (reclaim_reps_origin before) S). Qed.

  (** no job of the queue of [p] with the key of [p] was popped before: [p] is not skipped *)
  Definition other_queue_or_key (p r : pjob) : Prop := pj_queue r <> pj_queue p \/ pj_sig r <> pj_sig p.

  Lemma preempt_first_of_queue_not_skipped before p :
    Forall (other_queue_or_key p) before ->
    skipped use_sigs pending (snd (fold_left pstep before (st0, []))) p = false.
  Proof.
    intros F. destruct (skipped use_sigs pending _ p) eqn:S; [|reflexivity]. exfalso.
    destruct (preempt_skip_own_queue before p S) as (b1 & r & b2 & E & Q & K & _).
    rewrite Forall_forall in F. destruct (F r) as [H|H]; [rewrite E; apply in_elt|congruence|congruence].
  Qed.
  Lemma reclaim_first_of_queue_not_skipped before p :
    Forall (other_queue_or_key p) before ->
    skipped use_sigs pending (snd (fold_left rstep before (st0, []))) p = false.
  Proof.
    intros F. destruct (skipped use_sigs pending _ p) eqn:S; [|reflexivity]. exfalso.
    destruct (reclaim_skip_own_queue before p S) as (b1 & r & b2 & E & Q & K & _).
    rewrite Forall_forall in F. destruct (F r) as [H|H]; [rewrite E; apply in_elt|congruence|congruence].
  Qed.

  (** progress without a hypothesis on the shortcut: the first job of its queue
      (with its key) makes progress whatever happened to the jobs of the other
      queues popped before it *)
  Theorem preempt_progress_across_queues before p after pre v post :
    Forall (other_queue_or_key p) before ->
    let s := fold_left pstep before (st0, []) in
    np_gate (fst s) p = true ->
    preempt_victims vfilter (fst s) p = pre ++ v :: post ->
    scenario_good sfilter valid ahead (fst s) p (pre ++ [v]) v ->
    exists cm, In cm (vs_log (fst (preempt_action vfilter sfilter valid ahead use_sigs pending np_gate st0
                                                  (before ++ p :: after))))
               /\ cm_job cm = pj_id p /\ cm_evicted cm <> [].
  Proof.
    intros F s G V SG.
    exact (preempt_action_progress vfilter sfilter valid ahead use_sigs pending np_gate st0 before p after pre v post
             G (preempt_first_of_queue_not_skipped before p F) V SG).
  Qed.

  Theorem reclaim_progress_across_queues before p after pre v post :
    Forall (other_queue_or_key p) before ->
    let s := fold_left rstep before (st0, []) in
    can_reclaim (fst s) p = true ->
    reclaim_victims vfilter (fst s) p = pre ++ v :: post ->
    scenario_good sfilter valid ahead (fst s) p (pre ++ [v]) v ->
    exists cm, In cm (vs_log (fst (reclaim_action vfilter sfilter valid ahead use_sigs pending can_reclaim st0
                                                  (before ++ p :: after))))
               /\ cm_job cm = pj_id p /\ cm_evicted cm <> [].
  Proof.
    intros F s G V SG.
    exact (reclaim_action_progress vfilter sfilter valid ahead use_sigs pending can_reclaim st0 before p after pre v post
             G (reclaim_first_of_queue_not_skipped before p F) V SG).
  Qed.
End PerQueueLoops.

(** ** Non-vacuity with two queues, and what ONE set of representatives for
    the whole action (the structure of the consolidation action) would do on
    the same input *)

(** two one-unit nodes; queue 1 runs a job of priority 75, queue 2 one of
    priority 50; each queue has an identical pending job of priority 75 (same
    key, same pod).  The job of queue 1 has no victim and fails; the job of
    queue 2 is popped after it. *)
Definition q2_st : vstate := mkVS [mkSN 1 0 0; mkSN 2 0 0] [mkRJ 10 1 75 true 1; mkRJ 11 2 50 true 2] [].
Definition q2_blocked : pjob := mkPJ 1 1 75 true 7.
Definition q2_victim : pjob := mkPJ 2 2 75 true 7.

(** the loop with one representative set for all queues: every job is filed under queue 1 *)
Definition shared_skipped (pending : pjob -> list sreq) (m : qreps) (p : pjob) : bool :=
  skipped true pending m (mkPJ (pj_id p) 1 (pj_prio p) (pj_preempt p) (pj_sig p)).
Definition shared_record (pending : pjob -> list sreq) (m : qreps) (p : pjob) : qreps :=
  record_failure pending m (mkPJ (pj_id p) 1 (pj_prio p) (pj_preempt p) (pj_sig p)).
Definition preempt_step_shared vfilter sfilter valid ahead pending np_gate (s : vstate * qreps) (p : pjob) : vstate * qreps :=
  let (st, m) := s in
  if shared_skipped pending m p then s
  else match preempt_try vfilter sfilter valid ahead np_gate st p with
       | Some st' => (st', m)
       | None => (st, shared_record pending m p)
       end.

Lemma q2_nonvacuous :
  Forall (other_queue_or_key q2_victim) [q2_blocked]
  /\ preempt_failed_at w_vfilter w_true3 w_true3 w_ahead true w_pending w_np_gate q2_st [] q2_blocked
  /\ (let s := fold_left (preempt_step w_vfilter w_true3 w_true3 w_ahead true w_pending w_np_gate) [q2_blocked] (q2_st, []) in
      snd s = [(1%positive, [(7%positive, (1%positive, [w_unit]))])]
      /\ w_np_gate (fst s) q2_victim = true
      /\ preempt_victims w_vfilter (fst s) q2_victim = [] ++ mkRJ 11 2 50 true 2 :: []
      /\ scenario_good w_true3 w_true3 w_ahead (fst s) q2_victim ([] ++ [mkRJ 11 2 50 true 2]) (mkRJ 11 2 50 true 2))
  /\ vs_log (fst (preempt_action w_vfilter w_true3 w_true3 w_ahead true w_pending w_np_gate q2_st [q2_blocked; q2_victim]))
     = [mkCommit 2 [11%positive] 2]
  /\ vs_log (fst (fold_left (preempt_step_shared w_vfilter w_true3 w_true3 w_ahead w_pending w_np_gate)
                            [q2_blocked; q2_victim] (q2_st, []))) = [].
Proof.
  split; [constructor; [left; cbn; discriminate|constructor]|].
  split; [split; vm_compute; reflexivity|].
  split; [|split; vm_compute; reflexivity].
  cbv zeta. split; [vm_compute; reflexivity|]. split; [reflexivity|]. split; [vm_compute; reflexivity|].
  split; [reflexivity|]. split; [reflexivity|]. split; [reflexivity|].
  exists (mkSN 2 0 0). split; [right; left; reflexivity|]. split; [reflexivity|]. cbn. lia.
Qed.
