From Coq Require Import List ZArith PArith Bool Lia.
From KaiV Require Import Model.Status Model.Gang.
Import ListNotations.
Set Default Timeout 60.
Open Scope Z_scope.

Lemma countb_nil {A} (p : A -> bool) : countb p [] = 0.
Proof. reflexivity. Qed.

Lemma countb_cons {A} (p : A -> bool) x l : countb p (x :: l) = (if p x then 1 else 0) + countb p l.
Proof.
  unfold countb. cbn [filter]. destruct (p x); cbn [List.length]; lia.
Qed.

Lemma countb_nonneg {A} (p : A -> bool) l : 0 <= countb p l.
Proof. unfold countb. lia. Qed.

(** alive = active-allocated + pending + gated *)
Lemma alive_split (ts : list ptask) :
  countb (fun t => alive (pt_status t)) ts
  = countb (fun t => active_allocated (pt_status t)) ts
    + countb (fun t => status_eqb (pt_status t) Pending) ts
    + countb (fun t => status_eqb (pt_status t) Gated) ts.
Proof.
  induction ts as [|t ts IH]; [reflexivity|].
  rewrite !countb_cons, IH. cbn beta. destruct (pt_status t); cbn [alive active_allocated status_eqb]; lia.
Qed.

Lemma pending_le_allocatable real ts :
  countb (fun t => status_eqb (pt_status t) Pending) ts <= countb (should_allocate real) ts.
Proof.
  induction ts as [|t ts IH]; [reflexivity|].
  rewrite !countb_cons. cbn beta. unfold should_allocate at 1.
  destruct (status_eqb (pt_status t) Pending); cbn [orb]; [lia|].
  destruct (negb real && status_eqb (pt_status t) Releasing && pt_virtual t); lia.
Qed.

(** A ready pod set below its minimum has enough allocatable tasks to reach it. *)
Lemma ready_has_enough real ps :
  ready ps = true -> ps_min ps - n_active_alloc ps <= n_allocatable real ps.
Proof.
  unfold ready, n_alive, n_gated, n_active_alloc, n_allocatable. intros H. apply Z.leb_le in H.
  rewrite alive_split in H. pose proof (pending_le_allocatable real (ps_tasks ps)). lia.
Qed.

(** what GetTasksToAllocate takes from one pod set *)
Definition taken (real : bool) (ps : pset) : Z := Z.min (num_to_allocate real ps) (n_allocatable real ps).

Theorem taken_reaches_min real ps :
  ready ps = true -> 0 < taken real ps -> ps_min ps <= n_active_alloc ps + taken real ps.
Proof.
  intros R T. unfold taken, num_to_allocate in *.
  destruct (Z.leb_spec (ps_min ps) (n_active_alloc ps)) as [Hs|Hb].
  - lia.
  - pose proof (ready_has_enough real ps R). lia.
Qed.

Lemma tasks_to_allocate_go_in real : forall pss budget id c,
  In (id, c) (tasks_to_allocate_go real budget pss) ->
  exists ps, In ps pss /\ ps_id ps = id /\ c = taken real ps /\ 0 < n_allocatable real ps.
Proof.
  induction pss as [|ps pss IH]; intros budget id c H; cbn [tasks_to_allocate_go] in H; [contradiction|].
  destruct (budget <=? 0); [contradiction|].
  destruct (Z.eqb_spec (n_allocatable real ps) 0) as [E|E].
  - destruct (IH _ _ _ H) as (ps' & I & ?). exists ps'. split; [now right|assumption].
  - destruct H as [H|H].
    + inversion H; subst. exists ps. repeat split; [now left|].
      pose proof (countb_nonneg (should_allocate real) (ps_tasks ps)). unfold n_allocatable in *. lia.
    + destruct (IH _ _ _ H) as (ps' & I & ?). exists ps'. split; [now right|assumption].
Qed.

(** C03.1 on the model: whatever the allocate step takes from a ready job brings
    each touched pod set to its minimum (all-or-nothing placement of exactly
    these tasks then means the pod set is at or above its minimum after the
    commit). *)
Theorem allocation_reaches_min real pss id c :
  forallb ready pss = true ->
  In (id, c) (tasks_to_allocate real pss) ->
  exists ps, In ps pss /\ ps_id ps = id /\ (0 < c -> ps_min ps <= n_active_alloc ps + c).
Proof.
  intros R H. unfold tasks_to_allocate in H.
  destruct (tasks_to_allocate_go_in _ _ _ _ _ H) as (ps & I & E & Ec & _).
  exists ps. repeat split; [exact I|exact E|].
  intros Hc. subst c. apply taken_reaches_min; [|exact Hc].
  rewrite forallb_forall in R. now apply R.
Qed.

(** Order contract of the production pod-set order (subgrouporder plugin) for
    eviction: if some pod set is above its minimum, the first one popped is. *)
Definition evict_order_ok (pss : list pset) : Prop :=
  existsb (fun ps => ps_min ps <? n_active_alloc ps) pss = true ->
  match pss with
  | ps :: _ => ps_min ps < n_active_alloc ps
  | [] => False
  end.

Lemma evict_go_all : forall pss budget,
  Z.of_nat (List.length pss) <= budget ->
  tasks_to_evict_go budget pss = map (fun ps => (ps_id ps, max_to_evict ps)) pss.
Proof.
  induction pss as [|ps pss IH]; intros budget H; cbn [tasks_to_evict_go map]; [reflexivity|].
  cbn [List.length] in H. destruct (Z.leb_spec budget 0); [lia|].
  rewrite IH by lia. reflexivity.
Qed.

(** C03.3 on the model: one call takes either a single surplus pod of a pod set
    that stays at or above its minimum, or every active pod of every pod set. *)
Theorem eviction_all_or_elastic pss :
  evict_order_ok pss ->
  forallb (fun ps => ps_min ps <=? n_active_alloc ps) pss = true ->
  (exists ps rest, pss = ps :: rest /\ tasks_to_evict pss = [(ps_id ps, 1)]
                   /\ ps_min ps <= n_active_alloc ps - 1)
  \/ tasks_to_evict pss = map (fun ps => (ps_id ps, n_active_alloc ps)) pss.
Proof.
  intros O S. unfold tasks_to_evict, sets_to_evict.
  destruct (existsb (fun ps => ps_min ps <? n_active_alloc ps) pss) eqn:E.
  - left. specialize (O E). destruct pss as [|ps rest]; [contradiction|].
    exists ps, rest. split; [reflexivity|]. cbn [tasks_to_evict_go].
    change (1 <=? 0) with false. cbn match.
    unfold max_to_evict. destruct (Z.ltb_spec (ps_min ps) (n_active_alloc ps)); [|lia].
    replace (1 - 1) with 0 by lia.
    destruct rest; cbn [tasks_to_evict_go]; split; try reflexivity; lia.
  - right. rewrite evict_go_all by lia.
    apply map_ext_in. intros ps I. f_equal.
    unfold max_to_evict.
    destruct (Z.ltb_spec (ps_min ps) (n_active_alloc ps)) as [L|L]; [|reflexivity].
    exfalso. assert (existsb (fun ps => ps_min ps <? n_active_alloc ps) pss = true).
    { apply existsb_exists. exists ps. split; [exact I|]. now apply Z.ltb_lt. }
    congruence.
Qed.

(** Without the order contract the clause fails: pod set b (1 active, min 1) is
    popped before pod set a (2 active, min 1) and loses its only pod. *)
Definition w_b := mkPS 2 1 [mkPT 3 Bound false].
Definition w_a := mkPS 1 1 [mkPT 1 Allocated false; mkPT 2 Running false].
Theorem eviction_needs_order_contract :
  forallb (fun ps => ps_min ps <=? n_active_alloc ps) [w_b; w_a] = true
  /\ tasks_to_evict [w_b; w_a] = [(2%positive, 1)]
  /\ n_active_alloc w_b - 1 < ps_min w_b
  /\ 0 < n_active_alloc w_a.
Proof. repeat split; vm_compute; reflexivity. Qed.

(** non-vacuity *)
Definition e_set := mkPS 1 3 [mkPT 1 Running false; mkPT 2 Pending false; mkPT 3 Pending false; mkPT 4 Pending false].
Example gang_nonvacuous :
  forallb ready [e_set] = true /\ tasks_to_allocate true [e_set] = [(1%positive, 2)]
  /\ evict_order_ok [w_a; w_b] /\ tasks_to_evict [w_a; w_b] = [(1%positive, 1)].
Proof.
  split; [vm_compute; reflexivity|]. split; [vm_compute; reflexivity|].
  split; [|vm_compute; reflexivity].
  unfold evict_order_ok. intros _. vm_compute. reflexivity.
Qed.
