(** The choice of GPU groups for a fractional task never yields an unsafe
    immediate placement (C02, decision level). *)
From Coq Require Import List ZArith PArith Bool Lia.
From KaiV Require Import Model.Res Model.Status Model.AMap Model.Node Model.GpuSharing.
Import ListNotations.
Set Default Timeout 60.
Open Scope Z_scope.

Definition used_now (n : node) (g : positive) : bool := negb (zget g (g_used n) =? 0).

(** invariant of the loop while no step asked to wait *)
Definition inv (n : node) (t : task) (nfresh : Z) (acc : list positive) : Prop :=
  forallb (enough_idle_on_gpu n (t_gmem t)) (filter (used_now n) acc) = true
  /\ Z.of_nat (List.length (filter (fun g => negb (used_now n g)) acc)) = nfresh
  /\ (0 < nfresh -> nfresh <= gpu (n_idle n)) /\ 0 <= nfresh.

Lemma filter_app_single {A} (p : A -> bool) l x :
  filter p (l ++ [x]) = filter p l ++ (if p x then [x] else []).
Proof. rewrite filter_app. cbn [filter]. destruct (p x); reflexivity. Qed.

Lemma prefer_go_safe n t po : forall cands fresh nfresh acc rel gs,
  (forall f, In f fresh -> used_now n f = false) ->
  (forall g, In (Some g) cands -> used_now n g = true) ->
  (rel = false -> inv n t nfresh acc) ->
  prefer_go n t po cands fresh nfresh acc rel = Some (gs, false) ->
  inv n t (Z.of_nat (List.length (filter (fun g => negb (used_now n g)) gs))) gs.
Proof.
  induction cands as [|c cands IH]; intros fresh nfresh acc rel gs Hf Hc Hi H; cbn [prefer_go] in H.
  - destruct (Z.of_nat (List.length acc) =? t_ndev t); [|discriminate].
    inversion H; subst. destruct (Hi eq_refl) as (A & B & C & D). rewrite B. repeat split; assumption.
  - destruct (Z.of_nat (List.length acc) =? t_ndev t).
    { inversion H; subst. destruct (Hi eq_refl) as (A & B & C & D). rewrite B. repeat split; assumption. }
    destruct c as [g|].
    + eapply IH; [exact Hf| intros g' I; apply Hc; right; exact I| |exact H].
      intros Hr. apply orb_false_iff in Hr as [Hr Hs]. destruct (Hi Hr) as (A & B & C & D).
      apply orb_false_iff in Hs as [Hs _]. apply negb_false_iff in Hs.
      assert (U : used_now n g = true) by (apply Hc; now left).
      unfold inv. rewrite !filter_app_single, U. cbn [negb]. rewrite app_nil_r.
      rewrite forallb_app. cbn [forallb]. rewrite A, Hs. split; [reflexivity|]. split; [exact B|]. split; assumption.
    + destruct fresh as [|f fr]; [discriminate|].
      eapply IH; [intros f' I; apply Hf; right; exact I|intros g' I; apply Hc; right; exact I| |exact H].
      intros Hr. apply orb_false_iff in Hr as [Hr Hs]. destruct (Hi Hr) as (A & B & C & D).
      apply orb_false_iff in Hs as [_ Hs]. apply Z.ltb_ge in Hs.
      assert (U : used_now n f = false) by (apply Hf; now left).
      unfold inv. rewrite !filter_app_single, U. cbn [negb]. rewrite app_nil_r.
      rewrite app_length. cbn [List.length]. split; [exact A|]. split; [lia|]. split; lia.
Qed.

(** If the choice does not ask to wait, every chosen group that is in use has idle
    room for the portion and the fresh groups are no more than the idle devices. *)
Theorem prefer_safe n t po cands fresh gs :
  (forall f, In f fresh -> used_now n f = false) ->
  (forall g, In (Some g) cands -> used_now n g = true) ->
  prefer n t po cands fresh = Some (gs, false) ->
  decision_safe n t gs = true.
Proof.
  intros Hf Hc H. unfold prefer in H. destruct cands as [|c cands]; [discriminate|].
  destruct (t_ndev t <=? 0); [discriminate|].
  pose proof (prefer_go_safe n t po (c :: cands) fresh 0 [] false gs Hf Hc) as P.
  destruct P as (A & B & C & D); [|exact H|].
  - intros _. unfold inv. cbn. repeat split; try reflexivity; lia.
  - unfold decision_safe. fold (used_now n).
    replace (filter (fun g => negb (zget g (g_used n) =? 0)) gs) with (filter (used_now n) gs) by reflexivity.
    rewrite A. cbn [andb].
    set (k := Z.of_nat (List.length (filter (fun g => zget g (g_used n) =? 0) gs))).
    assert (Ek : k = Z.of_nat (List.length (filter (fun g => negb (used_now n g)) gs))).
    { unfold k, used_now. f_equal. f_equal. apply filter_ext. intros g. now rewrite negb_involutive. }
    rewrite <- Ek in C.
    destruct (Z.eqb_spec k 0) as [E0|N0]; [reflexivity|].
    cbn [orb]. apply Z.leb_le. apply C. pose proof (Zle_0_nat (List.length (filter (fun g => zget g (g_used n) =? 0) gs))). unfold k in *. lia.
Qed.
