(** Proofs for C11, part 2: invariants of the bind attempt, the four theorems.
    (Part 1 - the Hoare logic over [prog], what one API call does to the state,
    and the reservation sync - is Proofs/BinderLogic.v.) *)
Set Default Timeout 60.
From Coq Require Import List Arith Bool PeanoNat Lia.
From KaiV Require Import Model.Binder Model.BinderSpec Proofs.BinderLogic.
Import ListNotations.

(** * The attempt: invariants of Bind and Rollback *)
Definition readonly (c : call) : bool :=
  match c with AGetBR | AGetPod | AGetNode | AGetCM _ | AList _ => true | _ => false end.

Lemma do_call_readonly c ans st : readonly c = true -> fst (do_call c ans st) = st.
Proof.
  destruct c; simpl; intros H; try discriminate; auto;
    repeat match goal with |- context [match ?x with _ => _ end] => destruct x end; reflexivity.
Qed.


Lemma SH_incl st st' : SH st -> incl (others st') (others st) -> SH st'.
Proof.
  intros (H1 & H2) Hi. split; [eapply rsv_only_incl; eauto |].
  unfold names_ok in *. rewrite Forall_forall in *. intros p Hp. apply H2, Hi, Hp.
Qed.

Definition new_rsv (g : gid) (i : option nat) : pod :=
  mkPod (rsv_name g) true 1 PhOther (Some g) [] i None None 0 false.

(** ** What each mutating call does when it reaches the API *)
Lemma do_create g ans st st' r :
  do_call (ACreateRsv g) ans st = (st', r) ->
  (has_pod (rsv_name g) (others st) = true /\ st' = st /\ r = RErr EExists)
  \/ (has_pod (rsv_name g) (others st) = false
      /\ st' = set_others st (others st ++ [new_rsv g None]) /\ r = RName (rsv_name g)).
Proof.
  cbn [do_call]. destruct (has_pod (rsv_name g) (others st)); intros H; injection H as <- <-; auto.
Qed.

Lemma do_watch n g ans st st' r :
  do_call (AWatchRsv n g) ans st = (st', r) ->
  (exists i, ans = Some i /\ has_pod n (others st) = true
             /\ st' = set_others st (upd_pod n (fun p => with_idx p (Some i)) (others st)) /\ r = RIdx i)
  \/ (st' = st /\ r = RRefused /\ (ans = None \/ has_pod n (others st) = false)).
Proof.
  cbn [do_call]. destruct ans as [i |].
  - destruct (has_pod n (others st)) eqn:E; intros H; injection H as <- <-; [left; eauto | right; auto].
  - intros H; injection H as <- <-. right. auto.
Qed.

Lemma do_patch_labels plain multi ans st st' r :
  self_alive st = true ->
  do_call (APatchLabels plain multi) ans st = (st', r) ->
  let p' := with_labels (self st) (match plain with Some g => Some g | None => p_plain (self st) end)
                        (match multi with Some g => add_set g (p_multi (self st)) | None => p_multi (self st) end) in
  st' = set_self st p' /\ r = RPod p'.
Proof. cbn [do_call]. intros ->. intros H; injection H as <- <-. auto. Qed.

Lemma do_remove_labels plain multi ans st st' r :
  self_alive st = true ->
  do_call (ARemoveLabels plain multi) ans st = (st', r) ->
  let p' := with_labels (self st) (if plain then None else p_plain (self st))
                        (filter (fun g => negb (mem_nat g multi)) (p_multi (self st))) in
  st' = set_self st p' /\ r = RPod p'.
Proof. cbn [do_call]. intros ->. intros H; injection H as <- <-. auto. Qed.

Lemma do_patch_recv t ans st st' r :
  self_alive st = true ->
  do_call (APatchRecv t) ans st = (st', r) ->
  st' = set_self st (with_recv (self st) (Some t)) /\ r = RPod (with_recv (self st) (Some t)).
Proof. cbn [do_call]. intros ->. intros H; injection H as <- <-. auto. Qed.

Lemma do_patch_cond b ans st st' r :
  self_alive st = true ->
  do_call (APatchPodCond b) ans st = (st', r) ->
  st' = set_self st (with_cond (self st) (Some b)) /\ r = RPod (with_cond (self st) (Some b)).
Proof. cbn [do_call]. intros ->. intros H; injection H as <- <-. auto. Qed.

Lemma do_bind ans st st' r :
  self_alive st = true -> p_term (self st) = false ->
  do_call (ABind true (p_uid (self st))) ans st = (st', r) ->
  (p_node (self st) = 0 /\ st' = set_self st (with_node (self st) 1) /\ r = ROk)
  \/ (p_node (self st) <> 0 /\ st' = st /\ r = RErr EConflict).
Proof.
  cbn [do_call]. intros -> ->. rewrite Nat.eqb_refl. cbn [negb].
  destruct (p_node (self st) =? 0) eqn:E; intros H; injection H as <- <-.
  - left. apply Nat.eqb_eq in E. auto.
  - right. apply Nat.eqb_neq in E. auto.
Qed.

Lemma do_get_cm x ans st st' r :
  do_call (AGetCM x) ans st = (st', r) ->
  st' = st /\ r = match cm_get x st with Some v => RCM v | None => RNotFound end.
Proof. cbn [do_call]. intros H; injection H as <- <-. auto. Qed.

Lemma do_create_cm x u ans st st' r :
  x <> CmOther ->
  do_call (ACreateCM x u) ans st = (st', r) ->
  (cm_get x st <> None /\ st' = st /\ r = RErr EExists)
  \/ (cm_get x st = None /\ st' = cm_put x (Some (mkCM u data_empty)) st /\ r = ROk).
Proof.
  cbn [do_call]. intros Hx. destruct (cm_get x st) eqn:E.
  - intros H; injection H as <- <-. left. split; [discriminate | auto].
  - destruct x; try contradiction; intros H; injection H as <- <-; right; auto.
Qed.

Lemma do_delete_cm x ans st st' r :
  do_call (ADeleteCM x) ans st = (st', r) ->
  (st' = cm_put x None st /\ r = ROk) \/ (cm_get x st = None /\ st' = st /\ r = RNotFound).
Proof.
  cbn [do_call]. destruct (cm_get x st) eqn:E; intros H; injection H as <- <-; auto.
Qed.

Lemma do_patch_cm x owner clear sets ans st st' r :
  do_call (APatchCM x owner clear sets) ans st = (st', r) ->
  match cm_get x st with
  | Some v => st' = cm_put x (Some (mkCM (match owner with Some u => u | None => cm_owner v end)
                                          (data_apply sets (if clear then data_empty else cm_data v)))) st
              /\ r = ROk
  | None => st' = st /\ r = RNotFound
  end.
Proof.
  cbn [do_call]. destruct (cm_get x st) eqn:E; intros H; injection H as <- <-; auto.
Qed.

Lemma do_delete_br ans st st' r :
  do_call ADeleteBR ans st = (st', r) ->
  (st' = set_br st None /\ r = ROk) \/ (br st = None /\ st' = st /\ r = RNotFound).
Proof. cbn [do_call]. destruct (br st) eqn:E; intros H; injection H as <- <-; auto. Qed.

Lemma do_patch_br ph att ans st st' r :
  do_call (APatchBRStatus ph att) ans st = (st', r) ->
  match br st with
  | Some b => st' = set_br st (Some (mkBR (match ph with Some x => x | None => b_phase b end)
                                          (match att with Some a => a | None => b_attempts b end))) /\ r = ROk
  | None => st' = st /\ r = RNotFound
  end.
Proof. cbn [do_call]. destruct (br st) eqn:E; intros H; injection H as <- <-; auto. Qed.

Section Main.
  Variable faults : nat -> fault.
  Variable dp : nat -> option nat.
  Variable ord : nat -> list gid.
  Variable sc : scen.
  Variable init : store.
  Variable br0 : option brst.      (* the request's status object while the attempt runs *)
  Variable mk0 : option (nat * nat).   (* the ghost marks while this part of the attempt runs *)
  Variable mke0 : option nat.
  Notation exec := (Binder.exec faults no_env dp ord).
  Notation step := (Binder.step faults no_env dp).

  Ltac api E :=
    cbn [Binder.exec];
    match goal with
    | |- context [Binder.step ?f ?e ?d ?c ?s] =>
        let s1 := fresh "s1" in let r1 := fresh "r1" in
        destruct (Binder.step f e d c s) as [s1 r1] eqn:E
    end.

  Ltac apin E sn rn :=
    cbn [Binder.exec];
    match goal with
    | |- context [Binder.step ?f ?e ?d ?c ?s] => destruct (Binder.step f e d c s) as [sn rn] eqn:E
    end.

  Definition marks_none (s : state) : Prop := s_mark s = mk0 /\ s_mark_end s = mke0.

  (** labels the server has and the attempt's starting point did not are known to the in-memory pod *)
  Definition J (st : store) (m : mem) : Prop :=
    (forall g, In g (p_multi (self st)) -> In g (p_multi (self init)) \/ In g (m_multi m))
    /\ (forall g, p_plain (self st) = Some g -> p_plain (self init) = Some g \/ opt_is_some (m_plain m) = true)
    /\ (sc_fraction sc = false ->
        p_plain (self st) = p_plain (self init) /\ p_multi (self st) = p_multi (self init)).

  (** config maps that were not there before can only exist for a shared-GPU request with the annotation *)
  Definition K (st : store) : Prop :=
    sc_fraction sc && sc_cmann sc = true
    \/ ((opt_is_some (cm_cap st) = true -> opt_is_some (cm_cap init) = true)
        /\ (opt_is_some (cm_evar st) = true -> opt_is_some (cm_evar init) = true)).

  Definition INV (s : state) : Prop :=
    G s /\ marks_none s /\ J (s_store s) (s_mem s) /\ K (s_store s)
    /\ p_node (self (s_store s)) = 0 /\ br (s_store s) = br0 /\ node_ok (s_store s) = node_ok init
    /\ (SH init -> SH (s_store s)).

  (** the in-memory pod's labels are the server's *)
  Definition M (s : state) : Prop :=
    m_plain (s_mem s) = p_plain (self (s_store s)) /\ m_multi (s_mem s) = p_multi (self (s_store s)).

  Lemma INV_only_others s s' : INV s -> G s' -> only_others s s' -> INV s'.
  Proof.
    intros (HG & (Hk & Hke) & HJ & HK & Hn & Hbr & Hno & Hsh) HG'
           (O1 & O2 & O3 & O4 & O5 & O6 & O7 & O8 & O9 & O10 & _).
    unfold INV. split; [exact HG' |].
    split; [unfold marks_none; rewrite O8, O9; auto |].
    split; [unfold J; rewrite O1, O7; exact HJ |].
    split; [unfold K; rewrite O3, O4; exact HK |].
    split; [rewrite O1; exact Hn |]. split; [congruence |]. split; [congruence |].
    intros Hi. eapply SH_incl; [apply Hsh, Hi | exact O10].
  Qed.

  (** one API call that is not the binding call: INV survives if the reached
      case re-establishes the store-dependent parts *)
  Lemma INV_step c s s1 r1 :
    INV s -> not_bind c -> step c s = (s1, r1) ->
    (reached dp c s s1 r1 ->
       base (s_store s1) /\ p_node (self (s_store s1)) = 0 /\ J (s_store s1) (s_mem s) /\ K (s_store s1)
       /\ br (s_store s1) = br0 /\ node_ok (s_store s1) = node_ok init /\ (SH (s_store s) -> SH (s_store s1))) ->
    INV s1.
  Proof.
    intros (HG & (Hk & Hke) & HJ & HK & Hn & Hbr & Hno & Hsh) Hnb E Hre.
    pose proof (step_spec _ _ _ _ _ _ E) as (Hm & Hmk & Hmke & [Hf | Hr]).
    - assert (Hc : forall u, c <> ABind false u) by (intros u ->; exact Hnb).
      pose proof (G_faulted _ _ _ _ HG Hc Hf) as HG1.
      destruct Hf as (_ & Hst & _).
      unfold INV. split; [exact HG1 |].
      split; [unfold marks_none; rewrite Hmk, Hmke; auto |].
      rewrite Hm, Hst. auto 10.
    - destruct (Hre Hr) as (Hb1 & Hn1 & HJ1 & HK1 & Hbr1 & Hno1 & Hsh1).
      assert (HG1 : G s1) by (eapply G_reached; eauto; congruence).
      unfold INV. split; [exact HG1 |].
      split; [unfold marks_none; rewrite Hmk, Hmke; auto |].
      rewrite Hm. auto 10.
  Qed.

  Lemma INV_step_ro c s s1 r1 :
    INV s -> readonly c = true -> step c s = (s1, r1) -> INV s1 /\ s_mem s1 = s_mem s.
  Proof.
    intros HI Hro E. split; [| apply (step_spec _ _ _ _ _ _ E)].
    eapply INV_step; eauto.
    - destruct c; try discriminate; exact I.
    - intros (_ & _ & _ & Hd & _).
      pose proof (do_call_readonly c (if is_watch c then dp (s_watches s) else None) (s_store s) Hro) as Hx.
      rewrite Hd in Hx. simpl in Hx. rewrite Hx.
      destruct HI as (HG & _ & HJ & HK & Hn & Hbr & Hno & _).
      split; [apply HG |]. auto 10.
  Qed.

  Lemma INV_set_mem s m :
    INV s -> J (s_store s) m -> INV (set_mem s m).
  Proof.
    intros (HG & Hmk & HJ & HK & Hn & Hbr & Hno & Hsh) HJ'.
    unfold INV. split; [eapply G_ext; [| | | exact HG]; reflexivity |].
    split; [exact Hmk |]. simpl. auto 10.
  Qed.

  (** ** Reservation of one GPU group *)

  Lemma has_pod_app n a b : has_pod n (a ++ b) = has_pod n a || has_pod n b.
  Proof. unfold has_pod. apply existsb_app. Qed.

  Lemma upd_pod_fresh n f o p :
    has_pod n o = false -> p_name p = n -> upd_pod n f (o ++ [p]) = o ++ [f p].
  Proof.
    intros Hn Hp. unfold upd_pod. rewrite map_app. simpl. rewrite Hp, Nat.eqb_refl. f_equal.
    induction o as [| q o IH]; [reflexivity |]. simpl in *. apply orb_false_iff in Hn as (Hq & Ho).
    rewrite Hq. f_equal. apply IH, Ho.
  Qed.

  Lemma SH_add st g i o' :
    o' = others st ++ [new_rsv g i] -> SH st -> SH (set_others st o').
  Proof.
    intros -> (H1 & H2). split.
    - unfold rsv_only in *. simpl. apply Forall_app. split; [exact H1 | constructor; [reflexivity | constructor]].
    - unfold names_ok in *. simpl. apply Forall_app. split; [exact H2 |]. constructor; [| constructor].
      intros g' Hg'. simpl in Hg'. unfold rsv_name in Hg'. simpl. f_equal. lia.
  Qed.

  Lemma base_add st g i o' :
    o' = others st ++ [new_rsv g i] -> base st -> base (set_others st o').
  Proof.
    intros -> (Ha & Hn & Hr & Hp & Ho & Ht). unfold base. simpl. repeat split; auto.
    apply Forall_app. split; [exact Ho |]. constructor; [| constructor]. simpl. unfold rsv_name. lia.
  Qed.

  (** a step that leaves the store and the in-memory pod alone *)
  Lemma ro_step c s s1 r1 :
    INV s -> readonly c = true -> step c s = (s1, r1) ->
    INV s1 /\ s_store s1 = s_store s /\ s_mem s1 = s_mem s /\ s_nfail s <= s_nfail s1
    /\ (s_nfail s1 = s_nfail s ->
        r1 = snd (do_call c None (s_store s)) /\ s_crashed s1 = false).
  Proof.
    intros HI Hro E. destruct (INV_step_ro _ _ _ _ HI Hro E) as (HI1 & Hm).
    pose proof (step_spec _ _ _ _ _ _ E) as (_ & _ & _ & [Hf | Hr]).
    - destruct Hf as (_ & Hst & Hnf & _).
      split; [exact HI1 |]. split; [exact Hst |]. split; [exact Hm |]. split; [lia |]. intros; exfalso; lia.
    - destruct Hr as (_ & Hc' & Hnf & Hd & _).
      assert (Hw : is_watch c = false) by (destruct c; try discriminate; reflexivity).
      rewrite Hw in Hd.
      pose proof (do_call_readonly c None (s_store s) Hro) as Hx. rewrite Hd in *. simpl in Hx.
      split; [exact HI1 |]. split; [exact Hx |]. split; [exact Hm |]. split; [lia |]. intros _. simpl. auto.
  Qed.

  Definition dp_ok : Prop := forall k, dp k <> None.

  (** nothing but [others] (and the ghost fields) changed *)
  Definition frame_oth (s s' : state) : Prop :=
    s_mem s' = s_mem s /\ self (s_store s') = self (s_store s)
    /\ self_alive (s_store s') = self_alive (s_store s)
    /\ cm_cap (s_store s') = cm_cap (s_store s) /\ cm_evar (s_store s') = cm_evar (s_store s)
    /\ br (s_store s') = br (s_store s) /\ node_ok (s_store s') = node_ok (s_store s)
    /\ s_nfail s <= s_nfail s'.

  Lemma frame_oth_refl s : frame_oth s s.
  Proof. unfold frame_oth. repeat split; auto. Qed.

  Lemma frame_oth_trans a b c : frame_oth a b -> frame_oth b c -> frame_oth a c.
  Proof.
    intros (A1 & A2 & A3 & A4 & A5 & A6 & A7 & A8) (B1 & B2 & B3 & B4 & B5 & B6 & B7 & B8).
    unfold frame_oth. repeat split; try congruence. lia.
  Qed.

  Lemma only_others_frame s s' : only_others s s' -> frame_oth s s'.
  Proof.
    intros (O1 & O2 & O3 & O4 & O5 & O6 & O7 & _ & _ & _ & O11 & _). unfold frame_oth. repeat split; auto.
  Qed.

  (** a call that changes at most [others] *)
  Lemma step_others c s s1 r1 :
    INV s -> not_bind c -> step c s = (s1, r1) ->
    (reached dp c s s1 r1 ->
       exists o', s_store s1 = set_others (s_store s) o' /\ Forall (fun p => p_name p <> 0) o'
                  /\ (SH (s_store s) -> SH (s_store s1))) ->
    INV s1 /\ frame_oth s s1.
  Proof.
    intros HI Hnb E Hre.
    pose proof (step_spec _ _ _ _ _ _ E) as (Hm & _ & _ & Hcase).
    assert (HI1 : INV s1).
    { eapply INV_step; eauto. intros Hr. destruct (Hre Hr) as (o' & Hst & Ho & Hsh).
      destruct HI as (HG & _ & HJ & HK & Hn & Hbr & Hno & _). rewrite Hst in Hsh |- *.
      destruct HG as ((Ha & Hn0 & Hrs & Hp & _ & Ht) & _).
      split; [unfold base; simpl; auto 10 |].
      split; [exact Hn |]. split; [exact HJ |]. split; [exact HK |]. split; [exact Hbr |].
      split; [exact Hno | exact Hsh]. }
    split; [exact HI1 |]. destruct Hcase as [Hf | Hr].
    - destruct Hf as (_ & Hst & Hnf & _). unfold frame_oth. rewrite Hst. repeat split; auto. lia.
    - destruct (Hre Hr) as (o' & Hst & _). destruct Hr as (_ & _ & Hnf & _).
      unfold frame_oth. rewrite Hst. simpl. repeat split; auto. lia.
  Qed.

  Lemma step_nfail c s s1 r1 :
    step c s = (s1, r1) -> s_nfail s <= s_nfail s1 /\ True
    /\ (s_nfail s1 = s_nfail s -> reached dp c s s1 r1).
  Proof.
    intros E. pose proof (step_spec _ _ _ _ _ _ E) as (_ & _ & _ & [Hf | Hr]).
    - destruct Hf as (Hr & _ & Hnf & _). split; [lia |]. split; intros; [exact I | exfalso; lia].
    - pose proof Hr as (_ & _ & Hnf & Hd & _). split; [lia |]. split; [exact I | intros _; exact Hr].
  Qed.

  Lemma INV_frame_G s s' : INV s -> frame_oth s s' -> s_nfail s <= s_nfail s'.
  Proof. intros _ H. apply H. Qed.

  (** the cleanup after a failed wait *)
  Lemma cleanup_delete g s :
    INV s ->
    let s' := fst (exec (Api (ADeletePod (rsv_name g) (PRsv g)) (fun _ => Ret (@None nat))) s) in
    INV s' /\ frame_oth s s'
    /\ snd (exec (Api (ADeletePod (rsv_name g) (PRsv g)) (fun _ => Ret (@None nat))) s) = None.
  Proof.
    intros HI. api E. cbn [Binder.exec fst snd].
    assert (Hnz : rsv_name g <> 0) by (unfold rsv_name; lia).
    destruct (delete_other faults dp ord _ _ _ _ _ (proj1 HI) Hnz E) as (HG1 & Hoo & _).
    split; [eapply INV_only_others; eauto |]. split; [apply only_others_frame, Hoo | reflexivity].
  Qed.

  Lemma create_and_wait_spec g s :
    INV s ->
    let s' := fst (exec (create_and_wait g) s) in
    let r := snd (exec (create_and_wait g) s) in
    INV s' /\ frame_oth s s'
    /\ (forall i, r = Some i ->
          others (s_store s') = others (s_store s) ++ [new_rsv g (Some i)])
    /\ (s_nfail s' = s_nfail s -> dp_ok -> has_pod (rsv_name g) (others (s_store s)) = false ->
        exists i, r = Some i).
  Proof.
    intros HI. unfold create_and_wait. apin E0 s1 r1.
    destruct (ro_step (AList LScaling) _ _ _ HI eq_refl E0) as (HI1 & Hst1 & Hm1 & Hn1 & _).
    assert (F1 : frame_oth s s1) by (unfold frame_oth; rewrite Hst1, Hm1; repeat split; auto).
    clear E0. apin E1 s0 r0.
    (* create *)
    destruct (step_others (ACreateRsv g) _ _ _ HI1 I E1) as (HI2 & F2).
    { intros (_ & _ & _ & Hd & _). cbn [is_watch] in Hd.
      destruct (do_create _ _ _ _ _ Hd) as [(_ & Hst & _) | (_ & Hst & _)].
      - exists (others (s_store s1)). rewrite Hst. split; [destruct (s_store s1); reflexivity |].
        split; [apply HI1 | auto].
      - eexists. split; [exact Hst |]. split.
        + apply Forall_app. split; [apply HI1 |]. constructor; [| constructor]. simpl. unfold rsv_name. lia.
        + rewrite Hst. apply (SH_add _ g None). reflexivity. }
    pose proof (frame_oth_trans _ _ _ F1 F2) as F12.
    destruct (step_nfail _ _ _ _ E1) as (Hle1 & Hflt1 & Hrch1).
    destruct r0; try (cbn [Binder.exec fst snd]; split; [exact HI2 |]; split; [exact F12 |];
                      split; [discriminate |]; intros Hnf _ Hhp; exfalso;
                      assert (Hx : s_nfail s0 = s_nfail s1) by (destruct F12 as (_&_&_&_&_&_&_&?); lia);
                      destruct (Hrch1 Hx) as (_ & _ & _ & Hd & _); cbn [is_watch] in Hd;
                      destruct (do_create _ _ _ _ _ Hd) as [(Hh & _ & Hr) | (_ & _ & Hr)];
                      [rewrite Hst1 in Hh; congruence | discriminate]).
    (* RName: the pod was created *)
    assert (Hcr : has_pod (rsv_name g) (others (s_store s)) = false
                  /\ s_store s0 = set_others (s_store s) (others (s_store s) ++ [new_rsv g None]) /\ n = rsv_name g).
    { pose proof (step_spec _ _ _ _ _ _ E1) as (_ & _ & _ & [Hf | Hr]).
      - destruct Hf as ((k0 & Hx) & _). discriminate.
      - destruct Hr as (_ & _ & _ & Hd & _). cbn [is_watch] in Hd.
        destruct (do_create _ _ _ _ _ Hd) as [(_ & _ & Hr) | (Hh & Hst & Hr)]; [discriminate |].
        rewrite Hst1 in Hh, Hst. injection Hr as ->. auto. }
    destruct Hcr as (Hhp & Hst2 & ->).
    apin E2 s2 r2.
    destruct (step_others (AWatchRsv (rsv_name g) g) _ _ _ HI2 I E2) as (HI3 & F3).
    { intros (_ & _ & _ & Hd & _). cbn [is_watch] in Hd.
      destruct (do_watch _ _ _ _ _ _ Hd) as [(i & _ & _ & Hst & _) | (Hst & _)].
      - eexists. split; [exact Hst |]. rewrite Hst2. cbn [set_others others].
        rewrite (upd_pod_fresh (rsv_name g) _ (others (s_store s)) (new_rsv g None) Hhp eq_refl). split.
        + apply Forall_app. split; [apply HI |]. constructor; [| constructor].
          simpl. unfold rsv_name. lia.
        + intros Hsh.
          assert (Hsh1 : SH (s_store s)).
          { eapply SH_incl; [exact Hsh |]. simpl. apply incl_appl, incl_refl. }
          rewrite Hst, Hst2. cbn [set_others others].
          rewrite (upd_pod_fresh (rsv_name g) _ (others (s_store s)) (new_rsv g None) Hhp eq_refl).
          exact (SH_add (s_store s) g (Some i) _ eq_refl Hsh1).
      - exists (others (s_store s0)). rewrite Hst. split; [destruct (s_store s0); reflexivity |].
        split; [apply HI2 | auto]. }
    pose proof (frame_oth_trans _ _ _ F12 F3) as F123.
    destruct (step_nfail _ _ _ _ E2) as (Hle2 & Hflt2 & Hrch2).
    assert (Hfail : (s_nfail s2 = s_nfail s -> dp_ok -> False) ->
              let P := Api (ADeletePod (rsv_name g) (PRsv g)) (fun _ : resp => Ret (@None nat)) in
              INV (fst (exec P s2)) /\ frame_oth s (fst (exec P s2))
              /\ (forall i, snd (exec P s2) = Some i ->
                    others (s_store (fst (exec P s2))) = others (s_store s) ++ [new_rsv g (Some i)])
              /\ (s_nfail (fst (exec P s2)) = s_nfail s -> dp_ok ->
                  has_pod (rsv_name g) (others (s_store s)) = false -> exists i, snd (exec P s2) = Some i)).
    { intros Hlive P. destruct (cleanup_delete g s2 HI3) as (D1 & D2 & D3). fold P in D1, D2, D3.
      split; [exact D1 |]. split; [eapply frame_oth_trans; eauto |].
      split; [intros i Hi; rewrite D3 in Hi; discriminate |].
      intros Hnf Hdp _. exfalso. apply Hlive; auto.
      destruct D2 as (_&_&_&_&_&_&_&Hle3). destruct F123 as (_&_&_&_&_&_&_&Hle4). lia. }
    assert (Hlive : forall r2', (forall i, r2' <> RIdx i) -> s_nfail s2 = s_nfail s -> dp_ok -> r2 = r2' -> False).
    { intros r2' Hni Hnf Hdp ->.
      assert (Hx : s_nfail s2 = s_nfail s0) by (destruct F12 as (_&_&_&_&_&_&_&?); lia).
      destruct (Hrch2 Hx) as (_ & _ & _ & Hd & _). cbn [is_watch] in Hd.
      destruct (do_watch _ _ _ _ _ _ Hd) as [(i & _ & _ & _ & Hr) | (_ & _ & [Hnone | Hnp])].
      - eapply Hni. exact Hr.
      - eapply Hdp. exact Hnone.
      - rewrite Hst2 in Hnp. cbn [set_others others] in Hnp. rewrite has_pod_app in Hnp.
        simpl in Hnp. rewrite Nat.eqb_refl, orb_true_r in Hnp. discriminate. }
    destruct r2; try (apply Hfail; intros Hnf Hdp; eapply Hlive; eauto; discriminate).
    (* RIdx: the device plugin answered *)
    cbn [Binder.exec fst snd].
    assert (Ho3 : others (s_store s2) = others (s_store s) ++ [new_rsv g (Some i)]).
    { pose proof (step_spec _ _ _ _ _ _ E2) as (_ & _ & _ & [Hf | Hr]).
      - destruct Hf as ((k0 & Hx) & _). discriminate.
      - destruct Hr as (_ & _ & _ & Hd & _). cbn [is_watch] in Hd.
        destruct (do_watch _ _ _ _ _ _ Hd) as [(i' & _ & _ & Hst & Hr) | (_ & Hr & _)]; [| discriminate].
        injection Hr as <-. rewrite Hst, Hst2. cbn [set_others others].
        rewrite (upd_pod_fresh (rsv_name g) _ (others (s_store s)) (new_rsv g None) Hhp eq_refl). reflexivity. }
    split; [exact HI3 |]. split; [exact F123 |].
    split; [intros i' Hi'; injection Hi' as <-; exact Ho3 |].
    intros _ _ _. eauto.
  Qed.

  Lemma INV_mem_ext s s' :
    s_store s' = s_store s -> s_mem s' = s_mem s -> s_log s' = s_log s -> s_hist s' = s_hist s ->
    s_mark s' = s_mark s -> s_mark_end s' = s_mark_end s -> INV s -> INV s'.
  Proof.
    intros H1 H2 H3 H4 H5 H6 (HG & (Hk & Hke) & HJ & HK & Hn & Hbr & Hno & Hsh).
    unfold INV, marks_none. rewrite H1, H2, H5, H6. split; [eapply G_ext; eauto |]. auto 10.
  Qed.

  (** updatePodGPUGroup *)
  Lemma label_consumer_spec g i s :
    INV s -> M s -> sc_fraction sc = true ->
    let s' := fst (exec (label_consumer sc g i) s) in
    let r := snd (exec (label_consumer sc g i) s) in
    INV s' /\ s_nfail s <= s_nfail s'
    /\ cm_cap (s_store s') = cm_cap (s_store s) /\ cm_evar (s_store s') = cm_evar (s_store s)
    /\ (forall i', r = Some i' ->
          i' = i /\ M s' /\ others (s_store s') = others (s_store s)
          /\ p_plain (self (s_store s')) = (if sc_multi sc then p_plain (self (s_store s)) else Some g)
          /\ (forall x, In x (p_multi (self (s_store s))) -> In x (p_multi (self (s_store s'))))
          /\ (sc_multi sc = true -> In g (p_multi (self (s_store s')))))
    /\ (s_nfail s' = s_nfail s -> r = Some i).
  Proof.
    intros HI (HM1 & HM2) Hfr. unfold label_consumer. cbn [Binder.exec].
    set (m := s_mem s).
    set (m' := if sc_multi sc then mem_with_labels m (m_plain m) (add_set g (m_multi m))
               else mem_with_labels m (Some g) (m_multi m)).
    set (dplain := if sc_multi sc then None else if opt_nat_eqb (m_plain m) (Some g) then None else Some g).
    set (dmulti := if sc_multi sc then if mem_nat g (m_multi m) then None else Some g else None).
    match goal with |- context [Binder.step _ _ _ _ ?st] => set (sa := st) end.
    assert (HIa : INV sa).
    { apply (INV_set_mem s m' HI). destruct HI as (_ & _ & (J1 & J2 & _) & _).
      split; [| split; [| intros Hx; rewrite Hfr in Hx; discriminate]].
      - intros x Hx. right. unfold m'. fold m in HM2. destruct (sc_multi sc); simpl.
        + apply add_set_In. right. rewrite HM2. exact Hx.
        + rewrite HM2. exact Hx.
      - intros x Hx. right. unfold m'. fold m in HM1. destruct (sc_multi sc); simpl.
        + rewrite HM1, Hx. reflexivity.
        + reflexivity. }
    apin E1 s1 r1.
    assert (Halive : self_alive (s_store sa) = true) by apply HIa.
    set (p' := with_labels (self (s_store s))
                 (match dplain with Some x => Some x | None => p_plain (self (s_store s)) end)
                 (match dmulti with Some x => add_set x (p_multi (self (s_store s))) | None => p_multi (self (s_store s)) end)).
    assert (Hreach : reached dp (APatchLabels dplain dmulti) sa s1 r1 ->
                     s_store s1 = set_self (s_store s) p' /\ r1 = RPod p').
    { intros (_ & _ & _ & Hd & _). cbn [is_watch] in Hd. apply (do_patch_labels _ _ _ _ _ _ Halive Hd). }
    assert (Hp'plain : p_plain p' = if sc_multi sc then p_plain (self (s_store s)) else Some g).
    { unfold p', dplain. fold m in HM1. simpl. destruct (sc_multi sc); [reflexivity |].
      destruct (opt_nat_eqb (m_plain m) (Some g)) eqn:Eq; [| reflexivity].
      apply opt_nat_eqb_eq in Eq. congruence. }
    assert (Hp'multi : p_multi p' = if sc_multi sc then add_set g (p_multi (self (s_store s)))
                                   else p_multi (self (s_store s))).
    { unfold p', dmulti. fold m in HM2. simpl. destruct (sc_multi sc); [| reflexivity].
      destruct (mem_nat g (m_multi m)) eqn:Em; [| reflexivity].
      unfold add_set. rewrite <- HM2, Em. reflexivity. }
    assert (HI1 : INV s1).
    { eapply INV_step; eauto; [exact I |]. intros Hr. destruct (Hreach Hr) as (Hst & _). rewrite Hst.
      destruct HIa as (HGa & _ & (J1 & J2 & _) & HKa & Hna & Hbra & Hnoa & _).
      destruct HGa as ((Ha & Hn0 & Hrs & Hp & Ho & Ht) & _).
      split; [unfold base; simpl; auto 10 |]. split; [exact Hna |]. split.
      - split; [| split; [| intros Hx; rewrite Hfr in Hx; discriminate]].
        + intros x Hx. right. cbn [self set_self] in Hx. rewrite Hp'multi in Hx. unfold m'. fold m in HM2.
          destruct (sc_multi sc); simpl.
          * rewrite HM2. exact Hx.
          * rewrite HM2. exact Hx.
        + cbn [self set_self]. rewrite Hp'plain. intros x Hx. right. unfold m'. fold m in HM1.
          destruct (sc_multi sc); simpl.
          * rewrite HM1, Hx. reflexivity.
          * reflexivity.
      - split; [exact HKa |]. split; [exact Hbra |]. split; [exact Hnoa |]. auto. }
    destruct (step_nfail _ _ _ _ E1) as (Hle1 & Hflt1 & Hrch1).
    pose proof (step_spec _ _ _ _ _ _ E1) as (Hm1 & _ & _ & Hcase).
    assert (Hcms1 : cm_cap (s_store s1) = cm_cap (s_store s) /\ cm_evar (s_store s1) = cm_evar (s_store s)).
    { destruct Hcase as [Hf | Hr].
      - destruct Hf as (_ & Hst & _). rewrite Hst. auto.
      - destruct (Hreach Hr) as (Hst & _). rewrite Hst. auto. }
    assert (Hfailpath :
      let P := (_ <- sync_group g ;; Ret (@None nat)) in
      (s_nfail s1 = s_nfail s -> False) ->
      INV (fst (exec P s1)) /\ s_nfail s <= s_nfail (fst (exec P s1))
      /\ cm_cap (s_store (fst (exec P s1))) = cm_cap (s_store s)
      /\ cm_evar (s_store (fst (exec P s1))) = cm_evar (s_store s)
      /\ (forall i', snd (exec P s1) = Some i' -> False)
      /\ (s_nfail (fst (exec P s1)) = s_nfail s -> False)).
    { intros P Hne. unfold P. rewrite exec_bind.
      destruct (sync_group_spec faults dp ord g s1 (proj1 HI1)) as (S1 & S2 & _).
      destruct (exec (sync_group g) s1) as [s2 e2]. cbn [fst snd Binder.exec] in *.
      split; [eapply INV_only_others; eauto |].
      destruct S2 as (_ & _ & O3 & O4 & _ & _ & _ & _ & _ & _ & O11 & _).
      assert (s_nfail sa = s_nfail s) by reflexivity.
      split; [lia |]. split; [destruct Hcms1; congruence |]. split; [destruct Hcms1; congruence |].
      split; [discriminate |]. intros Hx. apply Hne. lia. }
    assert (Hsa : s_nfail sa = s_nfail s) by reflexivity.
    destruct r1;
      try (destruct Hfailpath as (F1 & F2 & F3 & F4 & F5 & F6);
           [ intros Hx; rewrite <- Hsa in Hx; destruct (Hrch1 Hx) as (_ & _ & _ & Hd & _); cbn [is_watch] in Hd;
             destruct (do_patch_labels _ _ _ _ _ _ Halive Hd) as (_ & Hr); discriminate
           | split; [exact F1 |]; split; [exact F2 |]; split; [exact F3 |]; split; [exact F4 |];
             split; [intros i' Hi'; exfalso; eapply F5; eauto | intros Hx; exfalso; auto] ]).
    (* RPod: the patch reached the server *)
    assert (Hr : reached dp (APatchLabels dplain dmulti) sa s1 (RPod p)).
    { destruct Hcase as [((k0 & Hx) & _) | Hr]; [discriminate | exact Hr]. }
    destruct (Hreach Hr) as (Hst & Hrp). injection Hrp as ->.
    cbn [Binder.exec fst snd].
    match goal with |- context [INV ?st] => set (sb := st) end.
    assert (HIb : INV sb).
    { apply (INV_set_mem s1 (mem_of p') HI1). rewrite Hst.
      split; [| split; [| intros Hx; rewrite Hfr in Hx; discriminate]].
      - intros x Hx. right. exact Hx.
      - cbn [self set_self mem_of m_plain]. intros x Hx. right. rewrite Hx. reflexivity. }
    split; [exact HIb |].
    assert (Hnfb : s_nfail sb = s_nfail s1) by reflexivity.
    split; [lia |]. destruct Hcms1 as (C1 & C2).
    split; [exact C1 |]. split; [exact C2 |].
    split.
    - intros i' Hi'. injection Hi' as <-. split; [reflexivity |].
      split; [unfold M; cbn [sb s_mem s_store set_mem]; rewrite Hst; split; reflexivity |].
      cbn [sb s_store set_mem]. rewrite Hst. cbn [set_self others self].
      split; [reflexivity |]. split; [exact Hp'plain |]. rewrite Hp'multi. split.
      + intros x Hx. destruct (sc_multi sc); [apply add_set_In; auto | exact Hx].
      + intros ->. apply add_set_In. auto.
    - intros _. reflexivity.
  Qed.

  (** ** reservation pods of a group *)
  Definition fg (g : gid) (p : pod) : bool := p_rsv p && opt_nat_eqb (p_plain p) (Some g).
  Definition ridx (g : gid) (o : list pod) : option nat :=
    match filter (fg g) o with p :: _ => p_idx p | [] => None end.

  Lemma rsv_idx_ridx g st : rsv_idx g st = ridx g (others st).
  Proof. reflexivity. Qed.

  Lemma ridx_app_some g o x j : ridx g o = Some j -> ridx g (o ++ [x]) = Some j.
  Proof.
    unfold ridx. rewrite filter_app. destruct (filter (fg g) o); [discriminate | auto].
  Qed.

  Lemma ridx_app_new g o i : filter (fg g) o = [] -> ridx g (o ++ [new_rsv g (Some i)]) = Some i.
  Proof.
    intros H. unfold ridx. rewrite filter_app, H. simpl. unfold fg. simpl. rewrite Nat.eqb_refl. reflexivity.
  Qed.

  Lemma filter_filter {A} (f h : A -> bool) l : filter f (filter h l) = filter (fun x => h x && f x) l.
  Proof.
    induction l as [| x l IH]; [reflexivity |]. simpl. destruct (h x); simpl; [| exact IH].
    destruct (f x); simpl; rewrite IH; reflexivity.
  Qed.

  Lemma filter_none {A} (f : A -> bool) l : (forall x, In x l -> f x = false) -> filter f l = [].
  Proof.
    induction l as [| x l IH]; intros H; [reflexivity |]. simpl. rewrite (H x (or_introl eq_refl)).
    apply IH. intros y Hy. apply H. right. exact Hy.
  Qed.

  Lemma list_rsv g st : base st -> filter (selects (LRsv g)) (all_pods st) = filter (fg g) (others st).
  Proof.
    intros (Ha & _ & Hr & _). unfold all_pods. rewrite Ha, !filter_app, filter_filter.
    assert (H2 : filter (selects (LRsv g)) [self st] = []).
    { simpl. rewrite Hr. reflexivity. }
    assert (H3 : filter (selects (LRsv g)) (filter (fun p => negb (p_rsv p)) (others st)) = []).
    { rewrite filter_filter. apply filter_none. intros x _. simpl. destruct (p_rsv x); reflexivity. }
    rewrite H2, H3, !app_nil_r. apply filter_ext. intros x. unfold fg. simpl.
    destruct (p_rsv x); reflexivity.
  Qed.

  Lemma all_idx_ext gs st st' :
    (forall g j, In g gs -> rsv_idx g st = Some j -> rsv_idx g st' = Some j) ->
    forall acc, all_idx gs st = Some acc -> all_idx gs st' = Some acc.
  Proof.
    induction gs as [| g gs IH]; intros H acc Ha; [exact Ha |].
    simpl in *. destruct (rsv_idx g st) as [j |] eqn:Ej; [| discriminate].
    rewrite (H g j (or_introl eq_refl) Ej).
    destruct (all_idx gs st) as [l |] eqn:El; [| discriminate].
    rewrite (IH (fun g' j' Hg' => H g' j' (or_intror Hg')) l eq_refl). exact Ha.
  Qed.

  Lemma all_idx_app gs g st acc i :
    all_idx gs st = Some acc -> rsv_idx g st = Some i -> all_idx (gs ++ [g]) st = Some (acc ++ [i]).
  Proof.
    revert acc. induction gs as [| g0 gs IH]; intros acc Ha Hg; simpl in *.
    - injection Ha as <-. rewrite Hg. reflexivity.
    - destruct (rsv_idx g0 st); [| discriminate]. destruct (all_idx gs st) as [l |]; [| discriminate].
      injection Ha as <-. rewrite (IH l eq_refl Hg). reflexivity.
  Qed.

  Definition annotated (st : store) : Prop := Forall (fun p => opt_is_some (p_idx p) = true) (others st).
  Definition Live (st : store) : Prop := SH st /\ annotated st.

  (** ReserveGpuDevice *)
  Definition rg_post (g : gid) (s s' : state) (r : option nat) : Prop :=
    INV s' /\ s_nfail s <= s_nfail s'
    /\ cm_cap (s_store s') = cm_cap (s_store s) /\ cm_evar (s_store s') = cm_evar (s_store s)
    /\ (forall i, r = Some i ->
          M s' /\ rsv_idx g (s_store s') = Some i
          /\ (forall g' j, rsv_idx g' (s_store s) = Some j -> rsv_idx g' (s_store s') = Some j)
          /\ p_plain (self (s_store s')) = (if sc_multi sc then p_plain (self (s_store s)) else Some g)
          /\ (forall x, In x (p_multi (self (s_store s))) -> In x (p_multi (self (s_store s'))))
          /\ (sc_multi sc = true -> In g (p_multi (self (s_store s')))))
    /\ (s_nfail s' = s_nfail s -> dp_ok -> Live (s_store s) -> (exists i, r = Some i) /\ Live (s_store s')).

  Lemma reserve_gpu_spec g s :
    INV s -> M s -> sc_fraction sc = true ->
    rg_post g s (fst (exec (reserve_gpu sc g) s)) (snd (exec (reserve_gpu sc g) s)).
  Proof.
    intros HI HM Hfr. unfold reserve_gpu. apin E0 s1 r1.
    destruct (ro_step (AList (LRsv g)) _ _ _ HI eq_refl E0) as (HI1 & Hst1 & Hm1 & Hn1 & Hlv1).
    assert (HM1 : M s1) by (unfold M; rewrite Hst1, Hm1; exact HM).
    assert (Hnone : forall P : prog (option nat), P = Ret None ->
              (s_nfail s1 = s_nfail s -> dp_ok -> Live (s_store s) -> False) ->
              rg_post g s (fst (exec P s1)) (snd (exec P s1))).
    { intros P -> Hl. unfold rg_post. cbn [Binder.exec fst snd]. rewrite Hst1.
      split; [exact HI1 |]. split; [exact Hn1 |]. split; [reflexivity |]. split; [reflexivity |].
      split; [intros i Hi; discriminate Hi |]. intros A B C. exfalso. eauto. }
    destruct r1 as [| k0 | | l | | | | |];
      try (apply Hnone; [reflexivity |]; intros Hx _ _; destruct (Hlv1 Hx) as (Hr & _); cbn [do_call snd] in Hr;
           discriminate Hr).
    assert (Hl : l = filter (fg g) (others (s_store s)) /\ s_nfail s1 = s_nfail s).
    { pose proof (step_spec _ _ _ _ _ _ E0) as (_ & _ & _ & [Hf | Hr]).
      - destruct Hf as ((k0 & Hx) & _). discriminate.
      - destruct Hr as (_ & _ & Hnf & Hd & _). cbn [do_call is_watch] in Hd. injection Hd as _ Hd.
        rewrite list_rsv in Hd; [auto | apply HI]. }
    destruct Hl as (Hl & Hnf1).
    assert (Hlive_add : forall i o', o' = others (s_store s) ++ [new_rsv g (Some i)] ->
              Live (s_store s) -> forall st', others st' = o' -> Live st').
    { intros i o' -> (Hsh & Han) st' Ho. destruct (SH_add (s_store s) g (Some i) _ eq_refl Hsh) as (A1 & A2).
      split; [split |].
      - unfold rsv_only in *. rewrite Ho. exact A1.
      - unfold names_ok in *. rewrite Ho. exact A2.
      - unfold annotated in *. rewrite Ho. apply Forall_app. split; [exact Han |]. constructor; [reflexivity | constructor]. }
    destruct l as [| p l].
    - (* no reservation pod yet: create one and wait for its device *)
      rewrite exec_bind.
      destruct (create_and_wait_spec g s1 HI1) as (C1 & C2 & C3 & C4).
      destruct (exec (create_and_wait g) s1) as [s2 oi] eqn:Ecw. cbn [fst snd] in *.
      destruct C2 as (Cm & Cself & Calive & Ccap & Cevar & Cbr & Cno & Cnf).
      unfold rg_post. destruct oi as [i |].
      + assert (HM2 : M s2) by (unfold M; rewrite Cm, Cself; exact HM1).
        destruct (label_consumer_spec g i s2 C1 HM2 Hfr) as (L1 & L2 & L3 & L4 & L5 & L6).
        split; [exact L1 |]. split; [lia |]. split; [congruence |]. split; [congruence |].
        pose proof (C3 i eq_refl) as Ho2. rewrite Hst1 in Ho2.
        split.
        * intros i' Hi'. destruct (L5 i' Hi') as (-> & LM & Lo & Lp & Lmu & Lg).
          split; [exact LM |]. rewrite Cself, Hst1 in Lp, Lmu.
          split; [rewrite rsv_idx_ridx, Lo, Ho2; apply ridx_app_new; auto |].
          split; [intros g' j Hj; rewrite rsv_idx_ridx in *; rewrite Lo, Ho2; apply ridx_app_some; exact Hj |].
          split; [exact Lp |]. split; [exact Lmu | exact Lg].
        * intros Hnf Hdp Hlv. split; [eexists; apply L6; lia |].
          assert (Hi' : snd (exec (label_consumer sc g i) s2) = Some i) by (apply L6; lia).
          destruct (L5 i Hi') as (_ & _ & Lo & _).
          eapply Hlive_add; [reflexivity | exact Hlv |]. rewrite Lo. exact Ho2.
      + (* reservation failed *)
        cbn [Binder.exec fst snd]. split; [exact C1 |]. split; [lia |].
        split; [congruence |]. split; [congruence |]. split; [discriminate |].
        intros Hnf Hdp ((Hro & Hnm) & Han). exfalso.
        destruct C4 as (i & Hi); auto; [lia | | discriminate].
        rewrite Hst1. destruct (has_pod (rsv_name g) (others (s_store s))) eqn:Eh; [| reflexivity].
        unfold has_pod in Eh. apply existsb_exists in Eh as (q & Hq & Hqn). apply Nat.eqb_eq in Hqn.
        unfold rsv_only in Hro. unfold names_ok in Hnm. rewrite Forall_forall in Hro, Hnm.
        assert (Hfq : fg g q = true).
        { unfold fg. rewrite (Hro q Hq), (Hnm q Hq g Hqn). simpl. apply Nat.eqb_refl. }
        assert (Hin : In q (filter (fg g) (others (s_store s)))) by (apply filter_In; auto).
        rewrite <- Hl in Hin. destruct Hin.
    - (* a reservation pod exists: use its device *)
      assert (Hp_in : In p (others (s_store s))).
      { assert (Hx : In p (filter (fg g) (others (s_store s)))) by (rewrite <- Hl; left; reflexivity).
        apply filter_In in Hx. tauto. }
      destruct (p_idx p) as [i |] eqn:Ei.
      + unfold rg_post. destruct (label_consumer_spec g i s1 HI1 HM1 Hfr) as (L1 & L2 & L3 & L4 & L5 & L6).
        split; [exact L1 |]. split; [lia |]. split; [congruence |]. split; [congruence |].
        split.
        * intros i' Hi'. destruct (L5 i' Hi') as (-> & LM & Lo & Lp & Lmu & Lg).
          split; [exact LM |]. rewrite Hst1 in Lp, Lmu, Lo.
          split; [rewrite rsv_idx_ridx, Lo; unfold ridx; rewrite <- Hl; exact Ei |].
          split; [intros g' j Hj; rewrite rsv_idx_ridx in *; rewrite Lo; exact Hj |].
          split; [exact Lp |]. split; [exact Lmu | exact Lg].
        * intros Hnf Hdp Hlv. split; [eexists; apply L6; lia |].
          assert (Hi' : snd (exec (label_consumer sc g i) s1) = Some i) by (apply L6; lia).
          destruct (L5 i Hi') as (_ & _ & Lo & _). rewrite Hst1 in Lo.
          destruct Hlv as ((Hro & Hnm) & Han). unfold Live, SH, rsv_only, names_ok, annotated. rewrite Lo. auto.
      + apply Hnone; [reflexivity |]. intros _ _ (_ & Han). unfold annotated in Han.
        rewrite Forall_forall in Han. specialize (Han p Hp_in). rewrite Ei in Han. discriminate.
  Qed.

  Fixpoint last_opt (l : list nat) : option nat :=
    match l with
    | [] => None
    | [x] => Some x
    | _ :: r => last_opt r
    end.

  Lemma last_opt_app l x : last_opt (l ++ [x]) = Some x.
  Proof.
    induction l as [| y l IH]; [reflexivity |]. simpl. destruct (l ++ [x]) eqn:E; [| exact IH].
    destruct l; discriminate.
  Qed.

  (** the labels of the groups reserved so far *)
  Definition Lab (done : list gid) (p : pod) : Prop :=
    if sc_multi sc then (forall g, In g done -> In g (p_multi p))
    else (forall g, last_opt done = Some g -> p_plain p = Some g).

  Definition rl_post (done gs : list gid) (s s' : state) (r : option (list nat)) : Prop :=
    INV s' /\ s_nfail s <= s_nfail s'
    /\ cm_cap (s_store s') = cm_cap (s_store s) /\ cm_evar (s_store s') = cm_evar (s_store s)
    /\ (forall idxs, r = Some idxs ->
          M s' /\ Lab (done ++ gs) (self (s_store s')) /\ all_idx (done ++ gs) (s_store s') = Some idxs)
    /\ (s_nfail s' = s_nfail s -> dp_ok -> Live (s_store s) -> (exists idxs, r = Some idxs) /\ Live (s_store s')).

  Lemma reserve_loop_spec gs : sc_fraction sc = true -> forall done acc s,
    INV s -> M s -> Lab done (self (s_store s)) -> all_idx done (s_store s) = Some acc ->
    rl_post done gs s (fst (exec (reserve_loop sc gs acc) s)) (snd (exec (reserve_loop sc gs acc) s)).
  Proof.
    intros Hfr. induction gs as [| g gs IH]; intros done acc s HI HM HL HA.
    - unfold rl_post. cbn [reserve_loop Binder.exec fst snd]. rewrite app_nil_r.
      split; [exact HI |]. split; [lia |]. split; [reflexivity |]. split; [reflexivity |].
      split; [intros idxs Hx; injection Hx as <-; auto |]. intros _ _ Hl. eauto.
    - cbn [reserve_loop]. rewrite exec_bind.
      destruct (reserve_gpu_spec g s HI HM Hfr) as (R1 & R2 & R3 & R4 & R5 & R6).
      destruct (exec (reserve_gpu sc g) s) as [s1 oi]. cbn [fst snd] in *.
      destruct oi as [i |].
      + destruct (R5 i eq_refl) as (RM & Rg & Rpres & Rp & Rmu & Rgin).
        assert (HL1 : Lab (done ++ [g]) (self (s_store s1))).
        { unfold Lab in *. destruct (sc_multi sc).
          - intros x Hx. apply in_app_iff in Hx as [Hx | [<- | []]]; auto.
          - intros x Hx. rewrite last_opt_app in Hx. injection Hx as <-. exact Rp. }
        assert (HA1 : all_idx (done ++ [g]) (s_store s1) = Some (acc ++ [i])).
        { apply all_idx_app; [| exact Rg]. eapply all_idx_ext; [| exact HA]. intros g' j _ Hj. apply Rpres, Hj. }
        specialize (IH (done ++ [g]) (acc ++ [i]) s1 R1 RM HL1 HA1).
        destruct IH as (I1 & I2 & I3 & I4 & I5 & I6). unfold rl_post.
        split; [exact I1 |]. split; [lia |]. split; [congruence |]. split; [congruence |].
        split.
        * intros idxs Hx. destruct (I5 idxs Hx) as (A & B & C). rewrite <- app_assoc in B, C. auto.
        * intros Hnf Hdp Hl. destruct (R6 ltac:(lia) Hdp Hl) as (_ & Hl1). apply I6; auto. lia.
      + unfold rl_post. cbn [Binder.exec fst snd].
        split; [exact R1 |]. split; [exact R2 |]. split; [exact R3 |]. split; [exact R4 |].
        split; [discriminate |]. intros Hnf Hdp Hl. destruct (R6 Hnf Hdp Hl) as ((i & Hi) & _). discriminate.
  Qed.

  (** ** config maps *)
  Lemma list_nat_eqb_eq a : forall b, list_nat_eqb a b = true -> a = b.
  Proof.
    induction a as [| x a IH]; intros [| y b] H; simpl in H; try discriminate; [reflexivity |].
    apply andb_true_iff in H as (H1 & H2). apply Nat.eqb_eq in H1. subst. f_equal. apply IH, H2.
  Qed.

  Lemma cval_eqb_eq a b : cval_eqb a b = true -> a = b.
  Proof.
    destruct a, b; simpl; intros H; try discriminate; try reflexivity. f_equal. apply list_nat_eqb_eq, H.
  Qed.

  Lemma opt_cval_eqb_eq a b : opt_cval_eqb a b = true -> a = b.
  Proof. destruct a, b; simpl; intros H; try discriminate; [f_equal; apply cval_eqb_eq, H | reflexivity]. Qed.

  Lemma data_patch old new :
    (forall k, data_get k new = None -> data_get k old = None) ->
    data_apply (data_diff old new) old = new.
  Proof.
    intros H. destruct old as [a b c d], new as [a' b' c' d'].
    pose proof (H ENumGpusBC) as H1. pose proof (H EPortion) as H2.
    pose proof (H EVisible) as H3. pose proof (H EVisibleBC) as H4. simpl in H1, H2, H3, H4. clear H.
    unfold data_diff, diff_key, data_apply. cbn [data_get d_num d_portion d_vis d_visbc].
    destruct a' as [va |]; [destruct (opt_cval_eqb a (Some va)) eqn:Ea; [apply opt_cval_eqb_eq in Ea; subst a |] | rewrite (H1 eq_refl)];
    (destruct b' as [vb |]; [destruct (opt_cval_eqb b (Some vb)) eqn:Eb; [apply opt_cval_eqb_eq in Eb; subst b |] | rewrite (H2 eq_refl)]);
    (destruct c' as [vc |]; [destruct (opt_cval_eqb c (Some vc)) eqn:Ec; [apply opt_cval_eqb_eq in Ec; subst c |] | rewrite (H3 eq_refl)]);
    (destruct d' as [vd |]; [destruct (opt_cval_eqb d (Some vd)) eqn:Ed; [apply opt_cval_eqb_eq in Ed; subst d |] | rewrite (H4 eq_refl)]);
    reflexivity.
  Qed.

  Definition KF : Prop := sc_fraction sc && sc_cmann sc = true.

  (** nothing but the two config maps changed *)
  Definition frame_cm (s s' : state) : Prop :=
    s_mem s' = s_mem s /\ self (s_store s') = self (s_store s)
    /\ self_alive (s_store s') = self_alive (s_store s) /\ others (s_store s') = others (s_store s)
    /\ br (s_store s') = br (s_store s) /\ node_ok (s_store s') = node_ok (s_store s)
    /\ s_nfail s <= s_nfail s'.

  Lemma frame_cm_refl s : frame_cm s s.
  Proof. unfold frame_cm. repeat split; auto. Qed.

  Lemma frame_cm_trans a b c : frame_cm a b -> frame_cm b c -> frame_cm a c.
  Proof.
    intros (A1 & A2 & A3 & A4 & A5 & A6 & A7) (B1 & B2 & B3 & B4 & B5 & B6 & B7).
    unfold frame_cm. repeat split; try congruence. lia.
  Qed.

  Definition same_but_cm (st st' : store) : Prop :=
    self st' = self st /\ self_alive st' = self_alive st /\ others st' = others st
    /\ br st' = br st /\ node_ok st' = node_ok st.

  Lemma cm_put_same x v st : same_but_cm st (cm_put x v st).
  Proof. unfold same_but_cm. destruct x; simpl; auto. Qed.

  Lemma cm_get_put x v st : x <> CmOther -> cm_get x (cm_put x v st) = v.
  Proof. destruct x; simpl; auto. contradiction. Qed.

  Lemma cm_get_put_other x y v st : y <> x -> cm_get y (cm_put x v st) = cm_get y st.
  Proof. destruct x, y; simpl; auto; contradiction. Qed.

  Lemma step_cm c s s1 r1 :
    INV s -> KF -> not_bind c -> step c s = (s1, r1) ->
    (reached dp c s s1 r1 -> same_but_cm (s_store s) (s_store s1)) ->
    INV s1 /\ frame_cm s s1.
  Proof.
    intros HI HK Hnb E Hre.
    pose proof (step_spec _ _ _ _ _ _ E) as (Hm & _ & _ & Hcase).
    assert (HI1 : INV s1).
    { eapply INV_step; eauto. intros Hr. destruct (Hre Hr) as (A1 & A2 & A3 & A4 & A5).
      destruct HI as (HG & _ & HJ & _ & Hn & Hbr & Hno & _).
      destruct HG as ((Ha & Hn0 & Hrs & Hp & Ho & Ht) & _).
      split; [unfold base; rewrite A1, A2, A3; auto 10 |].
      split; [rewrite A1; exact Hn |]. split; [unfold J; rewrite A1; exact HJ |].
      split; [left; exact HK |]. split; [congruence |]. split; [congruence |].
      intros Hsh. unfold SH, rsv_only, names_ok in *. rewrite A3. exact Hsh. }
    split; [exact HI1 |]. destruct Hcase as [Hf | Hr].
    - destruct Hf as (_ & Hst & Hnf & _). unfold frame_cm. rewrite Hst. repeat split; auto. lia.
    - destruct (Hre Hr) as (A1 & A2 & A3 & A4 & A5). destruct Hr as (_ & _ & Hnf & _).
      unfold frame_cm. repeat split; auto. lia.
  Qed.

  Definition cm_post (x : cmref) (s s' : state) : Prop :=
    INV s' /\ frame_cm s s' /\ (forall y, y <> x -> cm_get y (s_store s') = cm_get y (s_store s)).

  (** UpsertJobConfigMap *)
  Lemma upsert_cm_spec x s :
    INV s -> KF -> x <> CmOther ->
    let s' := fst (exec (upsert_cm x) s) in
    let r := snd (exec (upsert_cm x) s) in
    cm_post x s s' /\ (r = false -> cm_get x (s_store s') <> None) /\ (s_nfail s' = s_nfail s -> r = false).
  Proof.
    intros HI HK Hx. unfold upsert_cm. apin E0 s1 r1.
    destruct (ro_step (AGetCM x) _ _ _ HI eq_refl E0) as (HI1 & Hst1 & Hm1 & Hn1 & Hlv1).
    assert (F1 : frame_cm s s1) by (unfold frame_cm; rewrite Hst1, Hm1; repeat split; auto).
    assert (Hget : s_nfail s1 = s_nfail s -> r1 = match cm_get x (s_store s) with Some v => RCM v | None => RNotFound end).
    { intros Hq. destruct (Hlv1 Hq) as (-> & _). reflexivity. }
    assert (Hdone : forall P : prog bool, P = Ret true -> (s_nfail s1 = s_nfail s -> False) ->
              cm_post x s (fst (exec P s1)) /\ (snd (exec P s1) = false -> cm_get x (s_store (fst (exec P s1))) <> None)
              /\ (s_nfail (fst (exec P s1)) = s_nfail s -> snd (exec P s1) = false)).
    { intros P -> Hne. cbn [Binder.exec fst snd]. split; [| split; [discriminate | intros Hq; exfalso; auto]].
      split; [exact HI1 |]. split; [exact F1 |]. intros y _. rewrite Hst1. reflexivity. }
    assert (Hwrite : forall c, not_bind c ->
              (forall s2 r2, reached dp c s1 s2 r2 ->
                 (exists v, s_store s2 = cm_put x (Some v) (s_store s1) /\ r2 = ROk) \/ (s_store s2 = s_store s1 /\ r2 <> ROk /\ resp_ok r2 = false)) ->
              (s_nfail s1 = s_nfail s -> forall s2 r2, reached dp c s1 s2 r2 -> r2 = ROk) ->
              let P := Api c (fun r2 : resp => Ret (negb (resp_ok r2))) in
              cm_post x s (fst (exec P s1)) /\ (snd (exec P s1) = false -> cm_get x (s_store (fst (exec P s1))) <> None)
              /\ (s_nfail (fst (exec P s1)) = s_nfail s -> snd (exec P s1) = false)).
    { intros c Hnb Hre Hok P. unfold P. apin E2 s2 r2. cbn [Binder.exec fst snd].
      destruct (step_cm c _ _ _ HI1 HK Hnb E2) as (HI2 & F2).
      { intros Hr. destruct (Hre _ _ Hr) as [(v & Hst & _) | (Hst & _)]; rewrite Hst; [apply cm_put_same |].
        unfold same_but_cm. auto. }
      pose proof (step_spec _ _ _ _ _ _ E2) as (_ & _ & _ & Hcase).
      destruct (step_nfail _ _ _ _ E2) as (Hle & _ & Hrch).
      split; [split; [exact HI2 |]; split; [eapply frame_cm_trans; eauto |] |].
      - intros y Hy. destruct Hcase as [Hf | Hr].
        + destruct Hf as (_ & Hst & _). rewrite Hst, Hst1. reflexivity.
        + destruct (Hre _ _ Hr) as [(v & Hst & _) | (Hst & _)]; rewrite Hst, <- Hst1; [apply cm_get_put_other, Hy | reflexivity].
      - split.
        + intros Hr2. destruct Hcase as [Hf | Hr].
          * destruct Hf as ((k0 & ->) & _). discriminate.
          * destruct (Hre _ _ Hr) as [(v & Hst & _) | (_ & _ & Hbad)].
            { rewrite Hst, cm_get_put; [discriminate | exact Hx]. }
            { rewrite Hbad in Hr2. discriminate. }
        + intros Hq. assert (Hq1 : s_nfail s1 = s_nfail s) by (destruct F2 as (_&_&_&_&_&_&?); lia).
          assert (Hq2 : s_nfail s2 = s_nfail s1) by lia.
          rewrite (Hok Hq1 _ _ (Hrch Hq2)). reflexivity. }
    destruct r1 as [| k0 | | | | v | | |]; try destruct k0;
      try (apply Hdone; [reflexivity | intros Hq; specialize (Hget Hq); destruct (cm_get x (s_store s)); discriminate]).
    - (* NotFound: create *)
      apply (Hwrite (ACreateCM x (m_uid (s_mem s))) I).
      + intros s2 r2 (_ & _ & _ & Hd & _). cbn [is_watch] in Hd.
        destruct (do_create_cm _ _ _ _ _ _ Hx Hd) as [(_ & Hst & ->) | (_ & Hst & ->)]; [right | left; eauto].
        split; [exact Hst |]. split; [discriminate | reflexivity].
      + intros Hq s2 r2 (_ & _ & _ & Hd & _). cbn [is_watch] in Hd. specialize (Hget Hq).
        destruct (do_create_cm _ _ _ _ _ _ Hx Hd) as [(Hne & _) | (_ & _ & ->)]; [| reflexivity].
        rewrite Hst1 in Hne. destruct (cm_get x (s_store s)); [discriminate | contradiction].
    - (* found: patch *)
      assert (Hp : forall o cl, 
                cm_post x s (fst (exec (Api (APatchCM x o cl []) (fun r2 : resp => Ret (negb (resp_ok r2)))) s1))
                /\ (snd (exec (Api (APatchCM x o cl []) (fun r2 : resp => Ret (negb (resp_ok r2)))) s1) = false ->
                    cm_get x (s_store (fst (exec (Api (APatchCM x o cl []) (fun r2 : resp => Ret (negb (resp_ok r2)))) s1))) <> None)
                /\ (s_nfail (fst (exec (Api (APatchCM x o cl []) (fun r2 : resp => Ret (negb (resp_ok r2)))) s1)) = s_nfail s ->
                    snd (exec (Api (APatchCM x o cl []) (fun r2 : resp => Ret (negb (resp_ok r2)))) s1) = false)).
      { intros o cl. apply (Hwrite (APatchCM x o cl []) I).
        - intros s2 r2 (_ & _ & _ & Hd & _). cbn [is_watch] in Hd. apply do_patch_cm in Hd.
          destruct (cm_get x (s_store s1)); destruct Hd as (Hst & ->); [left; eauto | right].
          split; [exact Hst |]. split; [discriminate | reflexivity].
        - intros Hq s2 r2 (_ & _ & _ & Hd & _). cbn [is_watch] in Hd. apply do_patch_cm in Hd.
          specialize (Hget Hq). rewrite Hst1 in Hd.
          destruct (cm_get x (s_store s)); [destruct Hd as (_ & ->); reflexivity | discriminate]. }
      destruct (cm_owner v =? m_uid (s_mem s)); apply Hp.
  Qed.

  Definition keeps_keys (f : cdata -> cdata) : Prop :=
    forall d k, data_get k (f d) = None -> data_get k d = None.

  (** UpdateConfigMapEnvironmentVariable *)
  Lemma update_cm_spec x f s :
    INV s -> KF -> x <> CmOther -> keeps_keys f ->
    let s' := fst (exec (update_cm x f) s) in
    let r := snd (exec (update_cm x f) s) in
    cm_post x s s'
    /\ (r = false -> exists v, cm_get x (s_store s) = Some v
                             /\ cm_get x (s_store s') = Some (mkCM (cm_owner v) (f (cm_data v))))
    /\ (s_nfail s' = s_nfail s -> cm_get x (s_store s) <> None -> r = false).
  Proof.
    intros HI HK Hx Hf. unfold update_cm. apin E0 s1 r1.
    destruct (ro_step (AGetCM x) _ _ _ HI eq_refl E0) as (HI1 & Hst1 & Hm1 & Hn1 & Hlv1).
    assert (F1 : frame_cm s s1) by (unfold frame_cm; rewrite Hst1, Hm1; repeat split; auto).
    assert (Hget : s_nfail s1 = s_nfail s -> r1 = match cm_get x (s_store s) with Some v => RCM v | None => RNotFound end).
    { intros Hq. destruct (Hlv1 Hq) as (-> & _). reflexivity. }
    destruct r1 as [| k0 | | | | v | | |];
      try (cbn [Binder.exec fst snd]; split; [split; [exact HI1 |]; split; [exact F1 |]; intros y _; rewrite Hst1; reflexivity |];
           split; [discriminate |]; intros Hq Hne; specialize (Hget Hq); destruct (cm_get x (s_store s)); [discriminate | contradiction]).
    (* the config map was read *)
    assert (Hv : cm_get x (s_store s) = Some v).
    { pose proof (step_spec _ _ _ _ _ _ E0) as (_ & _ & _ & [Hf0 | Hr]).
      - destruct Hf0 as ((k0 & Hq) & _). discriminate.
      - destruct Hr as (_ & _ & _ & Hd & _). cbn [is_watch] in Hd. apply do_get_cm in Hd as (_ & Hd).
        destruct (cm_get x (s_store s)); [injection Hd as ->; reflexivity | discriminate]. }
    apin E2 s2 r2. cbn [Binder.exec fst snd].
    set (sets := data_diff (cm_data v) (f (cm_data v))).
    assert (Hreach : reached dp (APatchCM x None false sets) s1 s2 r2 ->
              s_store s2 = cm_put x (Some (mkCM (cm_owner v) (f (cm_data v)))) (s_store s1) /\ r2 = ROk).
    { intros (_ & _ & _ & Hd & _). cbn [is_watch] in Hd. apply do_patch_cm in Hd. rewrite Hst1, Hv in Hd.
      destruct Hd as (Hst & ->). split; [| reflexivity]. rewrite Hst, Hst1. unfold sets.
      rewrite data_patch; [reflexivity | apply Hf]. }
    destruct (step_cm (APatchCM x None false sets) _ _ _ HI1 HK I E2) as (HI2 & F2).
    { intros Hr. destruct (Hreach Hr) as (Hst & _). rewrite Hst. apply cm_put_same. }
    pose proof (step_spec _ _ _ _ _ _ E2) as (_ & _ & _ & Hcase).
    destruct (step_nfail _ _ _ _ E2) as (Hle & _ & Hrch).
    split; [split; [exact HI2 |]; split; [eapply frame_cm_trans; eauto |] |].
    - intros y Hy. destruct Hcase as [Hf0 | Hr].
      + destruct Hf0 as (_ & Hst & _). rewrite Hst, Hst1. reflexivity.
      + destruct (Hreach Hr) as (Hst & _). rewrite Hst, <- Hst1. apply cm_get_put_other, Hy.
    - split.
      + intros Hr2. exists v. split; [exact Hv |]. destruct Hcase as [Hf0 | Hr].
        * destruct Hf0 as ((k0 & ->) & _). discriminate.
        * destruct (Hreach Hr) as (Hst & _). rewrite Hst. apply cm_get_put, Hx.
      + intros Hq _. assert (Hq2 : s_nfail s2 = s_nfail s1) by (destruct F2 as (_&_&_&_&_&_&?); lia).
        destruct (Hreach (Hrch Hq2)) as (_ & ->). reflexivity.
  Qed.

  Lemma keeps_set_visible idxs : keeps_keys (set_visible idxs).
  Proof.
    intros [a b c d] k. unfold set_visible. cbn [data_get d_visbc].
    destruct d; destruct k; simpl; intros H; auto; discriminate.
  Qed.

  Lemma keeps_set_portion : keeps_keys set_portion.
  Proof. intros [a b c d] k. unfold set_portion. destruct k; simpl; intros H; auto; discriminate. Qed.

  Definition vis_cm : cmref := if sc_vis_in_spec sc then CmCap else CmEvar.

  Definition cm_facts (idxs : list nat) (st : store) : Prop :=
    cm_cap st <> None /\ cm_evar st <> None
    /\ cm_value vis_cm EVisible st = Some (VList idxs)
    /\ cm_value CmCap EPortion st = Some VPortion /\ cm_value CmCap ENumGpusBC st = Some VPortion.

  Lemma get_set_visible idxs d : data_get EVisible (set_visible idxs d) = Some (VList idxs).
  Proof. destruct d as [a b c e]. unfold set_visible. cbn [data_get d_visbc]. destruct e; reflexivity. Qed.

  Lemma get_set_portion d :
    data_get EPortion (set_portion d) = Some VPortion /\ data_get ENumGpusBC (set_portion d) = Some VPortion
    /\ data_get EVisible (set_portion d) = data_get EVisible d.
  Proof. destruct d as [a b c e]. unfold set_portion. simpl. auto. Qed.

  (** gpusharing.PreBind *)
  Lemma gpusharing_prebind_spec idxs s :
    INV s -> sc_fraction sc = true ->
    let s' := fst (exec (gpusharing_prebind sc idxs) s) in
    let r := snd (exec (gpusharing_prebind sc idxs) s) in
    INV s' /\ frame_cm s s' /\ (r = false -> cm_facts idxs (s_store s'))
    /\ (s_nfail s' = s_nfail s -> sc_cmann sc = true -> r = false).
  Proof.
    intros HI Hfr. unfold gpusharing_prebind. destruct (sc_cmann sc) eqn:Ecm; cbn [negb].
    2: { cbn [Binder.exec fst snd]. split; [exact HI |]. split; [apply frame_cm_refl |].
         split; [discriminate | intros _ Hx; discriminate]. }
    assert (HK : KF) by (unfold KF; rewrite Hfr, Ecm; reflexivity).
    assert (Hvx : vis_cm <> CmOther) by (unfold vis_cm; destruct (sc_vis_in_spec sc); discriminate).
    (* upsert capabilities *)
    rewrite exec_bind.
    destruct (upsert_cm_spec CmCap s HI HK ltac:(discriminate)) as ((A1 & A2 & A3) & A4 & A5).
    destruct (exec (upsert_cm CmCap) s) as [s1 e1]. cbn [fst snd] in *.
    destruct e1.
    { cbn [Binder.exec fst snd]. split; [exact A1 |]. split; [exact A2 |]. split; [discriminate |].
      intros Hq _. specialize (A5 Hq). discriminate. }
    specialize (A4 eq_refl).
    (* upsert env *)
    rewrite exec_bind.
    destruct (upsert_cm_spec CmEvar s1 A1 HK ltac:(discriminate)) as ((B1 & B2 & B3) & B4 & B5).
    destruct (exec (upsert_cm CmEvar) s1) as [s2 e2]. cbn [fst snd] in *.
    pose proof (frame_cm_trans _ _ _ A2 B2) as F2.
    destruct e2.
    { cbn [Binder.exec fst snd]. split; [exact B1 |]. split; [exact F2 |]. split; [discriminate |].
      intros Hq _. destruct A2 as (_&_&_&_&_&_&?). destruct B2 as (_&_&_&_&_&_&?).
      specialize (B5 ltac:(lia)). discriminate. }
    specialize (B4 eq_refl).
    assert (Hcap2 : cm_cap (s_store s2) <> None).
    { pose proof (B3 CmCap ltac:(discriminate)) as Hq. cbn [cm_get] in Hq. rewrite Hq. exact A4. }
    assert (Hevar2 : cm_evar (s_store s2) <> None) by exact B4.
    (* visible devices *)
    rewrite exec_bind. fold vis_cm.
    destruct (update_cm_spec vis_cm (set_visible idxs) s2 B1 HK Hvx (keeps_set_visible idxs))
      as ((C1 & C2 & C3) & C4 & C5).
    destruct (exec (update_cm vis_cm (set_visible idxs)) s2) as [s3 e3]. cbn [fst snd] in *.
    pose proof (frame_cm_trans _ _ _ F2 C2) as F3.
    assert (Hvis2 : cm_get vis_cm (s_store s2) <> None).
    { unfold vis_cm. destruct (sc_vis_in_spec sc); assumption. }
    destruct e3.
    { cbn [Binder.exec fst snd]. split; [exact C1 |]. split; [exact F3 |]. split; [discriminate |].
      intros Hq _. destruct F2 as (_&_&_&_&_&_&?). destruct C2 as (_&_&_&_&_&_&?).
      specialize (C5 ltac:(lia) Hvis2). discriminate. }
    destruct (C4 eq_refl) as (v & Hv2 & Hv3).
    assert (Hcap3 : cm_cap (s_store s3) <> None).
    { destruct (sc_vis_in_spec sc) eqn:Ev; unfold vis_cm in *; rewrite Ev in *.
      - cbn [cm_get] in Hv3. rewrite Hv3. discriminate.
      - pose proof (C3 CmCap ltac:(discriminate)) as Hq. cbn [cm_get] in Hq. rewrite Hq. exact Hcap2. }
    assert (Hevar3 : cm_evar (s_store s3) <> None).
    { destruct (sc_vis_in_spec sc) eqn:Ev; unfold vis_cm in *; rewrite Ev in *.
      - pose proof (C3 CmEvar ltac:(discriminate)) as Hq. cbn [cm_get] in Hq. rewrite Hq. exact Hevar2.
      - cbn [cm_get] in Hv3. rewrite Hv3. discriminate. }
    (* portion *)
    destruct (update_cm_spec CmCap set_portion s3 C1 HK ltac:(discriminate) keeps_set_portion)
      as ((D1 & D2 & D3) & D4 & D5).
    destruct (exec (update_cm CmCap set_portion) s3) as [s4 e4]. cbn [fst snd] in *.
    pose proof (frame_cm_trans _ _ _ F3 D2) as F4.
    split; [exact D1 |]. split; [exact F4 |]. split.
    - intros ->. destruct (D4 eq_refl) as (w & Hw3 & Hw4). cbn [cm_get] in Hw3, Hw4.
      destruct (get_set_portion (cm_data w)) as (P1 & P2 & P3).
      unfold cm_facts, cm_value. cbn [cm_get]. rewrite Hw4. cbn [cm_data].
      split; [discriminate |].
      split; [pose proof (D3 CmEvar ltac:(discriminate)) as Hq; cbn [cm_get] in Hq; rewrite Hq; exact Hevar3 |].
      split; [| auto].
      destruct (sc_vis_in_spec sc) eqn:Ev; unfold vis_cm in *; rewrite Ev in *.
      + cbn [cm_get] in *. rewrite Hw4. cbn [cm_data]. rewrite P3.
        rewrite Hv3 in Hw3. injection Hw3 as <-. cbn [cm_data]. apply get_set_visible.
      + pose proof (D3 CmEvar ltac:(discriminate)) as Hq. rewrite Hq, Hv3. cbn [cm_data]. apply get_set_visible.
    - intros Hq _. apply D5; [| exact Hcap3].
      destruct F3 as (_&_&_&_&_&_&?). destruct D2 as (_&_&_&_&_&_&?). lia.
  Qed.

  (** reserveGPUs *)
  Lemma reserve_gpus_spec s :
    INV s -> M s -> sc_fraction sc = true ->
    let s' := fst (exec (reserve_gpus sc) s) in
    let r := snd (exec (reserve_gpus sc) s) in
    INV s' /\ s_nfail s <= s_nfail s'
    /\ cm_cap (s_store s') = cm_cap (s_store s) /\ cm_evar (s_store s') = cm_evar (s_store s)
    /\ match fst r with
       | ENone => M s' /\ Lab (sc_groups sc) (self (s_store s')) /\ all_idx (sc_groups sc) (s_store s') = Some (snd r)
       | EInvalid => sc_groups sc = []
       | EErr => True
       end
    /\ (s_nfail s' = s_nfail s -> dp_ok -> Live (s_store s) -> sc_groups sc <> [] ->
        fst r = ENone /\ Live (s_store s')).
  Proof.
    intros HI HM Hfr. unfold reserve_gpus. destruct (sc_groups sc) as [| g gs] eqn:Eg.
    - cbn [Binder.exec fst snd]. split; [exact HI |]. split; [lia |]. split; [reflexivity |]. split; [reflexivity |].
      split; [reflexivity |]. intros _ _ _ Hne. contradiction.
    - rewrite exec_bind.
      assert (HL0 : Lab [] (self (s_store s))).
      { unfold Lab. destruct (sc_multi sc); [intros x [] | intros x Hx; discriminate]. }
      destruct (reserve_loop_spec (g :: gs) Hfr [] [] s HI HM HL0 eq_refl) as (R1 & R2 & R3 & R4 & R5 & R6).
      destruct (exec (reserve_loop sc (g :: gs) []) s) as [s1 r1]. cbn [fst snd] in *.
      destruct r1 as [idxs |]; cbn [Binder.exec fst snd].
      + split; [exact R1 |]. split; [exact R2 |]. split; [exact R3 |]. split; [exact R4 |].
        split; [destruct (R5 idxs eq_refl) as (A & B & C); auto |].
        intros Hnf Hdp Hl _. destruct (R6 Hnf Hdp Hl) as (_ & Hl'). auto.
      + split; [exact R1 |]. split; [exact R2 |]. split; [exact R3 |]. split; [exact R4 |].
        split; [exact I |]. intros Hnf Hdp Hl _. destruct (R6 Hnf Hdp Hl) as ((x & Hx) & _). discriminate.
  Qed.

  Lemma Live_incl st st' : Live st -> incl (others st') (others st) -> Live st'.
  Proof.
    intros (Hsh & Han) Hi. split; [eapply SH_incl; eauto |].
    unfold annotated in *. rewrite Forall_forall in *. intros p Hp. apply Han, Hi, Hp.
  Qed.

  Lemma all_idx_others gs st st' : others st' = others st -> all_idx gs st' = all_idx gs st.
  Proof.
    intros H. induction gs as [| g gs IH]; [reflexivity |]. simpl. rewrite IH, !rsv_idx_ridx, H. reflexivity.
  Qed.

  (** the binding call *)
  Lemma bind_step s s1 r1 :
    G s -> p_node (self (s_store s)) = 0 -> step (ABind true (p_uid (self (s_store s)))) s = (s1, r1) ->
    G s1 /\ s_mem s1 = s_mem s /\ s_mark s1 = s_mark s /\ s_mark_end s1 = s_mark_end s
    /\ s_nfail s <= s_nfail s1
    /\ (r1 = ROk -> s_store s1 = set_self (s_store s) (with_node (self (s_store s)) 1))
    /\ (r1 <> ROk -> s_store s1 = s_store s)
    /\ (s_nfail s1 = s_nfail s -> r1 = ROk).
  Proof.
    intros HG Hn E. pose proof (step_spec _ _ _ _ _ _ E) as (Hm & Hk & Hke & [Hf | Hr]).
    - pose proof (G_faulted (ABind true _) _ _ _ HG ltac:(intros u; discriminate) Hf) as HG1.
      destruct Hf as ((k0 & ->) & Hst & Hnf & _).
      split; [exact HG1 |]. split; [exact Hm |]. split; [exact Hk |]. split; [exact Hke |]. split; [lia |].
      split; [discriminate |]. split; [auto |]. intros; lia.
    - destruct Hr as (_ & _ & Hnf & Hd & Hlog & Hhist). cbn [is_watch] in Hd.
      destruct HG as (Hb & Hh & Hbi & He & Hnn). pose proof Hb as (Ha & Hn0 & Hrs & Hp & Ho & Ht).
      destruct (do_bind _ _ _ _ Ha Ht Hd) as [(_ & Hst & ->) | (Hne & _)]; [| contradiction].
      split.
      + split; [rewrite Hst; unfold base; simpl; auto 10 |].
        unfold hist_ok. rewrite Hhist, Hlog, Hst. cbn [self set_self with_node p_node resp_outcome obs_of].
        split; [constructor; [unfold node_obs; cbn [self_alive set_self self with_node p_node]; rewrite Ha; auto | exact Hh] |].
        split; [rewrite binds_cons; cbn [is_bind_ok]; rewrite Hbi, Hn; reflexivity |].
        split; [cbn [existsb is_bind_elsewhere]; exact He | auto].
      + split; [exact Hm |]. split; [exact Hk |]. split; [exact Hke |]. split; [lia |].
        split; [auto |]. split; [intros Hx; contradiction | auto].
  Qed.

  Definition same_side (st st' : store) : Prop :=
    p_plain (self st') = p_plain (self st) /\ p_multi (self st') = p_multi (self st)
    /\ others st' = others st /\ cm_cap st' = cm_cap st /\ cm_evar st' = cm_evar st
    /\ br st' = br st /\ node_ok st' = node_ok st.

  Definition bind_tail (u : nat) : prog err :=
    Api (APatchRecv (recv_type sc)) (fun r1 =>
      match r1 with
      | RPod p => SetMem (mem_of p) (Api (ABind true u) (fun r2 => Ret (bind_result_code r2)))
      | _ => Ret EErr
      end).

  Lemma bind_tail_spec u s :
    INV s -> u = p_uid (self (s_store s)) ->
    let s' := fst (exec (bind_tail u) s) in
    let e := snd (exec (bind_tail u) s) in
    s_nfail s <= s_nfail s'
    /\ match e with
       | ENone => G s' /\ marks_none s' /\ p_node (self (s_store s')) = 1
                  /\ p_recv (self (s_store s')) = Some (recv_type sc) /\ same_side (s_store s) (s_store s')
       | EErr => INV s'
       | EInvalid => False
       end
    /\ (s_nfail s' = s_nfail s -> e = ENone).
  Proof.
    intros HI Hu. unfold bind_tail. apin E1 s1 r1.
    assert (Halive : self_alive (s_store s) = true) by apply HI.
    assert (Hreach : reached dp (APatchRecv (recv_type sc)) s s1 r1 ->
              s_store s1 = set_self (s_store s) (with_recv (self (s_store s)) (Some (recv_type sc)))
              /\ r1 = RPod (with_recv (self (s_store s)) (Some (recv_type sc)))).
    { intros (_ & _ & _ & Hd & _). cbn [is_watch] in Hd. apply (do_patch_recv _ _ _ _ _ Halive Hd). }
    assert (HI1 : INV s1).
    { eapply INV_step; eauto; [exact I |]. intros Hr. destruct (Hreach Hr) as (Hst & _). rewrite Hst.
      destruct HI as (HG & _ & HJ & HK & Hn & Hbr & Hno & _). destruct HG as ((Ha & Hn0 & Hrs & Hp & Ho & Ht) & _).
      split; [unfold base; simpl; auto 10 |]. split; [exact Hn |]. split; [exact HJ |]. split; [exact HK |].
      split; [exact Hbr |]. split; [exact Hno |]. auto. }
    destruct (step_nfail _ _ _ _ E1) as (Hle1 & _ & Hrch1).
    pose proof (step_spec _ _ _ _ _ _ E1) as (Hm1 & _ & _ & Hcase).
    destruct r1;
      try (cbn [Binder.exec fst snd]; split; [exact Hle1 |]; split; [exact HI1 |];
           intros Hq; destruct (Hreach (Hrch1 Hq)) as (_ & Hr); discriminate).
    assert (Hr : reached dp (APatchRecv (recv_type sc)) s s1 (RPod p)).
    { destruct Hcase as [((k0 & Hq) & _) | Hr]; [discriminate | exact Hr]. }
    destruct (Hreach Hr) as (Hst1 & Hp). injection Hp as ->.
    cbn [Binder.exec].
    match goal with |- context [Binder.step _ _ _ _ ?st] => set (sa := st) end.
    assert (HIa : INV sa).
    { apply (INV_set_mem s1 _ HI1). rewrite Hst1. cbn [self set_self with_recv p_multi p_plain mem_of m_multi m_plain].
      destruct HI as (_ & _ & (_ & _ & J3) & _).
      split; [intros x Hx; right; exact Hx |]. split; [intros x Hx; right; simpl in Hx |- *; rewrite Hx; reflexivity |].
      exact J3. }
    assert (Huid : u = p_uid (self (s_store sa))).
    { unfold sa. cbn [s_store]. rewrite Hst1. exact Hu. }
    rewrite Huid.
    destruct (Binder.step faults no_env dp (ABind true (p_uid (self (s_store sa)))) sa) as [s2 r2] eqn:E2.
    assert (Hna : p_node (self (s_store sa)) = 0) by apply HIa.
    destruct (bind_step sa s2 r2 (proj1 HIa) Hna E2) as (HG2 & Hm2 & Hk2 & Hke2 & Hle2 & Hok2 & Hnok2 & Hlv2).
    assert (Hnfa : s_nfail sa = s_nfail s1) by reflexivity.
    assert (Hsta : s_store sa = s_store s1) by reflexivity.
    assert (Hfail : r2 <> ROk -> INV s2).
    { intros Hne. specialize (Hnok2 Hne). destruct HIa as (_ & (Ka & Kea) & HJa & HKa & Hn0a & Hbra & Hnoa & Hsha).
      unfold INV, marks_none. rewrite Hm2, Hk2, Hke2, Hnok2. auto 10. }
    destruct r2;
      try (cbn [Binder.exec fst snd]; split; [lia |]; split; [apply Hfail; discriminate |];
           intros Hq; assert (Hq2 : s_nfail s2 = s_nfail sa) by lia; specialize (Hlv2 Hq2); discriminate).
    cbn [Binder.exec fst snd]. split; [lia |]. specialize (Hok2 eq_refl).
    split; [| reflexivity].
    split; [exact HG2 |].
    split; [unfold marks_none; rewrite Hk2, Hke2; apply HIa |].
    rewrite Hok2, Hsta, Hst1. cbn [self set_self with_node with_recv p_node p_recv].
    split; [reflexivity |]. split; [reflexivity |].
    unfold same_side. simpl. auto 10.
  Qed.

  Definition bound_facts (s' : state) : Prop :=
    G s' /\ marks_none s' /\ p_node (self (s_store s')) = 1
    /\ p_recv (self (s_store s')) = Some (recv_type sc)
    /\ (sc_fraction sc = true ->
        exists idxs, Lab (sc_groups sc) (self (s_store s')) /\ all_idx (sc_groups sc) (s_store s') = Some idxs
                     /\ cm_facts idxs (s_store s'))
    /\ br (s_store s') = br0 /\ node_ok (s_store s') = node_ok init /\ (SH init -> SH (s_store s')).


  Definition bp_post (s s' : state) (e : err) : Prop :=
    s_nfail s <= s_nfail s'
    /\ match e with
       | ENone => bound_facts s'
       | EErr => INV s'
       | EInvalid => INV s' /\ sc_fraction sc = true /\ sc_groups sc = []
       end
    /\ (s_nfail s' = s_nfail s -> dp_ok -> Live (s_store s) -> attemptable_sc sc -> e = ENone).

  (** everything of Bind after the reservations *)
  Definition bind_rest (u : nat) (idxs : list nat) : prog err :=
    GetMem (fun m => SetMem (mem_with_node m 1) (
      if negb (sc_k8s_ok sc)
      then GetMem (fun m2 => SetMem (mem_with_node m2 0) (Ret EErr))
      else
        e1 <- (if sc_fraction sc then gpusharing_prebind sc idxs else Ret false) ;;
        if (e1 : bool) then Ret EErr else bind_tail u)).

  Lemma bind_rest_spec u idxs s :
    INV s -> u = p_uid (self (s_store s)) ->
    (sc_fraction sc = true -> Lab (sc_groups sc) (self (s_store s)) /\ all_idx (sc_groups sc) (s_store s) = Some idxs) ->
    let s' := fst (exec (bind_rest u idxs) s) in
    let e := snd (exec (bind_rest u idxs) s) in
    s_nfail s <= s_nfail s'
    /\ match e with ENone => bound_facts s' | EErr => INV s' | EInvalid => False end
    /\ (s_nfail s' = s_nfail s -> sc_k8s_ok sc = true -> (sc_fraction sc = true -> sc_cmann sc = true) -> e = ENone).
  Proof.
    intros HI Hu Hres. unfold bind_rest. cbn [Binder.exec].
    match goal with |- context [Binder.exec _ _ _ _ _ ?st] => set (sa := st) end.
    assert (HIa : INV sa).
    { apply (INV_set_mem s _ HI). destruct HI as (_ & _ & HJ & _). exact HJ. }
    assert (Hsa : s_store sa = s_store s /\ s_nfail sa = s_nfail s) by (split; reflexivity).
    destruct Hsa as (Hsta & Hnfa).
    destruct (sc_k8s_ok sc) eqn:Ek; cbn [negb].
    2: { cbn [Binder.exec fst snd].
         match goal with |- context [INV ?st] => set (sb := st) end.
         assert (HIb : INV sb). { apply (INV_set_mem sa _ HIa). destruct HIa as (_ & _ & HJ & _). exact HJ. }
         split; [unfold sb; simpl; lia |]. split; [exact HIb |]. intros _ Hx. discriminate. }
    rewrite exec_bind.
    assert (Hpre : exists s1 e1, exec (if sc_fraction sc then gpusharing_prebind sc idxs else Ret false) sa = (s1, e1)
                   /\ INV s1 /\ frame_cm sa s1
                   /\ (e1 = false -> sc_fraction sc = true -> cm_facts idxs (s_store s1))
                   /\ (s_nfail s1 = s_nfail sa -> (sc_fraction sc = true -> sc_cmann sc = true) -> e1 = false)).
    { destruct (sc_fraction sc) eqn:Efr.
      - destruct (gpusharing_prebind_spec idxs sa HIa Efr) as (P1 & P2 & P3 & P4).
        destruct (exec (gpusharing_prebind sc idxs) sa) as [s1 e1]. exists s1, e1. cbn [fst snd] in *.
        split; [reflexivity |]. split; [exact P1 |]. split; [exact P2 |]. split; [auto |]. intros Hq Hc. apply P4; auto.
      - exists sa, false. split; [reflexivity |]. split; [exact HIa |]. split; [apply frame_cm_refl |].
        split; [intros _ Hx; discriminate | auto]. }
    destruct Hpre as (s1 & e1 & -> & HI1 & F1 & Hfacts & Hlv1).
    destruct F1 as (Fm & Fself & Falive & Foth & Fbr & Fno & Fnf).
    destruct e1.
    { cbn [Binder.exec fst snd]. split; [lia |]. split; [exact HI1 |].
      intros Hq _ Hc. specialize (Hlv1 ltac:(lia) Hc). discriminate. }
    assert (Hu1 : u = p_uid (self (s_store s1))) by (rewrite Fself, Hsta; exact Hu).
    destruct (bind_tail_spec u s1 HI1 Hu1) as (T1 & T2 & T3).
    destruct (exec (bind_tail u) s1) as [s2 e2]. cbn [fst snd] in *.
    split; [lia |]. split.
    - destruct e2; [| exact T2 | exact T2].
      destruct T2 as (HG2 & Hmk2 & Hn2 & Hrecv2 & (S1 & S2 & S3 & S4 & S5 & S6 & S7)).
      unfold bound_facts. split; [exact HG2 |]. split; [exact Hmk2 |]. split; [exact Hn2 |]. split; [exact Hrecv2 |].
      destruct HI1 as (_ & _ & _ & _ & _ & Hbr1 & Hno1 & Hsh1).
      split.
      + intros Hfr. destruct (Hres Hfr) as (HL & HA). exists idxs.
        split; [unfold Lab in *; rewrite S1, S2, Fself, Hsta; exact HL |].
        split; [rewrite (all_idx_others _ _ _ S3), (all_idx_others _ (s_store sa) _ Foth), Hsta; exact HA |].
        specialize (Hfacts eq_refl Hfr). unfold cm_facts, cm_value in *.
        destruct vis_cm; cbn [cm_get] in *; rewrite ?S4, ?S5; exact Hfacts.
      + split; [congruence |]. split; [congruence |]. intros Hi. specialize (Hsh1 Hi).
        unfold SH, rsv_only, names_ok in *. rewrite S3. exact Hsh1.
    - intros Hq _ Hc. apply T3. lia.
  Qed.

  Lemma bind_prog_eq :
    bind_prog sc bind_result_code false =
    GetMem (fun m0 =>
     e0 <- sync_for_node ;;
     if (e0 : bool) then Ret EErr else
     r <- (if sc_fraction sc then reserve_gpus sc else Ret (ENone, [])) ;;
     match fst r with
     | ENone => bind_rest (m_uid m0) (snd r)
     | e => Ret e
     end).
  Proof. reflexivity. Qed.

  (** Binder.Bind *)
  Lemma bind_prog_spec s :
    INV s -> M s -> m_uid (s_mem s) = p_uid (self (s_store s)) ->
    bp_post s (fst (exec (bind_prog sc bind_result_code false) s)) (snd (exec (bind_prog sc bind_result_code false) s)).
  Proof.
    intros HI HM Hmu. rewrite bind_prog_eq. cbn [Binder.exec]. rewrite exec_bind.
    destruct (sync_for_node_spec faults dp ord s (proj1 HI)) as (S1 & S2 & S3).
    pose proof (exec_uid faults dp ord sync_for_node s) as Hu01.
    destruct (exec sync_for_node s) as [s1 e0]. cbn [fst snd] in *.
    assert (HI1 : INV s1) by (eapply INV_only_others; eauto).
    pose proof S2 as (O1 & _ & _ & _ & _ & _ & O7 & _ & _ & O10 & O11 & _).
    assert (HM1 : M s1) by (unfold M; rewrite O7, O1; exact HM).
    unfold bp_post. destruct e0.
    { cbn [Binder.exec fst snd]. split; [exact O11 |]. split; [exact HI1 |].
      intros Hq _ ((Hro & _) & _) _. specialize (S3 Hq Hro). discriminate. }
    rewrite exec_bind.
    assert (Hres : exists s2 r, exec (if sc_fraction sc then reserve_gpus sc else Ret (ENone, [])) s1 = (s2, r)
              /\ INV s2 /\ s_nfail s1 <= s_nfail s2
              /\ match fst r with
                 | ENone => sc_fraction sc = true -> Lab (sc_groups sc) (self (s_store s2)) /\ all_idx (sc_groups sc) (s_store s2) = Some (snd r)
                 | EInvalid => sc_fraction sc = true /\ sc_groups sc = []
                 | EErr => True
                 end
              /\ (s_nfail s2 = s_nfail s1 -> dp_ok -> Live (s_store s1) ->
                  (sc_fraction sc = true -> sc_groups sc <> []) -> fst r = ENone)).
    { destruct (sc_fraction sc) eqn:Efr.
      - destruct (reserve_gpus_spec s1 HI1 HM1 Efr) as (R1 & R2 & _ & _ & R5 & R6).
        destruct (exec (reserve_gpus sc) s1) as [s2 r]. exists s2, r. cbn [fst snd] in *.
        split; [reflexivity |]. split; [exact R1 |]. split; [exact R2 |]. split.
        + destruct (fst r); [intros _; destruct R5 as (_ & A & B); auto | exact I | auto].
        + intros Hq Hdp Hl Hne. apply R6; auto.
      - exists s1, (ENone, []). split; [reflexivity |]. split; [exact HI1 |]. split; [lia |].
        split; [intros Hx; discriminate | reflexivity]. }
    pose proof (exec_uid faults dp ord (if sc_fraction sc then reserve_gpus sc else Ret (ENone, [])) s1) as Hu12.
    destruct Hres as (s2 & r & Hex & HI2 & Hle2 & Hr & Hlv2). rewrite Hex in Hu12 |- *. cbn [fst] in Hu12.
    assert (Hl1 : Live (s_store s) -> Live (s_store s1)) by (intros Hl; eapply Live_incl; eauto).
    destruct (fst r) eqn:Er.
    - assert (Hu2 : m_uid (s_mem s) = p_uid (self (s_store s2))) by congruence.
      destruct (bind_rest_spec (m_uid (s_mem s)) (snd r) s2 HI2 Hu2 Hr) as (B1 & B2 & B3).
      destruct (exec (bind_rest (m_uid (s_mem s)) (snd r)) s2) as [s3 e]. cbn [fst snd] in *.
      split; [lia |]. split.
      + destruct e; [exact B2 | exact B2 | contradiction].
      + intros Hq Hdp Hl (Hk & Hc). apply B3; [lia | exact Hk | intros Hfr; apply (Hc Hfr)].
    - cbn [Binder.exec fst snd]. split; [lia |]. split; [exact HI2 |].
      intros Hq Hdp Hl (_ & Hc). exfalso.
      assert (Hx : ENone = EErr); [| discriminate]. symmetry. apply Hlv2; auto; [lia |].
      intros Hfr. apply (Hc Hfr).
    - cbn [Binder.exec fst snd]. split; [lia |]. destruct Hr as (Hfr & Hg). split; [auto |].
      intros _ _ _ (_ & Hc). exfalso. destruct (Hc Hfr) as (_ & Hne). contradiction.
  Qed.
End Main.

(** * Rollback, the deferred status update, the whole reconcile *)
Section Roll.
  Variable faults : nat -> fault.
  Variable dp : nat -> option nat.
  Variable ord : nat -> list gid.
  Variable sc : scen.
  Variable init : store.
  Variable br0 : option brst.
  Variable mk0 : option (nat * nat).
  Variable mke0 : option nat.
  Notation exec := (Binder.exec faults no_env dp ord).
  Notation step := (Binder.step faults no_env dp).
  Notation INV := (INV sc init br0 mk0 mke0).

  Ltac apin E sn rn :=
    cbn [Binder.exec];
    match goal with
    | |- context [Binder.step ?f ?e ?d ?c ?s] => destruct (Binder.step f e d c s) as [sn rn] eqn:E
    end.

  Definition CleanCM (st : store) : Prop :=
    (opt_is_some (cm_cap st) = true -> opt_is_some (cm_cap init) = true)
    /\ (opt_is_some (cm_evar st) = true -> opt_is_some (cm_evar init) = true).
  Definition CleanLab (st : store) : Prop :=
    new_plain (self init) (self st) = false /\ new_multi (self init) (self st) = [].

  Lemma clean_of st : CleanCM st -> CleanLab st -> clean init st = true.
  Proof.
    intros (C1 & C2) (L1 & L2). unfold clean. rewrite L1, L2. simpl. unfold new_cms. simpl.
    destruct (opt_is_some (cm_cap st)) eqn:E1; [rewrite (C1 eq_refl) |];
      (destruct (opt_is_some (cm_evar st)) eqn:E2; [rewrite (C2 eq_refl) |]); reflexivity.
  Qed.

  Definition rb_cms : prog unit :=
    if sc_fraction sc && sc_cmann sc
    then Api (ADeleteCM CmCap) (fun _ => Api (ADeleteCM CmEvar) (fun _ => Ret tt))
    else Ret tt.

  Lemma delete_cm_step x s s1 r1 :
    INV s -> KF sc -> x <> CmOther -> step (ADeleteCM x) s = (s1, r1) ->
    INV s1 /\ frame_cm s s1
    /\ (forall y, y <> x -> cm_get y (s_store s1) = cm_get y (s_store s))
    /\ (s_nfail s1 = s_nfail s -> cm_get x (s_store s1) = None).
  Proof.
    intros HI HK Hx E.
    assert (Hreach : reached dp (ADeleteCM x) s s1 r1 ->
              (s_store s1 = cm_put x None (s_store s)) \/ (cm_get x (s_store s) = None /\ s_store s1 = s_store s)).
    { intros (_ & _ & _ & Hd & _). cbn [is_watch] in Hd.
      destruct (do_delete_cm _ _ _ _ _ Hd) as [(Hst & _) | (Hn & Hst & _)]; auto. }
    destruct (step_cm faults dp sc init br0 mk0 mke0 (ADeleteCM x) _ _ _ HI HK I E) as (HI1 & F1).
    { intros Hr. destruct (Hreach Hr) as [Hst | (_ & Hst)]; rewrite Hst; [apply cm_put_same |].
      unfold same_but_cm. auto. }
    split; [exact HI1 |]. split; [exact F1 |].
    pose proof (step_spec _ _ _ _ _ _ E) as (_ & _ & _ & Hcase).
    destruct (step_nfail faults dp _ _ _ _ E) as (_ & _ & Hrch).
    split.
    - intros y Hy. destruct Hcase as [Hf | Hr].
      + destruct Hf as (_ & Hst & _). rewrite Hst. reflexivity.
      + destruct (Hreach Hr) as [Hst | (_ & Hst)]; rewrite Hst; [apply cm_get_put_other, Hy | reflexivity].
    - intros Hq. destruct (Hreach (Hrch Hq)) as [Hst | (Hn & Hst)]; rewrite Hst; [apply cm_get_put, Hx | exact Hn].
  Qed.

  Lemma rb_cms_spec s :
    INV s ->
    let s' := fst (exec rb_cms s) in
    INV s' /\ frame_cm s s' /\ (s_nfail s' = s_nfail s -> CleanCM (s_store s')).
  Proof.
    intros HI. unfold rb_cms. destruct (sc_fraction sc && sc_cmann sc) eqn:Ek.
    - assert (HK : KF sc) by exact Ek.
      apin E1 s1 r1. destruct (delete_cm_step CmCap _ _ _ HI HK ltac:(discriminate) E1) as (HI1 & F1 & O1 & N1).
      apin E2 s2 r2. destruct (delete_cm_step CmEvar _ _ _ HI1 HK ltac:(discriminate) E2) as (HI2 & F2 & O2 & N2).
      cbn [Binder.exec fst]. split; [exact HI2 |]. split; [eapply frame_cm_trans; eauto |].
      intros Hq. destruct F1 as (_&_&_&_&_&_&?). destruct F2 as (_&_&_&_&_&_&?).
      specialize (N1 ltac:(lia)). specialize (N2 ltac:(lia)).
      pose proof (O2 CmCap ltac:(discriminate)) as Hc. cbn [cm_get] in *.
      unfold CleanCM. rewrite Hc, N1, N2. simpl. split; discriminate.
    - cbn [Binder.exec fst]. split; [exact HI |]. split; [apply frame_cm_refl |]. intros _.
      destruct HI as (_ & _ & _ & [HK | HK] & _); [unfold KF in HK; congruence | exact HK].
  Qed.

  Definition sync_tail : prog unit := _ <- sync_for_node ;; Ret tt.

  Lemma sync_tail_spec s :
    INV s ->
    let s' := fst (exec sync_tail s) in
    INV s' /\ s_nfail s <= s_nfail s' /\ self (s_store s') = self (s_store s)
    /\ cm_cap (s_store s') = cm_cap (s_store s) /\ cm_evar (s_store s') = cm_evar (s_store s).
  Proof.
    intros HI. unfold sync_tail. rewrite exec_bind.
    destruct (sync_for_node_spec faults dp ord s (proj1 HI)) as (S1 & S2 & _).
    destruct (exec sync_for_node s) as [s1 e]. cbn [fst snd Binder.exec] in *.
    split; [eapply INV_only_others; eauto |].
    destruct S2 as (O1 & _ & O3 & O4 & _ & _ & _ & _ & _ & _ & O11 & _). auto.
  Qed.

  Definition rb_labels : prog unit :=
    GetMem (fun m =>
      match m_plain m, m_multi m with
      | None, [] => sync_tail
      | _, _ =>
          Api (ARemoveLabels (opt_is_some (m_plain m)) (m_multi m)) (fun r =>
            match r with
            | RPod p => SetMem (mem_of p) sync_tail
            | _ => sync_tail
            end)
      end).

  Lemma new_multi_nil (a b : pod) :
    (forall g, In g (p_multi b) -> In g (p_multi a)) -> new_multi a b = [].
  Proof.
    intros H. unfold new_multi. apply filter_none. intros g Hg. apply negb_false_iff, mem_nat_In, H, Hg.
  Qed.

  Lemma rb_labels_spec s :
    INV s -> sc_fraction sc = true ->
    let s' := fst (exec rb_labels s) in
    INV s' /\ s_nfail s <= s_nfail s'
    /\ cm_cap (s_store s') = cm_cap (s_store s) /\ cm_evar (s_store s') = cm_evar (s_store s)
    /\ (s_nfail s' = s_nfail s -> CleanLab (s_store s')).
  Proof.
    intros HI Hfr. unfold rb_labels. cbn [Binder.exec].
    pose proof HI as (_ & _ & (J1 & J2 & _) & _).
    assert (Hnolab : m_plain (s_mem s) = None -> m_multi (s_mem s) = [] -> CleanLab (s_store s)).
    { intros Hp Hm. rewrite Hp in J2. rewrite Hm in J1. split.
      - unfold new_plain. destruct (p_plain (self (s_store s))) as [g |] eqn:Eg; [| reflexivity].
        destruct (J2 g eq_refl) as [Hi | Hx]; [| discriminate]. rewrite Hi. simpl. rewrite Nat.eqb_refl. reflexivity.
      - apply new_multi_nil. intros g Hg. destruct (J1 g Hg) as [Hi | []]. exact Hi. }
    assert (Hsync : forall sx, INV sx -> self (s_store sx) = self (s_store sx) ->
              let s' := fst (exec sync_tail sx) in
              INV s' /\ s_nfail sx <= s_nfail s' /\ self (s_store s') = self (s_store sx)
              /\ cm_cap (s_store s') = cm_cap (s_store sx) /\ cm_evar (s_store s') = cm_evar (s_store sx)).
    { intros sx Hx _. apply sync_tail_spec, Hx. }
    assert (Hremove :
      let c := ARemoveLabels (opt_is_some (m_plain (s_mem s))) (m_multi (s_mem s)) in
      let P := Api c (fun r => match r with RPod p => SetMem (mem_of p) sync_tail | _ => sync_tail end) in
      let s' := fst (exec P s) in
      INV s' /\ s_nfail s <= s_nfail s'
      /\ cm_cap (s_store s') = cm_cap (s_store s) /\ cm_evar (s_store s') = cm_evar (s_store s)
      /\ (s_nfail s' = s_nfail s -> CleanLab (s_store s'))).
    { intros c P. unfold P. apin E1 s1 r1.
      assert (Halive : self_alive (s_store s) = true) by apply HI.
      set (p' := with_labels (self (s_store s))
                   (if opt_is_some (m_plain (s_mem s)) then None else p_plain (self (s_store s)))
                   (filter (fun g => negb (mem_nat g (m_multi (s_mem s)))) (p_multi (self (s_store s))))).
      assert (Hreach : reached dp c s s1 r1 -> s_store s1 = set_self (s_store s) p' /\ r1 = RPod p').
      { intros (_ & _ & _ & Hd & _). cbn [is_watch] in Hd. apply (do_remove_labels _ _ _ _ _ _ Halive Hd). }
      assert (Hclean : CleanLab (set_self (s_store s) p')).
      { split; cbn [self set_self].
        - unfold new_plain, p'. cbn [p_plain with_labels].
          destruct (opt_is_some (m_plain (s_mem s))) eqn:Em; [reflexivity |].
          destruct (p_plain (self (s_store s))) as [g |] eqn:Eg; [| reflexivity].
          destruct (J2 g eq_refl) as [Hi | Hx]; [| congruence]. rewrite Hi. simpl. rewrite Nat.eqb_refl. reflexivity.
        - apply new_multi_nil. unfold p'. cbn [p_multi with_labels]. intros g Hg.
          apply filter_In in Hg as (Hg & Hn). apply negb_true_iff, mem_nat_false in Hn.
          destruct (J1 g Hg) as [Hi | Hx]; [exact Hi | contradiction]. }
      assert (HI1 : INV s1).
      { eapply INV_step; eauto; [exact I |]. intros Hr. destruct (Hreach Hr) as (Hst & _). rewrite Hst.
        destruct HI as (HG & _ & (_ & _ & J3) & HK & Hn & Hbr & Hno & _).
        destruct HG as ((Ha & Hn0 & Hrs & Hp & Ho & Ht) & _).
        split; [unfold base; simpl; auto 10 |]. split; [exact Hn |]. split.
        - cbn [self set_self]. unfold p'. cbn [p_plain p_multi with_labels]. split; [| split].
          + intros g Hg. apply filter_In in Hg as (Hg & _). apply J1, Hg.
          + intros g Hg. destruct (opt_is_some (m_plain (s_mem s))) eqn:Em; [discriminate | auto].
          + intros Hx. congruence.
        - split; [exact HK |]. split; [exact Hbr |]. split; [exact Hno |]. auto. }
      destruct (step_nfail faults dp _ _ _ _ E1) as (Hle1 & _ & Hrch1).
      pose proof (step_spec _ _ _ _ _ _ E1) as (Hm1 & _ & _ & Hcase).
      assert (Hcms1 : cm_cap (s_store s1) = cm_cap (s_store s) /\ cm_evar (s_store s1) = cm_evar (s_store s)).
      { destruct Hcase as [Hf | Hr].
        - destruct Hf as (_ & Hst & _). rewrite Hst. auto.
        - destruct (Hreach Hr) as (Hst & _). rewrite Hst. auto. }
      destruct Hcms1 as (C1 & C2).
      destruct r1;
        try (destruct (sync_tail_spec s1 HI1) as (T1 & T2 & T3 & T4 & T5);
             split; [exact T1 |]; split; [lia |]; split; [congruence |]; split; [congruence |];
             intros Hq; exfalso; assert (Hq1 : s_nfail s1 = s_nfail s) by lia;
             destruct (Hreach (Hrch1 Hq1)) as (_ & Hr); discriminate).
      assert (Hr : reached dp c s s1 (RPod p)).
      { destruct Hcase as [((k0 & Hq) & _) | Hr]; [discriminate | exact Hr]. }
      destruct (Hreach Hr) as (Hst1 & Hp). injection Hp as ->.
      cbn [Binder.exec].
      match goal with |- context [Binder.exec _ _ _ _ sync_tail ?st] => set (sa := st) end.
      assert (HIa : INV sa).
      { apply (INV_set_mem sc init br0 mk0 mke0 s1 _ HI1). rewrite Hst1. cbn [self set_self].
        split; [intros g Hg; right; exact Hg |].
        split; [intros g Hg; right; cbn [self set_self] in Hg; cbn [mem_of m_plain]; rewrite Hg; reflexivity | intros Hx; congruence]. }
      destruct (sync_tail_spec sa HIa) as (T1 & T2 & T3 & T4 & T5).
      assert (Hsa : s_store sa = s_store s1 /\ s_nfail sa = s_nfail s1) by (split; reflexivity).
      destruct Hsa as (Hsta & Hnfa).
      split; [exact T1 |]. split; [lia |]. split; [congruence |]. split; [congruence |].
      intros _. unfold CleanLab. rewrite T3, Hsta, Hst1. exact Hclean. }
    destruct (m_plain (s_mem s)) eqn:Ep; [exact Hremove |].
    destruct (m_multi (s_mem s)) eqn:Em; [| exact Hremove].
    destruct (sync_tail_spec s HI) as (T1 & T2 & T3 & T4 & T5).
    split; [exact T1 |]. split; [exact T2 |]. split; [exact T4 |]. split; [exact T5 |].
    intros _. unfold CleanLab. rewrite T3. apply Hnolab; reflexivity.
  Qed.
End Roll.

Section Final.
  Variable faults : nat -> fault.
  Variable dp : nat -> option nat.
  Variable ord : nat -> list gid.
  Variable sc : scen.
  Variable init : store.
  Notation exec := (Binder.exec faults no_env dp ord).
  Notation step := (Binder.step faults no_env dp).

  Ltac apin E sn rn :=
    cbn [Binder.exec];
    match goal with
    | |- context [Binder.step ?f ?e ?d ?c ?s] => destruct (Binder.step f e d c s) as [sn rn] eqn:E
    end.

  Lemma INV_remark b0 mk mke mk' mke' s s' :
    INV sc init b0 mk mke s ->
    s_store s' = s_store s -> s_mem s' = s_mem s -> s_log s' = s_log s -> s_hist s' = s_hist s ->
    s_mark s' = mk' -> s_mark_end s' = mke' ->
    INV sc init b0 mk' mke' s'.
  Proof.
    intros (HG & _ & HJ & HK & Hn & Hbr & Hno & Hsh) H1 H2 H3 H4 H5 H6.
    unfold INV, marks_none. rewrite H1, H2. split; [eapply G_ext; eauto |]. auto 10.
  Qed.

  Lemma rollback_eq :
    rollback sc =
    Mark true (_ <- (_ <- rb_cms sc ;; if sc_fraction sc then rb_labels else Ret tt) ;; Mark false (Ret tt)).
  Proof. reflexivity. Qed.

  (** Binder.Rollback *)
  Lemma rollback_spec b0 s :
    INV sc init b0 None None s ->
    let s' := fst (exec (rollback sc) s) in
    INV sc init b0 (Some (s_idx s, s_nfail s)) (Some (s_nfail s')) s'
    /\ s_nfail s <= s_nfail s'
    /\ (s_nfail s' = s_nfail s -> clean init (s_store s') = true).
  Proof.
    intros HI. rewrite rollback_eq. cbn [Binder.exec].
    match goal with |- context [Binder.exec _ _ _ _ _ ?st] => set (sm := st) end.
    set (mk := Some (s_idx s, s_nfail s)).
    assert (HIm : INV sc init b0 mk (s_mark_end s) sm).
    { eapply INV_remark; [exact HI | | | | | |]; reflexivity. }
    assert (Hnfm : s_nfail sm = s_nfail s) by reflexivity.
    assert (Hmke : s_mark_end s = None) by apply HI.
    rewrite Hmke in HIm.
    rewrite exec_bind, exec_bind.
    destruct (rb_cms_spec faults dp ord sc init b0 mk None sm HIm) as (C1 & C2 & C3).
    destruct (exec (rb_cms sc) sm) as [s1 u1]. cbn [fst snd] in *.
    destruct C2 as (Cm & Cself & _ & _ & _ & _ & Cnf).
    assert (Hpart : exists s2 u2, exec (if sc_fraction sc then rb_labels else Ret tt) s1 = (s2, u2)
              /\ INV sc init b0 mk None s2 /\ s_nfail s1 <= s_nfail s2
              /\ cm_cap (s_store s2) = cm_cap (s_store s1) /\ cm_evar (s_store s2) = cm_evar (s_store s1)
              /\ (s_nfail s2 = s_nfail s1 -> CleanLab init (s_store s2))).
    { destruct (sc_fraction sc) eqn:Efr.
      - destruct (rb_labels_spec faults dp ord sc init b0 mk None s1 C1 Efr) as (L1 & L2 & L3 & L4 & L5).
        destruct (exec rb_labels s1) as [s2 u2]. exists s2, u2. cbn [fst] in *. auto 10.
      - exists s1, tt. split; [reflexivity |]. split; [exact C1 |]. split; [lia |]. split; [reflexivity |].
        split; [reflexivity |]. intros _.
        destruct C1 as (_ & _ & (_ & _ & J3) & _). destruct (J3 Efr) as (A & B). split.
        + unfold new_plain. rewrite A. destruct (p_plain (self init)); [| reflexivity].
          simpl. rewrite Nat.eqb_refl. reflexivity.
        + apply new_multi_nil. rewrite B. auto. }
    destruct Hpart as (s2 & u2 & -> & HI2 & Hle2 & Hc1 & Hc2 & Hlab).
    cbn [Binder.exec fst snd].
    match goal with |- context [INV _ _ _ _ _ ?st] => set (sf := st) end.
    assert (Hsf : s_store sf = s_store s2 /\ s_nfail sf = s_nfail s2) by (split; reflexivity).
    destruct Hsf as (Hstf & Hnff).
    split.
    - eapply INV_remark; [exact HI2 | | | | | |]; try reflexivity.
      cbn [sf s_mark set_mark]. apply HI2.
    - split; [lia |]. intros Hq. rewrite Hstf. apply clean_of.
      + destruct (C3 ltac:(lia)) as (K1 & K2). unfold CleanCM. rewrite Hc1, Hc2. auto.
      + apply Hlab. lia.
  Qed.

  (** ** The deferred status update *)

  Lemma bc_frame_refl st : bc_frame st st.
  Proof. unfold bc_frame. auto 10. Qed.

  Lemma bc_frame_trans a b c : bc_frame a b -> bc_frame b c -> bc_frame a c.
  Proof.
    intros (A1 & A2 & A3 & A4 & A5 & A6) (B1 & B2 & B3 & B4 & B5 & B6). unfold bc_frame.
    repeat split; congruence.
  Qed.

  Lemma bc_frame_fields st st' :
    bc_frame st st' ->
    p_name (self st') = p_name (self st) /\ p_rsv (self st') = p_rsv (self st)
    /\ p_node (self st') = p_node (self st) /\ p_phase (self st') = p_phase (self st)
    /\ p_plain (self st') = p_plain (self st) /\ p_multi (self st') = p_multi (self st)
    /\ p_recv (self st') = p_recv (self st).
  Proof.
    intros (H & _). destruct (self st'), (self st). unfold with_cond in H. simpl in *.
    injection H as -> -> -> -> -> -> -> -> -> ->. auto 10.
  Qed.

  Lemma bc_frame_term st st' : bc_frame st st' -> p_term (self st') = p_term (self st).
  Proof.
    intros (H & _). destruct (self st'), (self st). unfold with_cond in H. simpl in *.
    injection H as -> -> -> -> -> -> -> -> -> ->. reflexivity.
  Qed.

  Lemma G_bc s s' :
    G s -> bc_frame (s_store s) (s_store s') -> s_log s' = s_log s -> s_hist s' = s_hist s -> G s'.
  Proof.
    intros ((Ha & Hn0 & Hrs & Hp & Ho & Ht) & Hh & Hbi & He & Hn) F Hl Hhi.
    destruct (bc_frame_fields _ _ F) as (F1 & F2 & F3 & F4 & _). pose proof (bc_frame_term _ _ F) as Ft'.
    destruct F as (_ & Fa & Fo & _).
    split; [unfold base; rewrite Fa, F1, F2, F4, Fo, Ft'; auto 10 |].
    unfold hist_ok. rewrite Hl, Hhi, F3. auto.
  Qed.

  (** a call that changes at most the request status and the PodBound condition *)
  Lemma step_bc c s s1 r1 :
    G s -> not_bind c -> step c s = (s1, r1) ->
    (reached dp c s s1 r1 -> bc_frame (s_store s) (s_store s1)) ->
    G s1 /\ bc_frame (s_store s) (s_store s1) /\ s_mem s1 = s_mem s
    /\ s_mark s1 = s_mark s /\ s_mark_end s1 = s_mark_end s /\ s_nfail s <= s_nfail s1
    /\ (s_crashed s = true -> s_crashed s1 = true).
  Proof.
    intros HG Hnb E Hre. pose proof (step_spec _ _ _ _ _ _ E) as (Hm & Hk & Hke & [Hf | Hr]).
    - assert (Hc : forall u, c <> ABind false u) by (intros u ->; exact Hnb).
      pose proof (G_faulted _ _ _ _ HG Hc Hf) as HG1. destruct Hf as (_ & Hst & Hnf & Hcr & _).
      rewrite Hst. split; [exact HG1 |]. split; [apply bc_frame_refl |]. repeat split; auto. lia.
    - pose proof (Hre Hr) as F. destruct (bc_frame_fields _ _ F) as (F1 & F2 & F3 & F4 & _).
      assert (HG1 : G s1).
      { eapply G_reached; eauto. destruct HG as ((Ha & Hn0 & Hrs & Hp & Ho & Ht) & _).
        pose proof (bc_frame_term _ _ F) as Ft'.
        destruct F as (_ & Fa & Fo & _). unfold base. rewrite Fa, F1, F2, F4, Fo, Ft'. auto 10. }
      destruct Hr as (Hc & Hc' & Hnf & _). split; [exact HG1 |]. split; [exact F |].
      repeat split; auto; [lia | congruence].
  Qed.

  Definition br_post (b : brst) (e : bool) (st st' : store) : Prop :=
    match br st' with
    | None => br st = None
    | Some b' => exists b0, br st = Some b0 /\ (b' = b0 \/ b_phase b' = (if e then BFailed else BSucceeded) \/ b_phase b' = b_phase b0)
    end.

  Lemma deferred_spec b e s :
    G s ->
    let s' := fst (exec (deferred sc b e) s) in
    let e' := snd (snd (exec (deferred sc b e) s)) in
    G s' /\ bc_frame (s_store s) (s_store s') /\ s_mark s' = s_mark s /\ s_mark_end s' = s_mark_end s
    /\ s_nfail s <= s_nfail s' /\ (s_crashed s = true -> s_crashed s' = true)
    /\ br_post b e (s_store s) (s_store s')
    /\ (e = true -> br (s_store s) = Some b \/ br (s_store s) = None ->
        reported (s_store s') (s_crashed s') e' = true).
  Proof.
    intros HG. unfold deferred.
    set (ph' := if e then BFailed else BSucceeded).
    set (bump := e && match sc_backoff sc with Some l => b_attempts b <? l | None => false end).
    set (requeue := if bump then 2 ^ b_attempts b else 0).
    rewrite exec_bind.
    (* the status patch *)
    assert (Hst : exists s1 e1,
              exec (if brphase_eqb (b_phase b) ph' && negb bump then Ret false
                    else Api (APatchBRStatus (if brphase_eqb (b_phase b) ph' then None else Some ph')
                                             (if bump then Some (S (b_attempts b)) else None)) (fun _ => Ret e)) s = (s1, e1)
              /\ G s1 /\ bc_frame (s_store s) (s_store s1) /\ s_mem s1 = s_mem s
              /\ s_mark s1 = s_mark s /\ s_mark_end s1 = s_mark_end s /\ s_nfail s <= s_nfail s1
              /\ (s_crashed s = true -> s_crashed s1 = true)
              /\ br_post b e (s_store s) (s_store s1)
              /\ (e = true -> br (s_store s) = Some b \/ br (s_store s) = None ->
                  e1 = true \/ match br (s_store s1) with Some b' => b_phase b' = BFailed | None => True end)).
    { destruct (brphase_eqb (b_phase b) ph' && negb bump) eqn:Esame.
      - exists s, false. split; [reflexivity |]. split; [exact HG |]. split; [apply bc_frame_refl |].
        repeat split; auto.
        + unfold br_post. destruct (br (s_store s)); eauto.
        + intros -> Hbr. right. apply andb_true_iff in Esame as (Hph & _). apply brphase_eqb_eq in Hph.
          destruct Hbr as [-> | ->]; auto.
      - cbn [Binder.exec].
        match goal with |- context [Binder.step _ _ _ ?c s] => set (c0 := c) end.
        destruct (Binder.step faults no_env dp c0 s) as [s1 r1] eqn:E1. exists s1, e. split; [reflexivity |].
        assert (Hreach : reached dp c0 s s1 r1 ->
                  match br (s_store s) with
                  | Some b0 => s_store s1 = set_br (s_store s)
                                 (Some (mkBR (if brphase_eqb (b_phase b) ph' then b_phase b0 else ph')
                                             (if bump then S (b_attempts b) else b_attempts b0)))
                  | None => s_store s1 = s_store s
                  end).
        { intros (_ & _ & _ & Hd & _). cbn [is_watch] in Hd. apply do_patch_br in Hd.
          destruct (br (s_store s)); destruct Hd as (Hd & _); rewrite Hd; [| reflexivity].
          destruct (brphase_eqb (b_phase b) ph'); destruct bump; reflexivity. }
        destruct (step_bc c0 _ _ _ HG I E1) as (HG1 & F1 & Hm1 & Hk1 & Hke1 & Hn1 & Hc1).
        { intros Hr. specialize (Hreach Hr). destruct (br (s_store s)); rewrite Hreach;
            [unfold bc_frame; simpl; auto 10 | apply bc_frame_refl]. }
        split; [exact HG1 |]. split; [exact F1 |]. repeat split; auto.
        + pose proof (step_spec _ _ _ _ _ _ E1) as (_ & _ & _ & [Hf | Hr]).
          * destruct Hf as (_ & Hs & _). rewrite Hs. unfold br_post. destruct (br (s_store s)); eauto.
          * specialize (Hreach Hr). unfold br_post. destruct (br (s_store s)) as [b0 |] eqn:Eb; rewrite Hreach.
            { cbn [br set_br]. exists b0. split; [reflexivity |]. right. cbn [b_phase].
              destruct (brphase_eqb (b_phase b) ph'); auto. }
            { rewrite Eb. reflexivity. } }
    destruct Hst as (s1 & e1 & -> & HG1 & F1 & Hm1 & Hk1 & Hke1 & Hn1 & Hc1 & Hbr1 & Hrep1).
    (* the pod condition *)
    cbn [Binder.exec].
    set (c := negb e).
    match goal with |- context [if ?x then _ else _] => destruct x eqn:Ech end.
    2: { cbn [Binder.exec fst snd]. split; [exact HG1 |]. split; [exact F1 |]. repeat split; auto.
         intros He Hbr. unfold reported. destruct (Hrep1 He Hbr) as [-> | Hp].
         - rewrite orb_true_r. reflexivity.
         - destruct (br (s_store s1)); [rewrite Hp; reflexivity | reflexivity]. }
    apin E2 s2 r2. cbn [Binder.exec fst snd].
    destruct (step_bc (APatchPodCond c) _ _ _ HG1 I E2) as (HG2 & F2 & Hm2 & Hk2 & Hke2 & Hn2 & Hc2).
    { intros (_ & _ & _ & Hd & _). cbn [is_watch] in Hd.
      assert (Ha : self_alive (s_store s1) = true) by apply HG1.
      destruct (do_patch_cond _ _ _ _ _ Ha Hd) as (Hs & _). rewrite Hs. unfold bc_frame. simpl.
      destruct (self (s_store s1)); auto 10. }
    split; [exact HG2 |]. split; [eapply bc_frame_trans; eauto |].
    split; [congruence |]. split; [congruence |]. split; [lia |]. split; [auto |].
    assert (Hbr2 : br (s_store s2) = br (s_store s1)).
    { pose proof (step_spec _ _ _ _ _ _ E2) as (_ & _ & _ & [Hf | Hr]).
      - destruct Hf as (_ & Hs & _). rewrite Hs. reflexivity.
      - destruct Hr as (_ & _ & _ & Hd & _). cbn [is_watch] in Hd.
        assert (Ha : self_alive (s_store s1) = true) by apply HG1.
        destruct (do_patch_cond _ _ _ _ _ Ha Hd) as (Hs & _). rewrite Hs. reflexivity. }
    split; [unfold br_post in *; rewrite Hbr2; exact Hbr1 |].
    intros He Hbr. unfold reported. rewrite Hbr2. destruct (Hrep1 He Hbr) as [-> | Hp].
    - rewrite orb_true_r. reflexivity.
    - destruct (br (s_store s1)); [rewrite Hp; reflexivity | reflexivity].
  Qed.

  (** ** Assembling the reconcile *)
  Lemma side_ok_of_facts st :
    wf_shape sc = true ->
    p_recv (self st) = Some (recv_type sc) ->
    (sc_fraction sc = true ->
       exists idxs, Lab sc (sc_groups sc) (self st) /\ all_idx (sc_groups sc) st = Some idxs /\ cm_facts sc idxs st) ->
    side_ok sc st = true.
  Proof.
    intros Hwf Hrecv Hfr. unfold side_ok. rewrite Hrecv. cbn [opt_rtype_eqb]. rewrite rtype_eqb_refl. cbn [andb].
    destruct (sc_fraction sc) eqn:Efr; [| reflexivity].
    destruct (Hfr eq_refl) as (idxs & HL & HA & (C1 & C2 & C3 & C4 & C5)).
    rewrite HA. unfold vis_cm in C3. rewrite C3, C4, C5. cbn [opt_cval_eqb]. rewrite !cval_eqb_refl.
    destruct (cm_cap st); [| contradiction]. destruct (cm_evar st); [| contradiction]. cbn [opt_is_some andb].
    rewrite !andb_true_r. unfold labels_ok, Lab in *. unfold wf_shape in Hwf. rewrite Efr in Hwf.
    destruct (sc_multi sc) eqn:Em.
    - apply forallb_forall. intros g Hg. apply mem_nat_In, HL, Hg.
    - destruct (sc_groups sc) as [| g [| g' l]]; simpl in Hwf; try discriminate.
      apply opt_nat_eqb_eq, HL. reflexivity.
  Qed.

  Lemma clean_bc st st' : bc_frame st st' -> clean init st' = clean init st.
  Proof.
    intros F. destruct (bc_frame_fields _ _ F) as (_ & _ & _ & _ & F5 & F6 & _).
    destruct F as (_ & _ & _ & F4 & F4' & _).
    unfold clean, new_plain, new_multi, new_cms. simpl. rewrite F5, F6, F4, F4'. reflexivity.
  Qed.

  Lemma side_ok_bc st st' : bc_frame st st' -> side_ok sc st' = side_ok sc st.
  Proof.
    intros F. destruct (bc_frame_fields _ _ F) as (_ & _ & _ & _ & F5 & F6 & F7).
    destruct F as (_ & _ & Fo & F4 & F4' & _).
    unfold side_ok, labels_ok, cm_value. rewrite F5, F6, F7, (all_idx_others (sc_groups sc) st st' Fo).
    destruct (if sc_vis_in_spec sc then CmCap else CmEvar); cbn [cm_get]; rewrite ?F4, ?F4'; reflexivity.
  Qed.

  Lemma clean_refl st : clean st st = true.
  Proof.
    unfold clean, new_plain, new_multi, new_cms. simpl.
    assert (H1 : (match p_plain (self st) with Some g => negb (opt_nat_eqb (p_plain (self st)) (Some g)) | None => false end) = false).
    { destruct (p_plain (self st)); [| reflexivity]. simpl. rewrite Nat.eqb_refl. reflexivity. }
    rewrite H1. simpl.
    assert (H2 : filter (fun g => negb (mem_nat g (p_multi (self st)))) (p_multi (self st)) = []).
    { apply filter_none. intros g Hg. apply negb_false_iff, mem_nat_In, Hg. }
    rewrite H2. destruct (opt_is_some (cm_cap st)); destruct (opt_is_some (cm_evar st)); reflexivity.
  Qed.


  Lemma INV_init : init_ok init -> INV sc init (br init) None None (init_state init).
  Proof.
    intros (Ha & Hn0 & Hrs & Hp & Hterm & Hn & Ho & _). unfold INV. cbn [init_state s_store s_mem].
    split.
    - split; [unfold base; auto 10 |]. unfold hist_ok. simpl. rewrite Hn. auto.
    - split; [split; reflexivity |]. split; [unfold J; auto 10 |]. split; [right; auto |]. auto 10.
  Qed.

  Definition fin_post (s' : state) (res : nat * bool) : Prop :=
    G s' /\ node_ok (s_store s') = node_ok init /\ (SH init -> SH (s_store s'))
    /\ (exists b1, br (s_store s') = Some b1 /\ (b_phase b1 = BSucceeded -> p_node (self (s_store s')) = 1))
    /\ ((p_node (self (s_store s')) = 1 /\ side_ok sc (s_store s') = true)
        \/ (p_node (self (s_store s')) = 0
            /\ (reported (s_store s') (s_crashed s') (snd res) = true \/ nothing_done (s_log s') = true)
            /\ (cleanup_unfaulted s' = true -> clean init (s_store s') = true))).

  Lemma exit_unbound b mk mke s :
    INV sc init (Some b) mk mke s -> b_phase b <> BSucceeded ->
    (cleanup_unfaulted s = true -> clean init (s_store s) = true) ->
    fin_post (fst (exec (deferred sc b true) s)) (snd (exec (deferred sc b true) s)).
  Proof.
    intros HI Hph Hcl.
    destruct HI as (HG & _ & _ & _ & Hn & Hbr & Hno & Hsh).
    destruct (deferred_spec b true s HG) as (D1 & D2 & D3 & D4 & D5 & D6 & D7 & D8).
    destruct (exec (deferred sc b true) s) as [s' [rq e']]. cbn [fst snd] in *.
    destruct (bc_frame_fields _ _ D2) as (_ & _ & F3 & _).
    unfold fin_post. split; [exact D1 |].
    split; [destruct D2 as (_&_&_&_&_&->); exact Hno |].
    split; [intros Hi; specialize (Hsh Hi); destruct D2 as (_&_&Fo&_); unfold SH, rsv_only, names_ok in *; rewrite Fo; exact Hsh |].
    split.
    - unfold br_post in D7. rewrite Hbr in D7. destruct (br (s_store s')) as [b1 |]; [| discriminate].
      exists b1. split; [reflexivity |]. intros Hs. exfalso. destruct D7 as (b0 & Hb0 & Hcase). injection Hb0 as <-.
      destruct Hcase as [-> | [Hx | Hx]]; congruence.
    - right. split; [congruence |]. split; [left; apply D8; auto |].
      intros Hc. rewrite (clean_bc _ _ D2). apply Hcl.
      unfold cleanup_unfaulted in *. rewrite D3, D4 in Hc. exact Hc.
  Qed.

  Lemma exit_bound b s :
    wf_shape sc = true -> bound_facts sc init (Some b) None None s ->
    fin_post (fst (exec (deferred sc b false) s)) (snd (exec (deferred sc b false) s)).
  Proof.
    intros Hwf (HG & _ & Hn & Hrecv & Hfacts & Hbr & Hno & Hsh).
    destruct (deferred_spec b false s HG) as (D1 & D2 & D3 & D4 & D5 & D6 & D7 & _).
    destruct (exec (deferred sc b false) s) as [s' [rq e']]. cbn [fst snd] in *.
    destruct (bc_frame_fields _ _ D2) as (_ & _ & F3 & _).
    unfold fin_post. split; [exact D1 |].
    split; [destruct D2 as (_&_&_&_&_&->); exact Hno |].
    split; [intros Hi; specialize (Hsh Hi); destruct D2 as (_&_&Fo&_); unfold SH, rsv_only, names_ok in *; rewrite Fo; exact Hsh |].
    split.
    - unfold br_post in D7. rewrite Hbr in D7. destruct (br (s_store s')) as [b1 |]; [| discriminate].
      exists b1. split; [reflexivity |]. intros _. congruence.
    - left. split; [congruence |]. rewrite (side_ok_bc _ _ D2). apply side_ok_of_facts; auto.
  Qed.

  Lemma get_step c s s1 r1 :
    readonly c = true -> step c s = (s1, r1) ->
    (exists k, r1 = RErr k) \/ r1 = snd (do_call c None (s_store s)).
  Proof.
    intros Hro E. pose proof (step_spec _ _ _ _ _ _ E) as (_ & _ & _ & [Hf | Hr]).
    - left. apply Hf.
    - right. destruct Hr as (_ & _ & _ & Hd & _).
      assert (Hw : is_watch c = false) by (destruct c; try discriminate; reflexivity).
      rewrite Hw in Hd. rewrite Hd. reflexivity.
  Qed.

  Lemma cleanup_unfaulted_none s : s_mark s = None -> cleanup_unfaulted s = true.
  Proof. intros H. unfold cleanup_unfaulted. rewrite H. reflexivity. Qed.

  Theorem reconcile_master :
    wf_shape sc = true -> init_ok init ->
    fin_post (fst (exec (reconcile sc bind_result_code false) (init_state init))) (snd (exec (reconcile sc bind_result_code false) (init_state init))).
  Proof.
    intros Hwf Hok. pose proof (INV_init Hok) as HI0.
    destruct Hok as (Ha & Hn0 & Hrs & Hp & Hterm & Hn & Ho & (b & Hb & Hph)).
    rewrite Hb in HI0.
    set (s0 := init_state init) in *.
    assert (Hst0 : s_store s0 = init) by reflexivity.
    unfold reconcile. apin E1 s1 r1.
    destruct (ro_step faults dp sc init (Some b) None None AGetBR _ _ _ HI0 eq_refl E1) as (HI1 & Hst1 & Hm1 & _ & _).
    rewrite Hst0 in Hst1.
    assert (Hexit : forall s (res : nat * bool), INV sc init (Some b) None None s -> s_store s = init -> snd res = true ->
              fin_post s res).
    { intros s res HI Hst Hres. pose proof HI as (HG & (Hmk & _) & _ & _ & Hnn & Hbr & Hno & Hsh).
      unfold fin_post. split; [exact HG |]. split; [exact Hno |]. split; [exact Hsh |].
      split; [exists b; split; [exact Hbr | intros; contradiction] |].
      right. split; [exact Hnn |]. split; [left; unfold reported; rewrite Hres, orb_true_r; reflexivity |].
      intros _. rewrite Hst. apply clean_refl. }
    assert (Hnoop : forall s (res : nat * bool), INV sc init (Some b) None None s -> s_store s = init ->
              nothing_done (s_log s) = true -> fin_post s res).
    { intros s res HI Hst Hres. pose proof HI as (HG & (Hmk & _) & _ & _ & Hnn & Hbr & Hno & Hsh).
      unfold fin_post. split; [exact HG |]. split; [exact Hno |]. split; [exact Hsh |].
      split; [exists b; split; [exact Hbr | intros; contradiction] |].
      right. split; [exact Hnn |]. split; [right; exact Hres |].
      intros _. rewrite Hst. apply clean_refl. }
    assert (Hdefer : forall s, INV sc init (Some b) None None s -> s_store s = init ->
              fin_post (fst (exec (deferred sc b true) s)) (snd (exec (deferred sc b true) s))).
    { intros s HI Hst. apply (exit_unbound b None None s HI Hph). intros _. rewrite Hst. apply clean_refl. }
    destruct (get_step AGetBR _ _ _ eq_refl E1) as [(k1 & ->) | Hr1].
    { destruct k1; cbn [Binder.exec fst snd]; try (apply Hexit; auto; fail).
      apply Hnoop; auto.
      pose proof (step_spec _ _ _ _ _ _ E1) as (_ & _ & _ & [Hf | Hr]).
      - destruct Hf as (_ & _ & _ & _ & (o & _ & Hlog) & _). rewrite Hlog. reflexivity.
      - destruct Hr as (_ & _ & _ & Hd & Hlog & _). rewrite Hlog. reflexivity. }
    rewrite Hst0 in Hr1. cbn [do_call snd] in Hr1. rewrite Hb in Hr1. subst r1.
    destruct (b_phase b) eqn:Eph; [| contradiction |].
    all: cbn [Binder.exec].
    all: match goal with |- context [Binder.step _ _ _ AGetPod ?st] => set (s2 := st) end.
    all: assert (HI2 : INV sc init (Some b) None None s2)
      by (apply (INV_set_mem sc init (Some b) None None s1 mem_shell HI1); rewrite Hst1; unfold J; auto 10).
    all: assert (Hst2 : s_store s2 = init) by exact Hst1.
    all: destruct (Binder.step faults no_env dp AGetPod s2) as [s3 r3] eqn:E3.
    all: destruct (ro_step faults dp sc init (Some b) None None AGetPod _ _ _ HI2 eq_refl E3) as (HI3 & Hst3 & Hm3 & _ & _).
    all: rewrite Hst2 in Hst3.
    all: destruct (get_step AGetPod _ _ _ eq_refl E3) as [(k3 & ->) | Hr3]; [apply Hdefer; auto |].
    all: rewrite Hst2 in Hr3; cbn [do_call snd] in Hr3; rewrite Ha in Hr3; subst r3.
    all: cbn [Binder.exec]; rewrite Hn; cbn [Nat.eqb negb]; cbn [Binder.exec].
    all: match goal with |- context [Binder.step _ _ _ AGetNode ?st] => set (s4 := st) end.
    all: assert (HI4 : INV sc init (Some b) None None s4)
      by (apply (INV_set_mem sc init (Some b) None None s3 (mem_of (self init)) HI3); rewrite Hst3; unfold J;
          split; [auto | split; [intros g Hg; auto | auto]]).
    all: assert (Hst4 : s_store s4 = init) by exact Hst3.
    all: assert (HM4 : M s4) by (unfold M; rewrite Hst4; split; reflexivity).
    all: destruct (Binder.step faults no_env dp AGetNode s4) as [s5 r5] eqn:E5.
    all: destruct (ro_step faults dp sc init (Some b) None None AGetNode _ _ _ HI4 eq_refl E5) as (HI5 & Hst5 & Hm5 & _ & _).
    all: assert (HM5 : M s5) by (unfold M; rewrite Hst5, Hm5; exact HM4).
    all: rewrite Hst4 in Hst5.
    all: destruct r5; try (apply Hdefer; auto).
    (* the node was read: Bind *)
    all: rewrite exec_bind.
    all: assert (Hmu5 : m_uid (s_mem s5) = p_uid (self (s_store s5))) by (rewrite Hm5, Hst5; reflexivity).
    all: pose proof (bind_prog_spec faults dp ord sc init (Some b) None None s5 HI5 HM5 Hmu5) as (B1 & B2 & _).
    all: destruct (exec (bind_prog sc bind_result_code false) s5) as [s6 e]; cbn [fst snd] in *.
    all: destruct e.
    all: try (destruct B2 as (_ & Hfr & Hg); exfalso; unfold wf_shape in Hwf; rewrite Hfr, Hg in Hwf; discriminate).
    all: cbn [Binder.exec bind]; try (apply exit_bound; auto).
    (* Bind failed: Rollback, then report *)
    all: rewrite exec_bind.
    all: destruct (rollback_spec (Some b) s6 B2) as (R1 & R2 & R3).
    all: destruct (exec (rollback sc) s6) as [s7 u]; cbn [fst snd] in *.
    all: apply (exit_unbound b _ _ s7 R1 ltac:(rewrite Eph; discriminate)).
    all: intros Hc; apply R3; unfold cleanup_unfaulted in Hc.
    all: destruct R1 as (_ & (Hk7 & Hke7) & _); rewrite Hk7, Hke7 in Hc; apply Nat.eqb_eq in Hc; auto.
  Qed.

  (** ** A run without injected faults *)
  Definition no_faults : Prop := forall k, faults k = Ok.

  Lemma step_nofault c s s1 r1 :
    no_faults -> s_crashed s = false -> step c s = (s1, r1) ->
    s_crashed s1 = false /\ s_nfail s1 = s_nfail s /\ reached dp c s s1 r1.
  Proof.
    intros Hnf Hc E. pose proof (step_spec _ _ _ _ _ _ E) as (_ & _ & _ & [Hf | Hr]).
    - exfalso. unfold Binder.step in E. cbn [no_env apply_env fold_left] in E. rewrite Hc, Hnf in E.
      destruct (do_call c (if is_watch c then dp (s_watches s) else None) (s_store s)) as [st' r'].
      injection E as <- <-. destruct Hf as (_ & _ & Hx & _). simpl in Hx. lia.
    - split; [apply Hr |]. split; [apply Hr | exact Hr].
  Qed.

  Lemma exec_nofault {A} (p : prog A) : forall s,
    no_faults -> s_crashed s = false ->
    s_crashed (fst (exec p s)) = false /\ s_nfail (fst (exec p s)) = s_nfail s.
  Proof.
    induction p as [a | c k IH | k IH | m k IH | gs k IH | b k IH]; intros s Hnf Hc; cbn [Binder.exec].
    - auto.
    - destruct (Binder.step faults no_env dp c s) as [s1 r1] eqn:E.
      destruct (step_nofault _ _ _ _ Hnf Hc E) as (Hc1 & Hn1 & _).
      destruct (IH r1 s1 Hnf Hc1) as (A1 & A2). split; [exact A1 | lia].
    - apply IH; auto.
    - match goal with |- context [Binder.exec _ _ _ _ k ?st] => exact (IH st Hnf Hc) end.
    - match goal with |- context [Binder.exec _ _ _ _ (k ?o) ?st] => exact (IH o st Hnf Hc) end.
    - match goal with |- context [Binder.exec _ _ _ _ k ?st] => exact (IH st Hnf Hc) end.
  Qed.

  (** ** The deferred update without [G]: it touches only the request status and the condition *)
  Lemma step_bc0 c s s1 r1 :
    self_alive (s_store s) = true -> not_bind c -> step c s = (s1, r1) ->
    (reached dp c s s1 r1 -> bc_frame (s_store s) (s_store s1)) ->
    bc_frame (s_store s) (s_store s1) /\ s_mem s1 = s_mem s /\ binds (s_log s1) = binds (s_log s).
  Proof.
    intros Ha Hnb E Hre. pose proof (step_spec _ _ _ _ _ _ E) as (Hm & _ & _ & [Hf | Hr]).
    - destruct Hf as (_ & Hst & _ & _ & (o & Ho & Hlog) & _). rewrite Hst, Hlog, binds_cons.
      split; [apply bc_frame_refl |]. split; [exact Hm |].
      destruct (obs_not_bind c o Hnb) as (-> & _). reflexivity.
    - split; [apply Hre, Hr |]. split; [exact Hm |]. destruct Hr as (_ & _ & _ & _ & Hlog & _).
      rewrite Hlog, binds_cons. destruct (obs_not_bind c (resp_outcome r1) Hnb) as (-> & _). reflexivity.
  Qed.

  Lemma deferred_frame b e s :
    self_alive (s_store s) = true ->
    let s' := fst (exec (deferred sc b e) s) in
    bc_frame (s_store s) (s_store s') /\ binds (s_log s') = binds (s_log s).
  Proof.
    intros Ha. unfold deferred. rewrite exec_bind.
    match goal with |- context [exec (if ?c then Ret false else Api ?a ?k) s] =>
      assert (Hst : exists s1 e1, exec (if c then Ret false else Api a k) s = (s1, e1)
                /\ bc_frame (s_store s) (s_store s1) /\ s_mem s1 = s_mem s /\ binds (s_log s1) = binds (s_log s));
      [ destruct c;
        [ exists s, false; split; [reflexivity |]; split; [apply bc_frame_refl | auto]
        | cbn [Binder.exec]; destruct (Binder.step faults no_env dp a s) as [s1 r1] eqn:E1; eexists s1, _;
          split; [reflexivity |];
          apply (step_bc0 a _ _ _ Ha I E1); intros (_ & _ & _ & Hd & _); cbn [is_watch] in Hd;
          apply do_patch_br in Hd; destruct (br (s_store s)); destruct Hd as (Hd & _); rewrite Hd;
          [unfold bc_frame; simpl; auto 10 | apply bc_frame_refl] ]
      | ]
    end.
    destruct Hst as (s1 & e1 & -> & F1 & Hm1 & Hb1).
    assert (Ha1 : self_alive (s_store s1) = true) by (destruct F1 as (_ & -> & _); exact Ha).
    cbn [Binder.exec].
    match goal with |- context [if ?x then _ else _] => destruct x end.
    2: { cbn [Binder.exec fst]. auto. }
    cbn [Binder.exec].
    match goal with |- context [Binder.step _ _ _ ?c s1] => destruct (Binder.step faults no_env dp c s1) as [s2 r2] eqn:E2;
      destruct (step_bc0 c _ _ _ Ha1 I E2) as (F2 & _ & Hb2) end.
    { intros (_ & _ & _ & Hd & _). cbn [is_watch] in Hd.
      destruct (do_patch_cond _ _ _ _ _ Ha1 Hd) as (Hs & _). rewrite Hs. unfold bc_frame. simpl.
      destruct (self (s_store s1)); auto 10. }
    cbn [Binder.exec fst]. split; [eapply bc_frame_trans; eauto | congruence].
  Qed.

  Lemma exit_bound_strong b s :
    wf_shape sc = true -> bound_facts sc init (Some b) None None s ->
    let s' := fst (exec (deferred sc b false) s) in
    p_node (self (s_store s')) = 1 /\ side_ok sc (s_store s') = true /\ self_alive (s_store s') = true.
  Proof.
    intros Hwf (HG & _ & Hn & Hrecv & Hfacts & Hbr & Hno & Hsh).
    destruct (deferred_spec b false s HG) as (D1 & D2 & _).
    destruct (exec (deferred sc b false) s) as [s' [rq e']]. cbn [fst snd] in *.
    destruct (bc_frame_fields _ _ D2) as (_ & _ & F3 & _).
    split; [congruence |]. split; [| apply D1]. rewrite (side_ok_bc _ _ D2). apply side_ok_of_facts; auto.
  Qed.

  (** a fault-free attempt from an unbound, attemptable state binds the pod *)
  Theorem recover_unbound :
    wf_shape sc = true -> attemptable_sc sc -> init_ok init -> node_ok init = true -> Live init ->
    no_faults -> dp_ok dp ->
    let s' := fst (exec (reconcile sc bind_result_code false) (init_state init)) in
    p_node (self (s_store s')) = 1 /\ side_ok sc (s_store s') = true /\ self_alive (s_store s') = true.
  Proof.
    intros Hwf Hatt Hok Hnode Hlive Hnf Hdp. pose proof (INV_init Hok) as HI0.
    destruct Hok as (Ha & Hn0 & Hrs & Hp & Hterm & Hn & Ho & (b & Hb & Hph)).
    rewrite Hb in HI0.
    set (s0 := init_state init) in *.
    assert (Hst0 : s_store s0 = init) by reflexivity.
    assert (Hc0 : s_crashed s0 = false) by reflexivity.
    unfold reconcile. apin E1 s1 r1.
    destruct (ro_step faults dp sc init (Some b) None None AGetBR _ _ _ HI0 eq_refl E1) as (HI1 & Hst1 & Hm1 & _ & Hl1).
    destruct (step_nofault _ _ _ _ Hnf Hc0 E1) as (Hc1 & Hn1 & _).
    destruct (Hl1 Hn1) as (Hr1 & _). rewrite Hst0 in Hr1, Hst1. cbn [do_call snd] in Hr1. rewrite Hb in Hr1. subst r1.
    destruct (b_phase b) eqn:Eph; [| contradiction |].
    all: cbn [Binder.exec].
    all: match goal with |- context [Binder.step _ _ _ AGetPod ?st] => set (s2 := st) end.
    all: assert (HI2 : INV sc init (Some b) None None s2)
      by (apply (INV_set_mem sc init (Some b) None None s1 mem_shell HI1); rewrite Hst1; unfold J; auto 10).
    all: assert (Hst2 : s_store s2 = init) by exact Hst1.
    all: assert (Hc2 : s_crashed s2 = false) by exact Hc1.
    all: destruct (Binder.step faults no_env dp AGetPod s2) as [s3 r3] eqn:E3.
    all: destruct (ro_step faults dp sc init (Some b) None None AGetPod _ _ _ HI2 eq_refl E3) as (HI3 & Hst3 & Hm3 & _ & Hl3).
    all: destruct (step_nofault _ _ _ _ Hnf Hc2 E3) as (Hc3 & Hn3 & _).
    all: destruct (Hl3 Hn3) as (Hr3 & _); rewrite Hst2 in Hr3, Hst3; cbn [do_call snd] in Hr3; rewrite Ha in Hr3; subst r3.
    all: cbn [Binder.exec]; rewrite Hn; cbn [Nat.eqb negb]; cbn [Binder.exec].
    all: match goal with |- context [Binder.step _ _ _ AGetNode ?st] => set (s4 := st) end.
    all: assert (HI4 : INV sc init (Some b) None None s4)
      by (apply (INV_set_mem sc init (Some b) None None s3 (mem_of (self init)) HI3); rewrite Hst3; unfold J;
          split; [auto | split; [intros g Hg; auto | auto]]).
    all: assert (Hst4 : s_store s4 = init) by exact Hst3.
    all: assert (Hc4 : s_crashed s4 = false) by exact Hc3.
    all: assert (HM4 : M s4) by (unfold M; rewrite Hst4; split; reflexivity).
    all: destruct (Binder.step faults no_env dp AGetNode s4) as [s5 r5] eqn:E5.
    all: destruct (ro_step faults dp sc init (Some b) None None AGetNode _ _ _ HI4 eq_refl E5) as (HI5 & Hst5 & Hm5 & _ & Hl5).
    all: destruct (step_nofault _ _ _ _ Hnf Hc4 E5) as (Hc5 & Hn5 & _).
    all: assert (HM5 : M s5) by (unfold M; rewrite Hst5, Hm5; exact HM4).
    all: destruct (Hl5 Hn5) as (Hr5 & _); rewrite Hst4 in Hr5, Hst5; cbn [do_call snd] in Hr5; rewrite Hnode in Hr5; subst r5.
    all: rewrite exec_bind.
    all: assert (Hmu5 : m_uid (s_mem s5) = p_uid (self (s_store s5))) by (rewrite Hm5, Hst5; reflexivity).
    all: pose proof (bind_prog_spec faults dp ord sc init (Some b) None None s5 HI5 HM5 Hmu5) as (B1 & B2 & B3).
    all: destruct (exec_nofault (bind_prog sc bind_result_code false) s5 Hnf Hc5) as (Hc6 & Hn6).
    all: destruct (exec (bind_prog sc bind_result_code false) s5) as [s6 e]; cbn [fst snd] in *.
    all: rewrite Hst5 in B3; specialize (B3 Hn6 Hdp Hlive Hatt); subst e.
    all: cbn [Binder.exec bind]; apply exit_bound_strong; auto.
  Qed.

  (** a request whose pod is already bound: only the request status and the PodBound condition may change *)
  Theorem already_bound :
    self_alive init = true -> p_node (self init) <> 0 ->
    let s' := fst (exec (reconcile sc bind_result_code false) (init_state init)) in
    bc_frame init (s_store s') /\ binds (s_log s') = 0.
  Proof.
    intros Ha Hn. set (s0 := init_state init).
    assert (Hst0 : s_store s0 = init) by reflexivity.
    assert (Hro : forall c s s1 r1, readonly c = true -> self_alive (s_store s) = true -> step c s = (s1, r1) ->
              s_store s1 = s_store s /\ binds (s_log s1) = binds (s_log s)).
    { intros c s s1 r1 Hc Hal E.
      assert (Hnb : not_bind c) by (destruct c; try discriminate; exact I).
      assert (Hst : s_store s1 = s_store s).
      { pose proof (step_spec _ _ _ _ _ _ E) as (_ & _ & _ & [Hf | Hr]).
        - apply Hf.
        - destruct Hr as (_ & _ & _ & Hd & _).
          pose proof (do_call_readonly c (if is_watch c then dp (s_watches s) else None) (s_store s) Hc) as Hx.
          rewrite Hd in Hx. exact Hx. }
      split; [exact Hst |].
      destruct (step_bc0 c _ _ _ Hal Hnb E) as (_ & _ & Hb); [intros _; rewrite Hst; apply bc_frame_refl | exact Hb]. }
    unfold reconcile. apin E1 s1 r1.
    assert (Ha0 : self_alive (s_store s0) = true) by (rewrite Hst0; exact Ha).
    destruct (Hro AGetBR s0 s1 r1 eq_refl Ha0 E1) as (Hst1 & Hb1).
    rewrite Hst0 in Hst1.
    assert (Hdone : forall res : nat * bool, bc_frame init (s_store (fst (exec (Ret res) s1)))
                                            /\ binds (s_log (fst (exec (Ret res) s1))) = 0).
    { intros res. cbn [Binder.exec fst]. rewrite Hst1, Hb1. split; [apply bc_frame_refl | reflexivity]. }
    destruct r1 as [| k1 | | | | | b | |]; try destruct k1; try apply Hdone.
    destruct (b_phase b); try apply Hdone.
    all: cbn [Binder.exec].
    all: match goal with |- context [Binder.step _ _ _ AGetPod ?st] => set (s2 := st) end.
    all: assert (Hst2 : s_store s2 = init) by exact Hst1.
    all: assert (Hb2 : binds (s_log s2) = 0) by exact Hb1.
    all: destruct (Binder.step faults no_env dp AGetPod s2) as [s3 r3] eqn:E3.
    all: assert (Ha2 : self_alive (s_store s2) = true) by (rewrite Hst2; exact Ha).
    all: destruct (Hro AGetPod s2 s3 r3 eq_refl Ha2 E3) as (Hst3 & Hb3).
    all: rewrite Hst2 in Hst3.
    all: assert (Ha3 : self_alive (s_store s3) = true) by (rewrite Hst3; exact Ha).
    all: assert (Hdef : forall e, bc_frame init (s_store (fst (exec (deferred sc b e) s3)))
                                 /\ binds (s_log (fst (exec (deferred sc b e) s3))) = 0)
      by (intros e; destruct (deferred_frame b e s3 Ha3) as (D1 & D2);
          rewrite Hst3 in D1; split; [exact D1 | congruence]).
    all: destruct r3; try apply Hdef.
    all: assert (Hp : p = self init)
      by (destruct (get_step AGetPod _ _ _ eq_refl E3) as [(k3 & Hx) | Hx]; [discriminate |];
          rewrite Hst2 in Hx; cbn [do_call snd] in Hx; rewrite Ha in Hx; congruence).
    all: subst p; cbn [Binder.exec].
    all: apply Nat.eqb_neq in Hn; rewrite Hn; cbn [negb].
    all: match goal with |- context [Binder.exec _ _ _ _ (deferred sc ?bb false) ?st] =>
           set (sx := st);
           assert (Hsx : s_store sx = init) by exact Hst3;
           assert (Hax : self_alive (s_store sx) = true) by (rewrite Hsx; exact Ha);
           assert (Hbx : binds (s_log sx) = 0) by (cbn [sx s_log]; congruence);
           destruct (deferred_frame bb false sx Hax) as (D1 & D2);
           rewrite Hsx in D1; split; [exact D1 | congruence] end.
  Qed.
End Final.

(** * The four statements of C11, closed *)

Lemma filter_map_comm {A} (f : A -> bool) (h : A -> A) l :
  (forall x, f (h x) = f x) -> filter f (map h l) = map h (filter f l).
Proof.
  intros H. induction l as [| x l IH]; [reflexivity |]. simpl. rewrite H. destruct (f x); simpl; rewrite IH; reflexivity.
Qed.

Definition annot (f : nat -> nat) (p : pod) : pod :=
  if p_rsv p && negb (opt_is_some (p_idx p)) then with_idx p (Some (f (p_name p))) else p.

Lemma annot_fields f p :
  p_name (annot f p) = p_name p /\ p_rsv (annot f p) = p_rsv p /\ p_plain (annot f p) = p_plain p.
Proof. unfold annot. destruct (p_rsv p && negb (opt_is_some (p_idx p))); simpl; auto. Qed.

Lemma env_annotate_others f st : others (env_annotate f st) = map (annot f) (others st).
Proof. reflexivity. Qed.

Lemma rsv_idx_annotate f g st i : rsv_idx g st = Some i -> rsv_idx g (env_annotate f st) = Some i.
Proof.
  unfold rsv_idx. rewrite env_annotate_others.
  rewrite (filter_map_comm (fun p => p_rsv p && opt_nat_eqb (p_plain p) (Some g)) (annot f)).
  - destruct (filter _ (others st)) as [| p l]; [discriminate |]. simpl. intros Hp.
    unfold annot. rewrite Hp. simpl. rewrite andb_false_r. exact Hp.
  - intros x. destruct (annot_fields f x) as (_ & -> & ->). reflexivity.
Qed.

Lemma side_ok_annotate sc f st : side_ok sc st = true -> side_ok sc (env_annotate f st) = true.
Proof.
  unfold side_ok. intros H. apply andb_true_iff in H as (H1 & H2). apply andb_true_iff. split; [exact H1 |].
  destruct (sc_fraction sc); [| reflexivity].
  apply andb_true_iff in H2 as (H2 & H3). apply andb_true_iff. split; [exact H2 |].
  destruct (all_idx (sc_groups sc) st) as [idxs |] eqn:Ea; [| discriminate].
  rewrite (all_idx_ext (sc_groups sc) st (env_annotate f st) (fun g j _ Hj => rsv_idx_annotate f g st j Hj) idxs Ea).
  exact H3.
Qed.

Lemma SH_annotate f st : SH st -> Live (env_annotate f st).
Proof.
  intros (H1 & H2). unfold Live, SH, rsv_only, names_ok, annotated in *. rewrite !env_annotate_others.
  rewrite Forall_forall in H1, H2. split; [split |]; apply Forall_forall.
  - intros p Hp. apply in_map_iff in Hp as (q & <- & Hq). destruct (annot_fields f q) as (_ & -> & _). auto.
  - intros p Hp. apply in_map_iff in Hp as (q & <- & Hq). destruct (annot_fields f q) as (-> & _ & ->). auto.
  - intros p Hp. apply in_map_iff in Hp as (q & <- & Hq). unfold annot.
    rewrite (H1 q Hq). destruct (opt_is_some (p_idx q)) eqn:E; simpl; auto.
Qed.

Theorem all_or_nothing sc faults dp ord init :
  wf_shape sc = true -> init_ok init ->
  let s := fst (run sc faults no_env dp ord init) in
  let res := snd (run sc faults no_env dp ord init) in
  (bound (s_store s) = true /\ side_ok sc (s_store s) = true)
  \/ (unbound (s_store s) = true
      /\ reported (s_store s) (s_crashed s) (snd res) || nothing_done (s_log s) = true
      /\ (cleanup_unfaulted s = true -> clean init (s_store s) = true)).
Proof.
  intros Hwf Hok. destruct (reconcile_master faults dp ord sc init Hwf Hok) as (HG & _ & _ & _ & Hcase).
  unfold run, run_with. cbn zeta. destruct HG as ((Ha & _) & _).
  destruct Hcase as [(Hn & Hs) | (Hn & Hr & Hc)].
  - left. unfold bound. rewrite Ha, Hn. auto.
  - right. unfold unbound. rewrite Ha, Hn. split; [reflexivity |]. split; [| exact Hc].
    apply orb_true_iff. exact Hr.
Qed.

Theorem never_elsewhere sc faults dp ord init :
  wf_shape sc = true -> init_ok init ->
  let s := fst (run sc faults no_env dp ord init) in
  Forall (fun n => n = 0 \/ n = 1) (s_hist s) /\ binds (s_log s) <= 1
  /\ existsb is_bind_elsewhere (s_log s) = false.
Proof.
  intros Hwf Hok. destruct (reconcile_master faults dp ord sc init Hwf Hok) as (HG & _).
  unfold run, run_with. cbn zeta. destruct HG as (_ & H1 & H2 & H3 & H4). split; [exact H1 |]. split; [| exact H3].
  rewrite H2. destruct H4 as [-> | ->]; lia.
Qed.

Theorem noop_succeeded sc faults dp ord init b :
  br init = Some b -> b_phase b = BSucceeded ->
  let s := fst (run sc faults no_env dp ord init) in
  s_store s = init /\ length (s_log s) = 1 /\ binds (s_log s) = 0.
Proof.
  intros Hb Hph. unfold run, run_with, reconcile. cbn [exec].
  destruct (step faults no_env dp AGetBR (init_state init)) as [s1 r1] eqn:E.
  pose proof (step_spec _ _ _ _ _ _ E) as (_ & _ & _ & [Hf | Hr]).
  - destruct Hf as ((k0 & ->) & Hst & _ & _ & (o & Ho & Hlog) & _). destruct k0; cbn [exec fst]; rewrite Hst, Hlog;
      (split; [reflexivity |]; split; [reflexivity |]; rewrite binds_cons; destruct Ho; subst; reflexivity).
  - destruct Hr as (_ & _ & _ & Hd & Hlog & _). cbn [is_watch do_call init_state s_store] in Hd. rewrite Hb in Hd.
    injection Hd as Hst <-. rewrite Hph. cbn [exec fst]. rewrite <- Hst, Hlog. auto.
Qed.

Theorem noop_bound sc faults dp ord init :
  self_alive init = true -> p_node (self init) <> 0 ->
  let s := fst (run sc faults no_env dp ord init) in
  bc_frame init (s_store s) /\ binds (s_log s) = 0.
Proof. intros Ha Hn. apply (already_bound faults dp ord sc init Ha Hn). Qed.

Theorem recovery sc faults dp ord dp2 ord2 f init :
  wf_shape sc = true -> attemptable_sc sc -> init_ok init -> node_ok init = true -> SH init ->
  (forall k, dp2 k <> None) ->
  let st1 := s_store (fst (run sc faults no_env dp ord init)) in
  let st2 := s_store (fst (run sc (fun _ => Ok) no_env dp2 ord2 (env_annotate f st1))) in
  bound st2 = true /\ side_ok sc st2 = true.
Proof.
  intros Hwf Hatt Hok Hnode Hsh Hdp.
  destruct (reconcile_master faults dp ord sc init Hwf Hok) as (HG & Hno & Hsh1 & (b1 & Hb1 & Hsucc) & Hcase).
  unfold run, run_with. cbn zeta.
  set (st1 := s_store (fst (exec faults no_env dp ord (reconcile sc bind_result_code false) (init_state init)))) in *.
  destruct HG as ((Ha & Hn0 & Hrs & Hp & Ho & Ht) & _).
  set (init2 := env_annotate f st1).
  destruct Hcase as [(Hn & Hs) | (Hn & _)].
  - (* already bound: the second reconcile only touches the status *)
    assert (Ha2 : self_alive init2 = true) by exact Ha.
    assert (Hn2 : p_node (self init2) <> 0) by (change (p_node (self st1) <> 0); rewrite Hn; discriminate).
    destruct (already_bound (fun _ => Ok) dp2 ord2 sc init2 Ha2 Hn2) as (F & _).
    destruct (bc_frame_fields _ _ F) as (_ & _ & F3 & _). pose proof F as (_ & Fa & _).
    assert (Hn2' : p_node (self init2) = 1) by exact Hn.
    split; [unfold bound; rewrite Fa, Ha2, F3, Hn2'; reflexivity |].
    rewrite (side_ok_bc sc _ _ F). apply side_ok_annotate, Hs.
  - (* unbound: the fault-free attempt goes through *)
    assert (Hok2 : init_ok init2).
    { unfold init_ok, init2. simpl. repeat split; auto.
      - rewrite Forall_forall in *. intros p Hp'. apply in_map_iff in Hp' as (q & <- & Hq).
        fold (annot f q). destruct (annot_fields f q) as (-> & _). auto.
      - exists b1. split; [exact Hb1 |]. intros Hx. specialize (Hsucc Hx). lia. }
    assert (Hlive2 : Live init2) by (apply SH_annotate, Hsh1, Hsh).
    assert (Hnode2 : node_ok init2 = true) by (unfold init2; simpl; congruence).
    destruct (recover_unbound (fun _ => Ok) dp2 ord2 sc init2 Hwf Hatt Hok2 Hnode2 Hlive2 (fun _ => eq_refl) Hdp)
      as (R1 & R2 & R3).
    unfold bound. rewrite R3, R1. auto.
Qed.

(** * Non-vacuity: a concrete multi-fraction request *)
Definition ex_sc : scen := mkScen true [1; 2; 3] None true true false true true.
Definition ex_init : store :=
  mkStore (mkPod 0 false 0 PhPending None [] None None None 1 false) true [] None None (Some (mkBR BPending 0)) true.
Definition ex_dp (k : nat) : option nat := Some k.
Definition ex_ord (_ : nat) : list gid := [].
Definition ex_fail13 (k : nat) : fault := if k =? 13 then Fail EInternal else Ok.   (* the label patch of the second group *)

Lemma ex_nonvacuous :
  wf_shape ex_sc = true /\ attemptable_sc ex_sc /\ init_ok ex_init /\ node_ok ex_init = true /\ SH ex_init
  /\ (let s := fst (run ex_sc (fun _ => Ok) no_env ex_dp ex_ord ex_init) in
      bound (s_store s) = true /\ side_ok ex_sc (s_store s) = true /\ length (s_log s) = 31)
  /\ (let s := fst (run ex_sc ex_fail13 no_env ex_dp ex_ord ex_init) in
      unbound (s_store s) = true /\ reported (s_store s) (s_crashed s) true = true
      /\ cleanup_unfaulted s = true /\ clean ex_init (s_store s) = true
      /\ s_mark s = Some (17, 1)).
Proof.
  split; [reflexivity |]. split; [split; [reflexivity | intros _; split; [reflexivity | discriminate]] |].
  split.
  { unfold init_ok, ex_init. simpl. repeat split; auto. exists (mkBR BPending 0). split; [reflexivity | discriminate]. }
  split; [reflexivity |].
  split; [split; constructor |].
  split; vm_compute; auto 10.
Qed.

(** * Literal readings of two clauses that the code (as it is) does not satisfy *)

(** "unbound => the request is Failed or the binder crashed": false as soon as
    the status patch is itself the failed call (here: the device plugin stays
    silent, so Bind fails without any injected fault, and the status patch -
    call 12 - fails).  The reconcile returns the error, so the request is requeued. *)
Definition ex_sc1 : scen := mkScen true [1] None false true false true true.
Definition ex_silent (_ : nat) : option nat := None.
Definition ex_fail12 (k : nat) : fault := if k =? 12 then Fail EInternal else Ok.

Lemma ex_reported_literal_refuted :
  let s := fst (run ex_sc1 ex_fail12 no_env ex_silent ex_ord ex_init) in
  let res := snd (run ex_sc1 ex_fail12 no_env ex_silent ex_ord ex_init) in
  wf_shape ex_sc1 = true /\ unbound (s_store s) = true /\ s_crashed s = false
  /\ br (s_store s) = Some (mkBR BPending 0) /\ snd res = true.
Proof. vm_compute. auto. Qed.

(** "a request whose pod is already bound changes nothing": the code marks such
    a request Succeeded and writes PodBound=True. *)
Definition ex_bound_init : store :=
  mkStore (mkPod 0 false 1 PhPending None [] None None None 1 false) true [] None None (Some (mkBR BPending 0)) true.

Lemma ex_noop_bound_literal_refuted :
  let s := fst (run ex_sc (fun _ => Ok) no_env ex_dp ex_ord ex_bound_init) in
  br (s_store s) = Some (mkBR BSucceeded 0) /\ p_cond (self (s_store s)) = Some true
  /\ s_store s <> ex_bound_init.
Proof. vm_compute. split; [reflexivity |]. split; [reflexivity |]. discriminate. Qed.

(** when this reconcile's binding call went through (nobody else interfering), the pod is bound with its side objects *)
Theorem bound_of_binds sc faults dp ord init :
  wf_shape sc = true -> init_ok init ->
  let s := fst (run sc faults no_env dp ord init) in
  binds (s_log s) = 1 -> bound (s_store s) = true /\ side_ok sc (s_store s) = true.
Proof.
  intros Hwf Hok. destruct (reconcile_master faults dp ord sc init Hwf Hok) as (HG & _ & _ & _ & Hcase).
  unfold run, run_with. cbn zeta. destruct HG as ((Ha & _) & _ & Hb & _).
  intros H1. destruct Hcase as [(Hn & Hs) | (Hn & _)].
  - unfold bound. rewrite Ha, Hn. auto.
  - rewrite Hb, Hn in H1. discriminate.
Qed.
