(** Proofs for C11, part 2: invariants of the bind attempt, the four theorems.
    (Part 1 - the Hoare logic over [prog], what one API call does to the state,
    and the reservation sync - is Proofs/BinderLogic.v.) *)
Set Default Timeout 60.
From Coq Require Import List Arith Bool PeanoNat Lia.
From KaiV Require Import Model.Binder Model.BinderSpec Proofs.BinderLogic.
Import ListNotations.

(** * The attempt: invariants of Bind and Rollback *)
Definition readonly (c : call) : bool :=
  match c with AGetBR | AGetPod | AGetNode | AGetCM _ | AList _ => true | _ => false end.

Lemma do_call_readonly c ans st : readonly c = true -> fst (do_call c ans st) = st.
Proof.
  destruct c; simpl; intros H; try discriminate; auto;
    repeat match goal with |- context [match ?x with _ => _ end] => destruct x end; reflexivity.
Qed.

Definition names_ok (st : store) : Prop :=
  Forall (fun p => forall g, p_name p = rsv_name g -> p_plain p = Some g) (others st).
(** the consumer is the only non-reservation pod, reservation pods carry their conventional names *)
Definition SH (st : store) : Prop := rsv_only st /\ names_ok st.

Lemma SH_incl st st' : SH st -> incl (others st') (others st) -> SH st'.
Proof.
  intros (H1 & H2) Hi. split; [eapply rsv_only_incl; eauto |].
  unfold names_ok in *. rewrite Forall_forall in *. intros p Hp. apply H2, Hi, Hp.
Qed.

Definition new_rsv (g : gid) (i : option nat) : pod :=
  mkPod (rsv_name g) true 1 PhOther (Some g) [] i None None.

(** ** What each mutating call does when it reaches the API *)
Lemma do_create g ans st st' r :
  do_call (ACreateRsv g) ans st = (st', r) ->
  (has_pod (rsv_name g) (others st) = true /\ st' = st /\ r = RRefused)
  \/ (has_pod (rsv_name g) (others st) = false
      /\ st' = set_others st (others st ++ [new_rsv g None]) /\ r = RName (rsv_name g)).
Proof.
  cbn [do_call]. destruct (has_pod (rsv_name g) (others st)); intros H; injection H as <- <-; auto.
Qed.

Lemma do_watch n g ans st st' r :
  do_call (AWatchRsv n g) ans st = (st', r) ->
  (exists i, ans = Some i /\ has_pod n (others st) = true
             /\ st' = set_others st (upd_pod n (fun p => with_idx p (Some i)) (others st)) /\ r = RIdx i)
  \/ (st' = st /\ r = RRefused /\ (ans = None \/ has_pod n (others st) = false)).
Proof.
  cbn [do_call]. destruct ans as [i |].
  - destruct (has_pod n (others st)) eqn:E; intros H; injection H as <- <-; [left; eauto | right; auto].
  - intros H; injection H as <- <-. right. auto.
Qed.

Lemma do_patch_labels plain multi ans st st' r :
  self_alive st = true ->
  do_call (APatchLabels plain multi) ans st = (st', r) ->
  let p' := with_labels (self st) (match plain with Some g => Some g | None => p_plain (self st) end)
                        (match multi with Some g => add_set g (p_multi (self st)) | None => p_multi (self st) end) in
  st' = set_self st p' /\ r = RPod p'.
Proof. cbn [do_call]. intros ->. intros H; injection H as <- <-. auto. Qed.

Lemma do_remove_labels plain multi ans st st' r :
  self_alive st = true ->
  do_call (ARemoveLabels plain multi) ans st = (st', r) ->
  let p' := with_labels (self st) (if plain then None else p_plain (self st))
                        (filter (fun g => negb (mem_nat g multi)) (p_multi (self st))) in
  st' = set_self st p' /\ r = RPod p'.
Proof. cbn [do_call]. intros ->. intros H; injection H as <- <-. auto. Qed.

Lemma do_patch_recv t ans st st' r :
  self_alive st = true ->
  do_call (APatchRecv t) ans st = (st', r) ->
  st' = set_self st (with_recv (self st) (Some t)) /\ r = RPod (with_recv (self st) (Some t)).
Proof. cbn [do_call]. intros ->. intros H; injection H as <- <-. auto. Qed.

Lemma do_patch_cond b ans st st' r :
  self_alive st = true ->
  do_call (APatchPodCond b) ans st = (st', r) ->
  st' = set_self st (with_cond (self st) (Some b)) /\ r = RPod (with_cond (self st) (Some b)).
Proof. cbn [do_call]. intros ->. intros H; injection H as <- <-. auto. Qed.

Lemma do_bind ans st st' r :
  self_alive st = true ->
  do_call (ABind true) ans st = (st', r) ->
  (p_node (self st) = 0 /\ st' = set_self st (with_node (self st) 1) /\ r = ROk)
  \/ (p_node (self st) <> 0 /\ st' = st /\ r = RRefused).
Proof.
  cbn [do_call]. intros ->. destruct (p_node (self st) =? 0) eqn:E; intros H; injection H as <- <-.
  - left. apply Nat.eqb_eq in E. auto.
  - right. apply Nat.eqb_neq in E. auto.
Qed.

Lemma do_get_cm x ans st st' r :
  do_call (AGetCM x) ans st = (st', r) ->
  st' = st /\ r = match cm_get x st with Some v => RCM v | None => RNotFound end.
Proof. cbn [do_call]. intros H; injection H as <- <-. auto. Qed.

Lemma do_create_cm x ans st st' r :
  x <> CmOther ->
  do_call (ACreateCM x) ans st = (st', r) ->
  (cm_get x st <> None /\ st' = st /\ r = RRefused)
  \/ (cm_get x st = None /\ st' = cm_put x (Some (mkCM true data_empty)) st /\ r = ROk).
Proof.
  cbn [do_call]. intros Hx. destruct (cm_get x st) eqn:E.
  - intros H; injection H as <- <-. left. split; [discriminate | auto].
  - destruct x; try contradiction; intros H; injection H as <- <-; right; auto.
Qed.

Lemma do_delete_cm x ans st st' r :
  do_call (ADeleteCM x) ans st = (st', r) ->
  (st' = cm_put x None st /\ r = ROk) \/ (cm_get x st = None /\ st' = st /\ r = RNotFound).
Proof.
  cbn [do_call]. destruct (cm_get x st) eqn:E; intros H; injection H as <- <-; auto.
Qed.

Lemma do_patch_cm x owner clear sets ans st st' r :
  do_call (APatchCM x owner clear sets) ans st = (st', r) ->
  match cm_get x st with
  | Some v => st' = cm_put x (Some (mkCM (if owner then true else cm_owned v)
                                          (data_apply sets (if clear then data_empty else cm_data v)))) st
              /\ r = ROk
  | None => st' = st /\ r = RNotFound
  end.
Proof.
  cbn [do_call]. destruct (cm_get x st) eqn:E; intros H; injection H as <- <-; auto.
Qed.

Lemma do_delete_br ans st st' r :
  do_call ADeleteBR ans st = (st', r) ->
  (st' = set_br st None /\ r = ROk) \/ (br st = None /\ st' = st /\ r = RNotFound).
Proof. cbn [do_call]. destruct (br st) eqn:E; intros H; injection H as <- <-; auto. Qed.

Lemma do_patch_br ph att ans st st' r :
  do_call (APatchBRStatus ph att) ans st = (st', r) ->
  match br st with
  | Some b => st' = set_br st (Some (mkBR (match ph with Some x => x | None => b_phase b end)
                                          (match att with Some a => a | None => b_attempts b end))) /\ r = ROk
  | None => st' = st /\ r = RNotFound
  end.
Proof. cbn [do_call]. destruct (br st) eqn:E; intros H; injection H as <- <-; auto. Qed.

Section Main.
  Variable faults : nat -> fault.
  Variable dp : nat -> option nat.
  Variable ord : nat -> list gid.
  Variable sc : scen.
  Variable init : store.
  Notation exec := (Binder.exec faults dp ord).
  Notation step := (Binder.step faults dp).

  Ltac api E :=
    cbn [Binder.exec];
    match goal with
    | |- context [Binder.step ?f ?d ?c ?s] =>
        let s1 := fresh "s1" in let r1 := fresh "r1" in
        destruct (Binder.step f d c s) as [s1 r1] eqn:E
    end.

  Ltac apin E sn rn :=
    cbn [Binder.exec];
    match goal with
    | |- context [Binder.step ?f ?d ?c ?s] => destruct (Binder.step f d c s) as [sn rn] eqn:E
    end.

  Definition marks_none (s : state) : Prop := s_mark s = None /\ s_mark_end s = None.

  (** labels the server has and the attempt's starting point did not are known to the in-memory pod *)
  Definition J (st : store) (m : mem) : Prop :=
    (forall g, In g (p_multi (self st)) -> In g (p_multi (self init)) \/ In g (m_multi m))
    /\ (p_plain (self st) = p_plain (self init) \/ opt_is_some (m_plain m) = true).

  (** config maps that were not there before can only exist for a shared-GPU request with the annotation *)
  Definition K (st : store) : Prop :=
    sc_fraction sc && sc_cmann sc = true
    \/ ((opt_is_some (cm_cap st) = true -> opt_is_some (cm_cap init) = true)
        /\ (opt_is_some (cm_evar st) = true -> opt_is_some (cm_evar init) = true)).

  Definition INV (s : state) : Prop :=
    G s /\ marks_none s /\ J (s_store s) (s_mem s) /\ K (s_store s)
    /\ p_node (self (s_store s)) = 0 /\ br (s_store s) = br init /\ node_ok (s_store s) = node_ok init
    /\ (SH init -> SH (s_store s)).

  (** the in-memory pod's labels are the server's *)
  Definition M (s : state) : Prop :=
    m_plain (s_mem s) = p_plain (self (s_store s)) /\ m_multi (s_mem s) = p_multi (self (s_store s)).

  Lemma M_J st m : m_plain m = p_plain (self st) -> m_multi m = p_multi (self st) ->
    (forall g, In g (p_multi (self st)) -> In g (p_multi (self init)) \/ In g (m_multi m)) /\
    (p_plain (self st) = p_plain (self init) \/ opt_is_some (m_plain m) = true \/ p_plain (self st) = None).
  Proof.
    intros H1 H2. split.
    - intros g Hg. right. rewrite H2. exact Hg.
    - rewrite H1. destruct (p_plain (self st)); auto.
  Qed.

  Lemma INV_only_others s s' : INV s -> G s' -> only_others s s' -> INV s'.
  Proof.
    intros (HG & (Hk & Hke) & HJ & HK & Hn & Hbr & Hno & Hsh) HG'
           (O1 & O2 & O3 & O4 & O5 & O6 & O7 & O8 & O9 & O10 & _).
    unfold INV. split; [exact HG' |].
    split; [unfold marks_none; rewrite O8, O9; auto |].
    split; [unfold J; rewrite O1, O7; exact HJ |].
    split; [unfold K; rewrite O3, O4; exact HK |].
    split; [rewrite O1; exact Hn |]. split; [congruence |]. split; [congruence |].
    intros Hi. eapply SH_incl; [apply Hsh, Hi | exact O10].
  Qed.

  (** one API call that is not the binding call: INV survives if the reached
      case re-establishes the store-dependent parts *)
  Lemma INV_step c s s1 r1 :
    INV s -> not_bind c -> step c s = (s1, r1) ->
    (reached dp c s s1 r1 ->
       base (s_store s1) /\ p_node (self (s_store s1)) = 0 /\ J (s_store s1) (s_mem s) /\ K (s_store s1)
       /\ br (s_store s1) = br init /\ node_ok (s_store s1) = node_ok init /\ (SH (s_store s) -> SH (s_store s1))) ->
    INV s1.
  Proof.
    intros (HG & (Hk & Hke) & HJ & HK & Hn & Hbr & Hno & Hsh) Hnb E Hre.
    pose proof (step_spec _ _ _ _ _ _ E) as (Hm & Hmk & Hmke & [Hf | Hr]).
    - assert (Hc : c <> ABind false) by (intros ->; exact Hnb).
      pose proof (G_faulted _ _ _ _ HG Hc Hf) as HG1.
      destruct Hf as (_ & Hst & _).
      unfold INV. split; [exact HG1 |].
      split; [unfold marks_none; rewrite Hmk, Hmke; auto |].
      rewrite Hm, Hst. auto 10.
    - destruct (Hre Hr) as (Hb1 & Hn1 & HJ1 & HK1 & Hbr1 & Hno1 & Hsh1).
      assert (HG1 : G s1) by (eapply G_reached; eauto; congruence).
      unfold INV. split; [exact HG1 |].
      split; [unfold marks_none; rewrite Hmk, Hmke; auto |].
      rewrite Hm. auto 10.
  Qed.

  Lemma INV_step_ro c s s1 r1 :
    INV s -> readonly c = true -> step c s = (s1, r1) -> INV s1 /\ s_mem s1 = s_mem s.
  Proof.
    intros HI Hro E. split; [| apply (step_spec _ _ _ _ _ _ E)].
    eapply INV_step; eauto.
    - destruct c; try discriminate; exact I.
    - intros (_ & _ & _ & Hd & _).
      pose proof (do_call_readonly c (if is_watch c then dp (s_watches s) else None) (s_store s) Hro) as Hx.
      rewrite Hd in Hx. simpl in Hx. rewrite Hx.
      destruct HI as (HG & _ & HJ & HK & Hn & Hbr & Hno & _).
      split; [apply HG |]. auto 10.
  Qed.

  Lemma INV_set_mem s m :
    INV s -> J (s_store s) m -> INV (set_mem s m).
  Proof.
    intros (HG & Hmk & HJ & HK & Hn & Hbr & Hno & Hsh) HJ'.
    unfold INV. split; [eapply G_ext; [| | | exact HG]; reflexivity |].
    split; [exact Hmk |]. simpl. auto 10.
  Qed.

  (** ** Reservation of one GPU group *)

  Lemma has_pod_app n a b : has_pod n (a ++ b) = has_pod n a || has_pod n b.
  Proof. unfold has_pod. apply existsb_app. Qed.

  Lemma upd_pod_fresh n f o p :
    has_pod n o = false -> p_name p = n -> upd_pod n f (o ++ [p]) = o ++ [f p].
  Proof.
    intros Hn Hp. unfold upd_pod. rewrite map_app. simpl. rewrite Hp, Nat.eqb_refl. f_equal.
    induction o as [| q o IH]; [reflexivity |]. simpl in *. apply orb_false_iff in Hn as (Hq & Ho).
    rewrite Hq. f_equal. apply IH, Ho.
  Qed.

  Lemma SH_add st g i o' :
    o' = others st ++ [new_rsv g i] -> SH st -> SH (set_others st o').
  Proof.
    intros -> (H1 & H2). split.
    - unfold rsv_only in *. simpl. apply Forall_app. split; [exact H1 | constructor; [reflexivity | constructor]].
    - unfold names_ok in *. simpl. apply Forall_app. split; [exact H2 |]. constructor; [| constructor].
      intros g' Hg'. simpl in Hg'. unfold rsv_name in Hg'. simpl. f_equal. lia.
  Qed.

  Lemma base_add st g i o' :
    o' = others st ++ [new_rsv g i] -> base st -> base (set_others st o').
  Proof.
    intros -> (Ha & Hn & Hr & Hp & Ho). unfold base. simpl. repeat split; auto.
    apply Forall_app. split; [exact Ho |]. constructor; [| constructor]. simpl. unfold rsv_name. lia.
  Qed.

  (** a step that leaves the store and the in-memory pod alone *)
  Lemma ro_step c s s1 r1 :
    INV s -> readonly c = true -> step c s = (s1, r1) ->
    INV s1 /\ s_store s1 = s_store s /\ s_mem s1 = s_mem s /\ s_nfail s <= s_nfail s1
    /\ (s_nfail s1 = s_nfail s ->
        r1 = snd (do_call c None (s_store s)) /\ s_crashed s1 = false).
  Proof.
    intros HI Hro E. destruct (INV_step_ro _ _ _ _ HI Hro E) as (HI1 & Hm).
    pose proof (step_spec _ _ _ _ _ _ E) as (_ & _ & _ & [Hf | Hr]).
    - destruct Hf as (_ & Hst & Hnf & _).
      split; [exact HI1 |]. split; [exact Hst |]. split; [exact Hm |]. split; [lia |]. intros; exfalso; lia.
    - destruct Hr as (_ & Hc' & Hnf & Hd & _).
      assert (Hw : is_watch c = false) by (destruct c; try discriminate; reflexivity).
      rewrite Hw in Hd.
      pose proof (do_call_readonly c None (s_store s) Hro) as Hx. rewrite Hd in *. simpl in Hx.
      split; [exact HI1 |]. split; [exact Hx |]. split; [exact Hm |]. split; [lia |]. intros _. simpl. auto.
  Qed.

  Definition dp_ok : Prop := forall k, dp k <> None.

  (** nothing but [others] (and the ghost fields) changed *)
  Definition frame_oth (s s' : state) : Prop :=
    s_mem s' = s_mem s /\ self (s_store s') = self (s_store s)
    /\ self_alive (s_store s') = self_alive (s_store s)
    /\ cm_cap (s_store s') = cm_cap (s_store s) /\ cm_evar (s_store s') = cm_evar (s_store s)
    /\ br (s_store s') = br (s_store s) /\ node_ok (s_store s') = node_ok (s_store s)
    /\ s_nfail s <= s_nfail s'.

  Lemma frame_oth_refl s : frame_oth s s.
  Proof. unfold frame_oth. repeat split; auto. Qed.

  Lemma frame_oth_trans a b c : frame_oth a b -> frame_oth b c -> frame_oth a c.
  Proof.
    intros (A1 & A2 & A3 & A4 & A5 & A6 & A7 & A8) (B1 & B2 & B3 & B4 & B5 & B6 & B7 & B8).
    unfold frame_oth. repeat split; try congruence. lia.
  Qed.

  Lemma only_others_frame s s' : only_others s s' -> frame_oth s s'.
  Proof.
    intros (O1 & O2 & O3 & O4 & O5 & O6 & O7 & _ & _ & _ & O11 & _). unfold frame_oth. repeat split; auto.
  Qed.

  (** a call that changes at most [others] *)
  Lemma step_others c s s1 r1 :
    INV s -> not_bind c -> step c s = (s1, r1) ->
    (reached dp c s s1 r1 ->
       exists o', s_store s1 = set_others (s_store s) o' /\ Forall (fun p => p_name p <> 0) o'
                  /\ (SH (s_store s) -> SH (s_store s1))) ->
    INV s1 /\ frame_oth s s1.
  Proof.
    intros HI Hnb E Hre.
    pose proof (step_spec _ _ _ _ _ _ E) as (Hm & _ & _ & Hcase).
    assert (HI1 : INV s1).
    { eapply INV_step; eauto. intros Hr. destruct (Hre Hr) as (o' & Hst & Ho & Hsh).
      destruct HI as (HG & _ & HJ & HK & Hn & Hbr & Hno & _). rewrite Hst in Hsh |- *.
      destruct HG as ((Ha & Hn0 & Hrs & Hp & _) & _).
      split; [unfold base; simpl; auto 10 |].
      split; [exact Hn |]. split; [exact HJ |]. split; [exact HK |]. split; [exact Hbr |].
      split; [exact Hno | exact Hsh]. }
    split; [exact HI1 |]. destruct Hcase as [Hf | Hr].
    - destruct Hf as (_ & Hst & Hnf & _). unfold frame_oth. rewrite Hst. repeat split; auto. lia.
    - destruct (Hre Hr) as (o' & Hst & _). destruct Hr as (_ & _ & Hnf & _).
      unfold frame_oth. rewrite Hst. simpl. repeat split; auto. lia.
  Qed.

  Lemma step_nfail c s s1 r1 :
    step c s = (s1, r1) -> s_nfail s <= s_nfail s1 /\ (r1 = RFault -> s_nfail s < s_nfail s1)
    /\ (s_nfail s1 = s_nfail s -> reached dp c s s1 r1).
  Proof.
    intros E. pose proof (step_spec _ _ _ _ _ _ E) as (_ & _ & _ & [Hf | Hr]).
    - destruct Hf as (Hr & _ & Hnf & _). split; [lia |]. split; intros; [lia | exfalso; lia].
    - pose proof Hr as (_ & _ & Hnf & Hd & _). split; [lia |]. split; [| intros _; exact Hr].
      intros ->. exfalso.
      destruct c; cbn [do_call] in Hd;
        repeat match type of Hd with
               | context [match ?x with _ => _ end] => destruct x
               | context [if ?x then _ else _] => destruct x
               end; try discriminate.
  Qed.

  Lemma INV_frame_G s s' : INV s -> frame_oth s s' -> s_nfail s <= s_nfail s'.
  Proof. intros _ H. apply H. Qed.

  (** the cleanup after a failed wait *)
  Lemma cleanup_delete g s :
    INV s ->
    let s' := fst (exec (Api (ADeletePod (rsv_name g) (PRsv g)) (fun _ => Ret (@None nat))) s) in
    INV s' /\ frame_oth s s'
    /\ snd (exec (Api (ADeletePod (rsv_name g) (PRsv g)) (fun _ => Ret (@None nat))) s) = None.
  Proof.
    intros HI. api E. cbn [Binder.exec fst snd].
    assert (Hnz : rsv_name g <> 0) by (unfold rsv_name; lia).
    destruct (delete_other faults dp ord _ _ _ _ _ (proj1 HI) Hnz E) as (HG1 & Hoo & _).
    split; [eapply INV_only_others; eauto |]. split; [apply only_others_frame, Hoo | reflexivity].
  Qed.

  Lemma create_and_wait_spec g s :
    INV s ->
    let s' := fst (exec (create_and_wait g) s) in
    let r := snd (exec (create_and_wait g) s) in
    INV s' /\ frame_oth s s'
    /\ (forall i, r = Some i ->
          others (s_store s') = others (s_store s) ++ [new_rsv g (Some i)])
    /\ (s_nfail s' = s_nfail s -> dp_ok -> has_pod (rsv_name g) (others (s_store s)) = false ->
        exists i, r = Some i).
  Proof.
    intros HI. unfold create_and_wait. apin E0 s1 r1.
    destruct (ro_step (AList LScaling) _ _ _ HI eq_refl E0) as (HI1 & Hst1 & Hm1 & Hn1 & _).
    assert (F1 : frame_oth s s1) by (unfold frame_oth; rewrite Hst1, Hm1; repeat split; auto).
    clear E0. apin E1 s0 r0.
    (* create *)
    destruct (step_others (ACreateRsv g) _ _ _ HI1 I E1) as (HI2 & F2).
    { intros (_ & _ & _ & Hd & _). cbn [is_watch] in Hd.
      destruct (do_create _ _ _ _ _ Hd) as [(_ & Hst & _) | (_ & Hst & _)].
      - exists (others (s_store s1)). rewrite Hst. split; [destruct (s_store s1); reflexivity |].
        split; [apply HI1 | auto].
      - eexists. split; [exact Hst |]. split.
        + apply Forall_app. split; [apply HI1 |]. constructor; [| constructor]. simpl. unfold rsv_name. lia.
        + rewrite Hst. apply (SH_add _ g None). reflexivity. }
    pose proof (frame_oth_trans _ _ _ F1 F2) as F12.
    destruct (step_nfail _ _ _ _ E1) as (Hle1 & Hflt1 & Hrch1).
    destruct r0; try (cbn [Binder.exec fst snd]; split; [exact HI2 |]; split; [exact F12 |];
                      split; [discriminate |]; intros Hnf _ Hhp; exfalso;
                      assert (Hx : s_nfail s0 = s_nfail s1) by (destruct F12 as (_&_&_&_&_&_&_&?); lia);
                      destruct (Hrch1 Hx) as (_ & _ & _ & Hd & _); cbn [is_watch] in Hd;
                      destruct (do_create _ _ _ _ _ Hd) as [(Hh & _ & Hr) | (_ & _ & Hr)];
                      [rewrite Hst1 in Hh; congruence | discriminate]).
    (* RName: the pod was created *)
    assert (Hcr : has_pod (rsv_name g) (others (s_store s)) = false
                  /\ s_store s0 = set_others (s_store s) (others (s_store s) ++ [new_rsv g None]) /\ n = rsv_name g).
    { pose proof (step_spec _ _ _ _ _ _ E1) as (_ & _ & _ & [Hf | Hr]).
      - destruct Hf as (Hx & _). discriminate.
      - destruct Hr as (_ & _ & _ & Hd & _). cbn [is_watch] in Hd.
        destruct (do_create _ _ _ _ _ Hd) as [(_ & _ & Hr) | (Hh & Hst & Hr)]; [discriminate |].
        rewrite Hst1 in Hh, Hst. injection Hr as ->. auto. }
    destruct Hcr as (Hhp & Hst2 & ->).
    apin E2 s2 r2.
    destruct (step_others (AWatchRsv (rsv_name g) g) _ _ _ HI2 I E2) as (HI3 & F3).
    { intros (_ & _ & _ & Hd & _). cbn [is_watch] in Hd.
      destruct (do_watch _ _ _ _ _ _ Hd) as [(i & _ & _ & Hst & _) | (Hst & _)].
      - eexists. split; [exact Hst |]. rewrite Hst2. cbn [set_others others].
        rewrite (upd_pod_fresh (rsv_name g) _ (others (s_store s)) (new_rsv g None) Hhp eq_refl). split.
        + apply Forall_app. split; [apply HI |]. constructor; [| constructor].
          simpl. unfold rsv_name. lia.
        + intros Hsh.
          assert (Hsh1 : SH (s_store s)).
          { eapply SH_incl; [exact Hsh |]. simpl. apply incl_appl, incl_refl. }
          rewrite Hst, Hst2. cbn [set_others others].
          rewrite (upd_pod_fresh (rsv_name g) _ (others (s_store s)) (new_rsv g None) Hhp eq_refl).
          exact (SH_add (s_store s) g (Some i) _ eq_refl Hsh1).
      - exists (others (s_store s0)). rewrite Hst. split; [destruct (s_store s0); reflexivity |].
        split; [apply HI2 | auto]. }
    pose proof (frame_oth_trans _ _ _ F12 F3) as F123.
    destruct (step_nfail _ _ _ _ E2) as (Hle2 & Hflt2 & Hrch2).
    assert (Hfail : forall r2', (forall i, r2' <> RIdx i) ->
              (s_nfail s2 = s_nfail s -> dp_ok -> r2 = r2' -> False) ->
              let k := fun r2 : resp => match r2 with
                                        | RIdx i => Ret (Some i)
                                        | _ => Api (ADeletePod (rsv_name g) (PRsv g)) (fun _ : resp => Ret None)
                                        end in
              r2 = r2' ->
              INV (fst (exec (k r2) s2)) /\ frame_oth s (fst (exec (k r2) s2))
              /\ (forall i, snd (exec (k r2) s2) = Some i ->
                    others (s_store (fst (exec (k r2) s2))) = others (s_store s) ++ [new_rsv g (Some i)])
              /\ (s_nfail (fst (exec (k r2) s2)) = s_nfail s -> dp_ok ->
                  has_pod (rsv_name g) (others (s_store s)) = false -> exists i, snd (exec (k r2) s2) = Some i)).
    { intros r2' Hni Hlive k ->. destruct (cleanup_delete g s2 HI3) as (D1 & D2 & D3).
      assert (Hk : k r2' = Api (ADeletePod (rsv_name g) (PRsv g)) (fun _ : resp => Ret None)).
      { unfold k. destruct r2'; try reflexivity. exfalso. eapply Hni. reflexivity. }
      rewrite Hk. split; [exact D1 |]. split; [eapply frame_oth_trans; eauto |].
      split; [intros i Hi; rewrite D3 in Hi; discriminate |].
      intros Hnf Hdp _. exfalso. apply Hlive; auto.
      destruct D2 as (_&_&_&_&_&_&_&Hle3). destruct F123 as (_&_&_&_&_&_&_&Hle4). lia. }
    assert (Hlive : forall r2', (forall i, r2' <> RIdx i) -> s_nfail s2 = s_nfail s -> dp_ok -> r2 = r2' -> False).
    { intros r2' Hni Hnf Hdp ->.
      assert (Hx : s_nfail s2 = s_nfail s0) by (destruct F12 as (_&_&_&_&_&_&_&?); lia).
      destruct (Hrch2 Hx) as (_ & _ & _ & Hd & _). cbn [is_watch] in Hd.
      destruct (do_watch _ _ _ _ _ _ Hd) as [(i & _ & _ & _ & Hr) | (_ & _ & [Hnone | Hnp])].
      - eapply Hni. exact Hr.
      - eapply Hdp. exact Hnone.
      - rewrite Hst2 in Hnp. cbn [set_others others] in Hnp. rewrite has_pod_app in Hnp.
        simpl in Hnp. rewrite Nat.eqb_refl, orb_true_r in Hnp. discriminate. }
    destruct r2; try (apply (Hfail _ ltac:(discriminate) (Hlive _ ltac:(discriminate)) eq_refl)).
    (* RIdx: the device plugin answered *)
    cbn [Binder.exec fst snd].
    assert (Ho3 : others (s_store s2) = others (s_store s) ++ [new_rsv g (Some i)]).
    { pose proof (step_spec _ _ _ _ _ _ E2) as (_ & _ & _ & [Hf | Hr]).
      - destruct Hf as (Hx & _). discriminate.
      - destruct Hr as (_ & _ & _ & Hd & _). cbn [is_watch] in Hd.
        destruct (do_watch _ _ _ _ _ _ Hd) as [(i' & _ & _ & Hst & Hr) | (_ & Hr & _)]; [| discriminate].
        injection Hr as <-. rewrite Hst, Hst2. cbn [set_others others].
        apply (upd_pod_fresh (rsv_name g) _ (others (s_store s)) (new_rsv g None) Hhp eq_refl). }
    split; [exact HI3 |]. split; [exact F123 |].
    split; [intros i' Hi'; injection Hi' as <-; exact Ho3 |].
    intros _ _ _. eauto.
  Qed.
End Main.
