(** Proofs for C11, part 2: invariants of the bind attempt, the four theorems.
    (Part 1 - the Hoare logic over [prog], what one API call does to the state,
    and the reservation sync - is Proofs/BinderLogic.v.) *)
Set Default Timeout 60.
From Coq Require Import List Arith Bool PeanoNat Lia.
From KaiV Require Import Model.Binder Model.BinderSpec Proofs.BinderLogic.
Import ListNotations.

(** * The attempt: invariants of Bind and Rollback *)
Definition readonly (c : call) : bool :=
  match c with AGetBR | AGetPod | AGetNode | AGetCM _ | AList _ => true | _ => false end.

Lemma do_call_readonly c ans st : readonly c = true -> fst (do_call c ans st) = st.
Proof.
  destruct c; simpl; intros H; try discriminate; auto;
    repeat match goal with |- context [match ?x with _ => _ end] => destruct x end; reflexivity.
Qed.

Definition names_ok (st : store) : Prop :=
  Forall (fun p => forall g, p_name p = rsv_name g -> p_plain p = Some g) (others st).
(** the consumer is the only non-reservation pod, reservation pods carry their conventional names *)
Definition SH (st : store) : Prop := rsv_only st /\ names_ok st.

Lemma SH_incl st st' : SH st -> incl (others st') (others st) -> SH st'.
Proof.
  intros (H1 & H2) Hi. split; [eapply rsv_only_incl; eauto |].
  unfold names_ok in *. rewrite Forall_forall in *. intros p Hp. apply H2, Hi, Hp.
Qed.

Definition new_rsv (g : gid) (i : option nat) : pod :=
  mkPod (rsv_name g) true 1 PhOther (Some g) [] i None None.

(** ** What each mutating call does when it reaches the API *)
Lemma do_create g ans st st' r :
  do_call (ACreateRsv g) ans st = (st', r) ->
  (has_pod (rsv_name g) (others st) = true /\ st' = st /\ r = RRefused)
  \/ (has_pod (rsv_name g) (others st) = false
      /\ st' = set_others st (others st ++ [new_rsv g None]) /\ r = RName (rsv_name g)).
Proof.
  cbn [do_call]. destruct (has_pod (rsv_name g) (others st)); intros H; injection H as <- <-; auto.
Qed.

Lemma do_watch n g ans st st' r :
  do_call (AWatchRsv n g) ans st = (st', r) ->
  (exists i, ans = Some i /\ has_pod n (others st) = true
             /\ st' = set_others st (upd_pod n (fun p => with_idx p (Some i)) (others st)) /\ r = RIdx i)
  \/ (st' = st /\ r = RRefused /\ (ans = None \/ has_pod n (others st) = false)).
Proof.
  cbn [do_call]. destruct ans as [i |].
  - destruct (has_pod n (others st)) eqn:E; intros H; injection H as <- <-; [left; eauto | right; auto].
  - intros H; injection H as <- <-. right. auto.
Qed.

Lemma do_patch_labels plain multi ans st st' r :
  self_alive st = true ->
  do_call (APatchLabels plain multi) ans st = (st', r) ->
  let p' := with_labels (self st) (match plain with Some g => Some g | None => p_plain (self st) end)
                        (match multi with Some g => add_set g (p_multi (self st)) | None => p_multi (self st) end) in
  st' = set_self st p' /\ r = RPod p'.
Proof. cbn [do_call]. intros ->. intros H; injection H as <- <-. auto. Qed.

Lemma do_remove_labels plain multi ans st st' r :
  self_alive st = true ->
  do_call (ARemoveLabels plain multi) ans st = (st', r) ->
  let p' := with_labels (self st) (if plain then None else p_plain (self st))
                        (filter (fun g => negb (mem_nat g multi)) (p_multi (self st))) in
  st' = set_self st p' /\ r = RPod p'.
Proof. cbn [do_call]. intros ->. intros H; injection H as <- <-. auto. Qed.

Lemma do_patch_recv t ans st st' r :
  self_alive st = true ->
  do_call (APatchRecv t) ans st = (st', r) ->
  st' = set_self st (with_recv (self st) (Some t)) /\ r = RPod (with_recv (self st) (Some t)).
Proof. cbn [do_call]. intros ->. intros H; injection H as <- <-. auto. Qed.

Lemma do_patch_cond b ans st st' r :
  self_alive st = true ->
  do_call (APatchPodCond b) ans st = (st', r) ->
  st' = set_self st (with_cond (self st) (Some b)) /\ r = RPod (with_cond (self st) (Some b)).
Proof. cbn [do_call]. intros ->. intros H; injection H as <- <-. auto. Qed.

Lemma do_bind ans st st' r :
  self_alive st = true ->
  do_call (ABind true) ans st = (st', r) ->
  (p_node (self st) = 0 /\ st' = set_self st (with_node (self st) 1) /\ r = ROk)
  \/ (p_node (self st) <> 0 /\ st' = st /\ r = RRefused).
Proof.
  cbn [do_call]. intros ->. destruct (p_node (self st) =? 0) eqn:E; intros H; injection H as <- <-.
  - left. apply Nat.eqb_eq in E. auto.
  - right. apply Nat.eqb_neq in E. auto.
Qed.

Lemma do_get_cm x ans st st' r :
  do_call (AGetCM x) ans st = (st', r) ->
  st' = st /\ r = match cm_get x st with Some v => RCM v | None => RNotFound end.
Proof. cbn [do_call]. intros H; injection H as <- <-. auto. Qed.

Lemma do_create_cm x ans st st' r :
  x <> CmOther ->
  do_call (ACreateCM x) ans st = (st', r) ->
  (cm_get x st <> None /\ st' = st /\ r = RRefused)
  \/ (cm_get x st = None /\ st' = cm_put x (Some (mkCM true data_empty)) st /\ r = ROk).
Proof.
  cbn [do_call]. intros Hx. destruct (cm_get x st) eqn:E.
  - intros H; injection H as <- <-. left. split; [discriminate | auto].
  - destruct x; try contradiction; intros H; injection H as <- <-; right; auto.
Qed.

Lemma do_delete_cm x ans st st' r :
  do_call (ADeleteCM x) ans st = (st', r) ->
  (st' = cm_put x None st /\ r = ROk) \/ (cm_get x st = None /\ st' = st /\ r = RNotFound).
Proof.
  cbn [do_call]. destruct (cm_get x st) eqn:E; intros H; injection H as <- <-; auto.
Qed.

Lemma do_patch_cm x owner clear sets ans st st' r :
  do_call (APatchCM x owner clear sets) ans st = (st', r) ->
  match cm_get x st with
  | Some v => st' = cm_put x (Some (mkCM (if owner then true else cm_owned v)
                                          (data_apply sets (if clear then data_empty else cm_data v)))) st
              /\ r = ROk
  | None => st' = st /\ r = RNotFound
  end.
Proof.
  cbn [do_call]. destruct (cm_get x st) eqn:E; intros H; injection H as <- <-; auto.
Qed.

Lemma do_delete_br ans st st' r :
  do_call ADeleteBR ans st = (st', r) ->
  (st' = set_br st None /\ r = ROk) \/ (br st = None /\ st' = st /\ r = RNotFound).
Proof. cbn [do_call]. destruct (br st) eqn:E; intros H; injection H as <- <-; auto. Qed.

Lemma do_patch_br ph att ans st st' r :
  do_call (APatchBRStatus ph att) ans st = (st', r) ->
  match br st with
  | Some b => st' = set_br st (Some (mkBR (match ph with Some x => x | None => b_phase b end)
                                          (match att with Some a => a | None => b_attempts b end))) /\ r = ROk
  | None => st' = st /\ r = RNotFound
  end.
Proof. cbn [do_call]. destruct (br st) eqn:E; intros H; injection H as <- <-; auto. Qed.

Section Main.
  Variable faults : nat -> fault.
  Variable dp : nat -> option nat.
  Variable ord : nat -> list gid.
  Variable sc : scen.
  Variable init : store.
  Variable br0 : option brst.      (* the request's status object while the attempt runs *)
  Notation exec := (Binder.exec faults dp ord).
  Notation step := (Binder.step faults dp).

  Ltac api E :=
    cbn [Binder.exec];
    match goal with
    | |- context [Binder.step ?f ?d ?c ?s] =>
        let s1 := fresh "s1" in let r1 := fresh "r1" in
        destruct (Binder.step f d c s) as [s1 r1] eqn:E
    end.

  Ltac apin E sn rn :=
    cbn [Binder.exec];
    match goal with
    | |- context [Binder.step ?f ?d ?c ?s] => destruct (Binder.step f d c s) as [sn rn] eqn:E
    end.

  Definition marks_none (s : state) : Prop := s_mark s = None /\ s_mark_end s = None.

  (** labels the server has and the attempt's starting point did not are known to the in-memory pod *)
  Definition J (st : store) (m : mem) : Prop :=
    (forall g, In g (p_multi (self st)) -> In g (p_multi (self init)) \/ In g (m_multi m))
    /\ (forall g, p_plain (self st) = Some g -> p_plain (self init) = Some g \/ opt_is_some (m_plain m) = true).

  (** config maps that were not there before can only exist for a shared-GPU request with the annotation *)
  Definition K (st : store) : Prop :=
    sc_fraction sc && sc_cmann sc = true
    \/ ((opt_is_some (cm_cap st) = true -> opt_is_some (cm_cap init) = true)
        /\ (opt_is_some (cm_evar st) = true -> opt_is_some (cm_evar init) = true)).

  Definition INV (s : state) : Prop :=
    G s /\ marks_none s /\ J (s_store s) (s_mem s) /\ K (s_store s)
    /\ p_node (self (s_store s)) = 0 /\ br (s_store s) = br0 /\ node_ok (s_store s) = node_ok init
    /\ (SH init -> SH (s_store s)).

  (** the in-memory pod's labels are the server's *)
  Definition M (s : state) : Prop :=
    m_plain (s_mem s) = p_plain (self (s_store s)) /\ m_multi (s_mem s) = p_multi (self (s_store s)).

  Lemma INV_only_others s s' : INV s -> G s' -> only_others s s' -> INV s'.
  Proof.
    intros (HG & (Hk & Hke) & HJ & HK & Hn & Hbr & Hno & Hsh) HG'
           (O1 & O2 & O3 & O4 & O5 & O6 & O7 & O8 & O9 & O10 & _).
    unfold INV. split; [exact HG' |].
    split; [unfold marks_none; rewrite O8, O9; auto |].
    split; [unfold J; rewrite O1, O7; exact HJ |].
    split; [unfold K; rewrite O3, O4; exact HK |].
    split; [rewrite O1; exact Hn |]. split; [congruence |]. split; [congruence |].
    intros Hi. eapply SH_incl; [apply Hsh, Hi | exact O10].
  Qed.

  (** one API call that is not the binding call: INV survives if the reached
      case re-establishes the store-dependent parts *)
  Lemma INV_step c s s1 r1 :
    INV s -> not_bind c -> step c s = (s1, r1) ->
    (reached dp c s s1 r1 ->
       base (s_store s1) /\ p_node (self (s_store s1)) = 0 /\ J (s_store s1) (s_mem s) /\ K (s_store s1)
       /\ br (s_store s1) = br0 /\ node_ok (s_store s1) = node_ok init /\ (SH (s_store s) -> SH (s_store s1))) ->
    INV s1.
  Proof.
    intros (HG & (Hk & Hke) & HJ & HK & Hn & Hbr & Hno & Hsh) Hnb E Hre.
    pose proof (step_spec _ _ _ _ _ _ E) as (Hm & Hmk & Hmke & [Hf | Hr]).
    - assert (Hc : c <> ABind false) by (intros ->; exact Hnb).
      pose proof (G_faulted _ _ _ _ HG Hc Hf) as HG1.
      destruct Hf as (_ & Hst & _).
      unfold INV. split; [exact HG1 |].
      split; [unfold marks_none; rewrite Hmk, Hmke; auto |].
      rewrite Hm, Hst. auto 10.
    - destruct (Hre Hr) as (Hb1 & Hn1 & HJ1 & HK1 & Hbr1 & Hno1 & Hsh1).
      assert (HG1 : G s1) by (eapply G_reached; eauto; congruence).
      unfold INV. split; [exact HG1 |].
      split; [unfold marks_none; rewrite Hmk, Hmke; auto |].
      rewrite Hm. auto 10.
  Qed.

  Lemma INV_step_ro c s s1 r1 :
    INV s -> readonly c = true -> step c s = (s1, r1) -> INV s1 /\ s_mem s1 = s_mem s.
  Proof.
    intros HI Hro E. split; [| apply (step_spec _ _ _ _ _ _ E)].
    eapply INV_step; eauto.
    - destruct c; try discriminate; exact I.
    - intros (_ & _ & _ & Hd & _).
      pose proof (do_call_readonly c (if is_watch c then dp (s_watches s) else None) (s_store s) Hro) as Hx.
      rewrite Hd in Hx. simpl in Hx. rewrite Hx.
      destruct HI as (HG & _ & HJ & HK & Hn & Hbr & Hno & _).
      split; [apply HG |]. auto 10.
  Qed.

  Lemma INV_set_mem s m :
    INV s -> J (s_store s) m -> INV (set_mem s m).
  Proof.
    intros (HG & Hmk & HJ & HK & Hn & Hbr & Hno & Hsh) HJ'.
    unfold INV. split; [eapply G_ext; [| | | exact HG]; reflexivity |].
    split; [exact Hmk |]. simpl. auto 10.
  Qed.

  (** ** Reservation of one GPU group *)

  Lemma has_pod_app n a b : has_pod n (a ++ b) = has_pod n a || has_pod n b.
  Proof. unfold has_pod. apply existsb_app. Qed.

  Lemma upd_pod_fresh n f o p :
    has_pod n o = false -> p_name p = n -> upd_pod n f (o ++ [p]) = o ++ [f p].
  Proof.
    intros Hn Hp. unfold upd_pod. rewrite map_app. simpl. rewrite Hp, Nat.eqb_refl. f_equal.
    induction o as [| q o IH]; [reflexivity |]. simpl in *. apply orb_false_iff in Hn as (Hq & Ho).
    rewrite Hq. f_equal. apply IH, Ho.
  Qed.

  Lemma SH_add st g i o' :
    o' = others st ++ [new_rsv g i] -> SH st -> SH (set_others st o').
  Proof.
    intros -> (H1 & H2). split.
    - unfold rsv_only in *. simpl. apply Forall_app. split; [exact H1 | constructor; [reflexivity | constructor]].
    - unfold names_ok in *. simpl. apply Forall_app. split; [exact H2 |]. constructor; [| constructor].
      intros g' Hg'. simpl in Hg'. unfold rsv_name in Hg'. simpl. f_equal. lia.
  Qed.

  Lemma base_add st g i o' :
    o' = others st ++ [new_rsv g i] -> base st -> base (set_others st o').
  Proof.
    intros -> (Ha & Hn & Hr & Hp & Ho). unfold base. simpl. repeat split; auto.
    apply Forall_app. split; [exact Ho |]. constructor; [| constructor]. simpl. unfold rsv_name. lia.
  Qed.

  (** a step that leaves the store and the in-memory pod alone *)
  Lemma ro_step c s s1 r1 :
    INV s -> readonly c = true -> step c s = (s1, r1) ->
    INV s1 /\ s_store s1 = s_store s /\ s_mem s1 = s_mem s /\ s_nfail s <= s_nfail s1
    /\ (s_nfail s1 = s_nfail s ->
        r1 = snd (do_call c None (s_store s)) /\ s_crashed s1 = false).
  Proof.
    intros HI Hro E. destruct (INV_step_ro _ _ _ _ HI Hro E) as (HI1 & Hm).
    pose proof (step_spec _ _ _ _ _ _ E) as (_ & _ & _ & [Hf | Hr]).
    - destruct Hf as (_ & Hst & Hnf & _).
      split; [exact HI1 |]. split; [exact Hst |]. split; [exact Hm |]. split; [lia |]. intros; exfalso; lia.
    - destruct Hr as (_ & Hc' & Hnf & Hd & _).
      assert (Hw : is_watch c = false) by (destruct c; try discriminate; reflexivity).
      rewrite Hw in Hd.
      pose proof (do_call_readonly c None (s_store s) Hro) as Hx. rewrite Hd in *. simpl in Hx.
      split; [exact HI1 |]. split; [exact Hx |]. split; [exact Hm |]. split; [lia |]. intros _. simpl. auto.
  Qed.

  Definition dp_ok : Prop := forall k, dp k <> None.

  (** nothing but [others] (and the ghost fields) changed *)
  Definition frame_oth (s s' : state) : Prop :=
    s_mem s' = s_mem s /\ self (s_store s') = self (s_store s)
    /\ self_alive (s_store s') = self_alive (s_store s)
    /\ cm_cap (s_store s') = cm_cap (s_store s) /\ cm_evar (s_store s') = cm_evar (s_store s)
    /\ br (s_store s') = br (s_store s) /\ node_ok (s_store s') = node_ok (s_store s)
    /\ s_nfail s <= s_nfail s'.

  Lemma frame_oth_refl s : frame_oth s s.
  Proof. unfold frame_oth. repeat split; auto. Qed.

  Lemma frame_oth_trans a b c : frame_oth a b -> frame_oth b c -> frame_oth a c.
  Proof.
    intros (A1 & A2 & A3 & A4 & A5 & A6 & A7 & A8) (B1 & B2 & B3 & B4 & B5 & B6 & B7 & B8).
    unfold frame_oth. repeat split; try congruence. lia.
  Qed.

  Lemma only_others_frame s s' : only_others s s' -> frame_oth s s'.
  Proof.
    intros (O1 & O2 & O3 & O4 & O5 & O6 & O7 & _ & _ & _ & O11 & _). unfold frame_oth. repeat split; auto.
  Qed.

  (** a call that changes at most [others] *)
  Lemma step_others c s s1 r1 :
    INV s -> not_bind c -> step c s = (s1, r1) ->
    (reached dp c s s1 r1 ->
       exists o', s_store s1 = set_others (s_store s) o' /\ Forall (fun p => p_name p <> 0) o'
                  /\ (SH (s_store s) -> SH (s_store s1))) ->
    INV s1 /\ frame_oth s s1.
  Proof.
    intros HI Hnb E Hre.
    pose proof (step_spec _ _ _ _ _ _ E) as (Hm & _ & _ & Hcase).
    assert (HI1 : INV s1).
    { eapply INV_step; eauto. intros Hr. destruct (Hre Hr) as (o' & Hst & Ho & Hsh).
      destruct HI as (HG & _ & HJ & HK & Hn & Hbr & Hno & _). rewrite Hst in Hsh |- *.
      destruct HG as ((Ha & Hn0 & Hrs & Hp & _) & _).
      split; [unfold base; simpl; auto 10 |].
      split; [exact Hn |]. split; [exact HJ |]. split; [exact HK |]. split; [exact Hbr |].
      split; [exact Hno | exact Hsh]. }
    split; [exact HI1 |]. destruct Hcase as [Hf | Hr].
    - destruct Hf as (_ & Hst & Hnf & _). unfold frame_oth. rewrite Hst. repeat split; auto. lia.
    - destruct (Hre Hr) as (o' & Hst & _). destruct Hr as (_ & _ & Hnf & _).
      unfold frame_oth. rewrite Hst. simpl. repeat split; auto. lia.
  Qed.

  Lemma step_nfail c s s1 r1 :
    step c s = (s1, r1) -> s_nfail s <= s_nfail s1 /\ (r1 = RFault -> s_nfail s < s_nfail s1)
    /\ (s_nfail s1 = s_nfail s -> reached dp c s s1 r1).
  Proof.
    intros E. pose proof (step_spec _ _ _ _ _ _ E) as (_ & _ & _ & [Hf | Hr]).
    - destruct Hf as (Hr & _ & Hnf & _). split; [lia |]. split; intros; [lia | exfalso; lia].
    - pose proof Hr as (_ & _ & Hnf & Hd & _). split; [lia |]. split; [| intros _; exact Hr].
      intros ->. exfalso.
      destruct c; cbn [do_call] in Hd;
        repeat match type of Hd with
               | context [match ?x with _ => _ end] => destruct x
               | context [if ?x then _ else _] => destruct x
               end; try discriminate.
  Qed.

  Lemma INV_frame_G s s' : INV s -> frame_oth s s' -> s_nfail s <= s_nfail s'.
  Proof. intros _ H. apply H. Qed.

  (** the cleanup after a failed wait *)
  Lemma cleanup_delete g s :
    INV s ->
    let s' := fst (exec (Api (ADeletePod (rsv_name g) (PRsv g)) (fun _ => Ret (@None nat))) s) in
    INV s' /\ frame_oth s s'
    /\ snd (exec (Api (ADeletePod (rsv_name g) (PRsv g)) (fun _ => Ret (@None nat))) s) = None.
  Proof.
    intros HI. api E. cbn [Binder.exec fst snd].
    assert (Hnz : rsv_name g <> 0) by (unfold rsv_name; lia).
    destruct (delete_other faults dp ord _ _ _ _ _ (proj1 HI) Hnz E) as (HG1 & Hoo & _).
    split; [eapply INV_only_others; eauto |]. split; [apply only_others_frame, Hoo | reflexivity].
  Qed.

  Lemma create_and_wait_spec g s :
    INV s ->
    let s' := fst (exec (create_and_wait g) s) in
    let r := snd (exec (create_and_wait g) s) in
    INV s' /\ frame_oth s s'
    /\ (forall i, r = Some i ->
          others (s_store s') = others (s_store s) ++ [new_rsv g (Some i)])
    /\ (s_nfail s' = s_nfail s -> dp_ok -> has_pod (rsv_name g) (others (s_store s)) = false ->
        exists i, r = Some i).
  Proof.
    intros HI. unfold create_and_wait. apin E0 s1 r1.
    destruct (ro_step (AList LScaling) _ _ _ HI eq_refl E0) as (HI1 & Hst1 & Hm1 & Hn1 & _).
    assert (F1 : frame_oth s s1) by (unfold frame_oth; rewrite Hst1, Hm1; repeat split; auto).
    clear E0. apin E1 s0 r0.
    (* create *)
    destruct (step_others (ACreateRsv g) _ _ _ HI1 I E1) as (HI2 & F2).
    { intros (_ & _ & _ & Hd & _). cbn [is_watch] in Hd.
      destruct (do_create _ _ _ _ _ Hd) as [(_ & Hst & _) | (_ & Hst & _)].
      - exists (others (s_store s1)). rewrite Hst. split; [destruct (s_store s1); reflexivity |].
        split; [apply HI1 | auto].
      - eexists. split; [exact Hst |]. split.
        + apply Forall_app. split; [apply HI1 |]. constructor; [| constructor]. simpl. unfold rsv_name. lia.
        + rewrite Hst. apply (SH_add _ g None). reflexivity. }
    pose proof (frame_oth_trans _ _ _ F1 F2) as F12.
    destruct (step_nfail _ _ _ _ E1) as (Hle1 & Hflt1 & Hrch1).
    destruct r0; try (cbn [Binder.exec fst snd]; split; [exact HI2 |]; split; [exact F12 |];
                      split; [discriminate |]; intros Hnf _ Hhp; exfalso;
                      assert (Hx : s_nfail s0 = s_nfail s1) by (destruct F12 as (_&_&_&_&_&_&_&?); lia);
                      destruct (Hrch1 Hx) as (_ & _ & _ & Hd & _); cbn [is_watch] in Hd;
                      destruct (do_create _ _ _ _ _ Hd) as [(Hh & _ & Hr) | (_ & _ & Hr)];
                      [rewrite Hst1 in Hh; congruence | discriminate]).
    (* RName: the pod was created *)
    assert (Hcr : has_pod (rsv_name g) (others (s_store s)) = false
                  /\ s_store s0 = set_others (s_store s) (others (s_store s) ++ [new_rsv g None]) /\ n = rsv_name g).
    { pose proof (step_spec _ _ _ _ _ _ E1) as (_ & _ & _ & [Hf | Hr]).
      - destruct Hf as (Hx & _). discriminate.
      - destruct Hr as (_ & _ & _ & Hd & _). cbn [is_watch] in Hd.
        destruct (do_create _ _ _ _ _ Hd) as [(_ & _ & Hr) | (Hh & Hst & Hr)]; [discriminate |].
        rewrite Hst1 in Hh, Hst. injection Hr as ->. auto. }
    destruct Hcr as (Hhp & Hst2 & ->).
    apin E2 s2 r2.
    destruct (step_others (AWatchRsv (rsv_name g) g) _ _ _ HI2 I E2) as (HI3 & F3).
    { intros (_ & _ & _ & Hd & _). cbn [is_watch] in Hd.
      destruct (do_watch _ _ _ _ _ _ Hd) as [(i & _ & _ & Hst & _) | (Hst & _)].
      - eexists. split; [exact Hst |]. rewrite Hst2. cbn [set_others others].
        rewrite (upd_pod_fresh (rsv_name g) _ (others (s_store s)) (new_rsv g None) Hhp eq_refl). split.
        + apply Forall_app. split; [apply HI |]. constructor; [| constructor].
          simpl. unfold rsv_name. lia.
        + intros Hsh.
          assert (Hsh1 : SH (s_store s)).
          { eapply SH_incl; [exact Hsh |]. simpl. apply incl_appl, incl_refl. }
          rewrite Hst, Hst2. cbn [set_others others].
          rewrite (upd_pod_fresh (rsv_name g) _ (others (s_store s)) (new_rsv g None) Hhp eq_refl).
          exact (SH_add (s_store s) g (Some i) _ eq_refl Hsh1).
      - exists (others (s_store s0)). rewrite Hst. split; [destruct (s_store s0); reflexivity |].
        split; [apply HI2 | auto]. }
    pose proof (frame_oth_trans _ _ _ F12 F3) as F123.
    destruct (step_nfail _ _ _ _ E2) as (Hle2 & Hflt2 & Hrch2).
    assert (Hfail : (s_nfail s2 = s_nfail s -> dp_ok -> False) ->
              let P := Api (ADeletePod (rsv_name g) (PRsv g)) (fun _ : resp => Ret (@None nat)) in
              INV (fst (exec P s2)) /\ frame_oth s (fst (exec P s2))
              /\ (forall i, snd (exec P s2) = Some i ->
                    others (s_store (fst (exec P s2))) = others (s_store s) ++ [new_rsv g (Some i)])
              /\ (s_nfail (fst (exec P s2)) = s_nfail s -> dp_ok ->
                  has_pod (rsv_name g) (others (s_store s)) = false -> exists i, snd (exec P s2) = Some i)).
    { intros Hlive P. destruct (cleanup_delete g s2 HI3) as (D1 & D2 & D3). fold P in D1, D2, D3.
      split; [exact D1 |]. split; [eapply frame_oth_trans; eauto |].
      split; [intros i Hi; rewrite D3 in Hi; discriminate |].
      intros Hnf Hdp _. exfalso. apply Hlive; auto.
      destruct D2 as (_&_&_&_&_&_&_&Hle3). destruct F123 as (_&_&_&_&_&_&_&Hle4). lia. }
    assert (Hlive : forall r2', (forall i, r2' <> RIdx i) -> s_nfail s2 = s_nfail s -> dp_ok -> r2 = r2' -> False).
    { intros r2' Hni Hnf Hdp ->.
      assert (Hx : s_nfail s2 = s_nfail s0) by (destruct F12 as (_&_&_&_&_&_&_&?); lia).
      destruct (Hrch2 Hx) as (_ & _ & _ & Hd & _). cbn [is_watch] in Hd.
      destruct (do_watch _ _ _ _ _ _ Hd) as [(i & _ & _ & _ & Hr) | (_ & _ & [Hnone | Hnp])].
      - eapply Hni. exact Hr.
      - eapply Hdp. exact Hnone.
      - rewrite Hst2 in Hnp. cbn [set_others others] in Hnp. rewrite has_pod_app in Hnp.
        simpl in Hnp. rewrite Nat.eqb_refl, orb_true_r in Hnp. discriminate. }
    destruct r2; try (apply Hfail; intros Hnf Hdp; eapply Hlive; eauto; discriminate).
    (* RIdx: the device plugin answered *)
    cbn [Binder.exec fst snd].
    assert (Ho3 : others (s_store s2) = others (s_store s) ++ [new_rsv g (Some i)]).
    { pose proof (step_spec _ _ _ _ _ _ E2) as (_ & _ & _ & [Hf | Hr]).
      - destruct Hf as (Hx & _). discriminate.
      - destruct Hr as (_ & _ & _ & Hd & _). cbn [is_watch] in Hd.
        destruct (do_watch _ _ _ _ _ _ Hd) as [(i' & _ & _ & Hst & Hr) | (_ & Hr & _)]; [| discriminate].
        injection Hr as <-. rewrite Hst, Hst2. cbn [set_others others].
        rewrite (upd_pod_fresh (rsv_name g) _ (others (s_store s)) (new_rsv g None) Hhp eq_refl). reflexivity. }
    split; [exact HI3 |]. split; [exact F123 |].
    split; [intros i' Hi'; injection Hi' as <-; exact Ho3 |].
    intros _ _ _. eauto.
  Qed.

  Lemma INV_mem_ext s s' :
    s_store s' = s_store s -> s_mem s' = s_mem s -> s_log s' = s_log s -> s_hist s' = s_hist s ->
    s_mark s' = s_mark s -> s_mark_end s' = s_mark_end s -> INV s -> INV s'.
  Proof.
    intros H1 H2 H3 H4 H5 H6 (HG & (Hk & Hke) & HJ & HK & Hn & Hbr & Hno & Hsh).
    unfold INV, marks_none. rewrite H1, H2, H5, H6. split; [eapply G_ext; eauto |]. auto 10.
  Qed.

  (** updatePodGPUGroup *)
  Lemma label_consumer_spec g i s :
    INV s -> M s ->
    let s' := fst (exec (label_consumer sc g i) s) in
    let r := snd (exec (label_consumer sc g i) s) in
    INV s' /\ s_nfail s <= s_nfail s'
    /\ cm_cap (s_store s') = cm_cap (s_store s) /\ cm_evar (s_store s') = cm_evar (s_store s)
    /\ (forall i', r = Some i' ->
          i' = i /\ M s' /\ others (s_store s') = others (s_store s)
          /\ p_plain (self (s_store s')) = (if sc_multi sc then p_plain (self (s_store s)) else Some g)
          /\ (forall x, In x (p_multi (self (s_store s))) -> In x (p_multi (self (s_store s'))))
          /\ (sc_multi sc = true -> In g (p_multi (self (s_store s')))))
    /\ (s_nfail s' = s_nfail s -> r = Some i).
  Proof.
    intros HI (HM1 & HM2). unfold label_consumer. cbn [Binder.exec].
    set (m := s_mem s).
    set (m' := if sc_multi sc then mem_with_labels m (m_plain m) (add_set g (m_multi m))
               else mem_with_labels m (Some g) (m_multi m)).
    set (dplain := if sc_multi sc then None else if opt_nat_eqb (m_plain m) (Some g) then None else Some g).
    set (dmulti := if sc_multi sc then if mem_nat g (m_multi m) then None else Some g else None).
    match goal with |- context [Binder.step _ _ _ ?st] => set (sa := st) end.
    assert (HIa : INV sa).
    { apply (INV_set_mem s m' HI). destruct HI as (_ & _ & (J1 & J2) & _). split.
      - intros x Hx. right. unfold m'. fold m in HM2. destruct (sc_multi sc); simpl.
        + apply add_set_In. right. rewrite HM2. exact Hx.
        + rewrite HM2. exact Hx.
      - intros x Hx. right. unfold m'. fold m in HM1. destruct (sc_multi sc); simpl.
        + rewrite HM1, Hx. reflexivity.
        + reflexivity. }
    apin E1 s1 r1.
    assert (Halive : self_alive (s_store sa) = true) by apply HIa.
    set (p' := with_labels (self (s_store s))
                 (match dplain with Some x => Some x | None => p_plain (self (s_store s)) end)
                 (match dmulti with Some x => add_set x (p_multi (self (s_store s))) | None => p_multi (self (s_store s)) end)).
    assert (Hreach : reached dp (APatchLabels dplain dmulti) sa s1 r1 ->
                     s_store s1 = set_self (s_store s) p' /\ r1 = RPod p').
    { intros (_ & _ & _ & Hd & _). cbn [is_watch] in Hd. apply (do_patch_labels _ _ _ _ _ _ Halive Hd). }
    assert (Hp'plain : p_plain p' = if sc_multi sc then p_plain (self (s_store s)) else Some g).
    { unfold p', dplain. fold m in HM1. simpl. destruct (sc_multi sc); [reflexivity |].
      destruct (opt_nat_eqb (m_plain m) (Some g)) eqn:Eq; [| reflexivity].
      apply opt_nat_eqb_eq in Eq. congruence. }
    assert (Hp'multi : p_multi p' = if sc_multi sc then add_set g (p_multi (self (s_store s)))
                                   else p_multi (self (s_store s))).
    { unfold p', dmulti. fold m in HM2. simpl. destruct (sc_multi sc); [| reflexivity].
      destruct (mem_nat g (m_multi m)) eqn:Em; [| reflexivity].
      unfold add_set. rewrite <- HM2, Em. reflexivity. }
    assert (HI1 : INV s1).
    { eapply INV_step; eauto; [exact I |]. intros Hr. destruct (Hreach Hr) as (Hst & _). rewrite Hst.
      destruct HIa as (HGa & _ & (J1 & J2) & HKa & Hna & Hbra & Hnoa & _).
      destruct HGa as ((Ha & Hn0 & Hrs & Hp & Ho) & _).
      split; [unfold base; simpl; auto 10 |]. split; [exact Hna |]. split.
      - split.
        + intros x Hx. right. cbn [self set_self] in Hx. rewrite Hp'multi in Hx. unfold m'. fold m in HM2.
          destruct (sc_multi sc); simpl.
          * rewrite HM2. exact Hx.
          * rewrite HM2. exact Hx.
        + cbn [self set_self]. rewrite Hp'plain. intros x Hx. right. unfold m'. fold m in HM1.
          destruct (sc_multi sc); simpl.
          * rewrite HM1, Hx. reflexivity.
          * reflexivity.
      - split; [exact HKa |]. split; [exact Hbra |]. split; [exact Hnoa |]. auto. }
    destruct (step_nfail _ _ _ _ E1) as (Hle1 & Hflt1 & Hrch1).
    pose proof (step_spec _ _ _ _ _ _ E1) as (Hm1 & _ & _ & Hcase).
    assert (Hcms1 : cm_cap (s_store s1) = cm_cap (s_store s) /\ cm_evar (s_store s1) = cm_evar (s_store s)).
    { destruct Hcase as [Hf | Hr].
      - destruct Hf as (_ & Hst & _). rewrite Hst. auto.
      - destruct (Hreach Hr) as (Hst & _). rewrite Hst. auto. }
    assert (Hfailpath :
      let P := (_ <- sync_group g ;; Ret (@None nat)) in
      (s_nfail s1 = s_nfail s -> False) ->
      INV (fst (exec P s1)) /\ s_nfail s <= s_nfail (fst (exec P s1))
      /\ cm_cap (s_store (fst (exec P s1))) = cm_cap (s_store s)
      /\ cm_evar (s_store (fst (exec P s1))) = cm_evar (s_store s)
      /\ (forall i', snd (exec P s1) = Some i' -> False)
      /\ (s_nfail (fst (exec P s1)) = s_nfail s -> False)).
    { intros P Hne. unfold P. rewrite exec_bind.
      destruct (sync_group_spec faults dp ord g s1 (proj1 HI1)) as (S1 & S2 & _).
      destruct (exec (sync_group g) s1) as [s2 e2]. cbn [fst snd Binder.exec] in *.
      split; [eapply INV_only_others; eauto |].
      destruct S2 as (_ & _ & O3 & O4 & _ & _ & _ & _ & _ & _ & O11 & _).
      assert (s_nfail sa = s_nfail s) by reflexivity.
      split; [lia |]. split; [destruct Hcms1; congruence |]. split; [destruct Hcms1; congruence |].
      split; [discriminate |]. intros Hx. apply Hne. lia. }
    assert (Hsa : s_nfail sa = s_nfail s) by reflexivity.
    destruct r1;
      try (destruct Hfailpath as (F1 & F2 & F3 & F4 & F5 & F6);
           [ intros Hx; rewrite <- Hsa in Hx; destruct (Hrch1 Hx) as (_ & _ & _ & Hd & _); cbn [is_watch] in Hd;
             destruct (do_patch_labels _ _ _ _ _ _ Halive Hd) as (_ & Hr); discriminate
           | split; [exact F1 |]; split; [exact F2 |]; split; [exact F3 |]; split; [exact F4 |];
             split; [intros i' Hi'; exfalso; eapply F5; eauto | intros Hx; exfalso; auto] ]).
    (* RPod: the patch reached the server *)
    assert (Hr : reached dp (APatchLabels dplain dmulti) sa s1 (RPod p)).
    { destruct Hcase as [(Hx & _) | Hr]; [discriminate | exact Hr]. }
    destruct (Hreach Hr) as (Hst & Hrp). injection Hrp as ->.
    cbn [Binder.exec fst snd].
    match goal with |- context [INV ?st] => set (sb := st) end.
    assert (HIb : INV sb).
    { apply (INV_set_mem s1 (mem_of p') HI1). rewrite Hst. split.
      - intros x Hx. right. exact Hx.
      - cbn [self set_self mem_of m_plain]. intros x Hx. right. rewrite Hx. reflexivity. }
    split; [exact HIb |].
    assert (Hnfb : s_nfail sb = s_nfail s1) by reflexivity.
    split; [lia |]. destruct Hcms1 as (C1 & C2).
    split; [exact C1 |]. split; [exact C2 |].
    split.
    - intros i' Hi'. injection Hi' as <-. split; [reflexivity |].
      split; [unfold M; cbn [sb s_mem s_store set_mem]; rewrite Hst; split; reflexivity |].
      cbn [sb s_store set_mem]. rewrite Hst. cbn [set_self others self].
      split; [reflexivity |]. split; [exact Hp'plain |]. rewrite Hp'multi. split.
      + intros x Hx. destruct (sc_multi sc); [apply add_set_In; auto | exact Hx].
      + intros ->. apply add_set_In. auto.
    - intros _. reflexivity.
  Qed.

  (** ** reservation pods of a group *)
  Definition fg (g : gid) (p : pod) : bool := p_rsv p && opt_nat_eqb (p_plain p) (Some g).
  Definition ridx (g : gid) (o : list pod) : option nat :=
    match filter (fg g) o with p :: _ => p_idx p | [] => None end.

  Lemma rsv_idx_ridx g st : rsv_idx g st = ridx g (others st).
  Proof. reflexivity. Qed.

  Lemma ridx_app_some g o x j : ridx g o = Some j -> ridx g (o ++ [x]) = Some j.
  Proof.
    unfold ridx. rewrite filter_app. destruct (filter (fg g) o); [discriminate | auto].
  Qed.

  Lemma ridx_app_new g o i : filter (fg g) o = [] -> ridx g (o ++ [new_rsv g (Some i)]) = Some i.
  Proof.
    intros H. unfold ridx. rewrite filter_app, H. simpl. unfold fg. simpl. rewrite Nat.eqb_refl. reflexivity.
  Qed.

  Lemma filter_filter {A} (f h : A -> bool) l : filter f (filter h l) = filter (fun x => h x && f x) l.
  Proof.
    induction l as [| x l IH]; [reflexivity |]. simpl. destruct (h x); simpl; [| exact IH].
    destruct (f x); simpl; rewrite IH; reflexivity.
  Qed.

  Lemma filter_none {A} (f : A -> bool) l : (forall x, In x l -> f x = false) -> filter f l = [].
  Proof.
    induction l as [| x l IH]; intros H; [reflexivity |]. simpl. rewrite (H x (or_introl eq_refl)).
    apply IH. intros y Hy. apply H. right. exact Hy.
  Qed.

  Lemma list_rsv g st : base st -> filter (selects (LRsv g)) (all_pods st) = filter (fg g) (others st).
  Proof.
    intros (Ha & _ & Hr & _). unfold all_pods. rewrite Ha, !filter_app, filter_filter.
    assert (H2 : filter (selects (LRsv g)) [self st] = []).
    { simpl. rewrite Hr. reflexivity. }
    assert (H3 : filter (selects (LRsv g)) (filter (fun p => negb (p_rsv p)) (others st)) = []).
    { rewrite filter_filter. apply filter_none. intros x _. simpl. destruct (p_rsv x); reflexivity. }
    rewrite H2, H3, !app_nil_r. apply filter_ext. intros x. unfold fg. simpl.
    destruct (p_rsv x); reflexivity.
  Qed.

  Lemma all_idx_ext gs st st' :
    (forall g j, In g gs -> rsv_idx g st = Some j -> rsv_idx g st' = Some j) ->
    forall acc, all_idx gs st = Some acc -> all_idx gs st' = Some acc.
  Proof.
    induction gs as [| g gs IH]; intros H acc Ha; [exact Ha |].
    simpl in *. destruct (rsv_idx g st) as [j |] eqn:Ej; [| discriminate].
    rewrite (H g j (or_introl eq_refl) Ej).
    destruct (all_idx gs st) as [l |] eqn:El; [| discriminate].
    rewrite (IH (fun g' j' Hg' => H g' j' (or_intror Hg')) l eq_refl). exact Ha.
  Qed.

  Lemma all_idx_app gs g st acc i :
    all_idx gs st = Some acc -> rsv_idx g st = Some i -> all_idx (gs ++ [g]) st = Some (acc ++ [i]).
  Proof.
    revert acc. induction gs as [| g0 gs IH]; intros acc Ha Hg; simpl in *.
    - injection Ha as <-. rewrite Hg. reflexivity.
    - destruct (rsv_idx g0 st); [| discriminate]. destruct (all_idx gs st) as [l |]; [| discriminate].
      injection Ha as <-. rewrite (IH l eq_refl Hg). reflexivity.
  Qed.

  Definition annotated (st : store) : Prop := Forall (fun p => opt_is_some (p_idx p) = true) (others st).
  Definition Live (st : store) : Prop := SH st /\ annotated st.

  (** ReserveGpuDevice *)
  Definition rg_post (g : gid) (s s' : state) (r : option nat) : Prop :=
    INV s' /\ s_nfail s <= s_nfail s'
    /\ cm_cap (s_store s') = cm_cap (s_store s) /\ cm_evar (s_store s') = cm_evar (s_store s)
    /\ (forall i, r = Some i ->
          M s' /\ rsv_idx g (s_store s') = Some i
          /\ (forall g' j, rsv_idx g' (s_store s) = Some j -> rsv_idx g' (s_store s') = Some j)
          /\ p_plain (self (s_store s')) = (if sc_multi sc then p_plain (self (s_store s)) else Some g)
          /\ (forall x, In x (p_multi (self (s_store s))) -> In x (p_multi (self (s_store s'))))
          /\ (sc_multi sc = true -> In g (p_multi (self (s_store s')))))
    /\ (s_nfail s' = s_nfail s -> dp_ok -> Live (s_store s) -> (exists i, r = Some i) /\ Live (s_store s')).

  Lemma reserve_gpu_spec g s :
    INV s -> M s ->
    rg_post g s (fst (exec (reserve_gpu sc g) s)) (snd (exec (reserve_gpu sc g) s)).
  Proof.
    intros HI HM. unfold reserve_gpu. apin E0 s1 r1.
    destruct (ro_step (AList (LRsv g)) _ _ _ HI eq_refl E0) as (HI1 & Hst1 & Hm1 & Hn1 & Hlv1).
    assert (HM1 : M s1) by (unfold M; rewrite Hst1, Hm1; exact HM).
    assert (Hnone : forall P : prog (option nat), P = Ret None ->
              (s_nfail s1 = s_nfail s -> dp_ok -> Live (s_store s) -> False) ->
              rg_post g s (fst (exec P s1)) (snd (exec P s1))).
    { intros P -> Hl. unfold rg_post. cbn [Binder.exec fst snd]. rewrite Hst1.
      split; [exact HI1 |]. split; [exact Hn1 |]. split; [reflexivity |]. split; [reflexivity |].
      split; [intros i Hi; discriminate Hi |]. intros A B C. exfalso. eauto. }
    destruct r1 as [| | | | l | | | | |];
      try (apply Hnone; [reflexivity |]; intros Hx _ _; destruct (Hlv1 Hx) as (Hr & _); cbn [do_call snd] in Hr;
           discriminate Hr).
    assert (Hl : l = filter (fg g) (others (s_store s)) /\ s_nfail s1 = s_nfail s).
    { pose proof (step_spec _ _ _ _ _ _ E0) as (_ & _ & _ & [Hf | Hr]).
      - destruct Hf as (Hx & _). discriminate.
      - destruct Hr as (_ & _ & Hnf & Hd & _). cbn [do_call is_watch] in Hd. injection Hd as _ Hd.
        rewrite list_rsv in Hd; [auto | apply HI]. }
    destruct Hl as (Hl & Hnf1).
    assert (Hlive_add : forall i o', o' = others (s_store s) ++ [new_rsv g (Some i)] ->
              Live (s_store s) -> forall st', others st' = o' -> Live st').
    { intros i o' -> (Hsh & Han) st' Ho. destruct (SH_add (s_store s) g (Some i) _ eq_refl Hsh) as (A1 & A2).
      split; [split |].
      - unfold rsv_only in *. rewrite Ho. exact A1.
      - unfold names_ok in *. rewrite Ho. exact A2.
      - unfold annotated in *. rewrite Ho. apply Forall_app. split; [exact Han |]. constructor; [reflexivity | constructor]. }
    destruct l as [| p l].
    - (* no reservation pod yet: create one and wait for its device *)
      rewrite exec_bind.
      destruct (create_and_wait_spec g s1 HI1) as (C1 & C2 & C3 & C4).
      destruct (exec (create_and_wait g) s1) as [s2 oi] eqn:Ecw. cbn [fst snd] in *.
      destruct C2 as (Cm & Cself & Calive & Ccap & Cevar & Cbr & Cno & Cnf).
      unfold rg_post. destruct oi as [i |].
      + assert (HM2 : M s2) by (unfold M; rewrite Cm, Cself; exact HM1).
        destruct (label_consumer_spec g i s2 C1 HM2) as (L1 & L2 & L3 & L4 & L5 & L6).
        split; [exact L1 |]. split; [lia |]. split; [congruence |]. split; [congruence |].
        pose proof (C3 i eq_refl) as Ho2. rewrite Hst1 in Ho2.
        split.
        * intros i' Hi'. destruct (L5 i' Hi') as (-> & LM & Lo & Lp & Lmu & Lg).
          split; [exact LM |]. rewrite Cself, Hst1 in Lp, Lmu.
          split; [rewrite rsv_idx_ridx, Lo, Ho2; apply ridx_app_new; auto |].
          split; [intros g' j Hj; rewrite rsv_idx_ridx in *; rewrite Lo, Ho2; apply ridx_app_some; exact Hj |].
          split; [exact Lp |]. split; [exact Lmu | exact Lg].
        * intros Hnf Hdp Hlv. split; [eexists; apply L6; lia |].
          assert (Hi' : snd (exec (label_consumer sc g i) s2) = Some i) by (apply L6; lia).
          destruct (L5 i Hi') as (_ & _ & Lo & _).
          eapply Hlive_add; [reflexivity | exact Hlv |]. rewrite Lo. exact Ho2.
      + (* reservation failed *)
        cbn [Binder.exec fst snd]. split; [exact C1 |]. split; [lia |].
        split; [congruence |]. split; [congruence |]. split; [discriminate |].
        intros Hnf Hdp ((Hro & Hnm) & Han). exfalso.
        destruct C4 as (i & Hi); auto; [lia | | discriminate].
        rewrite Hst1. destruct (has_pod (rsv_name g) (others (s_store s))) eqn:Eh; [| reflexivity].
        unfold has_pod in Eh. apply existsb_exists in Eh as (q & Hq & Hqn). apply Nat.eqb_eq in Hqn.
        unfold rsv_only in Hro. unfold names_ok in Hnm. rewrite Forall_forall in Hro, Hnm.
        assert (Hfq : fg g q = true).
        { unfold fg. rewrite (Hro q Hq), (Hnm q Hq g Hqn). simpl. apply Nat.eqb_refl. }
        assert (Hin : In q (filter (fg g) (others (s_store s)))) by (apply filter_In; auto).
        rewrite <- Hl in Hin. destruct Hin.
    - (* a reservation pod exists: use its device *)
      assert (Hp_in : In p (others (s_store s))).
      { assert (Hx : In p (filter (fg g) (others (s_store s)))) by (rewrite <- Hl; left; reflexivity).
        apply filter_In in Hx. tauto. }
      destruct (p_idx p) as [i |] eqn:Ei.
      + unfold rg_post. destruct (label_consumer_spec g i s1 HI1 HM1) as (L1 & L2 & L3 & L4 & L5 & L6).
        split; [exact L1 |]. split; [lia |]. split; [congruence |]. split; [congruence |].
        split.
        * intros i' Hi'. destruct (L5 i' Hi') as (-> & LM & Lo & Lp & Lmu & Lg).
          split; [exact LM |]. rewrite Hst1 in Lp, Lmu, Lo.
          split; [rewrite rsv_idx_ridx, Lo; unfold ridx; rewrite <- Hl; exact Ei |].
          split; [intros g' j Hj; rewrite rsv_idx_ridx in *; rewrite Lo; exact Hj |].
          split; [exact Lp |]. split; [exact Lmu | exact Lg].
        * intros Hnf Hdp Hlv. split; [eexists; apply L6; lia |].
          assert (Hi' : snd (exec (label_consumer sc g i) s1) = Some i) by (apply L6; lia).
          destruct (L5 i Hi') as (_ & _ & Lo & _). rewrite Hst1 in Lo.
          destruct Hlv as ((Hro & Hnm) & Han). unfold Live, SH, rsv_only, names_ok, annotated. rewrite Lo. auto.
      + apply Hnone; [reflexivity |]. intros _ _ (_ & Han). unfold annotated in Han.
        rewrite Forall_forall in Han. specialize (Han p Hp_in). rewrite Ei in Han. discriminate.
  Qed.

  Fixpoint last_opt (l : list nat) : option nat :=
    match l with
    | [] => None
    | [x] => Some x
    | _ :: r => last_opt r
    end.

  Lemma last_opt_app l x : last_opt (l ++ [x]) = Some x.
  Proof.
    induction l as [| y l IH]; [reflexivity |]. simpl. destruct (l ++ [x]) eqn:E; [| exact IH].
    destruct l; discriminate.
  Qed.

  (** the labels of the groups reserved so far *)
  Definition Lab (done : list gid) (p : pod) : Prop :=
    if sc_multi sc then (forall g, In g done -> In g (p_multi p))
    else (forall g, last_opt done = Some g -> p_plain p = Some g).

  Definition rl_post (done gs : list gid) (s s' : state) (r : option (list nat)) : Prop :=
    INV s' /\ s_nfail s <= s_nfail s'
    /\ cm_cap (s_store s') = cm_cap (s_store s) /\ cm_evar (s_store s') = cm_evar (s_store s)
    /\ (forall idxs, r = Some idxs ->
          M s' /\ Lab (done ++ gs) (self (s_store s')) /\ all_idx (done ++ gs) (s_store s') = Some idxs)
    /\ (s_nfail s' = s_nfail s -> dp_ok -> Live (s_store s) -> (exists idxs, r = Some idxs) /\ Live (s_store s')).

  Lemma reserve_loop_spec gs : forall done acc s,
    INV s -> M s -> Lab done (self (s_store s)) -> all_idx done (s_store s) = Some acc ->
    rl_post done gs s (fst (exec (reserve_loop sc gs acc) s)) (snd (exec (reserve_loop sc gs acc) s)).
  Proof.
    induction gs as [| g gs IH]; intros done acc s HI HM HL HA.
    - unfold rl_post. cbn [reserve_loop Binder.exec fst snd]. rewrite app_nil_r.
      split; [exact HI |]. split; [lia |]. split; [reflexivity |]. split; [reflexivity |].
      split; [intros idxs Hx; injection Hx as <-; auto |]. intros _ _ Hl. eauto.
    - cbn [reserve_loop]. rewrite exec_bind.
      destruct (reserve_gpu_spec g s HI HM) as (R1 & R2 & R3 & R4 & R5 & R6).
      destruct (exec (reserve_gpu sc g) s) as [s1 oi]. cbn [fst snd] in *.
      destruct oi as [i |].
      + destruct (R5 i eq_refl) as (RM & Rg & Rpres & Rp & Rmu & Rgin).
        assert (HL1 : Lab (done ++ [g]) (self (s_store s1))).
        { unfold Lab in *. destruct (sc_multi sc).
          - intros x Hx. apply in_app_iff in Hx as [Hx | [<- | []]]; auto.
          - intros x Hx. rewrite last_opt_app in Hx. injection Hx as <-. exact Rp. }
        assert (HA1 : all_idx (done ++ [g]) (s_store s1) = Some (acc ++ [i])).
        { apply all_idx_app; [| exact Rg]. eapply all_idx_ext; [| exact HA]. intros g' j _ Hj. apply Rpres, Hj. }
        specialize (IH (done ++ [g]) (acc ++ [i]) s1 R1 RM HL1 HA1).
        destruct IH as (I1 & I2 & I3 & I4 & I5 & I6). unfold rl_post.
        split; [exact I1 |]. split; [lia |]. split; [congruence |]. split; [congruence |].
        split.
        * intros idxs Hx. destruct (I5 idxs Hx) as (A & B & C). rewrite <- app_assoc in B, C. auto.
        * intros Hnf Hdp Hl. destruct (R6 ltac:(lia) Hdp Hl) as (_ & Hl1). apply I6; auto. lia.
      + unfold rl_post. cbn [Binder.exec fst snd].
        split; [exact R1 |]. split; [exact R2 |]. split; [exact R3 |]. split; [exact R4 |].
        split; [discriminate |]. intros Hnf Hdp Hl. destruct (R6 Hnf Hdp Hl) as ((i & Hi) & _). discriminate.
  Qed.

  (** ** config maps *)
  Lemma list_nat_eqb_eq a : forall b, list_nat_eqb a b = true -> a = b.
  Proof.
    induction a as [| x a IH]; intros [| y b] H; simpl in H; try discriminate; [reflexivity |].
    apply andb_true_iff in H as (H1 & H2). apply Nat.eqb_eq in H1. subst. f_equal. apply IH, H2.
  Qed.

  Lemma cval_eqb_eq a b : cval_eqb a b = true -> a = b.
  Proof.
    destruct a, b; simpl; intros H; try discriminate; try reflexivity. f_equal. apply list_nat_eqb_eq, H.
  Qed.

  Lemma opt_cval_eqb_eq a b : opt_cval_eqb a b = true -> a = b.
  Proof. destruct a, b; simpl; intros H; try discriminate; [f_equal; apply cval_eqb_eq, H | reflexivity]. Qed.

  Lemma data_patch old new :
    (forall k, data_get k new = None -> data_get k old = None) ->
    data_apply (data_diff old new) old = new.
  Proof.
    intros H. destruct old as [a b c d], new as [a' b' c' d'].
    pose proof (H ENumGpusBC) as H1. pose proof (H EPortion) as H2.
    pose proof (H EVisible) as H3. pose proof (H EVisibleBC) as H4. simpl in H1, H2, H3, H4. clear H.
    unfold data_diff, diff_key, data_apply. cbn [data_get d_num d_portion d_vis d_visbc].
    destruct a' as [va |]; [destruct (opt_cval_eqb a (Some va)) eqn:Ea; [apply opt_cval_eqb_eq in Ea; subst a |] | rewrite (H1 eq_refl)];
    (destruct b' as [vb |]; [destruct (opt_cval_eqb b (Some vb)) eqn:Eb; [apply opt_cval_eqb_eq in Eb; subst b |] | rewrite (H2 eq_refl)]);
    (destruct c' as [vc |]; [destruct (opt_cval_eqb c (Some vc)) eqn:Ec; [apply opt_cval_eqb_eq in Ec; subst c |] | rewrite (H3 eq_refl)]);
    (destruct d' as [vd |]; [destruct (opt_cval_eqb d (Some vd)) eqn:Ed; [apply opt_cval_eqb_eq in Ed; subst d |] | rewrite (H4 eq_refl)]);
    reflexivity.
  Qed.

  Definition KF : Prop := sc_fraction sc && sc_cmann sc = true.

  (** nothing but the two config maps changed *)
  Definition frame_cm (s s' : state) : Prop :=
    s_mem s' = s_mem s /\ self (s_store s') = self (s_store s)
    /\ self_alive (s_store s') = self_alive (s_store s) /\ others (s_store s') = others (s_store s)
    /\ br (s_store s') = br (s_store s) /\ node_ok (s_store s') = node_ok (s_store s)
    /\ s_nfail s <= s_nfail s'.

  Lemma frame_cm_refl s : frame_cm s s.
  Proof. unfold frame_cm. repeat split; auto. Qed.

  Lemma frame_cm_trans a b c : frame_cm a b -> frame_cm b c -> frame_cm a c.
  Proof.
    intros (A1 & A2 & A3 & A4 & A5 & A6 & A7) (B1 & B2 & B3 & B4 & B5 & B6 & B7).
    unfold frame_cm. repeat split; try congruence. lia.
  Qed.

  Definition same_but_cm (st st' : store) : Prop :=
    self st' = self st /\ self_alive st' = self_alive st /\ others st' = others st
    /\ br st' = br st /\ node_ok st' = node_ok st.

  Lemma cm_put_same x v st : same_but_cm st (cm_put x v st).
  Proof. unfold same_but_cm. destruct x; simpl; auto. Qed.

  Lemma cm_get_put x v st : x <> CmOther -> cm_get x (cm_put x v st) = v.
  Proof. destruct x; simpl; auto. contradiction. Qed.

  Lemma cm_get_put_other x y v st : y <> x -> cm_get y (cm_put x v st) = cm_get y st.
  Proof. destruct x, y; simpl; auto; contradiction. Qed.

  Lemma step_cm c s s1 r1 :
    INV s -> KF -> not_bind c -> step c s = (s1, r1) ->
    (reached dp c s s1 r1 -> same_but_cm (s_store s) (s_store s1)) ->
    INV s1 /\ frame_cm s s1.
  Proof.
    intros HI HK Hnb E Hre.
    pose proof (step_spec _ _ _ _ _ _ E) as (Hm & _ & _ & Hcase).
    assert (HI1 : INV s1).
    { eapply INV_step; eauto. intros Hr. destruct (Hre Hr) as (A1 & A2 & A3 & A4 & A5).
      destruct HI as (HG & _ & HJ & _ & Hn & Hbr & Hno & _).
      destruct HG as ((Ha & Hn0 & Hrs & Hp & Ho) & _).
      split; [unfold base; rewrite A1, A2, A3; auto 10 |].
      split; [rewrite A1; exact Hn |]. split; [unfold J; rewrite A1; exact HJ |].
      split; [left; exact HK |]. split; [congruence |]. split; [congruence |].
      intros Hsh. unfold SH, rsv_only, names_ok in *. rewrite A3. exact Hsh. }
    split; [exact HI1 |]. destruct Hcase as [Hf | Hr].
    - destruct Hf as (_ & Hst & Hnf & _). unfold frame_cm. rewrite Hst. repeat split; auto. lia.
    - destruct (Hre Hr) as (A1 & A2 & A3 & A4 & A5). destruct Hr as (_ & _ & Hnf & _).
      unfold frame_cm. repeat split; auto. lia.
  Qed.

  Definition cm_post (x : cmref) (s s' : state) : Prop :=
    INV s' /\ frame_cm s s' /\ (forall y, y <> x -> cm_get y (s_store s') = cm_get y (s_store s)).

  (** UpsertJobConfigMap *)
  Lemma upsert_cm_spec x s :
    INV s -> KF -> x <> CmOther ->
    let s' := fst (exec (upsert_cm x) s) in
    let r := snd (exec (upsert_cm x) s) in
    cm_post x s s' /\ (r = false -> cm_get x (s_store s') <> None) /\ (s_nfail s' = s_nfail s -> r = false).
  Proof.
    intros HI HK Hx. unfold upsert_cm. apin E0 s1 r1.
    destruct (ro_step (AGetCM x) _ _ _ HI eq_refl E0) as (HI1 & Hst1 & Hm1 & Hn1 & Hlv1).
    assert (F1 : frame_cm s s1) by (unfold frame_cm; rewrite Hst1, Hm1; repeat split; auto).
    assert (Hget : s_nfail s1 = s_nfail s -> r1 = match cm_get x (s_store s) with Some v => RCM v | None => RNotFound end).
    { intros Hq. destruct (Hlv1 Hq) as (-> & _). reflexivity. }
    assert (Hdone : forall P : prog bool, P = Ret true -> (s_nfail s1 = s_nfail s -> False) ->
              cm_post x s (fst (exec P s1)) /\ (snd (exec P s1) = false -> cm_get x (s_store (fst (exec P s1))) <> None)
              /\ (s_nfail (fst (exec P s1)) = s_nfail s -> snd (exec P s1) = false)).
    { intros P -> Hne. cbn [Binder.exec fst snd]. split; [| split; [discriminate | intros Hq; exfalso; auto]].
      split; [exact HI1 |]. split; [exact F1 |]. intros y _. rewrite Hst1. reflexivity. }
    assert (Hwrite : forall c, not_bind c ->
              (forall s2 r2, reached dp c s1 s2 r2 ->
                 (exists v, s_store s2 = cm_put x (Some v) (s_store s1) /\ r2 = ROk) \/ (s_store s2 = s_store s1 /\ r2 <> ROk /\ resp_ok r2 = false)) ->
              (s_nfail s1 = s_nfail s -> forall s2 r2, reached dp c s1 s2 r2 -> r2 = ROk) ->
              let P := Api c (fun r2 : resp => Ret (negb (resp_ok r2))) in
              cm_post x s (fst (exec P s1)) /\ (snd (exec P s1) = false -> cm_get x (s_store (fst (exec P s1))) <> None)
              /\ (s_nfail (fst (exec P s1)) = s_nfail s -> snd (exec P s1) = false)).
    { intros c Hnb Hre Hok P. unfold P. apin E2 s2 r2. cbn [Binder.exec fst snd].
      destruct (step_cm c _ _ _ HI1 HK Hnb E2) as (HI2 & F2).
      { intros Hr. destruct (Hre _ _ Hr) as [(v & Hst & _) | (Hst & _)]; rewrite Hst; [apply cm_put_same |].
        unfold same_but_cm. auto. }
      pose proof (step_spec _ _ _ _ _ _ E2) as (_ & _ & _ & Hcase).
      destruct (step_nfail _ _ _ _ E2) as (Hle & _ & Hrch).
      split; [split; [exact HI2 |]; split; [eapply frame_cm_trans; eauto |] |].
      - intros y Hy. destruct Hcase as [Hf | Hr].
        + destruct Hf as (_ & Hst & _). rewrite Hst, Hst1. reflexivity.
        + destruct (Hre _ _ Hr) as [(v & Hst & _) | (Hst & _)]; rewrite Hst, <- Hst1; [apply cm_get_put_other, Hy | reflexivity].
      - split.
        + intros Hr2. destruct Hcase as [Hf | Hr].
          * destruct Hf as (-> & _). discriminate.
          * destruct (Hre _ _ Hr) as [(v & Hst & _) | (_ & _ & Hbad)].
            { rewrite Hst, cm_get_put; [discriminate | exact Hx]. }
            { rewrite Hbad in Hr2. discriminate. }
        + intros Hq. assert (Hq1 : s_nfail s1 = s_nfail s) by (destruct F2 as (_&_&_&_&_&_&?); lia).
          assert (Hq2 : s_nfail s2 = s_nfail s1) by lia.
          rewrite (Hok Hq1 _ _ (Hrch Hq2)). reflexivity. }
    destruct r1 as [| | | | | | v | | |];
      try (apply Hdone; [reflexivity | intros Hq; specialize (Hget Hq); destruct (cm_get x (s_store s)); discriminate]).
    - (* NotFound: create *)
      apply (Hwrite (ACreateCM x) I).
      + intros s2 r2 (_ & _ & _ & Hd & _). cbn [is_watch] in Hd.
        destruct (do_create_cm _ _ _ _ _ Hx Hd) as [(_ & Hst & ->) | (_ & Hst & ->)]; [right | left; eauto].
        split; [exact Hst |]. split; [discriminate | reflexivity].
      + intros Hq s2 r2 (_ & _ & _ & Hd & _). cbn [is_watch] in Hd. specialize (Hget Hq).
        destruct (do_create_cm _ _ _ _ _ Hx Hd) as [(Hne & _) | (_ & _ & ->)]; [| reflexivity].
        rewrite Hst1 in Hne. destruct (cm_get x (s_store s)); [discriminate | contradiction].
    - (* found: patch *)
      assert (Hp : forall o cl, 
                cm_post x s (fst (exec (Api (APatchCM x o cl []) (fun r2 : resp => Ret (negb (resp_ok r2)))) s1))
                /\ (snd (exec (Api (APatchCM x o cl []) (fun r2 : resp => Ret (negb (resp_ok r2)))) s1) = false ->
                    cm_get x (s_store (fst (exec (Api (APatchCM x o cl []) (fun r2 : resp => Ret (negb (resp_ok r2)))) s1))) <> None)
                /\ (s_nfail (fst (exec (Api (APatchCM x o cl []) (fun r2 : resp => Ret (negb (resp_ok r2)))) s1)) = s_nfail s ->
                    snd (exec (Api (APatchCM x o cl []) (fun r2 : resp => Ret (negb (resp_ok r2)))) s1) = false)).
      { intros o cl. apply (Hwrite (APatchCM x o cl []) I).
        - intros s2 r2 (_ & _ & _ & Hd & _). cbn [is_watch] in Hd. apply do_patch_cm in Hd.
          destruct (cm_get x (s_store s1)); destruct Hd as (Hst & ->); [left; eauto | right].
          split; [exact Hst |]. split; [discriminate | reflexivity].
        - intros Hq s2 r2 (_ & _ & _ & Hd & _). cbn [is_watch] in Hd. apply do_patch_cm in Hd.
          specialize (Hget Hq). rewrite Hst1 in Hd.
          destruct (cm_get x (s_store s)); [destruct Hd as (_ & ->); reflexivity | discriminate]. }
      destruct (cm_owned v); apply Hp.
  Qed.

  Definition keeps_keys (f : cdata -> cdata) : Prop :=
    forall d k, data_get k (f d) = None -> data_get k d = None.

  (** UpdateConfigMapEnvironmentVariable *)
  Lemma update_cm_spec x f s :
    INV s -> KF -> x <> CmOther -> keeps_keys f ->
    let s' := fst (exec (update_cm x f) s) in
    let r := snd (exec (update_cm x f) s) in
    cm_post x s s'
    /\ (r = false -> exists v, cm_get x (s_store s) = Some v
                             /\ cm_get x (s_store s') = Some (mkCM (cm_owned v) (f (cm_data v))))
    /\ (s_nfail s' = s_nfail s -> cm_get x (s_store s) <> None -> r = false).
  Proof.
    intros HI HK Hx Hf. unfold update_cm. apin E0 s1 r1.
    destruct (ro_step (AGetCM x) _ _ _ HI eq_refl E0) as (HI1 & Hst1 & Hm1 & Hn1 & Hlv1).
    assert (F1 : frame_cm s s1) by (unfold frame_cm; rewrite Hst1, Hm1; repeat split; auto).
    assert (Hget : s_nfail s1 = s_nfail s -> r1 = match cm_get x (s_store s) with Some v => RCM v | None => RNotFound end).
    { intros Hq. destruct (Hlv1 Hq) as (-> & _). reflexivity. }
    destruct r1 as [| | | | | | v | | |];
      try (cbn [Binder.exec fst snd]; split; [split; [exact HI1 |]; split; [exact F1 |]; intros y _; rewrite Hst1; reflexivity |];
           split; [discriminate |]; intros Hq Hne; specialize (Hget Hq); destruct (cm_get x (s_store s)); [discriminate | contradiction]).
    (* the config map was read *)
    assert (Hv : cm_get x (s_store s) = Some v).
    { pose proof (step_spec _ _ _ _ _ _ E0) as (_ & _ & _ & [Hf0 | Hr]).
      - destruct Hf0 as (Hq & _). discriminate.
      - destruct Hr as (_ & _ & _ & Hd & _). cbn [is_watch] in Hd. apply do_get_cm in Hd as (_ & Hd).
        destruct (cm_get x (s_store s)); [injection Hd as ->; reflexivity | discriminate]. }
    apin E2 s2 r2. cbn [Binder.exec fst snd].
    set (sets := data_diff (cm_data v) (f (cm_data v))).
    assert (Hreach : reached dp (APatchCM x false false sets) s1 s2 r2 ->
              s_store s2 = cm_put x (Some (mkCM (cm_owned v) (f (cm_data v)))) (s_store s1) /\ r2 = ROk).
    { intros (_ & _ & _ & Hd & _). cbn [is_watch] in Hd. apply do_patch_cm in Hd. rewrite Hst1, Hv in Hd.
      destruct Hd as (Hst & ->). split; [| reflexivity]. rewrite Hst, Hst1. unfold sets.
      rewrite data_patch; [reflexivity | apply Hf]. }
    destruct (step_cm (APatchCM x false false sets) _ _ _ HI1 HK I E2) as (HI2 & F2).
    { intros Hr. destruct (Hreach Hr) as (Hst & _). rewrite Hst. apply cm_put_same. }
    pose proof (step_spec _ _ _ _ _ _ E2) as (_ & _ & _ & Hcase).
    destruct (step_nfail _ _ _ _ E2) as (Hle & _ & Hrch).
    split; [split; [exact HI2 |]; split; [eapply frame_cm_trans; eauto |] |].
    - intros y Hy. destruct Hcase as [Hf0 | Hr].
      + destruct Hf0 as (_ & Hst & _). rewrite Hst, Hst1. reflexivity.
      + destruct (Hreach Hr) as (Hst & _). rewrite Hst, <- Hst1. apply cm_get_put_other, Hy.
    - split.
      + intros Hr2. exists v. split; [exact Hv |]. destruct Hcase as [Hf0 | Hr].
        * destruct Hf0 as (-> & _). discriminate.
        * destruct (Hreach Hr) as (Hst & _). rewrite Hst. apply cm_get_put, Hx.
      + intros Hq _. assert (Hq2 : s_nfail s2 = s_nfail s1) by (destruct F2 as (_&_&_&_&_&_&?); lia).
        destruct (Hreach (Hrch Hq2)) as (_ & ->). reflexivity.
  Qed.

  Lemma keeps_set_visible idxs : keeps_keys (set_visible idxs).
  Proof.
    intros [a b c d] k. unfold set_visible. cbn [data_get d_visbc].
    destruct d; destruct k; simpl; intros H; auto; discriminate.
  Qed.

  Lemma keeps_set_portion : keeps_keys set_portion.
  Proof. intros [a b c d] k. unfold set_portion. destruct k; simpl; intros H; auto; discriminate. Qed.

  Definition vis_cm : cmref := if sc_vis_in_spec sc then CmCap else CmEvar.

  Definition cm_facts (idxs : list nat) (st : store) : Prop :=
    cm_cap st <> None /\ cm_evar st <> None
    /\ cm_value vis_cm EVisible st = Some (VList idxs)
    /\ cm_value CmCap EPortion st = Some VPortion /\ cm_value CmCap ENumGpusBC st = Some VPortion.

  Lemma get_set_visible idxs d : data_get EVisible (set_visible idxs d) = Some (VList idxs).
  Proof. destruct d as [a b c e]. unfold set_visible. cbn [data_get d_visbc]. destruct e; reflexivity. Qed.

  Lemma get_set_portion d :
    data_get EPortion (set_portion d) = Some VPortion /\ data_get ENumGpusBC (set_portion d) = Some VPortion
    /\ data_get EVisible (set_portion d) = data_get EVisible d.
  Proof. destruct d as [a b c e]. unfold set_portion. simpl. auto. Qed.

  (** gpusharing.PreBind *)
  Lemma gpusharing_prebind_spec idxs s :
    INV s -> sc_fraction sc = true ->
    let s' := fst (exec (gpusharing_prebind sc idxs) s) in
    let r := snd (exec (gpusharing_prebind sc idxs) s) in
    INV s' /\ frame_cm s s' /\ (r = false -> cm_facts idxs (s_store s'))
    /\ (s_nfail s' = s_nfail s -> sc_cmann sc = true -> r = false).
  Proof.
    intros HI Hfr. unfold gpusharing_prebind. destruct (sc_cmann sc) eqn:Ecm; cbn [negb].
    2: { cbn [Binder.exec fst snd]. split; [exact HI |]. split; [apply frame_cm_refl |].
         split; [discriminate | intros _ Hx; discriminate]. }
    assert (HK : KF) by (unfold KF; rewrite Hfr, Ecm; reflexivity).
    assert (Hvx : vis_cm <> CmOther) by (unfold vis_cm; destruct (sc_vis_in_spec sc); discriminate).
    (* upsert capabilities *)
    rewrite exec_bind.
    destruct (upsert_cm_spec CmCap s HI HK ltac:(discriminate)) as ((A1 & A2 & A3) & A4 & A5).
    destruct (exec (upsert_cm CmCap) s) as [s1 e1]. cbn [fst snd] in *.
    destruct e1.
    { cbn [Binder.exec fst snd]. split; [exact A1 |]. split; [exact A2 |]. split; [discriminate |].
      intros Hq _. specialize (A5 Hq). discriminate. }
    specialize (A4 eq_refl).
    (* upsert env *)
    rewrite exec_bind.
    destruct (upsert_cm_spec CmEvar s1 A1 HK ltac:(discriminate)) as ((B1 & B2 & B3) & B4 & B5).
    destruct (exec (upsert_cm CmEvar) s1) as [s2 e2]. cbn [fst snd] in *.
    pose proof (frame_cm_trans _ _ _ A2 B2) as F2.
    destruct e2.
    { cbn [Binder.exec fst snd]. split; [exact B1 |]. split; [exact F2 |]. split; [discriminate |].
      intros Hq _. destruct A2 as (_&_&_&_&_&_&?). destruct B2 as (_&_&_&_&_&_&?).
      specialize (B5 ltac:(lia)). discriminate. }
    specialize (B4 eq_refl).
    assert (Hcap2 : cm_cap (s_store s2) <> None).
    { pose proof (B3 CmCap ltac:(discriminate)) as Hq. cbn [cm_get] in Hq. rewrite Hq. exact A4. }
    assert (Hevar2 : cm_evar (s_store s2) <> None) by exact B4.
    (* visible devices *)
    rewrite exec_bind. fold vis_cm.
    destruct (update_cm_spec vis_cm (set_visible idxs) s2 B1 HK Hvx (keeps_set_visible idxs))
      as ((C1 & C2 & C3) & C4 & C5).
    destruct (exec (update_cm vis_cm (set_visible idxs)) s2) as [s3 e3]. cbn [fst snd] in *.
    pose proof (frame_cm_trans _ _ _ F2 C2) as F3.
    assert (Hvis2 : cm_get vis_cm (s_store s2) <> None).
    { unfold vis_cm. destruct (sc_vis_in_spec sc); assumption. }
    destruct e3.
    { cbn [Binder.exec fst snd]. split; [exact C1 |]. split; [exact F3 |]. split; [discriminate |].
      intros Hq _. destruct F2 as (_&_&_&_&_&_&?). destruct C2 as (_&_&_&_&_&_&?).
      specialize (C5 ltac:(lia) Hvis2). discriminate. }
    destruct (C4 eq_refl) as (v & Hv2 & Hv3).
    assert (Hcap3 : cm_cap (s_store s3) <> None).
    { destruct (sc_vis_in_spec sc) eqn:Ev; unfold vis_cm in *; rewrite Ev in *.
      - cbn [cm_get] in Hv3. rewrite Hv3. discriminate.
      - pose proof (C3 CmCap ltac:(discriminate)) as Hq. cbn [cm_get] in Hq. rewrite Hq. exact Hcap2. }
    assert (Hevar3 : cm_evar (s_store s3) <> None).
    { destruct (sc_vis_in_spec sc) eqn:Ev; unfold vis_cm in *; rewrite Ev in *.
      - pose proof (C3 CmEvar ltac:(discriminate)) as Hq. cbn [cm_get] in Hq. rewrite Hq. exact Hevar2.
      - cbn [cm_get] in Hv3. rewrite Hv3. discriminate. }
    (* portion *)
    destruct (update_cm_spec CmCap set_portion s3 C1 HK ltac:(discriminate) keeps_set_portion)
      as ((D1 & D2 & D3) & D4 & D5).
    destruct (exec (update_cm CmCap set_portion) s3) as [s4 e4]. cbn [fst snd] in *.
    pose proof (frame_cm_trans _ _ _ F3 D2) as F4.
    split; [exact D1 |]. split; [exact F4 |]. split.
    - intros ->. destruct (D4 eq_refl) as (w & Hw3 & Hw4). cbn [cm_get] in Hw3, Hw4.
      destruct (get_set_portion (cm_data w)) as (P1 & P2 & P3).
      unfold cm_facts, cm_value. cbn [cm_get]. rewrite Hw4. cbn [cm_data].
      split; [discriminate |].
      split; [pose proof (D3 CmEvar ltac:(discriminate)) as Hq; cbn [cm_get] in Hq; rewrite Hq; exact Hevar3 |].
      split; [| auto].
      destruct (sc_vis_in_spec sc) eqn:Ev; unfold vis_cm in *; rewrite Ev in *.
      + cbn [cm_get] in *. rewrite Hw4. cbn [cm_data]. rewrite P3.
        rewrite Hv3 in Hw3. injection Hw3 as <-. cbn [cm_data]. apply get_set_visible.
      + pose proof (D3 CmEvar ltac:(discriminate)) as Hq. rewrite Hq, Hv3. cbn [cm_data]. apply get_set_visible.
    - intros Hq _. apply D5; [| exact Hcap3].
      destruct F3 as (_&_&_&_&_&_&?). destruct D2 as (_&_&_&_&_&_&?). lia.
  Qed.

  (** reserveGPUs *)
  Lemma reserve_gpus_spec s :
    INV s -> M s ->
    let s' := fst (exec (reserve_gpus sc) s) in
    let r := snd (exec (reserve_gpus sc) s) in
    INV s' /\ s_nfail s <= s_nfail s'
    /\ cm_cap (s_store s') = cm_cap (s_store s) /\ cm_evar (s_store s') = cm_evar (s_store s)
    /\ match fst r with
       | ENone => M s' /\ Lab (sc_groups sc) (self (s_store s')) /\ all_idx (sc_groups sc) (s_store s') = Some (snd r)
       | EInvalid => sc_groups sc = []
       | EErr => True
       end
    /\ (s_nfail s' = s_nfail s -> dp_ok -> Live (s_store s) -> sc_groups sc <> [] ->
        fst r = ENone /\ Live (s_store s')).
  Proof.
    intros HI HM. unfold reserve_gpus. destruct (sc_groups sc) as [| g gs] eqn:Eg.
    - cbn [Binder.exec fst snd]. split; [exact HI |]. split; [lia |]. split; [reflexivity |]. split; [reflexivity |].
      split; [reflexivity |]. intros _ _ _ Hne. contradiction.
    - rewrite exec_bind.
      assert (HL0 : Lab [] (self (s_store s))).
      { unfold Lab. destruct (sc_multi sc); [intros x [] | intros x Hx; discriminate]. }
      destruct (reserve_loop_spec (g :: gs) [] [] s HI HM HL0 eq_refl) as (R1 & R2 & R3 & R4 & R5 & R6).
      destruct (exec (reserve_loop sc (g :: gs) []) s) as [s1 r1]. cbn [fst snd] in *.
      destruct r1 as [idxs |]; cbn [Binder.exec fst snd].
      + split; [exact R1 |]. split; [exact R2 |]. split; [exact R3 |]. split; [exact R4 |].
        split; [destruct (R5 idxs eq_refl) as (A & B & C); auto |].
        intros Hnf Hdp Hl _. destruct (R6 Hnf Hdp Hl) as (_ & Hl'). auto.
      + split; [exact R1 |]. split; [exact R2 |]. split; [exact R3 |]. split; [exact R4 |].
        split; [exact I |]. intros Hnf Hdp Hl _. destruct (R6 Hnf Hdp Hl) as ((x & Hx) & _). discriminate.
  Qed.

  Lemma Live_incl st st' : Live st -> incl (others st') (others st) -> Live st'.
  Proof.
    intros (Hsh & Han) Hi. split; [eapply SH_incl; eauto |].
    unfold annotated in *. rewrite Forall_forall in *. intros p Hp. apply Han, Hi, Hp.
  Qed.

  Lemma all_idx_others gs st st' : others st' = others st -> all_idx gs st' = all_idx gs st.
  Proof.
    intros H. induction gs as [| g gs IH]; [reflexivity |]. simpl. rewrite IH, !rsv_idx_ridx, H. reflexivity.
  Qed.

  (** the binding call *)
  Lemma bind_step s s1 r1 :
    G s -> p_node (self (s_store s)) = 0 -> step (ABind true) s = (s1, r1) ->
    G s1 /\ s_mem s1 = s_mem s /\ s_mark s1 = s_mark s /\ s_mark_end s1 = s_mark_end s
    /\ s_nfail s <= s_nfail s1
    /\ (r1 = ROk -> s_store s1 = set_self (s_store s) (with_node (self (s_store s)) 1))
    /\ (r1 <> ROk -> s_store s1 = s_store s)
    /\ (s_nfail s1 = s_nfail s -> r1 = ROk).
  Proof.
    intros HG Hn E. pose proof (step_spec _ _ _ _ _ _ E) as (Hm & Hk & Hke & [Hf | Hr]).
    - pose proof (G_faulted _ _ _ _ HG ltac:(discriminate) Hf) as HG1.
      destruct Hf as (-> & Hst & Hnf & _).
      split; [exact HG1 |]. split; [exact Hm |]. split; [exact Hk |]. split; [exact Hke |]. split; [lia |].
      split; [discriminate |]. split; [auto |]. intros; lia.
    - destruct Hr as (_ & _ & Hnf & Hd & Hlog & Hhist). cbn [is_watch] in Hd.
      destruct HG as (Hb & Hh & Hbi & He & Hnn). pose proof Hb as (Ha & Hn0 & Hrs & Hp & Ho).
      destruct (do_bind _ _ _ _ Ha Hd) as [(_ & Hst & ->) | (Hne & _)]; [| contradiction].
      split.
      + split; [rewrite Hst; unfold base; simpl; auto 10 |].
        unfold hist_ok. rewrite Hhist, Hlog, Hst. cbn [self set_self with_node p_node resp_outcome obs_of].
        split; [constructor; [unfold node_obs; cbn [self_alive set_self self with_node p_node]; rewrite Ha; auto | exact Hh] |].
        split; [rewrite binds_cons; cbn [is_bind_ok]; rewrite Hbi, Hn; reflexivity |].
        split; [cbn [existsb is_bind_elsewhere]; exact He | auto].
      + split; [exact Hm |]. split; [exact Hk |]. split; [exact Hke |]. split; [lia |].
        split; [auto |]. split; [intros Hx; contradiction | auto].
  Qed.
End Main.
