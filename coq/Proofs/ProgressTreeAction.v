(** C05, reclaim clause on queue trees of any depth, at the level of the reclaim
    action: C05_reclaim_progress (Proofs/Progress.v: any CanReclaimResources /
    validator oracle) instantiated with the plugin's answers on the numbers of the
    queue tree (Model/ProgressTree.v: [tree_gate] / [tree_valid], i.e.
    Model/Reclaim.v), whose hypotheses are discharged by the reclaim clause in
    numbers (Proofs/ProgressTree.v). *)
From Coq Require Import List ZArith PArith Bool Lia.
From KaiV Require Model.Reclaim Model.ReclaimSpec.
From KaiV Require Import Model.Progress Model.Signatures Model.ProgressTree.
From KaiV Require Import Proofs.Progress Proofs.ProgressTree.
Import ListNotations.
Set Default Timeout 60.
Open Scope Z_scope.

(** the validator's verdict on the scenario whose latest potential victim is [v] *)
Lemma tree_valid_last books st p pre v :
  tree_valid books st p (pre ++ [v]) =
  tree_reclaimable (books st) (pj_queue p) (pj_preempt p) (scenario_victims (pre ++ [v]) v).
Proof. unfold tree_valid. rewrite rev_app_distr. reflexivity. Qed.

Theorem reclaim_progress_on_tree books vfilter sfilter ahead use_sigs pending st0 before p after pre v post :
  let can := tree_gate books in
  let valid := tree_valid books in
  let s := fold_left (reclaim_step vfilter sfilter valid ahead use_sigs pending can) before (st0, []) in
  let qs := books (fst s) in
  let ev := scenario_victims (pre ++ [v]) v in
  ReclaimSpec.acyclicb (map to_rq qs) = true ->
  leaf_gate_good qs (pj_queue p) ->
  Forall (level_good qs (pj_preempt p) ev) (chain_q qs (pj_queue p)) ->
  Forall (fun k => reclaimer_level_within qs (pj_queue p) k = true /\
                   victim_level_above qs (pj_queue p) k (Z.of_nat (List.length ev) - 1) = true) ev ->
  skipped use_sigs pending (snd s) p = false ->
  reclaim_victims vfilter (fst s) p = pre ++ v :: post ->
  sfilter (fst s) p (pre ++ [v]) = true ->
  ahead (fst s) p (filter (on_node (rj_node v)) (pre ++ [v])) = O ->
  (exists n, In n (vs_nodes (fst s)) /\ sn_id n = rj_node v /\ 0 <= sn_idle n + sn_rel n) ->
  exists cm, In cm (vs_log (fst (reclaim_action vfilter sfilter valid ahead use_sigs pending can st0
                                                (before ++ p :: after))))
             /\ cm_job cm = pj_id p /\ cm_evicted cm <> [].
Proof.
  intros can valid s qs ev Hac Hgate Hch Hv Hskip Hvict Hsf Hah Hnode.
  apply (reclaim_action_progress vfilter sfilter valid ahead use_sigs pending can st0 before p after pre v post).
  - unfold can, tree_gate. fold s qs. now apply (tree_can_reclaim_accepts qs (pj_queue p) (pj_preempt p) ev).
  - exact Hskip.
  - exact Hvict.
  - fold s. split; [exact Hsf|]. split; [|split; [exact Hah|exact Hnode]].
    unfold valid. rewrite tree_valid_last. fold qs ev. now apply tree_reclaimable_accepts.
Qed.

(** * Non-vacuity: a tree of mixed depth

    The cluster of a mixed-depth hierarchy (the numbers are those of a real session):
        org (4, top-level, unlimited, holds 4)
         +- dept1 (3, deserved 2, holds 0) -- team1 (1, deserved 2, holds 0): the pending job
         +- over-quota-queue (2, deserved 2, holds 4): four preemptible pods on the one 4-GPU node
    team1 is three levels deep, over-quota-queue two. *)
Definition mx_team1 : pqueue := mkPQ 1 (Some 3%positive) 2 0 0 100.
Definition mx_over : pqueue := mkPQ 2 (Some 4%positive) 2 4 0 300.
Definition mx_dept1 : pqueue := mkPQ 3 (Some 4%positive) 2 0 0 100.
Definition mx_org : pqueue := mkPQ 4 None (-1) 4 0 400.
Definition mx_qs : list pqueue := [mx_team1; mx_over; mx_dept1; mx_org].
Definition mx_books (_ : vstate) : list pqueue := mx_qs.
Definition mx_st : vstate :=
  mkVS [mkSN 1 0 0] [mkRJ 10 2 50 true 1; mkRJ 11 2 50 true 1; mkRJ 12 2 50 true 1; mkRJ 13 2 50 true 1] [].
Definition mx_p : pjob := mkPJ 1 1 50 true 7.

Theorem mixed_depth_nonvacuous :
  (* the two root-to-leaf paths have different lengths and diverge below org *)
  path_q mx_qs 1 = [mx_org; mx_dept1; mx_team1] /\ path_q mx_qs 2 = [mx_org; mx_over]
  /\ level_of mx_qs 1 2 = Some (mx_dept1, mx_over)
  (* every hypothesis of reclaim_progress_on_tree holds for the pending job and the scenario [job 10] *)
  /\ ReclaimSpec.acyclicb (map to_rq mx_qs) = true
  /\ leaf_gate_good mx_qs 1
  /\ Forall (level_good mx_qs true [2%positive]) (chain_q mx_qs 1)
  /\ Forall (fun k => reclaimer_level_within mx_qs 1 k = true /\ victim_level_above mx_qs 1 k 0 = true) [2%positive]
  /\ scenario_victims ([] ++ [mkRJ 10 2 50 true 1]) (mkRJ 10 2 50 true 1) = [2%positive]
  (* and the action commits evict(job 10) + the nomination on node 1 *)
  /\ vs_log (fst (reclaim_action w_vfilter w_true3 (tree_valid mx_books) w_ahead true w_pending
                                 (tree_gate mx_books) mx_st [mx_p])) = [mkCommit 1 [10%positive] 1]
  (* climbing both queues in lock step instead stops at (dept1, org): the victims' side would be the
     unlimited root, which FitsReclaimStrategy never lets anything be taken from *)
  /\ lockstep 4 mx_qs mx_team1 mx_over = (mx_dept1, mx_org)
  /\ Reclaim.fits_strategy unit_res (to_rq mx_dept1) (to_rq mx_org) (Reclaim.alloc_vec (to_rq mx_org)) = false.
Proof.
  split; [reflexivity|]. split; [reflexivity|]. split; [reflexivity|]. split; [reflexivity|].
  split; [unfold leaf_gate_good; cbn; lia|].
  split.
  { unfold chain_q. cbn [climb find_q find List.length mx_qs pq_id mx_team1 mx_over mx_dept1 mx_org pq_parent Pos.eqb].
    repeat constructor; try (unfold taken_under; cbn; lia); intros H; discriminate H. }
  split; [repeat constructor|].
  split; [reflexivity|].
  split; [vm_compute; reflexivity|].
  split; vm_compute; reflexivity.
Qed.
