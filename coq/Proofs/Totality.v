(** Proofs for C10 (totality of the graph walks). *)
Set Default Timeout 60.
From Coq Require Import List ZArith String Ascii Bool PeanoNat Lia.
From KaiV Require Import Model.Totality.
Import ListNotations.
Arguments fuel_of : simpl never.

(** * Generic: downward paths in a functional-parent graph have no repetition *)
Section Descent.
  Context {K : Type} (par : K -> K) (N : K -> Prop).

  Fixpoint iterP (k : nat) (n : K) : K :=
    match k with O => n | S k' => iterP k' (par n) end.

  (** [down [n_k; ...; n_1]]: every n_i is a node, par n_(i+1) = n_i, and par n_1 is not a node *)
  Inductive down : list K -> Prop :=
  | down_one n : N n -> ~ N (par n) -> down [n]
  | down_cons n m p : N n -> par n = m -> down (m :: p) -> down (n :: m :: p).

  Lemma down_iter_out : forall p n, down (n :: p) -> ~ N (iterP (S (List.length p)) n).
  Proof.
    induction p as [|m p IH]; intros n Hd.
    - inversion Hd; subst. cbn. assumption.
    - inversion Hd as [|n' m' p' Hn Hpar Hd']; subst.
      change (iterP (S (List.length (par n :: p))) n) with (iterP (S (List.length p)) (par n)).
      apply IH. assumption.
  Qed.

  Lemma down_iter_in : forall p n j, down (n :: p) -> j <= List.length p -> N (iterP j n).
  Proof.
    induction p as [|m p IH]; intros n j Hd Hj.
    - assert (j = 0) by (cbn in Hj; lia). subst. inversion Hd; subst; assumption.
    - inversion Hd as [|n' m' p' Hn Hpar Hd']; subst.
      destruct j as [|j]; [exact Hn|].
      cbn [iterP]. apply IH; [assumption|]. cbn in Hj. lia.
  Qed.

  Lemma down_tail : forall n p, down (n :: p) -> p = [] \/ down p.
  Proof. intros n p Hd. inversion Hd; subst; [left; reflexivity|right; assumption]. Qed.

  Lemma down_suffix : forall p1 n p2, down (p1 ++ n :: p2) -> down (n :: p2).
  Proof.
    induction p1 as [|a p1 IH]; intros n p2 Hd; [exact Hd|].
    cbn in Hd. apply IH. destruct (down_tail _ _ Hd) as [He|Hd']; [|exact Hd'].
    destruct p1; discriminate.
  Qed.

  Lemma down_notin : forall p n, down (n :: p) -> ~ In n p.
  Proof.
    intros p n Hd Hin.
    apply in_split in Hin. destruct Hin as [p1 [p2 Heq]]. subst p.
    assert (Hs : down (n :: p2)) by (apply (down_suffix (n :: p1)); exact Hd).
    apply down_iter_out in Hs.
    apply Hs. apply (down_iter_in _ _ _ Hd).
    rewrite app_length. cbn. lia.
  Qed.

  Lemma down_NoDup : forall p, down p -> NoDup p.
  Proof.
    induction p as [|n p IH]; intros Hd; [constructor|].
    constructor; [apply down_notin; exact Hd|].
    destruct (down_tail _ _ Hd) as [->|Hd']; [constructor|apply IH; exact Hd'].
  Qed.

  Lemma down_all : forall p, down p -> Forall N p.
  Proof.
    induction 1; constructor; try assumption. constructor.
  Qed.
End Descent.

Lemma down_length {K} (par : K -> K) (U : list K) (p : list K) :
  down par (fun x => In x U) p -> List.length p <= List.length U.
Proof.
  intros Hd. apply NoDup_incl_length; [eapply down_NoDup; exact Hd|].
  intros x Hx. apply down_all in Hd. rewrite Forall_forall in Hd. apply Hd. exact Hx.
Qed.

(** * map_result / fold_result *)
Lemma map_result_done {A B} (f : A -> result B) (l : list A) :
  (forall x, In x l -> exists y, f x = Done y) -> exists ys, map_result f l = Done ys.
Proof.
  induction l as [|x l IH]; intros H; [eexists; reflexivity|].
  destruct (H x (or_introl eq_refl)) as [y Hy].
  destruct IH as [ys Hys]; [intros z Hz; apply H; right; exact Hz|].
  exists (y :: ys). cbn. rewrite Hy. cbn. rewrite Hys. reflexivity.
Qed.

(** * Walks on forests *)

Lemma reaches_root_lookup f g id : reaches_root f g id = true -> exists p, lookup g id = Some p.
Proof.
  destruct f; cbn [reaches_root]; destruct (lookup g id) as [p|]; intros H; try discriminate; eauto.
Qed.

Lemma reaches_root_mono f g id : reaches_root f g id = true -> reaches_root (S f) g id = true.
Proof.
  revert id. induction f as [|f IH]; intros id H.
  - cbn [reaches_root] in *. destruct (lookup g id) as [[p|]|]; try discriminate; reflexivity.
  - change (reaches_root (S (S f)) g id) with
      (match lookup g id with None => false | Some None => true | Some (Some p) => reaches_root (S f) g p end).
    change (reaches_root (S f) g id) with
      (match lookup g id with None => false | Some None => true | Some (Some p) => reaches_root f g p end) in H.
    destruct (lookup g id) as [[p|]|]; try discriminate; try reflexivity.
    apply IH. exact H.
Qed.

Lemma reaches_root_parent f g id p :
  reaches_root (S f) g id = true -> lookup g id = Some (Some p) -> reaches_root f g p = true.
Proof.
  intros H Hl.
  change (reaches_root (S f) g id) with
    (match lookup g id with None => false | Some None => true | Some (Some p) => reaches_root f g p end) in H.
  rewrite Hl in H. exact H.
Qed.

Lemma walk_unfold f g id par :
  lookup g id = Some par ->
  walk (S f) g (Some id) = bind (walk f g par) (fun l => Done (id :: l)).
Proof. intros Hl. cbn [walk]. rewrite Hl. reflexivity. Qed.

Lemma walk_missing f g id : lookup g id = None -> walk f g (Some id) = Done [].
Proof. intros Hl. destruct f; cbn [walk]; rewrite Hl; reflexivity. Qed.

Lemma walk_none f g : walk f g None = Done [].
Proof. destruct f; reflexivity. Qed.

Lemma walk_done_of_reaches : forall f g id,
  reaches_root f g id = true -> exists l, walk (S f) g (Some id) = Done l /\ l <> [].
Proof.
  induction f as [|f IH]; intros g id H.
  - cbn [reaches_root] in H. destruct (lookup g id) as [[p|]|] eqn:Hl; try discriminate.
    rewrite (walk_unfold _ _ _ _ Hl). rewrite walk_none. cbn. eexists; split; [reflexivity|discriminate].
  - destruct (reaches_root_lookup _ _ _ H) as [par Hl].
    rewrite (walk_unfold _ _ _ _ Hl).
    destruct par as [p|].
    + apply (reaches_root_parent _ _ _ _ H) in Hl as Hp.
      destruct (IH g p Hp) as [l [Hw _]]. rewrite Hw. cbn. eexists; split; [reflexivity|discriminate].
    + rewrite walk_none. cbn. eexists; split; [reflexivity|discriminate].
Qed.

Lemma lookup_in_keys g id p : lookup g id = Some p -> In id (keys g).
Proof.
  induction g as [|[k q] g IH]; cbn; [discriminate|].
  destruct (Pos.eqb_spec k id); intros H; [left; assumption|right; apply IH; exact H].
Qed.

Lemma in_keys_lookup g id : In id (keys g) -> exists p, lookup g id = Some p.
Proof.
  induction g as [|[k q] g IH]; cbn; [tauto|].
  intros [->|H]; [rewrite Pos.eqb_refl; eauto|].
  destruct (Pos.eqb k id); [eauto|apply IH; exact H].
Qed.

Lemma forest_reaches g id :
  forest g = true -> In id (keys g) -> reaches_root (List.length g) g id = true.
Proof.
  unfold forest. rewrite forallb_forall. intros H Hin.
  unfold keys in Hin. apply in_map_iff in Hin. destruct Hin as [e [<- He]]. apply H. exact He.
Qed.

Lemma forest_reaches_lookup g id p :
  forest g = true -> lookup g id = Some p -> reaches_root (List.length g) g id = true.
Proof. intros Hf Hl. apply forest_reaches; [exact Hf|eapply lookup_in_keys; exact Hl]. Qed.

(** in a forest every parent that is named exists *)
Lemma forest_parent_exists g id p :
  forest g = true -> lookup g id = Some (Some p) -> exists pp, lookup g p = Some pp.
Proof.
  intros Hf Hl. pose proof (forest_reaches_lookup _ _ _ Hf Hl) as H.
  destruct (List.length g) as [|n].
  - cbn [reaches_root] in H. rewrite Hl in H. discriminate.
  - apply (reaches_root_parent _ _ _ _ H) in Hl. eapply reaches_root_lookup. exact Hl.
Qed.

Theorem walk_total_on_forest g cur :
  forest g = true -> exists l, walk (fuel_of g) g cur = Done l.
Proof.
  intros Hf. destruct cur as [id|]; [|rewrite walk_none; eauto].
  destruct (lookup g id) as [p|] eqn:Hl.
  - destruct (walk_done_of_reaches _ _ _ (forest_reaches_lookup _ _ _ Hf Hl)) as [l [Hw _]].
    exists l. exact Hw.
  - rewrite walk_missing by exact Hl. eauto.
Qed.

Lemma walk_until_done_of_reaches : forall f g stop id,
  reaches_root f g id = true -> exists r, walk_until (S f) g stop (Some id) = Done r.
Proof.
  induction f as [|f IH]; intros g stop id H.
  - cbn [reaches_root] in H. destruct (lookup g id) as [[p|]|] eqn:Hl; try discriminate.
    cbn [walk_until]. rewrite Hl. destruct (stop id); eauto.
  - destruct (reaches_root_lookup _ _ _ H) as [par Hl].
    cbn [walk_until]. rewrite Hl. destruct (stop id); [eauto|].
    destruct par as [p|]; [|eauto].
    apply (reaches_root_parent _ _ _ _ H) in Hl as Hp.
    apply IH. exact Hp.
Qed.

Lemma walk_until_none f g stop : walk_until f g stop None = Done None.
Proof. destruct f; reflexivity. Qed.

Theorem walk_until_total_on_forest g stop cur :
  forest g = true -> exists r, walk_until (fuel_of g) g stop cur = Done r.
Proof.
  intros Hf. destruct cur as [id|]; [|rewrite walk_until_none; eauto].
  destruct (lookup g id) as [p|] eqn:Hl.
  - apply walk_until_done_of_reaches. eapply forest_reaches_lookup; eassumption.
  - unfold fuel_of. cbn [walk_until]. rewrite Hl. eauto.
Qed.

Theorem handler_total_on_forest g q :
  forest g = true -> exists l, handler (fuel_of g) g q = Done l.
Proof. intros Hf. unfold handler. apply walk_total_on_forest. exact Hf. Qed.

Theorem hierarchy_path_total_on_forest g q :
  forest g = true -> exists l, hierarchy_path (fuel_of g) g q = Done l.
Proof.
  intros Hf. unfold hierarchy_path.
  destruct (walk_total_on_forest g (Some q) Hf) as [l Hw]. rewrite Hw. cbn. eauto.
Qed.

Lemma hierarchy_path_nonempty g q p :
  forest g = true -> lookup g q = Some p ->
  exists x l, hierarchy_path (fuel_of g) g q = Done (x :: l).
Proof.
  intros Hf Hl. unfold hierarchy_path.
  destruct (walk_done_of_reaches _ _ _ (forest_reaches_lookup _ _ _ Hf Hl)) as [l [Hw Hne]].
  unfold fuel_of. rewrite Hw. cbn.
  destruct (rev l) as [|x r] eqn:Hr.
  - apply (f_equal (@rev _)) in Hr. rewrite rev_involutive in Hr. cbn in Hr. congruence.
  - eauto.
Qed.

Lemma level_pair_some a b p : exists q, level_pair a b (Some p) = Some q.
Proof.
  revert b p. induction a as [|x a IH]; intros b p; [cbn; eauto|].
  destruct b as [|y b]; [cbn; eauto|].
  cbn. destruct (Pos.eqb x y); [apply IH|eauto].
Qed.

Theorem leveled_queues_total_on_forest g a b :
  forest g = true -> lookup g a <> None -> lookup g b <> None ->
  exists p, leveled_queues (fuel_of g) g a b = Done p.
Proof.
  intros Hf Ha Hb. unfold leveled_queues.
  destruct (lookup g a) as [pa|] eqn:Hla; [|congruence].
  destruct (lookup g b) as [pb|] eqn:Hlb; [|congruence].
  destruct (hierarchy_path_nonempty _ _ _ Hf Hla) as [x [l Hx]].
  destruct (hierarchy_path_nonempty _ _ _ Hf Hlb) as [y [m Hy]].
  rewrite Hx, Hy. cbn.
  destruct (Pos.eqb x y).
  - destruct (level_pair_some l m (x, y)) as [q Hq]. rewrite Hq. eauto.
  - eauto.
Qed.

Lemma repeat_walk_total_on_forest g q n :
  forest g = true -> repeat_walk n (fuel_of g) g q = Done tt.
Proof.
  intros Hf. induction n as [|n IH]; [reflexivity|].
  cbn [repeat_walk]. destruct (walk_total_on_forest g (Some q) Hf) as [l Hw]. rewrite Hw. cbn. exact IH.
Qed.

Theorem reclaimable_total_on_forest g stop a b n :
  forest g = true -> lookup g a <> None -> lookup g b <> None ->
  exists v, reclaimable_skeleton (fuel_of g) g stop a b n = Done v.
Proof.
  intros Hf Ha Hb. unfold reclaimable_skeleton.
  destruct (leveled_queues_total_on_forest g a b Hf Ha Hb) as [p Hp]. rewrite Hp. cbn.
  rewrite (repeat_walk_total_on_forest g b n Hf). cbn.
  destruct (walk_until_total_on_forest g stop (Some a) Hf) as [r Hr]. rewrite Hr. cbn. eauto.
Qed.

Theorem minruntime_lca_total_on_forest g has a pa b pb :
  forest g = true -> exists r, minruntime_lca (fuel_of g) g has a pa b pb = Done r.
Proof.
  intros Hf. unfold minruntime_lca, path_from_obj.
  destruct (walk_total_on_forest g pa Hf) as [la Hla]. rewrite Hla. cbn.
  destruct (walk_total_on_forest g pb Hf) as [lb Hlb]. rewrite Hlb. cbn.
  destruct (rev la ++ [a]) as [|ta ra] eqn:Ea; [destruct (rev la); discriminate|].
  destruct (rev lb ++ [b]) as [|tb rb] eqn:Eb; [destruct (rev lb); discriminate|].
  destruct (negb (Pos.eqb ta tb)); eauto.
Qed.

(** * Unique keys *)
Lemma mem_In x l : mem x l = true <-> In x l.
Proof.
  unfold mem. rewrite existsb_exists. split.
  - intros [y [Hy He]]. apply Pos.eqb_eq in He. subst. exact Hy.
  - intros H. exists x. split; [exact H|apply Pos.eqb_refl].
Qed.

Lemma nodup_keys_NoDup l : nodup_keys l = true -> NoDup l.
Proof.
  induction l as [|x l IH]; cbn; [constructor|].
  rewrite andb_true_iff, negb_true_iff. intros [Hm Hr].
  constructor; [|apply IH; exact Hr].
  intros Hin. apply mem_In in Hin. congruence.
Qed.

Lemma lookup_of_in g id p : NoDup (keys g) -> In (id, p) g -> lookup g id = Some p.
Proof.
  induction g as [|[k q] g IH]; cbn; [tauto|].
  intros Hnd [He|Hin].
  - inversion He; subst. rewrite Pos.eqb_refl. reflexivity.
  - inversion Hnd as [|? ? Hk Hnd']; subst.
    destruct (Pos.eqb_spec k id) as [->|Hne].
    + exfalso. apply Hk. change id with (fst (id, p)). apply in_map. exact Hin.
    + apply IH; assumption.
Qed.

Lemma in_children_of g p c : In c (children_of g p) <-> In (c, Some p) g.
Proof.
  unfold children_of. rewrite in_map_iff. split.
  - intros [[k q] [<- Hf]]. apply filter_In in Hf. destruct Hf as [Hin Hq]. cbn in *.
    destruct q as [q|]; [|discriminate]. apply Pos.eqb_eq in Hq. subst. exact Hin.
  - intros Hin. exists (c, Some p). split; [reflexivity|]. apply filter_In. split; [exact Hin|].
    cbn. apply Pos.eqb_refl.
Qed.

Lemma in_top_queues g q : In q (top_queues g) <-> In (q, None) g.
Proof.
  unfold top_queues. rewrite in_map_iff. split.
  - intros [[k p] [<- Hf]]. apply filter_In in Hf. destruct Hf as [Hin Hq]. cbn in *.
    destruct p; [discriminate|]. exact Hin.
  - intros Hin. exists (q, None). split; [reflexivity|]. apply filter_In. split; [exact Hin|reflexivity].
Qed.

(** * UpdateQueueHierarchy on a well-formed graph changes nothing *)
Lemma clean_no_orphans f ch order cur :
  (forall id p, In (id, Some p) order -> lookup cur p <> None) ->
  clean_orphans f ch order cur = Done cur.
Proof.
  induction order as [|[id par] r IH]; intros H; [reflexivity|].
  cbn [clean_orphans].
  assert (IH' : clean_orphans f ch r cur = Done cur) by (apply IH; intros i p Hi; apply (H i p); right; exact Hi).
  destruct (lookup cur id); [|exact IH'].
  destruct par as [p|]; [|exact IH'].
  destruct (lookup cur p) eqn:Hp; [exact IH'|].
  exfalso. apply (H id p); [left; reflexivity|exact Hp].
Qed.

Lemma reaches_not_unbounded : forall k g id, reaches_root k g id = true -> chain_unbounded k g id = false.
Proof.
  induction k as [|k IH]; intros g id H.
  - cbn [reaches_root] in H. cbn [chain_unbounded]. destruct (lookup g id) as [[p|]|]; try discriminate; reflexivity.
  - destruct (reaches_root_lookup _ _ _ H) as [[p|] Hl].
    + apply (reaches_root_parent _ _ _ _ H) in Hl as Hp. cbn [chain_unbounded]. rewrite Hl. apply IH. exact Hp.
    + cbn [chain_unbounded]. rewrite Hl. reflexivity.
Qed.

Lemma filter_all {A} (P : A -> bool) (l : list A) : (forall x, In x l -> P x = true) -> filter P l = l.
Proof.
  induction l as [|x l IH]; intros H; [reflexivity|].
  cbn [filter]. rewrite (H x (or_introl eq_refl)). f_equal. apply IH. intros y Hy. apply H. right. exact Hy.
Qed.

Lemma clean_cycles_id_on_forest g : forest g = true -> clean_cycles g = g.
Proof.
  intros Hf. unfold clean_cycles. apply filter_all. intros e He.
  rewrite reaches_not_unbounded; [reflexivity|].
  apply forest_reaches; [exact Hf|]. unfold keys. apply in_map. exact He.
Qed.

Theorem update_queue_hierarchy_id_on_wellformed g :
  wellformed g = true -> update_queue_hierarchy (fuel_of g) g = Done g.
Proof.
  unfold wellformed. rewrite andb_true_iff. intros [Hnd Hf].
  apply nodup_keys_NoDup in Hnd.
  unfold update_queue_hierarchy. rewrite (clean_cycles_id_on_forest _ Hf). apply clean_no_orphans.
  intros id p Hin Hl.
  apply (lookup_of_in _ _ _ Hnd) in Hin.
  destruct (forest_parent_exists _ _ _ Hf Hin) as [pp Hpp]. congruence.
Qed.

(** * JobsOrderByQueues.PushJob *)
Lemma ensure_chain_none f g created : ensure_chain f g created None = Done created.
Proof. destruct f; reflexivity. Qed.

Lemma ensure_chain_done_of_reaches : forall k g created p,
  reaches_root k g p = true -> exists c, ensure_chain (S k) g created (Some p) = Done c.
Proof.
  induction k as [|k IH]; intros g created p H.
  - cbn [reaches_root] in H. destruct (lookup g p) as [[pp|]|] eqn:Hl; try discriminate.
    cbn [ensure_chain]. rewrite Hl. destruct (mem p created); eauto.
  - destruct (reaches_root_lookup _ _ _ H) as [ppar Hl].
    cbn [ensure_chain]. rewrite Hl. destruct (mem p created); [eauto|].
    destruct ppar as [pp|]; [|eauto].
    apply (reaches_root_parent _ _ _ _ H) in Hl as Hp.
    apply IH. exact Hp.
Qed.

Theorem push_job_total_on_forest g ch created q :
  forest g = true -> lookup g q <> None -> exists c, push_job (fuel_of g) g ch created q = Done c.
Proof.
  intros Hf Hq. unfold push_job.
  destruct (lookup g q) as [par|] eqn:Hl; [|congruence].
  destruct (ch q); [|eauto].
  destruct (walk_total_on_forest g (Some q) Hf) as [l Hw].
  assert (He : exists c, (if mem q created then Done created else ensure_chain (fuel_of g) g (q :: created) par) = Done c).
  { destruct (mem q created); [eauto|].
    destruct par as [p|]; [|rewrite ensure_chain_none; eauto].
    unfold fuel_of. apply ensure_chain_done_of_reaches.
    pose proof (forest_reaches_lookup _ _ _ Hf Hl) as Hr.
    destruct (List.length g) as [|n].
    - cbn [reaches_root] in Hr. rewrite Hl in Hr. discriminate.
    - apply reaches_root_mono. eapply reaches_root_parent; eassumption. }
  destruct He as [c Hc]. rewrite Hc. cbn [bind]. rewrite Hw. cbn [bind]. eauto.
Qed.

(** * GetMessageOfEviction: total for two existing queues on every graph (after ee1060a) *)
Theorem message_total_any g : message_total g.
Proof.
  intros a b Ha Hb. unfold eviction_message.
  destruct (lookup g a) as [pa|] eqn:Hla; [|congruence].
  destruct (lookup g b) as [pb|] eqn:Hlb; [|congruence].
  destruct (opt_qid_eqb pb pa || negb (is_some (lookup_par g pa)) || negb (is_some (lookup_par g pb))) eqn:Hc.
  - unfold details, queue_resources_fn. rewrite Hlb. cbn [bind]. rewrite Hla. reflexivity.
  - apply orb_false_iff in Hc. destruct Hc as [Hc Hpb]. apply orb_false_iff in Hc. destruct Hc as [_ Hpa].
    apply negb_false_iff in Hpa. apply negb_false_iff in Hpb.
    destruct pa as [x|]; [|discriminate]. destruct pb as [y|]; [|discriminate].
    cbn [lookup_par] in Hpa, Hpb.
    unfold details, queue_resources_fn.
    destruct (lookup g y); [|discriminate]. cbn [bind]. destruct (lookup g x); [reflexivity|discriminate].
Qed.

(** before the repair it needed: well-formed graph, and equal parents or both queues nested *)
Theorem eviction_message_v0_total_on_forest g a b pa pb :
  forest g = true -> lookup g a = Some pa -> lookup g b = Some pb ->
  (pa = pb \/ (pa <> None /\ pb <> None)) ->
  eviction_message_v0 g a b = Done tt.
Proof.
  intros Hf Ha Hb Hp. unfold eviction_message_v0. rewrite Ha, Hb.
  destruct (opt_qid_eqb pb pa) eqn:He.
  - unfold details, queue_resources_fn. rewrite Hb. cbn [bind]. rewrite Ha. reflexivity.
  - destruct Hp as [->|[Hna Hnb]].
    + exfalso. destruct pb as [x|]; cbn in He; [rewrite Pos.eqb_refl in He|]; discriminate.
    + destruct pa as [x|]; [|congruence]. destruct pb as [y|]; [|congruence].
      destruct (forest_parent_exists _ _ _ Hf Ha) as [xx Hx].
      destruct (forest_parent_exists _ _ _ Hf Hb) as [yy Hy].
      cbn [lookup_par]. rewrite Hx, Hy.
      unfold details, queue_resources_fn. rewrite Hy. cbn [bind]. rewrite Hx. reflexivity.
Qed.

(** * setFairShare *)
Lemma steps_lookup g q n : steps_to_root g q n -> exists p, lookup g q = Some p.
Proof. destruct 1; eauto. Qed.

Lemma steps_le_reaches g q n : steps_to_root g q n -> forall k, reaches_root k g q = true -> n <= k.
Proof.
  induction 1 as [id Hl|id p n Hl Hs IH]; intros k Hr; [lia|].
  destruct k as [|k].
  - cbn [reaches_root] in Hr. rewrite Hl in Hr. discriminate.
  - apply (reaches_root_parent _ _ _ _ Hr) in Hl. apply IH in Hl. lia.
Qed.

Lemma fair_share_rec_total g ch :
  forest g = true ->
  (forall x c, lookup g x <> None -> In c (ch x) -> lookup g c = Some (Some x)) ->
  forall fuel d level,
    (forall q, In q level -> steps_to_root g q d) -> List.length g < fuel + d ->
    exists l, fair_share_rec fuel g ch level = Done l.
Proof.
  intros Hf Hch. induction fuel as [|f IH]; intros d level Hlev Hlen.
  - cbn [fair_share_rec]. destruct level as [|q r]; [eauto|].
    exfalso. pose proof (Hlev q (or_introl eq_refl)) as Hs.
    destruct (steps_lookup _ _ _ Hs) as [p Hl].
    pose proof (steps_le_reaches _ _ _ Hs _ (forest_reaches_lookup _ _ _ Hf Hl)). lia.
  - cbn [fair_share_rec].
    assert (Hall : forallb (fun c => match lookup g c with Some _ => true | None => false end) level = true).
    { apply forallb_forall. intros q Hq. destruct (steps_lookup _ _ _ (Hlev q Hq)) as [p ->]. reflexivity. }
    rewrite Hall.
    destruct (map_result_done (fun q => fair_share_rec f g ch (ch q)) level) as [ls Hls].
    { intros q Hq. apply (IH (S d)); [|lia].
      intros c Hc. eapply str_step; [|apply Hlev; exact Hq].
      apply Hch; [|exact Hc]. destruct (steps_lookup _ _ _ (Hlev q Hq)) as [p ->]. discriminate. }
    rewrite Hls. cbn [bind]. eauto.
Qed.

Lemma set_fair_share_total g ch :
  NoDup (keys g) -> forest g = true ->
  (forall x c, lookup g x <> None -> In c (ch x) -> lookup g c = Some (Some x)) ->
  exists l, set_fair_share (fuel_of g) g ch = Done l.
Proof.
  intros Hnd Hf Hch. unfold set_fair_share. apply (fair_share_rec_total g ch Hf Hch (fuel_of g) 0).
  - intros q Hq. apply in_top_queues in Hq. apply (lookup_of_in _ _ _ Hnd) in Hq. constructor. exact Hq.
  - unfold fuel_of. lia.
Qed.

Theorem set_fair_share_total_on_wellformed g :
  wellformed g = true -> exists l, set_fair_share (fuel_of g) g (children_of g) = Done l.
Proof.
  unfold wellformed. rewrite andb_true_iff. intros [Hnd Hf]. apply nodup_keys_NoDup in Hnd.
  apply set_fair_share_total; [exact Hnd|exact Hf|].
  intros x c _ Hc. apply in_children_of in Hc. apply (lookup_of_in _ _ _ Hnd). exact Hc.
Qed.

(** * Sub-groups: FromPodGroup terminates on every list *)
Lemma smem_In x l : smem x l = true <-> In x l.
Proof.
  unfold smem. rewrite existsb_exists. split.
  - intros [y [Hy He]]. apply String.eqb_eq in He. subst. exact Hy.
  - intros H. exists x. split; [exact H|apply String.eqb_refl].
Qed.

Lemma has_dup_false l : has_dup l = false -> NoDup l.
Proof.
  induction l as [|x l IH]; cbn; [constructor|].
  rewrite orb_false_iff. intros [Hm Hr]. constructor; [|apply IH; exact Hr].
  intros Hin. apply smem_In in Hin. congruence.
Qed.

Lemma has_dup_true l : has_dup l = true -> ~ NoDup l.
Proof.
  induction l as [|x l IH]; cbn; [discriminate|].
  rewrite orb_true_iff. intros [Hm|Hr] Hnd; inversion Hnd; subst.
  - apply smem_In in Hm. contradiction.
  - apply IH; assumption.
Qed.

Definition pkey (sgs : list subgroup) (n : string) : string :=
  match find (fun s => String.eqb (sg_name s) n) sgs with
  | Some s => parent_key s
  | None => EmptyString
  end.

Lemma pkey_of_in sgs s : NoDup (names sgs) -> In s sgs -> pkey sgs (sg_name s) = parent_key s.
Proof.
  unfold pkey. induction sgs as [|t r IH]; cbn; [tauto|].
  intros Hnd Hin. inversion Hnd as [|? ? Ht Hnd']; subst.
  destruct (String.eqb_spec (sg_name t) (sg_name s)) as [He|Hne].
  - destruct Hin as [->|Hin]; [reflexivity|].
    exfalso. apply Ht. rewrite He. unfold names. apply in_map. exact Hin.
  - destruct Hin as [->|Hin]; [congruence|]. apply IH; assumption.
Qed.

Lemma in_sub_of sgs p s : In s (sub_of sgs p) <-> In s sgs /\ parent_key s = p.
Proof.
  unfold sub_of. rewrite filter_In. rewrite String.eqb_eq. tauto.
Qed.

Lemma build_tree_total sgs :
  NoDup (names sgs) -> ~ In EmptyString (names sgs) ->
  forall f p name,
    (p = [] /\ name = EmptyString \/ exists p', p = name :: p' /\ down (pkey sgs) (fun n => In n (names sgs)) p) ->
    List.length sgs < f + List.length p ->
    exists t, build_tree f sgs name = Done t.
Proof.
  intros Hnd Hroot. induction f as [|f IH]; intros p name Hp Hlen.
  - exfalso. destruct Hp as [[-> _]|[p' [-> Hd]]]; [cbn in Hlen; lia|].
    apply down_length in Hd. unfold names in Hd. rewrite map_length in Hd. lia.
  - cbn [build_tree].
    destruct (map_result_done (fun s => build_tree f sgs (sg_name s))
                (filter (fun s => has_children sgs (sg_name s)) (sub_of sgs name))) as [ts Hts].
    { intros s Hs. apply filter_In in Hs. destruct Hs as [Hs _]. apply in_sub_of in Hs. destruct Hs as [Hin Hpar].
      assert (HN : In (sg_name s) (names sgs)) by (unfold names; apply in_map; exact Hin).
      apply (IH (sg_name s :: p)); [|cbn; lia].
      right. exists p. split; [reflexivity|].
      destruct Hp as [[-> ->]|[p' [-> Hd]]].
      - constructor; [exact HN|]. rewrite (pkey_of_in _ _ Hnd Hin), Hpar. exact Hroot.
      - constructor; [exact HN| |exact Hd]. rewrite (pkey_of_in _ _ Hnd Hin). exact Hpar. }
    rewrite Hts. cbn [bind]. eauto.
Qed.

Theorem from_pod_group_total sgs :
  exists r, from_pod_group (S (List.length sgs)) sgs = Done r.
Proof.
  unfold from_pod_group.
  destruct (has_dup (names sgs)) eqn:Hd; [eauto|].
  destruct (negb (parents_found sgs)); [eauto|].
  destruct (smem EmptyString (names sgs)) eqn:He; [eauto|].
  destruct (build_tree_total sgs (has_dup_false _ Hd)) with (f := S (List.length sgs)) (p := @nil string) (name := EmptyString)
    as [t Ht].
  - intros Hin. apply smem_In in Hin. congruence.
  - left. split; reflexivity.
  - cbn. lia.
  - rewrite Ht. cbn [bind]. eauto.
Qed.

(** it falls back (returns an error) exactly on a duplicate name or an unresolvable parent *)
Theorem from_pod_group_fallback_iff sgs :
  from_pod_group (S (List.length sgs)) sgs = Done None <->
  (has_dup (names sgs) = true \/ parents_found sgs = false).
Proof.
  unfold from_pod_group.
  destruct (has_dup (names sgs)) eqn:Hd; [split; [left; reflexivity|reflexivity]|].
  destruct (parents_found sgs) eqn:Hp; cbn [negb]; [|split; [right; reflexivity|reflexivity]].
  split; [|intros [H|H]; discriminate].
  destruct (smem EmptyString (names sgs)); [discriminate|].
  destruct (build_tree (S (List.length sgs)) sgs EmptyString); cbn [bind]; discriminate.
Qed.

Theorem set_sub_groups_total sgs mm :
  exists l, set_sub_groups (S (List.length sgs)) sgs mm = Done l /\ l <> [].
Proof.
  unfold set_sub_groups. destruct (from_pod_group_total sgs) as [r ->]. cbn [bind].
  destruct r as [t|]; [|eexists; split; [reflexivity|discriminate]].
  destruct (all_pod_sets t); eexists; split; try reflexivity; discriminate.
Qed.

(** every pod set of the job has a positive minimum (max(minMember, 1)) *)
Lemma pods_of_tree_pos :
  forall f sgs name t, build_tree f sgs name = Done t -> forall n m, In (n, m) (all_pod_sets t) -> (1 <= m)%Z.
Proof.
  induction f as [|f IH]; intros sgs name t Hb n m Hin; [discriminate|].
  cbn [build_tree] in Hb.
  destruct (map_result (fun s => build_tree f sgs (sg_name s))
              (filter (fun s => has_children sgs (sg_name s)) (sub_of sgs name))) as [ts| |] eqn:Hts; try discriminate.
  cbn [bind] in Hb. inversion Hb; subst t. clear Hb.
  cbn [all_pod_sets] in Hin. apply in_app_or in Hin. destruct Hin as [Hin|Hin].
  - apply in_map_iff in Hin. destruct Hin as [s [He _]]. inversion He; subst. unfold pod_min. lia.
  - revert ts Hts Hin.
    generalize (filter (fun s => has_children sgs (sg_name s)) (sub_of sgs name)) as kids.
    induction kids as [|s kids IHk]; intros ts Hts Hin.
    + cbn in Hts. inversion Hts; subst. cbn in Hin. contradiction.
    + cbn [map_result] in Hts.
      destruct (build_tree f sgs (sg_name s)) as [t1| |] eqn:Ht1; try discriminate. cbn [bind] in Hts.
      destruct (map_result (fun s0 => build_tree f sgs (sg_name s0)) kids) as [ts1| |] eqn:Hk; try discriminate.
      cbn [bind] in Hts. inversion Hts; subst ts. apply in_app_or in Hin. destruct Hin as [Hin|Hin].
      * eapply IH; eassumption.
      * eapply IHk; [reflexivity|exact Hin].
Qed.

Theorem set_sub_groups_min_positive sgs mm l :
  set_sub_groups (S (List.length sgs)) sgs mm = Done l -> forall n m, In (n, m) l -> (1 <= m)%Z.
Proof.
  unfold set_sub_groups, from_pod_group.
  destruct (has_dup (names sgs)).
  { cbn [bind]. intros H n m Hin. inversion H; subst. destruct Hin as [He|[]]. inversion He. lia. }
  destruct (negb (parents_found sgs)).
  { cbn [bind]. intros H n m Hin. inversion H; subst. destruct Hin as [He|[]]. inversion He. lia. }
  destruct (smem EmptyString (names sgs)).
  { cbn [bind all_pod_sets app]. intros H n m Hin. inversion H; subst. destruct Hin as [He|[]]. inversion He. lia. }
  destruct (build_tree (S (List.length sgs)) sgs EmptyString) as [t| |] eqn:Hb; cbn [bind]; try discriminate.
  destruct (all_pod_sets t) as [|x r] eqn:Ha.
  - intros H n m Hin. inversion H; subst. destruct Hin as [He|[]]. inversion He. lia.
  - intros H n m Hin. inversion H; subst. rewrite <- Ha in Hin. eapply pods_of_tree_pos; eassumption.
Qed.

(** * UpdateQueueHierarchy terminates on every graph (cycles included): the subtree below an
    orphan is a tree because every queue has one parent and the orphan's parent is absent *)
Section DeleteSubtree.
  Variable g : qgraph.
  Hypothesis Hnd : NoDup (keys g).

  Definition opar (k : option qid) : option qid :=
    match k with
    | Some c => match lookup g c with Some (Some p) => Some p | _ => None end
    | None => None
    end.

  Lemma lookup_some_in cur id : lookup cur id <> None -> In id (keys cur).
  Proof. destruct (lookup cur id) eqn:H; [intros _; eapply lookup_in_keys; exact H|congruence]. Qed.

  Lemma keys_remove_key cur id : incl (keys (remove_key cur id)) (keys cur).
  Proof.
    intros x Hx. unfold keys, remove_key in *. apply in_map_iff in Hx. destruct Hx as [e [<- He]].
    apply filter_In in He. apply in_map. apply He.
  Qed.

  Lemma length_remove_key cur id : List.length (remove_key cur id) <= List.length cur.
  Proof.
    unfold remove_key. induction cur as [|e cur IH]; [cbn; lia|].
    cbn [filter]. match goal with |- context [if ?b then _ else _] => destruct b end; cbn [List.length]; lia.
  Qed.

  Lemma delete_subtree_total cur0 :
    forall f path id cur,
      incl (keys cur) (keys cur0) ->
      (lookup cur id <> None -> down opar (fun k => In k (map Some (keys cur0))) (Some id :: path)) ->
      List.length cur0 < f + S (List.length path) ->
      exists cur', delete_subtree f (children_of g) cur id = Done cur'
                   /\ incl (keys cur') (keys cur) /\ List.length cur' <= List.length cur.
  Proof.
    induction f as [|f IH]; intros path id cur Hinc Hdown Hlen.
    - cbn [delete_subtree]. destruct (lookup cur id) eqn:Hl.
      + exfalso. assert (Hd : down opar (fun k => In k (map Some (keys cur0))) (Some id :: path)) by (apply Hdown; congruence).
        apply down_length in Hd. rewrite map_length in Hd. unfold keys in Hd. rewrite map_length in Hd. cbn in Hd. lia.
      + exists cur. split; [reflexivity|]. split; [apply incl_refl|lia].
    - cbn [delete_subtree]. destruct (lookup cur id) eqn:Hl.
      2:{ exists cur. split; [reflexivity|]. split; [apply incl_refl|lia]. }
      assert (Hd : down opar (fun k => In k (map Some (keys cur0))) (Some id :: path)) by (apply Hdown; congruence).
      assert (Hfold : forall cs cur1, incl (keys cur1) (keys cur0) -> incl cs (children_of g id) ->
                exists cur', fold_result (delete_subtree f (children_of g)) cs cur1 = Done cur'
                             /\ incl (keys cur') (keys cur1) /\ List.length cur' <= List.length cur1).
      { induction cs as [|c cs IHc]; intros cur1 Hinc1 Hcs.
        - exists cur1. split; [reflexivity|]. split; [apply incl_refl|lia].
        - cbn [fold_result].
          destruct (IH (Some id :: path) c cur1 Hinc1) as [cur2 [H2 [Hi2 Hl2]]].
          + intros Hc. constructor; [| |exact Hd].
            * apply in_map. apply Hinc1. apply lookup_some_in. exact Hc.
            * cbn [opar]. assert (Hin : In c (children_of g id)) by (apply Hcs; left; reflexivity).
              apply in_children_of in Hin. rewrite (lookup_of_in _ _ _ Hnd Hin). reflexivity.
          + cbn [List.length]. lia.
          + rewrite H2. cbn [bind].
            destruct (IHc cur2) as [cur3 [H3 [Hi3 Hl3]]].
            * intros x Hx. apply Hinc1. apply Hi2. exact Hx.
            * intros x Hx. apply Hcs. right. exact Hx.
            * exists cur3. split; [exact H3|]. split; [intros x Hx; apply Hi2; apply Hi3; exact Hx|lia]. }
      destruct (Hfold (children_of g id) cur Hinc (incl_refl _)) as [cur' [H' [Hi' Hl']]].
      rewrite H'. cbn [bind]. eexists. split; [reflexivity|]. split.
      + intros x Hx. apply Hi'. eapply keys_remove_key. exact Hx.
      + pose proof (length_remove_key cur' id). lia.
  Qed.

  Lemma clean_orphans_total :
    forall order cur,
      incl order g -> List.length cur <= List.length g ->
      exists cur', clean_orphans (fuel_of g) (children_of g) order cur = Done cur'
                   /\ List.length cur' <= List.length g.
  Proof.
    induction order as [|[id par] r IH]; intros cur Hord Hlen.
    - exists cur. split; [reflexivity|exact Hlen].
    - cbn [clean_orphans].
      assert (Hr : incl r g) by (intros x Hx; apply Hord; right; exact Hx).
      destruct (lookup cur id) eqn:Hl; [|apply IH; assumption].
      destruct par as [p|]; [|apply IH; assumption].
      destruct (lookup cur p) eqn:Hp; [apply IH; assumption|].
      destruct (delete_subtree_total cur (fuel_of g) [] id cur (incl_refl _)) as [cur' [H' [_ Hl']]].
      + intros _. constructor.
        * apply in_map. eapply lookup_in_keys. exact Hl.
        * cbn [opar]. assert (Hin : In (id, Some p) g) by (apply Hord; left; reflexivity).
          rewrite (lookup_of_in _ _ _ Hnd Hin).
          intros Hc. apply in_map_iff in Hc. destruct Hc as [x [Hx Hk]]. inversion Hx; subst x.
          destruct (in_keys_lookup _ _ Hk) as [pp Hpp]. congruence.
      + unfold fuel_of. cbn [List.length]. lia.
      + rewrite H'. cbn [bind]. apply IH; [exact Hr|lia].
  Qed.
End DeleteSubtree.

(** * The decidable forest test is the declarative one (no bound on the chain length) *)
Lemma steps_reaches g id n : steps_to_root g id n -> reaches_root n g id = true.
Proof.
  induction 1 as [id Hl|id p n Hl Hs IH].
  - cbn [reaches_root]. rewrite Hl. reflexivity.
  - change (reaches_root (S n) g id) with
      (match lookup g id with None => false | Some None => true | Some (Some p) => reaches_root n g p end).
    rewrite Hl. exact IH.
Qed.

Lemma reaches_root_mono_le g id n k : n <= k -> reaches_root n g id = true -> reaches_root k g id = true.
Proof.
  induction 1 as [|k Hle IH]; intros H; [exact H|]. apply reaches_root_mono. apply IH. exact H.
Qed.

Lemma reaches_steps : forall k g id, reaches_root k g id = true -> exists n, steps_to_root g id n.
Proof.
  induction k as [|k IH]; intros g id H.
  - cbn [reaches_root] in H. destruct (lookup g id) as [[p|]|] eqn:Hl; try discriminate.
    exists 0. constructor. exact Hl.
  - destruct (reaches_root_lookup _ _ _ H) as [[p|] Hl].
    + apply (reaches_root_parent _ _ _ _ H) in Hl as Hp. destruct (IH g p Hp) as [n Hn].
      exists (S n). econstructor; eassumption.
    + exists 0. constructor. exact Hl.
Qed.

Lemma steps_down g id n :
  steps_to_root g id n ->
  exists path, down (opar g) (fun k => In k (map Some (keys g))) (Some id :: path) /\ List.length path = n.
Proof.
  induction 1 as [id Hl|id p n Hl Hs [path [Hd Hlen]]].
  - exists []. split; [|reflexivity]. constructor.
    + apply in_map. eapply lookup_in_keys. exact Hl.
    + cbn [opar]. rewrite Hl. intros Hc. apply in_map_iff in Hc. destruct Hc as [x [Hx _]]. discriminate.
  - exists (Some p :: path). split; [|cbn; lia]. constructor; [| |exact Hd].
    + apply in_map. eapply lookup_in_keys. exact Hl.
    + cbn [opar]. rewrite Hl. reflexivity.
Qed.

Theorem steps_bounded g id n : steps_to_root g id n -> S n <= List.length g.
Proof.
  intros Hs. destruct (steps_down _ _ _ Hs) as [path [Hd Hlen]].
  apply down_length in Hd. rewrite map_length in Hd. unfold keys in Hd. rewrite map_length in Hd.
  cbn in Hd. lia.
Qed.

Theorem forest_iff_is_forest g : forest g = true <-> is_forest g.
Proof.
  split.
  - intros Hf id Hin. eapply reaches_steps. apply forest_reaches; eassumption.
  - intros H. unfold forest. apply forallb_forall. intros e He.
    assert (Hin : In (fst e) (keys g)) by (unfold keys; apply in_map; exact He).
    destruct (H _ Hin) as [n Hn].
    apply (reaches_root_mono_le _ _ n); [|apply steps_reaches; exact Hn].
    pose proof (steps_bounded _ _ _ Hn). lia.
Qed.

(** * Refutations: the hypothesis-free statements fail on the code as it is *)

(** queue a { parent: a } *)
Definition g_self : qgraph := [(1%positive, Some 1%positive)].
(** a <-> b *)
Definition g_two : qgraph := [(1%positive, Some 2%positive); (2%positive, Some 1%positive)].
(** a healthy root, an orphan (parent 9 does not exist) *)
Definition g_orphan : qgraph := [(1%positive, None); (2%positive, Some 9%positive)].
(** leaves at different depths: 1 is a top-level leaf, 3 is a leaf under 2 *)
Definition g_mixed : qgraph := [(1%positive, None); (2%positive, None); (3%positive, Some 2%positive)].

Lemma self_parent_walk_spins :
  update_queue_hierarchy_v0 (fuel_of g_self) g_self = Done g_self /\
  walk (fuel_of g_self) g_self (Some 1%positive) = OutOfFuel /\
  walk_until (fuel_of g_self) g_self (fun _ => false) (Some 1%positive) = OutOfFuel /\
  hierarchy_path (fuel_of g_self) g_self 1%positive = OutOfFuel.
Proof. vm_compute. repeat split. Qed.

Lemma two_cycle_walk_spins :
  update_queue_hierarchy_v0 (fuel_of g_two) g_two = Done g_two /\
  walk (fuel_of g_two) g_two (Some 1%positive) = OutOfFuel /\
  reclaimable_skeleton (fuel_of g_two) g_two (fun _ => false) 1%positive 2%positive 1 = OutOfFuel.
Proof. vm_compute. repeat split. Qed.

Lemma more_fuel_does_not_help : forall f, walk f g_self (Some 1%positive) = OutOfFuel.
Proof. induction f as [|f IH]; [reflexivity|]. cbn [walk g_self lookup Pos.eqb]. rewrite IH. reflexivity. Qed.

Lemma orphan_job_handler_panics :
  exists g', update_queue_hierarchy (fuel_of g_orphan) g_orphan = Done g' /\
             lookup g' 2%positive = None /\
             handler_v0 (fuel_of g') g' 2%positive = Panic /\
             handler (fuel_of g') g' 2%positive = Done [].
Proof. eexists. vm_compute. repeat split. Qed.

Lemma top_level_leaf_message_panics :
  wellformed g_mixed = true /\
  eviction_message_v0 g_mixed 1%positive 3%positive = Panic /\
  eviction_message_v0 g_mixed 3%positive 1%positive = Panic /\
  eviction_message_v0 g_mixed 1%positive 2%positive = Done tt /\
  eviction_message g_mixed 1%positive 3%positive = Done tt.
Proof. vm_compute. repeat split. Qed.

(** non-vacuity: a three-level forest is well formed and everything terminates on it *)
Definition g_tree : qgraph :=
  [(1%positive, None); (2%positive, Some 1%positive); (3%positive, Some 1%positive); (4%positive, Some 2%positive)].
Lemma tree_wellformed :
  wellformed g_tree = true /\
  walk (fuel_of g_tree) g_tree (Some 4%positive) = Done [4%positive; 2%positive; 1%positive] /\
  leveled_queues (fuel_of g_tree) g_tree 4%positive 3%positive = Done (2%positive, 3%positive) /\
  set_fair_share (fuel_of g_tree) g_tree (children_of g_tree) = Done [1%positive; 2%positive; 3%positive; 4%positive] /\
  eviction_message g_tree 4%positive 3%positive = Done tt.
Proof. vm_compute. repeat split. Qed.


(** * What UpdateQueueHierarchy leaves behind, on ANY graph *)

Lemma lookup_in g id v : lookup g id = Some v -> In (id, v) g.
Proof.
  induction g as [|[k q] g IH]; cbn; [discriminate|].
  destruct (Pos.eqb_spec k id) as [->|Hne]; intros H; [inversion H; left; reflexivity|right; apply IH; exact H].
Qed.

Lemma not_in_keys_lookup g id : ~ In id (keys g) -> lookup g id = None.
Proof.
  intros H. destruct (lookup g id) eqn:Hl; [|reflexivity]. exfalso. apply H. eapply lookup_in_keys. exact Hl.
Qed.

Lemma in_keys_of_in (g : qgraph) id v : In (id, v) g -> In id (keys g).
Proof. intros H. change id with (fst (id, v)). unfold keys. apply in_map. exact H. Qed.

Lemma NoDup_keys_filter (P : qid * option qid -> bool) g : NoDup (keys g) -> NoDup (keys (filter P g)).
Proof.
  induction g as [|e g IH]; cbn; [constructor|].
  intros Hnd. inversion Hnd as [|? ? Hn Hnd']; subst.
  destruct (P e); [|apply IH; exact Hnd'].
  cbn. constructor; [|apply IH; exact Hnd'].
  intros Hin. apply Hn. unfold keys in *. apply in_map_iff in Hin. destruct Hin as [x [Hx Hf]].
  apply filter_In in Hf. rewrite <- Hx. apply in_map. apply Hf.
Qed.

Lemma remove_key_sub cur id e : In e (remove_key cur id) -> In e cur.
Proof. unfold remove_key. intros H. apply filter_In in H. apply H. Qed.

Lemma remove_key_absent cur id : ~ In id (keys (remove_key cur id)).
Proof.
  unfold remove_key, keys. intros H. apply in_map_iff in H. destruct H as [e [He Hf]].
  apply filter_In in Hf. destruct Hf as [_ Hf]. subst id. rewrite Pos.eqb_refl in Hf. discriminate.
Qed.

Lemma remove_key_keeps cur id x : x <> id -> In x (keys cur) -> In x (keys (remove_key cur id)).
Proof.
  unfold remove_key, keys. intros Hne H. apply in_map_iff in H. destruct H as [e [He Hin]].
  apply in_map_iff. exists e. split; [exact He|]. apply filter_In. split; [exact Hin|].
  apply negb_true_iff. apply Pos.eqb_neq. subst x. exact Hne.
Qed.

Section HierarchySpec.
  Variable ch : qid -> list qid.

  Definition absent (cur : qgraph) (x : qid) : Prop := ~ In x (keys cur).

  Record del_post (cur cur' : qgraph) (roots : list qid) : Prop := {
    dp_sub : forall e, In e cur' -> In e cur;
    dp_nodup : NoDup (keys cur) -> NoDup (keys cur');
    dp_roots : forall r, In r roots -> absent cur' r;
    dp_down : forall x, In x (keys cur) -> absent cur' x -> forall c, In c (ch x) -> absent cur' c;
    dp_up : forall c, In c (keys cur) -> absent cur' c ->
                      In c roots \/ exists y, In c (ch y) /\ absent cur' y
  }.

  Lemma sub_absent cur cur' x : (forall e, In e cur' -> In e cur) -> absent cur x -> absent cur' x.
  Proof.
    intros Hs Ha Hin. apply Ha. unfold keys in *. apply in_map_iff in Hin. destruct Hin as [e [He Hin]].
    rewrite <- He. apply in_map. apply Hs. exact Hin.
  Qed.

  Lemma in_keys_dec (cur : qgraph) x : {In x (keys cur)} + {~ In x (keys cur)}.
  Proof. apply in_dec. apply Pos.eq_dec. Qed.

  Lemma del_post_refl cur roots : (forall r, In r roots -> absent cur r) -> del_post cur cur roots.
  Proof.
    intros Hr. constructor.
    - intros e He. exact He.
    - intros H. exact H.
    - exact Hr.
    - intros x Hx Ha. contradiction.
    - intros c Hc Ha. contradiction.
  Qed.

  Lemma fold_post f :
    (forall cur id cur', delete_subtree f ch cur id = Done cur' -> del_post cur cur' [id]) ->
    forall cs cur1 curk, fold_result (delete_subtree f ch) cs cur1 = Done curk -> del_post cur1 curk cs.
  Proof.
    intros IHf. induction cs as [|c r IH]; intros cur1 curk H.
    - cbn in H. inversion H; subst. apply del_post_refl. intros x [].
    - cbn [fold_result] in H.
      destruct (delete_subtree f ch cur1 c) as [cur2| |] eqn:H1; try discriminate. cbn [bind] in H.
      pose proof (IHf _ _ _ H1) as P1. pose proof (IH _ _ H) as P2.
      constructor.
      + intros e He. apply (dp_sub _ _ _ P1). apply (dp_sub _ _ _ P2). exact He.
      + intros Hnd. apply (dp_nodup _ _ _ P2). apply (dp_nodup _ _ _ P1). exact Hnd.
      + intros x [<-|Hx].
        * apply (sub_absent cur2); [apply (dp_sub _ _ _ P2)|]. apply (dp_roots _ _ _ P1). left. reflexivity.
        * apply (dp_roots _ _ _ P2). exact Hx.
      + intros x Hx Ha c' Hc'.
        destruct (in_keys_dec cur2 x) as [Hin|Hnin].
        * apply (dp_down _ _ _ P2 x Hin Ha c' Hc').
        * apply (sub_absent cur2); [apply (dp_sub _ _ _ P2)|]. apply (dp_down _ _ _ P1 x Hx Hnin c' Hc').
      + intros c' Hc' Ha.
        destruct (in_keys_dec cur2 c') as [Hin|Hnin].
        * destruct (dp_up _ _ _ P2 c' Hin Ha) as [Hr|[y [Hy Hay]]]; [left; right; exact Hr|right; eauto].
        * destruct (dp_up _ _ _ P1 c' Hc' Hnin) as [[<-|[]]|[y [Hy Hay]]]; [left; left; reflexivity|].
          right. exists y. split; [exact Hy|]. apply (sub_absent cur2); [apply (dp_sub _ _ _ P2)|exact Hay].
  Qed.

  Lemma delete_subtree_post :
    forall f cur id cur', delete_subtree f ch cur id = Done cur' -> del_post cur cur' [id].
  Proof.
    induction f as [|f IH]; intros cur id cur' H; cbn [delete_subtree] in H.
    - destruct (lookup cur id) eqn:Hl; [discriminate|]. inversion H; subst.
      apply del_post_refl. intros r [<-|[]]. intros Hin. destruct (in_keys_lookup _ _ Hin). congruence.
    - destruct (lookup cur id) eqn:Hl.
      2:{ inversion H; subst. apply del_post_refl. intros r [<-|[]]. intros Hin. destruct (in_keys_lookup _ _ Hin). congruence. }
      destruct (fold_result (delete_subtree f ch) (ch id) cur) as [cur1| |] eqn:Hf; try discriminate.
      cbn [bind] in H. inversion H; subst cur'. clear H.
      pose proof (fold_post f IH _ _ _ Hf) as P.
      constructor.
      + intros e He. apply (dp_sub _ _ _ P). eapply remove_key_sub. exact He.
      + intros Hnd. apply NoDup_keys_filter. apply (dp_nodup _ _ _ P). exact Hnd.
      + intros r [<-|[]]. apply remove_key_absent.
      + intros x Hx Ha c Hc.
        destruct (Pos.eq_dec x id) as [->|Hne].
        * apply (sub_absent cur1); [intros e; apply remove_key_sub|]. apply (dp_roots _ _ _ P). exact Hc.
        * apply (sub_absent cur1); [intros e; apply remove_key_sub|].
          apply (dp_down _ _ _ P x Hx); [|exact Hc].
          intros Hin. apply Ha. apply remove_key_keeps; assumption.
      + intros c Hc Ha.
        destruct (Pos.eq_dec c id) as [->|Hne]; [left; left; reflexivity|].
        assert (Ha1 : absent cur1 c) by (intros Hin; apply Ha; apply remove_key_keeps; assumption).
        destruct (dp_up _ _ _ P c Hc Ha1) as [Hr|[y [Hy Hay]]].
        * right. exists id. split; [exact Hr|apply remove_key_absent].
        * right. exists y. split; [exact Hy|]. apply (sub_absent cur1); [intros e; apply remove_key_sub|exact Hay].
  Qed.
End HierarchySpec.

Section CleanOrphansSpec.
  Variable g1 : qgraph.
  Hypothesis Hnd1 : NoDup (keys g1).
  Let ch := children_of g1.

  Record inv (order cur : qgraph) : Prop := {
    i_sub : forall e, In e cur -> In e g1;
    i_nodup : NoDup (keys cur);
    i_bad : forall c x, In (c, Some x) cur -> absent cur x -> In (c, Some x) order;
    i_kids : forall x, In x (keys cur) -> forall c, In c (ch x) -> In c (keys cur);
    i_healthy : forall x n, steps_to_root g1 x n -> In x (keys cur)
  }.

  Lemma same_entry id v w : In (id, v) g1 -> In (id, w) g1 -> v = w.
  Proof.
    intros H1 H2. apply (lookup_of_in _ _ _ Hnd1) in H1. apply (lookup_of_in _ _ _ Hnd1) in H2. congruence.
  Qed.

  Lemma clean_orphans_spec fuel :
    forall order cur cur',
      incl order g1 -> inv order cur ->
      clean_orphans fuel ch order cur = Done cur' -> inv [] cur'.
  Proof.
    induction order as [|[id par] r IH]; intros cur cur' Hord Hinv H.
    - cbn in H. inversion H; subst. exact Hinv.
    - cbn [clean_orphans] in H.
      assert (Hr : incl r g1) by (intros x Hx; apply Hord; right; exact Hx).
      assert (He : In (id, par) g1) by (apply Hord; left; reflexivity).
      (* the entry just visited is not needed any more when it is absent or not an orphan *)
      assert (Hskip : (lookup cur id = None \/ par = None \/ exists p, par = Some p /\ lookup cur p <> None) ->
                      inv r cur).
      { intros Hc. destruct Hinv as [Is Ind Ib Ik Ih]. constructor; try assumption.
        intros c x Hin Ha. destruct (Ib c x Hin Ha) as [Heq|Hin']; [|exact Hin'].
        exfalso. inversion Heq; subst. destruct Hc as [Hc|[Hc|[p [Hp Hc]]]].
        - apply in_keys_of_in in Hin. destruct (in_keys_lookup _ _ Hin). congruence.
        - discriminate.
        - inversion Hp; subst. apply Hc. apply not_in_keys_lookup. exact Ha. }
      destruct (lookup cur id) eqn:Hl; [|apply (IH cur cur' Hr); [apply Hskip; left; reflexivity|exact H]].
      destruct par as [p|]; [|apply (IH cur cur' Hr); [apply Hskip; right; left; reflexivity|exact H]].
      destruct (lookup cur p) eqn:Hp;
        [apply (IH cur cur' Hr); [apply Hskip; right; right; exists p; split; [reflexivity|congruence]|exact H]|].
      destruct (delete_subtree fuel ch cur id) as [cur1| |] eqn:Hd; try discriminate. cbn [bind] in H.
      apply (IH cur1 cur' Hr); [|exact H].
      pose proof (delete_subtree_post ch _ _ _ _ Hd) as P.
      destruct Hinv as [Is Ind Ib Ik Ih].
      assert (Hidabs : absent cur1 id) by (apply (dp_roots _ _ _ _ P); left; reflexivity).
      constructor.
      + intros e He'. apply Is. apply (dp_sub _ _ _ _ P). exact He'.
      + apply (dp_nodup _ _ _ _ P). exact Ind.
      + intros c x Hin Ha.
        assert (Hin0 : In (c, Some x) cur) by (apply (dp_sub _ _ _ _ P); exact Hin).
        destruct (in_keys_dec cur x) as [Hx|Hx].
        * exfalso. assert (Hc : In c (ch x)) by (apply in_children_of; apply Is; exact Hin0).
          apply (dp_down _ _ _ _ P x Hx Ha c Hc). eapply in_keys_of_in. exact Hin.
        * destruct (Ib c x Hin0 Hx) as [Heq|Hin']; [|exact Hin'].
          exfalso. inversion Heq; subst. apply Hidabs. eapply in_keys_of_in. exact Hin.
      + intros x Hx c Hc.
        assert (Hx0 : In x (keys cur)).
        { unfold keys in *. apply in_map_iff in Hx. destruct Hx as [e [<- Hin]]. apply in_map. apply (dp_sub _ _ _ _ P). exact Hin. }
        pose proof (Ik x Hx0 c Hc) as Hc0.
        destruct (in_keys_dec cur1 c) as [Hin|Hnin]; [exact Hin|exfalso].
        assert (Hcx : In (c, Some x) g1) by (apply in_children_of; exact Hc).
        destruct (dp_up _ _ _ _ P c Hc0 Hnin) as [[<-|[]]|[y [Hy Hay]]].
        * (* c = id: then x = p, which is absent from cur *)
          assert (Some x = Some p) by (eapply same_entry; eassumption). inversion H0; subst.
          destruct (in_keys_lookup _ _ Hx0). congruence.
        * apply in_children_of in Hy. assert (Some x = Some y) by (eapply same_entry; eassumption).
          inversion H0; subst. contradiction.
      + assert (Hidp : lookup g1 id = Some (Some p)) by (apply (lookup_of_in _ _ _ Hnd1); exact He).
        assert (Hgen : forall m x, steps_to_root g1 x m -> In x (keys cur1)).
          { induction m as [|m IHm]; intros x Hs.
            - inversion Hs as [? Hroot|]; subst.
              destruct (in_keys_dec cur1 x) as [Hin|Hnin]; [exact Hin|exfalso].
              destruct (dp_up _ _ _ _ P x (Ih _ _ Hs) Hnin) as [[<-|[]]|[y [Hy _]]]; [congruence|].
              apply in_children_of in Hy. apply (lookup_of_in _ _ _ Hnd1) in Hy. congruence.
            - inversion Hs as [|? q' ? Hlq Hsq]; subst.
              destruct (in_keys_dec cur1 x) as [Hin|Hnin]; [exact Hin|exfalso].
              destruct (dp_up _ _ _ _ P x (Ih _ _ Hs) Hnin) as [[<-|[]]|[y [Hy Hay]]].
              + assert (q' = p) by congruence. subst q'.
                pose proof (Ih _ _ Hsq) as Hpin. destruct (in_keys_lookup _ _ Hpin). congruence.
              + apply in_children_of in Hy. apply (lookup_of_in _ _ _ Hnd1) in Hy.
                assert (q' = y) by congruence. subst q'. apply Hay. apply (IHm _ Hsq). }
        intros x n Hs. eapply Hgen. exact Hs.
  Qed.
End CleanOrphansSpec.

(** after cycle cleaning every remaining chain ends (at a root or at a missing parent) *)
Lemma unbounded_step k g id p :
  chain_unbounded (S k) g id = false -> lookup g id = Some (Some p) -> chain_unbounded k g p = false.
Proof. intros H Hl. cbn [chain_unbounded] in H. rewrite Hl in H. exact H. Qed.

Lemma steps_of_bounded g g2 :
  (forall x v, lookup g2 x = Some v -> lookup g x = Some v) ->
  (forall x p, lookup g2 x = Some (Some p) -> lookup g2 p <> None) ->
  forall k id, lookup g2 id <> None -> chain_unbounded k g id = false -> exists n, steps_to_root g2 id n.
Proof.
  intros Hsub Hpar. induction k as [|k IH]; intros id Hid Hb.
  - destruct (lookup g2 id) as [[p|]|] eqn:Hl; [|exists 0; constructor; exact Hl|congruence].
    apply Hsub in Hl as Hg. cbn [chain_unbounded] in Hb. rewrite Hg in Hb. discriminate.
  - destruct (lookup g2 id) as [[p|]|] eqn:Hl; [|exists 0; constructor; exact Hl|congruence].
    apply Hsub in Hl as Hg. apply (unbounded_step _ _ _ _ Hb) in Hg.
    destruct (IH p (Hpar _ _ Hl) Hg) as [n Hn]. exists (S n). econstructor; eassumption.
Qed.

Lemma NoDup_nodup_keys l : NoDup l -> nodup_keys l = true.
Proof.
  induction 1 as [|x l Hn Hnd IH]; [reflexivity|]. cbn. rewrite IH, andb_true_r. apply negb_true_iff.
  destruct (mem x l) eqn:Hm; [|reflexivity]. apply mem_In in Hm. contradiction.
Qed.

Lemma filter_len {A} (P : A -> bool) (l : list A) : List.length (filter P l) <= List.length l.
Proof.
  induction l as [|x l IH]; [cbn; lia|].
  cbn [filter]. destruct (P x); cbn [List.length]; lia.
Qed.

Lemma clean_cycles_sub g e : In e (clean_cycles g) -> In e g /\ chain_unbounded (List.length g) g (fst e) = false.
Proof. unfold clean_cycles. intros H. apply filter_In in H. destruct H as [H1 H2]. apply negb_true_iff in H2. tauto. Qed.

Theorem hierarchy_spec g :
  nodup_keys (keys g) = true ->
  exists g2, update_queue_hierarchy (fuel_of g) g = Done g2 /\
             wellformed g2 = true /\
             (forall e, In e g2 -> In e g) /\
             (forall x c, lookup g2 x <> None -> In c (hierarchy_children g x) -> lookup g2 c = Some (Some x)) /\
             (forall x n, steps_to_root g x n -> lookup g2 x = lookup g x /\ lookup (clean_cycles g) x = lookup g x).
Proof.
  intros Hnd. apply nodup_keys_NoDup in Hnd.
  set (g1 := clean_cycles g).
  assert (Hnd1 : NoDup (keys g1)) by (apply NoDup_keys_filter; exact Hnd).
  assert (Hlen : List.length g1 <= List.length g).
  { unfold g1, clean_cycles. apply filter_len. }
  unfold update_queue_hierarchy. fold g1.
  (* termination: the orphan cleaning of g1 with the fuel of g *)
  assert (Hterm : exists g2, clean_orphans (fuel_of g) (children_of g1) g1 g1 = Done g2).
  { assert (Hgen : forall order cur, incl order g1 -> List.length cur <= List.length g1 ->
              exists cur', clean_orphans (fuel_of g) (children_of g1) order cur = Done cur' /\ List.length cur' <= List.length g1).
    { induction order as [|[id par] r IH]; intros cur Hord Hl.
      - exists cur. split; [reflexivity|exact Hl].
      - cbn [clean_orphans].
        assert (Hr : incl r g1) by (intros x Hx; apply Hord; right; exact Hx).
        destruct (lookup cur id) eqn:Hli; [|apply IH; assumption].
        destruct par as [p|]; [|apply IH; assumption].
        destruct (lookup cur p) eqn:Hp; [apply IH; assumption|].
        destruct (delete_subtree_total g1 Hnd1 cur (fuel_of g) [] id cur (incl_refl _)) as [cur' [H' [_ Hl']]].
        + intros _. constructor.
          * apply in_map. eapply lookup_in_keys. exact Hli.
          * cbn [opar]. assert (Hin : In (id, Some p) g1) by (apply Hord; left; reflexivity).
            rewrite (lookup_of_in _ _ _ Hnd1 Hin).
            intros Hc. apply in_map_iff in Hc. destruct Hc as [x [Hx Hk]]. inversion Hx; subst x.
            destruct (in_keys_lookup _ _ Hk) as [pp Hpp]. congruence.
        + unfold fuel_of. cbn [List.length]. lia.
        + rewrite H'. cbn [bind]. apply IH; [exact Hr|lia]. }
    destruct (Hgen g1 g1 (incl_refl _) (le_n _)) as [g2 [H2 _]]. exists g2. exact H2. }
  destruct Hterm as [g2 H2]. exists g2. split; [exact H2|].
  (* what is left *)
  assert (Hinv : inv g1 [] g2).
  { apply (clean_orphans_spec g1 Hnd1 (fuel_of g) g1 g1 g2 (incl_refl _)); [|exact H2].
    constructor.
    - intros e He. exact He.
    - exact Hnd1.
    - intros c x Hin _. exact Hin.
    - intros x _ c Hc. apply in_children_of in Hc. eapply in_keys_of_in. exact Hc.
    - intros x n Hs. destruct (steps_lookup _ _ _ Hs) as [v Hv]. eapply lookup_in_keys. exact Hv. }
  destruct Hinv as [Is Ind Ib Ik Ih].
  assert (Hlk : forall x v, lookup g2 x = Some v -> lookup g1 x = Some v).
  { intros x v Hl. apply lookup_in in Hl. apply Is in Hl. apply (lookup_of_in _ _ _ Hnd1). exact Hl. }
  assert (Hpar : forall x p, lookup g2 x = Some (Some p) -> lookup g2 p <> None).
  { intros x p Hl Hn. apply lookup_in in Hl. destruct (Ib x p Hl). intros Hin. destruct (in_keys_lookup _ _ Hin). congruence. }
  split; [|split; [|split]].
  - unfold wellformed. rewrite (NoDup_nodup_keys _ Ind). cbn [andb].
    apply forest_iff_is_forest. intros id Hin.
    destruct (in_keys_lookup _ _ Hin) as [v Hv].
    apply (steps_of_bounded g g2) with (k := List.length g).
    + intros x w Hl. apply Hlk in Hl. apply lookup_in in Hl. apply clean_cycles_sub in Hl.
      apply (lookup_of_in _ _ _ Hnd). apply Hl.
    + exact Hpar.
    + congruence.
    + apply Hlk in Hv. apply lookup_in in Hv. apply clean_cycles_sub in Hv. apply Hv.
  - intros e He. apply Is in He. apply clean_cycles_sub in He. apply He.
  - intros x c Hx Hc. unfold hierarchy_children in Hc. fold g1 in Hc.
    assert (Hxin : In x (keys g2)).
    { destruct (lookup g2 x) eqn:Hl; [eapply lookup_in_keys; exact Hl|congruence]. }
    pose proof (Ik x Hxin c Hc) as Hcin.
    destruct (in_keys_lookup _ _ Hcin) as [v Hv].
    apply Hlk in Hv as Hv1. apply in_children_of in Hc. apply (lookup_of_in _ _ _ Hnd1) in Hc. congruence.
  - (* queues whose own chain reaches a root keep their entry *)
    assert (Hk1 : forall x n, steps_to_root g x n -> lookup g1 x = lookup g x).
    { intros x n Hs. destruct (steps_lookup _ _ _ Hs) as [v Hv]. rewrite Hv.
      apply (lookup_of_in _ _ _ Hnd1). unfold g1, clean_cycles. apply filter_In. split; [apply lookup_in; exact Hv|].
      apply negb_true_iff. cbn [fst]. apply reaches_not_unbounded.
      apply (reaches_root_mono_le _ _ n); [|apply steps_reaches; exact Hs].
      pose proof (steps_bounded _ _ _ Hs). lia. }
    assert (Hs1 : forall x n, steps_to_root g x n -> steps_to_root g1 x n).
    { induction 1 as [id Hl|id p n Hl Hs IHs].
      - constructor. rewrite (Hk1 id 0); [exact Hl|constructor; exact Hl].
      - econstructor; [|exact IHs]. rewrite (Hk1 id (S n)); [exact Hl|econstructor; eassumption]. }
    intros x n Hs. split; [|eapply Hk1; exact Hs].
    pose proof (Ih _ _ (Hs1 _ _ Hs)) as Hin. destruct (in_keys_lookup _ _ Hin) as [v Hv].
    rewrite Hv. apply Hlk in Hv. rewrite <- (Hk1 _ _ Hs). symmetry. exact Hv.
Qed.

(** * The bundles *)
Theorem total_on_wellformed g : wellformed g = true -> walks_total g.
Proof.
  intros Hw. pose proof Hw as Hw'. unfold wellformed in Hw'. apply andb_true_iff in Hw'. destruct Hw' as [_ Hf].
  unfold walks_total. repeat split.
  - intros cur. apply walk_total_on_forest. exact Hf.
  - intros stop cur. apply walk_until_total_on_forest. exact Hf.
  - intros q. apply handler_total_on_forest. exact Hf.
  - intros q. apply hierarchy_path_total_on_forest. exact Hf.
  - intros a b Ha Hb. apply leveled_queues_total_on_forest; assumption.
  - intros stop a b n Ha Hb. apply reclaimable_total_on_forest; assumption.
  - intros has a pa b pb. apply minruntime_lca_total_on_forest. exact Hf.
  - intros ch created q Hq. apply push_job_total_on_forest; assumption.
  - apply set_fair_share_total_on_wellformed. exact Hw.
  - apply update_queue_hierarchy_id_on_wellformed. exact Hw.
Qed.

Theorem total_on_any_graph g : nodup_keys (keys g) = true -> total_after_hierarchy g.
Proof.
  intros Hnd. destruct (hierarchy_spec g Hnd) as [g2 [H2 [Hw [_ [Hch _]]]]].
  exists g2. split; [exact H2|]. split; [exact Hw|]. split; [apply total_on_wellformed; exact Hw|].
  split; [apply message_total_any|].
  pose proof Hw as Hw'. unfold wellformed in Hw'. apply andb_true_iff in Hw'. destruct Hw' as [Hn Hf].
  apply set_fair_share_total; [apply nodup_keys_NoDup; exact Hn|exact Hf|exact Hch].
Qed.

(** the parent-chain loops themselves are still not total: they rely on the hierarchy cleaning *)
Theorem walks_without_hierarchy_refuted :
  exists g, nodup_keys (keys g) = true /\ ~ walks_total g.
Proof.
  exists g_self. split; [reflexivity|].
  intros [H _]. destruct (H (Some 1%positive)) as [l Hl].
  pose proof self_parent_walk_spins as [_ [Hs _]]. congruence.
Qed.

(** the three repaired functions: before the repairs the statements were false *)
Theorem hierarchy_v0_kept_cycles :
  update_queue_hierarchy_v0 (fuel_of g_self) g_self = Done g_self /\
  update_queue_hierarchy_v0 (fuel_of g_two) g_two = Done g_two /\
  update_queue_hierarchy (fuel_of g_self) g_self = Done [] /\
  update_queue_hierarchy (fuel_of g_two) g_two = Done [].
Proof. vm_compute. repeat split. Qed.

Theorem message_total_v0_refuted_on_wellformed :
  exists g, wellformed g = true /\ ~ message_total_v0 g.
Proof.
  exists g_mixed. split; [reflexivity|].
  intros H. specialize (H 1%positive 3%positive).
  pose proof top_level_leaf_message_panics as [_ [Hp _]].
  rewrite Hp in H. assert (@Panic unit = Done tt) by (apply H; vm_compute; discriminate). discriminate.
Qed.

Theorem subgroups_total sgs mm :
  (exists r, from_pod_group (S (List.length sgs)) sgs = Done r) /\
  (from_pod_group (S (List.length sgs)) sgs = Done None <->
     (has_dup (names sgs) = true \/ parents_found sgs = false)) /\
  (exists l, set_sub_groups (S (List.length sgs)) sgs mm = Done l /\ l <> [] /\
             forall n m, In (n, m) l -> (1 <= m)%Z).
Proof.
  split; [apply from_pod_group_total|]. split; [apply from_pod_group_fallback_iff|].
  destruct (set_sub_groups_total sgs mm) as [l [Hl Hne]].
  exists l. split; [exact Hl|]. split; [exact Hne|]. eapply set_sub_groups_min_positive. exact Hl.
Qed.

(** non-vacuity for the sub-group theorem: a valid tree, a parent cycle (no error: the cycle
    floats, the root stays empty and the job keeps its default pod set), a duplicate (error) *)
Definition sg (n : string) (p : option string) (m : Z) : subgroup := {| sg_name := n; sg_parent := p; sg_min := m |}.
Lemma subgroup_examples :
  set_sub_groups 4 [sg "a" None 1; sg "b" (Some "a"%string) 0; sg "c" (Some "A"%string) (-4)] 5
    = Done [("b"%string, 1%Z); ("c"%string, 1%Z)] /\
  from_pod_group 3 [sg "a" (Some "b"%string) 1; sg "b" (Some "a"%string) 1] = Done (Some (SGNode EmptyString [] [])) /\
  set_sub_groups 3 [sg "a" (Some "b"%string) 1; sg "b" (Some "a"%string) 1] 0 = Done [("default"%string, 1%Z)] /\
  from_pod_group 3 [sg "a" None 1; sg "a" None 2] = Done None /\
  from_pod_group 2 [sg "a" (Some "zz"%string) 1] = Done None.
Proof. vm_compute. repeat split. Qed.

(** non-vacuity for the any-graph theorem: a graph with a cycle, a leaf under it and an orphan
    chain next to a healthy tree is reduced to the healthy tree *)
Definition g_messy : qgraph :=
  [(1%positive, None); (2%positive, Some 1%positive);
   (3%positive, Some 4%positive); (4%positive, Some 3%positive); (5%positive, Some 3%positive);
   (6%positive, Some 9%positive); (7%positive, Some 6%positive)].
Lemma messy_cleaned :
  nodup_keys (keys g_messy) = true /\
  update_queue_hierarchy (fuel_of g_messy) g_messy = Done [(1%positive, None); (2%positive, Some 1%positive)].
Proof. vm_compute. split; reflexivity. Qed.

(** * Non-interference *)
Lemma lookup_app g e x :
  lookup (g ++ e) x = match lookup g x with Some v => Some v | None => lookup e x end.
Proof.
  induction g as [|[k p] g IH]; [reflexivity|]. cbn [app lookup].
  destruct (Pos.eqb k x); [reflexivity|exact IH].
Qed.

Lemma steps_app g e x n : steps_to_root g x n -> steps_to_root (g ++ e) x n.
Proof.
  induction 1 as [id Hl|id p n Hl Hs IH].
  - constructor. rewrite lookup_app, Hl. reflexivity.
  - econstructor; [|exact IH]. rewrite lookup_app, Hl. reflexivity.
Qed.

Lemma walk_until_healthy g stop :
  forall n q, steps_to_root g q n ->
  forall ga f, (forall x m, steps_to_root g x m -> lookup ga x = lookup g x) -> S n <= f ->
  walk_until f ga stop (Some q) = walk_until (S n) g stop (Some q).
Proof.
  induction 1 as [id Hl|id p n Hl Hs IH]; intros ga f Hag Hf.
  - destruct f as [|f]; [lia|]. cbn [walk_until].
    rewrite (Hag id 0) by (constructor; exact Hl). rewrite Hl.
    destruct (stop id); [reflexivity|]. rewrite !walk_until_none. reflexivity.
  - destruct f as [|f]; [lia|]. cbn [walk_until].
    rewrite (Hag id (S n)) by (econstructor; eassumption). rewrite Hl.
    destruct (stop id); [reflexivity|].
    rewrite (IH ga f Hag) by lia. reflexivity.
Qed.

Lemma nodup_keys_app_l g e : nodup_keys (keys (g ++ e)) = true -> nodup_keys (keys g) = true.
Proof.
  intros H. apply nodup_keys_NoDup in H. apply NoDup_nodup_keys.
  unfold keys in *. rewrite map_app in H. revert H. generalize (map fst e) as l2. generalize (map fst g) as l1.
  induction l1 as [|x l1 IH]; intros l2 H; [constructor|].
  cbn in H. inversion H as [|? ? Hn Hr]; subst. constructor; [|eapply IH; exact Hr].
  intros Hin. apply Hn. apply in_or_app. left. exact Hin.
Qed.

(** eligibility through any graph [ga] that agrees with [g] on the healthy queues of [g] *)
Lemma eligible_core g ga (ch : qid -> list qid) s1 s2 q n f :
  steps_to_root g q n ->
  (forall x m, steps_to_root g x m -> lookup ga x = lookup g x) ->
  S n <= f ->
  (if job_admitted ga ch q then
     bind (walk_until f ga s1 (Some q)) (fun r1 =>
     bind (walk_until f ga s2 (Some q)) (fun r2 =>
       Done (match r1, r2 with None, None => true | _, _ => false end)))
   else Done false)
  =
  (if job_admitted g ch q then
     bind (walk_until (S n) g s1 (Some q)) (fun r1 =>
     bind (walk_until (S n) g s2 (Some q)) (fun r2 =>
       Done (match r1, r2 with None, None => true | _, _ => false end)))
   else Done false).
Proof.
  intros Hs Hag Hf.
  assert (Hadm : job_admitted ga ch q = job_admitted g ch q).
  { unfold job_admitted. rewrite (Hag _ _ Hs).
    destruct (lookup g q) as [[p|]|] eqn:Hl; try reflexivity.
    inversion Hs as [? Hr|? p' n' Hl' Hs']; subst; [congruence|].
    assert (p' = p) by congruence. subst p'. rewrite (Hag _ _ Hs'). reflexivity. }
  rewrite Hadm. destruct (job_admitted g ch q); [|reflexivity].
  rewrite (walk_until_healthy g s1 n q Hs ga f Hag Hf).
  rewrite (walk_until_healthy g s2 n q Hs ga f Hag Hf). reflexivity.
Qed.

(** the job's queue is a leaf in the stored ChildQueues iff no entry of [g] names it as parent *)
Lemma leaf_iff g q n :
  nodup_keys (keys g) = true -> steps_to_root g q n ->
  (hierarchy_children g q = [] <-> forall c, ~ In (c, Some q) g).
Proof.
  intros Hnd Hs. pose proof Hnd as Hnd'. apply nodup_keys_NoDup in Hnd'.
  destruct (hierarchy_spec g Hnd) as [g2 [_ [_ [_ [_ Hh]]]]].
  unfold hierarchy_children. split.
  - intros He c Hin.
    assert (Hc : steps_to_root g c (S n)) by (econstructor; [apply (lookup_of_in _ _ _ Hnd'); exact Hin|exact Hs]).
    destruct (Hh _ _ Hc) as [_ Hk]. apply (lookup_of_in _ _ _ Hnd') in Hin. rewrite Hin in Hk.
    apply lookup_in in Hk. apply in_children_of in Hk. rewrite He in Hk. contradiction.
  - intros Hno. destruct (children_of (clean_cycles g) q) as [|c r] eqn:Hc; [reflexivity|exfalso].
    assert (Hin : In c (children_of (clean_cycles g) q)) by (rewrite Hc; left; reflexivity).
    apply in_children_of in Hin. apply clean_cycles_sub in Hin. apply (Hno c). apply Hin.
Qed.

Lemma job_admitted_leaf_only g ch ch' q :
  (ch q = [] <-> ch' q = []) -> job_admitted g ch q = job_admitted g ch' q.
Proof.
  intros H. unfold job_admitted. destruct (lookup g q) as [par|]; [|reflexivity]. f_equal.
  destruct (ch q) eqn:E1, (ch' q) eqn:E2; try reflexivity.
  - destruct H as [H _]. specialize (H eq_refl). discriminate.
  - destruct H as [_ H]. specialize (H eq_refl). discriminate.
Qed.

Theorem healthy_unaffected_holds : healthy_unaffected.
Proof.
  intros g e s1 s2 q n Hnd Hs Hno.
  pose proof (nodup_keys_app_l _ _ Hnd) as Hndg.
  pose proof (steps_app g e q n Hs) as Hs'.
  destruct (hierarchy_spec (g ++ e) Hnd) as [ga [Ha [_ [_ [_ Hha]]]]].
  destruct (hierarchy_spec g Hndg) as [gb [Hb [_ [_ [_ Hhb]]]]].
  unfold eligible. rewrite Ha, Hb. cbn [bind].
  assert (Hleaf : hierarchy_children (g ++ e) q = [] <-> hierarchy_children g q = []).
  { rewrite (leaf_iff (g ++ e) q n Hnd Hs'), (leaf_iff g q n Hndg Hs). split.
    - intros H c Hin. apply (H c). apply in_or_app. left. exact Hin.
    - intros H c Hin. apply in_app_or in Hin. destruct Hin as [Hin|Hin]; [apply (H c Hin)|apply (Hno c Hin)]. }
  rewrite (job_admitted_leaf_only ga _ _ q Hleaf).
  pose proof (steps_bounded _ _ _ Hs) as Hbound.
  assert (Hag : forall x m, steps_to_root g x m -> lookup ga x = lookup g x).
  { intros x m Hx. destruct (Hha x m (steps_app _ _ _ _ Hx)) as [-> _]. rewrite lookup_app.
    destruct (steps_lookup _ _ _ Hx) as [v ->]. reflexivity. }
  assert (Hbg : forall x m, steps_to_root g x m -> lookup gb x = lookup g x).
  { intros x m Hx. destruct (Hhb x m Hx) as [-> _]. reflexivity. }
  rewrite (eligible_core g ga _ s1 s2 q n (fuel_of (g ++ e)) Hs Hag).
  2:{ unfold fuel_of. rewrite app_length. lia. }
  rewrite (eligible_core g gb _ s1 s2 q n (fuel_of g) Hs Hbg).
  2:{ unfold fuel_of. lia. }
  reflexivity.
Qed.

(** non-vacuity: a healthy tree next to a cycle, an orphan and a job queue that stays a leaf *)
Lemma healthy_example :
  let g := [(1%positive, None); (2%positive, Some 1%positive)] in
  let e := [(3%positive, Some 3%positive); (4%positive, Some 9%positive); (5%positive, Some 1%positive)] in
  nodup_keys (keys (g ++ e)) = true /\ steps_to_root g 2%positive 1 /\ (forall c, ~ In (c, Some 2%positive) e) /\
  eligible (fuel_of (g ++ e)) (g ++ e) (fun _ => false) (fun _ => false) 2%positive = Done true.
Proof.
  cbn zeta. split; [reflexivity|]. split; [econstructor; [reflexivity|constructor; reflexivity]|]. split.
  - intros c [H|[H|[H|[]]]]; discriminate.
  - vm_compute. reflexivity.
Qed.
