(** C08 and requests below a tolerance (seeded/C08-5).

    - [tiny_requests_within_caps]: the gates of the code have no tolerance, so
      the caps hold for one-pod workloads whose requests are as small as one
      likes: for every threshold vector eps > 0, every forest and every
      sequence of decisions in which the admitted jobs are one-pod jobs that
      ResourceRequirements.IsEmpty-with-thresholds-eps would call empty, every
      step leaves every queue and ancestor within limit and deserved quota.
      (An instance of C08_covered: nothing in its proof looks at the size of a
      request.)
    - [tolerant_gate_refuted]: a gate that lets requests below the code's
      thresholds through without looking ([run_tol], Model/CapacityTolerance.v)
      breaks the caps: GPU limit 0.02 and six pods of 0.01 GPU / 5m / 1 MB
      end at 0.06; CPU limit 0 and five pods of 5m end at 25m.  The gates of
      the code stop at 0.02 resp. 0 on the same inputs.
    - [tolerant_gate_unbounded]: and the overshoot has no bound: after n such
      pods the queue holds n * 0.01 GPUs, for every n. *)
From Coq Require Import List ZArith QArith Bool Lia.
From KaiV Require Import Model.Capacity Model.CapacitySpec Model.CapacityTolerance Proofs.Capacity.
Import ListNotations.
Open Scope Q_scope.

(** a one-pod job without gpu-memory request whose request -- as the job-level
    gate sums it and as the node-level gate sees it -- is empty within [eps] *)
Definition below_tolerance (eps : rq) (j : job) : Prop :=
  exists t nm, j_tasks j = [(t, nm)] /\ no_gpu_memory (t, nm) /\
    empty_within eps (job_task_request t) = true /\ empty_within eps (node_task_request nm t) = true.

Theorem tiny_requests_within_caps :
  forall (eps : rq) (np_only : bool) (fuel : nat) (s0 s s' : state) (pre : list step) (x : step),
    0 < r_cpu eps -> 0 < r_mem eps -> 0 < r_gpu eps ->
    wf_forest (s_queues s0) = true -> counters_exact s0 -> ledger_nonneg s0 = true ->
    accepts_ok wf_job (pre ++ [x]) ->
    (forall j, In (AdmitJob j) (pre ++ [x]) -> below_tolerance eps j) ->
    run fuel s0 pre = Done s -> do_step fuel s x = Done s' ->
    raise_within np_only s s'.
Proof.
  intros eps k fuel s0 s s' pre x _ _ _ W E N WJ T R H.
  apply (C08_covered k fuel s0 s s' pre x W E N WJ); [| exact R | exact H].
  intros j I. apply covered_sufficient. left. intros tn Itn.
  destruct (T j) as (t & nm & Ej & G & _).
  - apply in_or_app. right. exact I.
  - rewrite Ej in Itn. destruct Itn as [<- | []]. exact G.
Qed.

(** ** the worlds of seeded/C08-5's README *)

Definition tq (lim : rq) (a : rq) : queue :=
  {| q_id := 1; q_parent := 2; q_limit := lim; q_deserved := {| r_cpu := -1; r_mem := -1; r_gpu := -1 |};
     q_alloc := a; q_np := rq_zero |}.
Definition gpu_limit : rq := {| r_cpu := -1; r_mem := -1; r_gpu := 2 # 100 |}.
Definition cpu_limit : rq := {| r_cpu := 0; r_mem := -1; r_gpu := -1 |}.

(** 0.01 GPU fraction, 5m CPU, 1 MB; CPU-only pod of 5m *)
Definition gpu_pod (i : positive) : task :=
  {| t_id := i; t_type := Fraction; t_cpu := 5; t_memory := 1000000;
     t_gpu := {| g_count := 1; g_portion := 1 # 100; g_memory := 0; g_dra := 0; g_mig := [] |} |}.
Definition cpu_pod (i : positive) : task :=
  {| t_id := i; t_type := Regular; t_cpu := 5; t_memory := 0;
     t_gpu := {| g_count := 0; g_portion := 0; g_memory := 0; g_dra := 0; g_mig := [] |} |}.
Definition one_pod (t : task) : job := {| j_queue := 1; j_preempt := true; j_tasks := [(t, 100%positive)] |}.

Definition jobs_of (mk : positive -> task) (n : nat) : list step :=
  map (fun i => AdmitJob (one_pod (mk (Pos.of_succ_nat i)))) (seq 0 n).

Definition st0 (lim : rq) : state := {| s_queues := [tq lim rq_zero]; s_ledger := [] |}.

Definition usage (s : state) (r : res) : Q := charged false (s_queues s) (s_ledger s) 1 r.

Lemma st0_exact lim : counters_exact (st0 lim).
Proof. intros q [<- | []] r. destruct r; split; reflexivity. Qed.

Lemma gpu_pod_below i : below_tolerance code_tolerance (one_pod (gpu_pod i)).
Proof.
  exists (gpu_pod i), 100%positive. split; [reflexivity|]. split.
  - split; [simpl; lia|]. repeat split; simpl; try lia; discriminate.
  - split; reflexivity.
Qed.

Lemma cpu_pod_below i : below_tolerance code_tolerance (one_pod (cpu_pod i)).
Proof.
  exists (cpu_pod i), 100%positive. split; [reflexivity|]. split.
  - split; [simpl; lia|]. repeat split; simpl; try lia; discriminate.
  - split; reflexivity.
Qed.

Theorem tolerant_gate_refuted :
  (* the worlds are in the scope of the theorem above *)
  wf_forest (s_queues (st0 gpu_limit)) = true /\ counters_exact (st0 gpu_limit) /\
  wf_forest (s_queues (st0 cpu_limit)) = true /\ counters_exact (st0 cpu_limit) /\
  (forall i, below_tolerance code_tolerance (one_pod (gpu_pod i)) /\ wf_job (one_pod (gpu_pod i)) = true) /\
  (forall i, below_tolerance code_tolerance (one_pod (cpu_pod i)) /\ wf_job (one_pod (cpu_pod i)) = true) /\
  (* GPU limit 0.02, six pods of 0.01 GPU: the code's gates stop at 0.02, the tolerant ones go to 0.06 *)
  (exists s, run 2 (st0 gpu_limit) (jobs_of gpu_pod 6) = Done s /\ usage s GPU == 2 # 100 /\ length (s_ledger s) = 2%nat) /\
  (exists s, run_tol code_tolerance 2 (st0 gpu_limit) (jobs_of gpu_pod 6) = Done s /\
             usage s GPU == 6 # 100 /\ length (s_ledger s) = 6%nat /\ ~ usage s GPU <= r_gpu gpu_limit) /\
  (* CPU limit 0, five pods of 5m: none admitted by the code's gates, all five by the tolerant ones *)
  (exists s, run 2 (st0 cpu_limit) (jobs_of cpu_pod 5) = Done s /\ usage s CPU == 0 /\ s_ledger s = []) /\
  (exists s, run_tol code_tolerance 2 (st0 cpu_limit) (jobs_of cpu_pod 5) = Done s /\
             usage s CPU == 25 /\ length (s_ledger s) = 5%nat /\ ~ usage s CPU <= r_cpu cpu_limit).
Proof.
  split; [reflexivity|]. split; [apply st0_exact|]. split; [reflexivity|]. split; [apply st0_exact|].
  split; [intro i; split; [apply gpu_pod_below | reflexivity]|].
  split; [intro i; split; [apply cpu_pod_below | reflexivity]|].
  split; [eexists; split; [vm_compute; reflexivity | split; [vm_compute; reflexivity | reflexivity]]|].
  split; [eexists; split; [vm_compute; reflexivity | split; [vm_compute; reflexivity | split; [reflexivity | vm_compute; intro H; apply H; reflexivity]]]|].
  split; [eexists; split; [vm_compute; reflexivity | split; [vm_compute; reflexivity | reflexivity]]|].
  eexists; split; [vm_compute; reflexivity | split; [vm_compute; reflexivity | split; [reflexivity | vm_compute; intro H; apply H; reflexivity]]].
Qed.

(** ** unbounded *)

Definition r0 : rq := charge 100 (gpu_pod 1).

Fixpoint grow (k : nat) (a : rq) : rq := match k with O => a | S k => grow k (rq_add a r0) end.
Fixpoint led_after (ids : list nat) (led : list entry) : list entry :=
  match ids with
  | [] => led
  | i :: r => led_after r ({| e_task := Pos.of_succ_nat i; e_queue := 1; e_preempt := true; e_charge := r0 |} :: led)
  end.

Lemma tol_step (a : rq) (led : list entry) (i : nat) :
  do_step_tol code_tolerance 2 {| s_queues := [tq gpu_limit a]; s_ledger := led |}
    (AdmitJob (one_pod (gpu_pod (Pos.of_succ_nat i))))
  = Done {| s_queues := [tq gpu_limit (rq_add a r0)];
            s_ledger := {| e_task := Pos.of_succ_nat i; e_queue := 1; e_preempt := true; e_charge := r0 |} :: led |}.
Proof. reflexivity. Qed.

Lemma tol_run (ids : list nat) : forall (a : rq) (led : list entry),
  run_tol code_tolerance 2 {| s_queues := [tq gpu_limit a]; s_ledger := led |}
    (map (fun i => AdmitJob (one_pod (gpu_pod (Pos.of_succ_nat i)))) ids)
  = Done {| s_queues := [tq gpu_limit (grow (length ids) a)]; s_ledger := led_after ids led |}.
Proof.
  induction ids as [|i ids IH]; intros a led; [reflexivity|].
  cbn [map run_tol]. rewrite tol_step. cbn [length grow led_after]. apply IH.
Qed.

Lemma grow_gpu k : forall a, r_gpu (grow k a) == r_gpu a + inject_Z (Z.of_nat k) * (1 # 100).
Proof.
  induction k as [|k IH]; intro a.
  - cbn [grow]. change (inject_Z (Z.of_nat 0)) with 0. ring.
  - cbn [grow]. rewrite IH. rewrite Nat2Z.inj_succ. unfold Z.succ. rewrite inject_Z_plus.
    change (r_gpu (rq_add a r0)) with (Qred (r_gpu a + r_gpu r0)). rewrite Qred_correct.
    assert (r_gpu r0 == 1 # 100) as -> by (vm_compute; reflexivity).
    change (inject_Z 1) with 1. ring.
Qed.

Lemma usage_led ids : forall a led,
  charged false [tq gpu_limit a] (led_after ids led) 1 GPU
  == charged false [tq gpu_limit a] led 1 GPU + inject_Z (Z.of_nat (length ids)) * (1 # 100).
Proof.
  induction ids as [|i ids IH]; intros a led.
  - cbn [led_after length]. change (inject_Z (Z.of_nat 0)) with 0. ring.
  - cbn [led_after length]. rewrite IH. rewrite Nat2Z.inj_succ. unfold Z.succ. rewrite inject_Z_plus.
    change (charged false [tq gpu_limit a]
             ({| e_task := Pos.of_succ_nat i; e_queue := 1; e_preempt := true; e_charge := r0 |} :: led) 1 GPU)
      with (r_gpu r0 + charged false [tq gpu_limit a] led 1 GPU).
    assert (r_gpu r0 == 1 # 100) as -> by (vm_compute; reflexivity).
    change (inject_Z 1) with 1. ring.
Qed.

(** for every n: the tolerant gates admit all n pods of 0.01 GPU against the
    GPU limit 0.02; the queue then holds n * 0.01 GPUs -- by its own counter
    and by the sum over the pods charged *)
Theorem tolerant_gate_unbounded :
  forall n : nat, exists s,
    run_tol code_tolerance 2 (st0 gpu_limit) (jobs_of gpu_pod n) = Done s /\
    length (s_ledger s) = n /\
    usage s GPU == inject_Z (Z.of_nat n) * (1 # 100) /\
    (forall q, In q (s_queues s) -> r_gpu (q_alloc q) == inject_Z (Z.of_nat n) * (1 # 100) /\ r_gpu (q_limit q) == 2 # 100) /\
    ((3 <= n)%nat -> ~ usage s GPU <= 2 # 100).
Proof.
  intro n. eexists. split; [apply tol_run|].
  assert (forall ids led, length (led_after ids led) = (length ids + length led)%nat) as L.
  { induction ids as [|i ids IH]; intro led; [reflexivity|]. cbn [led_after length]. rewrite IH. cbn [length]. lia. }
  assert (usage {| s_queues := [tq gpu_limit (grow (length (seq 0 n)) rq_zero)]; s_ledger := led_after (seq 0 n) [] |} GPU
          == inject_Z (Z.of_nat n) * (1 # 100)) as U.
  { unfold usage. cbn [s_queues s_ledger]. rewrite usage_led. rewrite seq_length.
    change (charged false [tq gpu_limit (grow n rq_zero)] [] 1 GPU) with 0. ring. }
  split; [cbn [s_ledger]; rewrite L, seq_length; cbn [length]; lia|].
  split; [exact U|]. split.
  - intros q [<- | []]. cbn [s_queues q_alloc q_limit tq]. rewrite seq_length, grow_gpu. split; [cbn [r_gpu rq_zero]; ring | reflexivity].
  - intros Hn. rewrite U. intro Hle.
    assert (inject_Z 3 <= inject_Z (Z.of_nat n)) as H3 by (rewrite <- Zle_Qle; lia).
    assert (inject_Z 3 * (1 # 100) <= inject_Z (Z.of_nat n) * (1 # 100)) as H4
      by (apply Qmult_le_compat_r; [exact H3 | discriminate]).
    assert (inject_Z 3 * (1 # 100) <= 2 # 100) as H5 by (eapply Qle_trans; eassumption).
    vm_compute in H5. apply H5. reflexivity.
Qed.
