(** C08: the two modes of AllocateJob, and why the job-level gate is there.

    - [allocate_job] (Model/Capacity.v) runs the same gates in both modes.
    - For every job none of whose tasks carries a gpu-memory request (whole
      GPUs on any number of devices, fractions on any number of devices, MIG,
      DRA, CPU-only) an acceptance in either mode leaves every queue within
      its limit / deserved quota at every level (corollary of [C08_covered]).
    - Without the job-level gate this fails: the node-level gate checks ONE
      device per task ([node_task_request]), the handler charges all of them.
      Witnesses by [vm_compute]. *)
Set Default Timeout 60.
From Coq Require Import List ZArith QArith Bool.
From KaiV Require Import Model.Status Model.Capacity Model.CapacitySpec Proofs.Capacity.
Import ListNotations.
Open Scope Q_scope.

(** * Same gates in both modes *)

Theorem allocate_job_mode_independent :
  forall (pipeline_only : bool) (fuel : nat) (qs : list queue) (j : job),
    allocate_job pipeline_only fuel qs j = admit_job fuel qs j.
Proof. intros po fuel qs j. reflexivity. Qed.

(** a pipeline-only placement is a nomination whatever the node has idle; a
    real allocation binds exactly the tasks that fit idle resources *)
Theorem pipeline_only_never_binds :
  (forall fits_idle, op_of true fits_idle = OpPipeline) /\
  (forall fits_idle, op_of false fits_idle = OpAllocate <-> fits_idle = true).
Proof.
  split; [reflexivity|]. intros [|]; cbn; split; intro H; try reflexivity; discriminate.
Qed.

(** * (a) the gates of AllocateJob, in either mode, keep multi-device jobs within the caps *)

Theorem multi_device_job_within_caps :
  forall (np_only pipeline_only : bool) (fuel : nat) (s : state) (j : job) (qs : list queue) (es : list entry),
    wf_forest (s_queues s) = true -> counters_exact s -> ledger_nonneg s = true ->
    wf_job j = true ->
    (forall tn, In tn (j_tasks j) -> no_gpu_memory tn) ->
    allocate_job pipeline_only fuel (s_queues s) j = Done (Accepted qs es) ->
    raise_within np_only s {| s_queues := qs; s_ledger := es ++ s_ledger s |}.
Proof.
  intros k po fuel s j qs es W E N WJ NG A.
  rewrite allocate_job_mode_independent in A.
  apply (C08_covered k fuel s s _ [] (AdmitJob j) W E N).
  - intros j' [I | []]. injection I as <-. exact WJ.
  - intros j' [I | []]. injection I as <-. apply covered_sufficient. left. exact NG.
  - reflexivity.
  - cbn [do_step]. rewrite A. reflexivity.
Qed.

(** * (b) the node-level gates alone do not *)

Definition md_unl : rq := {| r_cpu := -1; r_mem := -1; r_gpu := -1 |}.
Definition md_gpu (x : Q) : rq := {| r_cpu := -1; r_mem := -1; r_gpu := x |}.

(** department 1 over leaf 2, with the given GPU caps *)
Definition md_queues (dept_lim leaf_lim leaf_des : Q) : list queue :=
  [ {| q_id := 1; q_parent := 9; q_limit := md_gpu dept_lim; q_deserved := md_unl; q_alloc := rq_zero; q_np := rq_zero |};
    {| q_id := 2; q_parent := 1; q_limit := md_gpu leaf_lim; q_deserved := md_gpu leaf_des; q_alloc := rq_zero; q_np := rq_zero |} ].

Definition md_whole (id : positive) (n : Z) : task :=
  {| t_id := id; t_type := Regular; t_cpu := 0; t_memory := 0;
     t_gpu := {| g_count := n; g_portion := 1; g_memory := 0; g_dra := 0; g_mig := [] |} |}.
Definition md_frac (id : positive) (p : Q) (n : Z) : task :=
  {| t_id := id; t_type := Fraction; t_cpu := 0; t_memory := 0;
     t_gpu := {| g_count := n; g_portion := p; g_memory := 0; g_dra := 0; g_mig := [] |} |}.

Definition md_gpus (x : Q) : rq := {| r_cpu := 0; r_mem := 0; r_gpu := x |}.

(** the snapshot: a non-preemptible "build" pod (task 1) and a preemptible
    "train" pod (task 2) of priority below the pending job's, 2 GPUs each,
    both Running in the leaf *)
Definition md_pods : list spod :=
  [ {| sp_task := 1; sp_queue := 2; sp_preempt := false; sp_status := Running; sp_accepted := md_gpus 2; sp_request := md_gpus 2 |};
    {| sp_task := 2; sp_queue := 2; sp_preempt := true; sp_status := Running; sp_accepted := md_gpus 2; sp_request := md_gpus 2 |} ].

(** session open, then the solver's scenario evicts the train pod *)
Definition md_after_eviction (qs : list queue) : result state :=
  match load_init 3 {| s_queues := qs; s_ledger := [] |} md_pods with
  | Done s => do_step 3 s (Release 2)
  | r => r
  end.

(** the pending job: ONE pod asking 4 whole GPUs; one pod asking half a GPU on
    each of 3 devices; the same 4 GPUs as a gang of four 1-GPU pods *)
Definition md_job4 (pre : bool) : job := {| j_queue := 2; j_preempt := pre; j_tasks := [(md_whole 3 4, 100%positive)] |}.
Definition md_jobf : job := {| j_queue := 2; j_preempt := true; j_tasks := [(md_frac 3 (1 # 2) 3, 100%positive)] |}.
Definition md_gang : job :=
  {| j_queue := 2; j_preempt := true;
     j_tasks := [(md_whole 3 1, 100%positive); (md_whole 4 1, 100%positive); (md_whole 5 1, 100%positive); (md_whole 6 1, 100%positive)] |}.

Definition accepts (r : result outcome) : bool := match r with Done (Accepted _ _) => true | _ => false end.

(** (AllocateJob accepts, the node-level gates alone accept) after the eviction *)
Definition md_verdicts (qs : list queue) (j : job) : option (bool * bool) :=
  match md_after_eviction qs with
  | Done s => Some (accepts (allocate_job true 3 (s_queues s) j), accepts (admit_job_node_gate_only 3 (s_queues s) j))
  | _ => None
  end.

(** After the eviction the leaf (and the department) holds 2 GPUs, 2 of them
    non-preemptible. A cap c with 2 + 1 <= c < 2 + 4 -- between "one more
    device" and "all four" -- is where the two differ: AllocateJob refuses,
    the node-level gate alone accepts. Below (c = 2) both refuse, from c = 6
    on both accept. The same for the limit of the department, for the
    deserved quota (non-preemptible job) and for a fraction on three devices
    (1.5 GPUs: 2 + 0.5 <= c < 2 + 1.5). A gang of four 1-GPU pods is treated
    alike by both: the node-level gate is cumulative over single-device tasks. *)
Lemma multi_device_window :
  map (fun c => md_verdicts (md_queues (-1) c (-1)) (md_job4 true)) [2; 3; 4; 5; 6]
    = [Some (false, false); Some (false, true); Some (false, true); Some (false, true); Some (true, true)] /\
  map (fun c => md_verdicts (md_queues c (-1) (-1)) (md_job4 true)) [2; 3; 4; 5; 6]
    = [Some (false, false); Some (false, true); Some (false, true); Some (false, true); Some (true, true)] /\
  map (fun c => md_verdicts (md_queues (-1) (-1) c) (md_job4 false)) [2; 3; 4; 5; 6]
    = [Some (false, false); Some (false, true); Some (false, true); Some (false, true); Some (true, true)] /\
  map (fun c => md_verdicts (md_queues (-1) c (-1)) md_jobf) [2; 5 # 2; 3; 13 # 4; 7 # 2]
    = [Some (false, false); Some (false, true); Some (false, true); Some (false, true); Some (true, true)] /\
  map (fun c => md_verdicts (md_queues (-1) c (-1)) md_gang) [2; 3; 4; 5; 6]
    = [Some (false, false); Some (false, false); Some (false, false); Some (false, false); Some (true, true)].
Proof. repeat split; vm_compute; reflexivity. Qed.

(** the world of seeded/C08-3: leaf limit 4 *)
Definition md_mid : state :=
  Eval vm_compute in match md_after_eviction (md_queues (-1) 4 4) with Done s => s | _ => {| s_queues := []; s_ledger := [] |} end.
Definition md_bad_out : list queue * list entry :=
  Eval vm_compute in
    match admit_job_node_gate_only 3 (s_queues md_mid) (md_job4 true) with
    | Done (Accepted qs es) => (qs, es)
    | _ => ([], [])
    end.
Definition md_bad : state := {| s_queues := fst md_bad_out; s_ledger := snd md_bad_out ++ s_ledger md_mid |}.

Lemma node_gate_only_witness :
  wf_forest (s_queues md_mid) = true /\ counters_exact md_mid /\ ledger_nonneg md_mid = true /\
  wf_job (md_job4 true) = true /\ covered (md_job4 true) = true /\
  (forall tn, In tn (j_tasks (md_job4 true)) -> no_gpu_memory tn) /\
  md_after_eviction (md_queues (-1) 4 4) = Done md_mid /\
  charged false (s_queues md_mid) (s_ledger md_mid) 2 GPU == 2 /\
  (forall po, allocate_job po 3 (s_queues md_mid) (md_job4 true) = Done (Refused (OverLimit 2))) /\
  rget (job_request (map fst (j_tasks (md_job4 true)))) GPU == 4 /\
  rget (node_task_request 100 (md_whole 3 4)) GPU == 1 /\
  rget (charge 100 (md_whole 3 4)) GPU == 4 /\
  admit_job_node_gate_only 3 (s_queues md_mid) (md_job4 true) = Done (Accepted (fst md_bad_out) (snd md_bad_out)) /\
  charged false (s_queues md_bad) (s_ledger md_bad) 2 GPU == 6 /\
  allocate_job_gate_skipped_when_pipeline_only true 3 (s_queues md_mid) (md_job4 true)
    = admit_job_node_gate_only 3 (s_queues md_mid) (md_job4 true) /\
  allocate_job_gate_skipped_when_pipeline_only false 3 (s_queues md_mid) (md_job4 true) = Done (Refused (OverLimit 2)).
Proof.
  split; [vm_compute; reflexivity|].
  split; [apply counters_exact_b_true; vm_compute; reflexivity|].
  split; [vm_compute; reflexivity|].
  split; [vm_compute; reflexivity|].
  split; [vm_compute; reflexivity|].
  split.
  { intros tn [<- | []]. split; [cbn; discriminate|]. repeat split; cbn; discriminate. }
  split; [vm_compute; reflexivity|].
  split; [vm_compute; reflexivity|].
  split; [intros [|]; vm_compute; reflexivity|].
  repeat split; vm_compute; reflexivity.
Qed.

(** the node-level gates alone admit a job of the class of (a) past the limit *)
Theorem node_gate_alone_insufficient :
  exists (s : state) (j : job) (qs : list queue) (es : list entry),
    wf_forest (s_queues s) = true /\ counters_exact s /\ ledger_nonneg s = true /\ wf_job j = true /\
    (forall tn, In tn (j_tasks j) -> no_gpu_memory tn) /\
    admit_job_node_gate_only 3 (s_queues s) j = Done (Accepted qs es) /\
    allocate_job_gate_skipped_when_pipeline_only true 3 (s_queues s) j = Done (Accepted qs es) /\
    ~ raise_within false s {| s_queues := qs; s_ledger := es ++ s_ledger s |}.
Proof.
  destruct node_gate_only_witness as (W & E & N & WJ & _ & NG & _ & _ & _ & _ & _ & _ & A & _ & _ & _).
  exists md_mid, (md_job4 true), (fst md_bad_out), (snd md_bad_out).
  split; [exact W|]. split; [exact E|]. split; [exact N|]. split; [exact WJ|]. split; [exact NG|].
  split; [exact A|]. split; [exact A|].
  intro R.
  specialize (R (nth 1 (s_queues md_mid) {| q_id := 1; q_parent := 1; q_limit := rq_zero; q_deserved := rq_zero; q_alloc := rq_zero; q_np := rq_zero |})
                (or_intror (or_introl eq_refl)) GPU).
  vm_compute in R. apply R; try reflexivity; discriminate.
Qed.
