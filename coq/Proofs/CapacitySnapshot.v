(** Proofs for C08, session open: the pass that seeds the usage counters from
    the snapshot ([load_init], the model of updateQueuesCurrentResourceUsage)
    charges exactly the pods whose status is in the allocated class, so the
    state every scheduling cycle starts from satisfies [counters_exact] -- the
    hypothesis of the run theorems of Proofs/Capacity.v. *)
Set Default Timeout 60.
From Coq Require Import List ZArith QArith Qround Qreduction Bool Lia Lqa.
From KaiV Require Import Model.Status Model.Capacity Model.CapacitySpec Proofs.Capacity.
Import ListNotations.
Open Scope Q_scope.

Lemma shape_is_skel : shape = skel.
Proof. reflexivity. Qed.

(** the ledger grows by the pod iff its status is in the allocated class *)
Definition pod_entries (p : spod) : list entry :=
  if allocated_status (sp_status p) then [entry_of p] else [].

Lemma snapshot_pod_inv fuel s0 s p s' :
  inv s0 s -> snapshot_pod fuel s p = Done s' ->
  inv s0 s' /\ s_ledger s' = pod_entries p ++ s_ledger s.
Proof.
  intros [W E S] H. unfold snapshot_pod, snapshot_class, pod_entries in *.
  destruct (allocated_status (sp_status p)).
  - destruct (snapshot_charge fuel (s_queues s) (sp_queue p) (sp_preempt p) (sp_accepted p)) as [qs| |] eqn:A;
      try discriminate.
    injection H as <-.
    change (alloc_handler fuel (s_queues s) (sp_queue p) (sp_preempt p) (sp_accepted p) = Done qs) in A.
    destruct (exact_alloc _ _ _ _ _ _ (sp_task p) _ W E A) as [E1 S1].
    split; [|reflexivity]. constructor; cbn [s_queues s_ledger].
    + rewrite (wf_forest_skel _ _ S1). exact W.
    + exact E1.
    + congruence.
  - assert (s' = s) as -> by (destruct (status_eqb (sp_status p) Pending); injection H as <-; reflexivity).
    split; [constructor; assumption | reflexivity].
Qed.

Lemma allocated_entries_cons p ps :
  allocated_entries (p :: ps) = allocated_entries ps ++ pod_entries p.
Proof.
  unfold allocated_entries, allocated_pods, pod_entries. cbn [filter].
  destruct (allocated_status (sp_status p)); cbn [map rev]; [reflexivity | rewrite app_nil_r; reflexivity].
Qed.

Lemma load_init_inv fuel s0 : forall ps s s',
  inv s0 s -> load_init fuel s ps = Done s' ->
  inv s0 s' /\ s_ledger s' = allocated_entries ps ++ s_ledger s.
Proof.
  induction ps as [|p ps IH]; intros s s' I H; cbn [load_init] in H.
  - injection H as <-. split; [exact I | reflexivity].
  - destruct (snapshot_pod fuel s p) as [s1| |] eqn:P; try discriminate.
    destruct (snapshot_pod_inv _ _ _ _ _ I P) as [I1 L1].
    destruct (IH _ _ I1 H) as [I2 L2]. split; [exact I2|].
    rewrite L2, L1, allocated_entries_cons, <- app_assoc. reflexivity.
Qed.

Lemma fresh_exact qs : fresh qs -> exact qs [].
Proof.
  intros F q I k r. destruct (F q I r) as [A B]. unfold charged. cbn [fold_right].
  destruct k; unfold cnt; assumption.
Qed.

Lemma allocated_entries_in ps e :
  In e (allocated_entries ps) <-> exists p, In p ps /\ allocated_status (sp_status p) = true /\ e = entry_of p.
Proof.
  unfold allocated_entries, allocated_pods. rewrite <- in_rev, in_map_iff. split.
  - intros (p & <- & I). apply filter_In in I. destruct I as [I A]. exists p. auto.
  - intros (p & I & A & ->). exists p. split; [reflexivity|]. apply filter_In. auto.
Qed.

(** the snapshot seeding is exact for every status *)
Theorem snapshot_seeding_exact :
  forall (fuel : nat) (qs : list queue) (ps : list spod) (s : state),
    wf_forest qs = true -> fresh qs ->
    load_init fuel {| s_queues := qs; s_ledger := [] |} ps = Done s ->
    s_ledger s = allocated_entries ps /\
    counters_exact s /\
    wf_forest (s_queues s) = true /\
    map shape (s_queues s) = map shape qs /\
    ((forall p, In p ps -> allocated_status (sp_status p) = true -> rq_nonneg (sp_accepted p) = true) ->
     ledger_nonneg s = true).
Proof.
  intros fuel qs ps s W F H.
  assert (inv {| s_queues := qs; s_ledger := [] |} {| s_queues := qs; s_ledger := [] |}) as I0.
  { constructor; cbn [s_queues s_ledger]; [exact W | apply fresh_exact; exact F | reflexivity]. }
  destruct (load_init_inv _ _ _ _ _ I0 H) as [[W1 E1 S1] L]. cbn [s_ledger] in L. rewrite app_nil_r in L.
  split; [exact L|]. split; [apply counters_exact_iff; exact E1|]. split; [exact W1|].
  split; [exact S1|].
  intro N. unfold ledger_nonneg. apply forallb_forall. intros e Ie. rewrite L in Ie.
  apply allocated_entries_in in Ie. destruct Ie as (p & Ip & A & ->). cbn [entry_of e_charge]. apply N; assumption.
Qed.

(** the same from any consistent state (a snapshot loaded in several batches) *)
Theorem snapshot_seeding_preserves :
  forall (fuel : nat) (s0 s : state) (ps : list spod),
    wf_forest (s_queues s0) = true -> counters_exact s0 ->
    load_init fuel s0 ps = Done s ->
    s_ledger s = allocated_entries ps ++ s_ledger s0 /\ counters_exact s /\
    wf_forest (s_queues s) = true /\ map shape (s_queues s) = map shape (s_queues s0).
Proof.
  intros fuel s0 s ps W E H.
  assert (inv s0 s0) as I0 by (constructor; [exact W | apply counters_exact_iff; exact E | reflexivity]).
  destruct (load_init_inv _ _ _ _ _ I0 H) as [[W1 E1 S1] L].
  split; [exact L|]. split; [apply counters_exact_iff; exact E1|]. split; [exact W1 | exact S1].
Qed.

(** ** the pass terminates on every forest *)

Lemma walk_update_total g : same_shape g ->
  forall f qs id l, chain f qs id = Done l -> exists qs', walk_update f qs id g = Done qs'.
Proof.
  intro G. induction f as [|n IH]; intros qs id l C; [discriminate|].
  rewrite chain_unfold in C. cbn [walk_update]. destruct (find_queue qs id) as [q|] eqn:F.
  - destruct (chain n qs (q_parent q)) as [l0| |] eqn:C0; try discriminate.
    apply (IH (update qs id g) (q_parent q) l0).
    rewrite update_as_sel.
    rewrite (chain_skel n _ qs _ (skel_map _ _ (sel_shape [id] _ G))). exact C0.
  - exists qs. reflexivity.
Qed.

Lemma snapshot_pod_total s0 s p :
  inv s0 s -> exists s', snapshot_pod (default_fuel (s_queues s0)) s p = Done s'.
Proof.
  intros [W E S]. unfold snapshot_pod. destruct (snapshot_class (sp_status p)); try (exists s; reflexivity).
  destruct (wf_chain _ W (sp_queue p)) as (l & C).
  assert (default_fuel (s_queues s) = default_fuel (s_queues s0)) as DF
      by (unfold default_fuel; rewrite (skel_length _ _ S); reflexivity).
  rewrite DF in C.
  destruct (walk_update_total (bump true (negb (sp_preempt p)) (sp_accepted p)) (bump_shape _ _ _) _ _ _ _ C) as (qs' & U).
  unfold snapshot_charge. rewrite U. eexists. reflexivity.
Qed.

Lemma load_init_total s0 : forall ps s,
  inv s0 s -> exists s', load_init (default_fuel (s_queues s0)) s ps = Done s'.
Proof.
  induction ps as [|p ps IH]; intros s I.
  - exists s. reflexivity.
  - cbn [load_init]. destruct (snapshot_pod_total _ _ p I) as (s1 & P). rewrite P.
    destruct (snapshot_pod_inv _ _ _ _ _ I P) as [I1 _]. apply IH. exact I1.
Qed.

Theorem snapshot_seeding_total :
  forall (qs : list queue) (ps : list spod),
    wf_forest qs = true -> fresh qs ->
    exists s, load_init (default_fuel qs) {| s_queues := qs; s_ledger := [] |} ps = Done s.
Proof.
  intros qs ps W F.
  apply (load_init_total {| s_queues := qs; s_ledger := [] |}).
  constructor; cbn [s_queues s_ledger]; [exact W | apply fresh_exact; exact F | reflexivity].
Qed.

(** ** non-vacuity: a pod whose bind request is in flight holds its queue's limit

    The forest of Proofs/Capacity.v (leaf 2 under top 1; GPU limit and deserved
    quota 1/2 at the leaf). The snapshot of the next cycle holds one pod in every
    status: half a GPU each, all in the leaf, all non-preemptible; the Binding
    pod alone fills the leaf, so the next half-GPU job is refused at the leaf's
    limit; were that pod Pending, Gated, Releasing, Succeeded, Failed or Unknown
    instead, nothing would be charged and the job would be admitted. *)
Definition sn_half : rq := {| r_cpu := 0; r_mem := 0; r_gpu := 1 # 2 |}.
Definition sn_pod (id : positive) (st : status) : spod :=
  {| sp_task := id; sp_queue := 2; sp_preempt := false; sp_status := st; sp_accepted := sn_half; sp_request := sn_half |}.
Definition sn_others : list spod :=
  [sn_pod 21 Pending; sn_pod 22 Gated; sn_pod 23 Releasing; sn_pod 24 Succeeded; sn_pod 25 Failed; sn_pod 26 Unknown;
   sn_pod 27 Pipelined; sn_pod 28 Deleted].
Definition sn_binding : state :=
  Eval vm_compute in match load_init 3 w_state (sn_pod 20 Binding :: sn_others) with Done s => s | _ => w_state end.

Lemma snapshot_nonvacuous :
  wf_forest (s_queues w_state) = true /\ fresh (s_queues w_state) /\
  load_init 3 w_state (sn_pod 20 Binding :: sn_others) = Done sn_binding /\
  map e_task (s_ledger sn_binding) = [20%positive] /\
  charged false (s_queues sn_binding) (s_ledger sn_binding) 2 GPU == 1 # 2 /\
  charged true (s_queues sn_binding) (s_ledger sn_binding) 1 GPU == 1 # 2 /\
  rget (q_alloc w_leaf) GPU + (1 # 2) == rget (q_limit w_leaf) GPU /\
  admit_job 3 (s_queues sn_binding) ok_job = Done (Refused (OverLimit 2)) /\
  load_init 3 w_state sn_others = Done w_state /\
  (forall st, allocated_status st = true ->
     exists s, load_init 3 w_state (sn_pod 20 st :: sn_others) = Done s /\ map e_task (s_ledger s) = [20%positive] /\
               admit_job 3 (s_queues s) ok_job = Done (Refused (OverLimit 2))) /\
  (forall st, allocated_status st = false ->
     load_init 3 w_state (sn_pod 20 st :: sn_others) = Done w_state /\
     do_step 3 w_state (AdmitJob ok_job) = Done ok_after) /\
  load_requests 3 (s_queues w_state) [] (sn_pod 20 Binding :: sn_others)
    = Done [(1%positive, {| r_cpu := 0; r_mem := 0; r_gpu := 1 |}); (2%positive, {| r_cpu := 0; r_mem := 0; r_gpu := 1 |})].
Proof.
  split; [vm_compute; reflexivity|].
  split; [intros q [<- | [<- | []]] r; destruct r; split; vm_compute; reflexivity|].
  repeat (split; [vm_compute; reflexivity|]).
  split; [|split].
  - intros st A. destruct st; try discriminate A; eexists; (split; [vm_compute; reflexivity|]); split; vm_compute; reflexivity.
  - intros st A. destruct st; try discriminate A; split; vm_compute; reflexivity.
  - vm_compute. reflexivity.
Qed.
