(** Proofs for C06 (Model/Victims.v, Model/VictimsSpec.v). *)
From Coq Require Import List ZArith Bool PArith Lia ZifyBool ZifyNat.
From KaiV Require Import Model.Status Model.Victims Model.VictimsSpec.
Import ListNotations.
Set Default Timeout 60.
Open Scope Z_scope.

(** * Part A: min-runtime resolution *)

Lemma qlookup_id : forall qs id q, qlookup qs id = Some q -> vq_id q = id.
Proof.
  induction qs as [|x r IH]; intros id q H; cbn in H; [discriminate|].
  destruct (Pos.eqb (vq_id x) id) eqn:E.
  - inversion H; subst. now apply Pos.eqb_eq.
  - eauto.
Qed.

Lemma qlookup_in : forall qs id q, qlookup qs id = Some q -> In q qs.
Proof.
  induction qs as [|x r IH]; intros id q H; cbn in H; [discriminate|].
  destruct (Pos.eqb (vq_id x) id); [inversion H; subst; now left | right; eauto].
Qed.

Definition canonical (qs : qtree) (q : vqueue) : Prop := qlookup qs (vq_id q) = Some q.

Lemma qlookup_canonical : forall qs id q, qlookup qs id = Some q -> canonical qs q.
Proof. intros qs id q H. unfold canonical. now rewrite (qlookup_id _ _ _ H). Qed.

Lemma qparent_canonical : forall qs q p, qparent qs q = Some p -> canonical qs p.
Proof.
  intros qs q p H. unfold qparent in H. destruct (vq_parent q); [|discriminate].
  eapply qlookup_canonical; eauto.
Qed.

Lemma canonical_eq : forall qs x y, canonical qs x -> canonical qs y -> vq_id x = vq_id y -> x = y.
Proof. unfold canonical. intros qs x y Hx Hy E. rewrite E in Hx. congruence. Qed.

(** the complete chain of ancestors-or-self, leaf first *)
Inductive chain (qs : qtree) : vqueue -> list vqueue -> Prop :=
| ch_root : forall q, qparent qs q = None -> chain qs q [q]
| ch_step : forall q p l, qparent qs q = Some p -> chain qs p l -> chain qs q (q :: l).

Lemma path_up_chain : forall fuel qs q l, path_up fuel qs q = Some l -> chain qs q l.
Proof.
  induction fuel as [|f IH]; intros qs q l H; cbn in H; [discriminate|].
  destruct (qparent qs q) as [p|] eqn:Ep.
  - destruct (path_up f qs p) as [l'|] eqn:El; [|discriminate]. inversion H; subst.
    eapply ch_step; eauto.
  - inversion H; subst. now constructor.
Qed.

Lemma path_up_length : forall fuel qs q l, path_up fuel qs q = Some l -> (List.length l <= fuel)%nat.
Proof.
  induction fuel as [|f IH]; intros qs q l H; cbn in H; [discriminate|].
  destruct (qparent qs q) as [p|] eqn:Ep.
  - destruct (path_up f qs p) as [l'|] eqn:El; [|discriminate]. inversion H; subst.
    cbn. apply IH in El. lia.
  - inversion H; subst. cbn. lia.
Qed.

Lemma chain_det : forall qs q l, chain qs q l -> forall l', chain qs q l' -> l = l'.
Proof.
  induction 1 as [q Hq | q p l Hp Hc IH]; intros l' H'; inversion H'; subst; try congruence.
  assert (p = p0) by congruence. subst. f_equal. now apply IH.
Qed.

Lemma chain_head : forall qs q l, chain qs q l -> exists r, l = q :: r.
Proof. intros qs q l H. inversion H; subst; eauto. Qed.

Lemma chain_ancestors : forall qs q l, chain qs q l ->
  forall fuel, (List.length l <= fuel)%nat -> ancestors fuel qs q = l.
Proof.
  induction 1 as [q Hq | q p l Hp Hc IH]; intros fuel Hf; cbn in Hf.
  - destruct fuel as [|f]; [lia|]. cbn. now rewrite Hq.
  - destruct fuel as [|f]; [lia|]. cbn. rewrite Hp. f_equal. apply IH. lia.
Qed.

Lemma chain_canonical : forall qs q l, chain qs q l -> canonical qs q -> Forall (canonical qs) l.
Proof.
  induction 1 as [q Hq | q p l Hp Hc IH]; intros Hcan.
  - constructor; auto.
  - constructor; auto. apply IH. eapply qparent_canonical; eauto.
Qed.

Lemma chain_suffix : forall qs q l, chain qs q l -> forall a x b, l = a ++ x :: b -> chain qs x (x :: b).
Proof.
  induction 1 as [q Hq | q p l Hp Hc IH]; intros a x b E.
  - destruct a as [|y a]; cbn in E.
    + inversion E; subst. now constructor.
    + inversion E. destruct a; discriminate.
  - destruct a as [|y a]; cbn in E.
    + inversion E; subst. eapply ch_step; eauto.
    + inversion E; subst. eapply IH; eauto.
Qed.

(** ** walking up finds the documented setting *)
Lemma walk_up_doc : forall sel fuel qs dflt q d,
  walk_up sel fuel qs dflt q = Dur d ->
  or_default (first_set sel (ancestors fuel qs q)) dflt = d.
Proof.
  induction fuel as [|f IH]; intros qs dflt q d H; cbn in H; [discriminate|].
  cbn [ancestors first_set]. destruct (sel q) as [x|] eqn:Es.
  - inversion H; subst. reflexivity.
  - destruct (qparent qs q) as [p|] eqn:Ep.
    + now apply IH.
    + inversion H; subst. reflexivity.
Qed.

Lemma walk_up_never_panics : forall sel fuel qs dflt q, walk_up sel fuel qs dflt q <> MPanic.
Proof.
  induction fuel as [|f IH]; intros qs dflt q; cbn; [discriminate|].
  destruct (sel q); [discriminate|]. destruct (qparent qs q); [apply IH | discriminate].
Qed.

Lemma walk_up_hang_path : forall sel fuel qs dflt q,
  walk_up sel fuel qs dflt q = NoTermination -> path_up fuel qs q = None.
Proof.
  induction fuel as [|f IH]; intros qs dflt q H; cbn in *; [reflexivity|].
  destruct (sel q); [discriminate|]. destruct (qparent qs q) as [p|]; [|discriminate].
  now rewrite (IH _ _ _ H).
Qed.

(** ** termination on acyclic trees with fuel |queues| + 1 *)
Lemma path_up_none_chain : forall rank qs,
  (forall q p, canonical qs q -> qparent qs q = Some p -> (rank (vq_id p) < rank (vq_id q))%nat) ->
  forall fuel q, canonical qs q -> path_up fuel qs q = None ->
  exists l : list positive, List.length l = fuel /\ NoDup l /\ incl l (map vq_id qs)
                            /\ forall x, In x l -> (rank x < rank (vq_id q))%nat.
Proof.
  intros rank qs Hr. induction fuel as [|f IH]; intros q Hc H.
  - exists []. repeat split; [constructor | intros x [] | intros x []].
  - cbn in H. destruct (qparent qs q) as [p|] eqn:Ep; [|discriminate].
    destruct (path_up f qs p) eqn:El; [discriminate|].
    pose proof (qparent_canonical _ _ _ Ep) as Hcp.
    destruct (IH p Hcp El) as (l & Hlen & Hnd & Hincl & Hlt).
    pose proof (Hr q p Hc Ep) as Hpq.
    exists (vq_id p :: l). repeat split.
    + cbn. lia.
    + constructor; auto. intro Hin. apply Hlt in Hin. lia.
    + intros x [<-|Hx]; [|auto]. apply in_map. unfold canonical in Hcp. eapply qlookup_in; eauto.
    + intros x [<-|Hx]; [auto|]. apply Hlt in Hx. lia.
Qed.

Lemma path_up_terminates : forall qs q, acyclic qs -> canonical qs q -> path_up (fuel_of qs) qs q <> None.
Proof.
  intros qs q [rank Hr] Hc H.
  destruct (path_up_none_chain rank qs Hr _ _ Hc H) as (l & Hlen & Hnd & Hincl & _).
  pose proof (NoDup_incl_length Hnd Hincl) as Hle. rewrite map_length in Hle.
  unfold fuel_of in Hlen. lia.
Qed.

Lemma walk_up_terminates : forall sel qs dflt q, acyclic qs -> canonical qs q ->
  exists d, walk_up sel (fuel_of qs) qs dflt q = Dur d.
Proof.
  intros sel qs dflt q Ha Hc.
  destruct (walk_up sel (fuel_of qs) qs dflt q) as [d| |] eqn:E.
  - eauto.
  - apply walk_up_hang_path in E. now apply path_up_terminates in E.
  - now apply walk_up_never_panics in E.
Qed.

(** ** the index computation of resolveReclaimMinRuntimeLCA is the documented rule *)

Fixpoint drop_while {A} (p : A -> bool) (l : list A) : list A :=
  match l with
  | [] => []
  | x :: r => if p x then drop_while p r else l
  end.

Lemma take_drop_while : forall A (p : A -> bool) l, l = take_while p l ++ drop_while p l.
Proof. induction l as [|x r IH]; cbn; [reflexivity|]. destruct (p x); cbn; [now f_equal | reflexivity]. Qed.

Lemma take_while_all : forall A (p : A -> bool) l, Forall (fun x => p x = true) (take_while p l).
Proof. induction l as [|x r IH]; cbn; [constructor|]. destruct (p x) eqn:E; constructor; auto. Qed.

Lemma drop_while_head : forall A (p : A -> bool) l y r, drop_while p l = y :: r -> p y = false.
Proof.
  induction l as [|x l IH]; intros y r H; cbn in H; [discriminate|].
  destruct (p x) eqn:E; [eauto | inversion H; subst; assumption].
Qed.

Lemma last_opt_snoc : forall A (l : list A) x, last_opt (l ++ [x]) = Some x.
Proof.
  induction l as [|y l IH]; intros x; [reflexivity|].
  cbn [app last_opt]. destruct (l ++ [x]) eqn:E; [destruct l; discriminate|]. rewrite <- E. apply IH.
Qed.

Lemma snoc_cases : forall A (l : list A), l = [] \/ exists l' x, l = l' ++ [x].
Proof.
  intros A l. destruct (rev l) as [|x r] eqn:E.
  - left. apply (f_equal (@rev A)) in E. now rewrite rev_involutive in E.
  - right. exists (rev r), x. apply (f_equal (@rev A)) in E. now rewrite rev_involutive in E.
Qed.

Lemma cpl_app_same : forall c a b,
  common_prefix_len (c ++ a) (c ++ b) = (List.length c + common_prefix_len a b)%nat.
Proof. induction c as [|x c IH]; intros a b; cbn; [reflexivity|]. now rewrite Pos.eqb_refl, IH. Qed.

Lemma in_queues_spec : forall l x, in_queues l x = true <-> exists y, In y l /\ vq_id y = vq_id x.
Proof.
  intros l x. unfold in_queues. rewrite existsb_exists. split; intros (y & Hy & E); exists y; split; auto.
  - now apply Pos.eqb_eq.
  - now apply Pos.eqb_eq.
Qed.

Lemma chain_single_root : forall qs x, chain qs x [x] -> qparent qs x = None.
Proof.
  intros qs x H. inversion H; subst; auto.
  match goal with Hc : chain _ _ [] |- _ => destruct (chain_head _ _ _ Hc); discriminate end.
Qed.

Lemma first_set_single : forall sel x dflt, or_default (first_set sel [x]) dflt = or_default (sel x) dflt.
Proof. intros. cbn. destruct (sel x); reflexivity. Qed.

Lemma lca_on_paths_shared : forall dflt c a b, (1 <= List.length c)%nat ->
  lca_on_paths dflt (c ++ a) (c ++ b) =
  Dur (or_default (first_set vq_reclaim
        (rev (firstn (S (if Nat.ltb (List.length c + common_prefix_len a b - 1 + 1) (List.length (c ++ b))
                         then (List.length c + common_prefix_len a b - 1 + 1)%nat
                         else (List.length c + common_prefix_len a b - 1)%nat)) (c ++ b)))) dflt).
Proof.
  intros dflt c a b Hc. rewrite <- (cpl_app_same c a b).
  destruct c as [|h t]; [cbn in Hc; lia|].
  unfold lca_on_paths. cbn [app]. rewrite Pos.eqb_refl. cbn [negb]. reflexivity.
Qed.

Lemma lca_equiv : forall qs dflt r e ar ae,
  chain qs r ar -> chain qs e ae -> canonical qs r -> canonical qs e ->
  (List.length ae <= fuel_of qs)%nat ->
  lca_on_paths dflt (rev ar) (rev ae) =
  Dur (doc_walk vq_reclaim qs dflt
         (match last_opt (take_while (fun x => negb (in_queues ar x)) ae) with Some c => c | None => e end)).
Proof.
  intros qs dflt r e ar ae Hr He Hcr Hce Hlen.
  pose proof (chain_canonical _ _ _ Hr Hcr) as Hcar.
  pose proof (chain_canonical _ _ _ He Hce) as Hcae.
  set (p := fun x => negb (in_queues ar x)).
  pose proof (take_drop_while _ p ae) as Hsplit.
  pose proof (take_while_all _ p ae) as Hall.
  destruct (drop_while p ae) as [|y rest'] eqn:Hdrop.
  - (* no common ancestor: different top-level queues *)
    rewrite app_nil_r in Hsplit. rewrite <- Hsplit in Hall. rewrite <- Hsplit.
    destruct (chain_head _ _ _ Hr) as [ar0 Ear]. destruct (chain_head _ _ _ He) as [ae0 Eae].
    destruct (snoc_cases _ ar) as [E|(ar' & tr & Ear')]; [subst; discriminate|].
    destruct (snoc_cases _ ae) as [E|(ae' & te & Eae')]; [subst; discriminate|].
    rewrite Ear', Eae', !rev_app_distr. cbn [rev app]. unfold lca_on_paths.
    assert (Hne : Pos.eqb (vq_id tr) (vq_id te) = false).
    { apply Pos.eqb_neq. intro E.
      rewrite Forall_forall in Hall. assert (Hin : In te ae) by (rewrite Eae'; apply in_or_app; right; now left).
      specialize (Hall _ Hin). unfold p in Hall. apply negb_true_iff in Hall.
      assert (in_queues ar te = true); [|congruence].
      apply in_queues_spec. exists tr. split; auto. rewrite Ear'. apply in_or_app. right. now left. }
    rewrite Hne. cbn [negb]. f_equal.
    rewrite <- Eae'. rewrite Eae' at 1. rewrite last_opt_snoc.
    unfold doc_walk.
    assert (Hch : chain qs te [te]) by (eapply chain_suffix; [exact He | rewrite Eae'; reflexivity]).
    rewrite (chain_ancestors _ _ _ Hch) by (unfold fuel_of; cbn; lia).
    now rewrite first_set_single.
  - (* y is the lowest common ancestor-or-self *)
    pose proof (drop_while_head _ _ _ _ _ Hdrop) as Hy. unfold p in Hy. apply negb_false_iff in Hy.
    apply in_queues_spec in Hy. destruct Hy as (x & Hx & Exy).
    assert (Hyin : In y ae) by (rewrite Hsplit; apply in_or_app; right; now left).
    rewrite Forall_forall in Hcar, Hcae.
    assert (x = y) by (eapply canonical_eq; eauto). subst x.
    destruct (in_split _ _ Hx) as (a1 & a2 & Ear).
    assert (Hcy1 : chain qs y (y :: a2)) by (eapply chain_suffix; [exact Hr | exact Ear]).
    assert (Hcy2 : chain qs y (y :: rest')) by (eapply chain_suffix; [exact He | exact Hsplit]).
    assert (a2 = rest') by (pose proof (chain_det _ _ _ Hcy1 _ Hcy2) as E; now inversion E). subst a2.
    set (below := take_while p ae) in *.
    set (c := rev (y :: rest')).
    assert (Epr : rev ar = c ++ rev a1) by (rewrite Ear, rev_app_distr; reflexivity).
    assert (Epe : rev ae = c ++ rev below) by (rewrite Hsplit at 1; rewrite rev_app_distr; reflexivity).
    assert (Hclen : (1 <= List.length c)%nat) by (unfold c; rewrite rev_length; cbn; lia).
    rewrite Epr, Epe. rewrite (lca_on_paths_shared dflt c (rev a1) (rev below) Hclen).
    destruct (snoc_cases _ below) as [Eb|(b' & cq & Eb)].
    + (* the victim's queue is itself an ancestor-or-self of the reclaimer's *)
      rewrite Eb. cbn [rev last_opt]. rewrite app_nil_r.
      replace (common_prefix_len (rev a1) []) with 0%nat by (destruct (rev a1); reflexivity).
      rewrite Nat.add_0_r.
      replace (Nat.ltb (List.length c - 1 + 1) (List.length c)) with false by (symmetry; apply Nat.ltb_ge; lia).
      replace (S (List.length c - 1)) with (List.length c) by lia.
      rewrite firstn_all. unfold c. rewrite rev_involutive.
      assert (Eae : ae = y :: rest') by (rewrite Hsplit, Eb; reflexivity).
      destruct (chain_head _ _ _ He) as [ae0 Eae0]. assert (e = y) by congruence. subst y.
      unfold doc_walk. rewrite (chain_ancestors _ _ _ He) by exact Hlen. now rewrite Eae.
    + rewrite Eb, rev_app_distr. cbn [rev app]. rewrite last_opt_snoc.
      assert (Hcq : p cq = true).
      { rewrite Forall_forall in Hall. apply Hall. rewrite Eb. apply in_or_app. right. now left. }
      assert (Hz : common_prefix_len (rev a1) (cq :: rev b') = 0%nat).
      { destruct (rev a1) as [|z zs] eqn:Ez; [reflexivity|]. cbn.
        assert (Hzin : In z ar).
        { rewrite Ear. apply in_or_app. left. apply in_rev. rewrite Ez. now left. }
        destruct (Pos.eqb (vq_id z) (vq_id cq)) eqn:E; [|reflexivity].
        apply Pos.eqb_eq in E. unfold p in Hcq. apply negb_true_iff in Hcq.
        assert (in_queues ar cq = true); [|congruence]. apply in_queues_spec. eauto. }
      rewrite Hz, Nat.add_0_r.
      replace (Nat.ltb (List.length c - 1 + 1) (List.length (c ++ cq :: rev b'))) with true
        by (symmetry; apply Nat.ltb_lt; rewrite app_length; cbn [List.length]; lia).
      replace (S (List.length c - 1 + 1)) with (List.length c + 1)%nat by lia.
      rewrite firstn_app. rewrite firstn_all2 by lia.
      replace (List.length c + 1 - List.length c)%nat with 1%nat by lia. cbn [firstn].
      rewrite rev_app_distr. cbn [rev app]. unfold c. rewrite rev_involutive.
      assert (Hch : chain qs cq (cq :: y :: rest')).
      { eapply chain_suffix; [exact He|]. rewrite Hsplit, Eb, <- app_assoc. reflexivity. }
      unfold doc_walk. rewrite (chain_ancestors _ _ _ Hch); [reflexivity|].
      rewrite Hsplit, Eb in Hlen. rewrite !app_length in Hlen. cbn [List.length] in Hlen |- *. lia.
Qed.

Lemma resolve_reclaim_lca_doc : forall qs dflt r e,
  canonical qs r -> canonical qs e ->
  forall m, resolve_reclaim_lca (fuel_of qs) qs dflt r e = m ->
  m = NoTermination \/ m = Dur (doc_reclaim_lca qs dflt r e).
Proof.
  intros qs dflt r e Hr He m H. unfold resolve_reclaim_lca, hier_path in H.
  destruct (path_up (fuel_of qs) qs r) as [lr|] eqn:Er; [|left; now subst].
  destruct (path_up (fuel_of qs) qs e) as [le|] eqn:Ee; [|left; now subst].
  right. subst m.
  pose proof (path_up_chain _ _ _ _ Er) as Hcr. pose proof (path_up_chain _ _ _ _ Ee) as Hce.
  pose proof (path_up_length _ _ _ _ Er) as Hlr. pose proof (path_up_length _ _ _ _ Ee) as Hle.
  rewrite (lca_equiv qs dflt r e lr le Hcr Hce Hr He Hle).
  unfold doc_reclaim_lca, doc_lca_start.
  now rewrite (chain_ancestors _ _ _ Hcr _ Hlr), (chain_ancestors _ _ _ Hce _ Hle).
Qed.

Lemma resolve_reclaim_lca_terminates : forall qs dflt r e,
  acyclic qs -> canonical qs r -> canonical qs e ->
  resolve_reclaim_lca (fuel_of qs) qs dflt r e = Dur (doc_reclaim_lca qs dflt r e).
Proof.
  intros qs dflt r e Ha Hr He.
  destruct (resolve_reclaim_lca_doc qs dflt r e Hr He _ eq_refl) as [H|H]; [|exact H].
  unfold resolve_reclaim_lca, hier_path in H.
  destruct (path_up (fuel_of qs) qs r) eqn:Er; [|now apply path_up_terminates in Er].
  destruct (path_up (fuel_of qs) qs e) eqn:Ee; [|now apply path_up_terminates in Ee].
  pose proof (path_up_chain _ _ _ _ Er) as Hcr. pose proof (path_up_chain _ _ _ _ Ee) as Hce.
  pose proof (path_up_length _ _ _ _ Ee) as Hle.
  rewrite (lca_equiv qs dflt r e _ _ Hcr Hce Hr He Hle) in H. discriminate.
Qed.

(** the plugin's verdict, when it gives one, is the documented one *)
Lemma preempt_protected_doc : forall env pj j b,
  preempt_protected env j = V b -> b = inside_min_runtime env APreempt pj j.
Proof.
  intros env pj j b H. unfold preempt_protected, protected_of, resolve_preempt in H.
  unfold inside_min_runtime, doc_duration, doc_preempt.
  destruct (qlookup (ve_queues env) (vj_queue j)) as [q|] eqn:Eq.
  - destruct (walk_up vq_preempt (fuel_of (ve_queues env)) (ve_queues env) (ve_dpre env) q) as [d| |] eqn:Ew; try discriminate.
    apply walk_up_doc in Ew. unfold doc_walk. rewrite Ew. now inversion H.
  - now inversion H.
Qed.

Lemma reclaim_protected_doc : forall env pj j b,
  reclaim_protected env pj j = V b -> b = inside_min_runtime env AReclaim pj j.
Proof.
  intros env pj j b H. unfold reclaim_protected, protected_of, resolve_reclaim in H.
  unfold inside_min_runtime, doc_duration, doc_reclaim.
  destruct (qlookup (ve_queues env) (vj_queue pj)) as [r|] eqn:Er;
    destruct (qlookup (ve_queues env) (vj_queue j)) as [e|] eqn:Ee; try (now inversion H).
  destruct (ve_lca env).
  - destruct (resolve_reclaim_lca_doc (ve_queues env) (ve_drec env) r e
                (qlookup_canonical _ _ _ Er) (qlookup_canonical _ _ _ Ee) _ eq_refl) as [E|E];
      rewrite E in H; [discriminate | now inversion H].
  - destruct (walk_up vq_reclaim (fuel_of (ve_queues env)) (ve_queues env) (ve_drec env) e) as [d| |] eqn:Ew; try discriminate.
    apply walk_up_doc in Ew. unfold doc_walk. rewrite Ew. now inversion H.
Qed.

Lemma mrt_protected_doc : forall env a pj j b,
  a <> AConsolidation -> mrt_protected env a pj j = V b -> b = inside_min_runtime env a pj j.
Proof.
  intros env a pj j b Ha H. destruct a; cbn in H.
  - now apply reclaim_protected_doc.
  - now apply preempt_protected_doc with (pj := pj).
  - congruence.
Qed.

Lemma mrt_protected_terminates : forall env a pj j,
  acyclic (ve_queues env) -> exists b, mrt_protected env a pj j = V b.
Proof.
  intros env a pj j Hac. destruct a; cbn.
  - unfold reclaim_protected, protected_of, resolve_reclaim.
    destruct (qlookup (ve_queues env) (vj_queue pj)) as [r|] eqn:Er;
      destruct (qlookup (ve_queues env) (vj_queue j)) as [e|] eqn:Ee; eauto.
    destruct (ve_lca env).
    + rewrite resolve_reclaim_lca_terminates; eauto using qlookup_canonical.
    + destruct (walk_up_terminates vq_reclaim _ (ve_drec env) e Hac (qlookup_canonical _ _ _ Ee)) as [d ->]. eauto.
  - unfold preempt_protected, protected_of, resolve_preempt.
    destruct (qlookup (ve_queues env) (vj_queue j)) as [q|] eqn:Eq; eauto.
    destruct (walk_up_terminates vq_preempt _ (ve_dpre env) q Hac (qlookup_canonical _ _ _ Eq)) as [d ->]. eauto.
  - eauto.
Qed.

(** * Part B: statements and scenarios *)

Definition pres (f : vtask -> vtask) : Prop :=
  forall x, vt_id (f x) = vt_id x /\ vt_job (f x) = vt_job x /\ vt_pset (f x) = vt_pset x.
Lemma pres_set_status : forall st, pres (set_status st). Proof. intros st x; cbn; auto. Qed.
Lemma pres_set_status_groups : forall st gs, pres (set_status_groups st gs). Proof. intros st gs x; cbn; auto. Qed.
Lemma pres_set_piped : forall n gs, pres (set_piped n gs). Proof. intros n gs x; cbn; auto. Qed.
#[local] Hint Resolve pres_set_status pres_set_status_groups pres_set_piped : core.

Definition frame (l : list vtask) : list (positive * positive * positive) :=
  map (fun x => (vt_id x, vt_job x, vt_pset x)) l.

Lemma frame_upd_first : forall t f l, pres f -> frame (upd_first t f l) = frame l.
Proof.
  intros t f l Hf. unfold frame. induction l as [|x r IH]; cbn [upd_first map]; [reflexivity|].
  destruct (Pos.eqb (vt_id x) t); cbn [map].
  - destruct (Hf x) as (-> & -> & ->). reflexivity.
  - now rewrite IH.
Qed.

Lemma get_task_id : forall l t tk, get_task l t = Some tk -> vt_id tk = t.
Proof.
  induction l as [|x r IH]; intros t tk H; cbn in H; [discriminate|].
  destruct (Pos.eqb (vt_id x) t) eqn:E; [inversion H; subst; now apply Pos.eqb_eq | eauto].
Qed.

Lemma get_task_in : forall l t tk, get_task l t = Some tk -> In tk l.
Proof.
  induction l as [|x r IH]; intros t tk H; cbn in H; [discriminate|].
  destruct (Pos.eqb (vt_id x) t); [inversion H; subst; now left | right; eauto].
Qed.

Lemma get_task_upd_same : forall t f l, pres f ->
  get_task (upd_first t f l) t = option_map f (get_task l t).
Proof.
  intros t f l Hf. induction l as [|x r IH]; cbn; [reflexivity|].
  destruct (Pos.eqb (vt_id x) t) eqn:E; cbn.
  - destruct (Hf x) as (-> & _). now rewrite E.
  - now rewrite E.
Qed.

Lemma get_task_upd_other : forall t t' f l, pres f -> t' <> t ->
  get_task (upd_first t f l) t' = get_task l t'.
Proof.
  intros t t' f l Hf Hne. induction l as [|x r IH]; cbn; [reflexivity|].
  destruct (Pos.eqb (vt_id x) t) eqn:E; cbn.
  - destruct (Hf x) as (-> & _). apply Pos.eqb_eq in E.
    destruct (Pos.eqb (vt_id x) t') eqn:E'; [apply Pos.eqb_eq in E'; congruence | reflexivity].
  - destruct (Pos.eqb (vt_id x) t'); [reflexivity | exact IH].
Qed.

Lemma get_task_frame : forall l l' t tk, frame l = frame l' -> get_task l t = Some tk ->
  exists tk', get_task l' t = Some tk' /\ vt_job tk' = vt_job tk /\ vt_pset tk' = vt_pset tk.
Proof.
  induction l as [|x r IH]; intros l' t tk Hf H; cbn in H; [discriminate|].
  destruct l' as [|x' r']; cbn in Hf; [discriminate|]. inversion Hf as [[Hi Hj Hp Hr]].
  cbn. rewrite <- Hi. destruct (Pos.eqb (vt_id x) t) eqn:E.
  - inversion H; subst. eauto.
  - eauto.
Qed.

Lemma filter_frame_length : forall (g : positive * positive * positive -> bool) l l',
  frame l = frame l' ->
  List.length (filter (fun x => g (vt_id x, vt_job x, vt_pset x)) l)
  = List.length (filter (fun x => g (vt_id x, vt_job x, vt_pset x)) l').
Proof.
  intros g. induction l as [|x r IH]; intros l' Hf; destruct l' as [|x' r']; cbn in Hf; try discriminate; [reflexivity|].
  inversion Hf as [[Hi Hj Hp Hr]]. cbn. rewrite Hi, Hj, Hp.
  destruct (g (vt_id x', vt_job x', vt_pset x')); cbn; auto.
Qed.

Lemma filter_job_upd : forall t f l tk j, pres f -> get_task l t = Some tk -> vt_job tk <> j ->
  filter (fun x => Pos.eqb (vt_job x) j) (upd_first t f l) = filter (fun x => Pos.eqb (vt_job x) j) l.
Proof.
  intros t f l tk j Hf. induction l as [|x r IH]; intros H Hne; cbn in *; [reflexivity|].
  destruct (Pos.eqb (vt_id x) t) eqn:E.
  - inversion H; subst. cbn. destruct (Hf tk) as (_ & -> & _).
    destruct (Pos.eqb (vt_job tk) j) eqn:Ej; [apply Pos.eqb_eq in Ej; congruence | reflexivity].
  - cbn. destruct (Pos.eqb (vt_job x) j); [f_equal|]; auto.
Qed.

Lemma find_job_id : forall js id j, find_job js id = Some j -> vj_id j = id.
Proof.
  induction js as [|x r IH]; intros id j H; cbn in H; [discriminate|].
  destruct (Pos.eqb (vj_id x) id) eqn:E; [inversion H; subst; now apply Pos.eqb_eq | eauto].
Qed.

(** ** tasks that may differ: the two lists have the same (id, job, pod set) frame
    pointwise, and a task differs only where [P id job] holds *)
Definition same_but (P : positive -> positive -> bool) (l l' : list vtask) : Prop :=
  Forall2 (fun x y => vt_id x = vt_id y /\ vt_job x = vt_job y /\ vt_pset x = vt_pset y
                      /\ (P (vt_id x) (vt_job x) = false -> x = y)) l l'.

Lemma same_but_refl : forall P l, same_but P l l.
Proof. intros P l. induction l as [|x r IH]; constructor; auto. Qed.

Lemma same_but_trans : forall P l1 l2 l3, same_but P l1 l2 -> same_but P l2 l3 -> same_but P l1 l3.
Proof.
  intros P l1 l2 l3 H. revert l3.
  induction H as [|x y r1 r2 (Hi & Hj & Hp & He) Hr IH]; intros l3 H23;
    inversion H23 as [|y' z r2' r3 (Hi' & Hj' & Hp' & He') Hr']; subst; constructor.
  - repeat split; try congruence. intros HP. transitivity y; [auto|]. apply He'. rewrite <- Hi, <- Hj. exact HP.
  - apply IH. exact Hr'.
Qed.

Lemma same_but_upd : forall P t f l, pres f ->
  (forall tk, get_task l t = Some tk -> P t (vt_job tk) = true) -> same_but P l (upd_first t f l).
Proof.
  intros P t f l Hf. induction l as [|x r IH]; intros H; cbn [upd_first]; [constructor|].
  destruct (Pos.eqb (vt_id x) t) eqn:E.
  - constructor; [|apply same_but_refl]. destruct (Hf x) as (Hi & Hj & Hp). repeat split; auto.
    intros HP. assert (Hx : P t (vt_job x) = true) by (apply H; cbn [get_task]; now rewrite E).
    apply Pos.eqb_eq in E. rewrite E in HP. congruence.
  - constructor; [repeat split; auto|]. apply IH. intros tk Hg. apply H. cbn [get_task]. now rewrite E.
Qed.

(** a count over a frame-defined sub-list that ignores the tasks that may differ *)
Lemma same_but_count : forall P (g : positive * positive * positive -> bool) (q : vtask -> bool) l l',
  same_but P l l' ->
  (forall x, P (vt_id x) (vt_job x) = true -> g (vt_id x, vt_job x, vt_pset x) && q x = false) ->
  countb q (filter (fun x => g (vt_id x, vt_job x, vt_pset x)) l)
  = countb q (filter (fun x => g (vt_id x, vt_job x, vt_pset x)) l').
Proof.
  intros P g q l l' H Hq. unfold countb. f_equal.
  induction H as [|x y r r' (Hi & Hj & Hp & He) Hr IH]; [reflexivity|].
  cbn [filter]. rewrite <- Hi, <- Hj, <- Hp.
  destruct (P (vt_id x) (vt_job x)) eqn:EP.
  - pose proof (Hq x EP) as Hx.
    assert (Hy : g (vt_id x, vt_job x, vt_pset x) && q y = false).
    { pose proof (Hq y) as Hy. rewrite <- Hi, <- Hj, <- Hp in Hy. auto. }
    destruct (g (vt_id x, vt_job x, vt_pset x)); [|exact IH].
    cbn [andb] in Hx, Hy. cbn [filter]. rewrite Hx, Hy. exact IH.
  - rewrite <- (He eq_refl). destruct (g (vt_id x, vt_job x, vt_pset x)); [|exact IH].
    cbn [filter]. destruct (q x); cbn [List.length]; now rewrite IH.
Qed.

(** ** operations *)
Definition evict_ids (ops : list sop) : list positive :=
  flat_map (fun o => match o with SEvict t _ _ _ _ => [t] | _ => [] end) ops.
Definition is_valid_evict (t : positive) (o : sop) : bool :=
  match o with SEvict t' _ _ _ true => Pos.eqb t' t | _ => false end.
Definition nvalid (t : positive) (ops : list sop) : nat := List.length (filter (is_valid_evict t) ops).

Lemma evict_ids_cons : forall o r,
  evict_ids (o :: r) = (match o with SEvict t _ _ _ _ => [t] | _ => [] end) ++ evict_ids r.
Proof. reflexivity. Qed.
Lemma evict_ids_app : forall a b, evict_ids (a ++ b) = evict_ids a ++ evict_ids b.
Proof. intros. unfold evict_ids. now rewrite flat_map_app. Qed.
Lemma nvalid_app : forall t a b, nvalid t (a ++ b) = (nvalid t a + nvalid t b)%nat.
Proof. intros. unfold nvalid. now rewrite filter_app, app_length. Qed.

Lemma unevict_first_props : forall t ops ops' prev pg,
  unevict_first t ops = Some (ops', prev, pg) ->
  evict_ids ops' = evict_ids ops
  /\ (forall t' n gs, In (SPipe t' n gs) ops <-> In (SPipe t' n gs) ops')
  /\ nvalid t ops = S (nvalid t ops')
  /\ (forall t', t' <> t -> nvalid t' ops' = nvalid t' ops)
  /\ In t (evict_ids ops)
  /\ (forall t' p g pn, In (SEvict t' p g pn true) ops' -> In (SEvict t' p g pn true) ops)
  /\ (forall t' n gs, In (SAlloc t' n gs) ops <-> In (SAlloc t' n gs) ops').
Proof.
  intros t. induction ops as [|o r IH]; intros ops' prev pg H; cbn in H; [discriminate|].
  destruct o as [t0 p0 g0 pn0 v0 | t0 n0 gs0 | t0 n0 gs0].
  - destruct v0.
    + destruct (Pos.eqb t0 t) eqn:E.
      * inversion H; subst. apply Pos.eqb_eq in E. subst t0. repeat split.
        -- intros [Hx|Hx]; [discriminate | now right].
        -- intros [Hx|Hx]; [discriminate | now right].
        -- unfold nvalid. cbn. now rewrite Pos.eqb_refl.
        -- intros t' Hne. unfold nvalid. cbn.
           destruct (Pos.eqb t t') eqn:E'; [apply Pos.eqb_eq in E'; congruence | reflexivity].
        -- cbn. now left.
        -- intros t' p g pn [Hx|Hx]; [discriminate | now right].
        -- intros [Hx|Hx]; [discriminate | now right].
        -- intros [Hx|Hx]; [discriminate | now right].
      * destruct (unevict_first t r) as [[[r' p] g]|] eqn:Er; [|discriminate]. inversion H; subst.
        destruct (IH _ _ _ eq_refl) as (H1 & H2 & H3 & H4 & H5 & H6 & H7). repeat split.
        -- rewrite !evict_ids_cons. now rewrite H1.
        -- intros [Hx|Hx]; [discriminate | right; now apply H2].
        -- intros [Hx|Hx]; [discriminate | right; now apply H2].
        -- unfold nvalid in *. cbn. rewrite E. exact H3.
        -- intros t' Hne. unfold nvalid in *. cbn. specialize (H4 t' Hne).
           destruct (Pos.eqb t0 t'); cbn; [now rewrite H4 | exact H4].
        -- cbn. now right.
        -- intros t' p' g' pn' [Hx|Hx]; [left; exact Hx | right; eapply H6; eauto].
        -- intros [Hx|Hx]; [discriminate | right; now apply H7].
        -- intros [Hx|Hx]; [discriminate | right; now apply H7].
    + destruct (unevict_first t r) as [[[r' p] g]|] eqn:Er; [|discriminate]. inversion H; subst.
      destruct (IH _ _ _ eq_refl) as (H1 & H2 & H3 & H4 & H5 & H6 & H7). repeat split.
      * rewrite !evict_ids_cons. now rewrite H1.
      * intros [Hx|Hx]; [discriminate | right; now apply H2].
      * intros [Hx|Hx]; [discriminate | right; now apply H2].
      * unfold nvalid in *. cbn. exact H3.
      * intros t' Hne. unfold nvalid in *. cbn. exact (H4 t' Hne).
      * cbn. now right.
      * intros t' p' g' pn' [Hx|Hx]; [discriminate | right; eapply H6; eauto].
      * intros [Hx|Hx]; [discriminate | right; now apply H7].
      * intros [Hx|Hx]; [discriminate | right; now apply H7].
  - destruct (unevict_first t r) as [[[r' p] g]|] eqn:Er; [|discriminate]. inversion H; subst.
    destruct (IH _ _ _ eq_refl) as (H1 & H2 & H3 & H4 & H5 & H6 & H7). repeat split.
    + rewrite !evict_ids_cons. now rewrite H1.
    + intros [Hx|Hx]; [now left | right; now apply H2].
    + intros [Hx|Hx]; [now left | right; now apply H2].
    + unfold nvalid in *. cbn. exact H3.
    + intros t' Hne. unfold nvalid in *. cbn. exact (H4 t' Hne).
    + cbn. exact H5.
    + intros t' p' g' pn' [Hx|Hx]; [discriminate | right; eapply H6; eauto].
    + intros [Hx|Hx]; [discriminate | right; now apply H7].
    + intros [Hx|Hx]; [discriminate | right; now apply H7].
  - destruct (unevict_first t r) as [[[r' p] g]|] eqn:Er; [|discriminate]. inversion H; subst.
    destruct (IH _ _ _ eq_refl) as (H1 & H2 & H3 & H4 & H5 & H6 & H7). repeat split.
    + rewrite !evict_ids_cons. now rewrite H1.
    + intros [Hx|Hx]; [discriminate | right; now apply H2].
    + intros [Hx|Hx]; [discriminate | right; now apply H2].
    + unfold nvalid in *. cbn. exact H3.
    + intros t' Hne. unfold nvalid in *. cbn. exact (H4 t' Hne).
    + cbn. exact H5.
    + intros t' p' g' pn' [Hx|Hx]; [discriminate | right; eapply H6; eauto].
    + intros [Hx|Hx]; [now left | right; now apply H7].
    + intros [Hx|Hx]; [now left | right; now apply H7].
Qed.

(** ** the two statement primitives *)
Lemma st_eqb_eq : forall a b, status_eqb a b = true <-> a = b.
Proof. intros a b. destruct a, b; cbn; split; intro H; try reflexivity; try discriminate. Qed.

(** Statement.Evict: either the pod was seen Releasing (not a stale copy: nothing
    happens), or it becomes Releasing and one valid evict operation is appended *)
Lemma stmt_evict_gen_inv : forall stale s ops t s' ops',
  stmt_evict_gen stale s ops t = Some (s', ops') ->
  exists tk, get_task (ss_tasks s) t = Some tk /\
    ((~ In t stale /\ vt_status tk = Releasing /\ s' = s /\ ops' = ops)
     \/ (exists pn, (~ In t stale -> vt_status tk <> Releasing)
           /\ ss_jobs s' = ss_jobs s /\ ss_entries s' = ss_entries s
           /\ ss_tasks s' = upd_first t (set_status Releasing) (ss_tasks s)
           /\ ops' = ops ++ [SEvict t (vt_status tk) (vt_groups tk) pn true])).
Proof.
  intros stale s ops t s' ops' H. unfold stmt_evict_gen in H.
  destruct (get_task (ss_tasks s) t) as [tk|] eqn:Et; [|discriminate].
  destruct (find_job (ss_jobs s) (vt_job tk)); [|discriminate].
  destruct (vt_node tk) as [pn|]; [|discriminate]. exists tk. split; [reflexivity|].
  assert (Hm : forall x l, mem_pos x l = true <-> In x l).
  { intros x l. unfold mem_pos. rewrite existsb_exists. split.
    - intros (y & Hy & E). apply Pos.eqb_eq in E. now subst.
    - intros Hx. exists x. split; auto. apply Pos.eqb_refl. }
  destruct (negb (mem_pos t stale) && status_eqb (vt_status tk) Releasing) eqn:Eb.
  - apply andb_true_iff in Eb. destruct Eb as [Er Es]. apply st_eqb_eq in Es. apply negb_true_iff in Er.
    inversion H; subst. left. repeat split; auto. intros Hin. apply Hm in Hin. congruence.
  - inversion H; subst. right. exists pn. cbn. repeat split; auto.
    intros Hns Hs. apply st_eqb_eq in Hs. rewrite Hs in Eb.
    destruct (mem_pos t stale) eqn:Em; [apply Hm in Em; contradiction | cbn in Eb; discriminate].
Qed.

Definition good_move (s : sstate) (t n : positive) (gs : list positive) : Prop :=
  entry_of (ss_entries s) t n = None
  \/ exists egs, entry_of (ss_entries s) t n = Some egs /\ pos_list_eqb gs egs = false.

Lemma stmt_pipeline_inv : forall s ops t n gs s' ops',
  stmt_pipeline s ops (t, n, gs) = Some (s', ops') ->
  exists tk, get_task (ss_tasks s) t = Some tk /\ ss_jobs s' = ss_jobs s /\
    ((ss_tasks s' = upd_first t (set_piped n gs) (ss_tasks s) /\ ops' = ops ++ [SPipe t n gs]
      /\ ss_entries s' = entry_set (ss_entries s) t n gs /\ good_move s t n gs)
     \/ (exists prev pg, unevict_first t ops = Some (ops', prev, pg)
         /\ ss_tasks s' = upd_first t (set_status_groups prev pg) (ss_tasks s) /\ ss_entries s' = ss_entries s)).
Proof.
  intros s ops t n gs s' ops' H. unfold stmt_pipeline in H.
  destruct (get_task (ss_tasks s) t) as [tk|] eqn:Et; [|discriminate].
  destruct (find_job (ss_jobs s) (vt_job tk)); [|discriminate].
  exists tk. split; [reflexivity|].
  destruct (entry_of (ss_entries s) t n) as [egs|] eqn:Ee.
  - destruct (negb match gs with [] => true | _ :: _ => false end && vt_shared tk && negb (pos_list_eqb gs egs)) eqn:Em.
    + inversion H; subst. cbn. split; [reflexivity|]. left. repeat split; auto.
      right. exists egs. split; [exact Ee|].
      apply andb_true_iff in Em. destruct Em as [_ Em]. now apply negb_true_iff in Em.
    + destruct (unevict_first t ops) as [[[o' p] g]|] eqn:Eu; [|discriminate]. inversion H; subst. cbn.
      split; [reflexivity|]. right. exists p, g. auto.
  - inversion H; subst. cbn. split; [reflexivity|]. left. repeat split; auto. now left.
Qed.

Lemma fold_opt_inv : forall A B (f : A -> B -> option A) (P : A -> Prop) l a a',
  (forall x a1 a2, In x l -> P a1 -> f a1 x = Some a2 -> P a2) ->
  P a -> fold_opt f a l = Some a' -> P a'.
Proof.
  intros A B f P. induction l as [|x r IH]; intros a a' Hs Ha H; cbn in H.
  - now inversion H; subst.
  - destruct (f a x) as [a1|] eqn:E; [|discriminate].
    eapply IH; [| |exact H].
    + intros y b1 b2 Hy. apply Hs. now right.
    + eapply Hs; eauto. now left.
Qed.

(** ** Commit *)
Definition no_alloc (ops : list sop) : Prop := forall t n gs, ~ In (SAlloc t n gs) ops.

Lemma no_alloc_cons : forall o r, no_alloc (o :: r) -> no_alloc r.
Proof. intros o r H t n gs Hin. apply (H t n gs). now right. Qed.

(** without failures (and without allocate operations) a commit emits one accepted
    call per valid operation and leaves the session as the statement built it *)
Lemma commit_run_no_faults : forall c rs a pre ops ke kb s,
  no_alloc ops -> commit_run c rs no_faults a pre ke kb s ops = (commit_ops a pre ops, s).
Proof.
  intros c rs a pre. induction ops as [|o r IH]; intros ke kb s Hna; [reflexivity|].
  pose proof (no_alloc_cons _ _ Hna) as Hr.
  destruct o as [t p g pn [|] | t n gs | t n gs]; cbn [commit_run commit_ops flat_map no_faults f_evict f_bind].
  - rewrite (IH _ _ _ Hr). reflexivity.
  - apply IH; auto.
  - rewrite (IH _ _ _ Hr). reflexivity.
  - exfalso. apply (Hna t n gs). now left.
Qed.

(** with the loop carrying on and no allocate operation, every oracle leaves the
    nominations alone and turns each valid evict operation into exactly one
    Evict call, accepted or refused *)
Lemma commit_run_pipes : forall rs f a pre ops ke kb s t n gs,
  no_alloc ops ->
  (In (VPipe t n gs) (fst (commit_run true rs f a pre ke kb s ops)) <-> In (SPipe t n gs) ops).
Proof.
  intros rs f a pre. induction ops as [|o r IH]; intros ke kb s t n gs Hna; [cbn; tauto|].
  pose proof (no_alloc_cons _ _ Hna) as Hr.
  destruct o as [t0 p0 g0 pn0 [|] | t0 n0 gs0 | t0 n0 gs0]; cbn [commit_run].
  - destruct (f_evict f ke).
    + destruct (commit_run true rs f a pre (S ke) kb (unevict_gen rs s t0 p0 g0 pn0) r) as [cs s2] eqn:E. cbn [fst].
      specialize (IH (S ke) kb (unevict_gen rs s t0 p0 g0 pn0) t n gs Hr). rewrite E in IH. cbn [fst] in IH.
      split.
      * intros [Hx|Hx]; [discriminate | right; now apply IH].
      * intros [Hx|Hx]; [discriminate | right; now apply IH].
    + destruct (commit_run true rs f a pre (S ke) kb s r) as [cs s2] eqn:E. cbn [fst].
      specialize (IH (S ke) kb s t n gs Hr). rewrite E in IH. cbn [fst] in IH.
      split.
      * intros [Hx|Hx]; [discriminate | right; now apply IH].
      * intros [Hx|Hx]; [discriminate | right; now apply IH].
  - rewrite (IH ke kb s t n gs Hr). split; [now right | intros [Hx|Hx]; [discriminate | exact Hx]].
  - destruct (commit_run true rs f a pre ke kb s r) as [cs s2] eqn:E. cbn [fst].
    specialize (IH ke kb s t n gs Hr). rewrite E in IH. cbn [fst] in IH.
    split.
    + intros [Hx|Hx]; [left; congruence | right; now apply IH].
    + intros [Hx|Hx]; [left; congruence | right; now apply IH].
  - exfalso. apply (Hna t0 n0 gs0). now left.
Qed.

Definition is_evict_call (c : vcall) : Prop :=
  match c with VEvict _ _ _ | VEvictFailed _ _ _ => True | _ => False end.
Definition evict_call_of (c : vcall) (t : positive) (a : vaction) (p : positive) : Prop :=
  c = VEvict t a p \/ c = VEvictFailed t a p.

Lemma commit_run_evicts : forall c rs f a pre ops ke kb s t a' p' x,
  evict_call_of x t a' p' -> In x (fst (commit_run c rs f a pre ke kb s ops)) ->
  a' = a /\ p' = pre /\ exists prev pg pn, In (SEvict t prev pg pn true) ops.
Proof.
  intros c rs f a pre. induction ops as [|o r IH]; intros ke kb s t a' p' x Hx Hin; [destruct Hin|].
  destruct o as [t0 p0 g0 pn0 [|] | t0 n0 gs0 | t0 n0 gs0]; cbn [commit_run] in Hin.
  - destruct (f_evict f ke).
    + destruct c.
      * destruct (commit_run true rs f a pre (S ke) kb (unevict_gen rs s t0 p0 g0 pn0) r) as [cs s2] eqn:E. cbn [fst] in Hin.
        destruct Hin as [Hh|Hin].
        -- destruct Hx as [->| ->]; inversion Hh; subst. split; auto. split; auto. exists p0, g0, pn0. now left.
        -- specialize (IH (S ke) kb (unevict_gen rs s t0 p0 g0 pn0) t a' p' x Hx). rewrite E in IH.
           destruct (IH Hin) as (? & ? & pr & pg & pn & Hi). repeat split; auto. exists pr, pg, pn. now right.
      * cbn [fst] in Hin. destruct Hin as [Hh|[]].
        destruct Hx as [->| ->]; inversion Hh; subst. split; auto. split; auto. exists p0, g0, pn0. now left.
    + destruct (commit_run c rs f a pre (S ke) kb s r) as [cs s2] eqn:E. cbn [fst] in Hin.
      destruct Hin as [Hh|Hin].
      * destruct Hx as [->| ->]; inversion Hh; subst. split; auto. split; auto. exists p0, g0, pn0. now left.
      * specialize (IH (S ke) kb s t a' p' x Hx). rewrite E in IH.
        destruct (IH Hin) as (? & ? & pr & pg & pn & Hi). repeat split; auto. exists pr, pg, pn. now right.
  - destruct (IH ke kb s t a' p' x Hx Hin) as (? & ? & pr & pg & pn & Hi). repeat split; auto. exists pr, pg, pn. now right.
  - destruct (commit_run c rs f a pre ke kb s r) as [cs s2] eqn:E. cbn [fst] in Hin.
    destruct Hin as [Hh|Hin]; [destruct Hx as [->| ->]; discriminate|].
    specialize (IH ke kb s t a' p' x Hx). rewrite E in IH.
    destruct (IH Hin) as (? & ? & pr & pg & pn & Hi). repeat split; auto. exists pr, pg, pn. now right.
  - destruct (f_bind f kb).
    + cbn [fst] in Hin. destruct Hin as [Hh|[]]. destruct Hx as [->| ->]; discriminate.
    + destruct (commit_run c rs f a pre ke (S kb) (bound_state s t0) r) as [cs s2] eqn:E. cbn [fst] in Hin.
      destruct Hin as [Hh|Hin]; [destruct Hx as [->| ->]; discriminate|].
      specialize (IH ke (S kb) (bound_state s t0) t a' p' x Hx). rewrite E in IH.
      destruct (IH Hin) as (? & ? & pr & pg & pn & Hi). repeat split; auto. exists pr, pg, pn. now right.
Qed.

(** no allocate operation: no Bind call, accepted or refused *)
Lemma commit_run_no_bind : forall c rs f a pre ops ke kb s x,
  no_alloc ops -> In x (fst (commit_run c rs f a pre ke kb s ops)) ->
  match x with VBind _ _ _ | VBindFailed _ _ _ => False | _ => True end.
Proof.
  intros c rs f a pre. induction ops as [|o r IH]; intros ke kb s x Hna Hin; [destruct Hin|].
  pose proof (no_alloc_cons _ _ Hna) as Hr.
  destruct o as [t0 p0 g0 pn0 [|] | t0 n0 gs0 | t0 n0 gs0]; cbn [commit_run] in Hin.
  - destruct (f_evict f ke).
    + destruct c.
      * destruct (commit_run true rs f a pre (S ke) kb (unevict_gen rs s t0 p0 g0 pn0) r) as [cs s2] eqn:E. cbn [fst] in Hin.
        destruct Hin as [<-|Hin]; [exact I|].
        specialize (IH (S ke) kb (unevict_gen rs s t0 p0 g0 pn0) x Hr). rewrite E in IH. cbn [fst] in IH. exact (IH Hin).
      * cbn [fst] in Hin. destruct Hin as [<-|[]]. exact I.
    + destruct (commit_run c rs f a pre (S ke) kb s r) as [cs s2] eqn:E. cbn [fst] in Hin.
      destruct Hin as [<-|Hin]; [exact I|].
      specialize (IH (S ke) kb s x Hr). rewrite E in IH. cbn [fst] in IH. exact (IH Hin).
  - exact (IH ke kb s x Hr Hin).
  - destruct (commit_run c rs f a pre ke kb s r) as [cs s2] eqn:E. cbn [fst] in Hin.
    destruct Hin as [<-|Hin]; [exact I|].
    specialize (IH ke kb s x Hr). rewrite E in IH. cbn [fst] in IH. exact (IH Hin).
  - exfalso. apply (Hna t0 n0 gs0). now left.
Qed.

(** a refused bind ends the commit: the operations behind it are dropped *)
Lemma commit_run_failed_bind : forall c rs f a pre kb ke s t n gs r,
  f_bind f kb = true ->
  commit_run c rs f a pre ke kb s (SAlloc t n gs :: r) = ([VBindFailed t n gs], unallocate_state s t n).
Proof. intros c rs f a pre kb ke s t n gs r H. cbn [commit_run]. now rewrite H. Qed.

Lemma unevict_gen_frame : forall rs s t prev pg pn,
  ss_jobs (unevict_gen rs s t prev pg pn) = ss_jobs s
  /\ frame (ss_tasks (unevict_gen rs s t prev pg pn)) = frame (ss_tasks s).
Proof.
  intros rs s t prev pg pn. unfold unevict_gen, unevict_state, unevict_state_commit_time.
  destruct rs; destruct (get_task (ss_tasks s) t); cbn [ss_jobs ss_tasks]; auto.
  split; [reflexivity|]. apply frame_upd_first; auto.
Qed.

(** jobs and the (id, job, pod set) frame survive a commit *)
Lemma commit_run_frame : forall c rs f a pre ops ke kb s,
  ss_jobs (snd (commit_run c rs f a pre ke kb s ops)) = ss_jobs s
  /\ frame (ss_tasks (snd (commit_run c rs f a pre ke kb s ops))) = frame (ss_tasks s).
Proof.
  intros c rs f a pre. induction ops as [|o r IH]; intros ke kb s; [cbn; auto|].
  assert (Hset : pres set_unallocated) by (intros x; cbn; auto).
  destruct o as [t0 p0 g0 pn0 [|] | t0 n0 gs0 | t0 n0 gs0]; cbn [commit_run].
  - destruct (f_evict f ke).
    + destruct c.
      * specialize (IH (S ke) kb (unevict_gen rs s t0 p0 g0 pn0)).
        destruct (commit_run true rs f a pre (S ke) kb (unevict_gen rs s t0 p0 g0 pn0) r) as [cs s2]. cbn [snd] in *.
        destruct IH as [Hj Hf]. rewrite Hj, Hf. apply unevict_gen_frame.
      * cbn [snd]. apply unevict_gen_frame.
    + specialize (IH (S ke) kb s). destruct (commit_run c rs f a pre (S ke) kb s r) as [cs s2]. exact IH.
  - apply IH.
  - specialize (IH ke kb s). destruct (commit_run c rs f a pre ke kb s r) as [cs s2]. exact IH.
  - destruct (f_bind f kb).
    + cbn. split; auto. apply frame_upd_first; auto.
    + specialize (IH ke (S kb) (bound_state s t0)).
      destruct (commit_run c rs f a pre ke (S kb) (bound_state s t0) r) as [cs s2]. cbn [snd] in *.
      destruct IH as [Hj Hf]. split; [exact Hj|]. rewrite Hf. cbn. apply frame_upd_first; auto.
Qed.

(** a commit changes at most the pods it holds an evict operation for (a refused
    eviction gives the pod its recorded status back) *)
Lemma unevict_gen_same_but : forall P rs s t prev pg pn,
  (forall tk, get_task (ss_tasks s) t = Some tk -> P t (vt_job tk) = true) ->
  same_but P (ss_tasks s) (ss_tasks (unevict_gen rs s t prev pg pn)).
Proof.
  intros P rs s t prev pg pn H. unfold unevict_gen, unevict_state, unevict_state_commit_time.
  destruct rs; destruct (get_task (ss_tasks s) t) eqn:E; cbn [ss_tasks]; try apply same_but_refl.
  apply same_but_upd; auto. rewrite E. exact H.
Qed.

Lemma commit_run_same_but : forall P c rs f a pre ops ke kb s,
  no_alloc ops ->
  (forall t tk, In t (evict_ids ops) -> get_task (ss_tasks s) t = Some tk -> P t (vt_job tk) = true) ->
  same_but P (ss_tasks s) (ss_tasks (snd (commit_run c rs f a pre ke kb s ops))).
Proof.
  intros P c rs f a pre. induction ops as [|o r IH]; intros ke kb s Hna HP; [apply same_but_refl|].
  pose proof (no_alloc_cons _ _ Hna) as Hr.
  destruct o as [t0 p0 g0 pn0 [|] | t0 n0 gs0 | t0 n0 gs0]; cbn [commit_run].
  - assert (HPr : forall t tk, In t (evict_ids r) -> get_task (ss_tasks s) t = Some tk -> P t (vt_job tk) = true).
    { intros t tk Hin. apply HP. rewrite evict_ids_cons. apply in_or_app. now right. }
    destruct (f_evict f ke).
    + assert (H1 : same_but P (ss_tasks s) (ss_tasks (unevict_gen rs s t0 p0 g0 pn0))).
      { apply unevict_gen_same_but. intros tk. apply HP. rewrite evict_ids_cons. apply in_or_app. left. now left. }
      destruct c; [|exact H1].
      assert (HP1 : forall t tk, In t (evict_ids r) -> get_task (ss_tasks (unevict_gen rs s t0 p0 g0 pn0)) t = Some tk ->
                                 P t (vt_job tk) = true).
      { intros t tk Hin Hg. destruct (unevict_gen_frame rs s t0 p0 g0 pn0) as (_ & Hf).
        destruct (get_task_frame _ _ _ _ Hf Hg) as (tk' & Hg' & Hj' & _). rewrite <- Hj'. eapply HPr; eauto. }
      specialize (IH (S ke) kb (unevict_gen rs s t0 p0 g0 pn0) Hr HP1).
      destruct (commit_run true rs f a pre (S ke) kb (unevict_gen rs s t0 p0 g0 pn0) r) as [cs s2]. cbn [snd] in *.
      eapply same_but_trans; eauto.
    + specialize (IH (S ke) kb s Hr HPr). destruct (commit_run c rs f a pre (S ke) kb s r) as [cs s2]. exact IH.
  - apply IH; auto. intros t tk Hin. apply HP. rewrite evict_ids_cons. apply in_or_app. now right.
  - specialize (IH ke kb s Hr HP). destruct (commit_run c rs f a pre ke kb s r) as [cs s2]. exact IH.
  - exfalso. apply (Hna t0 n0 gs0). now left.
Qed.

(** the commit as it is (repair 5a5de9a): a pod with a refused eviction ends the commit
    with the status and GPU groups its evict operation recorded - whatever the
    statement did to it in between - and keeps its node name *)
Lemma commit_run_restores : forall f a pre t st0 gr0 ops ke kb s tk,
  no_alloc ops ->
  (forall prev pg pn, In (SEvict t prev pg pn true) ops -> prev = st0 /\ pg = gr0) ->
  get_task (ss_tasks s) t = Some tk ->
  ((vt_status tk = st0 /\ vt_groups tk = gr0)
   \/ exists a' p', In (VEvictFailed t a' p') (fst (commit_run true true f a pre ke kb s ops))) ->
  exists tk', get_task (ss_tasks (snd (commit_run true true f a pre ke kb s ops))) t = Some tk'
    /\ vt_status tk' = st0 /\ vt_groups tk' = gr0 /\ vt_node tk' = vt_node tk.
Proof.
  intros f a pre t st0 gr0. induction ops as [|o r IH]; intros ke kb s tk Hna Hrec Hg Hd.
  - cbn [commit_run fst snd] in *. destruct Hd as [(H1 & H2) | (a' & p' & [])]. eauto.
  - pose proof (no_alloc_cons _ _ Hna) as Hr.
    assert (Hrec' : forall prev pg pn, In (SEvict t prev pg pn true) r -> prev = st0 /\ pg = gr0).
    { intros prev pg pn Hin. eapply Hrec. right. exact Hin. }
    destruct o as [t0 p0 g0 pn0 [|] | t0 n0 gs0 | t0 n0 gs0]; cbn [commit_run] in *.
    + destruct (f_evict f ke).
      * cbn [unevict_gen] in *. destruct (Pos.eq_dec t0 t) as [->|Hne].
        -- destruct (Hrec p0 g0 pn0 (or_introl eq_refl)) as (-> & ->).
           assert (Hg1 : get_task (ss_tasks (unevict_state s t st0 gr0 pn0)) t = Some (set_status_groups st0 gr0 tk)).
           { unfold unevict_state. rewrite Hg. cbn [ss_tasks]. rewrite get_task_upd_same, Hg by auto. reflexivity. }
           specialize (IH (S ke) kb _ _ Hr Hrec' Hg1 (or_introl (conj eq_refl eq_refl))).
           destruct (commit_run true true f a pre (S ke) kb (unevict_state s t st0 gr0 pn0) r) as [cs s2]. cbn [fst snd] in *.
           exact IH.
        -- assert (Hg1 : get_task (ss_tasks (unevict_state s t0 p0 g0 pn0)) t = Some tk).
           { unfold unevict_state. destruct (get_task (ss_tasks s) t0); [|exact Hg].
             cbn [ss_tasks]. rewrite get_task_upd_other by auto. exact Hg. }
           specialize (IH (S ke) kb _ _ Hr Hrec' Hg1).
           destruct (commit_run true true f a pre (S ke) kb (unevict_state s t0 p0 g0 pn0) r) as [cs s2]. cbn [fst snd] in *.
           apply IH. destruct Hd as [Hd | (a' & p' & [Hh|Hin])]; [now left | inversion Hh; congruence | right; eauto].
      * specialize (IH (S ke) kb s tk Hr Hrec' Hg).
        destruct (commit_run true true f a pre (S ke) kb s r) as [cs s2]. cbn [fst snd] in *.
        apply IH. destruct Hd as [Hd | (a' & p' & [Hh|Hin])]; [now left | discriminate | right; eauto].
    + apply IH; auto.
    + specialize (IH ke kb s tk Hr Hrec' Hg).
      destruct (commit_run true true f a pre ke kb s r) as [cs s2]. cbn [fst snd] in *.
      apply IH. destruct Hd as [Hd | (a' & p' & [Hh|Hin])]; [now left | discriminate | right; eauto].
    + exfalso. apply (Hna t0 n0 gs0). now left.
Qed.

(** ** what a commit implies *)
Lemma run_scenario_gen_inv : forall stale c rs f env a s pre sc sim calls s',
  run_scenario_gen stale c rs f env a s pre sc sim = Committed calls s' ->
  exists pj s1 ops1 s2 ops2,
    find_job (ss_jobs s) pre = Some pj
    /\ forallb (fun t => mem_pos t (sc_victims sc)) (sc_chosen sc) = true
    /\ filter_all env s a (sc_seen sc) pj (sc_victims sc) = V true
    /\ evict_all_gen stale s [] (sc_evicted sc) = Some (s1, ops1)
    /\ pipeline_all s1 ops1 sim = Some (s2, ops2)
    /\ validate env s2 a pj sc = V true
    /\ job_solved s s2 pj = true
    /\ commit_run c rs f a pre 0 0 s2 ops2 = (calls, s').
Proof.
  intros stale c rs f env a s pre sc sim calls s' H. unfold run_scenario_gen in H.
  destruct (find_job (ss_jobs s) pre) as [pj|]; [|discriminate].
  destruct (forallb (fun t => mem_pos t (sc_victims sc)) (sc_chosen sc)) eqn:Eg; cbn [negb] in H; [|discriminate].
  destruct (filter_all env s a (sc_seen sc) pj (sc_victims sc)) as [[|]| |] eqn:Ef; try discriminate.
  destruct (evict_all_gen stale s [] (sc_evicted sc)) as [[s1 ops1]|] eqn:Ee; [|discriminate].
  destruct (pipeline_all s1 ops1 sim) as [[s2 ops2]|] eqn:Ep; [|discriminate].
  destruct (validate env s2 a pj sc) as [[|]| |] eqn:Ev; try discriminate.
  destruct (job_solved s s2 pj) eqn:Ej; [|discriminate].
  destruct (commit_run c rs f a pre 0 0 s2 ops2) as [cs s3] eqn:Ec.
  inversion H; subst. exists pj, s1, ops1, s2, ops2. repeat split; auto.
Qed.

Lemma mem_pos_in : forall x l, mem_pos x l = true <-> In x l.
Proof.
  intros x l. unfold mem_pos. rewrite existsb_exists. split.
  - intros (y & Hy & E). apply Pos.eqb_eq in E. now subst.
  - intros H. exists x. split; auto. apply Pos.eqb_refl.
Qed.

Lemma evicted_in_victims : forall sc,
  forallb (fun t => mem_pos t (sc_victims sc)) (sc_chosen sc) = true ->
  forall t, In t (sc_evicted sc) -> In t (sc_victims sc).
Proof.
  intros sc H t Ht. unfold sc_evicted in Ht. apply in_app_or in Ht. destruct Ht as [Ht|Ht].
  - unfold sc_victims. apply in_or_app. now left.
  - rewrite forallb_forall in H. apply mem_pos_in. now apply H.
Qed.

Lemma filter_all_in : forall env s a seen pj ts,
  filter_all env s a seen pj ts = V true ->
  forall t, In t ts -> exists j, job_of s t = Some j /\ victim_filter env s a seen pj j = V true.
Proof.
  intros env s a seen pj. induction ts as [|x r IH]; intros H t Ht; [destruct Ht|].
  cbn in H. destruct (job_of s x) as [j|] eqn:Ej; [|discriminate].
  destruct (victim_filter env s a seen pj j) as [[|]| |] eqn:Ev; try discriminate.
  destruct Ht as [<-|Ht]; eauto.
Qed.

Lemma preempt_filter_true : forall env s pj j,
  preempt_filter env s pj j = V true ->
  vj_preemptible j = true /\ vj_prio j < vj_prio pj /\ vj_queue j = vj_queue pj /\ vj_id pj <> vj_id j
  /\ mrt_filter env s APreempt pj j = V true.
Proof.
  intros env s pj j H. unfold preempt_filter in H.
  destruct (has_alive s j); cbn [negb] in H; [|discriminate].
  destruct (vj_preemptible j) eqn:Ep; cbn [negb] in H; [|discriminate].
  destruct (vj_prio pj <=? vj_prio j) eqn:El; [discriminate|].
  destruct (Pos.eqb (vj_queue j) (vj_queue pj)) eqn:Eq; cbn [negb] in H; [|discriminate].
  destruct (Pos.eqb (vj_id pj) (vj_id j)) eqn:Ei; [discriminate|].
  destruct (active_alloc_count s j =? 0); [discriminate|].
  destruct (mrt_filter env s APreempt pj j) as [[|]| |] eqn:Em; try discriminate.
  repeat split; auto; try lia; try (now apply Pos.eqb_eq); try (now apply Pos.eqb_neq).
Qed.

Lemma reclaim_filter_true : forall env s pj j,
  reclaim_filter env s pj j = V true ->
  vj_preemptible j = true /\ vj_queue j <> vj_queue pj /\ mrt_filter env s AReclaim pj j = V true.
Proof.
  intros env s pj j H. unfold reclaim_filter in H.
  destruct (Pos.eqb (vj_queue j) (vj_queue pj)) eqn:Eq; [discriminate|].
  destruct (mrt_filter env s AReclaim pj j) as [[|]| |] eqn:Em; try discriminate.
  injection H as Hb. apply andb_true_iff in Hb. destruct Hb as [Hb _]. apply andb_true_iff in Hb. destruct Hb as [Hb _].
  split; [exact Hb|]. split; [now apply Pos.eqb_neq | reflexivity].
Qed.

Lemma consolidation_filter_true : forall env s seen pj j,
  consolidation_filter env s seen pj j = V true -> vj_preemptible j = true /\ vj_id pj <> vj_id j.
Proof.
  intros env s seen pj j H. unfold consolidation_filter in H. injection H as Hb.
  apply andb_true_iff in Hb. destruct Hb as [Hb _]. apply andb_true_iff in Hb. destruct Hb as [Hb _].
  apply andb_true_iff in Hb. destruct Hb as [Hb _]. apply andb_true_iff in Hb. destruct Hb as [Hb Hid].
  apply andb_true_iff in Hb. destruct Hb as [_ Hp].
  split; [exact Hp|]. apply Pos.eqb_neq. now apply negb_true_iff.
Qed.

(** a victim is never a pod of the pending job *)
Lemma victim_not_preemptor : forall env s a seen pre pj j t tk,
  find_job (ss_jobs s) pre = Some pj -> get_task (ss_tasks s) t = Some tk -> job_of s t = Some j ->
  victim_filter env s a seen pj j = V true -> vt_job tk <> pre.
Proof.
  intros env s a seen pre pj j t tk Hp Ht Hj Hf E. unfold job_of in Hj. rewrite Ht in Hj. rewrite E, Hp in Hj.
  inversion Hj; subst j. destruct a; cbn in Hf.
  - apply reclaim_filter_true in Hf. tauto.
  - apply preempt_filter_true in Hf. tauto.
  - apply consolidation_filter_true in Hf. tauto.
Qed.

Lemma commit_ops_evict : forall a pre ops t a' p',
  In (VEvict t a' p') (commit_ops a pre ops) -> a' = a /\ p' = pre /\ exists prev pg pn, In (SEvict t prev pg pn true) ops.
Proof.
  intros a pre ops t a' p' H. unfold commit_ops in H. apply in_flat_map in H. destruct H as (o & Ho & Hin).
  destruct o as [t0 p0 g0 pn0 [|]| |]; cbn in Hin.
  - destruct Hin as [E|[]]. inversion E; subst. split; [reflexivity|]. split; [reflexivity|]. exists p0, g0, pn0. exact Ho.
  - destruct Hin.
  - destruct Hin as [E|[]]. discriminate.
  - destruct Hin as [E|[]]. discriminate.
Qed.

Lemma commit_ops_pipe : forall a pre ops t n gs,
  In (SPipe t n gs) ops -> In (VPipe t n gs) (commit_ops a pre ops).
Proof. intros. unfold commit_ops. apply in_flat_map. eexists; split; eauto. now left. Qed.

Lemma in_evict_ids : forall ops t p g pn v, In (SEvict t p g pn v) ops -> In t (evict_ids ops).
Proof. intros. unfold evict_ids. apply in_flat_map. eexists; split; eauto. now left. Qed.

(** ** phase invariants: jobs and the (id, job, pod set) frame never change; evict operations are for the scenario's evicted pods *)
Definition base_inv (s : sstate) (evl : list positive) (c : sstate * list sop) : Prop :=
  ss_jobs (fst c) = ss_jobs s /\ frame (ss_tasks (fst c)) = frame (ss_tasks s)
  /\ (forall t, In t (evict_ids (snd c)) -> In t evl)
  /\ no_alloc (snd c).

Lemma evict_all_base : forall rep s evl s1 ops1,
  evict_all_gen rep s [] evl = Some (s1, ops1) -> base_inv s evl (s1, ops1).
Proof.
  intros rep s evl s1 ops1 H. unfold evict_all_gen in H.
  eapply (fold_opt_inv _ _ _ (base_inv s evl)) in H; eauto.
  - intros x [c1 o1] [c2 o2] Hx (Hj & Hf & Hi & Hna) Hs. cbn [fst snd] in *.
    apply stmt_evict_gen_inv in Hs.
    destruct Hs as (tk & Ht & [(_ & _ & -> & ->) | (pn & _ & Hj' & He' & Ht' & Ho')]).
    { unfold base_inv. cbn [fst snd]. auto. }
    unfold base_inv. cbn [fst snd]. repeat split.
    + congruence.
    + rewrite Ht', frame_upd_first; auto.
    + intros t Hin. rewrite Ho', evict_ids_app in Hin. apply in_app_or in Hin. destruct Hin as [Hin|Hin]; auto.
      cbn in Hin. destruct Hin as [<-|[]]. exact Hx.
    + intros t n gs Hin. rewrite Ho' in Hin. apply in_app_or in Hin. destruct Hin as [Hin|[Hin|[]]]; [|discriminate].
      eapply Hna; eauto.
  - unfold base_inv. cbn [fst snd]. split; [reflexivity|]. split; [reflexivity|]. split; [intros t [] | intros t n gs []].
Qed.

Lemma pipeline_step_base : forall s evl c1 o1 r c2 o2,
  base_inv s evl (c1, o1) -> stmt_pipeline c1 o1 r = Some (c2, o2) -> base_inv s evl (c2, o2).
Proof.
  intros s evl c1 o1 [[t n] gs] c2 o2 (Hj & Hf & Hi & Hna) Hs. cbn [fst snd] in *.
  apply stmt_pipeline_inv in Hs. unfold base_inv. cbn [fst snd].
  destruct Hs as (tk & Ht & Hj' & [(Ht' & Ho' & _) | (prev & pg & Hu & Ht' & _)]).
  - repeat split; [congruence | rewrite Ht', frame_upd_first; auto | |].
    + intros x Hin. rewrite Ho', evict_ids_app in Hin. apply in_app_or in Hin. destruct Hin as [Hin|Hin]; auto. destruct Hin.
    + intros t' n' gs' Hin. rewrite Ho' in Hin. apply in_app_or in Hin. destruct Hin as [Hin|[Hin|[]]]; [|discriminate].
      eapply Hna; eauto.
  - apply unevict_first_props in Hu. destruct Hu as (E & _ & _ & _ & _ & _ & H7).
    repeat split; [congruence | rewrite Ht', frame_upd_first; auto | |].
    + intros x Hin. rewrite E in Hin. auto.
    + intros t' n' gs' Hin. apply H7 in Hin. eapply Hna; eauto.
Qed.

Lemma pipeline_all_base : forall s evl s1 ops1 sim s2 ops2,
  base_inv s evl (s1, ops1) -> pipeline_all s1 ops1 sim = Some (s2, ops2) -> base_inv s evl (s2, ops2).
Proof.
  intros s evl s1 ops1 sim s2 ops2 H0 H. unfold pipeline_all in H.
  eapply (fold_opt_inv _ _ _ (base_inv s evl)) in H; eauto.
  intros r [c1 o1] [c2 o2] _ Hb Hs. cbn [fst snd] in *. eapply pipeline_step_base; eauto.
Qed.

(** the statement of a scenario never holds an allocate operation (the simulation is pipeline-only) *)
Lemma scenario_no_alloc : forall rep s evl s1 ops1 sim s2 ops2,
  evict_all_gen rep s [] evl = Some (s1, ops1) -> pipeline_all s1 ops1 sim = Some (s2, ops2) -> no_alloc ops2.
Proof.
  intros rep s evl s1 ops1 sim s2 ops2 He Hp.
  now pose proof (pipeline_all_base _ _ _ _ _ _ _ (evict_all_base _ _ _ _ _ He) Hp) as (_ & _ & _ & Hna).
Qed.

(** the commit without failures: one accepted call per valid operation, session as the statement left it *)
Lemma run_scenario_old_inv : forall stale c rs env a s pre sc sim calls s',
  run_scenario_gen stale c rs no_faults env a s pre sc sim = Committed calls s' ->
  exists pj s1 ops1 ops2,
    find_job (ss_jobs s) pre = Some pj
    /\ forallb (fun t => mem_pos t (sc_victims sc)) (sc_chosen sc) = true
    /\ filter_all env s a (sc_seen sc) pj (sc_victims sc) = V true
    /\ evict_all_gen stale s [] (sc_evicted sc) = Some (s1, ops1)
    /\ pipeline_all s1 ops1 sim = Some (s', ops2)
    /\ validate env s' a pj sc = V true
    /\ job_solved s s' pj = true
    /\ calls = commit_ops a pre ops2.
Proof.
  intros stale c rs env a s pre sc sim calls s' H.
  destruct (run_scenario_gen_inv _ _ _ _ _ _ _ _ _ _ _ _ H) as (pj & s1 & ops1 & s2 & ops2 & Hpj & Hg & Hfa & Hev & Hpi & Hval & Hsol & Hc).
  rewrite (commit_run_no_faults c rs a pre ops2 0 0 s2 (scenario_no_alloc _ _ _ _ _ _ _ _ Hev Hpi)) in Hc.
  inversion Hc; subst. exists pj, s1, ops1, ops2. repeat split; auto.
Qed.

Lemma run_scenario_inv : forall env a s pre sc sim calls s',
  run_scenario env a s pre sc sim = Committed calls s' ->
  exists pj s1 ops1 ops2,
    find_job (ss_jobs s) pre = Some pj
    /\ forallb (fun t => mem_pos t (sc_victims sc)) (sc_chosen sc) = true
    /\ filter_all env s a (sc_seen sc) pj (sc_victims sc) = V true
    /\ evict_all s [] (sc_evicted sc) = Some (s1, ops1)
    /\ pipeline_all s1 ops1 sim = Some (s', ops2)
    /\ validate env s' a pj sc = V true
    /\ job_solved s s' pj = true
    /\ calls = commit_ops a pre ops2.
Proof. intros env a s pre sc sim calls s' H. exact (run_scenario_old_inv [] true true _ _ _ _ _ _ _ _ H). Qed.

Lemma dedup_pos_in : forall l x, In x (dedup_pos l) <-> In x l.
Proof.
  induction l as [|y r IH]; intros x; cbn; [tauto|].
  destruct (existsb (Pos.eqb y) r) eqn:E.
  - rewrite IH. split; [tauto|]. intros [<-|H]; auto.
    apply existsb_exists in E. destruct E as (z & Hz & Ez). apply Pos.eqb_eq in Ez. now subst.
  - cbn. now rewrite IH.
Qed.

Lemma dedup_pos_nodup : forall l, NoDup (dedup_pos l).
Proof.
  induction l as [|y r IH]; cbn; [constructor|].
  destruct (existsb (Pos.eqb y) r) eqn:E; auto.
  constructor; auto. rewrite dedup_pos_in. intro H.
  assert (existsb (Pos.eqb y) r = true); [|congruence].
  apply existsb_exists. exists y. split; auto. apply Pos.eqb_refl.
Qed.

Lemma countb_and_le : forall A (p q : A -> bool) l, countb (fun t => p t && q t) l <= countb p l.
Proof.
  intros A p q l. unfold countb. apply inj_le. induction l as [|x r IH]; cbn; [lia|].
  destruct (p x), (q x); cbn; lia.
Qed.

Lemma valid_victim_true : forall s j victims,
  valid_victim_for_min_available s j victims = V true ->
  forall tkv m, In tkv victims -> plookup (vt_pset tkv) (vj_psets j) = Some m ->
  m <= countb st_active_alloc (pset_tasks s (vj_id j) (vt_pset tkv)).
Proof.
  intros s j victims H tkv m Hin Hm. unfold valid_victim_for_min_available in H.
  destruct (forallb (fun sg => is_some (plookup sg (vj_psets j))) (dedup_pos (map vt_pset victims))); [|discriminate].
  injection H as H. rewrite forallb_forall in H.
  assert (Hsg : In (vt_pset tkv) (dedup_pos (map vt_pset victims))) by (apply dedup_pos_in; now apply in_map).
  specialize (H _ Hsg). cbn beta zeta in H. rewrite Hm in H. apply negb_true_iff in H.
  pose proof (countb_and_le _ st_active_alloc (fun t => negb (mem_pos (vt_id t) (map vt_id victims)))
                (pset_tasks s (vj_id j) (vt_pset tkv))) as Hle.
  cbn beta in Hle. apply Z.ltb_ge in H. lia.
Qed.

(** the same, before forgetting the victims: the pods that remain are not victims *)
Lemma valid_victim_remaining : forall s j victims,
  valid_victim_for_min_available s j victims = V true ->
  forall tkv m, In tkv victims -> plookup (vt_pset tkv) (vj_psets j) = Some m ->
  m <= countb (fun t => st_active_alloc t && negb (mem_pos (vt_id t) (map vt_id victims)))
              (pset_tasks s (vj_id j) (vt_pset tkv)).
Proof.
  intros s j victims H tkv m Hin Hm. unfold valid_victim_for_min_available in H.
  destruct (forallb (fun sg => is_some (plookup sg (vj_psets j))) (dedup_pos (map vt_pset victims))); [|discriminate].
  injection H as H. rewrite forallb_forall in H.
  assert (Hsg : In (vt_pset tkv) (dedup_pos (map vt_pset victims))) by (apply dedup_pos_in; now apply in_map).
  specialize (H _ Hsg). cbn beta zeta in H. rewrite Hm in H. apply negb_true_iff in H.
  apply Z.ltb_ge in H. exact H.
Qed.

Lemma mrt_validator_jobs_in : forall env s a pj vics js,
  mrt_validator_jobs env s a pj vics js = V true ->
  forall jid, In jid js ->
  exists j, find_job (ss_jobs s) jid = Some j
    /\ (job_elastic s j = true ->
        (exists b, mrt_protected env a pj j = V b)
        /\ (mrt_protected env a pj j = V true ->
            valid_victim_for_min_available s j (victims_of_job s vics jid) = V true)).
Proof.
  intros env s a pj vics. induction js as [|x r IH]; intros H jid Hin; [destruct Hin|].
  cbn in H. destruct (find_job (ss_jobs s) x) as [j|] eqn:Ej; [|discriminate].
  destruct (job_elastic s j) eqn:Eel; cbn [negb] in H.
  - destruct (mrt_protected env a pj j) as [[|]| |] eqn:Ep; try discriminate.
    + destruct (valid_victim_for_min_available s j (victims_of_job s vics x)) as [[|]| |] eqn:Ev; try discriminate.
      destruct Hin as [<-|Hin]; [|eauto].
      exists j. split; auto. intros _. split; eauto.
    + destruct Hin as [<-|Hin]; [|eauto].
      exists j. split; auto. intros _. split; [eauto | intros Hx; rewrite Ep in Hx; discriminate Hx].
  - destruct Hin as [<-|Hin]; [|eauto].
    exists j. split; auto. congruence.
Qed.

Lemma existsb_ext' : forall A (f g : A -> bool) l, (forall x, f x = g x) -> existsb f l = existsb g l.
Proof. intros A f g l H. induction l as [|x r IH]; cbn; [reflexivity|]. now rewrite H, IH. Qed.

Lemma filter_filter' : forall A (p q : A -> bool) l, filter p (filter q l) = filter (fun x => q x && p x) l.
Proof.
  intros A p q l. induction l as [|x r IH]; cbn; [reflexivity|].
  destruct (q x); cbn; [destruct (p x); now rewrite IH | exact IH].
Qed.

Lemma pset_tasks_length_frame : forall s s' j ps,
  frame (ss_tasks s') = frame (ss_tasks s) ->
  List.length (pset_tasks s' j ps) = List.length (pset_tasks s j ps).
Proof.
  intros s s' j ps Hf. unfold pset_tasks, tasks_of_job. rewrite !filter_filter'.
  exact (filter_frame_length (fun tr => Pos.eqb (snd (fst tr)) j && Pos.eqb (snd tr) ps) _ _ Hf).
Qed.

Lemma job_elastic_frame : forall s s' j,
  frame (ss_tasks s') = frame (ss_tasks s) -> job_elastic s' j = job_elastic s j.
Proof.
  intros s s' j Hf. unfold job_elastic. apply existsb_ext'. intros pm.
  now rewrite (pset_tasks_length_frame s s' (vj_id j) (fst pm) Hf).
Qed.

Lemma tasks_of_in : forall s ids t tk, In t ids -> get_task (ss_tasks s) t = Some tk -> In tk (tasks_of s ids).
Proof.
  intros s ids t tk Hin Hg. unfold tasks_of. apply in_flat_map. exists t. split; auto. rewrite Hg. now left.
Qed.

Lemma job_of_task : forall s t j, job_of s t = Some j ->
  exists tk, get_task (ss_tasks s) t = Some tk /\ find_job (ss_jobs s) (vt_job tk) = Some j /\ vj_id j = vt_job tk.
Proof.
  intros s t j H. unfold job_of in H. destruct (get_task (ss_tasks s) t) as [tk|]; [|discriminate].
  exists tk. repeat split; auto. eapply find_job_id; eauto.
Qed.

Lemma validate_mrt : forall env s a pj sc, a <> AConsolidation ->
  validate env s a pj sc = V true -> mrt_validator env s a pj (sc_victims sc) = V true.
Proof.
  intros env s a pj sc Ha H. destruct a; cbn in H.
  - destruct (mrt_validator env s AReclaim pj (sc_victims sc)) as [[|]| |]; try discriminate. reflexivity.
  - exact H.
  - congruence.
Qed.

(** the pods of job [j0] that are not victims of the scenario are the same in [l] and [l'] *)
Definition victims_may_differ (s2 : sstate) (vics : list positive) (j0 : positive) : positive -> positive -> bool :=
  fun id jb => negb (Pos.eqb jb j0) || mem_pos id (map vt_id (victims_of_job s2 vics j0)).

(** clause 1 with the live pods counted in ANY session [sF] that differs from the one
    the statement built ([s']) on victim pods only *)
Lemma victim_eligible_gen : forall env a s pre sc sim calls s' sF t a' p',
  run_scenario env a s pre sc sim = Committed calls s' ->
  (forall j0, same_but (victims_may_differ s' (sc_victims sc) j0) (ss_tasks s') (ss_tasks sF)) ->
  In (VEvict t a' p') calls ->
  a' = a /\ p' = pre /\
  exists pj j tk,
    find_job (ss_jobs s) pre = Some pj /\ get_task (ss_tasks s) t = Some tk /\ job_of s t = Some j
    /\ vj_preemptible j = true
    /\ (a = APreempt -> vj_queue j = vj_queue pj /\ vj_prio j < vj_prio pj)
    /\ (a = AReclaim -> vj_queue j <> vj_queue pj)
    /\ (a <> AConsolidation -> inside_min_runtime env a pj j = true ->
        job_elastic s j = true
        /\ forall m, plookup (vt_pset tk) (vj_psets j) = Some m -> m <= live_count sF (vj_id j) (vt_pset tk)).
Proof.
  intros env a s pre sc sim calls s' sF t a' p' Hrun HR Hin.
  destruct (run_scenario_inv _ _ _ _ _ _ _ _ Hrun) as (pj & s1 & ops1 & ops2 & Hpj & Hg & Hfa & Hev & Hpi & Hval & Hsol & ->).
  destruct (commit_ops_evict _ _ _ _ _ _ Hin) as (-> & -> & prev & pg & pn & Hop).
  split; [reflexivity|]. split; [reflexivity|].
  pose proof (pipeline_all_base _ _ _ _ _ _ _ (evict_all_base _ _ _ _ _ Hev) Hpi) as (Hjobs & Hframe & Hids & _).
  cbn [fst snd] in *.
  assert (Htv : In t (sc_victims sc)) by (apply evicted_in_victims; auto; apply Hids; eapply in_evict_ids; eauto).
  destruct (filter_all_in _ _ _ _ _ _ Hfa _ Htv) as (j & Hj & Hfilt).
  destruct (job_of_task _ _ _ Hj) as (tk & Htk & Hfj & Hid).
  exists pj, j, tk. split; [exact Hpj|]. split; [exact Htk|]. split; [exact Hj|].
  split.
  { destruct a; cbn in Hfilt.
    + apply reclaim_filter_true in Hfilt. tauto.
    + apply preempt_filter_true in Hfilt. tauto.
    + apply consolidation_filter_true in Hfilt. tauto. }
  split. { intros ->. cbn in Hfilt. apply preempt_filter_true in Hfilt. tauto. }
  split. { intros ->. cbn in Hfilt. apply reclaim_filter_true in Hfilt. tauto. }
  intros H H0.
  assert (Hmf : mrt_filter env s a pj j = V true).
  { destruct a; cbn in Hfilt; [apply reclaim_filter_true in Hfilt | apply preempt_filter_true in Hfilt | congruence]; tauto. }
  assert (Hel : job_elastic s j = true).
  { unfold mrt_filter in Hmf. destruct (job_elastic s j); [reflexivity|].
    destruct (mrt_protected env a pj j) as [b| |] eqn:Ep; cbn in Hmf; try discriminate.
    apply (mrt_protected_doc _ _ _ _ _ H) in Ep. injection Hmf as Hb. apply negb_true_iff in Hb. congruence. }
  split; [exact Hel|]. intros m Hm.
    pose proof (validate_mrt _ _ _ _ _ H Hval) as Hmv. unfold mrt_validator in Hmv.
    assert (Hfr : frame (ss_tasks s) = frame (ss_tasks s')) by (symmetry; exact Hframe).
    destruct (get_task_frame _ _ _ _ Hfr Htk) as (tk' & Htk' & Hjob' & Hps').
    pose proof (tasks_of_in s' _ _ _ Htv Htk') as Hto.
    assert (Hjin : In (vj_id j) (victim_jobs s' (sc_victims sc))).
    { unfold victim_jobs. apply dedup_pos_in. rewrite Hid, <- Hjob'. now apply in_map. }
    destruct (mrt_validator_jobs_in _ _ _ _ _ _ Hmv _ Hjin) as (j2 & Hj2 & Hcase).
    rewrite Hjobs, Hid, Hfj in Hj2. injection Hj2 as <-.
    rewrite (job_elastic_frame s s' j Hframe) in Hcase. destruct (Hcase Hel) as ((b & Hb) & Hv).
    pose proof (mrt_protected_doc _ _ _ _ _ H Hb) as Eb. rewrite H0 in Eb. subst b.
    specialize (Hv Hb).
    assert (Hvin : In tk' (victims_of_job s' (sc_victims sc) (vj_id j))).
    { unfold victims_of_job. apply filter_In. split; auto. rewrite Hjob', <- Hid. apply Pos.eqb_refl. }
    pose proof (valid_victim_remaining _ _ _ Hv tk' m Hvin) as Hle. rewrite Hps' in Hle. specialize (Hle Hm).
    set (vids := map vt_id (victims_of_job s' (sc_victims sc) (vj_id j))) in *.
    set (q := fun t0 : vtask => st_active_alloc t0 && negb (mem_pos (vt_id t0) vids)) in *.
    assert (Hc : countb q (pset_tasks s' (vj_id j) (vt_pset tk)) = countb q (pset_tasks sF (vj_id j) (vt_pset tk))).
    { unfold pset_tasks, tasks_of_job. rewrite !filter_filter'.
      refine (same_but_count (victims_may_differ s' (sc_victims sc) (vj_id j))
                (fun tr => Pos.eqb (snd (fst tr)) (vj_id j) && Pos.eqb (snd tr) (vt_pset tk)) q _ _ (HR (vj_id j)) _).
      intros x HP. unfold victims_may_differ in HP. fold vids in HP. cbn [fst snd]. unfold q.
      destruct (Pos.eqb (vt_job x) (vj_id j)); cbn [negb orb andb] in *; [|reflexivity].
      rewrite HP. cbn [negb]. now rewrite !andb_false_r. }
    unfold live_count. rewrite Hc in Hle.
    pose proof (countb_and_le _ st_active_alloc (fun t0 => negb (mem_pos (vt_id t0) vids)) (pset_tasks sF (vj_id j) (vt_pset tk))) as Hw.
    change (countb q (pset_tasks sF (vj_id j) (vt_pset tk)) <= countb st_active_alloc (pset_tasks sF (vj_id j) (vt_pset tk))) in Hw.
    lia.
Qed.

Lemma victim_eligible_core : forall env a s pre sc sim calls s' t a' p',
  run_scenario env a s pre sc sim = Committed calls s' ->
  In (VEvict t a' p') calls ->
  a' = a /\ p' = pre /\
  exists pj j tk,
    find_job (ss_jobs s) pre = Some pj /\ get_task (ss_tasks s) t = Some tk /\ job_of s t = Some j
    /\ vj_preemptible j = true
    /\ (a = APreempt -> vj_queue j = vj_queue pj /\ vj_prio j < vj_prio pj)
    /\ (a = AReclaim -> vj_queue j <> vj_queue pj)
    /\ (a <> AConsolidation -> inside_min_runtime env a pj j = true ->
        job_elastic s j = true
        /\ forall m, plookup (vt_pset tk) (vj_psets j) = Some m -> m <= live_count s' (vj_id j) (vt_pset tk)).
Proof.
  intros env a s pre sc sim calls s' t a' p' Hrun Hin.
  eapply victim_eligible_gen; eauto. intros j0. apply same_but_refl.
Qed.

(** ** clause 2: a commit places a pod of the pending job *)
Definition purpose_inv (s : sstate) (pre : positive) (evl : list positive) (c : sstate * list sop) : Prop :=
  base_inv s evl c
  /\ (tasks_of_job (fst c) pre = tasks_of_job s pre
      \/ exists t n gs tk, In (SPipe t n gs) (snd c) /\ get_task (ss_tasks s) t = Some tk /\ vt_job tk = pre).

Lemma evict_all_purpose : forall rep s pre evl s1 ops1,
  (forall t tk, In t evl -> get_task (ss_tasks s) t = Some tk -> vt_job tk <> pre) ->
  evict_all_gen rep s [] evl = Some (s1, ops1) -> tasks_of_job s1 pre = tasks_of_job s pre.
Proof.
  intros rep s pre evl s1 ops1 Hvic H.
  pose proof H as H0. unfold evict_all_gen in H.
  eapply (fold_opt_inv _ _ _ (fun c => frame (ss_tasks (fst c)) = frame (ss_tasks s)
                                       /\ tasks_of_job (fst c) pre = tasks_of_job s pre)) in H.
  - tauto.
  - intros x [c1 o1] [c2 o2] Hx (Hf & Ht) Hs. cbn [fst snd] in *.
    apply stmt_evict_gen_inv in Hs. destruct Hs as (tk & Hg & [(_ & _ & -> & ->) | (pn & _ & _ & _ & Ht' & _)]); [auto|].
    destruct (get_task_frame _ _ _ _ Hf Hg) as (tks & Hgs & Hjs & _).
    split.
    + rewrite Ht', frame_upd_first; auto.
    + rewrite <- Ht. unfold tasks_of_job. rewrite Ht'. eapply filter_job_upd; eauto.
      rewrite <- Hjs. eapply Hvic; eauto.
  - cbn. auto.
Qed.

Lemma pipeline_all_purpose : forall s pre evl s1 ops1 sim s2 ops2,
  (forall t tk, In t evl -> get_task (ss_tasks s) t = Some tk -> vt_job tk <> pre) ->
  purpose_inv s pre evl (s1, ops1) -> pipeline_all s1 ops1 sim = Some (s2, ops2) ->
  purpose_inv s pre evl (s2, ops2).
Proof.
  intros s pre evl s1 ops1 sim s2 ops2 Hvic H0 H. unfold pipeline_all in H.
  eapply (fold_opt_inv _ _ _ (purpose_inv s pre evl)) in H; eauto.
  intros [[t n] gs] [c1 o1] [c2 o2] _ (Hb & Hd) Hs. cbn [fst snd] in *.
  assert (Hb2 : base_inv s evl (c2, o2)).
  { eapply pipeline_step_base; eauto. }
  split; [exact Hb2|]. cbn [fst snd].
  destruct Hb as (Hj & Hf & Hi & _). cbn [fst snd] in *.
  apply stmt_pipeline_inv in Hs.
  destruct Hs as (tk & Hg & _ & Hcase).
  destruct (get_task_frame _ _ _ _ Hf Hg) as (tks & Hgs & Hjs & _).
  destruct (Pos.eq_dec (vt_job tk) pre) as [E|Hne].
  - (* a pod of the pending job *)
    right. destruct Hcase as [(_ & Ho' & _) | (prev & pg & Hu & _)].
    + exists t, n, gs, tks. repeat split; auto; [|congruence]. rewrite Ho'. apply in_or_app. right. now left.
    + apply unevict_first_props in Hu. destruct Hu as (_ & _ & _ & _ & Hin & _).
      exfalso. eapply (Hvic t tks); eauto. congruence.
  - destruct Hd as [Hd|(t0 & n0 & gs0 & tk0 & Hin0 & Hg0 & Hj0)].
    + left. rewrite <- Hd. unfold tasks_of_job.
      destruct Hcase as [(Ht' & _) | (prev & pg & _ & Ht' & _)]; rewrite Ht'; eapply filter_job_upd; eauto.
    + right. exists t0, n0, gs0, tk0. repeat split; auto.
      destruct Hcase as [(_ & Ho' & _) | (prev & pg & Hu & _)].
      * rewrite Ho'. apply in_or_app. now left.
      * apply unevict_first_props in Hu. destruct Hu as (_ & Hp & _). now apply Hp.
Qed.

Lemma eviction_has_purpose_core : forall env a s pre sc sim calls s',
  run_scenario env a s pre sc sim = Committed calls s' ->
  exists t n gs tk, In (VPipe t n gs) calls /\ get_task (ss_tasks s) t = Some tk /\ vt_job tk = pre.
Proof.
  intros env a s pre sc sim calls s' Hrun.
  destruct (run_scenario_inv _ _ _ _ _ _ _ _ Hrun) as (pj & s1 & ops1 & ops2 & Hpj & Hg & Hfa & Hev & Hpi & Hval & Hsol & ->).
  assert (Hvic : forall t tk, In t (sc_evicted sc) -> get_task (ss_tasks s) t = Some tk -> vt_job tk <> pre).
  { intros t tk Hin Htk. pose proof (evicted_in_victims _ Hg _ Hin) as Hv.
    destruct (filter_all_in _ _ _ _ _ _ Hfa _ Hv) as (j & Hj & Hf).
    eapply victim_not_preemptor; eauto. }
  assert (H1 : purpose_inv s pre (sc_evicted sc) (s1, ops1)).
  { split; [eapply evict_all_base; eauto|]. left. cbn [fst]. eapply evict_all_purpose; eauto. }
  pose proof (pipeline_all_purpose _ _ _ _ _ _ _ _ Hvic H1 Hpi) as (_ & [Hsame | (t & n & gs & tk & Hin & Htk & Hjob)]).
  - cbn [fst] in Hsame. unfold job_solved in Hsol. apply andb_true_iff in Hsol. destruct Hsol as [_ Hlt].
    rewrite (find_job_id _ _ _ Hpj) in Hlt. rewrite Hsame in Hlt. lia.
  - exists t, n, gs, tk. repeat split; auto. now apply commit_ops_pipe.
Qed.

(** ** clause 3: a consolidation victim is re-placed elsewhere by the same commit *)
Definition releasing_in (c : sstate) (t : positive) : Prop :=
  exists tk, get_task (ss_tasks c) t = Some tk /\ vt_status tk = Releasing.

(** evicting when no pod is offered a second time through a stale copy (none is stale in
    the code as it is): no pod gets two valid evict operations, a pod with a valid evict
    operation is Releasing, node entries are untouched *)
Definition once_inv (c : sstate * list sop) : Prop :=
  forall t, (nvalid t (snd c) <= 1)%nat /\ (nvalid t (snd c) = 1%nat -> releasing_in (fst c) t).

Lemma evict_all_props : forall stale evl s ops s1 ops1,
  evict_all_gen stale s ops evl = Some (s1, ops1) -> once_inv (s, ops) ->
  (forall t, In t stale -> (nvalid t ops + count_occ Pos.eq_dec evl t <= 1)%nat) ->
  ss_entries s1 = ss_entries s /\ once_inv (s1, ops1).
Proof.
  unfold evict_all_gen. intros stale. induction evl as [|x r IH]; intros s ops s1 ops1 H Hinv Hst; cbn [fold_opt] in H.
  - inversion H; subst. auto.
  - cbn [fst snd] in H. destruct (stmt_evict_gen stale s ops x) as [[c o]|] eqn:Es; [|discriminate].
    apply stmt_evict_gen_inv in Es.
    destruct Es as (tk & Hg & [(Hns & _ & -> & ->) | (pn & Hnr & _ & He' & Ht' & Ho')]).
    { eapply IH; eauto. intros t Hin. specialize (Hst t Hin). cbn [count_occ] in Hst.
      destruct (Pos.eq_dec x t); lia. }
    assert (H0 : nvalid x ops = 0%nat).
    { destruct (Hinv x) as [Hle Hrel]. cbn [fst snd] in Hle, Hrel.
      destruct (nvalid x ops) as [|[|k]] eqn:En; [reflexivity | | lia].
      destruct (in_dec Pos.eq_dec x stale) as [Hin|Hnin].
      - specialize (Hst x Hin). cbn [count_occ] in Hst. destruct (Pos.eq_dec x x); [lia | congruence].
      - destruct (Hrel eq_refl) as (tk' & Hg' & Hs'). rewrite Hg in Hg'. inversion Hg'; subst. exfalso. now apply Hnr. }
    assert (Hinv' : once_inv (c, o)).
    { intros t. cbn [fst snd]. destruct (Hinv t) as [Hle Hrel]. cbn [fst snd] in Hle, Hrel.
      rewrite Ho', nvalid_app. unfold nvalid at 2 4. cbn [filter is_valid_evict].
      destruct (Pos.eq_dec x t) as [->|Hne].
      - rewrite Pos.eqb_refl. cbn [List.length].
        split; [lia|]. intros _. unfold releasing_in. rewrite Ht', get_task_upd_same, Hg by auto. cbn. eauto.
      - destruct (Pos.eqb x t) eqn:E; [apply Pos.eqb_eq in E; congruence|]. cbn [List.length].
        split; [lia|]. intros H1. assert (H1' : nvalid t ops = 1%nat) by lia.
        destruct (Hrel H1') as (tk' & Hg' & Hs'). unfold releasing_in. rewrite Ht', get_task_upd_other by auto. eauto. }
    assert (Hst' : forall t, In t stale -> (nvalid t o + count_occ Pos.eq_dec r t <= 1)%nat).
    { intros t Hin. specialize (Hst t Hin). cbn [count_occ] in Hst.
      rewrite Ho', nvalid_app. unfold nvalid at 2. cbn [filter is_valid_evict].
      destruct (Pos.eq_dec x t) as [->|Hne].
      - rewrite Pos.eqb_refl. cbn [List.length]. lia.
      - destruct (Pos.eqb x t) eqn:E; [apply Pos.eqb_eq in E; congruence|]. cbn [List.length]. lia. }
    destruct (IH _ _ _ _ H Hinv' Hst') as (He & Hi). split; [congruence | exact Hi].
Qed.

Lemma entry_of_set_other : forall es t' n gs t m, t' <> t ->
  entry_of (entry_set es t' n gs) t m = entry_of es t m.
Proof.
  induction es as [|[[a b] g] r IH]; intros t' n gs t m Hne; cbn.
  - destruct (Pos.eqb t' t) eqn:E; [apply Pos.eqb_eq in E; congruence | reflexivity].
  - destruct (Pos.eqb a t' && Pos.eqb b n) eqn:E1; cbn.
    + apply andb_true_iff in E1. destruct E1 as [Ea _]. apply Pos.eqb_eq in Ea. subst a.
      destruct (Pos.eqb t' t) eqn:E; [apply Pos.eqb_eq in E; congruence | reflexivity].
    + destruct (Pos.eqb a t && Pos.eqb b m); [reflexivity | now apply IH].
Qed.

Definition moves_inv (s : sstate) (t : positive) (c : sstate * list sop) : Prop :=
  (nvalid t (snd c) = 1%nat /\ releasing_in (fst c) t
   /\ forall n, entry_of (ss_entries (fst c)) t n = entry_of (ss_entries s) t n)
  \/ nvalid t (snd c) = 0%nat
  \/ (exists n gs, In (SPipe t n gs) (snd c) /\ good_move s t n gs).

Lemma nvalid_snoc_pipe : forall t ops t' n gs, nvalid t (ops ++ [SPipe t' n gs]) = nvalid t ops.
Proof. intros. rewrite nvalid_app. unfold nvalid at 2. cbn. lia. Qed.

Lemma moves_step : forall s t c1 o1 r c2 o2,
  moves_inv s t (c1, o1) -> stmt_pipeline c1 o1 r = Some (c2, o2) -> moves_inv s t (c2, o2).
Proof.
  intros s t c1 o1 [[t' n] gs] c2 o2 Hinv Hs. unfold moves_inv in *. cbn [fst snd] in *.
  apply stmt_pipeline_inv in Hs. destruct Hs as (tk & Hg & _ & Hcase).
  destruct (Pos.eq_dec t' t) as [->|Hne].
  - destruct Hinv as [(Hn & Hr & He) | [Hn | (n0 & gs0 & Hin & Hgood)]].
    + destruct Hcase as [(_ & Ho' & _ & Hgm) | (prev & pg & Hu & _)].
      * right. right. exists n, gs. split; [rewrite Ho'; apply in_or_app; right; now left|].
        unfold good_move in *. now rewrite <- (He n).
      * right. left. apply unevict_first_props in Hu. destruct Hu as (_ & _ & Hs & _). lia.
    + destruct Hcase as [(_ & Ho' & _) | (prev & pg & Hu & _)].
      * right. left. rewrite Ho', nvalid_snoc_pipe. exact Hn.
      * apply unevict_first_props in Hu. destruct Hu as (_ & _ & Hs & _). lia.
    + right. right. exists n0, gs0. split; auto.
      destruct Hcase as [(_ & Ho' & _) | (prev & pg & Hu & _)].
      * rewrite Ho'. apply in_or_app. now left.
      * apply unevict_first_props in Hu. destruct Hu as (_ & Hp & _). now apply Hp.
  - assert (Hnv : nvalid t o2 = nvalid t o1).
    { destruct Hcase as [(_ & Ho' & _) | (prev & pg & Hu & _)].
      - rewrite Ho'. apply nvalid_snoc_pipe.
      - apply unevict_first_props in Hu. destruct Hu as (_ & _ & _ & H4 & _). apply H4. congruence. }
    destruct Hinv as [(Hn & Hr & He) | [Hn | (n0 & gs0 & Hin & Hgood)]].
    + left. split; [congruence|]. split.
      * destruct Hr as (tk0 & Hg0 & Hs0). unfold releasing_in.
        destruct Hcase as [(Ht' & _) | (prev & pg & _ & Ht' & _)]; rewrite Ht', get_task_upd_other by auto; eauto.
      * intros m. rewrite <- (He m).
        destruct Hcase as [(_ & _ & He' & _) | (prev & pg & _ & _ & He')]; rewrite He'; [now apply entry_of_set_other | reflexivity].
    + right. left. congruence.
    + right. right. exists n0, gs0. split; auto.
      destruct Hcase as [(_ & Ho' & _) | (prev & pg & Hu & _)].
      * rewrite Ho'. apply in_or_app. now left.
      * apply unevict_first_props in Hu. destruct Hu as (_ & Hp & _). now apply Hp.
Qed.

Lemma nvalid_ge1 : forall t ops p g pn, In (SEvict t p g pn true) ops -> (1 <= nvalid t ops)%nat.
Proof.
  intros t ops p g pn H. unfold nvalid.
  assert (Hin : In (SEvict t p g pn true) (filter (is_valid_evict t) ops)).
  { apply filter_In. split; auto. cbn. apply Pos.eqb_refl. }
  destruct (filter (is_valid_evict t) ops); [destruct Hin | cbn; lia].
Qed.

Lemma consolidation_moves_core : forall env s pre sc sim calls s' t a' p',
  run_scenario env AConsolidation s pre sc sim = Committed calls s' ->
  In (VEvict t a' p') calls ->
  exists n gs, In (VPipe t n gs) calls /\ good_move s t n gs.
Proof.
  intros env s pre sc sim calls s' t a' p' Hrun Hin.
  destruct (run_scenario_inv _ _ _ _ _ _ _ _ Hrun) as (pj & s1 & ops1 & ops2 & Hpj & Hg & Hfa & Hev & Hpi & Hval & Hsol & ->).
  destruct (commit_ops_evict _ _ _ _ _ _ Hin) as (_ & _ & prev & pg & pn & Hop).
  pose proof (pipeline_all_base _ _ _ _ _ _ _ (evict_all_base _ _ _ _ _ Hev) Hpi) as (_ & _ & Hids & _).
  cbn [fst snd] in *.
  assert (Htev : In t (sc_evicted sc)) by (apply Hids; eapply in_evict_ids; eauto).
  assert (H0 : once_inv (s, [])).
  { intros x. cbn [fst snd]. unfold nvalid. cbn. split; [lia | discriminate]. }
  destruct (evict_all_props [] _ _ _ _ _ Hev H0 (fun x (Hx : In x []) => match Hx with end)) as (He1 & Hn1).
  assert (H1 : moves_inv s t (s1, ops1)).
  { destruct (Hn1 t) as [Hle Hrel]. cbn [fst snd] in Hle, Hrel. unfold moves_inv. cbn [fst snd].
    destruct (nvalid t ops1) as [|[|k]] eqn:En; [right; left; reflexivity | | lia].
    left. split; [reflexivity|]. split; [auto|]. intros n. now rewrite He1. }
  assert (H2 : moves_inv s t (s', ops2)).
  { unfold pipeline_all in Hpi.
    eapply (fold_opt_inv _ _ _ (moves_inv s t)) in Hpi; eauto.
    intros r [c1 o1] [c2 o2] _ Hi Hs. cbn [fst snd] in *. eapply moves_step; eauto. }
  destruct H2 as [(_ & (tk & Htk & Hst) & _) | [Hn | (n & gs & Hp & Hgood)]]; cbn [fst snd] in *.
  - (* still Releasing: the validator refuses *)
    exfalso. cbn in Hval. injection Hval as Hval. unfold all_pods_reallocated in Hval. rewrite forallb_forall in Hval.
    pose proof (evicted_in_victims _ Hg _ Htev) as Hv.
    specialize (Hval _ (tasks_of_in _ _ _ _ Hv Htk)). rewrite Hst in Hval. discriminate.
  - pose proof (nvalid_ge1 _ _ _ _ _ Hop). lia.
  - exists n, gs. split; auto. now apply commit_ops_pipe.
Qed.

(** with node entries covering the snapshot, "elsewhere" is another node or other GPU groups of the same node *)
Lemma good_move_elsewhere : forall s t n gs tk n0,
  good_move s t n gs -> get_task (ss_tasks s) t = Some tk -> vt_node tk = Some n0 ->
  entry_of (ss_entries s) t n0 = Some (vt_groups tk) ->
  n <> n0 \/ pos_list_eqb gs (vt_groups tk) = false.
Proof.
  intros s t n gs tk n0 Hg Ht Hn He. destruct (Pos.eq_dec n n0) as [->|Hne]; [right | now left].
  destruct Hg as [Hnone | (egs & Hsome & Hneq)]; congruence.
Qed.

(** ** failures only refuse: under any oracle the commit issues the calls of the
    commit without failures, in the same order, each eviction accepted or refused *)
Definition as_accepted (c : vcall) : vcall :=
  match c with
  | VEvictFailed t a p => VEvict t a p
  | VBindFailed t n gs => VBind t n gs
  | c => c
  end.

Lemma commit_run_erase : forall rs f a pre ops ke kb s,
  no_alloc ops -> map as_accepted (fst (commit_run true rs f a pre ke kb s ops)) = commit_ops a pre ops.
Proof.
  intros rs f a pre. induction ops as [|o r IH]; intros ke kb s Hna; [reflexivity|].
  pose proof (no_alloc_cons _ _ Hna) as Hr.
  destruct o as [t0 p0 g0 pn0 [|] | t0 n0 gs0 | t0 n0 gs0]; cbn [commit_run commit_ops flat_map].
  - destruct (f_evict f ke).
    + specialize (IH (S ke) kb (unevict_gen rs s t0 p0 g0 pn0) Hr).
      destruct (commit_run true rs f a pre (S ke) kb (unevict_gen rs s t0 p0 g0 pn0) r) as [cs s2]. cbn [fst map as_accepted app] in *.
      now rewrite IH.
    + specialize (IH (S ke) kb s Hr).
      destruct (commit_run true rs f a pre (S ke) kb s r) as [cs s2]. cbn [fst map as_accepted app] in *. now rewrite IH.
  - apply IH; auto.
  - specialize (IH ke kb s Hr).
    destruct (commit_run true rs f a pre ke kb s r) as [cs s2]. cbn [fst map as_accepted app] in *. now rewrite IH.
  - exfalso. apply (Hna t0 n0 gs0). now left.
Qed.

Lemma faults_only_refuse : forall f env a s pre sc sim calls s',
  run_scenario_f f env a s pre sc sim = Committed calls s' ->
  exists s0, run_scenario env a s pre sc sim = Committed (map as_accepted calls) s0.
Proof.
  intros f env a s pre sc sim calls s' H.
  destruct (run_scenario_gen_inv _ _ _ _ _ _ _ _ _ _ _ _ H) as (pj & s1 & ops1 & s2 & ops2 & Hpj & Hg & Hfa & Hev & Hpi & Hval & Hsol & Hc).
  pose proof (scenario_no_alloc _ _ _ _ _ _ _ _ Hev Hpi) as Hna.
  exists s2. unfold run_scenario, run_scenario_f, run_scenario_gen.
  rewrite Hpj, Hg. cbn [negb]. rewrite Hfa, Hev, Hpi, Hval, Hsol.
  rewrite (commit_run_no_faults true true a pre ops2 0 0 s2 Hna).
  pose proof (commit_run_erase true f a pre ops2 0 0 s2 Hna) as He. rewrite Hc in He. cbn [fst] in He. now rewrite He.
Qed.

Lemma as_accepted_pipe : forall calls t n gs, In (VPipe t n gs) (map as_accepted calls) <-> In (VPipe t n gs) calls.
Proof.
  intros calls t n gs. rewrite in_map_iff. split.
  - intros (x & Hx & Hin). destruct x; cbn in Hx; try discriminate. now rewrite <- Hx.
  - intros Hin. exists (VPipe t n gs). auto.
Qed.

Lemma as_accepted_evict : forall calls x t a p,
  evict_call_of x t a p -> In x calls -> In (VEvict t a p) (map as_accepted calls).
Proof. intros calls x t a p [->| ->] Hin; apply in_map_iff; eexists; split; eauto; reflexivity. Qed.

(** a commit under any oracle never issues a Bind: the preemptor's nomination is a TaskPipelined, which cannot fail *)
Lemma scenario_never_binds : forall f env a s pre sc sim calls s' x,
  run_scenario_f f env a s pre sc sim = Committed calls s' -> In x calls ->
  match x with VBind _ _ _ | VBindFailed _ _ _ => False | _ => True end.
Proof.
  intros f env a s pre sc sim calls s' x H Hin.
  destruct (run_scenario_gen_inv _ _ _ _ _ _ _ _ _ _ _ _ H) as (pj & s1 & ops1 & s2 & ops2 & _ & _ & _ & Hev & Hpi & _ & _ & Hc).
  eapply (commit_run_no_bind true true f a pre ops2 0 0 s2 x (scenario_no_alloc _ _ _ _ _ _ _ _ Hev Hpi)).
  rewrite Hc. exact Hin.
Qed.

(** ** what the evict operations record: the pod as the scenario found it *)
Definition rec_inv (s : sstate) (ops : list sop) : Prop :=
  forall t prev pg pn, In (SEvict t prev pg pn true) ops ->
    prev <> Releasing
    /\ exists tk, get_task (ss_tasks s) t = Some tk /\ vt_status tk = prev /\ vt_groups tk = pg.

Definition evict_phase_inv (s : sstate) (c : sstate * list sop) : Prop :=
  (forall t, ~ In t (evict_ids (snd c)) -> get_task (ss_tasks (fst c)) t = get_task (ss_tasks s) t)
  /\ (forall t, In t (evict_ids (snd c)) -> releasing_in (fst c) t)
  /\ rec_inv s (snd c).

Lemma evict_all_rec : forall s evl s1 ops1, evict_all s [] evl = Some (s1, ops1) -> rec_inv s ops1.
Proof.
  intros s evl s1 ops1 H. unfold evict_all, evict_all_gen in H.
  eapply (fold_opt_inv _ _ _ (evict_phase_inv s)) in H.
  - destruct H as (_ & _ & H). exact H.
  - intros x [c1 o1] [c2 o2] _ (Ha & Hb & Hc) Hs. cbn [fst snd] in *.
    apply stmt_evict_gen_inv in Hs.
    destruct Hs as (tk & Hg & [(_ & _ & -> & ->) | (pn & Hnr & _ & _ & Ht' & Ho')]).
    { unfold evict_phase_inv. cbn [fst snd]. auto. }
    assert (Hnr' : vt_status tk <> Releasing) by (apply Hnr; intros []).
    assert (Hnx : ~ In x (evict_ids o1)).
    { intros Hin. destruct (Hb x Hin) as (tk' & Hg' & Hs'). rewrite Hg in Hg'. inversion Hg'; subst. contradiction. }
    assert (Hids : forall t, In t (evict_ids o2) <-> In t (evict_ids o1) \/ t = x).
    { intros t. rewrite Ho', evict_ids_app. cbn. rewrite in_app_iff. cbn. intuition. }
    unfold evict_phase_inv. cbn [fst snd]. split; [|split].
    + intros t Hn. assert (Hne : t <> x) by (intros ->; apply Hn, Hids; now right).
      rewrite Ht', get_task_upd_other by auto. apply Ha. intros Hin. apply Hn, Hids. now left.
    + intros t Hin. apply Hids in Hin. unfold releasing_in. destruct (Pos.eq_dec t x) as [->|Hne].
      * rewrite Ht', get_task_upd_same, Hg by auto. cbn. eauto.
      * destruct Hin as [Hin|Hin]; [|contradiction]. destruct (Hb t Hin) as (tk' & Hg' & Hs').
        rewrite Ht', get_task_upd_other by auto. eauto.
    + intros t prev pg pn' Hin. rewrite Ho' in Hin. apply in_app_or in Hin. destruct Hin as [Hin|[Hin|[]]]; [exact (Hc _ _ _ _ Hin)|].
      inversion Hin; subst. split; [exact Hnr'|]. exists tk. rewrite <- (Ha t Hnx). auto.
  - unfold evict_phase_inv. cbn [fst snd]. split; [reflexivity|]. split; [intros t []|]. intros t prev pg pn [].
Qed.

Lemma pipeline_all_rec : forall s s1 ops1 sim s2 ops2,
  rec_inv s ops1 -> pipeline_all s1 ops1 sim = Some (s2, ops2) -> rec_inv s ops2.
Proof.
  intros s s1 ops1 sim s2 ops2 H0 H. unfold pipeline_all in H.
  eapply (fold_opt_inv _ _ _ (fun c => rec_inv s (snd c))) in H; eauto.
  intros [[t n] gs] [c1 o1] [c2 o2] _ Hc Hs. cbn [fst snd] in *.
  apply stmt_pipeline_inv in Hs. destruct Hs as (tk & _ & _ & [(_ & Ho' & _) | (prev & pg & Hu & _)]).
  - intros t' p g pn Hin. rewrite Ho' in Hin. apply in_app_or in Hin. destruct Hin as [Hin|[Hin|[]]]; [exact (Hc _ _ _ _ Hin) | discriminate].
  - apply unevict_first_props in Hu. destruct Hu as (_ & _ & _ & _ & _ & H6 & _).
    intros t' p g pn Hin. exact (Hc _ _ _ _ (H6 _ _ _ _ Hin)).
Qed.

(** a commit under any oracle, taken apart: the statement [ops2] built in session [s2]
    is the one the commit without failures commits; its evict operations are for
    victims of the scenario and record the pods as the scenario found them *)
Lemma faults_decompose : forall f env a s pre sc sim calls s',
  run_scenario_f f env a s pre sc sim = Committed calls s' ->
  exists s2 ops2,
    run_scenario env a s pre sc sim = Committed (map as_accepted calls) s2
    /\ commit_run true true f a pre 0 0 s2 ops2 = (calls, s')
    /\ no_alloc ops2
    /\ frame (ss_tasks s2) = frame (ss_tasks s)
    /\ (forall t, In t (evict_ids ops2) -> In t (sc_victims sc))
    /\ rec_inv s ops2.
Proof.
  intros f env a s pre sc sim calls s' H.
  destruct (run_scenario_gen_inv _ _ _ _ _ _ _ _ _ _ _ _ H) as (pj & s1 & ops1 & s2 & ops2 & Hpj & Hg & Hfa & Hev & Hpi & Hval & Hsol & Hc).
  pose proof (pipeline_all_base _ _ _ _ _ _ _ (evict_all_base _ _ _ _ _ Hev) Hpi) as (_ & Hframe & Hids & Hna).
  cbn [fst snd] in *.
  exists s2, ops2. split; [|split; [exact Hc|]; split; [exact Hna|]; split; [exact Hframe|]; split].
  - unfold run_scenario, run_scenario_f, run_scenario_gen.
    rewrite Hpj, Hg. cbn [negb]. rewrite Hfa, Hev, Hpi, Hval, Hsol.
    rewrite (commit_run_no_faults true true a pre ops2 0 0 s2 Hna).
    pose proof (commit_run_erase true f a pre ops2 0 0 s2 Hna) as He. rewrite Hc in He. cbn [fst] in He. now rewrite He.
  - intros t Hin. apply evicted_in_victims; auto.
  - eapply pipeline_all_rec; eauto. eapply evict_all_rec; eauto.
Qed.

(** the session a commit leaves under any oracle differs from the one the statement
    built on victim pods only *)
Lemma faults_touch_victims_only : forall f a pre s2 ops2 vics calls s' j0,
  commit_run true true f a pre 0 0 s2 ops2 = (calls, s') -> no_alloc ops2 ->
  (forall t, In t (evict_ids ops2) -> In t vics) ->
  same_but (victims_may_differ s2 vics j0) (ss_tasks s2) (ss_tasks s').
Proof.
  intros f a pre s2 ops2 vics calls s' j0 Hc Hna Hids.
  pose proof (commit_run_same_but (victims_may_differ s2 vics j0) true true f a pre ops2 0 0 s2 Hna) as H.
  rewrite Hc in H. cbn [snd] in H. apply H.
  intros t tk Hin Hg. unfold victims_may_differ.
  destruct (Pos.eqb (vt_job tk) j0) eqn:Ej; cbn [negb orb]; [|reflexivity].
  apply mem_pos_in. rewrite <- (get_task_id _ _ _ Hg). apply in_map.
  unfold victims_of_job. apply filter_In. split; [|exact Ej]. eapply tasks_of_in; eauto.
Qed.

(** ** an action: every commit of any sequence of scenarios *)
Lemma commit_keeps_jobs : forall f env a s pre sc sim calls s',
  run_scenario_f f env a s pre sc sim = Committed calls s' -> ss_jobs s' = ss_jobs s.
Proof.
  intros f env a s pre sc sim calls s' Hrun.
  destruct (run_scenario_gen_inv _ _ _ _ _ _ _ _ _ _ _ _ Hrun) as (pj & s1 & ops1 & s2 & ops2 & _ & _ & _ & Hev & Hpi & _ & _ & Hc).
  pose proof (pipeline_all_base _ _ _ _ _ _ _ (evict_all_base _ _ _ _ _ Hev) Hpi) as (Hj & _).
  pose proof (commit_run_frame true true f a pre ops2 0 0 s2) as (Hj2 & _). rewrite Hc in Hj2. cbn [fst snd] in *. congruence.
Qed.

Definition commit_of (env : venv) (s : sstate) (c : step * list vcall) : Prop :=
  exists si sj, ss_jobs si = ss_jobs s
    /\ run_scenario_f (sp_faults (fst c)) env (sp_action (fst c)) si (sp_preemptor (fst c)) (sp_scenario (fst c)) (sp_sim (fst c))
       = Committed (snd c) sj.

Lemma run_steps_commits : forall env steps s cs sf,
  run_steps env s steps = Some (cs, sf) -> Forall (commit_of env s) cs.
Proof.
  intros env. induction steps as [|st r IH]; intros s cs sf H; cbn in H.
  - inversion H; subst. constructor.
  - destruct (run_scenario_f (sp_faults st) env (sp_action st) s (sp_preemptor st) (sp_scenario st) (sp_sim st)) as [calls s'| |] eqn:E.
    + destruct (run_steps env s' r) as [[cs' sf']|] eqn:Er; [|discriminate]. inversion H; subst.
      constructor.
      * exists s, s'. split; auto.
      * pose proof (commit_keeps_jobs _ _ _ _ _ _ _ _ _ E) as Hj.
        eapply Forall_impl; [|eapply IH; eauto].
        intros c (si & sj & Hji & Hr). exists si, sj. split; [congruence | exact Hr].
    + eauto.
    + discriminate.
Qed.

(** * Witnesses *)

Definition ex_queues : qtree := [mkVQ 1 None None None; mkVQ 2 (Some 1%positive) (Some 14400) (Some 14400); mkVQ 3 (Some 1%positive) None None].
Definition ex_env : venv := mkVE ex_queues 0 0 true 0 (-1).

(** two 1-pod jobs v (on node 1) and w (on node 2) of queue 2, started 40 min ago (min-runtime 4 h), and a pending job p *)
Definition ex_state (age : Z) (pprio : Z) (pqueue : positive) : sstate :=
  mkSS [mkVJ 1 2 50 true (Some (- age)) [(1%positive, 1)]; mkVJ 2 2 50 true (Some (- age)) [(2%positive, 1)];
        mkVJ 3 pqueue pprio true None [(3%positive, 1)]]
       [mkVT 1 1 1 Running (Some 1%positive) [] false; mkVT 2 2 2 Running (Some 2%positive) [] false;
        mkVT 3 3 3 Pending None [] false]
       [(1%positive, 1%positive, []); (2%positive, 2%positive, [])].

(** consolidation moves w although it is inside both its preempt and its reclaim min-runtime *)
Lemma ex_consolidation_inside :
  run_scenario ex_env AConsolidation (ex_state 2400 50 2) 3 (mkSc [] [2%positive] [2%positive] 0 true)
               [(3%positive, 2%positive, []); (2%positive, 1%positive, [])]
  = Committed [VEvict 2 AConsolidation 3; VPipe 3 2 []; VPipe 2 1 []]
              (mkSS (ss_jobs (ex_state 2400 50 2))
                    [mkVT 1 1 1 Running (Some 1%positive) [] false; mkVT 2 2 2 Pipelined (Some 1%positive) [] false;
                     mkVT 3 3 3 Pipelined (Some 2%positive) [] false]
                    [(1%positive, 1%positive, []); (2%positive, 2%positive, []); (3%positive, 2%positive, []); (2%positive, 1%positive, [])])
  /\ inside_min_runtime ex_env AConsolidation (mkVJ 3 2 50 true None [(3%positive, 1)])
                        (mkVJ 2 2 50 true (Some (-2400)) [(2%positive, 1)]) = true.
Proof. split; vm_compute; reflexivity. Qed.

(** BEFORE bce7109 ([run_scenario_gen [2]]: pod 2 reaches Statement.Evict as a stale
    copy): the same pod offered twice by one statement (recorded victim offered
    again as a potential victim) gets two operations; placing the pod back on its
    node un-evicts only the first; the commit evicts it and re-places it nowhere.
    The code as it is records one operation and nothing is evicted. *)
Lemma ex_double_evict :
  (exists s', run_scenario_gen [2%positive] true true no_faults ex_env AConsolidation (ex_state 2400 50 2) 3
               (mkSc [2%positive] [] [2%positive] 0 true) [(3%positive, 2%positive, []); (2%positive, 2%positive, [])]
   = Committed [VEvict 2 AConsolidation 3; VPipe 3 2 []] s')
  /\ (exists s', run_scenario ex_env AConsolidation (ex_state 2400 50 2) 3 (mkSc [2%positive] [] [2%positive] 0 true)
               [(3%positive, 2%positive, []); (2%positive, 2%positive, [])]
   = Committed [VPipe 3 2 []] s').
Proof. split; eexists; vm_compute; reflexivity. Qed.

(** two victims v, w for one preemptor; the second Cache.Evict call of the commit is refused *)
Definition ex_second_evict_fails : faults := mkF (fun k => Nat.eqb k 1) (fun _ => false).
Definition ex_gang_scenario : scenario := mkSc [] [1%positive; 2%positive] [1%positive; 2%positive] 0 true.

(** the code as it is (repair 5a5de9a): v evicted, w refused and back to Running in the session (commitEvict
    reverses the evict operation), p nominated all the same *)
Lemma ex_refused_eviction :
  run_scenario_f ex_second_evict_fails ex_env APreempt (ex_state 18720 75 2) 3 ex_gang_scenario [(3%positive, 1%positive, [])]
  = Committed [VEvict 1 APreempt 3; VEvictFailed 2 APreempt 3; VPipe 3 1 []]
              (mkSS (ss_jobs (ex_state 18720 75 2))
                    [mkVT 1 1 1 Releasing (Some 1%positive) [] false; mkVT 2 2 2 Running (Some 2%positive) [] false;
                     mkVT 3 3 3 Pipelined (Some 1%positive) [] false]
                    [(1%positive, 1%positive, []); (2%positive, 2%positive, []); (3%positive, 1%positive, [])]).
Proof. vm_compute. reflexivity. Qed.

(** BEFORE repair 5a5de9a ([restore = false]): the same commit left w Releasing in the session *)
Lemma ex_refused_eviction_before_repair :
  run_scenario_gen [] true false ex_second_evict_fails ex_env APreempt (ex_state 18720 75 2) 3 ex_gang_scenario [(3%positive, 1%positive, [])]
  = Committed [VEvict 1 APreempt 3; VEvictFailed 2 APreempt 3; VPipe 3 1 []]
              (mkSS (ss_jobs (ex_state 18720 75 2))
                    [mkVT 1 1 1 Releasing (Some 1%positive) [] false; mkVT 2 2 2 Releasing (Some 2%positive) [] false;
                     mkVT 3 3 3 Pipelined (Some 1%positive) [] false]
                    [(1%positive, 1%positive, []); (2%positive, 2%positive, []); (3%positive, 1%positive, [])]).
Proof. vm_compute. reflexivity. Qed.

(** a consolidation victim w that the statement re-placed on node 1, its eviction refused: w is Running again
    and keeps the NEW node's name (Statement.unevict does not restore NodeName); both nodes hold a copy *)
Lemma ex_refused_moved :
  run_scenario_f (mkF (fun _ => true) (fun _ => false)) ex_env AConsolidation (ex_state 2400 50 2) 3
                 (mkSc [] [2%positive] [2%positive] 0 true) [(3%positive, 2%positive, []); (2%positive, 1%positive, [])]
  = Committed [VEvictFailed 2 AConsolidation 3; VPipe 3 2 []; VPipe 2 1 []]
              (mkSS (ss_jobs (ex_state 2400 50 2))
                    [mkVT 1 1 1 Running (Some 1%positive) [] false; mkVT 2 2 2 Running (Some 1%positive) [] false;
                     mkVT 3 3 3 Pipelined (Some 2%positive) [] false]
                    [(1%positive, 1%positive, []); (2%positive, 2%positive, []); (3%positive, 2%positive, []); (2%positive, 1%positive, [])]).
Proof. vm_compute. reflexivity. Qed.

(** the variant that returns at the first refused eviction: v is evicted for p and p is not nominated *)
Lemma ex_stop_at_refused_eviction :
  exists s', run_scenario_gen [] false true ex_second_evict_fails ex_env APreempt (ex_state 18720 75 2) 3 ex_gang_scenario
               [(3%positive, 1%positive, [])]
  = Committed [VEvict 1 APreempt 3; VEvictFailed 2 APreempt 3] s'.
Proof. eexists. vm_compute. reflexivity. Qed.

(** Commit on a statement that evicts and then ALLOCATES (no action builds one): a refused bind ends the
    commit behind an accepted eviction - the nominations that follow are dropped *)
Lemma ex_refused_bind :
  fst (commit_run true true (mkF (fun _ => false) (fun _ => true)) APreempt 3 0 0 (ex_state 18720 75 2)
                  [SEvict 1 Running [] 1 true; SAlloc 3 1 []; SPipe 3 2 []])
  = [VEvict 1 APreempt 3; VBindFailed 3 1 []].
Proof. vm_compute. reflexivity. Qed.

(** non-vacuity: preempt, reclaim and an elastic victim inside its min-runtime *)
Lemma ex_preempt_commit :
  exists s', run_scenario ex_env APreempt (ex_state 18720 75 2) 3 (mkSc [] [1%positive] [1%positive] 0 true)
               [(3%positive, 1%positive, [])]
  = Committed [VEvict 1 APreempt 3; VPipe 3 1 []] s'.
Proof. eexists. vm_compute. reflexivity. Qed.

Lemma ex_preempt_inside_refused :
  run_scenario ex_env APreempt (ex_state 2400 75 2) 3 (mkSc [] [1%positive] [1%positive] 0 true)
               [(3%positive, 1%positive, [])] = Discarded.
Proof. vm_compute. reflexivity. Qed.

Lemma ex_reclaim_commit :
  exists s', run_scenario ex_env AReclaim (ex_state 18720 50 3) 3 (mkSc [] [1%positive] [1%positive] 0 true)
               [(3%positive, 1%positive, [])]
  = Committed [VEvict 1 AReclaim 3; VPipe 3 1 []] s'.
Proof. eexists. vm_compute. reflexivity. Qed.

(** elastic job (minimum 1, two running pods) 40 min into a 4 h min-runtime: its surplus pod may go, not both *)
Definition ex_elastic : sstate :=
  mkSS [mkVJ 1 2 50 true (Some (-2400)) [(1%positive, 1)]; mkVJ 3 2 75 true None [(3%positive, 1)]]
       [mkVT 1 1 1 Running (Some 1%positive) [] false; mkVT 2 1 1 Running (Some 1%positive) [] false;
        mkVT 3 3 3 Pending None [] false]
       [(1%positive, 1%positive, []); (2%positive, 1%positive, [])].
Lemma ex_elastic_surplus :
  (exists s', run_scenario ex_env APreempt ex_elastic 3 (mkSc [] [2%positive] [2%positive] 0 true) [(3%positive, 1%positive, [])]
              = Committed [VEvict 2 APreempt 3; VPipe 3 1 []] s')
  /\ run_scenario ex_env APreempt ex_elastic 3 (mkSc [] [1%positive; 2%positive] [1%positive; 2%positive] 0 true) [(3%positive, 1%positive, [])]
     = Discarded
  /\ inside_min_runtime ex_env APreempt (mkVJ 3 2 75 true None [(3%positive, 1)]) (mkVJ 1 2 50 true (Some (-2400)) [(1%positive, 1)]) = true
  /\ job_elastic ex_elastic (mkVJ 1 2 50 true (Some (-2400)) [(1%positive, 1)]) = true.
Proof. repeat split; try (eexists; vm_compute; reflexivity); vm_compute; reflexivity. Qed.

(** the design document's tree (seconds): A(1) > B(2: 600) > C(3), D(4: 60); C > leaf1(5: 0), leaf2(6: 180); D > leaf3(7) *)
Definition doc_tree : qtree :=
  [mkVQ 1 None None None; mkVQ 2 (Some 1%positive) (Some 600) (Some 600); mkVQ 3 (Some 2%positive) None None;
   mkVQ 4 (Some 2%positive) (Some 60) (Some 60); mkVQ 5 (Some 3%positive) (Some 0) (Some 0);
   mkVQ 6 (Some 3%positive) (Some 180) (Some 180); mkVQ 7 (Some 4%positive) None None].

Lemma doc_tree_acyclic : acyclic doc_tree.
Proof.
  exists (fun id => Pos.to_nat id). intros q p Hq Hp.
  unfold canonical in *. unfold qparent in Hp.
  assert (Hin : In q doc_tree) by (eapply qlookup_in; eauto).
  cbn in Hin. repeat (destruct Hin as [<-|Hin]; [cbn in Hp; try discriminate; inversion Hp; subst; cbn; lia|]). destruct Hin.
Qed.

Lemma doc_tree_examples :
  resolve_reclaim true (fuel_of doc_tree) doc_tree 7 (qlookup doc_tree 5) (qlookup doc_tree 7) = Dur 60
  /\ resolve_reclaim true (fuel_of doc_tree) doc_tree 7 (qlookup doc_tree 5) (qlookup doc_tree 6) = Dur 180
  /\ resolve_reclaim true (fuel_of doc_tree) doc_tree 7 (qlookup doc_tree 7) (qlookup doc_tree 5) = Dur 600
  /\ resolve_preempt (fuel_of doc_tree) doc_tree 7 (qlookup doc_tree 7) = Dur 60
  /\ resolve_preempt (fuel_of doc_tree) doc_tree 7 (qlookup doc_tree 1) = Dur 7.
Proof. repeat split; vm_compute; reflexivity. Qed.

(** a parent cycle: the Go loops do not terminate *)
Lemma ex_cycle_hangs :
  let qs := [mkVQ 1 (Some 2%positive) None None; mkVQ 2 (Some 1%positive) None None] in
  resolve_preempt (fuel_of qs) qs 0 (qlookup qs 1) = NoTermination
  /\ resolve_reclaim true (fuel_of qs) qs 0 (qlookup qs 1) (qlookup qs 2) = NoTermination.
Proof. split; vm_compute; reflexivity. Qed.

(** * The statements of Properties/C06.v *)

(** clause 1 for one committed eviction; [mrt_for a]: the min-runtime conjunct is claimed for action [a] *)
Definition victim_eligible_at (mrt_for : vaction -> Prop) (env : venv) (a : vaction) (s s' : sstate) (pre t : positive) : Prop :=
  exists pj j tk,
    find_job (ss_jobs s) pre = Some pj /\ get_task (ss_tasks s) t = Some tk /\ job_of s t = Some j
    /\ vj_preemptible j = true
    /\ (a = APreempt -> vj_queue j = vj_queue pj /\ vj_prio j < vj_prio pj)
    /\ (a = AReclaim -> vj_queue j <> vj_queue pj)
    /\ (mrt_for a -> inside_min_runtime env a pj j = true ->
        job_elastic s j = true
        /\ forall m, plookup (vt_pset tk) (vj_psets j) = Some m -> m <= live_count s' (vj_id j) (vt_pset tk)).

(** every committed eviction of one statement *)
Definition victim_eligible_statement (mrt_for : vaction -> Prop) : Prop :=
  forall env a s pre sc sim calls s' t a' p',
    run_scenario env a s pre sc sim = Committed calls s' -> In (VEvict t a' p') calls ->
    a' = a /\ p' = pre /\ victim_eligible_at mrt_for env a s s' pre t.

Lemma victim_eligible_partial : victim_eligible_statement (fun a => a <> AConsolidation).
Proof.
  intros env a s pre sc sim calls s' t a' p' Hr Hev.
  destruct (victim_eligible_core _ _ _ _ _ _ _ _ _ _ _ Hr Hev) as (-> & -> & Hel). auto.
Qed.

Lemma victim_eligible_refuted : ~ victim_eligible_statement (fun _ => True).
Proof.
  intros H. destruct ex_consolidation_inside as (Hrun & Hins).
  destruct (H _ _ _ _ _ _ _ _ 2%positive AConsolidation 3%positive Hrun (or_introl eq_refl))
    as (_ & _ & pj & j & tk & Hpj & Htk & Hjob & _ & _ & _ & Hm).
  vm_compute in Hpj. injection Hpj as <-.
  unfold job_of in Hjob. rewrite Htk in Hjob. vm_compute in Htk. injection Htk as <-.
  vm_compute in Hjob. injection Hjob as <-.
  destruct (Hm I Hins) as (Hel & _). vm_compute in Hel. discriminate.
Qed.

(** under any failure oracle: an Evict call, accepted or refused, is an eviction of the same scenario's commit
    without failures, and is eligible as above - with the live pods counted in the session [s0] that commit
    leaves AND in the session [s'] the commit under the oracle really leaves (since repair 5a5de9a a refused
    victim is back to its pre-eviction status there: the two sessions differ, on victim pods only) *)
Lemma victim_eligible_faults : forall f env a s pre sc sim calls s' x t a' p',
  run_scenario_f f env a s pre sc sim = Committed calls s' ->
  evict_call_of x t a' p' -> In x calls ->
  a' = a /\ p' = pre
  /\ victim_eligible_at (fun a => a <> AConsolidation) env a s s' pre t
  /\ exists s0, run_scenario env a s pre sc sim = Committed (map as_accepted calls) s0
       /\ victim_eligible_at (fun a => a <> AConsolidation) env a s s0 pre t.
Proof.
  intros f env a s pre sc sim calls s' x t a' p' Hr Hx Hin.
  destruct (faults_decompose _ _ _ _ _ _ _ _ _ Hr) as (s0 & ops2 & H0 & Hc & Hna & _ & Hids & _).
  pose proof (as_accepted_evict _ _ _ _ _ Hx Hin) as Hev.
  destruct (victim_eligible_core _ _ _ _ _ _ _ _ _ _ _ H0 Hev) as (-> & -> & Hel).
  split; [reflexivity|]. split; [reflexivity|]. split; [|exists s0; auto].
  assert (HR : forall j0, same_but (victims_may_differ s0 (sc_victims sc) j0) (ss_tasks s0) (ss_tasks s')).
  { intros j0. eapply faults_touch_victims_only; eauto. }
  destruct (victim_eligible_gen _ _ _ _ _ _ _ _ s' _ _ _ H0 HR Hev) as (_ & _ & Hel'). exact Hel'.
Qed.

(** a refused eviction leaves the pod as the scenario found it: in the session the commit leaves, the pod
    has its pre-eviction status - which is not Releasing - and GPU groups ([restore = true]: the code as it is) *)
Definition refused_eviction_restores_statement (restore : bool) : Prop :=
  forall f env a s pre sc sim calls s' t a' p',
    run_scenario_gen [] true restore f env a s pre sc sim = Committed calls s' ->
    In (VEvictFailed t a' p') calls ->
    exists tk tk', get_task (ss_tasks s) t = Some tk /\ get_task (ss_tasks s') t = Some tk'
      /\ vt_status tk' = vt_status tk /\ vt_groups tk' = vt_groups tk /\ vt_status tk' <> Releasing.

Lemma refused_eviction_restores : refused_eviction_restores_statement true.
Proof.
  intros f env a s pre sc sim calls s' t a' p' Hr Hin.
  destruct (faults_decompose _ _ _ _ _ _ _ _ _ Hr) as (s2 & ops2 & _ & Hc & Hna & Hframe & _ & Hrec).
  assert (Hin' : In (VEvictFailed t a' p') (fst (commit_run true true f a pre 0 0 s2 ops2))) by (rewrite Hc; exact Hin).
  destruct (commit_run_evicts true true f a pre ops2 0 0 s2 t a' p' _ (or_intror eq_refl) Hin') as (_ & _ & prev & pg & pn & Hop).
  destruct (Hrec _ _ _ _ Hop) as (Hnr & tk & Htk & Hst & Hgr).
  assert (Hfr : frame (ss_tasks s) = frame (ss_tasks s2)) by (symmetry; exact Hframe).
  destruct (get_task_frame _ _ _ _ Hfr Htk) as (tk2 & Htk2 & _).
  assert (Hall : forall prev' pg' pn', In (SEvict t prev' pg' pn' true) ops2 -> prev' = vt_status tk /\ pg' = vt_groups tk).
  { intros prev' pg' pn' Hop'. destruct (Hrec _ _ _ _ Hop') as (_ & tk0 & Htk0 & Hs0 & Hg0).
    rewrite Htk in Htk0. inversion Htk0; subst. auto. }
  destruct (commit_run_restores f a pre t (vt_status tk) (vt_groups tk) ops2 0 0 s2 tk2 Hna Hall Htk2
              (or_intror (ex_intro _ a' (ex_intro _ p' Hin')))) as (tk' & Htk' & Hs' & Hg' & _).
  rewrite Hc in Htk'. cbn [snd] in Htk'.
  exists tk, tk'. repeat split; auto. rewrite Hs', Hst. exact Hnr.
Qed.

(** the same for every commit of any sequence of scenarios, whatever Cache calls fail (the state [si] in which the
    statement was built has the cycle's jobs; [sj]: the session the commit REALLY leaves under its oracle, from
    which the action goes on) *)
Lemma victim_eligible_cycle : forall env s steps cs sf,
  run_steps env s steps = Some (cs, sf) ->
  forall st calls, In (st, calls) cs ->
  forall x t a' p', evict_call_of x t a' p' -> In x calls ->
  a' = sp_action st /\ p' = sp_preemptor st
  /\ exists si sj, ss_jobs si = ss_jobs s
       /\ run_scenario_f (sp_faults st) env (sp_action st) si (sp_preemptor st) (sp_scenario st) (sp_sim st) = Committed calls sj
       /\ victim_eligible_at (fun a => a <> AConsolidation) env (sp_action st) si sj (sp_preemptor st) t.
Proof.
  intros env s steps cs sf Hrun st calls Hin x t a' p' Hx Hev.
  pose proof (run_steps_commits _ _ _ _ _ Hrun) as Hall. rewrite Forall_forall in Hall.
  destruct (Hall _ Hin) as (si & sj & Hj & Hr). cbn [fst snd] in Hr.
  destruct (victim_eligible_faults _ _ _ _ _ _ _ _ _ _ _ _ _ Hr Hx Hev) as (-> & -> & Hel & _).
  split; [reflexivity|]. split; [reflexivity|]. exists si, sj. auto.
Qed.

(** every refused eviction of every commit of any sequence of scenarios leaves the pod as that commit's scenario found it *)
Lemma refused_eviction_restores_cycle : forall env s steps cs sf,
  run_steps env s steps = Some (cs, sf) ->
  forall st calls, In (st, calls) cs ->
  forall t a' p', In (VEvictFailed t a' p') calls ->
  exists si sj, ss_jobs si = ss_jobs s
    /\ run_scenario_f (sp_faults st) env (sp_action st) si (sp_preemptor st) (sp_scenario st) (sp_sim st) = Committed calls sj
    /\ exists tk tk', get_task (ss_tasks si) t = Some tk /\ get_task (ss_tasks sj) t = Some tk'
         /\ vt_status tk' = vt_status tk /\ vt_groups tk' = vt_groups tk /\ vt_status tk' <> Releasing.
Proof.
  intros env s steps cs sf Hrun st calls Hin t a' p' Hev.
  pose proof (run_steps_commits _ _ _ _ _ Hrun) as Hall. rewrite Forall_forall in Hall.
  destruct (Hall _ Hin) as (si & sj & Hj & Hr). cbn [fst snd] in Hr.
  exists si, sj. split; [exact Hj|]. split; [exact Hr|]. eapply refused_eviction_restores; eauto.
Qed.

(** clause 2 under any failure oracle: every nomination of the commit without failures is issued - among
    them one for a pod of the pending job - whichever evictions were refused *)
Lemma eviction_has_purpose_faults : forall f env a s pre sc sim calls s',
  run_scenario_f f env a s pre sc sim = Committed calls s' ->
  (exists t n gs tk, In (VPipe t n gs) calls /\ get_task (ss_tasks s) t = Some tk /\ vt_job tk = pre)
  /\ exists calls0 s0, run_scenario env a s pre sc sim = Committed calls0 s0
        /\ forall t n gs, In (VPipe t n gs) calls0 <-> In (VPipe t n gs) calls.
Proof.
  intros f env a s pre sc sim calls s' Hr.
  destruct (faults_only_refuse _ _ _ _ _ _ _ _ _ Hr) as (s0 & H0).
  split.
  - destruct (eviction_has_purpose_core _ _ _ _ _ _ _ _ H0) as (t & n & gs & tk & Hin & Htk & Hj).
    exists t, n, gs, tk. split; [now apply as_accepted_pipe | auto].
  - exists (map as_accepted calls), s0. split; [exact H0|]. intros t n gs. apply as_accepted_pipe.
Qed.

Lemma eviction_has_purpose_cycle : forall env s steps cs sf,
  run_steps env s steps = Some (cs, sf) ->
  forall st calls, In (st, calls) cs ->
  exists si, ss_jobs si = ss_jobs s
    /\ exists t n gs tk, In (VPipe t n gs) calls /\ get_task (ss_tasks si) t = Some tk /\ vt_job tk = sp_preemptor st.
Proof.
  intros env s steps cs sf Hrun st calls Hin.
  pose proof (run_steps_commits _ _ _ _ _ Hrun) as Hall. rewrite Forall_forall in Hall.
  destruct (Hall _ Hin) as (si & sj & Hj & Hr). cbn [fst snd] in Hr.
  exists si. split; auto. eapply eviction_has_purpose_faults; eauto.
Qed.

(** before repair 5a5de9a a refused eviction left the pod Releasing *)
Lemma refused_eviction_restores_before_repair : ~ refused_eviction_restores_statement false.
Proof.
  intros H.
  destruct (H _ _ _ _ _ _ _ _ _ 2%positive APreempt 3%positive ex_refused_eviction_before_repair (or_intror (or_introl eq_refl)))
    as (tk & tk' & _ & Htk' & _ & _ & Hnr).
  vm_compute in Htk'. injection Htk' as <-. apply Hnr. reflexivity.
Qed.

(** the variant of Commit that returns at the first refused eviction breaks clause 2 *)
Lemma commit_must_carry_on :
  exists f env a s pre sc sim calls s' t,
    run_scenario_gen [] false true f env a s pre sc sim = Committed calls s'
    /\ In (VEvict t a pre) calls /\ forall t' n gs, ~ In (VPipe t' n gs) calls.
Proof.
  destruct ex_stop_at_refused_eviction as (s' & H).
  do 9 eexists. exists 1%positive. split; [exact H|]. split; [now left|].
  intros t' n gs [E|[E|[]]]; discriminate.
Qed.

(** clause 3, for a given set of stale copies ([[]]: the code as it is) and every failure oracle *)
Definition consolidation_moves_statement (stale : list positive) : Prop :=
  forall f env s pre sc sim calls s' t a' p',
    run_scenario_gen stale true true f env AConsolidation s pre sc sim = Committed calls s' ->
    In (VEvict t a' p') calls ->
    exists n gs, In (VPipe t n gs) calls /\ good_move s t n gs.

(** under any failure oracle: an ACCEPTED consolidation eviction is re-placed by the same commit *)
Lemma consolidation_moves_faults : forall f env s pre sc sim calls s' t a' p',
  run_scenario_f f env AConsolidation s pre sc sim = Committed calls s' ->
  In (VEvict t a' p') calls ->
  exists n gs, In (VPipe t n gs) calls /\ good_move s t n gs.
Proof.
  intros f env s pre sc sim calls s' t a' p' Hr Hev.
  destruct (faults_only_refuse _ _ _ _ _ _ _ _ _ Hr) as (s0 & H0).
  assert (Hev0 : In (VEvict t a' p') (map as_accepted calls)) by (eapply as_accepted_evict; eauto; now left).
  destruct (consolidation_moves_core _ _ _ _ _ _ _ _ _ _ H0 Hev0) as (n & gs & Hin & Hg).
  exists n, gs. split; [now apply as_accepted_pipe | exact Hg].
Qed.

Lemma consolidation_moves : consolidation_moves_statement [].
Proof. intros f env s pre sc sim calls s' t a' p' Hr Hev. eapply consolidation_moves_faults; eauto. Qed.

Lemma consolidation_moves_before_repair : ~ (forall stale, consolidation_moves_statement stale).
Proof.
  intros H. destruct ex_double_evict as ((s' & Hrun) & _).
  destruct (H [2%positive] no_faults _ _ _ _ _ _ _ 2%positive AConsolidation 3%positive Hrun (or_introl eq_refl)) as (n & gs & Hin & _).
  cbn in Hin. destruct Hin as [E|[E|[]]]; discriminate.
Qed.

Lemma consolidation_moves_cycle : forall env s steps cs sf,
  run_steps env s steps = Some (cs, sf) ->
  forall st calls, In (st, calls) cs -> sp_action st = AConsolidation ->
  forall t a' p', In (VEvict t a' p') calls ->
  exists si, ss_jobs si = ss_jobs s /\ exists n gs, In (VPipe t n gs) calls /\ good_move si t n gs.
Proof.
  intros env s steps cs sf Hrun st calls Hin Ha t a' p' Hev.
  pose proof (run_steps_commits _ _ _ _ _ Hrun) as Hall. rewrite Forall_forall in Hall.
  destruct (Hall _ Hin) as (si & sj & Hj & Hr). cbn [fst snd] in Hr. rewrite Ha in Hr.
  exists si. split; auto. eapply consolidation_moves_faults; eauto.
Qed.
