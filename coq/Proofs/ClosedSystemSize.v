(** Proofs for property C15: size consistency (Model/ClosedSystem.v, section "SIZE CONSISTENCY").
    Where the rank proof uses "the gate counts a pending job by the size it is charged once it runs":
    [reclaim_ok] is the gate with that built in; [reclaim_ok_sized g] counts the reclaimer by [gate_size g].
    - consistent sizes: the two gates are the same function ([reclaim_ok_sized_consistent]);
    - a gate that never under-counts only refuses more ([reclaim_ok_sized_mono]): every decision it admits is a
      decision of the class, so the rank decreases, no lasso, finitely many evicting cycles;
    - a gate that counts a request on 2 devices as the request on one device: a period-2 lasso ([uc_*]). *)
Set Default Timeout 60.
From Coq Require Import List ZArith Bool Lia.
From KaiV Require Import Model.ClosedSystem Proofs.ClosedSystem Proofs.ClosedSystemOrder.
Import ListNotations.
Open Scope Z_scope.

Lemma find_job_id_in : forall js i J, find_job js i = Some J -> In i (map j_id js).
Proof.
  intros js i J H. destruct (find_job_some js i J H) as [E HI]. rewrite <- E. now apply in_map.
Qed.

Lemma saturation_sized_same : forall mn md sz ar Fr ae Fe,
  saturation_ok_sized mn md sz sz ar Fr ae Fe = saturation_ok mn md sz ar Fr ae Fe.
Proof. reflexivity. Qed.

(** * consistent sizes: the sized gate IS the gate of the class *)
Lemma reclaim_ok_sized_consistent : forall g m p s j v,
  size_consistent p g -> reclaim_ok_sized g m p s j v = reclaim_ok m p s j v.
Proof.
  intros g m p s j v Hc. unfold reclaim_ok_sized, reclaim_ok.
  destruct (find_job (p_jobs p) j) as [J|] eqn:EJ; [|reflexivity].
  rewrite (Hc j (find_job_id_in _ _ _ EJ)). unfold charged_size. reflexivity.
Qed.

(** * a gate that never under-counts admits only decisions of the class *)
Lemma fits_strategy_mono : forall sz gz ar Dr ae Fe De,
  sz <= gz -> fits_strategy gz ar Dr ae Fe De = true -> fits_strategy sz ar Dr ae Fe De = true.
Proof.
  intros sz gz ar Dr ae Fe De Hle H. unfold fits_strategy in *.
  apply orb_prop in H as [H|H]; [now rewrite H|].
  apply andb_prop in H as [H1 H2]. apply Z.leb_le in H1.
  assert (E : (ar + sz <=? Dr) = true) by (apply Z.leb_le; lia).
  rewrite E, H2. now rewrite orb_true_r.
Qed.

Lemma saturation_sized_mono : forall mn md sz gz cz ar Fr ae Fe,
  0 < mn -> sz <= gz ->
  saturation_ok_sized mn md gz cz ar Fr ae Fe = true -> saturation_ok_sized mn md sz cz ar Fr ae Fe = true.
Proof.
  intros mn md sz gz cz ar Fr ae Fe Hmn Hle H. unfold saturation_ok_sized in *. cbv zeta in *.
  apply negb_true_iff in H. apply negb_true_iff.
  destruct ((Fr <? ar + sz) && (0 <? Fe) && (if Fr =? 0 then true else (ae - cz) * Fr * md <=? (ar + sz) * mn * Fe)) eqn:E;
    [|reflexivity].
  exfalso. apply andb_prop in E as [E E3]. apply andb_prop in E as [E1 E2].
  apply Z.ltb_lt in E1. pose proof E2 as E2'. apply Z.ltb_lt in E2'.
  assert (A1 : (Fr <? ar + gz) = true) by (apply Z.ltb_lt; lia).
  rewrite A1, E2 in H. cbn [andb] in H.
  destruct (Fr =? 0); [discriminate|].
  apply Z.leb_le in E3. apply Z.leb_gt in H.
  assert (Hm : (ar + sz) * mn * Fe <= (ar + gz) * mn * Fe).
  { rewrite <- !Z.mul_assoc. apply Z.mul_le_mono_nonneg_r; [nia|lia]. }
  lia.
Qed.

Lemma reclaim_ok_sized_mono : forall g m p s j v,
  never_undercounted p g -> wf_multb m = true ->
  reclaim_ok_sized g m p s j v = true -> reclaim_ok m p s j v = true.
Proof.
  intros g m p s j v Hn Hm H. destruct (wf_mult_spec m Hm) as [Hmd Hmn].
  unfold reclaim_ok_sized in H. unfold reclaim_ok.
  destruct (find_job (p_jobs p) j) as [J|] eqn:EJ; [|discriminate].
  destruct (find_job (p_jobs p) v) as [V|]; [|discriminate].
  destruct (find_queue (p_queues p) (j_queue J)) as [Q|]; [|discriminate].
  destruct (find_queue (p_queues p) (j_queue V)) as [Q'|]; [|discriminate].
  pose proof (Hn j (find_job_id_in _ _ _ EJ)) as Hle. unfold charged_size in *.
  apply andb_prop in H as [H H5]. apply andb_prop in H as [H H4].
  rewrite H. cbn [andb].
  apply Z.leb_le in H4.
  assert (E4 : (aq p s (q_id Q) + p_sz p <=? q_fair Q) = true) by (apply Z.leb_le; lia).
  rewrite E4. cbn [andb].
  destruct (Pos.eqb (q_dept Q) (q_dept Q')).
  - eapply fits_strategy_mono; eassumption.
  - destruct (find_dept (p_depts p) (q_dept Q)) as [P|]; [|discriminate].
    destruct (find_dept (p_depts p) (q_dept Q')) as [P'|]; [|discriminate].
    apply andb_prop in H5 as [H51 H52].
    rewrite (fits_strategy_mono _ _ _ _ _ _ _ Hle H51). cbn [andb].
    rewrite <- saturation_sized_same.
    eapply saturation_sized_mono; [lia|exact Hle|exact H52].
Qed.

Lemma apply_sized_is_apply : forall g m p s d s',
  never_undercounted p g -> wf_multb m = true ->
  apply_sized g m p s d = Some s' -> apply m p s d = Some s'.
Proof.
  intros g m p s d s' Hn Hm H. destruct d as [j|j v|j v]; cbn [apply_sized apply] in *; try exact H.
  destruct (reclaim_ok_sized g m p s j v) eqn:E; [|discriminate].
  now rewrite (reclaim_ok_sized_mono g m p s j v Hn Hm E).
Qed.

Lemma run_sized_is_run : forall g m p ds s s',
  never_undercounted p g -> wf_multb m = true ->
  run_sized g m p s ds = Some s' -> run m p s ds = Some s'.
Proof.
  intros g m p ds. induction ds as [|d r IH]; intros s s' Hn Hm H; cbn [run_sized run] in *; [exact H|].
  destruct (apply_sized g m p s d) as [s1|] eqn:E; [|discriminate].
  rewrite (apply_sized_is_apply g m p s d s1 Hn Hm E). now apply IH.
Qed.

Lemma consistent_never_undercounted : forall p g, size_consistent p g -> never_undercounted p g.
Proof. intros p g H j Hj. rewrite (H j Hj). lia. Qed.

(** the rank of C15_rank_decreases decreases with every decision the sized gate admits *)
Theorem sized_rank_decreases : forall g m p s d s',
  never_undercounted p g ->
  wf_paramsb p = true -> wf_multb m = true -> within_cap p s ->
  apply_sized g m p s d = Some s' -> lexlt (rank p s') (rank p s).
Proof.
  intros g m p s d s' Hn W Hm Hc H.
  exact (p_rank_decreases m p s d s' W Hm Hc (apply_sized_is_apply g m p s d s' Hn Hm H)).
Qed.

Lemma sized_run_is_class_run : forall g m p r,
  never_undercounted p g -> wf_multb m = true ->
  is_run (sized_system g m p) r -> is_run (class_system m p) r.
Proof.
  intros g m p r Hn Hm Hr c. destruct (Hr c) as [Hc [ds H]]. split; [exact Hc|].
  exists ds. now apply (run_sized_is_run g).
Qed.

Theorem sized_no_lasso : forall g m p,
  never_undercounted p g -> wf_paramsb p = true -> wf_multb m = true -> no_lasso (sized_system g m p).
Proof.
  intros g m p Hn W Hm r Hr i c k Hick [ds [H He]].
  apply (p_no_lasso m p W Hm r (sized_run_is_class_run g m p r Hn Hm Hr) i c k Hick).
  exists ds. split; [now apply (run_sized_is_run g)|exact He].
Qed.

Theorem sized_finitely_many : forall g m p,
  never_undercounted p g -> wf_paramsb p = true -> wf_multb m = true ->
  finitely_many_evictions (sized_system g m p).
Proof.
  intros g m p Hn W Hm r Hr Hinf.
  apply (p_finitely_many m p W Hm r (sized_run_is_class_run g m p r Hn Hm Hr)).
  intros n. destruct (Hinf n) as (c & Hc & [ds [H He]]). exists c. split; [exact Hc|].
  exists ds. split; [now apply (run_sized_is_run g)|exact He].
Qed.

(** * reclaim (through the solver's simulation) followed by allocate *)
Lemma reclaim_sim_sized_is_sim : forall g m o js p s j v s1,
  never_undercounted p g -> wf_multb m = true ->
  reclaim_sim_sized g m o js p s j v = Some s1 -> reclaim_sim m o js p s j v = Some s1.
Proof.
  intros g m o js p s j v s1 Hn Hm H. unfold reclaim_sim_sized in H. unfold reclaim_sim.
  destruct (reclaim_ok_sized g m p s j v) eqn:E; [|discriminate].
  now rewrite (reclaim_ok_sized_mono g m p s j v Hn Hm E).
Qed.

Theorem sized_reclaim_then_allocate : forall g m o p s j v s1,
  size_consistent p g ->
  order_sound o -> nodupb s = true -> free p s = 0 ->
  wf_paramsb p = true -> wf_multb m = true ->
  reclaim_sim_sized g m o all_pending p s j v = Some s1 ->
  first_pop o p (remove1 v s) = Some j ->
  lexlt (rank p (allocate o p s1)) (rank p s) /\ allocate o p s1 <> s.
Proof.
  intros g m o p s j v s1 Hc Hs Hnd Hf W Hm H Hfirst.
  apply (shared_order_rank m o p s j v s1 Hs Hnd Hf W Hm); [|exact Hfirst].
  apply (reclaim_sim_sized_is_sim g); [now apply consistent_never_undercounted|exact Hm|exact H].
Qed.

Theorem sized_reclaim_not_rebound : forall g m o p s j v s1,
  never_undercounted p g -> wf_multb m = true ->
  order_sound o -> nodupb s = true -> free p s = 0 ->
  reclaim_sim_sized g m o all_pending p s j v = Some s1 ->
  s1 = remove1 v s /\ mem v (allocate o p s1) = false.
Proof.
  intros g m o p s j v s1 Hn Hm Hs Hnd Hf H.
  pose proof (reclaim_sim_sized_is_sim g m o all_pending p s j v s1 Hn Hm H) as H'.
  destruct (shared_order_not_rebound m o p s j v Hs Hnd Hf s1 H') as (E & x & _ & _ & _ & _ & Hv).
  split; assumption.
Qed.

(** * the witness of seeded change C15-3: a request on two devices counted as the request on one *)
(** One department (unlimited), two slots, every job is charged 6 (0.6 GPU in units of 0.1: the elastic pods and -
    in this equal-size analogue - the reclaimer of seeded/C15-3/README.md); queue A (1): fair share 10, deserved 5;
    queue B (2): fair share 10, deserved 10.  Jobs: 1 in A; 2, 3 in B.  The gate counts every pending job as 3.
    s0 = B holds both slots (12 > fair share 10).  Job 1 reclaims job 3: counted 0 + 3 <= 10, B is above its fair
    share.  s1 = A holds 6, B holds 6.  Job 3 reclaims job 1: counted 6 + 3 = 9 <= 10 = deserved(B) and A (6) is
    above its deserved quota 5 - although B really ends at 12 > 10.  That is s0 again. *)
Definition uc_params : params := {|
  p_sz := 6; p_slots := 2;
  p_queues := [mkQueue 1%positive 1%positive 10 5; mkQueue 2%positive 1%positive 10 10];
  p_depts := [mkDept 1%positive 12 12];
  p_jobs := [mkJob 1%positive 1%positive 50; mkJob 2%positive 2%positive 50; mkJob 3%positive 2%positive 50];
|}.
Definition uc_gate : sizing := fun _ => 3.
Definition uc_s0 : state := [3; 2]%positive.
Definition uc_s1 : state := [1; 2]%positive.

Lemma uc_facts :
  wf_paramsb uc_params = true /\ wf_multb (1, 1) = true /\ within_cap uc_params uc_s0
  /\ run_sized uc_gate (1, 1) uc_params uc_s0 [DReclaim 1 3]%positive = Some uc_s1
  /\ run_sized uc_gate (1, 1) uc_params uc_s1 [DReclaim 3 1]%positive = Some uc_s0
  /\ run (1, 1) uc_params uc_s0 [DReclaim 1 3]%positive = Some uc_s1
  /\ run (1, 1) uc_params uc_s1 [DReclaim 3 1]%positive = None.
Proof. repeat split; try (vm_compute; reflexivity); vm_compute; intros; discriminate. Qed.

Lemma uc_undercounted : undercounted_by 2 uc_params uc_gate.
Proof. split; [lia|]. intros j _. reflexivity. Qed.

Definition uc_run (n : nat) : state := if Nat.even n then uc_s0 else uc_s1.

Lemma uc_is_run : is_run (sized_system uc_gate (1, 1) uc_params) uc_run.
Proof.
  intros n. unfold uc_run. rewrite Nat.even_succ, <- Nat.negb_even.
  destruct (Nat.even n); cbn [negb]; split.
  - vm_compute. intros; discriminate.
  - exists [DReclaim 1 3]%positive. vm_compute. reflexivity.
  - vm_compute. intros; discriminate.
  - exists [DReclaim 3 1]%positive. vm_compute. reflexivity.
Qed.

Lemma uc_not_no_lasso : ~ no_lasso (sized_system uc_gate (1, 1) uc_params).
Proof.
  intros H. apply (H uc_run uc_is_run 0%nat 0%nat 2%nat); [lia| |reflexivity].
  exists [DReclaim 1 3]%positive. split; vm_compute; reflexivity.
Qed.

Theorem undercounted_gate_lasso :
  exists g p s0 s1 j v,
    wf_paramsb p = true /\ undercounted_by 2 p g /\ within_cap p s0
    /\ run_sized g (1, 1) p s0 [DReclaim j v] = Some s1 /\ run_sized g (1, 1) p s1 [DReclaim v j] = Some s0
    /\ ~ no_lasso (sized_system g (1, 1) p)
    /\ run (1, 1) p s1 [DReclaim v j] = None
    /\ no_lasso (class_system (1, 1) p)
    /\ (forall g', size_consistent p g' -> no_lasso (sized_system g' (1, 1) p)).
Proof.
  exists uc_gate, uc_params, uc_s0, uc_s1, 1%positive, 3%positive.
  destruct uc_facts as (W & Hm & Hc & R1 & R2 & _ & C2).
  split; [exact W|]. split; [exact uc_undercounted|]. split; [exact Hc|].
  split; [exact R1|]. split; [exact R2|]. split; [exact uc_not_no_lasso|]. split; [exact C2|].
  split; [exact (p_no_lasso (1, 1) uc_params W Hm)|].
  intros g' Hg'. apply sized_no_lasso; [now apply consistent_never_undercounted|exact W|exact Hm].
Qed.

Definition no_lasso_any_gate_size : Prop :=
  forall g m p, wf_paramsb p = true -> wf_multb m = true -> no_lasso (sized_system g m p).

Lemma any_gate_size_refuted : ~ no_lasso_any_gate_size.
Proof.
  intros H. apply uc_not_no_lasso. apply H; vm_compute; reflexivity.
Qed.

(** non-vacuity of the hypotheses: the constant sizing [p_sz] is consistent; a sizing that counts more (devices
    of different memories) never under-counts and still admits a reclaim *)
Lemma sized_nonvacuous :
  size_consistent uc_params (fun _ => 6) /\ never_undercounted uc_params (fun _ => 8)
  /\ ~ size_consistent uc_params (fun _ => 8)
  /\ run_sized (fun _ => 8) (1, 1) uc_params uc_s0 [DReclaim 1 3]%positive = Some uc_s1
  /\ run_sized (fun _ => 6) (1, 1) uc_params uc_s0 [DReclaim 1 3]%positive = Some uc_s1.
Proof.
  split; [intros j _; reflexivity|]. split; [intros j _; vm_compute; discriminate|].
  split; [|split; vm_compute; reflexivity].
  intros H. specialize (H 1%positive). cbn in H. assert (X : (8 = 6)%Z) by (apply H; now left). discriminate.
Qed.
